/-
  C12 — lemmas about the tree model: `_set_id` propagation, `__setitem__`, `__delitem__`, copies.
-/
import PydapModel.Heap
import Proofs.Quote
namespace Pydap.Tree
open Pydap.Quote

/-! ### `_set_id` propagation -/

theorem setIdKids_keys (pk : Kind) (pid : Str) (vis : List Str) (f : Forest) :
    (setIdKids pk pid vis f).keys = f.keys := by
  induction f generalizing pk pid vis with
  | nil => rfl
  | cons h kids rest ihk ihr =>
    simp only [setIdKids]
    split <;> simp [Forest.keys, ihr]

theorem setIdKids_nil_iff (pk : Kind) (pid : Str) (vis : List Str) (f : Forest) :
    (setIdKids pk pid vis f == .nil) = (f == .nil) := by
  cases f with
  | nil => rfl
  | cons h kids rest =>
    simp only [setIdKids]
    split <;> rfl

theorem setIdKids_shape (pk : Kind) (pid : Str) (vis : List Str) (f : Forest) :
    shapeOk (setIdKids pk pid vis f) = shapeOk f := by
  induction f generalizing pk pid vis with
  | nil => rfl
  | cons h kids rest ihk ihr =>
    simp only [setIdKids]
    split
    · simp only [shapeOk, setIdKids_keys, ihk, ihr, visOk, setIdKids_nil_iff]
    · simp only [shapeOk, setIdKids_keys, ihr]

/-- after `_set_id` every listed descendant carries the id derived from its parent -/
theorem setIdKids_ids (pk : Kind) (pid : Str) (vis : List Str) (f : Forest)
    (pk0 : Kind) (pid0 : Str) (vis0 : List Str) (h0 : idsOk pk0 pid0 vis0 f = true) :
    idsOk pk pid vis (setIdKids pk pid vis f) = true := by
  induction f generalizing pk pid vis pk0 pid0 vis0 with
  | nil => rfl
  | cons h kids rest ihk ihr =>
    simp only [idsOk, Bool.and_eq_true] at h0
    obtain ⟨⟨_, hk⟩, hr⟩ := h0
    simp only [setIdKids]
    split
    · rename_i hl
      simp only [idsOk, hl, Bool.and_eq_true]
      refine ⟨⟨by simp, ihk _ _ _ _ _ _ hk⟩, ihr _ _ _ _ _ _ hr⟩
    · rename_i hl
      simp only [idsOk, Bool.and_eq_true]
      refine ⟨⟨by simp [hl], hk⟩, ihr _ _ _ _ _ _ hr⟩

/-! ### dict operations -/

theorem keys_put (o : Obj) (f : Forest) :
    ∀ x, x ∈ (f.put o).keys ↔ (x ∈ f.keys ∨ x = o.hdr.name) := by
  induction f with
  | nil => intro x; simp [Forest.put, Forest.keys]
  | cons h kids rest _ ihr =>
    intro x
    simp only [Forest.put]
    split
    · rename_i he; simp only [Forest.keys, List.mem_cons, he]; grind
    · simp only [Forest.keys, List.mem_cons, ihr x]; grind

theorem keys_remove_sub (k : Str) (f : Forest) : ∀ x, x ∈ (f.remove k).keys → x ∈ f.keys := by
  induction f with
  | nil => intro x h; exact h
  | cons h kids rest _ ihr =>
    intro x hx
    simp only [Forest.remove] at hx
    split at hx
    · simp [Forest.keys, hx]
    · simp only [Forest.keys, List.mem_cons] at hx ⊢
      rcases hx with hx | hx
      · exact Or.inl hx
      · exact Or.inr (ihr x hx)

theorem keys_remove_mem (k : Str) (f : Forest) : ∀ x, x ∈ f.keys → x ≠ k → x ∈ (f.remove k).keys := by
  induction f with
  | nil => intro x h; exact absurd h (by simp [Forest.keys])
  | cons h kids rest _ ihr =>
    intro x hx hne
    simp only [Forest.keys, List.mem_cons] at hx
    simp only [Forest.remove]
    split
    · rename_i he
      rcases hx with hx | hx
      · exact absurd (hx.trans he) hne
      · exact hx
    · simp only [Forest.keys, List.mem_cons]
      rcases hx with hx | hx
      · exact Or.inl hx
      · exact Or.inr (ihr x hx hne)

/-- the shape of one object with its subtree -/
def shapeO (o : Obj) : Bool := shapeOk (.cons o.hdr o.kids .nil)

theorem shapeOk_put (o : Obj) (f : Forest) (hf : shapeOk f = true) (ho : shapeO o = true) :
    shapeOk (f.put o) = true := by
  induction f with
  | nil => simpa [Forest.put, shapeO] using ho
  | cons h kids rest _ ihr =>
    simp only [shapeOk, Bool.and_eq_true] at hf
    obtain ⟨⟨⟨⟨⟨⟨h1, h2⟩, h3⟩, h4⟩, h5⟩, h6⟩, h7⟩ := hf
    simp only [shapeO, shapeOk, Bool.and_eq_true] at ho
    obtain ⟨⟨⟨⟨⟨⟨o1, o2⟩, _⟩, o4⟩, o5⟩, o6⟩, _⟩ := ho
    simp only [Forest.put]
    split
    · rename_i he
      simp only [shapeOk, Bool.and_eq_true]
      rw [← he]
      refine ⟨⟨⟨⟨⟨⟨?_, ?_⟩, h3⟩, o4⟩, o5⟩, o6⟩, h7⟩
      · rw [he]; exact o1
      · rw [he]; exact o2
    · rename_i hne
      simp only [shapeOk, Bool.and_eq_true]
      refine ⟨⟨⟨⟨⟨⟨h1, h2⟩, ?_⟩, h4⟩, h5⟩, h6⟩, ihr h7⟩
      simp only [Bool.not_eq_true', List.contains_eq_mem, decide_eq_false_iff_not] at h3 ⊢
      intro hm
      rcases (keys_put o rest h.name).1 hm with hm | hm
      · exact h3 hm
      · exact hne hm

theorem shapeOk_remove (k : Str) (f : Forest) (hf : shapeOk f = true) : shapeOk (f.remove k) = true := by
  induction f with
  | nil => rfl
  | cons h kids rest _ ihr =>
    simp only [shapeOk, Bool.and_eq_true] at hf
    obtain ⟨⟨⟨⟨⟨⟨h1, h2⟩, h3⟩, h4⟩, h5⟩, h6⟩, h7⟩ := hf
    simp only [Forest.remove]
    split
    · exact h7
    · simp only [shapeOk, Bool.and_eq_true]
      refine ⟨⟨⟨⟨⟨⟨h1, h2⟩, ?_⟩, h4⟩, h5⟩, h6⟩, ihr h7⟩
      simp only [Bool.not_eq_true', List.contains_eq_mem, decide_eq_false_iff_not] at h3 ⊢
      exact fun hm => h3 (keys_remove_sub k rest _ hm)

/-- ids below a parent only matter for the listed children: fewer listed children, same verdict -/
theorem idsOk_mono (pk : Kind) (pid : Str) (vis vis' : List Str) (f : Forest)
    (hsub : ∀ n, listed vis' n = true → listed vis n = true) (h : idsOk pk pid vis f = true) :
    idsOk pk pid vis' f = true := by
  induction f with
  | nil => rfl
  | cons h0 kids rest _ ihr =>
    simp only [idsOk, Bool.and_eq_true, Bool.or_eq_true, Bool.not_eq_true'] at h ⊢
    obtain ⟨⟨h1, h2⟩, h3⟩ := h
    refine ⟨⟨?_, h2⟩, ihr h3⟩
    rcases h1 with h1 | h1
    · left
      cases hl : listed vis' h0.name with
      | false => rfl
      | true => have := hsub _ hl; simp_all
    · exact Or.inr h1

theorem idsOk_remove (pk : Kind) (pid : Str) (vis : List Str) (k : Str) (f : Forest)
    (h : idsOk pk pid vis f = true) : idsOk pk pid vis (f.remove k) = true := by
  induction f with
  | nil => rfl
  | cons h0 kids rest _ ihr =>
    simp only [idsOk, Bool.and_eq_true] at h
    obtain ⟨⟨h1, h2⟩, h3⟩ := h
    simp only [Forest.remove]
    split
    · exact h3
    · simp only [idsOk, Bool.and_eq_true]; exact ⟨⟨h1, h2⟩, ihr h3⟩

theorem listed_append (vis : List Str) (key n : Str) :
    listed (vis ++ [key]) n = (listed vis n || quote key == n) := by
  simp [listed, List.any_append]

theorem idsOk_append_notin (pk : Kind) (pid : Str) (vis : List Str) (key : Str) (f : Forest)
    (hq : quote key = key) (hn : key ∉ f.keys) (h : idsOk pk pid vis f = true) :
    idsOk pk pid (vis ++ [key]) f = true := by
  induction f with
  | nil => rfl
  | cons h0 kids rest _ ihr =>
    simp only [idsOk, Bool.and_eq_true] at h
    obtain ⟨⟨h1, h2⟩, h3⟩ := h
    simp only [Forest.keys, List.mem_cons, not_or] at hn
    have hne : (quote key == h0.name) = false := by rw [hq]; simpa using hn.1
    simp only [idsOk, Bool.and_eq_true, listed_append, hne, Bool.or_false]
    exact ⟨⟨h1, h2⟩, ihr hn.2 h3⟩

theorem idsOk_put (pk : Kind) (pid : Str) (vis : List Str) (o : Obj) (f : Forest)
    (hq : quote o.hdr.name = o.hdr.name) (hs : shapeOk f = true)
    (hid : o.hdr.id = childId pk pid o.hdr.name)
    (hk : idsOk o.hdr.kind o.hdr.id o.hdr.visible o.kids = true)
    (h : idsOk pk pid vis f = true) :
    idsOk pk pid (vis ++ [o.hdr.name]) (f.put o) = true := by
  induction f with
  | nil => rw [hid] at hk; simp [Forest.put, idsOk, hid, hk]
  | cons h0 kids rest _ ihr =>
    simp only [idsOk, Bool.and_eq_true] at h
    obtain ⟨⟨h1, h2⟩, h3⟩ := h
    simp only [shapeOk, Bool.and_eq_true] at hs
    obtain ⟨⟨⟨⟨⟨⟨_, _⟩, s3⟩, _⟩, _⟩, _⟩, s7⟩ := hs
    simp only [Bool.not_eq_true', List.contains_eq_mem, decide_eq_false_iff_not] at s3
    simp only [Forest.put]
    split
    · rename_i he
      simp only [idsOk, Bool.and_eq_true]
      refine ⟨⟨by simp [hid], hk⟩, ?_⟩
      exact idsOk_append_notin pk pid vis _ rest hq (he ▸ s3) h3
    · rename_i hne
      have hne' : (quote o.hdr.name == h0.name) = false := by
        rw [hq]; simpa using fun e => hne e.symm
      simp only [idsOk, Bool.and_eq_true, listed_append, hne', Bool.or_false]
      exact ⟨⟨h1, h2⟩, ihr s7 h3⟩

/-- what every edit of one object keeps: its own name, id and class -/
def sameHead (o r : Obj) : Prop := r.hdr.name = o.hdr.name ∧ r.hdr.id = o.hdr.id ∧ r.hdr.kind = o.hdr.kind ∧ r.hdr.oid = o.hdr.oid

/-- the invariant of one object with everything stored below it -/
def invO (o : Obj) : Prop := shapeO o = true ∧ idsOk o.hdr.kind o.hdr.id o.hdr.visible o.kids = true

theorem invO_iff (o : Obj) : invO o ↔ invObj o = true := by
  simp [invO, invObj, shapeO]

theorem shapeO_parts (o : Obj) : shapeO o = true ↔
    (quote o.hdr.name = o.hdr.name ∧ o.hdr.name.contains dot = false ∧ visOk o.hdr.visible o.kids = true
     ∧ (o.hdr.kind = .base → o.kids = .nil) ∧ shapeOk o.kids = true) := by
  simp only [shapeO, shapeOk, Bool.and_eq_true, Forest.keys]
  constructor
  · rintro ⟨⟨⟨⟨⟨⟨a, b⟩, _⟩, c⟩, d⟩, e⟩, _⟩
    refine ⟨by simpa using a, by simpa using b, c, ?_, e⟩
    intro hb; simp [hb] at d; exact d
  · rintro ⟨a, b, c, d, e⟩
    refine ⟨⟨⟨⟨⟨⟨by simpa using a, by simpa using b⟩, by simp⟩, c⟩, ?_⟩, e⟩, trivial⟩
    by_cases hb : o.hdr.kind = .base
    · simp [hb, d hb]
    · simp [hb]

theorem delItem_inv (o r : Obj) (key : Str) (ho : invO o) (h : delItem o key = .ok r) :
    invO r ∧ sameHead o r ∧ key ∉ r.hdr.visible := by
  unfold delItem at h
  split at h; · cases h
  split at h; · cases h
  cases h
  obtain ⟨hs, hi⟩ := ho
  rw [shapeO_parts] at hs
  obtain ⟨a, b, c, d, e⟩ := hs
  simp only [visOk, Bool.and_eq_true, List.all_eq_true, decide_eq_true_eq] at c
  obtain ⟨c1, c2⟩ := c
  refine ⟨⟨?_, ?_⟩, ⟨rfl, rfl, rfl, rfl⟩, ?_⟩
  · rw [shapeO_parts]
    refine ⟨a, b, ?_, ?_, shapeOk_remove _ _ e⟩
    · simp only [visOk, Bool.and_eq_true, List.all_eq_true, decide_eq_true_eq]
      refine ⟨?_, c2.erase _⟩
      intro k hk
      rw [c2.mem_erase_iff] at hk
      have := c1 k hk.2
      simp only [List.contains_eq_mem, decide_eq_true_eq] at this ⊢
      exact ⟨keys_remove_mem _ _ _ this.1 hk.1, this.2⟩
    · intro hb; simp [d hb, Forest.remove]
  · apply idsOk_remove
    apply idsOk_mono _ _ o.hdr.visible _ _ _ hi
    intro n hn
    simp only [listed, List.any_eq_true] at hn ⊢
    obtain ⟨k, hk, hq⟩ := hn
    exact ⟨k, List.mem_of_mem_erase hk, hq⟩
  · exact fun hm => (c2.mem_erase_iff.1 hm).1 rfl

theorem insertItem_inv (o item r : Obj) (ho : invO o) (hb : o.hdr.kind ≠ .base)
    (hs : shapeO item = true) (hid : item.hdr.id = childId o.hdr.kind o.hdr.id item.hdr.name)
    (hk : idsOk item.hdr.kind item.hdr.id item.hdr.visible item.kids = true)
    (h : insertItem o item.hdr.name item = .ok r) : invO r ∧ sameHead o r := by
  unfold insertItem at h
  have key : ∃ o1, invO o1 ∧ sameHead o o1 ∧ item.hdr.name ∉ o1.hdr.visible ∧
      r = ⟨{ o1.hdr with visible := o1.hdr.visible ++ [item.hdr.name] }, o1.kids.put item⟩ := by
    by_cases hc : o.hdr.visible.contains item.hdr.name = true
    · simp only [hc, if_true] at h
      cases hd : delItem o item.hdr.name with
      | error e => rw [hd] at h; cases h
      | ok o1 =>
        rw [hd] at h
        obtain ⟨a, b, c⟩ := delItem_inv o o1 _ ho hd
        refine ⟨o1, a, b, c, ?_⟩
        cases h; rfl
    · simp only [hc] at h
      refine ⟨o, ho, ⟨rfl, rfl, rfl, rfl⟩, by simpa using hc, ?_⟩
      cases h; rfl
  obtain ⟨o1, ⟨hs1, hi1⟩, ⟨e1, e2, e3, e4⟩, hn, rfl⟩ := key
  have hq : quote item.hdr.name = item.hdr.name := ((shapeO_parts item).1 hs).1
  rw [shapeO_parts] at hs1
  obtain ⟨a, b, c, d, e⟩ := hs1
  simp only [visOk, Bool.and_eq_true, List.all_eq_true, decide_eq_true_eq] at c
  obtain ⟨c1, c2⟩ := c
  refine ⟨⟨?_, ?_⟩, ⟨e1, e2, e3, e4⟩⟩
  · rw [shapeO_parts]
    refine ⟨a, b, ?_, ?_, shapeOk_put _ _ e hs⟩
    · simp only [visOk, Bool.and_eq_true, List.all_eq_true, decide_eq_true_eq]
      refine ⟨?_, ?_⟩
      · intro k hk
        simp only [List.mem_append, List.mem_singleton] at hk
        simp only [List.contains_eq_mem, decide_eq_true_eq, beq_iff_eq]
        rcases hk with hk | hk
        · have := c1 k hk
          simp only [List.contains_eq_mem, decide_eq_true_eq, beq_iff_eq] at this
          exact ⟨(keys_put _ _ _).2 (Or.inl this.1), this.2⟩
        · subst hk; exact ⟨(keys_put _ _ _).2 (Or.inr rfl), hq⟩
      · rw [List.nodup_append]
        refine ⟨c2, by simp, ?_⟩
        intro x hx y hy
        simp only [List.mem_singleton] at hy
        subst hy; exact fun e => hn (e ▸ hx)
    · intro hb'; exact absurd (e3 ▸ hb') hb
  · have hid' : item.hdr.id = childId o1.hdr.kind o1.hdr.id item.hdr.name := by rw [e2, e3]; exact hid
    exact idsOk_put _ _ _ item _ hq e hid' hk hi1

theorem setId_inv (item r : Obj) (nid : Str) (hi : invO item) (h : setId item nid = .ok r) :
    shapeO r = true ∧ r.hdr.id = nid ∧ r.hdr.name = item.hdr.name ∧ r.hdr.kind = item.hdr.kind
    ∧ idsOk r.hdr.kind r.hdr.id r.hdr.visible r.kids = true := by
  unfold setId at h
  split at h
  · cases h
    obtain ⟨hs, hids⟩ := hi
    rw [shapeO_parts] at hs
    obtain ⟨a, b, c, d, e⟩ := hs
    refine ⟨?_, rfl, rfl, rfl, setIdKids_ids _ _ _ _ _ _ _ hids⟩
    rw [shapeO_parts]
    refine ⟨a, b, ?_, ?_, by rw [setIdKids_shape]; exact e⟩
    · simpa only [visOk, setIdKids_keys] using c
    · intro hb; simp [d hb, setIdKids]
  · cases h

/-- the guard of the dataset branch: the quoted key contains no `%2E` (a name without `.` and without a
    literal `%2E` has none) -/
def dsKeyOk (key : Str) : Prop := (splitOn dot (rep3 [37] [50] [69] dot (quote key))).length = 1

/-- **`container[key] = item`** (Structure, Sequence, Grid, Dataset; insertion and replacement) keeps the
    invariant of the container and gives the inserted subtree consistent ids -/
theorem setItem_inv (o item r : Obj) (key : Str) (ho : invO o) (hi : invO item)
    (hk : o.hdr.kind = .dataset → dsKeyOk key) (h : setItem o key item = .ok r) : invO r ∧ sameHead o r := by
  unfold setItem at h
  split at h
  · cases h
  · rename_i hd
    unfold setItemDataset at h
    simp only [bind, Except.bind, pure, Except.pure, throw, throwThe, MonadExceptOf.throw] at h
    split at h; · cases h
    split at h; · cases h
    split at h; · cases h
    split at h; · cases h
    rename_i hne
    have hkey : quote key = item.hdr.name := by simpa using hne
    have hlen := hk hd
    unfold dsKeyOk at hlen
    simp only [hlen, if_true] at h
    cases hs : setId item item.hdr.name with
    | error e => rw [hs] at h; cases h
    | ok it =>
      rw [hs] at h
      simp only at h
      obtain ⟨s1, s2, s3, s4, s5⟩ := setId_inv item it _ hi hs
      rw [hkey, ← s3] at h
      apply insertItem_inv o it r ho (by rw [hd]; decide) s1 _ s5 h
      rw [s2, s3, hd]; simp [childId]
  · rename_i hnb hnd
    split at h; · cases h
    unfold setItemStruct at h
    simp only [bind, Except.bind, pure, Except.pure, throw, throwThe, MonadExceptOf.throw] at h
    split at h; · cases h
    rename_i hne
    have hkey : quote key = item.hdr.name := by simpa using hne
    cases hs : setId item (o.hdr.id ++ dot :: item.hdr.name) with
    | error e => rw [hs] at h; cases h
    | ok it =>
      rw [hs] at h
      simp only at h
      obtain ⟨s1, s2, s3, s4, s5⟩ := setId_inv item it _ hi hs
      rw [hkey, ← s3] at h
      refine insertItem_inv o it r ho (fun e => hnb e) s1 ?_ s5 h
      rw [s2, s3]
      have : o.hdr.kind ≠ .dataset := fun e => hnd e
      simp [childId, this]

/-! ### edits below a path -/

theorem update_inv (k : Str) (g : Obj → Except Err Obj) (pk : Kind) (pid : Str) (vis : List Str) (f f' : Forest)
    (hs : shapeOk f = true) (hi : idsOk pk pid vis f = true)
    (hg : ∀ o r, invO o → g o = .ok r → invO r ∧ sameHead o r)
    (h : f.update k g = .ok f') :
    shapeOk f' = true ∧ idsOk pk pid vis f' = true ∧ f'.keys = f.keys := by
  induction f generalizing f' with
  | nil => simp [Forest.update] at h
  | cons h0 kids rest _ ihr =>
    simp only [shapeOk, Bool.and_eq_true] at hs
    obtain ⟨⟨⟨⟨⟨⟨s1, s2⟩, s3⟩, s4⟩, s5⟩, s6⟩, s7⟩ := hs
    simp only [idsOk, Bool.and_eq_true] at hi
    obtain ⟨⟨i1, i2⟩, i3⟩ := hi
    simp only [Forest.update] at h
    split at h
    · have ho : invO ⟨h0, kids⟩ := by
        refine ⟨?_, i2⟩
        simp only [shapeO, shapeOk, Bool.and_eq_true]
        exact ⟨⟨⟨⟨⟨⟨s1, s2⟩, by simp [Forest.keys]⟩, s4⟩, s5⟩, s6⟩, trivial⟩
      cases hg0 : g ⟨h0, kids⟩ with
      | error e => rw [hg0] at h; cases h
      | ok r =>
        rw [hg0] at h
        cases h
        obtain ⟨⟨rs, ri⟩, e1, e2, e3, _⟩ := hg _ r ho hg0
        simp only at e1 e2 e3
        simp only [shapeO, shapeOk, Bool.and_eq_true] at rs
        obtain ⟨⟨⟨⟨⟨⟨r1, r2⟩, _⟩, r4⟩, r5⟩, r6⟩, _⟩ := rs
        refine ⟨?_, ?_, ?_⟩
        · simp only [shapeOk, Bool.and_eq_true]
          exact ⟨⟨⟨⟨⟨⟨r1, r2⟩, by rw [e1]; exact s3⟩, r4⟩, r5⟩, r6⟩, s7⟩
        · simp only [idsOk, Bool.and_eq_true]
          exact ⟨⟨by rw [e1, e2]; exact i1, ri⟩, i3⟩
        · simp [Forest.keys, e1]
    · cases hu : Forest.update k g rest with
      | error e => rw [hu] at h; cases h
      | ok r =>
        rw [hu] at h
        cases h
        obtain ⟨a, b, c⟩ := ihr r s7 i3 hu
        refine ⟨?_, ?_, ?_⟩
        · simp only [shapeOk, Bool.and_eq_true]
          exact ⟨⟨⟨⟨⟨⟨s1, s2⟩, by rw [c]; exact s3⟩, s4⟩, s5⟩, s6⟩, a⟩
        · simp only [idsOk, Bool.and_eq_true]
          exact ⟨⟨i1, i2⟩, b⟩
        · simp [Forest.keys, c]

/-- an edit that keeps the invariant of the object it is applied to keeps the invariant of every object
    above it (nothing propagates upwards: parents only depend on the child's name and id) -/
theorem modifyAt_inv (g : Obj → Except Err Obj)
    (hg : ∀ o r, invO o → g o = .ok r → invO r ∧ sameHead o r) (path : List Str) :
    ∀ o r, invO o → modifyAt g path o = .ok r → invO r ∧ sameHead o r := by
  induction path with
  | nil => intro o r ho h; exact hg o r ho h
  | cons k ks ih =>
    intro o r ho h
    simp only [modifyAt] at h
    split at h; · cases h
    rename_i hnb
    split at h; · cases h
    cases hu : o.kids.update (quote k) (modifyAt g ks) with
    | error e => rw [hu] at h; cases h
    | ok kids' =>
      rw [hu] at h
      cases h
      obtain ⟨hs, hi⟩ := ho
      rw [shapeO_parts] at hs
      obtain ⟨a, b, c, d, e⟩ := hs
      obtain ⟨u1, u2, u3⟩ := update_inv _ _ _ _ _ _ _ e hi ih hu
      refine ⟨⟨?_, u2⟩, rfl, rfl, rfl, rfl⟩
      rw [shapeO_parts]
      refine ⟨a, b, ?_, fun hb => absurd hb hnb, u1⟩
      simpa only [visOk, u3] using c

theorem setAttr_inv (k : Str) (v : AVal) (o : Obj) (ho : invO o) : invO (setAttr o k v) ∧ sameHead o (setAttr o k v) := by
  obtain ⟨hs, hi⟩ := ho
  refine ⟨⟨?_, hi⟩, rfl, rfl, rfl, rfl⟩
  rw [shapeO_parts] at hs ⊢
  exact hs

theorem mkObj_inv (oid : Nat) (kind : Kind) (name : Str) (attrs : List (Str × AVal)) (d : DRef)
    (hn : (quote name).contains dot = false) : invO (mkObj oid kind name attrs d) := by
  refine ⟨?_, rfl⟩
  rw [shapeO_parts]
  refine ⟨quote_idem name, hn, rfl, fun _ => rfl, rfl⟩

/-! ### histories -/

def AllInv (s : State) : Prop := ∀ o, some o ∈ s.handles → invObj o = true

theorem get_mem (s : State) (h : Nat) (o : Obj) (hg : s.get h = .ok o) : some o ∈ s.handles := by
  unfold State.get at hg
  split at hg
  · rename_i x hx
    cases hg
    exact List.mem_of_getElem? hx
  · cases hg

theorem allInv_set (s : State) (h : Nat) (o' : Obj) (n : Nat) (hs : AllInv s) (ho : invObj o' = true) :
    AllInv ⟨s.handles.set h (some o'), n⟩ := by
  intro o hm
  rcases List.mem_or_eq_of_mem_set hm with hm | hm
  · exact hs o hm
  · cases hm; exact ho

/-- the operations whose effect on the invariant is carried by `run_edit_inv`: constructing a variable
    whose quoted name has no `.`, `container[key] = root` at any path (for a dataset container: the quoted
    key has no `%2E`), `del container[key]` at any path, setting an attribute at any path -/
def Op.edit : Op → Prop
  | .new _ name _ => (quote name).contains dot = false
  | .set _ _ key _ => dsKeyOk key
  | .del _ _ _ => True
  | .setAttr _ _ _ _ => True
  | _ => False

theorem stepE_edit_inv (s s' : State) (op : Op) (hs : AllInv s) (he : op.edit) (h : stepE s op = .ok s') :
    AllInv s' := by
  cases op with
  | new kind name atom =>
    simp only [stepE] at h
    cases h
    intro o hm
    simp only [List.mem_append, List.mem_singleton] at hm
    rcases hm with hm | hm
    · exact hs o hm
    · cases hm; exact (invO_iff _).1 (mkObj_inv _ _ _ _ _ he)
  | set hh path key src =>
    simp only [stepE, bind, Except.bind, pure, Except.pure, throw, throwThe, MonadExceptOf.throw] at h
    split at h; · cases h
    cases h1 : s.get hh with
    | error e => rw [h1] at h; cases h
    | ok o =>
      rw [h1] at h; simp only at h
      cases h2 : s.get src with
      | error e => rw [h2] at h; cases h
      | ok item =>
        rw [h2] at h; simp only at h
        cases h3 : modifyAt (fun c => setItem c key item) path o with
        | error e => rw [h3] at h; cases h
        | ok o' =>
          rw [h3] at h; cases h
          have hi := (invO_iff _).2 (hs item (get_mem _ _ _ h2))
          have ho := (invO_iff _).2 (hs o (get_mem _ _ _ h1))
          have := (modifyAt_inv _ (fun c r hc hr => setItem_inv c item r key hc hi (fun _ => he) hr) path o o' ho h3).1
          intro x hm
          rcases List.mem_or_eq_of_mem_set hm with hm | hm
          · exact allInv_set s hh o' s.next hs ((invO_iff _).1 this) x hm
          · cases hm
  | del hh path key =>
    simp only [stepE, bind, Except.bind, pure, Except.pure] at h
    cases h1 : s.get hh with
    | error e => rw [h1] at h; cases h
    | ok o =>
      rw [h1] at h; simp only at h
      cases h3 : modifyAt (fun c => delItem c key) path o with
      | error e => rw [h3] at h; cases h
      | ok o' =>
        rw [h3] at h; cases h
        have ho := (invO_iff _).2 (hs o (get_mem _ _ _ h1))
        have := (modifyAt_inv _ (fun c r hc hr => ⟨(delItem_inv c r key hc hr).1, (delItem_inv c r key hc hr).2.1⟩) path o o' ho h3).1
        exact allInv_set s hh o' s.next hs ((invO_iff _).1 this)
  | setAttr hh path k v =>
    simp only [stepE, bind, Except.bind, pure, Except.pure] at h
    cases h1 : s.get hh with
    | error e => rw [h1] at h; cases h
    | ok o =>
      rw [h1] at h; simp only at h
      cases h3 : modifyAt (fun c => Except.ok (setAttr c k (.nat v))) path o with
      | error e => rw [h3] at h; cases h
      | ok o' =>
        rw [h3] at h; cases h
        have ho := (invO_iff _).2 (hs o (get_mem _ _ _ h1))
        have := (modifyAt_inv _ (fun c r hc hr => by cases hr; exact setAttr_inv k (.nat v) c hc) path o o' ho h3).1
        exact allInv_set s hh o' s.next hs ((invO_iff _).1 this)
  | copy _ _ => exact absurd he (by simp [Op.edit])
  | select _ _ _ => exact absurd he (by simp [Op.edit])
  | setData _ _ _ => exact absurd he (by simp [Op.edit])

theorem step_edit_inv (s : State) (op : Op) (hs : AllInv s) (he : op.edit) : AllInv (step s op) := by
  unfold step
  cases h : stepE s op with
  | error e => exact hs
  | ok s' => exact stepE_edit_inv s s' op hs he h

theorem run_edit_inv (ops : List Op) : ∀ s, AllInv s → (∀ op ∈ ops, op.edit) → AllInv (run s ops) := by
  induction ops with
  | nil => intro s hs _; exact hs
  | cons op ops ih =>
    intro s hs he
    simp only [run, List.foldl_cons]
    exact ih _ (step_edit_inv s op hs (he op (by simp))) (fun o ho => he o (by simp [ho]))

end Pydap.Tree
