/-
  C09 adequacy of the fuel: the loops of the model never run out of the fuel their entry points pass
  (`length + 1`), and `stream2bytearray` (after the repair) is a decoder that only reads.
-/
import PydapModel.Stream
import Proofs.Stream
import Proofs.StreamSeq
namespace Pydap.Stream

/-- decoders that never fail with the artefact error `.fuel` -/
inductive NoFuel : Dec α → Prop where
  | ret (a : α) : NoFuel (.ret a)
  | fail (e : Err) (h : e ≠ .fuel) : NoFuel (.fail e)
  | read (n : Nat) (k : Bytes → Dec α) (h : ∀ b, NoFuel (k b)) : NoFuel (.read n k)

theorem NoFuel.run {d : Dec α} (h : NoFuel d) : ∀ b : Bytes, d.runBR b ≠ .error .fuel := by
  induction h with
  | ret a => intro b hh; simp [Dec.runBR] at hh
  | fail e he => intro b hh; simp [Dec.runBR] at hh; exact he hh
  | read n k _ ih =>
    intro b hh
    by_cases hn : n ≤ b.length
    · simp [Dec.runBR, brRead, hn] at hh
      exact ih _ _ hh
    · simp [Dec.runBR, brRead, hn] at hh

theorem NoFuel.bind {d : Dec α} {f : α → Dec β} (h : NoFuel d) (hf : ∀ a, NoFuel (f a)) : NoFuel (d.bind f) := by
  induction h with
  | ret a => exact hf a
  | fail e he => exact NoFuel.fail e he
  | read n k _ ih => exact NoFuel.read n _ ih

theorem decStr_noFuel : NoFuel decStr := by
  unfold decStr
  refine NoFuel.read _ _ fun l => ?_
  split
  · exact NoFuel.fail _ (by decide)
  · split
    · exact NoFuel.fail _ (by decide)
    · refine NoFuel.read _ _ fun s => ?_
      split
      · exact NoFuel.read _ _ fun _ => NoFuel.ret _
      · exact NoFuel.fail _ (by decide)

theorem decCol_noFuel (c : Col) : NoFuel (decCol c) := by
  cases c with
  | fixed w =>
    refine NoFuel.read _ _ fun b => ?_
    split
    · exact NoFuel.ret _
    · exact NoFuel.fail _ (by decide)
  | str => exact decStr_noFuel

theorem decCols_noFuel : ∀ cols : List Col, NoFuel (decCols cols) := by
  intro cols
  induction cols with
  | nil => exact NoFuel.ret _
  | cons c cs ih =>
    exact (decCol_noFuel c).bind fun v => ih.bind fun vs => NoFuel.ret _

theorem decRecord_noFuel (cols : List Col) : NoFuel (decRecord cols) := by
  unfold decRecord
  split
  · refine NoFuel.read _ _ fun b => ?_
    split
    · exact NoFuel.ret _
    · exact NoFuel.fail _ (by decide)
  · exact decCols_noFuel cols

theorem brRead_ok_length {n : Nat} {b : Bytes} {x : Bytes × Bytes} (h : brRead n b = .ok x) :
    x.2.length + n = b.length := by
  unfold brRead at h
  split at h
  · cases h; simp; omega
  · cases h

/-- the marker loop never exhausts `length + 1` turns: every turn consumes a 4-byte marker -/
theorem seqLoop_noFuel (cols : List Col) : ∀ (f : Nat) (b : Bytes), b.length < f →
    (seqLoop cols f).runBR b ≠ .error .fuel := by
  intro f
  induction f with
  | zero => intro b h; omega
  | succ f ih =>
    intro b hf
    rw [seqLoop_run]
    cases hb : brRead 4 b with
    | error e =>
      unfold brRead at hb
      split at hb <;> cases hb
      simp
    | ok m =>
      have hl := brRead_ok_length hb
      simp only []
      split
      · cases hr : (decRecord cols).runBR m.2 with
        | error e =>
          simp only []
          intro hh
          cases hh
          exact (decRecord_noFuel cols).run _ hr
        | ok r =>
          have h2 := runBR_length _ _ _ _ (show (decRecord cols).runBR m.2 = .ok (r.1, r.2) from hr)
          have h3 := ih r.2 (by omega)
          simp only []
          cases hi : (seqLoop cols f).runBR r.2 with
          | error e => simp only []; intro hh; cases hh; exact h3 hi
          | ok rs => simp
      · simp

theorem unpackSeqBytes_noFuel (cols : List Col) (data : Bytes) : unpackSeqBytes cols data ≠ .error .fuel :=
  seqLoop_noFuel cols _ data (by omega)

theorem unpackSeqStream_noFuel (cols : List Col) (r : SR) : absSR (unpackSeqStream cols r) ≠ .error .fuel := by
  unfold unpackSeqStream
  rw [run_sim]
  exact seqLoop_noFuel cols _ _ (by omega)

/-- the chunk loop never exhausts `length + 1` turns: every turn consumes a 4-byte header -/
theorem dechunkLoop_noFuel : ∀ (f : Nat) (data acc : Bytes), data.length < f →
    dechunkLoop f data acc ≠ .error .fuel := by
  intro f
  induction f with
  | zero => intro d a h; omega
  | succ f ih =>
    intro data acc hf
    unfold dechunkLoop
    split
    · simp
    · split
      · simp
      · simp only []
        split
        · simp
        · split
          · simp
          · apply ih
            simp only [List.length_drop]
            omega

theorem stream2bytearray_noFuel (data : Bytes) : stream2bytearray data ≠ .error .fuel :=
  dechunkLoop_noFuel _ data [] (by omega)

/-! ## `stream2bytearray` only reads -/

theorem runBR_read (n : Nat) (k : Bytes → Dec α) (d : Bytes) :
    (Dec.read n k).runBR d = if n ≤ d.length then (k (d.take n)).runBR (d.drop n) else .error .eof := by
  by_cases h : n ≤ d.length
  · simp [Dec.runBR, brRead, h]
  · simp [Dec.runBR, brRead, h]

/-- `stream2bytearray`'s loop is a decoder that only reads -/
theorem dechunkLoop_eq_dec : ∀ (f : Nat) (data acc : Bytes),
    dechunkLoop f data acc = fstOf ((dechunkDec f acc).runBR data) := by
  intro f
  induction f with
  | zero => intro data acc; rfl
  | succ f ih =>
    intro data acc
    unfold dechunkLoop dechunkDec
    rw [runBR_read]
    by_cases h0 : data.length = 0
    · have : ¬ 4 ≤ data.length := by omega
      simp only [h0, if_true]; rfl
    by_cases h4 : data.length < 4
    · have : ¬ 4 ≤ data.length := by omega
      simp only [h0, h4, if_true, this, if_false]; rfl
    have h4' : 4 ≤ data.length := by omega
    simp only [h0, h4, if_false, h4', if_true]
    rw [runBR_read]
    by_cases hs : data.length < 4 + be32 (data.take 4) % 16777216
    · have : ¬ be32 (data.take 4) % 16777216 ≤ (data.drop 4).length := by
        simp only [List.length_drop]; omega
      simp only [hs, if_true, this, if_false]; rfl
    · have : be32 (data.take 4) % 16777216 ≤ (data.drop 4).length := by
        simp only [List.length_drop]; omega
      simp only [hs, if_false, this, if_true]
      by_cases hl : chunkLast (be32 (data.take 4) / 16777216 % 256) = true
      · simp only [hl, if_true]; rfl
      · simp only [hl]
        rw [ih, List.drop_drop]
        rfl

theorem stream2bytearray_eq_dec (data : Bytes) :
    stream2bytearray data = fstOf ((dechunkDec (data.length + 1) []).runBR data) :=
  dechunkLoop_eq_dec _ data []

/-! ## the fuel is irrelevant; every accepted input is prefix-free -/

theorem dechunkLoop_fuel_irrelevant : ∀ (f1 f2 : Nat) (data acc : Bytes), data.length < f1 → data.length < f2 →
    dechunkLoop f1 data acc = dechunkLoop f2 data acc := by
  intro f1
  induction f1 with
  | zero => intro f2 d a h; omega
  | succ f1 ih =>
    intro f2 data acc h1 h2
    obtain ⟨f2, rfl⟩ : ∃ g, f2 = g + 1 := ⟨f2 - 1, by omega⟩
    unfold dechunkLoop
    split
    · rfl
    · split
      · rfl
      · simp only []
        split
        · rfl
        · split
          · rfl
          · apply ih <;> (simp only [List.length_drop]; omega)

theorem seqLoop_fuel_irrelevant (cols : List Col) : ∀ (f1 f2 : Nat) (b : Bytes), b.length < f1 → b.length < f2 →
    (seqLoop cols f1).runBR b = (seqLoop cols f2).runBR b := by
  intro f1
  induction f1 with
  | zero => intro f2 b h; omega
  | succ f1 ih =>
    intro f2 b h1 h2
    obtain ⟨f2, rfl⟩ : ∃ g, f2 = g + 1 := ⟨f2 - 1, by omega⟩
    rw [seqLoop_run, seqLoop_run]
    cases hb : brRead 4 b with
    | error e => rfl
    | ok m =>
      have hl := brRead_ok_length hb
      simp only []
      split
      · cases hr : (decRecord cols).runBR m.2 with
        | error e => rfl
        | ok r =>
          have hlen := runBR_length _ _ _ _ (show (decRecord cols).runBR m.2 = .ok (r.1, r.2) from hr)
          simp only []
          rw [ih f2 r.2 (by omega) (by omega)]
      · rfl

/-- **Every input the marker loop accepts is prefix-free**, canonical wire form or not -/
theorem unpackSeqBytes_prefix (cols : List Col) (b p : Bytes) (rows : List Row) (rest : Bytes)
    (h : unpackSeqBytes cols b = .ok (rows, rest)) (hp : p <+: b) :
    (∃ rest', unpackSeqBytes cols p = .ok (rows, rest')) ∨ unpackSeqBytes cols p = .error .eof := by
  unfold unpackSeqBytes at h ⊢
  have hl := hp.length_le
  rw [seqLoop_fuel_irrelevant cols (p.length + 1) (b.length + 1) p (by omega) (by omega)]
  rcases runBR_prefix _ b p rows rest h hp with ⟨_, h2⟩ | ⟨_, h2⟩
  · exact .inl ⟨_, h2⟩
  · exact .inr h2

theorem stream2bytearray_prefix_any (b p buf : Bytes) (h : stream2bytearray b = .ok buf) (hp : p <+: b) :
    stream2bytearray p = .ok buf ∨ stream2bytearray p = .error .eof := by
  have hl := hp.length_le
  unfold stream2bytearray at h ⊢
  rw [dechunkLoop_fuel_irrelevant (p.length + 1) (b.length + 1) p [] (by omega) (by omega)]
  rw [dechunkLoop_eq_dec] at h ⊢
  cases hr : (dechunkDec (b.length + 1) []).runBR b with
  | error e => rw [hr] at h; cases h
  | ok x =>
    rw [hr] at h
    simp only [fstOf] at h
    cases h
    rcases runBR_prefix _ b p x.1 x.2 hr hp with ⟨_, h2⟩ | ⟨_, h2⟩
    · left; rw [h2]; rfl
    · right; rw [h2]; rfl

theorem unpackSeqStream_eq_bytes (cols : List Col) (cs : List Bytes) :
    absSR (unpackSeqStream cols ⟨cs, []⟩) = unpackSeqBytes cols cs.flatten := by
  have h := run_sim (seqLoop cols ((⟨cs, []⟩ : SR).abs.length + 1)) ⟨cs, []⟩
  have habs : (⟨cs, []⟩ : SR).abs = cs.flatten := by simp [SR.abs]
  rw [habs] at h
  simp only [unpackSeqStream, unpackSeqBytes, habs]
  exact h

end Pydap.Stream
