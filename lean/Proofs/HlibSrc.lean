/-
  The source text of handlers/lib.py `check_hyperslab`, translated on every run by harness/py2lean.py into MiniPy
  syntax (PydapModel/Generated/HlibSrc.lean), accepts exactly the index tuples the model accepts
  (`Handler.sliceBase`'s guard: at most as many indices as dimensions, `Handler.validSl` on every axis) and raises
  `ConstraintExpressionError` on all others (C15, C02).  The loop `for s, n in zip(slice_, shape)` is a MiniPy
  `forZip`, proved by the simulation rule `forZip_sim`.  An index may be an int (`slice(s, s + 1, 1)`) or a slice.
-/
import Proofs.MiniPy
import PydapModel.Handler
import PydapModel.Generated.HlibSrc
set_option linter.unusedSimpArgs false
namespace Pydap
open MiniPy Handler

/-- an element of the index tuple as the slice `check_hyperslab` tests: an int `i` stands for `slice(i, i + 1, 1)` -/
def itemSlice : Item → PSlice
  | .int i => ⟨some i, some (i + 1), some 1⟩
  | .slice a b c => ⟨a, b, c⟩

/-- a model slice as an element of the tuple -/
def sliceItem (s : PSlice) : Item := .slice s.start s.stop s.step

theorem itemSlice_sliceItem (s : PSlice) : itemSlice (sliceItem s) = s := rfl

def ceRaised : MiniPy.Err := .raised "ConstraintExpressionError"

/-- one turn of the loop: nothing or the exception -/
def axisStep (_ : Unit) (b : Item × Nat) : Except MiniPy.Err Unit :=
  if validSl b.2 (itemSlice b.1) then .ok () else .error ceRaised

theorem axis_fold (bs : List (Item × Nat)) :
    bs.foldlM axisStep () = if bs.all (fun b => validSl b.2 (itemSlice b.1)) then .ok () else .error ceRaised := by
  induction bs with
  | nil => rfl
  | cons b t ih =>
    rw [List.foldlM_cons, List.all_cons]
    by_cases h : validSl b.2 (itemSlice b.1) = true
    · have : axisStep () b = .ok () := by simp [axisStep, h]
      rw [this, bind_ok', ih, h, Bool.true_and]
    · have : axisStep () b = .error ceRaised := by simp [axisStep, h]
      rw [this, bind_error']
      simp [h]

/-! ### one turn of the loop -/

macro "hl_eval" : tactic => `(tactic|
  simp (decide := true) only [exec, eval, bind_ok', bind_error', lookup_setVar_eq, lookup_setVar_ne, toVal_int, toVal_slice,
      truthy_bool', asInt_int, toOpt_int, Bool.not_false, Bool.not_true, if_true, if_false, ofOpt_some, ofOpt_none, and_bool,
      or_bool])

theorem validSl_iff (N : Nat) (s : PSlice) : validSl N s = true ↔
    (0 ≤ s.start.getD 0 ∧ (s.start.getD 0 < (N : Int) ∨ (N = 0 ∧ s.start.getD 0 = 0)) ∧
      s.start.getD 0 < s.stop.getD N ∧ 1 ≤ s.step.getD 1) := by
  unfold validSl; exact decide_eq_true_iff

macro "hl_arith" : tactic => `(tactic|
  (simp only [validSl_iff, itemSlice, Bool.true_eq_false, Bool.false_eq_true, or_false, false_or, or_true, true_or, and_true,
      true_and, not_true_eq_false, not_false_eq_true, and_false, false_and, Option.getD_some, Option.getD_none, decide_eq_true_eq, Bool.not_eq_true', Bool.and_eq_true,
      Bool.or_eq_true, Bool.not_eq_true, Bool.and_eq_false_iff, Bool.or_eq_false_iff, decide_eq_false_iff_not,
      Bool.not_eq_false', decide_true, decide_false] at * <;> omega))

theorem check_turn (c : Expr) (body : Stmt)
    (hb : Gen.src_check_hyperslab = .ite c (.raise "ConstraintExpressionError") (.forZip "s" "n" (.var "slice_") (.var "shape") body))
    (it : Item) (N : Nat) (v : MiniPy.Val) (env : Env) (h : lookup env "shape" = .ok v) :
    match axisStep () (it, N) with
    | .ok _ => ∃ env', exec (setVar (setVar env "s" it.toVal) "n" (.int N)) body = .ok env' ∧ lookup env' "shape" = .ok v
    | .error e => exec (setVar (setVar env "s" it.toVal) "n" (.int N)) body = .error e := by
  unfold Gen.src_check_hyperslab at hb
  injection hb with _ _ hb
  injection hb with _ _ _ _ hb
  subst hb
  by_cases hv : validSl N (itemSlice it) = true
  · simp only [axisStep, hv, if_true]
    cases it with
    | int i =>
      hl_eval
      split_ifs with hc
      · exfalso; hl_arith
      · exact ⟨_, rfl, by simp (decide := true) only [lookup_setVar_ne, h]⟩
    | slice a b c =>
      cases a <;> cases b <;> cases c <;> hl_eval <;> split_ifs with hc <;>
        first
        | exact ⟨_, rfl, by simp (decide := true) only [lookup_setVar_ne, h]⟩
        | (exfalso; hl_arith)
  · simp only [axisStep, hv, if_false, Bool.false_eq_true]
    cases it with
    | int i =>
      hl_eval
      split_ifs with hc
      · rfl
      · exfalso; hl_arith
    | slice a b c =>
      cases a <;> cases b <;> cases c <;> hl_eval <;> split_ifs with hc <;>
        first
        | rfl
        | (exfalso; hl_arith)


def shapeTuple (shape : List Nat) : MiniPy.Val := .ilist (shape.map Int.ofNat)

theorem all_zip_zipWith (its : List Item) (shape : List Nat) :
    (its.zip shape).all (fun b => validSl b.2 (itemSlice b.1)) = (List.zipWith validSl shape (its.map itemSlice)).all id := by
  induction its generalizing shape with
  | nil => cases shape <;> rfl
  | cons a t ih =>
    cases shape with
    | nil => rfl
    | cons n ns => simp only [List.zip_cons_cons, List.all_cons, List.map_cons, List.zipWith_cons_cons, id, ih]

theorem zip_items (its : List Item) (shape : List Nat) :
    (its.map Item.toVal).zip ((shape.map Int.ofNat).map MiniPy.Val.int)
      = (its.zip shape).map (fun b => (b.1.toVal, MiniPy.Val.int (b.2 : Nat))) := by
  induction its generalizing shape with
  | nil => cases shape <;> rfl
  | cons a t ih =>
    cases shape with
    | nil => rfl
    | cons n ns => simp only [List.map_cons, List.zip_cons_cons, ih]; rfl

theorem src_check_hyperslab_eq (its : List Item) (shape : List Nat) :
    runItem [("slice_", .tuple its), ("shape", shapeTuple shape)] Gen.src_check_hyperslab "shape"
      = if its.length ≤ shape.length ∧ (List.zipWith validSl shape (its.map itemSlice)).all id = true then
          .ok (shapeTuple shape)
        else .error ceRaised := by
  have hshape : ∃ c body, Gen.src_check_hyperslab = .ite c (.raise "ConstraintExpressionError")
      (.forZip "s" "n" (.var "slice_") (.var "shape") body) := ⟨_, _, rfl⟩
  obtain ⟨c, body, hb⟩ := hshape
  have hc : eval [("slice_", .tuple its), ("shape", shapeTuple shape)] c
      = .ok (.bool (decide ((its.length : Int) > shape.length))) := by
    have hb' := hb
    unfold Gen.src_check_hyperslab at hb'
    injection hb' with hc _ _
    subst hc
    simp (decide := true) only [eval, bind_ok', lookup_cons_eq, lookup_cons_ne, shapeTuple, asInt_int, List.length_map]
  have sim := forZip_sim (σ := Unit) "s" "n" body
    (fun _ env => lookup env "shape" = .ok (shapeTuple shape)) (fun b => (b.1.toVal, MiniPy.Val.int (b.2 : Nat)))
    axisStep (its.zip shape)
    (fun s b env _ h => by
      obtain ⟨it, n⟩ := b
      have t := check_turn c body hb it n _ env h
      cases hq : axisStep s (it, n) <;> simp only [hq] at t ⊢ <;> exact t) ()
    [("slice_", .tuple its), ("shape", shapeTuple shape)]
    (by simp (decide := true) only [lookup_cons_eq, lookup_cons_ne])
  rw [axis_fold, all_zip_zipWith] at sim
  rw [hb]
  have hit : iterItems (shapeTuple shape) = .ok ((shape.map Int.ofNat).map MiniPy.Val.int) := rfl
  simp (decide := true) only [runItem, exec, hc, bind_ok', truthy_bool', eval, lookup_cons_eq, lookup_cons_ne, hit,
    iterItems_tuple, zip_items]
  by_cases hl : its.length ≤ shape.length
  · have h1 : ¬ ((its.length : Int) > shape.length) := by omega
    simp only [h1, decide_false, Bool.false_eq_true, if_false, hl, true_and]
    by_cases hv : (List.zipWith validSl shape (its.map itemSlice)).all id = true
    · rw [hv] at sim
      simp only [if_true] at sim
      obtain ⟨env', hfold, hA⟩ := sim
      rw [hfold]
      simp only [hv, if_true, bind_ok', hA]
    · simp only [hv, if_false, Bool.false_eq_true] at sim ⊢
      rw [sim]; rfl
  · have h1 : ((its.length : Int) > shape.length) := by omega
    simp only [h1, decide_true, if_true, hl, false_and, if_false]
    rfl

end Pydap
