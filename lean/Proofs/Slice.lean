import PydapModel.Slice
import Mathlib.Tactic.Ring
import Mathlib.Tactic.Linarith
namespace Pydap

theorem fixSl_bounds (N : Nat) (s : PSlice)
    (hstart : ∀ i, s.start = some i → -(N:Int) ≤ i)
    (hstop : ∀ j, s.stop = some j → -(N:Int) ≤ j)
    (hstep : ∀ k, s.step = some k → 1 ≤ k) :
      npBound N 0 (fixSl N s).start = npBound N 0 s.start ∧
      npBound N N (fixSl N s).stop = npBound N N s.stop ∧
      (fixSl N s).step.getD 1 = s.step.getD 1 := by
  obtain ⟨st, sp, se⟩ := s
  cases st <;> cases sp <;> cases se <;>
    simp [fixSl, orElse, npBound] at * <;> (try split) <;> (try split)  <;> omega

theorem fix_preserves (N : Nat) (s : PSlice)
    (hstart : ∀ i, s.start = some i → -(N:Int) ≤ i)
    (hstop : ∀ j, s.stop = some j → -(N:Int) ≤ j)
    (hstep : ∀ k, s.step = some k → 1 ≤ k) :
    sel N (fixSl N s) = sel N s := by
  obtain ⟨h1, h2, h3⟩ := fixSl_bounds N s hstart hstop hstep
  simp only [sel, h1, h2, h3]

def cdiv (x k : Nat) : Nat := (x + k - 1) / k

theorem cdiv_le_iff (x k m : Nat) (hk : 1 ≤ k) : cdiv x k ≤ m ↔ x ≤ m * k := by
  unfold cdiv
  rw [Nat.div_le_iff_le_mul_add_pred (by omega), Nat.mul_comm k m]
  constructor <;> intro h <;> omega

theorem cdiv_eq_of_forall (x y k l : Nat) (hk : 1 ≤ k) (hl : 1 ≤ l)
    (h : ∀ m, x ≤ m * k ↔ y ≤ m * l) : cdiv x k = cdiv y l := by
  apply Nat.le_antisymm
  · rw [cdiv_le_iff _ _ _ hk, h, ← cdiv_le_iff _ _ _ hl]
  · rw [cdiv_le_iff _ _ _ hl, ← h, ← cdiv_le_iff _ _ _ hk]

theorem cdiv_eq_zero_iff (x k : Nat) (hk : 1 ≤ k) : cdiv x k = 0 ↔ x = 0 := by
  have := cdiv_le_iff x k 0 hk
  omega

theorem map_affine_range' (c k1 : Nat) : ∀ (M a k2 : Nat),
    (List.range' a M k2).map (fun j => c + k1 * j) = List.range' (c + k1 * a) M (k1 * k2)
  | 0, _, _ => rfl
  | M+1, a, k2 => by
    simp only [List.range'_succ, List.map_cons]
    rw [map_affine_range' c k1 M (a + k2) k2]
    congr 2; ring

theorem combine_core (N a1 b1 k1 a2 b2 k2 : Nat) (h1 : 1 ≤ k1) (h2 : 1 ≤ k2) :
    let L := cdiv (min b1 N - min a1 N) k1
    let M := cdiv (min b2 L - min a2 L) k2
    let a := a1 + a2 * k1
    let b := min b1 (a1 + b2 * k1)
    List.range' (min a N) (cdiv (min b N - min a N) (k1 * k2)) (k1 * k2)
      = (List.range' (min a2 L) M k2).map (fun j => min a1 N + k1 * j) := by
  intro L M a b
  have hk : 1 ≤ k1 * k2 := Nat.mul_pos h1 h2
  rw [map_affine_range']
  by_cases hM : M = 0
  · -- empty second selection
    have hB2 : min b2 L ≤ min a2 L := by
      have := (cdiv_eq_zero_iff _ _ h2).mp hM; omega
    have hL : L ≤ a2 → min b1 N - min a1 N ≤ a2 * k1 := fun h =>
      Nat.le_trans ((cdiv_le_iff _ _ _ h1).mp (Nat.le_refl _)) (Nat.mul_le_mul_right _ h)
    have : min b N ≤ min a N := by
      by_cases hc : b2 ≤ a2
      · have : b2 * k1 ≤ a2 * k1 := Nat.mul_le_mul_right _ hc
        omega
      · have hL' : L ≤ a2 := by omega
        have := hL hL'
        omega
    have hz : cdiv (min b N - min a N) (k1 * k2) = 0 := (cdiv_eq_zero_iff _ _ hk).mpr (by omega)
    rw [hM, hz]; rfl
  · have hMpos : 0 < min b2 L - min a2 L := by
      rcases Nat.eq_zero_or_pos (min b2 L - min a2 L) with h | h
      · exact absurd ((cdiv_eq_zero_iff _ _ h2).mpr h) hM
      · exact h
    have ha2 : a2 < L := by omega
    have hLpos : 0 < L := by omega
    have hX : 0 < min b1 N - min a1 N := by
      rcases Nat.eq_zero_or_pos (min b1 N - min a1 N) with h | h
      · have : L = 0 := (cdiv_eq_zero_iff _ _ h1).mpr h
        omega
      · exact h
    have hA1 : min a1 N = a1 := by omega
    -- a2 < L  means  ¬ (X ≤ a2 * k1)
    have hlt : ¬ (min b1 N - min a1 N ≤ a2 * k1) := by
      intro h
      have := (cdiv_le_iff _ _ a2 h1).mpr h
      omega
    have hA : min a N = a1 + k1 * a2 := by
      have : k1 * a2 = a2 * k1 := Nat.mul_comm _ _
      omega
    have hlen : cdiv (min b N - min a N) (k1 * k2) = M := by
      apply cdiv_eq_of_forall _ _ _ _ hk h2
      intro m
      have e1 : m * (k1 * k2) = (m * k2) * k1 := by ring
      have hLm : L ≤ a2 + m * k2 ↔ min b1 N - min a1 N ≤ (a2 + m * k2) * k1 :=
        cdiv_le_iff _ _ _ h1
      have e2 : (a2 + m * k2) * k1 = a2 * k1 + (m * k2) * k1 := by ring
      have hb2 : b2 ≤ a2 + m * k2 ↔ b2 * k1 ≤ (a2 + m * k2) * k1 :=
        (Nat.mul_le_mul_right_iff (by omega)).symm
      have hk1a2 : k1 * a2 = a2 * k1 := Nat.mul_comm _ _
      rw [e1]
      constructor
      · intro h
        by_cases hc : b2 ≤ a2 + m * k2
        · omega
        · have : L ≤ a2 + m * k2 := by
            rw [hLm]; rw [hb2] at hc; omega
          omega
      · intro h
        by_cases hc : b2 ≤ a2 + m * k2
        · have := hb2.mp hc; omega
        · have : L ≤ a2 + m * k2 := by omega
          have := hLm.mp this
          omega
    rw [hlen, hA, hA1, Nat.min_eq_left (Nat.le_of_lt ha2)]


/-! ### bridging `sel` on slices with optional non-negative fields to natural numbers -/

/-- what `fix_slice` produces and what `combine_slices` receives: every present field is
    non-negative, a present step is at least 1 -/
structure NonNegSl (s : PSlice) : Prop where
  start : ∀ a, s.start = some a → 0 ≤ a
  stop  : ∀ b, s.stop = some b → 0 ≤ b
  step  : ∀ k, s.step = some k → 1 ≤ k

def startN (s : PSlice) : Nat := (s.start.getD 0).toNat
def stopN (N : Nat) (s : PSlice) : Nat := match s.stop with | none => N | some b => b.toNat
def stepN (s : PSlice) : Nat := (s.step.getD 1).toNat

def natSel (N a b k : Nat) : List Nat :=
  List.range' (min a N) (cdiv (min b N - min a N) k) k

theorem stepN_pos {s : PSlice} (h : NonNegSl s) : 1 ≤ stepN s := by
  obtain ⟨st, sp, se⟩ := s
  cases se with
  | none => simp [stepN]
  | some k => have := h.step k rfl; simp [stepN]; omega

theorem sel_eq_natSel (N : Nat) (s : PSlice) (h : NonNegSl s) :
    sel N s = natSel N (startN s) (stopN N s) (stepN s) := by
  obtain ⟨st, sp, se⟩ := s
  have h1 : ∀ a, st = some a → 0 ≤ a := h.start
  have h2 : ∀ b, sp = some b → 0 ≤ b := h.stop
  clear h
  unfold sel natSel cdiv startN stopN stepN
  have ea : (npBound N 0 st).toNat = min (st.getD 0).toNat N := by
    cases st with
    | none => simp [npBound]
    | some a => have := h1 a rfl; simp [npBound]; split <;> omega
  cases sp with
  | none =>
    have eb : (npBound N N none).toNat = min N N := by simp [npBound]
    simp only [ea, eb]
  | some b =>
    have := h2 b rfl
    have eb : (npBound N N (some b)).toNat = min b.toNat N := by
      simp [npBound]; split <;> omega
    simp only [ea, eb]

theorem natSel_stop_ge (N a b b' k : Nat) (hb : N ≤ b) (hb' : N ≤ b') :
    natSel N a b k = natSel N a b' k := by
  unfold natSel; rw [Nat.min_eq_right hb, Nat.min_eq_right hb']

theorem le_cdiv_mul (x k : Nat) (hk : 1 ≤ k) : x ≤ cdiv x k * k :=
  (cdiv_le_iff x k _ hk).mp (Nat.le_refl _)

theorem natSel_length (N a b k : Nat) :
    (natSel N a b k).length = cdiv (min b N - min a N) k := by
  simp [natSel]

theorem natSel_getElem? (N a b k j : Nat) (hj : j < cdiv (min b N - min a N) k) :
    (natSel N a b k)[j]? = some (min a N + k * j) := by
  unfold natSel
  rw [List.getElem?_eq_getElem (by simpa using hj)]
  simp

theorem mem_natSel_lt (N a b k j : Nat) (hk : 1 ≤ k) (h : j ∈ natSel N a b k) :
    j < min b N := by
  unfold natSel at h
  rw [List.mem_range'] at h
  obtain ⟨i, hi, rfl⟩ := h
  have : ¬ (min b N - min a N ≤ i * k) := by
    intro hle
    have := (cdiv_le_iff _ _ i hk).mpr hle
    omega
  have : k * i = i * k := Nat.mul_comm _ _
  omega

/-- the composition law on natural-number slices, in the `getElem?` form -/
theorem natSel_combine (N a1 b1 k1 a2 b2 k2 : Nat) (h1 : 1 ≤ k1) (h2 : 1 ≤ k2) :
    let L := (natSel N a1 b1 k1).length
    (natSel N (a1 + a2 * k1) (min b1 (a1 + b2 * k1)) (k1 * k2)).map some
      = (natSel L a2 b2 k2).map (fun j => (natSel N a1 b1 k1)[j]?) := by
  intro L
  have hL : L = cdiv (min b1 N - min a1 N) k1 := natSel_length _ _ _ _
  have core := combine_core N a1 b1 k1 a2 b2 k2 h1 h2
  simp only at core
  rw [← hL] at core
  unfold natSel
  rw [core, List.map_map]
  apply List.map_congr_left
  intro j hj
  have hjL : j < min b2 L := mem_natSel_lt L a2 b2 k2 j h2 hj
  have : j < cdiv (min b1 N - min a1 N) k1 := by omega
  simp only [Function.comp]
  exact (natSel_getElem? N a1 b1 k1 j this).symm

theorem orElse_nonneg_zero (x : Option Int) (h : ∀ a, x = some a → 0 ≤ a) :
    (orElse x 0).toNat = (x.getD 0).toNat := by
  cases x with
  | none => rfl
  | some a => simp [orElse]; split <;> simp_all

theorem orElse_step (x : Option Int) (h : ∀ k, x = some k → 1 ≤ k) :
    orElse x 1 = x.getD 1 := by
  cases x with
  | none => rfl
  | some k => have := h k rfl; simp [orElse]; omega

theorem combine1_nonneg {s1 s2 : PSlice} (h1 : NonNegSl s1) (h2 : NonNegSl s2) :
    NonNegSl (combine1 s1 s2) := by
  obtain ⟨st1, sp1, se1⟩ := s1
  obtain ⟨st2, sp2, se2⟩ := s2
  have a1 : 0 ≤ orElse st1 0 := by
    cases st1 with
    | none => simp [orElse]
    | some a => have := h1.start a rfl; simp [orElse]; split <;> omega
  have a2 : 0 ≤ orElse st2 0 := by
    cases st2 with
    | none => simp [orElse]
    | some a => have := h2.start a rfl; simp [orElse]; split <;> omega
  have k1 : 1 ≤ orElse se1 1 := by
    rw [orElse_step _ h1.step]; cases se1 with
    | none => simp
    | some k => exact h1.step k rfl
  have k2 : 1 ≤ orElse se2 1 := by
    rw [orElse_step _ h2.step]; cases se2 with
    | none => simp
    | some k => exact h2.step k rfl
  constructor
  · intro a ha
    simp only [combine1, Option.some.injEq] at ha
    subst ha
    exact Int.add_nonneg a1 (Int.mul_nonneg a2 (by omega))
  · intro b hb
    cases sp1 <;> cases sp2 <;> simp only [combine1, Option.some.injEq, reduceCtorEq] at hb
    · subst hb
      rename_i b2
      exact Int.add_nonneg a1 (Int.mul_nonneg (h2.stop b2 rfl) (by omega))
    · subst hb; rename_i b1; exact h1.stop b1 rfl
    · subst hb
      rename_i b1 b2
      have := h1.stop b1 rfl
      have := Int.add_nonneg a1 (Int.mul_nonneg (h2.stop b2 rfl) (by omega : (0:Int) ≤ orElse se1 1))
      omega
  · intro k hk
    simp only [combine1, Option.some.injEq] at hk
    subst hk
    have : 0 < orElse se1 1 * orElse se2 1 := Int.mul_pos (by omega) (by omega)
    omega


theorem natSel_congr_stop (N a b b' k : Nat) (h : min b N = min b' N) :
    natSel N a b k = natSel N a b' k := by
  unfold natSel; rw [h]

theorem reach_stop (N a1 b1 k1 : Nat) (hk : 1 ≤ k1) :
    min b1 N ≤ a1 + (natSel N a1 b1 k1).length * k1 := by
  rw [natSel_length]
  have := le_cdiv_mul (min b1 N - min a1 N) k1 hk
  omega

theorem toNat_orElse_start (x : Option Int) (h : ∀ a, x = some a → 0 ≤ a) :
    orElse x 0 = ((x.getD 0).toNat : Int) := by
  cases x with
  | none => rfl
  | some a => have := h a rfl; simp [orElse]; split <;> omega

theorem toNat_orElse_step (x : Option Int) (h : ∀ k, x = some k → 1 ≤ k) :
    orElse x 1 = ((x.getD 1).toNat : Int) := by
  cases x with
  | none => rfl
  | some k => have := h k rfl; simp [orElse]; omega

/-- **composition law for one axis**, any strides -/
theorem combine1_sel (N : Nat) (s1 s2 : PSlice) (h1 : NonNegSl s1) (h2 : NonNegSl s2) :
    (sel N (combine1 s1 s2)).map some
      = (sel (sel N s1).length s2).map (fun j => (sel N s1)[j]?) := by
  have hc := combine1_nonneg h1 h2
  rw [sel_eq_natSel N _ hc, sel_eq_natSel N s1 h1, sel_eq_natSel _ s2 h2]
  have hk1 := stepN_pos h1
  have hk2 := stepN_pos h2
  have key := natSel_combine N (startN s1) (stopN N s1) (stepN s1) (startN s2)
    (stopN (natSel N (startN s1) (stopN N s1) (stepN s1)).length s2) (stepN s2) hk1 hk2
  simp only at key
  rw [← key]
  congr 1
  -- the three fields of the combined slice
  have e1 := toNat_orElse_start s1.start h1.start
  have e2 := toNat_orElse_start s2.start h2.start
  have e3 := toNat_orElse_step s1.step h1.step
  have e4 := toNat_orElse_step s2.step h2.step
  have hstart : startN (combine1 s1 s2) = startN s1 + startN s2 * stepN s1 := by
    simp only [startN, combine1, Option.getD_some, stepN]
    rw [e1, e2, e3]; norm_cast
  have hstep : stepN (combine1 s1 s2) = stepN s1 * stepN s2 := by
    simp only [stepN, combine1, Option.getD_some]
    rw [e3, e4]; norm_cast
  rw [hstart, hstep]
  apply natSel_congr_stop
  have hreach := reach_stop N (startN s1) (stopN N s1) (stepN s1) hk1
  generalize (natSel N (startN s1) (stopN N s1) (stepN s1)).length = L at hreach ⊢
  obtain ⟨st1, sp1, se1⟩ := s1
  obtain ⟨st2, sp2, se2⟩ := s2
  cases sp1 <;> cases sp2 <;> simp only [stopN, combine1] at hreach ⊢
  · omega
  · rename_i b2
    have := h2.stop b2 rfl
    simp only at e1 e3
    rw [e1, e3]
    have : (((startN ⟨st1, none, se1⟩ : Nat) : Int) + b2 * ((stepN ⟨st1, none, se1⟩ : Nat) : Int)).toNat
        = startN ⟨st1, none, se1⟩ + b2.toNat * stepN ⟨st1, none, se1⟩ := by
      have hb : b2 = (b2.toNat : Int) := by omega
      rw [hb]; norm_cast
    simp only [startN, stepN] at this ⊢
    rw [this]; omega
  · rename_i b1
    omega
  · rename_i b1 b2
    have hb1 := h1.stop b1 rfl
    have hb2 := h2.stop b2 rfl
    simp only at e1 e3
    rw [e1, e3]
    have : (min b1 (((startN ⟨st1, some b1, se1⟩ : Nat) : Int) + b2 * ((stepN ⟨st1, some b1, se1⟩ : Nat) : Int))).toNat
        = min b1.toNat (startN ⟨st1, some b1, se1⟩ + b2.toNat * stepN ⟨st1, some b1, se1⟩) := by
      have hb : b2 = (b2.toNat : Int) := by omega
      have hb' : b1 = (b1.toNat : Int) := by omega
      rw [hb, hb']; norm_cast
    simp only [startN, stepN] at this ⊢
    rw [this]

theorem mem_natSel (N a b k x : Nat) (hk : 1 ≤ k) :
    x ∈ natSel N a b k ↔ a ≤ x ∧ x < min b N ∧ (x - a) % k = 0 := by
  constructor
  · intro h
    have hlt := mem_natSel_lt N a b k x hk h
    unfold natSel at h
    rw [List.mem_range'] at h
    obtain ⟨i, hi, rfl⟩ := h
    have hpos : 0 < min b N - min a N := by
      rcases Nat.eq_zero_or_pos (min b N - min a N) with h0 | h0
      · rw [h0, (cdiv_eq_zero_iff 0 k hk).mpr rfl] at hi; omega
      · exact h0
    have hA : min a N = a := by omega
    rw [hA] at hlt ⊢
    refine ⟨by omega, hlt, ?_⟩
    have : a + k * i - a = k * i := by omega
    rw [this, Nat.mul_mod_right]
  · rintro ⟨h1, h2, h3⟩
    unfold natSel
    rw [List.mem_range']
    have hA : min a N = a := by omega
    refine ⟨(x - a) / k, ?_, ?_⟩
    · have hdm := Nat.div_add_mod (x - a) k
      rw [h3] at hdm
      have : ¬ (min b N - min a N ≤ (x - a) / k * k) := by
        rw [hA, Nat.mul_comm]; omega
      have := mt (cdiv_le_iff (min b N - min a N) k ((x - a) / k) hk).mp this
      omega
    · have hdm := Nat.div_add_mod (x - a) k
      rw [h3] at hdm
      rw [hA]; omega

/-- membership characterisation of the numpy selection: position `x` is selected iff it lies in
    `[start, min stop N)` on the stride grid anchored at `start` -/
theorem mem_sel_iff (N : Nat) (s : PSlice) (h : NonNegSl s) (x : Nat) :
    x ∈ sel N s ↔ startN s ≤ x ∧ x < min (stopN N s) N ∧ (x - startN s) % stepN s = 0 := by
  rw [sel_eq_natSel N s h]
  exact mem_natSel N _ _ _ x (stepN_pos h)

end Pydap
