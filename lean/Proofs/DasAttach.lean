import Proofs.DasLine
/-! Helper lemmas on the dict operations and on one step of `add_attributes` (C08). -/
namespace Pydap.Das

theorem dget_derase_self (d : Dict) (k : Text) : dget (derase d k) k = none := by
  induction d with
  | nil => rfl
  | cons kv rest ih =>
    unfold derase dget at *
    by_cases h : kv.1 = k
    · simp only [List.filter, h, ne_eq, not_true_eq_false, decide_false]; exact ih
    · have h' : (k == kv.1) = false := by simp; exact fun e => h e.symm
      simp only [List.filter, h, ne_eq, not_false_eq_true, decide_true, List.lookup, h']; exact ih

theorem lstrip_indent (n : Nat) (t : Text) : lstrip (indent n ++ t) = lstrip t := by
  induction n with
  | zero => rfl
  | succ n ih => simp [indent, lstrip, isSpace, ih]

theorem word_typeConvert (x : Scalar) : Word (typeConvert x) := by
  have h1 : Word "String".toList := ⟨by decide, by decide⟩
  have h2 : Word "Float64".toList := ⟨by decide, by decide⟩
  have h3 : Word "Int32".toList := ⟨by decide, by decide⟩
  cases x with
  | str s => exact h1
  | num t f => cases f <;> first | exact h3 | exact h2

theorem word_listType (xs : List Scalar) : Word (listType xs) := by
  have h1 : Word "String".toList := ⟨by decide, by decide⟩
  have h2 : Word "Float64".toList := ⟨by decide, by decide⟩
  have h3 : Word "Int32".toList := ⟨by decide, by decide⟩
  unfold listType
  split
  · exact h1
  · split <;> first | exact h2 | exact h3

/-- the rendered attribute line of a scalar or list value, parsed from the state the parser is in after the
    preceding `consume` (white space stripped) -/
theorem parse_rendered_attr (lvl : Nat) (ty k : Text) (xs : List Scalar) (rest : Text)
    (hty : Word ty) (hk : Word k) (hx : ∀ x ∈ xs, ScalarOk ty x) :
    parseAttribute (lstrip (renderItem lvl (.attr ty k xs) ++ rest))
      = .ok (k, unwrap xs, lstrip rest) := by
  have e : renderItem lvl (.attr ty k xs) ++ rest
      = indent lvl ++ (ty ++ ' ' :: k ++ ' ' :: joinVals (xs.map encode) ++ [';', '\n'] ++ rest) := by
    simp [renderItem, List.append_assoc]
  rw [e, lstrip_indent]
  have hl : lstrip (ty ++ ' ' :: k ++ ' ' :: joinVals (xs.map encode) ++ [';', '\n'] ++ rest)
      = ty ++ ' ' :: k ++ ' ' :: joinVals (xs.map encode) ++ [';', '\n'] ++ rest := by
    obtain ⟨hne, hc⟩ := hty
    cases ty with
    | nil => exact absurd rfl hne
    | cons c cs => simp [lstrip, hc c (by simp)]
  rw [hl]
  exact parseAttribute_line ty k xs rest hty hk hx

end Pydap.Das
