/-
  C12 — lookups (`obj[key]` with any string, the dotted fall-back of `_getitem_string` included).

  * lookups are observations: a history with interleaved lookups reaches the store its edits reach;
  * a quoted dotted key is never a stored name (it keeps a `.` in a `dap4` prefix or carries a literal `%2E`);
  * in an object satisfying the invariant, looking the dotted chain of names up returns the variable at the end of
    the chain itself; below a dataset that chain is the variable's id.
-/
import PydapModel.Heap
import Proofs.Quote
import Proofs.Tree
import Proofs.TreeCopy
import Proofs.TreeGetVar
import Proofs.TreeHist
namespace Pydap.Tree
open Pydap.Quote

/-! ### lookups do not change the store -/

theorem runH_eq_run (hs : List HOp) : ∀ s, runH s hs = run s (edits hs) := by
  induction hs with
  | nil => intro s; rfl
  | cons x t ih =>
    intro s
    cases x with
    | op o =>
      show runH (step s o) t = run (step s o) (edits t)
      exact ih _
    | lookup h p k =>
      show runH s t = run s (edits t)
      exact ih _

theorem edits_append (a b : List HOp) : edits (a ++ b) = edits a ++ edits b := by
  induction a with
  | nil => rfl
  | cons x t ih =>
    cases x with
    | op o => simp only [List.cons_append, edits, ih]
    | lookup h p k => simp only [List.cons_append, edits, ih]

theorem answers_append (a b : List HOp) : ∀ s, answers s (a ++ b) = answers s a ++ answers (runH s a) b := by
  induction a with
  | nil => intro s; rfl
  | cons x t ih =>
    intro s
    cases x with
    | op o =>
      show answers (step s o) (t ++ b) = answers (step s o) t ++ answers (runH (step s o) t) b
      exact ih _
    | lookup h p k =>
      show lookupAt s h p k :: answers s (t ++ b) = lookupAt s h p k :: answers s t ++ answers (runH s t) b
      rw [ih s]; rfl

/-! ### `%2E` → `.` finds every `.` and every literal `%2E` -/

theorem rep3_mem_cons {α} [DecidableEq α] (a b c r x : α) (s : List α) (h : r ∈ rep3 a b c r s) :
    r ∈ rep3 a b c r (x :: s) := by
  match s, h with
  | [], h => simp [rep3] at h
  | [y], h =>
    simp only [rep3] at h ⊢
    exact List.mem_cons_of_mem _ h
  | y :: z :: t, h =>
    rw [rep3]
    split
    · exact List.mem_cons_self
    · exact List.mem_cons_of_mem _ h

theorem rep3_mem_of_mem {α} [DecidableEq α] (a b c r : α) (s : List α) (h : r ∈ s) : r ∈ rep3 a b c r s := by
  induction s with
  | nil => cases h
  | cons x t ih =>
    rcases List.mem_cons.1 h with h | h
    · subst h
      match t with
      | [] => simp [rep3]
      | [y] => simp [rep3]
      | y :: z :: t' =>
        rw [rep3]
        split <;> exact List.mem_cons_self
    · exact rep3_mem_cons a b c r x t (ih h)

theorem rep3_mem_of_pat {α} [DecidableEq α] (a b c r : α) (u v : List α) :
    r ∈ rep3 a b c r (u ++ a :: b :: c :: v) := by
  induction u with
  | nil =>
    show r ∈ rep3 a b c r (a :: b :: c :: v)
    rw [rep3]
    simp
  | cons x t ih => exact rep3_mem_cons a b c r x _ ih

theorem splitAux_nil_free (sep : Chr) (s : Str) (h : (splitAux sep s).2 = []) : sep ∉ s := by
  induction s with
  | nil => simp
  | cons c t ih =>
    rw [splitAux_cons] at h
    by_cases hc : c = sep
    · rw [if_pos hc] at h; cases h
    · rw [if_neg hc] at h
      simp only [List.mem_cons, not_or]
      exact ⟨fun e => hc e.symm, ih h⟩

theorem nameEsc_false (n : Str) (h : dot ∈ rep3 [37] [50] [69] dot n) : nameEsc n = false := by
  cases he : nameEsc n with
  | false => rfl
  | true =>
    exfalso
    simp only [nameEsc, splitOn_eq, List.length_cons, beq_iff_eq] at he
    have : (splitAux dot (rep3 [37] [50] [69] dot n)).2 = [] := by
      cases hx : (splitAux dot (rep3 [37] [50] [69] dot n)).2 with
      | nil => rfl
      | cons a t => rw [hx] at he; simp at he
    exact splitAux_nil_free dot _ this h

theorem Q_append (a b : Bytes) : Q (a ++ b) = Q a ++ Q b := by simp [Q]

/-- **a key with a `.` is never quoted to a stored name**: either the `.` sits in the passed-through `dap4` prefix
    and stays, or it is quoted to a literal `%2E` -/
theorem quote_dotted (key : Str) (h : dot ∈ key) : nameEsc (quote key) = false := by
  apply nameEsc_false
  rw [quote_eq]
  generalize hpre : (if key.take 4 == dap4 then key.take 8 else []) = pre
  generalize hrest : (if key.take 4 == dap4 then key.drop 8 else key) = rest
  have hk : key = pre ++ rest := by
    rw [← hpre, ← hrest]
    split <;> simp
  rw [hk] at h
  rcases List.mem_append.1 h with h | h
  · exact rep3_mem_of_mem _ _ _ _ _ (List.mem_append_left _ h)
  · obtain ⟨r1, r2, hr⟩ := List.append_of_mem h
    have hf : rest.flatten = r1.flatten ++ 46 :: r2.flatten := by
      rw [hr]; simp [dot]
    have hq : Q rest.flatten = Q r1.flatten ++ 37 :: 50 :: 69 :: Q r2.flatten := by
      rw [hf, Q_append]
      show _ ++ Q ([46] ++ r2.flatten) = _
      rw [Q_append]
      rfl
    rw [hq, chars_append]
    have : pre ++ (chars (Q r1.flatten) ++ chars (37 :: 50 :: 69 :: Q r2.flatten))
        = (pre ++ chars (Q r1.flatten)) ++ [37] :: [50] :: [69] :: chars (Q r2.flatten) := by
      simp [chars]
    rw [this]
    exact rep3_mem_of_pat _ _ _ _ _ _

/-! ### `_dict[k]` in a forest without literal `%2E` -/

theorem escOk_find (f : Forest) (k : Str) (c : Obj) (he : escOk f = true) (h : f.find? k = some c) :
    escO c = true ∧ c.hdr.name = k := by
  induction f with
  | nil => simp [Forest.find?] at h
  | cons h0 kids rest _ ihr =>
    simp only [escOk, Bool.and_eq_true] at he
    simp only [Forest.find?] at h
    split at h
    · rename_i hn
      cases h
      exact ⟨by simp [escO, he.1.1, he.1.2], hn⟩
    · exact ihr he.2 h

theorem find?_dotted (f : Forest) (key : Str) (he : escOk f = true) (hd : dot ∈ key) :
    f.find? (quote key) = none := by
  cases hf : f.find? (quote key) with
  | none => rfl
  | some c =>
    exfalso
    obtain ⟨hc, hn⟩ := escOk_find f _ c he hf
    simp only [escO, Bool.and_eq_true] at hc
    rw [hn, quote_dotted key hd] at hc
    exact absurd hc.1 (by simp)

/-! ### chains, front to back -/

/-- `Path o ns v`: `v` is reached from `o` through listed children named `ns`; the intermediate objects are not
    datasets.  (`Chain` of `Proofs/TreeGetVar.lean`, built from the front.) -/
inductive Path : Obj → List Str → Obj → Prop
  | one {o c} : childOf o c → Path o [c.hdr.name] c
  | cons {o c ns v} : childOf o c → c.hdr.kind ≠ .dataset → Path c ns v → Path o (c.hdr.name :: ns) v

theorem Path.ne_nil {o v : Obj} {ns : List Str} (h : Path o ns v) : ns ≠ [] := by
  cases h <;> simp

theorem Path.snoc {o p c : Obj} {ns : List Str} (h : Path o ns p) (hk : p.hdr.kind ≠ .dataset) (hc : childOf p c) :
    Path o (ns ++ [c.hdr.name]) c := by
  induction h with
  | one h0 => exact .cons h0 hk (.one hc)
  | cons h0 hk0 _ ih => exact .cons h0 hk0 (ih hk hc)

theorem Path.of_chain {root v : Obj} {ns : List Str} (h : Chain root ns v) : Path root ns v := by
  induction h with
  | child h0 => exact .one h0
  | step _ hk hc ih => exact ih.snoc hk hc

theorem mem_joinDot (x : Chr) (ns : List Str) (h : x ∈ joinDot ns) : x = dot ∨ ∃ n ∈ ns, x ∈ n := by
  induction ns with
  | nil => simp [joinDot] at h
  | cons a t ih =>
    cases t with
    | nil => exact Or.inr ⟨a, by simp, by simpa [joinDot] using h⟩
    | cons b t' =>
      simp only [joinDot, List.mem_append, List.mem_cons] at h
      rcases h with h | h | h
      · exact Or.inr ⟨a, by simp, h⟩
      · exact Or.inl h
      · rcases ih h with h | ⟨n, hn, hx⟩
        · exact Or.inl h
        · exact Or.inr ⟨n, by simp [hn], hx⟩

theorem dot_mem_joinDot (a b : Str) (t : List Str) : dot ∈ joinDot (a :: b :: t) := by
  simp [joinDot]

/-- a listed child is stored under its own name; its parent is a container; it inherits the invariant -/
theorem childOf_find (o c : Obj) (ho : invO o) (he : escO o = true) (h : childOf o c) :
    o.kids.find? c.hdr.name = some c ∧ o.hdr.kind ≠ .base ∧ quote c.hdr.name = c.hdr.name
    ∧ invO c ∧ escO c = true := by
  obtain ⟨hi, _, q, _, hg⟩ := childOf_facts o c ho h
  obtain ⟨k, _, hf⟩ := h
  have hs := (shapeO_parts o).1 ho.1
  obtain ⟨_, hn, _⟩ := find?_some _ _ _ _ _ _ hs.2.2.2.2 ho.2 hf
  simp only [escO, Bool.and_eq_true] at he
  refine ⟨by rw [hn]; exact hf, ?_, q, hi, (escOk_find _ _ c he.2 hf).1⟩
  intro hb
  rw [hs.2.2.2.1 hb] at hf
  simp [Forest.find?] at hf

/-- **`o["n1.n2.….nk"]` is the variable at the end of the chain**: in an object satisfying the invariant (no
    literal `%2E` in a stored name), for every variable `v` reached through listed children named `ns` the
    dotted fall-back of `_getitem_string` resolves `".".join(ns)` to `v` itself.  Below a dataset the names
    must be free of `/` (the DAP4 path branch is not modelled). -/
theorem lookupSegs_path {o v : Obj} {ns : List Str} (hp : Path o ns v) :
    invO o → escO o = true → (o.hdr.kind = .dataset → ∀ n ∈ ns, n.contains slash = false) →
    lookupSegs ns o = .ok (.obj v) := by
  induction hp with
  | @one o c h =>
    intro ho he _
    obtain ⟨hf, hb, q, _, _⟩ := childOf_find o c ho he h
    simp only [lookupSegs, hb, if_false, joinDot, q, hf]
  | @cons o c ns v h hk hp ih =>
    intro ho he hs
    obtain ⟨hf, hb, q, hic, hec⟩ := childOf_find o c ho he h
    obtain ⟨m, t, rfl⟩ : ∃ m t, ns = m :: t := by
      cases ns with
      | nil => exact absurd rfl hp.ne_nil
      | cons m t => exact ⟨m, t, rfl⟩
    have hd := dot_mem_joinDot c.hdr.name m t
    have he' := he
    simp only [escO, Bool.and_eq_true] at he'
    have hnone := find?_dotted o.kids _ he'.2 hd
    have hin := ih hic hec (fun hds => absurd hds hk)
    have h1 : ¬ (o.hdr.kind = .dataset ∧ (joinDot (c.hdr.name :: m :: t) = [] ∨ joinDot (c.hdr.name :: m :: t) = [slash])) := by
      rintro ⟨_, h1 | h1⟩
      · rw [h1] at hd; cases hd
      · rw [h1] at hd
        simp only [List.mem_singleton] at hd
        exact absurd hd (by decide)
    have h2 : ¬ (o.hdr.kind = .dataset ∧ (joinDot (c.hdr.name :: m :: t)).contains slash = true) := by
      rintro ⟨hds, h2⟩
      simp only [List.contains_eq_mem, decide_eq_true_eq] at h2
      rcases mem_joinDot _ _ h2 with h2 | ⟨n, hn, hx⟩
      · exact absurd h2 (by decide)
      · have := hs hds n hn
        simp only [List.contains_eq_mem, decide_eq_false_iff_not] at this
        exact this hx
    rw [lookupSegs]
    simp only [hb, if_false, hnone, h1, h2, List.isEmpty_cons, Bool.false_eq_true, q, hf, hin]

theorem splitAux_prefix (a rest : Str) (ha : dot ∉ a) :
    splitAux dot (a ++ dot :: rest) = (a, splitOn dot rest) := by
  induction a with
  | nil => show splitAux dot (dot :: _) = _; rw [splitAux_cons, if_pos rfl]; rfl
  | cons x a' iha =>
    simp only [List.mem_cons, not_or] at ha
    rw [List.cons_append, splitAux_cons, if_neg (fun e => ha.1 e.symm), iha ha.2]

/-- `".".join(ns).split(".")` gives the names back when none of them has a `.` -/
theorem splitOn_joinDot (ns : List Str) (hne : ns ≠ []) (h : ∀ n ∈ ns, n.contains dot = false) :
    splitOn dot (joinDot ns) = ns := by
  induction ns with
  | nil => exact absurd rfl hne
  | cons a t ih =>
    cases t with
    | nil => exact splitOn_free dot a (h a (by simp))
    | cons b t' =>
      have hb := ih (by simp) (fun n hn => h n (by simp [hn]))
      have ha : dot ∉ a := by simpa using h a (by simp)
      show splitOn dot (a ++ dot :: joinDot (b :: t')) = _
      rw [splitOn_eq, splitAux_prefix a _ ha, hb]


theorem Path.names_free {o v : Obj} {ns : List Str} (hp : Path o ns v) :
    invO o → ∀ n ∈ ns, n.contains dot = false := by
  induction hp with
  | @one o c h =>
    intro ho n hn
    obtain ⟨_, _, _, d, _⟩ := childOf_facts o c ho h
    simp only [List.mem_singleton] at hn
    subst hn; exact d
  | @cons o c ns v h _ _ ih =>
    intro ho n hn
    obtain ⟨hi, _, _, d, _⟩ := childOf_facts o c ho h
    rcases List.mem_cons.1 hn with hn | hn
    · subst hn; exact d
    · exact ih hi n hn

/-- `o[".".join(ns)]`, the key as one string -/
theorem lookup_path {o v : Obj} {ns : List Str} (hp : Path o ns v) (ho : invO o) (he : escO o = true)
    (hs : o.hdr.kind = .dataset → ∀ n ∈ ns, n.contains slash = false) :
    lookup o (joinDot ns) = .ok (.obj v) := by
  unfold lookup
  rw [splitOn_joinDot ns hp.ne_nil (hp.names_free ho)]
  exact lookupSegs_path hp ho he hs

/-- a removed key is gone -/
theorem find?_remove (k : Str) (f : Forest) (hs : shapeOk f = true) : (f.remove k).find? k = none := by
  induction f with
  | nil => rfl
  | cons h kids rest _ ihr =>
    simp only [shapeOk, Bool.and_eq_true] at hs
    obtain ⟨⟨⟨⟨⟨⟨_, _⟩, s3⟩, _⟩, _⟩, _⟩, s7⟩ := hs
    simp only [Forest.remove]
    split
    · rename_i hn
      simp only [Bool.not_eq_true', List.contains_eq_mem, decide_eq_false_iff_not] at s3
      cases hf : rest.find? k with
      | none => rfl
      | some c =>
        exfalso
        apply s3
        rw [hn]
        clear ihr s7 s3
        induction rest with
        | nil => simp [Forest.find?] at hf
        | cons h1 k1 r1 _ ih1 =>
          simp only [Forest.find?] at hf
          simp only [Forest.keys, List.mem_cons]
          split at hf
          · rename_i e; exact Or.inl e.symm
          · exact Or.inr (ih1 hf)
    · rename_i hn
      simp only [Forest.find?, hn, if_false]
      exact ihr s7

/-- **a deleted name raises `KeyError`**: after `del container[key]` (key a stored, dot-free name; for a dataset
    not `""`, no `/`) looking the name up on that container raises `KeyError` -/
theorem lookup_deleted (o r : Obj) (key : Str) (ho : invO o) (h : delItem o key = .ok r)
    (hd : key.contains dot = false) (hq : quote key = key)
    (hds : o.hdr.kind = .dataset → key ≠ [] ∧ key.contains slash = false) :
    lookup r key = .error .keyError := by
  unfold delItem at h
  split at h; · cases h
  rename_i hc
  split at h; · cases h
  cases h
  have hs := ((shapeO_parts o).1 ho.1).2.2.2.2
  have hb : ¬ o.hdr.kind = .base := by
    intro hb; simp [isContainer, hb] at hc
  unfold lookup
  rw [splitOn_free dot key hd]
  simp only [lookupSegs, hb, if_false, joinDot, hq, find?_remove key o.kids hs, List.isEmpty_nil, if_true]
  have h1 : ¬ (o.hdr.kind = .dataset ∧ (key = [] ∨ key = [slash])) := by
    rintro ⟨hk, h1 | h1⟩
    · exact (hds hk).1 h1
    · have := (hds hk).2
      rw [h1] at this
      exact absurd this (by decide)
  have h2 : ¬ (o.hdr.kind = .dataset ∧ key.contains slash = true) := by
    rintro ⟨hk, h2⟩
    rw [(hds hk).2] at h2
    cases h2
  simp only [h1, h2, if_false]

end Pydap.Tree

