import PydapModel.Derive
import Proofs.Slice
namespace Pydap.Derive
open Pydap Pydap.IterData

theorem filterMap_congr' {α β} (f g : α → Option β) : ∀ (l : List α), (∀ x ∈ l, f x = g x) → l.filterMap f = l.filterMap g
  | [], _ => rfl
  | x :: xs, h => by
    simp only [List.filterMap_cons, h x (by simp), filterMap_congr' f g xs (fun y hy => h y (by simp [hy]))]

/-- the filter form of `everyNth`, with the index offset of `zipIdx` -/
theorem everyNth_aux {α} (k : Nat) (ys : List α) (n : Nat) :
    ((ys.zipIdx n).filter fun p => p.2 % k = 0).map (·.1)
      = ((List.range' n ys.length).filter (· % k = 0)).filterMap (fun i => ys[i - n]?) := by
  induction ys generalizing n with
  | nil => rfl
  | cons y ys ih =>
    simp only [List.zipIdx_cons, List.length_cons, List.range'_succ]
    have hc : ((List.range' (n + 1) ys.length).filter (· % k = 0)).filterMap (fun i => (y :: ys)[i - n]?)
        = ((List.range' (n + 1) ys.length).filter (· % k = 0)).filterMap (fun i => ys[i - (n + 1)]?) := by
      apply filterMap_congr'
      intro i hi
      have := (List.mem_range'_1.mp (List.mem_filter.mp hi).1).1
      have e : i - n = (i - (n + 1)) + 1 := by omega
      rw [e, List.getElem?_cons_succ]
    by_cases h : n % k = 0
    · simp [h, ih, hc]
    · simp [h, ih, hc]

/-- positions divisible by `k` below `len` = the stride grid -/
theorem filter_mod_range (k : Nat) (hk : 1 ≤ k) (len : Nat) :
    (List.range' 0 len).filter (· % k = 0) = List.range' 0 (cdiv len k) k := by
  induction len with
  | zero => simp [cdiv]; omega
  | succ n ih =>
    rw [List.range'_concat, List.filter_append, ih]
    simp only [Nat.zero_add, Nat.one_mul]
    -- n = k * q + r
    have hdm := Nat.div_add_mod n k
    have hr := Nat.mod_lt n (show 0 < k by omega)
    by_cases h : n % k = 0
    · have hq : cdiv n k = n / k := by
        apply Nat.le_antisymm
        · rw [cdiv_le_iff _ _ _ hk]; rw [h] at hdm; rw [Nat.mul_comm]; omega
        · apply Nat.le_of_not_lt; intro hlt
          have : cdiv n k ≤ n / k - 1 := by omega
          rw [cdiv_le_iff _ _ _ hk, Nat.sub_mul] at this
          rw [h] at hdm
          have : n / k * k = n := by rw [Nat.mul_comm]; omega
          have hpos : 1 ≤ n / k := by omega
          have : k ≤ n / k * k := by
            calc k = 1 * k := by omega
              _ ≤ n / k * k := Nat.mul_le_mul_right k hpos
          omega
      have hq1 : cdiv (n + 1) k = n / k + 1 := by
        apply Nat.le_antisymm
        · rw [cdiv_le_iff _ _ _ hk, Nat.add_mul]; rw [h] at hdm
          have : n / k * k = n := by rw [Nat.mul_comm]; omega
          omega
        · apply Nat.le_of_not_lt; intro hlt
          have : cdiv (n + 1) k ≤ n / k := by omega
          rw [cdiv_le_iff _ _ _ hk] at this
          rw [h] at hdm
          have : n / k * k = n := by rw [Nat.mul_comm]; omega
          omega
      rw [hq1, List.range'_concat, hq]
      simp only [h, decide_true, List.filter_cons_of_pos, List.filter_nil, Nat.zero_add]
      rw [h] at hdm
      congr 2
      omega
    · have hq1 : cdiv (n + 1) k = cdiv n k := by
        apply Nat.le_antisymm
        · rw [cdiv_le_iff _ _ _ hk]
          have h2 : ¬ (cdiv n k ≤ n / k) := by
            rw [cdiv_le_iff _ _ _ hk, Nat.mul_comm]; omega
          have h3 : n / k + 1 ≤ cdiv n k := by omega
          have : (n / k + 1) * k ≤ cdiv n k * k := Nat.mul_le_mul_right k h3
          rw [Nat.add_mul, Nat.mul_comm (n / k) k] at this
          omega
        · have h1 : cdiv n k ≤ cdiv (n + 1) k := by
            rw [cdiv_le_iff _ _ _ hk]
            have := (cdiv_le_iff (n + 1) k (cdiv (n + 1) k) hk).mp (Nat.le_refl _)
            omega
          exact h1
      rw [hq1]
      simp [h]

theorem everyNth_eq {α} (k : Nat) (hk : 1 ≤ k) (ys : List α) :
    everyNth k ys = (List.range' 0 (cdiv ys.length k) k).filterMap (ys[·]?) := by
  unfold everyNth
  have := everyNth_aux k ys 0
  simp only [Nat.sub_zero] at this
  rw [this, filter_mod_range k hk]

theorem range'_filterMap_shift {β} (f : Nat → Option β) (s c k : Nat) :
    (List.range' s c k).filterMap f = (List.range' 0 c k).filterMap (fun i => f (s + i)) := by
  induction c generalizing s f with
  | zero => rfl
  | succ c ih =>
    simp only [List.range'_succ, List.filterMap_cons, Nat.add_zero, Nat.zero_add]
    rw [ih f (s + k), ih (fun i => f (s + i)) k]
    simp only [Nat.add_assoc]

/-- `xs[a:b:k]` by take / drop / every k-th = the positions of `sel` -/
theorem slice_nat {α} (xs : List α) (a b k : Nat) (hk : 1 ≤ k) :
    everyNth k ((xs.take b).drop a) = (natSel xs.length a b k).filterMap (xs[·]?) := by
  rw [everyNth_eq k hk]
  unfold natSel
  have hlen : ((xs.take b).drop a).length = min b xs.length - min a xs.length := by
    simp only [List.length_drop, List.length_take]; omega
  rw [hlen, range'_filterMap_shift (fun i => xs[i]?) (min a xs.length)]
  apply filterMap_congr'
  intro i hi
  obtain ⟨j, hj, rfl⟩ := List.mem_range'.mp hi
  have hlt : k * j < min b xs.length - min a xs.length := by
    apply Nat.lt_of_not_le
    intro hle
    have := (cdiv_le_iff (min b xs.length - min a xs.length) k j hk).mpr (by rw [Nat.mul_comm]; exact hle)
    omega
  simp only [Nat.zero_add]
  rw [List.getElem?_drop, List.getElem?_take]
  have h1 : a + k * j < b := by omega
  have h2 : min a xs.length = a := by omega
  rw [if_pos h1, h2]

theorem islice_sel {α} (s : PSlice) (h : NonNegSl s) (xs : List α) :
    islice s xs = .ok (pySlice s xs) := by
  unfold pySlice
  rw [sel_eq_natSel _ s h, ← slice_nat xs _ _ _ (stepN_pos h)]
  obtain ⟨st, sp, se⟩ := s
  have h1 : ¬ (st.getD 0 < 0 ∨ se.getD 1 < 1) := by
    have ha : 0 ≤ st.getD 0 := by cases st with
      | none => simp
      | some a => exact h.start a rfl
    have hk : 1 ≤ se.getD 1 := by cases se with
      | none => simp
      | some k => exact h.step k rfl
    omega
  cases sp with
  | none =>
    simp only [islice, isliceArgs, h1, if_false, bind, Except.bind, pure, Except.pure, startN, stopN, stepN,
      List.take_length]
  | some b =>
    have hb : ¬ b < 0 := by have := h.stop b rfl; omega
    simp only [islice, isliceArgs, h1, hb, if_false, bind, Except.bind, pure, Except.pure, startN, stopN, stepN]


theorem filterMap_total {α β} (f : α → Option β) : ∀ (l : List α), (∀ x ∈ l, (f x).isSome = true) →
    (l.filterMap f).length = l.length ∧ ∀ j : Nat, (l.filterMap f)[j]? = (l[j]?).bind f
  | [], _ => ⟨rfl, fun j => by simp⟩
  | x :: xs, h => by
    obtain ⟨y, hy⟩ := Option.isSome_iff_exists.mp (h x (by simp))
    obtain ⟨h1, h2⟩ := filterMap_total f xs (fun z hz => h z (by simp [hz]))
    refine ⟨by simp [List.filterMap_cons, hy, h1], fun j => ?_⟩
    simp only [List.filterMap_cons, hy]
    cases j with
    | zero => simp [hy]
    | succ j => simp [h2 j]

theorem sel_lt (N : Nat) (s : PSlice) (h : NonNegSl s) (x : Nat) (hx : x ∈ sel N s) : x < N := by
  have := (mem_sel_iff N s h x).mp hx
  omega

theorem pySlice_facts {α} (s : PSlice) (h : NonNegSl s) (xs : List α) :
    (pySlice s xs).length = (sel xs.length s).length ∧
      ∀ j : Nat, (pySlice s xs)[j]? = ((sel xs.length s)[j]?).bind (fun i => xs[i]?) := by
  apply filterMap_total
  intro x hx
  have := sel_lt _ s h x hx
  simp [this]

/-- **a slice of a slice** (C03's composition law on lists): slicing by the combined slice of
    `combine_slices` = slicing twice -/
theorem pySlice_combine {α} (s1 s2 : PSlice) (h1 : NonNegSl s1) (h2 : NonNegSl s2) (xs : List α) :
    pySlice (combine1 s1 s2) xs = pySlice s2 (pySlice s1 xs) := by
  obtain ⟨hl, hg⟩ := pySlice_facts s1 h1 xs
  have hc := combine1_sel xs.length s1 s2 h1 h2
  show (sel xs.length (combine1 s1 s2)).filterMap (xs[·]?) = (sel (pySlice s1 xs).length s2).filterMap ((pySlice s1 xs)[·]?)
  rw [hl]
  have e1 : (sel xs.length (combine1 s1 s2)).filterMap (xs[·]?)
      = ((sel xs.length (combine1 s1 s2)).map some).filterMap (fun o => o.bind (xs[·]?)) := by
    rw [List.filterMap_map]; rfl
  rw [e1, hc, List.filterMap_map]
  apply filterMap_congr'
  intro j _
  simp [hg j]


end Pydap.Derive
