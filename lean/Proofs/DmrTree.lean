import PydapModel.Dmr
namespace Pydap.Dmr

open Forest

/-- full paths of all nodes (groups and variables) -/
def allPaths : Forest → List (List Str)
  | .nil => []
  | .var n _ rest => [n] :: allPaths rest
  | .group n k rest => [n] :: ((allPaths k).map (n :: ·) ++ allPaths rest)

/-- full paths of the groups -/
def groupPaths : Forest → List (List Str)
  | .nil => []
  | .var _ _ rest => groupPaths rest
  | .group n k rest => [n] :: ((groupPaths k).map (n :: ·) ++ groupPaths rest)

/-- children of the first top-level group named `g` -/
def kidsOf (g : Str) : Forest → Forest
  | .nil => .nil
  | .var _ _ rest => kidsOf g rest
  | .group n k rest => if n == g then k else kidsOf g rest

/-- the variable part of a leaf -/
def Leaf.recs : Leaf → List VarRec
  | .var r => [r]
  | .group => []

/-- the group part of a leaf stored at path `p` -/
def Leaf.gp : Leaf → List Str → List (List Str)
  | .group, p => [p]
  | .var _, _ => []

theorem nodup_of_map {α β} (f : α → β) {l : List α} (h : (l.map f).Nodup) : l.Nodup :=
  List.Pairwise.of_map f (fun _ _ hne e => hne (e ▸ rfl)) h

theorem mem_names_of_mem_allPaths (t : Forest) (g : Str) (ps : List Str) :
    g :: ps ∈ allPaths t → g ∈ t.names := by
  induction t with
  | nil => intro h; simp [allPaths] at h
  | var n r rest ih =>
    intro h
    simp only [allPaths, List.mem_cons] at h
    simp only [Forest.names, List.mem_cons]
    rcases h with h | h
    · left; injection h
    · right; exact ih h
  | group n k rest ihk ihr =>
    intro h
    simp only [allPaths, List.mem_cons, List.mem_append, List.mem_map] at h
    simp only [Forest.names, List.mem_cons]
    rcases h with h | ⟨a, _, h⟩ | h
    · left; injection h
    · left; injection h with h1 h2; exact h1.symm
    · right; exact ihr h

theorem mem_allPaths_of_mem_names (t : Forest) (nm : Str) :
    nm ∈ t.names → [nm] ∈ allPaths t := by
  induction t with
  | nil => intro h; simp [Forest.names] at h
  | var n r rest ih =>
    intro h
    simp only [Forest.names, List.mem_cons] at h
    simp only [allPaths, List.mem_cons]
    rcases h with h | h
    · left; rw [h]
    · right; exact ih h
  | group n k rest ihk ihr =>
    intro h
    simp only [Forest.names, List.mem_cons] at h
    simp only [allPaths, List.mem_cons, List.mem_append]
    rcases h with h | h
    · left; rw [h]
    · right; right; exact ihr h

theorem groupPaths_sub (t : Forest) : ∀ q, q ∈ groupPaths t → q ∈ allPaths t := by
  induction t with
  | nil => intro q h; simp [groupPaths] at h
  | var n r rest ih =>
    intro q h
    simp only [groupPaths] at h
    simp only [allPaths, List.mem_cons]
    right; exact ih q h
  | group n k rest ihk ihr =>
    intro q h
    simp only [groupPaths, List.mem_cons, List.mem_append, List.mem_map] at h
    simp only [allPaths, List.mem_cons, List.mem_append, List.mem_map]
    rcases h with h | ⟨a, ha, h⟩ | h
    · left; exact h
    · right; left; exact ⟨a, ihk a ha, h⟩
    · right; right; exact ihr q h

theorem names_nodup (t : Forest) : (allPaths t).Nodup → t.names.Nodup := by
  induction t with
  | nil => intro _; simp [Forest.names]
  | var n r rest ih =>
    intro h
    simp only [allPaths, List.nodup_cons] at h
    simp only [Forest.names, List.nodup_cons]
    exact ⟨fun hm => h.1 (mem_allPaths_of_mem_names rest n hm), ih h.2⟩
  | group n k rest ihk ihr =>
    intro h
    simp only [allPaths, List.nodup_cons, List.mem_append, not_or] at h
    simp only [Forest.names, List.nodup_cons]
    exact ⟨fun hm => h.1.2 (mem_allPaths_of_mem_names rest n hm), ihr ((List.nodup_append.mp h.2).2.1)⟩

/-! ### snoc / remove -/

theorem walk_snoc (nm : Str) (item : Leaf) (t : Forest) :
    (t.snoc nm item).walk = t.walk ++ item.recs := by
  induction t with
  | nil => cases item <;> simp [Forest.snoc, Forest.walk, Leaf.recs]
  | var n r rest ih => simp [Forest.snoc, Forest.walk, ih]
  | group n k rest ihk ihr => simp [Forest.snoc, Forest.walk, ihr]

theorem allPaths_snoc (nm : Str) (item : Leaf) (t : Forest) :
    allPaths (t.snoc nm item) = allPaths t ++ [[nm]] := by
  induction t with
  | nil => cases item <;> simp [Forest.snoc, allPaths]
  | var n r rest ih => simp [Forest.snoc, allPaths, ih]
  | group n k rest ihk ihr => simp [Forest.snoc, allPaths, ihr]

theorem groupPaths_snoc (nm : Str) (item : Leaf) (t : Forest) :
    groupPaths (t.snoc nm item) = groupPaths t ++ item.gp [nm] := by
  induction t with
  | nil => cases item <;> simp [Forest.snoc, groupPaths, Leaf.gp]
  | var n r rest ih => simp [Forest.snoc, groupPaths, ih]
  | group n k rest ihk ihr => simp [Forest.snoc, groupPaths, ihr]

theorem remove_of_not_mem (nm : Str) (t : Forest) : nm ∉ t.names → t.remove nm = t := by
  induction t with
  | nil => intro _; rfl
  | var n r rest ih =>
    intro h
    simp only [Forest.names, List.mem_cons, not_or] at h
    have hn : (n == nm) = false := by simp; exact fun e => h.1 e.symm
    simp only [Forest.remove, hn, ih h.2]; simp
  | group n k rest ihk ihr =>
    intro h
    simp only [Forest.names, List.mem_cons, not_or] at h
    have hn : (n == nm) = false := by simp; exact fun e => h.1 e.symm
    simp only [Forest.remove, hn, ihr h.2]; simp

/-! ### mapGroup -/

theorem mapGroup_of_not_mem (g : Str) (f : Forest → Forest) (t : Forest) :
    g ∉ t.names → t.mapGroup g f = t := by
  induction t with
  | nil => intro _; rfl
  | var n r rest ih =>
    intro h
    simp only [Forest.names, List.mem_cons, not_or] at h
    simp only [Forest.mapGroup, ih h.2]
  | group n k rest ihk ihr =>
    intro h
    simp only [Forest.names, List.mem_cons, not_or] at h
    have hn : (n == g) = false := by simp; exact fun e => h.1 e.symm
    simp only [Forest.mapGroup, hn, ihr h.2]; simp

theorem walk_mapGroup (g : Str) (f : Forest → Forest) (X : List VarRec) (t : Forest) :
    t.names.Nodup → t.hasGroup g = true →
    (f (kidsOf g t)).walk.Perm (X ++ (kidsOf g t).walk) →
    (t.mapGroup g f).walk.Perm (X ++ t.walk) := by
  induction t with
  | nil => intro _ h; simp [Forest.hasGroup] at h
  | var n r rest ih =>
    intro hnd hg hf
    simp only [Forest.names, List.nodup_cons] at hnd
    simp only [Forest.hasGroup] at hg
    simp only [kidsOf] at hf
    simp only [Forest.mapGroup, Forest.walk]
    exact ((ih hnd.2 hg hf).cons r).trans List.perm_middle.symm
  | group n k rest ihk ihr =>
    intro hnd hg hf
    simp only [Forest.names, List.nodup_cons] at hnd
    by_cases hn : n = g
    · subst hn
      have hb : (n == n) = true := by simp
      simp only [kidsOf, hb, if_true] at hf
      simp only [Forest.mapGroup, hb, if_true, Forest.walk]
      rw [mapGroup_of_not_mem n f rest hnd.1, ← List.append_assoc]
      exact hf.append_right _
    · have hb : (n == g) = false := by simp [hn]
      simp only [Forest.hasGroup, hb, Bool.false_or] at hg
      have hf' : (f (kidsOf g rest)).walk.Perm (X ++ (kidsOf g rest).walk) := by
        simpa [kidsOf, hb] using hf
      simp only [Forest.mapGroup, hb, Forest.walk]
      simp only [Bool.false_eq_true, if_false, Forest.walk]
      have h1 := (ihr hnd.2 hg hf').append_left k.walk
      refine h1.trans ?_
      rw [← List.append_assoc, ← List.append_assoc]
      exact List.perm_append_comm.append_right _

theorem allPaths_mapGroup (g : Str) (f : Forest → Forest) (P : List Str) (t : Forest) :
    t.names.Nodup → t.hasGroup g = true →
    (allPaths (f (kidsOf g t))).Perm (P :: allPaths (kidsOf g t)) →
    (allPaths (t.mapGroup g f)).Perm ((g :: P) :: allPaths t) := by
  induction t with
  | nil => intro _ h; simp [Forest.hasGroup] at h
  | var n r rest ih =>
    intro hnd hg hf
    simp only [Forest.names, List.nodup_cons] at hnd
    simp only [Forest.hasGroup] at hg
    simp only [kidsOf] at hf
    simp only [Forest.mapGroup, allPaths]
    exact ((ih hnd.2 hg hf).cons [n]).trans (List.Perm.swap _ _ _)
  | group n k rest ihk ihr =>
    intro hnd hg hf
    simp only [Forest.names, List.nodup_cons] at hnd
    by_cases hn : n = g
    · subst hn
      have hb : (n == n) = true := by simp
      simp only [kidsOf, hb, if_true] at hf
      simp only [Forest.mapGroup, hb, if_true, allPaths]
      rw [mapGroup_of_not_mem n f rest hnd.1]
      refine (List.Perm.cons [n] ?_).trans (List.Perm.swap _ _ _)
      have h2 := (hf.map (n :: ·)).append_right (allPaths rest)
      simpa using h2
    · have hb : (n == g) = false := by simp [hn]
      simp only [Forest.hasGroup, hb, Bool.false_or] at hg
      have hf' : (allPaths (f (kidsOf g rest))).Perm (P :: allPaths (kidsOf g rest)) := by
        simpa [kidsOf, hb] using hf
      simp only [Forest.mapGroup, hb]
      simp only [Bool.false_eq_true, if_false, allPaths]
      refine (List.Perm.cons [n] ?_).trans (List.Perm.swap _ _ _)
      have h1 := (ihr hnd.2 hg hf').append_left ((allPaths k).map (n :: ·))
      exact h1.trans List.perm_middle

theorem groupPaths_mapGroup (g : Str) (f : Forest → Forest) (G : List (List Str)) (t : Forest) :
    t.names.Nodup → t.hasGroup g = true →
    (groupPaths (f (kidsOf g t))).Perm (G ++ groupPaths (kidsOf g t)) →
    (groupPaths (t.mapGroup g f)).Perm (G.map (g :: ·) ++ groupPaths t) := by
  induction t with
  | nil => intro _ h; simp [Forest.hasGroup] at h
  | var n r rest ih =>
    intro hnd hg hf
    simp only [Forest.names, List.nodup_cons] at hnd
    simp only [Forest.hasGroup] at hg
    simp only [kidsOf] at hf
    simp only [Forest.mapGroup, groupPaths]
    exact ih hnd.2 hg hf
  | group n k rest ihk ihr =>
    intro hnd hg hf
    simp only [Forest.names, List.nodup_cons] at hnd
    by_cases hn : n = g
    · subst hn
      have hb : (n == n) = true := by simp
      simp only [kidsOf, hb, if_true] at hf
      simp only [Forest.mapGroup, hb, if_true, groupPaths]
      rw [mapGroup_of_not_mem n f rest hnd.1]
      refine (List.Perm.cons [n] ?_).trans List.perm_middle.symm
      have h2 := (hf.map (n :: ·)).append_right (groupPaths rest)
      simpa using h2
    · have hb : (n == g) = false := by simp [hn]
      simp only [Forest.hasGroup, hb, Bool.false_or] at hg
      have hf' : (groupPaths (f (kidsOf g rest))).Perm (G ++ groupPaths (kidsOf g rest)) := by
        simpa [kidsOf, hb] using hf
      simp only [Forest.mapGroup, hb]
      simp only [Bool.false_eq_true, if_false, groupPaths]
      refine (List.Perm.cons [n] ?_).trans List.perm_middle.symm
      have h1 := (ihr hnd.2 hg hf').append_left ((groupPaths k).map (n :: ·))
      refine h1.trans ?_
      rw [← List.append_assoc, ← List.append_assoc]
      exact List.perm_append_comm.append_right _

/-! ### kidsOf -/

theorem kidsOf_nodup (g : Str) (t : Forest) : (allPaths t).Nodup → (allPaths (kidsOf g t)).Nodup := by
  induction t with
  | nil => intro h; exact h
  | var n r rest ih =>
    intro h
    simp only [allPaths, List.nodup_cons] at h
    simp only [kidsOf]; exact ih h.2
  | group n k rest ihk ihr =>
    intro h
    simp only [allPaths, List.nodup_cons] at h
    simp only [kidsOf]
    split
    · exact nodup_of_map _ (List.nodup_append.mp h.2).1
    · exact ihr ((List.nodup_append.mp h.2).2.1)

theorem kidsOf_mem (g : Str) (t : Forest) (q : List Str) :
    q ∈ allPaths (kidsOf g t) → g :: q ∈ allPaths t := by
  induction t with
  | nil => intro h; simp [kidsOf, allPaths] at h
  | var n r rest ih =>
    intro h
    simp only [kidsOf] at h
    simp only [allPaths, List.mem_cons]
    right; exact ih h
  | group n k rest ihk ihr =>
    intro h
    simp only [kidsOf] at h
    simp only [allPaths, List.mem_cons, List.mem_append, List.mem_map]
    split at h
    · rename_i hb
      have : n = g := by simpa using hb
      subst this
      right; left; exact ⟨q, h, rfl⟩
    · right; right; exact ihr h

theorem kidsOf_group (g : Str) (ps : List Str) (t : Forest) :
    t.names.Nodup → g :: ps ∈ groupPaths t →
    t.hasGroup g = true ∧ (ps = [] ∨ ps ∈ groupPaths (kidsOf g t)) := by
  induction t with
  | nil => intro _ h; simp [groupPaths] at h
  | var n r rest ih =>
    intro hnd h
    simp only [Forest.names, List.nodup_cons] at hnd
    simp only [groupPaths] at h
    simp only [Forest.hasGroup, kidsOf]
    exact ih hnd.2 h
  | group n k rest ihk ihr =>
    intro hnd h
    simp only [Forest.names, List.nodup_cons] at hnd
    simp only [groupPaths, List.mem_cons, List.mem_append, List.mem_map] at h
    rcases h with h | ⟨a, ha, h⟩ | h
    · injection h with h1 h2
      subst h1
      simp [Forest.hasGroup, h2]
    · injection h with h1 h2
      subst h1; subst h2
      simp [Forest.hasGroup, kidsOf, ha]
    · have hm : g ∈ rest.names := mem_names_of_mem_allPaths rest g ps (groupPaths_sub rest _ h)
      have hn : n ≠ g := fun e => hnd.1 (e ▸ hm)
      have hb : (n == g) = false := by simp [hn]
      have := ihr hnd.2 h
      simp only [Forest.hasGroup, kidsOf, hb, Bool.false_or]
      simpa using this

/-! ### the one-step lemma -/

theorem insertAt_cons (g : Str) (q : List Str) (item : Leaf) (t : Forest)
    (hq : q ≠ []) (hg : t.hasGroup g = true) :
    insertAt (g :: q) item t = t.mapGroup g (insertAt q item) := by
  cases q with
  | nil => exact absurd rfl hq
  | cons a as => rw [insertAt]; simp [hg]

theorem Leaf.gp_map (item : Leaf) (g : Str) (p : List Str) :
    (item.gp p).map (g :: ·) = item.gp (g :: p) := by
  cases item <;> simp [Leaf.gp]

theorem insertAt_step (p : List Str) : ∀ (t : Forest) (nm : Str) (item : Leaf),
    (allPaths t).Nodup → (p = [] ∨ p ∈ groupPaths t) → p ++ [nm] ∉ allPaths t →
    ((insertAt (p ++ [nm]) item t).walk.Perm (item.recs ++ t.walk)
      ∧ (allPaths (insertAt (p ++ [nm]) item t)).Perm ((p ++ [nm]) :: allPaths t)
      ∧ (groupPaths (insertAt (p ++ [nm]) item t)).Perm (item.gp (p ++ [nm]) ++ groupPaths t)) := by
  induction p with
  | nil =>
    intro t nm item hnd _ hfresh
    have hnm : nm ∉ t.names := fun h => hfresh (mem_allPaths_of_mem_names t nm h)
    have he : insertAt ([] ++ [nm]) item t = t.snoc nm item := by
      show insertAt [nm] item t = _
      rw [insertAt, remove_of_not_mem nm t hnm]
    rw [he, walk_snoc, allPaths_snoc, groupPaths_snoc]
    refine ⟨List.perm_append_comm, ?_, List.perm_append_comm⟩
    exact List.perm_append_comm
  | cons g ps ih =>
    intro t nm item hnd hp hfresh
    have hp' : g :: ps ∈ groupPaths t := by
      rcases hp with hp | hp
      · exact absurd hp (by simp)
      · exact hp
    have hnames := names_nodup t hnd
    obtain ⟨hg, hps⟩ := kidsOf_group g ps t hnames hp'
    have hq : ps ++ [nm] ≠ [] := by simp
    have he : insertAt ((g :: ps) ++ [nm]) item t = t.mapGroup g (insertAt (ps ++ [nm]) item) := by
      show insertAt (g :: (ps ++ [nm])) item t = _
      exact insertAt_cons g _ item t hq hg
    have hfresh' : ps ++ [nm] ∉ allPaths (kidsOf g t) := fun h => hfresh (kidsOf_mem g t _ h)
    obtain ⟨h1, h2, h3⟩ := ih (kidsOf g t) nm item (kidsOf_nodup g t hnd) hps hfresh'
    rw [he]
    refine ⟨walk_mapGroup g _ _ t hnames hg h1, ?_, ?_⟩
    · exact allPaths_mapGroup g _ _ t hnames hg h2
    · have := groupPaths_mapGroup g _ _ t hnames hg h3
      rw [Leaf.gp_map] at this
      exact this

/-- same, for a non-empty full path -/
theorem insertAt_path (q : List Str) (t : Forest) (item : Leaf)
    (hq : q ≠ []) (hnd : (allPaths t).Nodup)
    (hp : q.dropLast = [] ∨ q.dropLast ∈ groupPaths t) (hfresh : q ∉ allPaths t) :
    ((insertAt q item t).walk.Perm (item.recs ++ t.walk)
      ∧ (allPaths (insertAt q item t)).Perm (q :: allPaths t)
      ∧ (groupPaths (insertAt q item t)).Perm (item.gp q ++ groupPaths t)) := by
  have e : q.dropLast ++ [q.getLast hq] = q := List.dropLast_concat_getLast hq
  have := insertAt_step q.dropLast t (q.getLast hq) item hnd hp (by rw [e]; exact hfresh)
  rw [e] at this
  exact this

/-- parents are created before their children: every path is non-empty and its parent path is the root or an earlier group -/
def ParentsFirst : List (List Str) → List (List Str) → Prop
  | _, [] => True
  | seen, g :: gs => g ≠ [] ∧ (g.dropLast = [] ∨ g.dropLast ∈ seen) ∧ ParentsFirst (seen ++ [g]) gs

theorem fold_groups : ∀ (gs seen : List (List Str)) (t : Forest),
    t.walk = [] → (groupPaths t).Perm seen → (allPaths t).Perm seen →
    (seen ++ gs).Nodup → ParentsFirst seen gs →
    ((gs.foldl (fun t g => insertAt g .group t) t).walk = []
      ∧ (groupPaths (gs.foldl (fun t g => insertAt g .group t) t)).Perm (seen ++ gs)
      ∧ (allPaths (gs.foldl (fun t g => insertAt g .group t) t)).Perm (seen ++ gs)) := by
  intro gs
  induction gs with
  | nil => intro seen t hw hg ha _ _; simpa using ⟨hw, hg, ha⟩
  | cons g gs ih =>
    intro seen t hw hg ha hnd hpf
    obtain ⟨hne, hpar, hpf'⟩ := hpf
    have hnd1 : (allPaths t).Nodup := ha.nodup_iff.mpr ((List.nodup_append.mp hnd).1)
    have hgs : g ∉ seen := by
      intro hm
      have := (List.nodup_append.mp hnd).2.2 g hm g (by simp)
      exact this rfl
    have hfresh : g ∉ allPaths t := fun hm => hgs (ha.mem_iff.mp hm)
    have hpar' : g.dropLast = [] ∨ g.dropLast ∈ groupPaths t := by
      rcases hpar with h | h
      · exact Or.inl h
      · exact Or.inr (hg.mem_iff.mpr h)
    obtain ⟨h1, h2, h3⟩ := insertAt_path g t .group hne hnd1 hpar' hfresh
    have hw1 : (insertAt g .group t).walk = [] := by
      rw [hw] at h1; simpa [Leaf.recs] using h1
    have hg1 : (groupPaths (insertAt g .group t)).Perm (seen ++ [g]) := by
      refine h3.trans ?_
      simp only [Leaf.gp]
      exact (List.perm_append_comm).trans (hg.append_right _)
    have ha1 : (allPaths (insertAt g .group t)).Perm (seen ++ [g]) := by
      refine h2.trans ?_
      exact (List.perm_append_comm (l₁ := [g])).trans (ha.append_right _)
    have hnd' : ((seen ++ [g]) ++ gs).Nodup := by simpa using hnd
    have := ih (seen ++ [g]) (insertAt g .group t) hw1 hg1 ha1 hnd' hpf'
    simpa using this

theorem fold_vars (gs : List (List Str)) : ∀ (vs : List (List Str × VarRec)) (A : List (List Str)) (t : Forest),
    (groupPaths t).Perm gs → (allPaths t).Perm A →
    (A ++ vs.map (·.1)).Nodup →
    (∀ v ∈ vs, v.1 ≠ [] ∧ (v.1.dropLast = [] ∨ v.1.dropLast ∈ gs)) →
    ((vs.foldl (fun t v => insertAt v.1 (.var v.2) t) t).walk).Perm (t.walk ++ vs.map (·.2)) := by
  intro vs
  induction vs with
  | nil => intro A t _ _ _ _; simp
  | cons v vs ih =>
    intro A t hg ha hnd hvs
    have hv := hvs v (by simp)
    have hnd1 : (allPaths t).Nodup := ha.nodup_iff.mpr ((List.nodup_append.mp hnd).1)
    have hvA : v.1 ∉ A := by
      intro hm
      have := (List.nodup_append.mp hnd).2.2 v.1 hm v.1 (by simp)
      exact this rfl
    have hfresh : v.1 ∉ allPaths t := fun hm => hvA (ha.mem_iff.mp hm)
    have hpar' : v.1.dropLast = [] ∨ v.1.dropLast ∈ groupPaths t := by
      rcases hv.2 with h | h
      · exact Or.inl h
      · exact Or.inr (hg.mem_iff.mpr h)
    obtain ⟨h1, h2, h3⟩ := insertAt_path v.1 t (.var v.2) hv.1 hnd1 hpar' hfresh
    have hg1 : (groupPaths (insertAt v.1 (.var v.2) t)).Perm gs := by
      refine h3.trans ?_
      simpa [Leaf.gp] using hg
    have ha1 : (allPaths (insertAt v.1 (.var v.2) t)).Perm (A ++ [v.1]) := by
      refine h2.trans ?_
      exact (List.perm_append_comm (l₁ := [v.1])).trans (ha.append_right _)
    have hnd' : ((A ++ [v.1]) ++ vs.map (·.1)).Nodup := by simpa using hnd
    have := ih (A ++ [v.1]) (insertAt v.1 (.var v.2) t) hg1 ha1 hnd'
      (fun w hw => hvs w (List.mem_cons_of_mem _ hw))
    simp only [List.foldl_cons, List.map_cons]
    refine this.trans ?_
    refine (h1.append_right _).trans ?_
    simp only [Leaf.recs]
    exact (List.perm_middle (a := v.2) (l₁ := t.walk) (l₂ := vs.map (·.2))).symm

theorem buildTree_walk_perm (gs : List (List Str)) (vs : List (List Str × VarRec))
    (hnd : (gs ++ vs.map (·.1)).Nodup)
    (hpf : ParentsFirst [] gs)
    (hvs : ∀ v ∈ vs, v.1 ≠ [] ∧ (v.1.dropLast = [] ∨ v.1.dropLast ∈ gs)) :
    ((vs.foldl (fun t v => insertAt v.1 (.var v.2) t)
        (gs.foldl (fun t g => insertAt g .group t) .nil)).walk).Perm (vs.map (·.2)) := by
  have hgs : ([] ++ gs : List (List Str)).Nodup := by
    simpa using (List.nodup_append.mp hnd).1
  obtain ⟨hw, hg, ha⟩ := fold_groups gs [] .nil rfl (by simp [groupPaths]) (by simp [allPaths]) hgs hpf
  simp only [List.nil_append] at hg ha
  have := fold_vars gs vs gs _ hg ha hnd hvs
  rw [hw] at this
  simpa using this

end Pydap.Dmr
