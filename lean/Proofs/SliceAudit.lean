/-
  C03, theorem audit (round 7): the composed statements.
  * `entrySel` — what ONE entry of an index tuple selects on its axis (an integer: one position or numpy's IndexError;
    a slice: `sel`), `entryDom` / `tupleDom` — the property's domain as a decidable predicate;
  * `zipFix_preserves` — normalising a whole expanded tuple changes the selection on no axis;
  * `normSl_fixSl` — a normalised slice with a non-empty selection is in the domain of the text round trip;
  * `combine_getElem?` / `combine_length` — the `zip_longest` pairing of `combine_slices`.
-/
import Proofs.Slice
import Proofs.SliceTuple
import Proofs.Hyperslab
namespace Pydap

/-- what one entry of a basic index selects on an axis of length `N`: the position of a valid integer index
    (`none`: numpy raises IndexError), the positions of a slice; an (unexpanded) Ellipsis selects nothing by itself -/
def entrySel (N : Nat) : Idx → Option (List Nat)
  | Idx.int i => (selInt N i).map fun m => [m]
  | Idx.sl s => some (sel N s)
  | Idx.ell => none

/-- the property's domain for one entry on an axis of length `N`: an integer `-N ≤ i < N`; a slice whose present
    bounds are `≥ -N` (arbitrarily large upwards) and whose present step is `≥ 1` -/
def entryDom (N : Nat) : Idx → Bool
  | Idx.int i => decide (-(N : Int) ≤ i ∧ i < N)
  | Idx.sl s => s.start.all (fun i => decide (-(N : Int) ≤ i)) && s.stop.all (fun j => decide (-(N : Int) ≤ j))
      && s.step.all (fun k => decide (1 ≤ k))
  | Idx.ell => false

/-- every entry of an expanded tuple is in the domain of its axis (and there is one entry per axis) -/
def tupleDom : List Nat → List Idx → Bool
  | n :: ns, e :: es => entryDom n e && tupleDom ns es
  | [], [] => true
  | _, _ => false

theorem entryDom_sl {N : Nat} {s : PSlice} (h : entryDom N (Idx.sl s) = true) :
    (∀ i, s.start = some i → -(N : Int) ≤ i) ∧ (∀ j, s.stop = some j → -(N : Int) ≤ j) ∧
      (∀ k, s.step = some k → 1 ≤ k) := by
  obtain ⟨st, sp, se⟩ := s
  simp only [entryDom, Bool.and_eq_true] at h
  obtain ⟨⟨h1, h2⟩, h3⟩ := h
  refine ⟨?_, ?_, ?_⟩
  · intro i hi; simp only at hi; subst hi; simpa using h1
  · intro j hj; simp only at hj; subst hj; simpa using h2
  · intro k hk; simp only at hk; subst hk; simpa using h3

/-- **one axis**: normalising an entry of the domain does not change what it selects -/
theorem fixAxis_preserves (N : Nat) (e : Idx) (h : entryDom N e = true) :
    entrySel N (fixAxis N e) = entrySel N e := by
  cases e with
  | ell => simp [entryDom] at h
  | sl s =>
    obtain ⟨h1, h2, h3⟩ := entryDom_sl h
    simp only [fixAxis, entrySel, fix_preserves N s h1 h2 h3]
  | int i =>
    simp only [entryDom, decide_eq_true_eq] at h
    simp only [fixAxis, entrySel, selInt]
    by_cases hi : i < 0
    · have e1 : ¬ (0 ≤ i ∧ i < (N : Int)) := by omega
      have e2 : (0 ≤ i + (N : Int) ∧ i + (N : Int) < (N : Int)) := by omega
      have e3 : (-(N : Int) ≤ i ∧ i < 0) := by omega
      simp [hi, e1, e2, e3]
    · have e1 : (0 ≤ i ∧ i < (N : Int)) := by omega
      simp [hi, e1]

/-- **whole tuple**: the normalised tuple selects, axis by axis, what the expanded tuple selects -/
theorem zipFix_preserves : ∀ (shape : List Nat) (l : List Idx), tupleDom shape l = true →
    List.zipWith entrySel shape (zipFix l shape) = List.zipWith entrySel shape l
  | [], [], _ => rfl
  | [], _ :: _, h => by simp [tupleDom] at h
  | _ :: _, [], h => by simp [tupleDom] at h
  | n :: ns, e :: es, h => by
    simp only [tupleDom, Bool.and_eq_true] at h
    simp only [zipFix, List.zipWith_cons_cons, fixAxis_preserves n e h.1, zipFix_preserves ns es h.2]

theorem tupleDom_length : ∀ (shape : List Nat) (l : List Idx), tupleDom shape l = true → l.length = shape.length
  | [], [], _ => rfl
  | [], _ :: _, h => by simp [tupleDom] at h
  | _ :: _, [], h => by simp [tupleDom] at h
  | _ :: ns, _ :: es, h => by
    simp only [tupleDom, Bool.and_eq_true] at h
    simp [tupleDom_length ns es h.2]

/-- a normalised slice whose selection is not empty has `stop ≥ 1`: it is in the domain of the text round trip -/
theorem normSl_fixSl (N : Nat) (s : PSlice)
    (hstart : ∀ i, s.start = some i → -(N : Int) ≤ i)
    (hstop : ∀ j, s.stop = some j → -(N : Int) ≤ j)
    (hstep : ∀ k, s.step = some k → 1 ≤ k)
    (hne : sel N s ≠ []) : NormSl (fixSl N s) := by
  have hp := fix_preserves N s hstart hstop hstep
  rw [← hp] at hne
  obtain ⟨x, hx⟩ := List.exists_mem_of_ne_nil _ hne
  -- the three fields of the normalised slice
  have hnn : NonNegSl (fixSl N s) := by
    obtain ⟨st, sp, se⟩ := s
    constructor
    · intro a ha
      cases st <;> simp [fixSl] at ha hstart <;> (subst ha; try split) <;> omega
    · intro b hb
      cases st <;> cases sp <;> simp [fixSl] at hb hstart hstop <;> subst hb <;>
        (repeat' split) <;> omega
    · intro k hk
      cases se <;> simp [fixSl, orElse] at hk hstep <;> (subst hk; try split) <;> omega
  have hm := (mem_sel_iff N _ hnn x).mp hx
  have hf : ∃ a b k, fixSl N s = ⟨some a, some b, some k⟩ := ⟨_, _, _, rfl⟩
  obtain ⟨a, b, k, hf⟩ := hf
  refine ⟨a, b, k, hf, hnn.start a (by rw [hf]), ?_, hnn.step k (by rw [hf])⟩
  have hb0 := hnn.stop b (by rw [hf])
  rw [hf] at hm
  simp only [startN, stopN, stepN, Option.getD_some] at hm
  omega

/-! ### `combine_slices` on tuples: `zip_longest(slice1, slice2, fillvalue=slice(None))` -/

theorem combine_nil_right : ∀ (l1 : List Idx) (i : Nat),
    (combine l1 [])[i]? = (l1[i]?).map fun a => combine1 (toSlice a) PSlice.all
  | [], i => by simp [combine]
  | a :: as, 0 => by simp [combine]
  | a :: as, i + 1 => by simp [combine, combine_nil_right as i]

theorem combine_nil_left : ∀ (l2 : List Idx) (i : Nat),
    (combine [] l2)[i]? = (l2[i]?).map fun b => combine1 PSlice.all (toSlice b)
  | [], i => by simp [combine]
  | b :: bs, 0 => by simp [combine]
  | b :: bs, i + 1 => by simp [combine, combine_nil_left bs i]

theorem map_getElem?_ite {α β} (f : α → β) (l : List α) (d : α) (i : Nat) :
    (l[i]?).map f = if i < l.length then some (f ((l[i]?).getD d)) else none := by
  by_cases h : i < l.length
  · simp [h]
  · simp [h]

/-- entry `i` of the combined tuple: both entries, the shorter tuple filled with `slice(None)`; nothing beyond the
    longer one -/
theorem combine_getElem? : ∀ (l1 l2 : List Idx) (i : Nat),
    (combine l1 l2)[i]? =
      if i < max l1.length l2.length then
        some (combine1 (toSlice ((l1[i]?).getD (Idx.sl PSlice.all))) (toSlice ((l2[i]?).getD (Idx.sl PSlice.all))))
      else none
  | [], [], i => by simp [combine]
  | a :: as, [], i => by
    rw [combine_nil_right, map_getElem?_ite _ _ (Idx.sl PSlice.all)]
    simp [toSlice]
  | [], b :: bs, i => by
    rw [combine_nil_left, map_getElem?_ite _ _ (Idx.sl PSlice.all)]
    simp [toSlice]
  | a :: as, b :: bs, 0 => by simp [combine]
  | a :: as, b :: bs, i + 1 => by
    simp only [combine, List.getElem?_cons_succ, combine_getElem? as bs i, List.length_cons]
    by_cases h : i < max as.length bs.length
    · have : i + 1 < max (as.length + 1) (bs.length + 1) := by omega
      simp [h]
    · have : ¬ i + 1 < max (as.length + 1) (bs.length + 1) := by omega
      simp [h]

theorem combine_length : ∀ (l1 l2 : List Idx), (combine l1 l2).length = max l1.length l2.length
  | [], [] => by simp [combine]
  | a :: as, [] => by simp [combine, combine_length as []]
  | [], b :: bs => by simp [combine, combine_length [] bs]
  | a :: as, b :: bs => by simp [combine, combine_length as bs]

theorem nonNegSl_all : NonNegSl PSlice.all :=
  ⟨fun _ h => by simp [PSlice.all] at h, fun _ h => by simp [PSlice.all] at h, fun _ h => by simp [PSlice.all] at h⟩

end Pydap
