/-
  C14 — a read (sequence `__iter__`, array `__getitem__`) of an object that existed before a history issues, after the
  history, the GET it would have issued before it, and writes nothing but the log.
-/
import PydapModel.Proxy
import Proofs.Proxy
namespace Pydap.Proxy

theorem reread_same_request (h : Heap) (w : WF h) (evs : List Ev) (r : Nat) (idx : List Idx) (ev : Ev)
    (hev : ev = .iter r ∨ ev = .aget r idx) (s : Sess) (q : Req)
    (hfirst : (step h ev).log = h.log ++ [(s, q)]) :
    (step (run h evs) ev).log = (run h evs).log ++ [(s, q)] ∧
    (step (run h evs) ev).objs = (run h evs).objs ∧ (step (run h evs) ev).tmpls = (run h evs).tmpls := by
  have ex := (run_extends h w evs).1
  rcases hev with rfl | rfl
  · simp only [step, stepWith] at hfirst ⊢
    cases ho : h.objs[r]? with
    | none => rw [ho] at hfirst; simp at hfirst
    | some o =>
      cases o with
      | seq p =>
        have hp : p.template < h.tmpls.length := w p (List.mem_of_getElem? ho)
        have ho' := objs_stable ex ho (by intro b i s l hc; cases hc)
        have ht' := ex.tm p.template hp
        simp only [ho] at hfirst
        simp only [ho', ht']
        cases ht : h.tmpls[p.template]? with
        | none => simp [ht] at hfirst
        | some t =>
          simp only [ht, pushLog, List.append_cancel_left_eq, List.cons.injEq, and_true] at hfirst
          simp [pushLog, hfirst]
      | _ => rw [ho] at hfirst; simp at hfirst
  · simp only [step, stepWith] at hfirst ⊢
    cases ho : h.objs[r]? with
    | none => rw [ho] at hfirst; simp at hfirst
    | some o =>
      cases o with
      | arr p =>
        have ho' := objs_stable ex ho (by intro b i s l hc; cases hc)
        simp only [ho, pushLog, List.append_cancel_left_eq, List.cons.injEq, and_true] at hfirst
        simp [ho', pushLog, hfirst]
      | _ => rw [ho] at hfirst; simp at hfirst
end Pydap.Proxy
