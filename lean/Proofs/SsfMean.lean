/-
  C19, `mean`: the closed form of `sumAxis` for every axis, by multi-index.
  `flatIdx` / `ValidIx` are the row-major layout (numpy's C order) — the specification side:
  element `ix` of the result is the sum over `i` of the source element `ix` with `i` inserted at
  position `axis`.
-/
import PydapModel.Ssf
import Proofs.Ssf
namespace Pydap.Ssf
open Pydap Pydap.Handler

/-- a multi-index inside a shape: one entry per axis, each below the extent -/
def ValidIx : List Nat → List Nat → Prop
  | [], [] => True
  | n :: sh, i :: ix => i < n ∧ ValidIx sh ix
  | _, _ => False

/-- row-major position of a multi-index -/
def flatIdx : List Nat → List Nat → Nat
  | _ :: sh, i :: ix => i * prod sh + flatIdx sh ix
  | _, _ => 0

theorem flatIdx_lt : ∀ (sh ix : List Nat), ValidIx sh ix → flatIdx sh ix < prod sh
  | [], [], _ => by simp [flatIdx, prod]
  | [], _ :: _, h => by simp [ValidIx] at h
  | _ :: _, [], h => by simp [ValidIx] at h
  | n :: sh, i :: ix, h => by
    obtain ⟨hi, hr⟩ := h
    have := flatIdx_lt sh ix hr
    have h1 := Nat.mul_le_mul_right (prod sh) (show i + 1 ≤ n from hi)
    rw [Nat.succ_mul] at h1
    simp only [flatIdx, prod]
    omega

/-- inserting an index below the extent of axis `k` into a multi-index of the shape without that axis
    gives a multi-index of the shape -/
theorem validIx_insert : ∀ (sh : List Nat) (k : Nat) (ix : List Nat) (i : Nat) (hk : k < sh.length),
    ValidIx (sh.eraseIdx k) ix → i < sh[k] → ValidIx sh (ix.insertIdx k i)
  | [], _, _, _, hk, _, _ => by simp at hk
  | n :: sh, 0, ix, i, _, h, hi => by
    simp only [List.eraseIdx_cons_zero] at h
    simp only [List.insertIdx_zero, ValidIx]
    exact ⟨by simpa using hi, h⟩
  | n :: sh, k + 1, [], i, _, h, _ => by simp [ValidIx] at h
  | n :: sh, k + 1, i0 :: ix, i, hk, h, hi => by
    simp only [List.eraseIdx_cons_succ, ValidIx] at h
    simp only [List.insertIdx_succ_cons, ValidIx]
    exact ⟨h.1, validIx_insert sh k ix i (by simpa using hk) h.2 (by simpa using hi)⟩

/-- equal-length blocks: position `i * L + j` of the concatenation is position `j` of block `i` -/
theorem flatMap_range_getElem? {α : Type} (f : Nat → List α) (L : Nat) :
    ∀ (n : Nat), (∀ i, i < n → (f i).length = L) → ∀ i j, i < n → j < L →
      ((List.range n).flatMap f)[i * L + j]? = (f i)[j]?
  | 0, _, i, _, hi, _ => by omega
  | n + 1, hl, i, j, hi, hj => by
    have hlen : ((List.range n).flatMap f).length = n * L := by
      rw [List.length_flatMap, sum_map_const _ _ L (fun x hx => hl x (by simp at hx; omega))]
      simp
    rw [List.range_succ, List.flatMap_append]
    simp only [List.flatMap_cons, List.flatMap_nil, List.append_nil]
    by_cases hin : i < n
    · have h1 := Nat.mul_le_mul_right L (show i + 1 ≤ n from hin)
      rw [Nat.succ_mul] at h1
      rw [List.getElem?_append_left (by rw [hlen]; omega)]
      exact flatMap_range_getElem? f L n (fun x hx => hl x (by omega)) i j hin hj
    · have : i = n := by omega
      subst this
      rw [List.getElem?_append_right (by rw [hlen]; omega), hlen]
      congr 1
      omega

theorem block_getElem? (d : List Int) (a L m : Nat) (hm : m < L) :
    ((d.drop a).take L)[m]? = d[a + m]? := by
  rw [List.getElem?_take_of_lt hm, List.getElem?_drop]

/-- **the value law of `sumAxis`, every axis**: at the multi-index `ix` of the result the value is the sum, over
    the positions `i` of the removed axis, of the source value at `ix` with `i` inserted at that axis. -/
theorem sumAxis_value : ∀ (sh : List Nat) (k : Nat) (d : List Int) (hk : k < sh.length) (ix : List Nat),
    d.length = prod sh → ValidIx (sh.eraseIdx k) ix →
    (sumAxis sh k d)[flatIdx (sh.eraseIdx k) ix]? =
      some (((List.range sh[k]).map fun i => (d[flatIdx sh (ix.insertIdx k i)]?).getD 0).sum)
  | [], _, _, hk, _, _, _ => by simp at hk
  | n :: sh, 0, d, _, ix, _, hv => by
    simp only [List.eraseIdx_cons_zero] at hv ⊢
    have hj := flatIdx_lt sh ix hv
    simp [sumAxis, hj, flatIdx]
  | n :: sh, k + 1, d, _, [], _, hv => by simp [ValidIx] at hv
  | n :: sh, k + 1, d, hk, i0 :: ix, hd, hv => by
    have hk' : k < sh.length := by simpa using hk
    simp only [List.eraseIdx_cons_succ, ValidIx] at hv
    obtain ⟨hi0, hv'⟩ := hv
    have hblk : ∀ i, i < n → ((d.drop (i * prod sh)).take (prod sh)).length = prod sh := by
      intro i hi
      have h1 := Nat.mul_le_mul_right (prod sh) (show i + 1 ≤ n from hi)
      rw [Nat.succ_mul] at h1
      simp only [prod] at hd
      simp only [List.length_take, List.length_drop, hd]
      omega
    have hlen : ∀ i, i < n → (sumAxis sh k ((d.drop (i * prod sh)).take (prod sh))).length = prod (sh.eraseIdx k) :=
      fun i hi => sumAxis_length sh k _ hk' (hblk i hi)
    have hj := flatIdx_lt _ ix hv'
    simp only [sumAxis, List.eraseIdx_cons_succ, flatIdx, List.getElem_cons_succ]
    rw [flatMap_range_getElem? _ _ n hlen i0 _ hi0 hj,
      sumAxis_value sh k _ hk' ix (hblk i0 hi0) hv']
    congr 1
    congr 1
    apply List.map_congr_left
    intro i hi
    have hi' : i < sh[k] := by simpa using hi
    have hm := flatIdx_lt sh _ (validIx_insert sh k ix i hk' hv' hi')
    simp only [List.insertIdx_succ_cons, flatIdx]
    rw [block_getElem? d _ _ _ hm]

/-! ### nesting: the value of a mean of a mean -/

theorem meanArr_ok_data (a r : Arr) (k : Nat) (h : meanArr a k = .ok r) :
    ∃ _ : k < a.shape.length, r.shape = a.shape.eraseIdx k ∧ r.data = sumAxis a.shape k a.data := by
  unfold meanArr at h
  split at h
  · cases h
  · rename_i n hn
    have hk : k < a.shape.length := by
      rcases Nat.lt_or_ge k a.shape.length with h' | h'
      · exact h'
      · rw [List.getElem?_eq_none h'] at hn; cases hn
    simp only [Except.ok.injEq] at h
    subst h
    exact ⟨hk, rfl, rfl⟩

/-- the value of a mean of a mean, in one formula: a double sum over the two removed axes -/
theorem meanArr_nested_value (a r1 r2 : Arr) (k1 k2 : Nat) (hwf : a.data.length = prod a.shape)
    (h1 : meanArr a k1 = .ok r1) (h2 : meanArr r1 k2 = .ok r2) (hk1 : k1 < a.shape.length)
    (hk2 : k2 < (a.shape.eraseIdx k1).length) (ix : List Nat) (hv : ValidIx r2.shape ix) :
    r2.data[flatIdx r2.shape ix]? =
      some (((List.range (a.shape.eraseIdx k1)[k2]).map fun i2 =>
        ((List.range a.shape[k1]).map fun i1 =>
          (a.data[flatIdx a.shape ((ix.insertIdx k2 i2).insertIdx k1 i1)]?).getD 0).sum).sum) := by
  obtain ⟨_, s1, d1⟩ := meanArr_ok_data a r1 k1 h1
  obtain ⟨hk2', s2, d2⟩ := meanArr_ok_data r1 r2 k2 h2
  have l1 : r1.data.length = prod r1.shape := by rw [d1, s1]; exact sumAxis_length _ _ _ hk1 hwf
  rw [s2] at hv ⊢
  rw [d2, sumAxis_value r1.shape k2 r1.data hk2' ix l1 hv]
  congr 1
  have e : r1.shape[k2] = (a.shape.eraseIdx k1)[k2] := by simp [s1]
  rw [e]
  congr 1
  apply List.map_congr_left
  intro i2 hi2
  have hi2' : i2 < r1.shape[k2] := by rw [e]; simpa using hi2
  have hv' := validIx_insert r1.shape k2 ix i2 hk2' hv hi2'
  rw [s1] at hv'
  have := sumAxis_value a.shape k1 a.data hk1 _ hwf hv'
  rw [d1]
  simp only [s1] at this ⊢
  rw [this]
  rfl

/-! ### grids: the maps of the result -/

theorem map_eraseIdx' {α β : Type} (f : α → β) : ∀ (l : List α) (k : Nat), (l.eraseIdx k).map f = (l.map f).eraseIdx k
  | [], _ => rfl
  | _ :: _, 0 => rfl
  | x :: xs, k + 1 => by simp [map_eraseIdx' f xs k]

theorem find?_of_mem_nodup (maps : List (Str × List Int)) (hnd : (maps.map (·.1)).Nodup) (m : Str × List Int)
    (hm : m ∈ maps) : maps.find? (·.1 = m.1) = some m := by
  induction maps with
  | nil => simp at hm
  | cons x xs ih =>
    simp only [List.map_cons, List.nodup_cons] at hnd
    rcases List.mem_cons.1 hm with rfl | h
    · simp
    · have hne : x.1 ≠ m.1 := fun e => hnd.1 (e ▸ List.mem_map_of_mem h)
      simp only [List.find?_cons, hne, decide_false]
      exact ih hnd.2 h

theorem mapM_find_subset (maps : List (Str × List Int)) (hnd : (maps.map (·.1)).Nodup) :
    ∀ (ms : List (Str × List Int)), (∀ m ∈ ms, m ∈ maps) →
      (ms.map (·.1)).mapM (fun d => maps.find? (·.1 = d)) = some ms
  | [], _ => rfl
  | m :: ms, h => by
    simp only [List.map_cons, List.mapM_cons, find?_of_mem_nodup maps hnd m (h m (by simp)),
      mapM_find_subset maps hnd ms (fun x hx => h x (by simp [hx]))]
    rfl

/-- **`mean` on a grid succeeds and drops exactly the map of the removed axis**: for a grid whose maps are named,
    in order, as the dimensions of its array (distinct names — they are the grid's dict keys) and a valid axis -/
theorem meanGrid_ok (g : GridA) (axis : Nat) (hk : axis < g.array.shape.length)
    (hm : g.maps.map (·.1) = g.array.dims) (hnd : g.array.dims.Nodup) :
    ∃ a, meanArr g.array axis = .ok a ∧ meanGrid g axis = .ok ⟨a, g.maps.eraseIdx axis⟩ := by
  have ha : meanArr g.array axis = .ok ⟨g.array.shape.eraseIdx axis, g.array.dims.eraseIdx axis,
      sumAxis g.array.shape axis g.array.data, g.array.den * g.array.shape[axis]⟩ := by
    unfold meanArr; rw [List.getElem?_eq_getElem hk]
  refine ⟨_, ha, ?_⟩
  unfold meanGrid
  rw [ha]
  have hd : g.array.dims.eraseIdx axis = (g.maps.eraseIdx axis).map (·.1) := by
    rw [← hm]; exact (map_eraseIdx' _ _ _).symm
  simp only [hd]
  rw [mapM_find_subset g.maps (hm ▸ hnd) _ (fun m h => List.mem_of_mem_eraseIdx h)]

end Pydap.Ssf
