import Proofs.DasTop
/-! `add_attributes` on the dict a whole served dataset denotes (C08). -/
namespace Pydap.Das

/-- the parsed DAS of a dataset without name collisions: sorted global attributes, then one container per
    top-level variable -/
def dsDict (ds : Dataset) : Dict := sortKeys ds.attrs ++ varsEntries ds.children

/-- structural guards on a dataset (beyond `VarsG`): no global attribute named like a top-level variable, no
    dict-valued global attribute named like the dataset itself (finding class C08.attr_named_like_child), ids are built from dot-free names, no
    top-level variable is called `NC_GLOBAL` / `DODS_EXTRA` -/
structure DsG (ds : Dataset) : Prop where
  vars : VarsG ds.children
  nodup : (keys ds.attrs ++ ds.children.map Var.name).Nodup
  nodot : NoDot (keys ds.attrs ++ ds.children.map Var.name)
  selfname : ∀ e, dget ds.attrs ds.name ≠ some (.dict e)
  noglobal : ∀ v ∈ ds.children, v.name ∉ globalNames

def notGlobal (kv : Text × AVal) : Bool := !isGlobalDict kv

theorem mergeGlobals_append (a b : Dict) : ∀ acc : Dict,
    mergeGlobals (a ++ b) acc = mergeGlobals b (mergeGlobals a acc) := by
  induction a with
  | nil => intro acc; rfl
  | cons kv rest ih =>
    intro acc
    obtain ⟨k, v⟩ := kv
    cases v with
    | sc x => simp [mergeGlobals, ih]
    | list x => simp [mergeGlobals, ih]
    | dict e =>
      simp only [List.cons_append, mergeGlobals]
      split <;> exact ih _

theorem entry_not_global (v : Var) (h : v.name ∉ globalNames) : isGlobalDict (varEntry v) = false := by
  obtain ⟨k, n, a, cs⟩ := v
  have hn : n ∉ globalNames := by simpa [Var.name] using h
  cases k <;> simp [varEntry, isGlobalDict, hn]

theorem mergeGlobals_entries (cs : List Var) (h : ∀ v ∈ cs, v.name ∉ globalNames) (acc : Dict) :
    mergeGlobals (varsEntries cs) acc = acc := by
  induction cs with
  | nil => rfl
  | cons v rest ih =>
    have hv := entry_not_global v (h v (by simp))
    have hr := ih (fun x hx => h x (by simp [hx]))
    obtain ⟨k, n, a, cs'⟩ := v
    cases k <;> simp_all [varsEntries, varEntry, isGlobalDict, mergeGlobals]

theorem filter_entries (cs : List Var) (h : ∀ v ∈ cs, v.name ∉ globalNames) :
    (varsEntries cs).filter notGlobal = varsEntries cs := by
  apply List.filter_eq_self.mpr
  intro kv hkv
  induction cs with
  | nil => simp [varsEntries] at hkv
  | cons v rest ih =>
    simp only [varsEntries, List.mem_cons] at hkv
    rcases hkv with rfl | hkv
    · simp [notGlobal, entry_not_global v (h v (by simp))]
    · exact ih (fun x hx => h x (by simp [hx])) hkv

theorem mem_keys_filter_sort (a : Dict) (p : Text × AVal → Bool) (k : Text)
    (h : k ∈ keys ((sortKeys a).filter p)) : k ∈ keys a := by
  simp only [keys, List.mem_map] at h ⊢
  obtain ⟨kv, hkv, rfl⟩ := h
  exact ⟨kv, (mem_sortKeys kv a).mp (List.mem_filter.mp hkv).1, rfl⟩

theorem nodup_filter_sort_append (a : Dict) (p : Text × AVal → Bool) (xs : List Text)
    (h : (keys a ++ xs).Nodup) : (keys ((sortKeys a).filter p) ++ xs).Nodup := by
  have h1 := nodup_sort_append a xs h
  have hs : (keys ((sortKeys a).filter p) ++ xs).Sublist (keys (sortKeys a) ++ xs) :=
    List.Sublist.append ((List.filter_sublist).map _) (List.Sublist.refl xs)
  exact hs.nodup h1

/-- the dataset node itself (visited last): no container carries its name — at most a plain global attribute, which
    stays a global attribute (the repaired `add_attributes`) -/
theorem self_step (R g : Dict) (name : Text) (h : ∀ e, dget R name ≠ some (.dict e)) :
    attachStep R [name] g = .ok (R, g) := by
  cases hv : dget R name with
  | none => simp [attachStep, nestedStep, dotted, hv, reduceGet]
  | some v =>
    cases v with
    | dict e => exact absurd hv (h e)
    | sc y => simp [attachStep, nestedStep, dotted, hv, reduceGet]
    | list y => simp [attachStep, nestedStep, dotted, hv, reduceGet]

/-- `add_attributes` is the first component of `addAttributesRem` -/
theorem addAttributes_eq_rem (name : Text) (cs : List Var) (A : Dict) :
    addAttributes name cs A = (addAttributesRem name cs A).map (·.1) := by
  unfold addAttributes addAttributesRem
  simp only
  generalize attachAll (A.filter fun kv => !isGlobalDict kv) (walkVars [] cs).reverse = r
  cases r with
  | error e => rfl
  | ok r =>
    obtain ⟨a1, vars⟩ := r
    simp only
    generalize attachStep a1 [name] (mergeGlobals A []) = r2
    cases r2 with
    | error e => rfl
    | ok r2 => rfl

/-- **`add_attributes` on the parsed DAS of a whole dataset**, with what it leaves in the caller's dict: the plain
    global attributes only — every container has been popped -/
theorem attach_tree_rem (ds : Dataset) (hg : DsG ds) :
    addAttributesRem ds.name ds.children (dsDict ds) = .ok
      (⟨dupdate (mergeGlobals (sortKeys ds.attrs) []) ((sortKeys ds.attrs).filter notGlobal),
       expectVars ds.children⟩, (sortKeys ds.attrs).filter notGlobal) := by
  have hm : mergeGlobals (dsDict ds) [] = mergeGlobals (sortKeys ds.attrs) [] := by
    unfold dsDict
    rw [mergeGlobals_append, mergeGlobals_entries _ hg.noglobal]
  have hf : (dsDict ds).filter (fun kv => !isGlobalDict kv)
      = (sortKeys ds.attrs).filter notGlobal ++ varsEntries ds.children := by
    unfold dsDict
    rw [List.filter_append]
    have := filter_entries _ hg.noglobal
    unfold notGlobal at this ⊢
    rw [this]
  have hnd := nodup_filter_sort_append ds.attrs notGlobal _ hg.nodup
  have hdot : NoDot (keys ((sortKeys ds.attrs).filter notGlobal) ++ ds.children.map Var.name) := by
    intro k hk
    simp only [List.mem_append] at hk
    rcases hk with hk | hk
    · exact hg.nodot k (by simp [mem_keys_filter_sort _ _ _ hk])
    · exact hg.nodot k (by simp only [List.mem_append]; right; exact hk)
  have hnda : (keys ds.attrs).Nodup := (List.nodup_append.mp hg.nodup).1
  have hndR : (keys ((sortKeys ds.attrs).filter notGlobal)).Nodup := (List.nodup_append.mp hnd).1
  have hself : ∀ e, dget ((sortKeys ds.attrs).filter notGlobal) ds.name ≠ some (.dict e) := by
    intro e he
    have h1 := (dget_eq_some_iff _ hndR _ _).mp he
    have h2 := (mem_sortKeys _ ds.attrs).mp (List.mem_filter.mp h1).1
    exact hg.selfname e ((dget_eq_some_iff _ hnda _ _).mpr h2)
  have hwalk := top_vars ds.children _ hg.vars hnd hdot
  unfold addAttributesRem
  simp only [hm, hf, hwalk]
  rw [self_step _ _ _ hself]

/-- **`add_attributes` on the parsed DAS of a whole dataset** -/
theorem attach_tree (ds : Dataset) (hg : DsG ds) :
    addAttributes ds.name ds.children (dsDict ds) = .ok
      ⟨dupdate (mergeGlobals (sortKeys ds.attrs) []) ((sortKeys ds.attrs).filter notGlobal),
       expectVars ds.children⟩ := by
  rw [addAttributes_eq_rem, attach_tree_rem ds hg]; rfl

end Pydap.Das
