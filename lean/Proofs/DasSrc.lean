/-
  The source text of responses/das.py `type_convert` and `get_type`, translated on every run by harness/py2lean.py into
  MiniPy syntax (PydapModel/Generated/DasSrc.lean), computes the model's `Das.typeConvert` and — on a list — `Das.listType`
  (C08).  Opaque inputs of `get_type` (named in the generator): `hasattr(values, "dtype")`, the table lookup
  `NUMPY_TO_DAP2_TYPEMAP[values.dtype.char]`, `isinstance(values, Iterable)` and the comprehension
  `[type_convert(val) for val in values]`; the call `type_convert(values)` is inlined, `types.sort(key=precedence.index)`
  is MiniPy's stable `sortByIndex`.
-/
import Proofs.MiniPy
import PydapModel.DasText
import PydapModel.Generated.DasSrc
set_option linter.unusedSimpArgs false
namespace Pydap
open MiniPy Das

/-- a scalar attribute value as the Python object `type_convert` looks at: a str, an int (any), a float (any) -/
def scalarVal (i : Int) (bits : Nat) : Scalar → MiniPy.Val
  | .str s => .str (codesOf s)
  | .num _ true => .float bits
  | .num _ false => .int i

theorem src_type_convert_eq (x : Scalar) (i : Int) (bits : Nat) :
    runItem [("obj", scalarVal i bits x)] Gen.src_type_convert "@ret" = .ok (.str (codesOf (typeConvert x))) := by
  unfold Gen.src_type_convert
  cases x with
  | str s =>
    simp only [runItem, exec, eval, bind_ok', lookup_cons_eq, lookup_setVar_eq, scalarVal, truthy_bool',
      if_false, Bool.false_eq_true]
    rfl
  | num tok f =>
    cases f <;>
    simp only [runItem, exec, eval, bind_ok', lookup_cons_eq, lookup_setVar_eq, scalarVal, truthy_bool',
      if_false, if_true, Bool.false_eq_true] <;> rfl

/-! ### `get_type` on a list: the head of the list sorted by precedence -/

def tcPrecCodes : List (List Nat) := [codesOf "String".toList, codesOf "Float64".toList, codesOf "Int32".toList]

def tcRank : Scalar → Nat
  | .str _ => 0
  | .num _ true => 1
  | .num _ false => 2

def tcRankName : Nat → List Nat
  | 0 => codesOf "String".toList
  | 1 => codesOf "Float64".toList
  | _ => codesOf "Int32".toList

def tcMinRank (xs : List Scalar) : Nat := if xs.any isStr then 0 else if xs.any Das.isFloat then 1 else 2

theorem tc_rank (x : Scalar) : codesOf (typeConvert x) = tcRankName (tcRank x) := by
  cases x with
  | str s => rfl
  | num t f => cases f <;> rfl

theorem index_rank (x : Scalar) : indexOf? tcPrecCodes (codesOf (typeConvert x)) = some (tcRank x) := by
  cases x with
  | str s => rfl
  | num t f => cases f <;> rfl

theorem listType_rank (xs : List Scalar) : codesOf (listType xs) = tcRankName (tcMinRank xs) := by
  unfold listType tcMinRank
  cases xs.any isStr <;> cases xs.any Das.isFloat <;> rfl

def tcSort : List Scalar → List (Nat × List Nat)
  | [] => []
  | x :: t => insertByKey (tcRank x) (tcRankName (tcRank x)) (tcSort t)

theorem sort_types (xs : List Scalar) :
    sortByIndex tcPrecCodes (xs.map fun x => codesOf (typeConvert x)) = .ok (tcSort xs) := by
  induction xs with
  | nil => rfl
  | cons x t ih => simp only [List.map_cons, sortByIndex, index_rank, ih, tcSort]; rw [tc_rank]

theorem tcMinRank_aux (x : Scalar) (a b : Bool) :
    (if (isStr x || a) = true then 0 else if (Das.isFloat x || b) = true then 1 else 2) =
      if tcRank x < (if a = true then 0 else if b = true then 1 else 2) then tcRank x
      else (if a = true then 0 else if b = true then 1 else 2) := by
  cases x with
  | str s => cases a <;> cases b <;> rfl
  | num tok f => cases f <;> cases a <;> cases b <;> rfl

theorem tcMinRank_cons (x : Scalar) (t : List Scalar) (_ht : t ≠ []) :
    tcMinRank (x :: t) = if tcRank x < tcMinRank t then tcRank x else tcMinRank t := by
  unfold tcMinRank
  simp only [List.any_cons]
  exact tcMinRank_aux x _ _

theorem tcSort_head (xs : List Scalar) (h : xs ≠ []) :
    ∃ r, tcSort xs = (tcMinRank xs, tcRankName (tcMinRank xs)) :: r := by
  induction xs with
  | nil => exact absurd rfl h
  | cons x t ih =>
    cases t with
    | nil =>
      refine ⟨[], ?_⟩
      cases x with
      | str s => rfl
      | num tok f => cases f <;> rfl
    | cons y u =>
      obtain ⟨r, hr⟩ := ih (by simp)
      rw [tcSort, hr, tcMinRank_cons x (y :: u) (by simp)]
      simp only [insertByKey]
      by_cases hlt : tcRank x < tcMinRank (y :: u)
      · simp only [hlt, if_true]; exact ⟨_, rfl⟩
      · simp only [hlt, if_false]; exact ⟨_, rfl⟩


/-- a list of strings as MiniPy sees it (`[]` is the untyped empty list) -/
def tcStrList : List (List Nat) → MiniPy.Val
  | [] => .ilist []
  | l => .slist l

/-- the inputs of `get_type(values)` for an attribute value of the model: a scalar, or a (Python) list of scalars -/
def getTypeEnv (i : Int) (bits : Nat) (junk : MiniPy.Val) : AVal → Env
  | .sc x => [("values", scalarVal i bits x), ("@has_dtype", .bool false), ("@numpy_type", junk),
              ("@is_iterable", .bool (isStr x)), ("@types", junk)]
  | .list xs => [("values", .obj 0), ("@has_dtype", .bool false), ("@numpy_type", junk),
                 ("@is_iterable", .bool true), ("@types", tcStrList (xs.map fun x => codesOf (typeConvert x)))]
  | .dict _ => []

theorem src_get_type_scalar (x : Scalar) (i : Int) (bits : Nat) (junk : MiniPy.Val) :
    runItem (getTypeEnv i bits junk (.sc x)) Gen.src_get_type "@ret" = .ok (.str (codesOf (typeConvert x))) := by
  unfold Gen.src_get_type getTypeEnv
  cases x with
  | str s =>
    simp (decide := true) only [runItem, exec, eval, bind_ok', lookup_cons_eq, lookup_cons_ne, lookup_setVar_eq,
      lookup_setVar_ne, scalarVal, truthy_bool', if_false, if_true, Bool.false_eq_true, isStr, or_bool,
      Bool.not_true, Bool.or_false, Bool.true_or]
    rfl
  | num tok f =>
    cases f <;>
    simp (decide := true) only [runItem, exec, eval, bind_ok', lookup_cons_eq, lookup_cons_ne, lookup_setVar_eq,
      lookup_setVar_ne, scalarVal, truthy_bool', if_false, if_true, Bool.false_eq_true, isStr, or_bool,
      Bool.not_false, Bool.or_true, Bool.false_or] <;> rfl

theorem src_get_type_list (xs : List Scalar) (h : xs ≠ []) (i : Int) (bits : Nat) (junk : MiniPy.Val) :
    runItem (getTypeEnv i bits junk (.list xs)) Gen.src_get_type "@ret" = .ok (.str (codesOf (listType xs))) := by
  unfold Gen.src_get_type getTypeEnv
  obtain ⟨r, hr⟩ := tcSort_head xs h
  have hs := sort_types xs
  rw [hr] at hs
  have hl : tcStrList (xs.map fun x => codesOf (typeConvert x)) = .slist (xs.map fun x => codesOf (typeConvert x)) := by
    cases xs with
    | nil => exact absurd rfl h
    | cons a t => rfl
  have hp : tcPrecCodes = [[83, 116, 114, 105, 110, 103], [70, 108, 111, 97, 116, 54, 52], [73, 110, 116, 51, 50]] := by
    decide
  rw [hp] at hs
  simp (decide := true) only [runItem, exec, eval, bind_ok', lookup_cons_eq, lookup_cons_ne, lookup_setVar_eq,
    lookup_setVar_ne, truthy_bool', if_false, if_true, Bool.false_eq_true, or_bool, Bool.not_true, Bool.or_false, hl, hs,
    List.map_cons, List.getElem?_cons_zero, listType_rank]

/-- with a `dtype` (a numpy value) the answer is the table entry, whatever else holds -/
theorem src_get_type_numpy (v ty rest1 rest2 : MiniPy.Val) :
    runItem [("values", v), ("@has_dtype", .bool true), ("@numpy_type", ty), ("@is_iterable", rest1), ("@types", rest2)]
      Gen.src_get_type "@ret" = .ok ty := by
  unfold Gen.src_get_type
  simp (decide := true) only [runItem, exec, eval, bind_ok', lookup_cons_eq, lookup_cons_ne, lookup_setVar_eq,
    truthy_bool', if_true]

end Pydap
