import PydapModel.PathRoot
import Proofs.Path
import Proofs.PathServe
/-
  C16 — normalisation of the configured data directory: the result is a normalised path, normalising again changes
  nothing, and serving is a function of the normal form alone.
-/
namespace Pydap.Path

theorem normal_nil : Normal ([] : Segs) := by intro s hs; cases hs

theorem abspath_normal (cwd : Segs) (s : List Char) (hcwd : Normal cwd) : Normal (abspath cwd s) := by
  unfold abspath
  split
  · exact resolve_normal [] _ normal_nil (splitSlash_noslash _)
  · exact resolve_normal cwd _ hcwd (splitSlash_noslash _)

theorem splitSlash_cons_ne (c : Char) (cs : List Char) (hc : c ≠ '/') :
    splitSlash (c :: cs) = (c :: (splitSlash cs).headD []) :: (splitSlash cs).tail := by
  simp only [splitSlash, hc, if_false]
  have hne := splitSlash_ne_nil cs
  revert hne
  generalize splitSlash cs = x
  intro hne
  cases x with
  | nil => exact absurd rfl hne
  | cons a r => simp

theorem splitSlash_append_noslash (s X : List Char) (hs : '/' ∉ s) :
    splitSlash (s ++ X) = (s ++ (splitSlash X).headD []) :: (splitSlash X).tail := by
  induction s with
  | nil =>
    have hne := splitSlash_ne_nil X
    revert hne
    simp only [List.nil_append]
    generalize splitSlash X = x
    intro hne
    cases x with
    | nil => exact absurd rfl hne
    | cons a r => simp
  | cons c cs ih =>
    have hc : c ≠ '/' := by intro h; exact hs (by simp [h])
    have hcs : '/' ∉ cs := by intro h; exact hs (by simp [h])
    rw [List.cons_append, splitSlash_cons_ne c _ hc]
    simp [ih hcs]

theorem splitSlash_body (p : Segs) (hp : ∀ s ∈ p, '/' ∉ s) (hne : p ≠ []) : splitSlash (body p) = [] :: p := by
  induction p with
  | nil => exact absurd rfl hne
  | cons s r ih =>
    have hs : '/' ∉ s := hp s (by simp)
    simp only [body, splitSlash, if_true]
    rw [splitSlash_append_noslash s (body r) hs]
    cases r with
    | nil => simp [body, splitSlash]
    | cons s2 r2 =>
      have := ih (fun x hx => hp x (by simp [hx])) (by simp)
      simp [this]

theorem foldl_normStep_nil_seg (acc : Segs) (req : Segs) :
    (([] : Seg) :: req).foldl normStep acc = req.foldl normStep acc := by
  rw [List.foldl_cons]
  simp [normStep]

/-- **idempotence**: the text of a normalised absolute path normalises to itself, whatever the working directory -/
theorem abspath_text (cwd p : Segs) (hp : Normal p) : abspath cwd (text p) = p := by
  cases p with
  | nil => simp [text, abspath, resolve, splitSlash, normStep]
  | cons s r =>
    have hsp : splitSlash ('/' :: (s ++ body r)) = [] :: s :: r :=
      splitSlash_body (s :: r) (normal_slashfree hp) (by simp)
    have hres := resolve_plain [] (s :: r) hp
    show abspath cwd ('/' :: (s ++ body r)) = s :: r
    simp only [abspath, hsp, resolve, foldl_normStep_nil_seg]
    simpa [resolve] using hres

theorem abspath_idem (cwd cwd' : Segs) (s : List Char) (hcwd : Normal cwd) :
    abspath cwd' (text (abspath cwd s)) = abspath cwd s :=
  abspath_text cwd' _ (abspath_normal cwd s hcwd)

/-- a spelled root and its normal form serve identically (any working directory for the second server) -/
theorem serveSpelled_normal_form (exts : List Seg) (fs : FS) (cwd cwd' : Segs) (s pathInfo : List Char)
    (hcwd : Normal cwd) :
    serveSpelled exts fs cwd' (text (abspath cwd s)) pathInfo = serveSpelled exts fs cwd s pathInfo := by
  simp only [serveSpelled, Srv.init, Srv.call, abspath_idem cwd cwd' s hcwd]

/-- inside the data directory nothing is ever answered "forbidden" -/
theorem serveAt_contained_not_forbidden (exts : List Seg) (fs : FS) (root p : Segs) (hc : contained root p = true) :
    (serveAt exts fs root p).2 ≠ .forbidden := by
  simp only [serveAt, hc, Bool.not_true, Bool.false_eq_true, if_false]
  split
  · simp [index]
  · simp
  · split
    · split
      · simp [index]
      · simp only [serveDap]; split <;> (try split) <;> simp
    · simp only [serveDap]; split <;> (try split) <;> simp

end Pydap.Path
