import PydapModel.Path
/-
  Helper lemmas for C16: normalisation keeps components well formed; the text-level containment test
  of the repaired code coincides with the component-level prefix order.
-/
namespace Pydap.Path


theorem splitSlash_ne_nil (cs : List Char) : splitSlash cs ≠ [] := by
  induction cs with
  | nil => simp [splitSlash]
  | cons c cs ih =>
    unfold splitSlash
    split
    · simp
    · split <;> simp

theorem splitSlash_noslash (cs : List Char) : ∀ s ∈ splitSlash cs, '/' ∉ s := by
  induction cs with
  | nil => simp [splitSlash]
  | cons c cs ih =>
    unfold splitSlash
    split
    · intro s hs
      simp at hs
      rcases hs with rfl | hs
      · simp
      · exact ih s hs
    · rename_i hc
      split
      · intro s hs; simp at hs; subst hs; simp; exact fun h => hc h.symm
      · rename_i s0 rest heq
        intro s hs
        simp at hs
        rw [heq] at ih
        rcases hs with rfl | hs
        · simp
          refine ⟨fun h => hc h.symm, ?_⟩
          exact ih s0 (by simp)
        · exact ih s (by simp [hs])

theorem normStep_normal (acc : Segs) (s : Seg) (ha : Normal acc) (hs : '/' ∉ s) :
    Normal (normStep acc s) := by
  unfold normStep
  split
  · exact ha
  · rename_i h1
    split
    · intro x hx; exact ha x (List.mem_of_mem_tail hx)
    · rename_i h2
      intro x hx
      simp at hx
      rcases hx with rfl | hx
      · simp at h1
        exact ⟨h1.1, h1.2, h2, hs⟩
      · exact ha x hx

theorem foldl_normStep_normal (req : Segs) (acc : Segs) (ha : Normal acc) (hr : ∀ s ∈ req, '/' ∉ s) :
    Normal (req.foldl normStep acc) := by
  induction req generalizing acc with
  | nil => exact ha
  | cons s r ih =>
    simp only [List.foldl_cons]
    apply ih
    · exact normStep_normal acc s ha (hr s (by simp))
    · intro x hx; exact hr x (by simp [hx])

theorem resolve_normal (root req : Segs) (hroot : Normal root) (hr : ∀ s ∈ req, '/' ∉ s) :
    Normal (resolve root req) := by
  unfold resolve
  have := foldl_normStep_normal req root.reverse (by intro x hx; exact hroot x (by simpa using hx)) hr
  intro x hx
  exact this x (by simpa using hx)



/-- a text that is empty or starts with a separator -/
def Term (t : List Char) : Prop := t = [] ∨ ∃ t', t = '/' :: t'

theorem seg_cancel (s q a b : List Char) (hs : '/' ∉ s) (hq : '/' ∉ q) (ha : Term a) (hb : Term b)
    (h : s ++ a = q ++ b) : s = q ∧ a = b := by
  induction s generalizing q with
  | nil =>
    cases q with
    | nil => simpa using h
    | cons d q' =>
      exfalso
      simp at h
      rcases ha with ha | ⟨t, ha⟩
      · subst ha; simp at h
      · subst ha; simp at h; simp [← h.1] at hq
  | cons c s' ih =>
    cases q with
    | nil =>
      exfalso
      simp at h
      rcases hb with hb | ⟨t, hb⟩
      · subst hb; simp at h
      · subst hb; simp at h; simp [h.1] at hs
    | cons d q' =>
      simp at h
      simp at hs hq
      obtain ⟨h1, h2⟩ := ih q' hs.2 hq.2 h.2
      exact ⟨by rw [h.1, h1], h2⟩

theorem body_term (p : Segs) : Term (body p) := by
  cases p with
  | nil => left; rfl
  | cons s r => right; exact ⟨_, rfl⟩

theorem body_append (r t : Segs) : body (r ++ t) = body r ++ body t := by
  induction r with
  | nil => rfl
  | cons s r ih => simp [body, ih]

theorem term_append (x a : List Char) (hx : Term x) (ha : Term a) : Term (x ++ a) := by
  rcases hx with hx | ⟨t, hx⟩
  · subst hx; simpa using ha
  · subst hx; right; exact ⟨t ++ a, rfl⟩

/-- text-level prefix on a separator boundary implies component-level prefix -/
theorem prefix_of_body (r p : Segs) (a : List Char) (hr : ∀ s ∈ r, '/' ∉ s) (hp : ∀ s ∈ p, '/' ∉ s)
    (ha : Term a) (h : body r ++ a = body p) : r <+: p := by
  induction r generalizing p with
  | nil => exact List.nil_prefix
  | cons s r' ih =>
    cases p with
    | nil => simp [body] at h
    | cons q p' =>
      simp only [body, List.cons_append, List.cons.injEq, true_and, List.append_assoc] at h
      have := seg_cancel s q (body r' ++ a) (body p') (hr s (by simp)) (hp q (by simp))
        (term_append _ _ (body_term r') ha) (body_term p') h
      obtain ⟨h1, h2⟩ := this
      subst h1
      have := ih p' (fun x hx => hr x (by simp [hx])) (fun x hx => hp x (by simp [hx])) h2
      exact (List.prefix_cons_inj s).mpr this

theorem body_of_prefix (r p : Segs) (h : r <+: p) : ∃ a, Term a ∧ body r ++ a = body p := by
  obtain ⟨t, rfl⟩ := h
  exact ⟨body t, body_term t, (body_append r t).symm⟩



theorem body_ne_nil (r : Segs) (hne : r ≠ []) : body r ≠ [] := by
  cases r with
  | nil => exact absurd rfl hne
  | cons s r' => simp [body]

theorem body_getLast (r : Segs) (hne : r ≠ []) (hr : ∀ s ∈ r, s ≠ [] ∧ '/' ∉ s) :
    (body r).getLast? ≠ some '/' := by
  induction r with
  | nil => exact absurd rfl hne
  | cons s r' ih =>
    obtain ⟨h1, h2⟩ := hr s (by simp)
    simp only [body, List.getLast?_cons, List.getLast?_append]
    cases r' with
    | nil =>
      simp only [body, List.getLast?_nil, Option.or]
      cases hl : s.getLast? with
      | none => exact absurd (List.getLast?_eq_none_iff.mp hl) h1
      | some c =>
        have hc := List.mem_of_getLast? hl
        simp
        intro h; subst h; exact h2 hc
    | cons s' r'' =>
      have ih' := ih (by simp) (fun x hx => hr x (by simp [hx]))
      cases hl : (body (s' :: r'')).getLast? with
      | none => exact absurd (List.getLast?_eq_none_iff.mp hl) (body_ne_nil _ (by simp))
      | some c =>
        rw [hl] at ih'
        simp
        intro h; subst h; exact ih' rfl

theorem normal_slashfree {p : Segs} (h : Normal p) : ∀ s ∈ p, '/' ∉ s := fun s hs => (h s hs).2.2.2

theorem text_head (p : Segs) : ∃ t, text p = '/' :: t := by
  cases p with
  | nil => exact ⟨[], rfl⟩
  | cons s r => exact ⟨_, rfl⟩

/-- **string prefix with trailing separator ⇔ segment prefix** -/
theorem contained_iff_prefix (r p : Segs) (hr : Normal r) (hp : Normal p) :
    contained r p = true ↔ r <+: p := by
  cases r with
  | nil =>
    obtain ⟨t, ht⟩ := text_head p
    have h1 : text ([] : Segs) = ['/'] := rfl
    simp only [contained, h1, ht, withSep]
    simp [List.isPrefixOf]
  | cons s r' =>
    have hlast := body_getLast (s :: r') (by simp) (fun x hx => ⟨(hr x hx).1, (hr x hx).2.2.2⟩)
    have hw : withSep (text (s :: r')) = body (s :: r') ++ ['/'] := by
      have ht : text (s :: r') = body (s :: r') := rfl
      rw [ht]
      unfold withSep
      rw [if_neg hlast]
    cases p with
    | nil =>
      have hs := (hr s (by simp)).1
      have : ¬ (s :: r') <+: [] := by simp
      simp only [this, iff_false]
      rw [contained, hw]
      cases s with
      | nil => exact absurd rfl hs
      | cons c s' => simp [text, body, List.isPrefixOf]
    | cons q p' =>
      rw [contained, hw]
      simp only [text, Bool.or_eq_true, beq_iff_eq, List.isPrefixOf_iff_prefix]
      constructor
      · rintro (h | ⟨x, h⟩)
        · exact prefix_of_body _ _ [] (normal_slashfree hr) (normal_slashfree hp) (Or.inl rfl) (by simpa using h.symm)
        · exact prefix_of_body _ _ ('/' :: x) (normal_slashfree hr) (normal_slashfree hp) (Or.inr ⟨x, rfl⟩)
            (by simpa using h)
      · intro h
        obtain ⟨a, ha, hb⟩ := body_of_prefix _ _ h
        rcases ha with ha | ⟨t, ha⟩
        · subst ha; left; simpa using hb.symm
        · subst ha; right; exact ⟨t, by simpa using hb⟩

end Pydap.Path
