import Proofs.DdsNorm
namespace Pydap.Dds
open Pydap

/-- a dimension name outside `name_regexp` (DESIGN §9 #20: the NetCDF handler's fully-qualified `/y`) -/
def slashDimWitness : Dataset := ⟨['x'], [.base ⟨['v'], ['d'], [4], [['/', 'y']], false⟩]⟩

theorem intText_4 : intText 4 = ['4'] := by simp [intText, natDigits, digitChar]

theorem slashDimWitness_prints :
    printDs slashDimWitness = .ok "Dataset {\n    Float64 v[/y = 4];\n} x;\n".toList := by
  have l1 : lookup Gen.NUMPY_TO_DAP2_TYPEMAP (dtypeChar ['d']) = some "Float64".toList := by decide
  simp [slashDimWitness, printDs, printL, printT, printBase, shapeText, effShape, dimText, intText_4, closeText, indent, l1]

/-- after `[` the parser wants a `name_regexp` token: `/` is not in it -/
theorem slash_dim_rejected (fuel : Nat) (rest : Text) :
    dimensions (fuel + 1) ('[' :: '/' :: rest) = .error .parse := by
  have s1 : consumeLit ['['] ('[' :: '/' :: rest) = .ok ('/' :: rest) := by
    rw [consumeLit_one _ _ _ rfl, lstrip_cons_nonspace _ (by decide)]
  have s2 : consumeClass isNameRe ('/' :: rest) = .error .parse := by
    simp [consumeClass, List.takeWhile_cons, show isNameRe '/' = false by decide]
  simp only [dimensions, peekLit_one, s1, s2, show decide (lowerC '[' = lowerC ';') = false by decide,
    Bool.false_eq_true, if_false]


theorem slashDimWitness_does_not_parse :
    parseDds "Dataset {\n    Float64 v[/y = 4];\n} x;\n".toList = .error .parse := by
  have e0 : "Dataset {\n    Float64 v[/y = 4];\n} x;\n".toList
      = "Dataset".toList ++ (' ' :: '{' :: '\n' :: (indent 1 ++ ("Float64".toList ++ ' ' :: ('v' :: '[' :: '/' :: "y = 4];\n} x;\n".toList)))) := by
    decide
  have s1 : consumeLit "dataset".toList ("Dataset".toList ++ (' ' :: '{' :: '\n' :: (indent 1 ++ ("Float64".toList ++ ' ' :: ('v' :: '[' :: '/' :: "y = 4];\n} x;\n".toList)))))
      = .ok ('{' :: '\n' :: (indent 1 ++ ("Float64".toList ++ ' ' :: ('v' :: '[' :: '/' :: "y = 4];\n} x;\n".toList)))) := by
    rw [consumeLit_prefix _ _ _ (by decide), lstrip_cons_space _ (by decide), lstrip_cons_nonspace _ (by decide)]
  have s2 : consumeLit ['{'] ('{' :: '\n' :: (indent 1 ++ ("Float64".toList ++ ' ' :: ('v' :: '[' :: '/' :: "y = 4];\n} x;\n".toList))))
      = .ok ("Float64".toList ++ ' ' :: ('v' :: '[' :: '/' :: "y = 4];\n} x;\n".toList)) := by
    rw [consumeLit_one _ _ _ rfl, lstrip_cons_space _ (by decide), lstrip_indent]
    exact congrArg _ (lstrip_cons_nonspace _ (by decide))
  have s3 := consumeClass_span isWord "Float64".toList ' ' ('v' :: '[' :: '/' :: "y = 4];\n} x;\n".toList) (by decide) (by decide) (by decide)
  rw [lstrip_cons_space _ (by decide), lstrip_cons_nonspace _ (by decide)] at s3
  have s4 := consumeClass_span notSemiBr ['v'] '[' ('/' :: "y = 4];\n} x;\n".toList) (by decide) (by decide) (by decide)
  rw [lstrip_cons_nonspace _ (by decide)] at s4
  simp only [List.cons_append, List.nil_append] at s4
  have l1 : lookup Gen.LOWER_DAP2_TO_NUMPY_PARSER_TYPEMAP (lower "Float64".toList) = some ">d".toList := by decide
  have hb : base ("Float64".toList ++ ' ' :: ('v' :: '[' :: '/' :: "y = 4];\n} x;\n".toList)) = .error .parse := by
    have hd := slash_dim_rejected 14 "y = 4];\n} x;\n".toList
    simp only [base, s3, l1, s4]
    rw [show ('[' :: '/' :: "y = 4];\n} x;\n".toList).length = 14 + 1 by decide, hd]
  have hw : lower (("Float64".toList ++ ' ' :: ('v' :: '[' :: '/' :: "y = 4];\n} x;\n".toList)).takeWhile isWord) = "float64".toList := by
    rw [(takeWhile_span isWord "Float64".toList ' ' _ (by decide) (by decide)).1]; decide
  have hpk : peekLit ['}'] ("Float64".toList ++ ' ' :: ('v' :: '[' :: '/' :: "y = 4];\n} x;\n".toList)) = false := by
    exact word_peek_close 'F' _ (by decide)
  rw [e0]
  unfold parseDds parseDdsWith
  simp only [s1, s2]
  rw [show ("Dataset".toList ++ (' ' :: '{' :: '\n' :: (indent 1 ++ ("Float64".toList ++ ' ' :: ('v' :: '[' :: '/' :: "y = 4];\n} x;\n".toList))))).length = 36 + 1 + 1 by decide]
  rw [decls_succ, declsStep, if_neg (by rw [hpk]; decide), decl_succ, declStep]
  simp only [hw]
  rw [if_neg (by decide), if_neg (by decide), hb]

end Pydap.Dds
