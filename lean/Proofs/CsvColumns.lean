import PydapModel.CsvReader
/-
  C20 — the header loop of the repaired `CSVHandler.__init__` (`csvColumnsFrom`): exactly one column per title, in
  order, named by the quoted title; refused when two titles share a name or a title is a number.
-/
namespace Pydap.Csv

theorem csvColumnsFrom_ok_iff (q : List Char → List Char) (h : List Cell) (acc cols : List (List Char)) :
    csvColumnsFrom q acc h = .ok cols ↔
      ∃ ts : List (List Char), h = ts.map Cell.str ∧ cols = acc ++ ts.map q ∧ (ts.map q).Nodup ∧ ∀ t ∈ ts, q t ∉ acc := by
  induction h generalizing acc with
  | nil =>
    simp only [csvColumnsFrom, Except.ok.injEq]
    constructor
    · intro h; exact ⟨[], rfl, by simp [h], by simp, by simp⟩
    · rintro ⟨ts, hts, hc, -, -⟩
      cases ts with
      | nil => simp [hc]
      | cons t r => simp at hts
  | cons c r ih =>
    cases c with
    | num b =>
      simp only [csvColumnsFrom]
      constructor
      · intro h; cases h
      · rintro ⟨ts, hts, -⟩
        cases ts with
        | nil => simp at hts
        | cons t r => simp at hts
    | str t =>
      simp only [csvColumnsFrom]
      by_cases hm : q t ∈ acc
      · simp only [hm, if_true]
        constructor
        · intro h; cases h
        · rintro ⟨ts, hts, -, -, hacc⟩
          cases ts with
          | nil => simp at hts
          | cons t' r' =>
            simp only [List.map_cons, List.cons.injEq, Cell.str.injEq] at hts
            exact absurd hm (hts.1 ▸ hacc t' (by simp))
      · simp only [hm, if_false]
        rw [ih]
        constructor
        · rintro ⟨ts, hts, hc, hnd, hacc⟩
          refine ⟨t :: ts, by simp [hts], by simp [hc], ?_, ?_⟩
          · simp only [List.map_cons, List.nodup_cons]
            refine ⟨?_, hnd⟩
            intro hmem
            obtain ⟨t', ht', he⟩ := List.mem_map.mp hmem
            exact hacc t' ht' (by simp [he])
          · intro t' ht'
            rcases List.mem_cons.mp ht' with rfl | h'
            · exact hm
            · intro hin; exact hacc t' h' (by simp [hin])
        · rintro ⟨ts, hts, hc, hnd, hacc⟩
          cases ts with
          | nil => simp at hts
          | cons t' r' =>
            simp only [List.map_cons, List.cons.injEq, Cell.str.injEq] at hts
            obtain ⟨rfl, hr⟩ := hts
            simp only [List.map_cons, List.nodup_cons] at hnd
            refine ⟨r', hr, by simp [hc], hnd.2, ?_⟩
            intro x hx hin
            rcases List.mem_append.mp hin with h1 | h1
            · exact hacc x (by simp [hx]) h1
            · simp only [List.mem_singleton] at h1
              exact hnd.1 (h1 ▸ List.mem_map.mpr ⟨x, hx, rfl⟩)

/-- the handler creates its columns iff every title is a string and the quoted titles are pairwise distinct; the
    columns are then the quoted titles, one per header cell, in the header's order -/
theorem csvColumns_ok_iff (q : List Char → List Char) (h : List Cell) (cols : List (List Char)) :
    csvColumns q h = .ok cols ↔ ∃ ts : List (List Char), h = ts.map Cell.str ∧ cols = ts.map q ∧ (ts.map q).Nodup := by
  unfold csvColumns
  rw [csvColumnsFrom_ok_iff]
  simp

theorem csvHandler_ok (q : List Char → List Char) (float : List Char → Option Nat) (text : List Char) (s : CsvSeq)
    (hs : csvHandler q float text = .ok s) :
    ∃ h, csvFile float text = .ok (h, s.records) ∧ csvColumns q h = .ok s.columns := by
  unfold csvHandler at hs
  cases hf : csvFile float text with
  | error e => simp [hf] at hs
  | ok hr =>
    obtain ⟨h, rows⟩ := hr
    simp only [hf] at hs
    cases hc : csvColumns q h with
    | error e => simp [hc] at hs
    | ok cols =>
      simp only [hc, Except.ok.injEq] at hs
      subst hs
      exact ⟨h, rfl, hc⟩

end Pydap.Csv
