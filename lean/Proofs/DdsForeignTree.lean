import Proofs.DdsForeign
namespace Pydap.Dds
open Pydap

mutual
def FWFT : FTmpl → Prop
  | .base b => FBaseOk b
  | .cont isSeq kw name gs kids =>
    KwOk kw (contLit isSeq) ∧ RawNameOk name ∧ GsOk gs ∧ FWFL kids ∧ ((declL kids).map Tmpl.name).Nodup
  | .grid kw kwA kwM name gs arr maps => FGridOk kw kwA kwM name gs arr maps
def FWFL : List FTmpl → Prop
  | [] => True
  | t :: ts => FWFT t ∧ FWFL ts
end

mutual
def fneedT : FTmpl → Nat
  | .base _ => 1
  | .grid _ _ _ _ _ _ _ => 1
  | .cont _ _ _ _ kids => 1 + fneedL kids
def fneedL : List FTmpl → Nat
  | [] => 0
  | t :: ts => 1 + fneedT t + fneedL ts
end

theorem contLit_lower (isSeq : Bool) : ∀ c ∈ contLit isSeq, isLower c = true := by
  cases isSeq
  · exact lowers_struct
  · exact lowers_seq

theorem contLit_ne (isSeq : Bool) : contLit isSeq ≠ [] := by cases isSeq <;> decide

mutual
theorem fdecl_parse : (t : FTmpl) → (rest : Text) → (fuel : Nat) → FWFT t → fneedT t ≤ fuel →
    decl fuel (ftextT t ++ rest) = .ok (declT t, lstrip rest)
      ∧ peekLit ['}'] (ftextT t ++ rest) = false ∧ lstrip (ftextT t ++ rest) = ftextT t ++ rest
  | .base b, rest, fuel, hwf, hf => by
    simp only [FWFT] at hwf
    simp only [fneedT] at hf
    obtain ⟨f, rfl⟩ : ∃ f, fuel = f + 1 := ⟨fuel - 1, by omega⟩
    refine ⟨?_, fbase_peek b hwf rest, fbase_lstrip b hwf rest⟩
    simp only [ftextT]
    have hw := fbase_word b hwf rest
    rw [decl_base f _ (by rw [hw]; exact ⟨hwf.ty.notGrid, hwf.ty.notSeq, hwf.ty.notStruct⟩), fbase_parse b hwf rest]
    simp [declT]
  | .grid kw kwA kwM name gs arr maps, rest, fuel, hwf, hf => by
    simp only [FWFT] at hwf
    simp only [fneedT] at hf
    obtain ⟨f, rfl⟩ : ∃ f, fuel = f + 1 := ⟨fuel - 1, by omega⟩
    have e1 : ftextT (.grid kw kwA kwM name gs arr maps) ++ rest
        = kw ++ (gap gs 0 ++ '{' :: (gap gs 1 ++ kwA ++ gap gs 2 ++ ':' :: gap gs 3 ++ fbaseText arr
          ++ kwM ++ gap gs 4 ++ ':' :: gap gs 5 ++ fbasesText maps ++ fcloseText gs 6 name ++ rest)) := by
      simp only [ftextT, List.append_assoc, List.cons_append]
    have hw : lower ((ftextT (.grid kw kwA kwM name gs arr maps) ++ rest).takeWhile isWord) = "grid".toList := by
      rw [e1]; exact kw_takeWhile kw _ _ '{' _ hwf.hkw lowers_grid (gap_ws hwf.hgs 0) (by decide)
    refine ⟨?_, ?_, ?_⟩
    · rw [decl_grid f _ hw, fgrid_parse _ _ _ _ _ _ _ _ hwf]; simp [declT]
    · rw [e1]; exact kw_peek _ _ _ hwf.hkw lowers_grid (by decide)
    · rw [e1]; exact kw_lstrip _ _ _ hwf.hkw lowers_grid (by decide)
  | .cont isSeq kw name gs kids, rest, fuel, hwf, hf => by
    simp only [FWFT] at hwf
    simp only [fneedT] at hf
    obtain ⟨f, rfl⟩ : ∃ f, fuel = f + 1 := ⟨fuel - 1, by omega⟩
    obtain ⟨hkw, hname, hgs, hkids, hnd⟩ := hwf
    have e1 : ftextT (.cont isSeq kw name gs kids) ++ rest
        = kw ++ (gap gs 0 ++ '{' :: (gap gs 1 ++ (ftextL kids ++ (fcloseText gs 2 name ++ rest)))) := by
      simp only [ftextT, List.append_assoc, List.cons_append]
    have ih := fdecls_parse kids (fcloseText gs 2 name ++ rest) f hkids (by omega) (fclosing_peek gs 2 name rest)
    have hc := fclosing gs hgs 2 name rest hname
    have hins := insertAll_nodup (declL kids) hnd
    refine ⟨?_, ?_, ?_⟩
    · rw [e1, decl_cont_kw f isSeq kw _ _ _ hkw (gap_ws hgs 0) (gap_ws hgs 1), ih]
      simp only [hc, hins, declT]
    · rw [e1]; exact kw_peek _ _ _ hkw (contLit_lower isSeq) (contLit_ne isSeq)
    · rw [e1]; exact kw_lstrip _ _ _ hkw (contLit_lower isSeq) (contLit_ne isSeq)
theorem fdecls_parse : (ts : List FTmpl) → (rest : Text) → (fuel : Nat) → FWFL ts → fneedL ts ≤ fuel →
    peekLit ['}'] (lstrip rest) = true →
    decls fuel (lstrip (ftextL ts ++ rest)) = .ok (declL ts, lstrip rest)
  | [], rest, fuel, hwf, hf, hr => by
    cases fuel <;> simp [ftextL, decls, hr, declL]
  | t :: ts, rest, fuel, hwf, hf, hr => by
    simp only [FWFL] at hwf
    simp only [fneedL] at hf
    obtain ⟨f, rfl⟩ : ∃ f, fuel = f + 1 := ⟨fuel - 1, by omega⟩
    have ht := fdecl_parse t (ftextL ts ++ rest) f hwf.1 (by omega)
    have hts := fdecls_parse ts rest f hwf.2 (by omega) hr
    simp only [ftextL, List.append_assoc]
    rw [ht.2.2]
    simp only [decls, ht.2.1, Bool.false_eq_true, if_false, ht.1, hts, declL]
end

theorem fcloseText_len (gs : List Text) (i : Nat) (name : Text) : 2 ≤ (fcloseText gs i name).length := by
  simp [fcloseText]; omega

mutual
theorem fneedT_len : (t : FTmpl) → fneedT t + 1 ≤ (ftextT t).length
  | .base b => by
    simp only [fneedT, ftextT, fbaseText, List.length_append, List.length_cons]; omega
  | .grid kw kwA kwM name gs arr maps => by
    have := fcloseText_len gs 6 name
    simp only [fneedT, ftextT, List.length_append, List.length_cons]; omega
  | .cont isSeq kw name gs kids => by
    have := fcloseText_len gs 2 name
    have := fneedL_len kids
    simp only [fneedT, ftextT, List.length_append, List.length_cons]; omega
theorem fneedL_len : (ts : List FTmpl) → fneedL ts ≤ (ftextL ts).length
  | [] => by simp [fneedL]
  | t :: ts => by
    have := fneedT_len t
    have := fneedL_len ts
    simp only [fneedL, ftextL, List.length_append]; omega
end

structure FWFds (d : FDataset) : Prop where
  hkw : KwOk d.kw "dataset".toList
  hname : RawNameOk d.name
  hgs : GsOk d.gs
  hkids : FWFL d.kids
  hnodup : ((declL d.kids).map Tmpl.name).Nodup

theorem foreign_parse (d : FDataset) (hwf : FWFds d) : parseDds (ftextDs d) = .ok (declDs d) := by
  have e0 : ftextDs d = d.kw ++ (gap d.gs 0 ++ '{' :: (gap d.gs 1 ++ (ftextL d.kids ++ (fcloseText d.gs 2 d.name ++ [])))) := by
    simp only [ftextDs, List.append_assoc, List.cons_append, List.append_nil]
  have hlen := fneedL_len d.kids
  have s1 : consumeLit "dataset".toList (d.kw ++ (gap d.gs 0 ++ '{' :: (gap d.gs 1 ++ (ftextL d.kids ++ (fcloseText d.gs 2 d.name ++ [])))))
      = .ok ('{' :: (gap d.gs 1 ++ (ftextL d.kids ++ (fcloseText d.gs 2 d.name ++ [])))) := by
    rw [consumeLit_kw _ _ _ hwf.hkw (by decide), lstrip_gap _ _ _ (gap_ws hwf.hgs 0) (by decide)]
  have s2 : consumeLit ['{'] ('{' :: (gap d.gs 1 ++ (ftextL d.kids ++ (fcloseText d.gs 2 d.name ++ []))))
      = .ok (lstrip (ftextL d.kids ++ (fcloseText d.gs 2 d.name ++ []))) := by
    rw [consumeLit_one _ _ _ rfl, lstrip_ws _ _ (gap_ws hwf.hgs 1)]
  have s3 := fdecls_parse d.kids (fcloseText d.gs 2 d.name ++ [])
    (d.kw ++ (gap d.gs 0 ++ '{' :: (gap d.gs 1 ++ (ftextL d.kids ++ (fcloseText d.gs 2 d.name ++ []))))).length hwf.hkids
    (by simp only [List.length_append, List.length_cons]; omega) (fclosing_peek d.gs 2 d.name [])
  have s4 := fclosing d.gs hwf.hgs 2 d.name [] hwf.hname
  have hins := insertAll_nodup (declL d.kids) hwf.hnodup
  rw [e0]
  simp only [parseDds, parseDdsWith, s1, s2, s3, s4, hins, declDs]

end Pydap.Dds
