import Proofs.DdsSamples
namespace Pydap.Dds
open Pydap

/-! ### `_quote` maps raw ASCII names (without `/`, not starting with `dap4`) into the domain `NameOk` -/

theorem hexU_word (n : Nat) (h : n < 16) : isWord (hexU n) = true := by
  have : n = 0 ∨ n = 1 ∨ n = 2 ∨ n = 3 ∨ n = 4 ∨ n = 5 ∨ n = 6 ∨ n = 7 ∨ n = 8 ∨ n = 9 ∨ n = 10 ∨ n = 11
      ∨ n = 12 ∨ n = 13 ∨ n = 14 ∨ n = 15 := by omega
  rcases this with h | h | h | h | h | h | h | h | h | h | h | h | h | h | h | h <;> subst h <;> decide

theorem safe_chars (c : Char) (h : Gen.QUOTE_SAFE.toList.contains c = true) (hs : c ≠ '/') : isNameRe c = true := by
  have : c ∈ Gen.QUOTE_SAFE.toList := by simpa using h
  have hm : ∀ d ∈ Gen.QUOTE_SAFE.toList, d ≠ '/' → isNameRe d = true := by decide
  exact hm c this hs

theorem quoteChar_nameRe_all (c : Char) (hs : c ≠ '/') (ha : c.toNat < 128) : ∀ x ∈ quoteChar c, isNameRe x = true := by
  unfold quoteChar
  split
  · intro x hx; simp at hx; rcases hx with rfl | rfl | rfl <;> decide
  · rename_i hdot
    split
    · rename_i hsafe
      intro x hx
      simp only [List.mem_singleton] at hx
      subst hx
      simp only [Bool.or_eq_true] at hsafe
      rcases hsafe with h | h
      · have hd : (x == '.') = false := by simpa using hdot
        char_arith
      · exact safe_chars x h hs
    · intro x hx
      simp only [List.mem_cons, List.not_mem_nil, or_false] at hx
      rcases hx with rfl | rfl | rfl
      · decide
      · exact word_nameRe _ (hexU_word _ (by omega))
      · exact word_nameRe _ (hexU_word _ (by omega))

theorem quoteChar_ne_nil (c : Char) : quoteChar c ≠ [] := by
  unfold quoteChar
  split
  · simp
  · split <;> simp

theorem quoteName_nameOk (raw : Text) (hne : raw ≠ []) (h : ∀ c ∈ raw, c ≠ '/' ∧ c.toNat < 128)
    (hd : raw.take 4 ≠ ['d', 'a', 'p', '4']) : NameOk (quoteName raw) := by
  unfold quoteName
  rw [if_neg hd]
  constructor
  · cases raw with
    | nil => exact absurd rfl hne
    | cons a as =>
      have := quoteChar_ne_nil a
      simp only [List.flatMap_cons, ne_eq, List.append_eq_nil_iff, not_and]
      intro e; exact absurd e this
  · intro x hx
    simp only [List.mem_flatMap] at hx
    obtain ⟨c, hc, hxc⟩ := hx
    exact quoteChar_nameRe_all c (h c hc).1 (h c hc).2 x hxc

/-! ### `_quote` on names starting with `dap4` (the first 8 characters pass through unquoted) -/

/-- `quoteName_nameOk` without its `dap4` exclusion: a name starting with `dap4` is still mapped into `NameOk` when the
    8 characters `_quote` passes through are characters of `name_regexp` — every identifier (`dap4x`, `dap4_temp`) is. -/
theorem quoteName_nameOk_any (raw : Text) (hne : raw ≠ []) (h : ∀ c ∈ raw, c ≠ '/' ∧ c.toNat < 128)
    (hd : raw.take 4 = ['d', 'a', 'p', '4'] → ∀ c ∈ raw.take 8, isNameRe c = true) : NameOk (quoteName raw) := by
  by_cases h4 : raw.take 4 = ['d', 'a', 'p', '4']
  · unfold quoteName
    rw [if_pos h4]
    constructor
    · cases raw with
      | nil => exact absurd rfl hne
      | cons a as => simp
    · intro x hx
      simp only [List.mem_append, List.mem_flatMap] at hx
      rcases hx with hx | ⟨c, hc, hxc⟩
      · exact hd h4 x hx
      · have hm := List.mem_of_mem_drop hc
        exact quoteChar_nameRe_all c (h c hm).1 (h c hm).2 x hxc
  · exact quoteName_nameOk raw hne h h4

end Pydap.Dds
