import Proofs.DasParse
/-! The number tokens `'%.6g'` prints are classified back to their Python type (C08): discharges the `convert` hypothesis
    of `ScalarOk` for every token of the printed grammar instead of assuming it token by token. -/
namespace Pydap.Das

def DigitRun (t : Text) : Prop := ∀ c ∈ t, isDigit c = true

/-- a decimal natural number: digits, no superfluous leading zero -/
def NatShape (m : Text) : Prop := ∃ d ds, m = d :: ds ∧ isDigit d = true ∧ DigitRun ds ∧ (d = '0' → ds = [])
def SignOpt (s : Text) : Prop := s = [] ∨ s = ['-']
/-- nothing, or `.` and one or more digits -/
def FracShape (f : Text) : Prop := f = [] ∨ ∃ d ds, f = '.' :: d :: ds ∧ isDigit d = true ∧ DigitRun ds
/-- nothing, or `e`, a sign and one or more digits -/
def ExpShape (e : Text) : Prop :=
  e = [] ∨ ∃ sg d ds, e = 'e' :: sg :: d :: ds ∧ (sg = '+' ∨ sg = '-') ∧ isDigit d = true ∧ DigitRun ds

/-- what `'%.6g' % n` (and `str(n)`) prints for an int of up to six digits: optional `-`, decimal digits -/
def IntShape (t : Text) : Prop := ∃ s m, t = s ++ m ∧ SignOpt s ∧ NatShape m
/-- what `'%.6g' % x` prints for a finite float: optional `-`, integer part, optional fraction, optional exponent
    (`1`, `-0`, `2.5`, `0.0001`, `1e+06`, `1.5e-07`, `-1.23457e+20`) -/
def FiniteShape (t : Text) : Prop := ∃ s m f e, t = s ++ (m ++ (f ++ e)) ∧ SignOpt s ∧ NatShape m ∧ FracShape f ∧ ExpShape e
/-- … or one of the three non-finite spellings -/
def FloatShape (t : Text) : Prop := FiniteShape t ∨ t = "nan".toList ∨ t = "inf".toList ∨ t = "-inf".toList

theorem digit_ne_of (d c : Char) (hd : isDigit d = true) (hc : isDigit c = false) : d ≠ c := by
  rintro rfl; rw [hd] at hc; cases hc

theorem lowerC_digit (d : Char) (hd : isDigit d = true) : lowerC d = d := by
  unfold lowerC
  rw [if_neg]
  rintro ⟨h1, _⟩
  have h9 : d ≤ '9' := by
    simp [isDigit] at hd; exact hd.2
  have : 'A' ≤ '9' := Char.le_trans h1 h9
  exact absurd this (by decide)

theorem digit_tokChar (d : Char) (hd : isDigit d = true) : tokChar d = true := by
  cases h : tokChar d with
  | true => rfl
  | false =>
    exfalso
    simp [tokChar, notSep, isSpace] at h
    have dn : ∀ c, isDigit c = false → ¬ d = c := fun c hc => digit_ne_of d c hd hc
    exact dn '"' (by decide) (h (dn _ (by decide)) (dn _ (by decide)) (dn _ (by decide)) (dn _ (by decide))
      (dn _ (by decide)) (dn _ (by decide)) (dn _ (by decide)) (dn _ (by decide)) (dn _ (by decide))
      (dn _ (by decide)) (dn _ (by decide)) (dn _ (by decide)))

theorem allDigits_tok (ds : Text) (h : DigitRun ds) : ∀ c ∈ ds, tokChar c = true :=
  fun c hc => digit_tokChar c (h c hc)

theorem dropDigits_app (ds r : Text) (h : DigitRun ds) (hr : ∀ c, r.head? = some c → isDigit c = false) :
    dropDigits (ds ++ r) = r := by
  induction ds with
  | nil =>
    cases r with
    | nil => rfl
    | cons c cs => simp [dropDigits, hr c rfl]
  | cons d ds ih =>
    have := ih (fun c hc => h c (List.mem_cons_of_mem _ hc))
    simp [dropDigits, h d (by simp), this]

theorem dropDigits_all (ds : Text) (h : DigitRun ds) : dropDigits ds = [] := by
  have := dropDigits_app ds [] h (by simp)
  simpa using this

theorem expShape_head (e : Text) (he : ExpShape e) : ∀ c, e.head? = some c → isDigit c = false := by
  rcases he with rfl | ⟨sg, d, ds, rfl, _⟩
  · simp
  · intro c hc; simp at hc; subst hc; decide

theorem expOk_shape (e : Text) (he : ExpShape e) : expOk e = true := by
  rcases he with rfl | ⟨sg, d, ds, rfl, hsg, hd, hds⟩
  · rfl
  · rcases hsg with rfl | rfl <;> simp [expOk, dropSign, hd, dropDigits_all ds hds]

/-- the part of `literalEval` after white space, quotes and sign are dealt with -/
def litBody (u : Text) : Lit :=
  match u with
  | [] => .bad
  | c :: cs =>
    if isDigit c then
      match dropDigits cs with
      | [] => if c == '0' && !(cs.all (· == '0')) then .bad else .int
      | '.' :: r => if expOk (dropDigits r) then .float else .bad
      | r => if expOk r then .float else .bad
    else if c == '.' then
      match cs with
      | [] => .bad
      | d :: ds => if isDigit d && expOk (dropDigits ds) then .float else .bad
    else .bad

theorem litBody_shape (m f e : Text) (hm : NatShape m) (hf : FracShape f) (he : ExpShape e) :
    litBody (m ++ (f ++ e)) = if f = [] ∧ e = [] then .int else .float := by
  obtain ⟨d, ds, rfl, hd, hds, hz⟩ := hm
  rcases hf with rfl | ⟨d', ds', rfl, hd', hds'⟩
  · rcases he with rfl | ⟨sg, d2, ds2, rfl, hsg, hd2, hds2⟩
    · simp only [List.append_nil, and_self, if_true, litBody, hd, dropDigits_all ds hds]
      by_cases h0 : d = '0'
      · simp [hz h0]
      · simp [h0]
    · have hE : ExpShape ('e' :: sg :: d2 :: ds2) := Or.inr ⟨sg, d2, ds2, rfl, hsg, hd2, hds2⟩
      have h1 : dropDigits (ds ++ 'e' :: sg :: d2 :: ds2) = 'e' :: sg :: d2 :: ds2 :=
        dropDigits_app ds _ hds (expShape_head _ hE)
      simp only [List.nil_append, List.cons_append, litBody, hd, if_true, h1]
      simp
      exact expOk_shape _ hE
  · have h1 : dropDigits (ds ++ ('.' :: d' :: ds' ++ e)) = '.' :: (d' :: ds' ++ e) :=
      dropDigits_app ds _ hds (by intro c hc; simp at hc; subst hc; decide)
    have h2 : dropDigits (d' :: ds' ++ e) = e :=
      dropDigits_app (d' :: ds') e (by intro c hc; simp at hc; rcases hc with rfl | hc; exact hd'; exact hds' c hc)
        (expShape_head e he)
    simp only [List.cons_append, litBody, hd, if_true] at h1 ⊢
    rw [h1]
    simp only [List.cons_append] at h2
    simp [h2, expOk_shape e he]


theorem lstrip_noSpace (u : Text) (h : ∀ c ∈ u, isSpace c = false) : lstrip u = u := by
  cases u with
  | nil => rfl
  | cons c cs => simp [lstrip, h c (by simp)]

theorem rstrip_tok (t : Text) (h : ∀ c ∈ t, tokChar c = true) : rstrip t = t := by
  unfold rstrip
  rw [lstrip_noSpace]; · simp
  intro c hc
  have := h c (List.mem_reverse.mp hc)
  simp [tokChar] at this; exact this.1.2

theorem quotedLit_tok (t : Text) (h : ∀ c ∈ t, tokChar c = true) : quotedLit t = none := by
  cases t with
  | nil => rfl
  | cons c cs =>
    have : c ≠ '"' := by have := h c (by simp); simp [tokChar] at this; exact this.2
    unfold quotedLit
    split
    · rename_i heq; simp at heq; exact absurd heq.1 this
    · rfl

theorem literalEval_tok (t : Text) (h : ∀ c ∈ t, tokChar c = true) : literalEval t = litBody (dropSign t) := by
  unfold literalEval
  rw [rstrip_tok t h, quotedLit_tok t h]
  rfl

theorem natShape_tok (m : Text) (hm : NatShape m) : ∀ c ∈ m, tokChar c = true := by
  obtain ⟨d, ds, rfl, hd, hds, _⟩ := hm
  intro c hc
  rcases List.mem_cons.mp hc with rfl | hc
  · exact digit_tokChar _ hd
  · exact digit_tokChar _ (hds c hc)

theorem fracShape_tok (f : Text) (hf : FracShape f) : ∀ c ∈ f, tokChar c = true := by
  rcases hf with rfl | ⟨d, ds, rfl, hd, hds⟩
  · simp
  · intro c hc
    simp only [List.mem_cons] at hc
    rcases hc with rfl | rfl | hc
    · decide
    · exact digit_tokChar _ hd
    · exact digit_tokChar _ (hds c hc)

theorem expShape_tok (e : Text) (he : ExpShape e) : ∀ c ∈ e, tokChar c = true := by
  rcases he with rfl | ⟨sg, d, ds, rfl, hsg, hd, hds⟩
  · simp
  · intro c hc
    simp only [List.mem_cons] at hc
    rcases hc with rfl | rfl | rfl | hc
    · decide
    · rcases hsg with rfl | rfl <;> decide
    · exact digit_tokChar _ hd
    · exact digit_tokChar _ (hds c hc)

theorem signOpt_tok (s : Text) (hs : SignOpt s) : ∀ c ∈ s, tokChar c = true := by
  rcases hs with rfl | rfl
  · simp
  · intro c hc; simp at hc; subst hc; decide

theorem finite_tok (s m f e : Text) (hs : SignOpt s) (hm : NatShape m) (hf : FracShape f) (he : ExpShape e) :
    ∀ c ∈ s ++ (m ++ (f ++ e)), tokChar c = true := by
  intro c hc
  simp only [List.mem_append] at hc
  rcases hc with hc | hc | hc | hc
  · exact signOpt_tok s hs c hc
  · exact natShape_tok m hm c hc
  · exact fracShape_tok f hf c hc
  · exact expShape_tok e he c hc

theorem dropSign_finite (s m r : Text) (hs : SignOpt s) (hm : NatShape m) : dropSign (s ++ (m ++ r)) = m ++ r := by
  obtain ⟨d, ds, rfl, hd, _, _⟩ := hm
  rcases hs with rfl | rfl
  · have h1 : d ≠ '-' := digit_ne_of d _ hd (by decide)
    have h2 : d ≠ '+' := digit_ne_of d _ hd (by decide)
    simp only [List.nil_append, List.cons_append]
    unfold dropSign
    split
    · rename_i heq; simp at heq; exact absurd heq.1 h1
    · rename_i heq; simp at heq; exact absurd heq.1 h2
    · rfl
  · rfl

theorem literalEval_finite (s m f e : Text) (hs : SignOpt s) (hm : NatShape m) (hf : FracShape f) (he : ExpShape e) :
    literalEval (s ++ (m ++ (f ++ e))) = if f = [] ∧ e = [] then .int else .float := by
  rw [literalEval_tok _ (finite_tok s m f e hs hm hf he), dropSign_finite s m _ hs hm, litBody_shape m f e hm hf he]

/-- a finite-number token is none of the nan / inf spellings (it starts with a digit, or with `-` and a digit) -/
theorem finite_not_special (s m r : Text) (hs : SignOpt s) (hm : NatShape m) :
    nanToks.contains (lower (s ++ (m ++ r))) = false ∧ infToks.contains (lower (s ++ (m ++ r))) = false
      ∧ ninfToks.contains (lower (s ++ (m ++ r))) = false := by
  obtain ⟨d, ds, rfl, hd, _, _⟩ := hm
  have hn : d ≠ 'n' := digit_ne_of d _ hd (by decide)
  have hi : d ≠ 'i' := digit_ne_of d _ hd (by decide)
  have hm' : d ≠ '-' := digit_ne_of d _ hd (by decide)
  rcases hs with rfl | rfl
  · simp [lower, lowerC_digit d hd, nanToks, infToks, ninfToks, hn, hi, hm']
  · have e : lower (['-'] ++ (d :: ds ++ r)) = '-' :: d :: lower (ds ++ r) := by
      simp only [lower, List.cons_append, List.nil_append, List.map_cons, lowerC_digit d hd]
      congr 1
    rw [e]
    simp [nanToks, infToks, ninfToks, hn, hi]


theorem convert_plain (ty tok : Text) (hs : strTypes.contains (lower ty) = false)
    (n1 : nanToks.contains (lower tok) = false) (n2 : infToks.contains (lower tok) = false)
    (n3 : ninfToks.contains (lower tok) = false) :
    convert ty tok = match literalEval tok with
      | .bad => .error .literal
      | .str s => if floatTypes.contains (lower ty) then .error .literal else .ok (.str s)
      | .float => .ok (.num tok true)
      | .int => .ok (.num tok (floatTypes.contains (lower ty))) := by
  unfold convert
  rw [hs, n1, n2, n3]
  simp only [Bool.false_eq_true, if_false]
  rfl

/-- **int tokens** under any declared type that is neither a string type nor a float type (Int32, Byte, UInt16 …) -/
theorem scalarOk_int (ty t : Text) (hs : strTypes.contains (lower ty) = false)
    (hf : floatTypes.contains (lower ty) = false) (h : IntShape t) : ScalarOk ty (.num t false) := by
  obtain ⟨s, m, rfl, hsg, hm⟩ := h
  have ht := finite_tok s m [] [] hsg hm (Or.inl rfl) (Or.inl rfl)
  have hl := literalEval_finite s m [] [] hsg hm (Or.inl rfl) (Or.inl rfl)
  obtain ⟨n1, n2, n3⟩ := finite_not_special s m [] hsg hm
  simp only [List.append_nil, and_self, if_true] at ht hl n1 n2 n3
  refine ⟨?_, ht, ?_⟩
  · obtain ⟨d, ds, rfl, _⟩ := hm; simp
  · rw [convert_plain _ _ hs n1 n2 n3, hl, hf]

/-- **float tokens** under a float type: every printed shape, the int-looking ones (`1`, `-0`, `100000`) included -/
theorem scalarOk_float (ty t : Text) (hs : strTypes.contains (lower ty) = false)
    (hf : floatTypes.contains (lower ty) = true) (h : FloatShape t) : ScalarOk ty (.num t true) := by
  rcases h with ⟨s, m, f, e, rfl, hsg, hm, hfr, he⟩ | rfl | rfl | rfl
  · have ht := finite_tok s m f e hsg hm hfr he
    have hl := literalEval_finite s m f e hsg hm hfr he
    obtain ⟨n1, n2, n3⟩ := finite_not_special s m (f ++ e) hsg hm
    refine ⟨?_, ht, ?_⟩
    · obtain ⟨d, ds, rfl, _⟩ := hm; simp
    · rw [convert_plain _ _ hs n1 n2 n3, hl]
      by_cases hfe : f = [] ∧ e = []
      · rw [if_pos hfe, hf]
      · rw [if_neg hfe]
  · refine ⟨by decide, by decide, ?_⟩
    unfold convert; rw [hs]; simp only [Bool.false_eq_true, if_false]; rfl
  · refine ⟨by decide, by decide, ?_⟩
    unfold convert; rw [hs]; simp only [Bool.false_eq_true, if_false]; rfl
  · refine ⟨by decide, by decide, ?_⟩
    unfold convert; rw [hs]; simp only [Bool.false_eq_true, if_false]; rfl

/-! ### the DAS-safe domain, syntactically (the property's quantifier) -/

/-- a scalar of the DAS-safe domain: a string without `"` and `\`; an int printed in decimal; a float printed by `%.6g` -/
def ScalarDom : Scalar → Prop
  | .str s => SafeStr s
  | .num t false => IntShape t
  | .num t true => FloatShape t

def isInt : Scalar → Bool | .num _ false => true | _ => false

/-- a homogeneous list: all strings, all floats or all ints -/
def Homog (xs : List Scalar) : Prop :=
  (∀ x ∈ xs, isStr x = true) ∨ (∀ x ∈ xs, isFloat x = true) ∨ (∀ x ∈ xs, isInt x = true)

mutual
def ValDom : AVal → Prop
  | .sc x => ScalarDom x
  | .list xs => (∀ x ∈ xs, ScalarDom x) ∧ Homog xs
  | .dict kvs => AttrsDom kvs
def AttrsDom : List (Text × AVal) → Prop
  | [] => True
  | (k, v) :: rest => NameOk k ∧ ValDom v ∧ AttrsDom rest
end

mutual
def VarDom : Var → Prop
  | .mk .struct n a cs => NameOk n ∧ AttrsDom a ∧ VarsDom cs
  | .mk .seq n a cs => NameOk n ∧ AttrsDom a ∧ VarsDom cs
  | .mk .base n a _ => NameOk n ∧ AttrsDom a
  | .mk .grid n a _ => NameOk n ∧ AttrsDom a
def VarsDom : List Var → Prop
  | [] => True
  | v :: rest => VarDom v ∧ VarsDom rest
end

/-- the property's quantifier: every attribute map of the dataset and of its variables is over the DAS-safe domain -/
def DsDom (ds : Dataset) : Prop := AttrsDom ds.attrs ∧ VarsDom ds.children

theorem scalarDom_ok (x : Scalar) (h : ScalarDom x) : ScalarOk (typeConvert x) x := by
  cases x with
  | str s => exact ⟨h, rfl⟩
  | num t f =>
    cases f with
    | false => exact scalarOk_int _ t rfl rfl h
    | true => exact scalarOk_float _ t rfl rfl h

theorem listDom_ok (xs : List Scalar) (hd : ∀ x ∈ xs, ScalarDom x) (hh : Homog xs) :
    ∀ x ∈ xs, ScalarOk (listType xs) x := by
  intro x hx
  rcases hh with hh | hh | hh
  · have : xs.any isStr = true := List.any_eq_true.mpr ⟨x, hx, hh x hx⟩
    have hx' := hh x hx
    cases x with
    | str s => simp only [listType, this, if_true]; exact ⟨hd _ hx, by decide⟩
    | num t f => simp [isStr] at hx'
  · have h1 : xs.any isStr = false := by
      apply List.any_eq_false.mpr
      intro y hy
      have := hh y hy
      cases y with
      | str s => simp [isFloat] at this
      | num t f => simp [isStr]
    have h2 : xs.any isFloat = true := List.any_eq_true.mpr ⟨x, hx, hh x hx⟩
    have hx' := hh x hx
    cases x with
    | str s => simp [isFloat] at hx'
    | num t f =>
      cases f with
      | false => simp [isFloat] at hx'
      | true =>
        simp only [listType, h1, h2, if_true, Bool.false_eq_true, if_false]
        exact scalarOk_float _ t (by decide) (by decide) (hd _ hx)
  · have h1 : xs.any isStr = false := by
      apply List.any_eq_false.mpr
      intro y hy
      have := hh y hy
      cases y with
      | str s => simp [isInt] at this
      | num t f => simp [isStr]
    have h2 : xs.any isFloat = false := by
      apply List.any_eq_false.mpr
      intro y hy
      have := hh y hy
      cases y with
      | str s => simp [isInt] at this
      | num t f => cases f <;> simp [isInt, isFloat] at this ⊢
    have hx' := hh x hx
    cases x with
    | str s => simp [isInt] at hx'
    | num t f =>
      cases f with
      | true => simp [isInt] at hx'
      | false =>
        simp only [listType, h1, h2, Bool.false_eq_true, if_false]
        exact scalarOk_int _ t (by decide) (by decide) (hd _ hx)

mutual
theorem valDom_ok : (v : AVal) → ValDom v → ValOk v
  | .sc x, h => scalarDom_ok x h
  | .list xs, h => listDom_ok xs h.1 h.2
  | .dict kvs, h => by
    simp only [ValDom] at h; simp only [ValOk]; exact attrsDom_ok kvs h
theorem attrsDom_ok : (kvs : List (Text × AVal)) → AttrsDom kvs → AttrsOk kvs
  | [], _ => trivial
  | (k, v) :: rest, h => by
    simp only [AttrsDom] at h; simp only [AttrsOk]
    exact ⟨h.1, valDom_ok v h.2.1, attrsDom_ok rest h.2.2⟩
end

mutual
theorem varDom_ok : (v : Var) → VarDom v → VarOk v
  | .mk .struct n a cs, h => by
    simp only [VarDom] at h; simp only [VarOk]; exact ⟨h.1, attrsDom_ok a h.2.1, varsDom_ok cs h.2.2⟩
  | .mk .seq n a cs, h => by
    simp only [VarDom] at h; simp only [VarOk]; exact ⟨h.1, attrsDom_ok a h.2.1, varsDom_ok cs h.2.2⟩
  | .mk .base n a cs, h => by
    simp only [VarDom] at h; simp only [VarOk]; exact ⟨h.1, attrsDom_ok a h.2⟩
  | .mk .grid n a cs, h => by
    simp only [VarDom] at h; simp only [VarOk]; exact ⟨h.1, attrsDom_ok a h.2⟩
theorem varsDom_ok : (cs : List Var) → VarsDom cs → VarsOk cs
  | [], _ => trivial
  | v :: rest, h => by
    simp only [VarsDom] at h; simp only [VarsOk]; exact ⟨varDom_ok v h.1, varsDom_ok rest h.2⟩
end

/-- the syntactic domain is inside the domain of the whole-text / whole-dataset theorems -/
theorem dsDom_ok (ds : Dataset) (h : DsDom ds) : DsOk ds := ⟨attrsDom_ok _ h.1, varsDom_ok _ h.2⟩

end Pydap.Das
