/-
  C05: `calculate_size` announces the real body length; `safe_dds_and_data` splits the body at the
  separator.
-/
import Proofs.XdrDec
namespace Pydap.Xdr
open Pydap.XdrSpec

theorem encElem_length (ty : Ty) (hs : ty ≠ .string) (v : Val) (h : wfVal ty v = true) :
    (encElem ty v).length = wireWidth ty := by
  obtain ⟨n, rfl⟩ := wfNum ty hs v h
  rw [← toWire_eq_spec _ _ h, toWire_length]

theorem base_length (ty : Ty) (sh : List Nat) (d : Data) (h : WF (.base ty sh) d = true) (n : Nat)
    (hc : calcData (.base ty sh) = some n) : (enc (.base ty sh) d).length = n := by
  simp only [calcData] at hc
  split at hc
  · simp at hc
  · next hS =>
    have hs : ty ≠ .string := fun e => hS ((wireChar_S ty).mpr e)
    cases sh with
    | nil =>
      cases d <;> simp [WF] at h
      next v =>
      split at hc
      · next hB =>
        have hb : ty = .byte := (wireStr_B ty).mp hB
        subst hb
        have := encElem_length .byte hs v h
        have w1 : wireWidth .byte = 1 := by decide
        simp [prod, pad4_one] at hc
        simp [enc, encScalar, this, w1]
        omega
      · next hB =>
        have hb : ty ≠ .byte := fun e => hB ((wireStr_B ty).mpr e)
        have := encElem_length ty hs v h
        simp [prod] at hc
        have e : encScalar ty v = encElem ty v := by cases ty <;> simp_all [encScalar]
        simp [enc, e, this]
        omega
    | cons k ks =>
      cases d <;> simp [WF] at h
      next vs =>
      obtain ⟨⟨hlen, hw⟩, hl⟩ := h
      have hw' : vs.all (wfVal ty) = true := by simpa using hw
      have hfl := flatten_toWire_length ty hs vs hw'
      rw [map_toWire_eq ty hs vs hw'] at hfl
      split at hc
      · next hB =>
        have hb : ty = .byte := (wireStr_B ty).mp hB
        subst hb
        have w1 : wireWidth .byte = 1 := by decide
        simp [← hlen] at hc
        simp [enc, encArray, word, hfl, w1]
        omega
      · next hB =>
        have hb : ty ≠ .byte := fun e => hB ((wireStr_B ty).mpr e)
        simp [← hlen] at hc
        have e : encArray ty vs = word vs.length ++ word vs.length ++ (vs.map (encElem ty)).flatten := by
          cases ty <;> simp_all [encArray]
        simp [enc, e, word, hfl]
        rw [Nat.mul_comm] at hc
        omega

mutual
theorem calcData_length : ∀ (d : Data) (t : Tmpl) (n : Nat), WF t d = true → calcData t = some n →
    (enc t d).length = n
  | d, .base ty sh, n, h, hc => base_length ty sh d h n hc
  | _, .seq _, _, _, hc => by simp [calcData] at hc
  | .tuple ds, .struct cs, n, h, hc => by
    simp only [WF, Bool.and_eq_true] at h
    simp only [calcData] at hc
    simp only [enc]
    exact calcDatas_length ds cs n h.2 hc
  | .scalar _, .struct _, _, h, _ => by simp [WF] at h
  | .array _, .struct _, _, h, _ => by simp [WF] at h
  | .rows _, .struct _, _, h, _ => by simp [WF] at h
theorem calcDatas_length : ∀ (ds : List Data) (cs : List Tmpl) (n : Nat), WFs cs ds = true →
    calcDatas cs = some n → (encs cs ds).length = n
  | [], [], n, _, hc => by simp [calcDatas] at hc; simp [encs, hc]
  | _ :: _, [], _, h, _ => by simp [WFs] at h
  | [], _ :: _, _, h, _ => by simp [WFs] at h
  | d :: ds, c :: cs, n, h, hc => by
    simp only [WFs, Bool.and_eq_true] at h
    simp only [calcDatas] at hc
    split at hc
    · next a b ha hb =>
      simp at hc
      simp [encs, calcData_length d c a h.1 ha, calcDatas_length ds cs b h.2 hb, hc]
    · simp at hc
end

/-! ### the separator -/

theorem splitFirst_at (pat : Bytes) (hp : pat ≠ []) : ∀ (a r : Bytes),
    (∀ i, i < a.length → ¬ pat.isPrefixOf ((a ++ pat ++ r).drop i) = true) →
    splitFirst pat (a ++ pat ++ r) = some (a, r)
  | [], r, _ => by
    cases pat with
    | nil => exact absurd rfl hp
    | cons p ps =>
      have h1 : (p :: ps).isPrefixOf (p :: ps ++ r) = true := by
        rw [List.isPrefixOf_iff_prefix]; exact List.prefix_append _ _
      simp only [List.nil_append, List.cons_append, splitFirst]
      rw [← List.cons_append, if_pos h1]
      simp
  | x :: a, r, h => by
    have h0 := h 0 (by simp)
    simp only [List.drop_zero] at h0
    have ih := splitFirst_at pat hp a r (fun i hi => by
      have := h (i + 1) (by simp; omega)
      simpa using this)
    simp only [List.cons_append] at h0 ⊢
    rw [splitFirst, if_neg h0, ih]
    rfl

end Pydap.Xdr
