import PydapModel.Slice
namespace Pydap
/-! ### decimal print / parse -/

theorem digitChar_isDigit (d : Nat) : isDigit (digitChar d) = true := by
  unfold digitChar; split <;> decide

theorem digitChar_val (d : Nat) (h : d < 10) : (digitChar d).toNat - '0'.toNat = d := by
  rcases d with _|_|_|_|_|_|_|_|_|_|d <;> first | rfl | omega

def AllDigits (l : List Char) : Prop := ∀ c ∈ l, isDigit c = true

theorem natDigits_allDigits (n : Nat) : AllDigits (natDigits n) := by
  induction n using Nat.strongRecOn with
  | _ n ih =>
    unfold natDigits
    split
    · intro c hc; simp at hc; subst hc; exact digitChar_isDigit _
    · intro c hc
      simp at hc
      rcases hc with hc | hc
      · exact ih (n / 10) (by omega) c hc
      · subst hc; exact digitChar_isDigit _

theorem natDigits_ne_nil (n : Nat) : natDigits n ≠ [] := by
  unfold natDigits; split <;> simp

theorem parseDigits_digit_append (ds rest : List Char) (acc : Nat) (pd : Bool)
    (h : AllDigits ds) :
    parseDigits (ds ++ rest) acc pd
      = parseDigits rest (ds.foldl (fun a c => a * 10 + (c.toNat - '0'.toNat)) acc)
          (if ds = [] then pd else true) := by
  induction ds generalizing acc pd with
  | nil => simp
  | cons c cs ih =>
    have hc : isDigit c = true := h c (by simp)
    have hcs : AllDigits cs := fun x hx => h x (by simp [hx])
    simp only [List.cons_append, parseDigits, hc, if_true, List.foldl_cons]
    rw [ih _ _ hcs]
    by_cases e : cs = [] <;> simp [e]

theorem natDigits_value (n : Nat) (acc : Nat) :
    (natDigits n).foldl (fun a c => a * 10 + (c.toNat - '0'.toNat)) acc
      = acc * 10 ^ (natDigits n).length + n := by
  induction n using Nat.strongRecOn generalizing acc with
  | _ n ih =>
    unfold natDigits
    split
    · rename_i h; have := digitChar_val n h; simp at this ⊢; exact this
    · rename_i h
      simp only [List.foldl_append, List.foldl_cons, List.foldl_nil, List.length_append,
        List.length_cons, List.length_nil]
      rw [ih (n / 10) (by omega), digitChar_val _ (Nat.mod_lt _ (by omega))]
      rw [Nat.pow_succ]
      have := Nat.div_add_mod n 10
      generalize 10 ^ (natDigits (n / 10)).length = p
      rw [Nat.add_mul, Nat.mul_assoc]
      omega

theorem parseNatChars_natDigits (n : Nat) : parseNatChars (natDigits n) = some n := by
  unfold parseNatChars
  have := parseDigits_digit_append (natDigits n) [] 0 false (natDigits_allDigits n)
  simp only [List.append_nil] at this
  rw [this, natDigits_value]
  simp [parseDigits, natDigits_ne_nil]

theorem isDigit_not_ws (c : Char) (h : isDigit c = true) : isWs c = false := by
  unfold isDigit at h; unfold isWs
  simp only [Bool.and_eq_true, decide_eq_true_eq] at h
  obtain ⟨h1, h2⟩ := h
  have h1 : '0'.toNat ≤ c.toNat := h1
  simp only [Char.reduceToNat] at h1
  have ne : ∀ d : Char, d.toNat < 48 → c ≠ d := by
    intro d hd e; subst e; omega
  simp [ne ' ' (by decide), ne '\t' (by decide), ne '\n' (by decide), ne '\r' (by decide),
    ne '\x0b' (by decide), ne '\x0c' (by decide)]

theorem dropWhile_head_false {α} (p : α → Bool) (l : List α)
    (h : ∀ x, l.head? = some x → p x = false) : l.dropWhile p = l := by
  cases l with
  | nil => rfl
  | cons x xs => simp [List.dropWhile, h x rfl]

theorem stripWs_allDigits (l : List Char) (h : AllDigits l) : stripWs l = l := by
  unfold stripWs
  rw [dropWhile_head_false isWs l (fun x hx => isDigit_not_ws x (h x (List.mem_of_mem_head? hx)))]
  rw [dropWhile_head_false isWs l.reverse (fun x hx => isDigit_not_ws x (h x (by
    have := List.mem_of_mem_head? hx; simpa using this)))]
  simp

theorem parseIntChars_natDigits (n : Nat) : parseIntChars (natDigits n) = some (n : Int) := by
  unfold parseIntChars
  rw [stripWs_allDigits _ (natDigits_allDigits n)]
  have hd := natDigits_allDigits n
  have hne := natDigits_ne_nil n
  cases hl : natDigits n with
  | nil => exact absurd hl hne
  | cons c cs =>
    have hc : isDigit c = true := hd c (by simp [hl])
    have h1 : c ≠ '-' := by intro e; subst e; revert hc; decide
    have h2 : c ≠ '+' := by intro e; subst e; revert hc; decide
    have := parseNatChars_natDigits n
    rw [hl] at this
    split
    · rename_i heq; simp at heq; exact absurd heq.1 h1
    · rename_i heq; simp at heq; exact absurd heq.1 h2
    · simp [this]

theorem intText_nonneg (i : Int) (h : 0 ≤ i) : intText i = natDigits i.toNat := by
  unfold intText
  have : ¬ i < 0 := by omega
  simp [this]
  congr 1
  omega

theorem parseIntChars_intText (i : Int) (h : 0 ≤ i) : parseIntChars (intText i) = some i := by
  rw [intText_nonneg i h, parseIntChars_natDigits]
  simp; omega

/-! ### splitting -/

theorem splitOnChar_ne_nil (sep : Char) (l : List Char) : splitOnChar sep l ≠ [] := by
  induction l with
  | nil => simp [splitOnChar]
  | cons c cs ih =>
    unfold splitOnChar
    split
    · simp
    · split <;> simp

theorem splitOnChar_no_sep (sep : Char) (l : List Char) (h : ∀ c ∈ l, c ≠ sep) :
    splitOnChar sep l = [l] := by
  induction l with
  | nil => rfl
  | cons c cs ih =>
    have hc : c ≠ sep := h c (by simp)
    have := ih (fun x hx => h x (by simp [hx]))
    simp [splitOnChar, this, hc]

theorem splitOnChar_append (sep : Char) (l rest : List Char) (h : ∀ c ∈ l, c ≠ sep) :
    splitOnChar sep (l ++ sep :: rest) = l :: splitOnChar sep rest := by
  induction l with
  | nil =>
    simp only [List.nil_append, splitOnChar]
    cases hs : splitOnChar sep rest with
    | nil => exact absurd hs (splitOnChar_ne_nil _ _)
    | cons g gs => simp
  | cons c cs ih =>
    have hc : c ≠ sep := h c (by simp)
    have := ih (fun x hx => h x (by simp [hx]))
    simp [splitOnChar, this, hc]

theorem splitOn2_ne_nil (a b : Char) (l : List Char) : splitOn2 a b l ≠ [] := by
  induction l using splitOn2.induct a b <;> simp_all [splitOn2]
  all_goals (split <;> simp)

theorem splitOn2_no_a (a b : Char) (l : List Char) (h : ∀ c ∈ l, c ≠ a) :
    splitOn2 a b l = [l] := by
  induction l with
  | nil => rfl
  | cons c cs ih =>
    have hc : c ≠ a := h c (by simp)
    have := ih (fun x hx => h x (by simp [hx]))
    cases cs with
    | nil => rfl
    | cons d ds => simp [splitOn2, hc, this]

theorem splitOn2_append (a b : Char) (l rest : List Char) (h : ∀ c ∈ l, c ≠ a) :
    splitOn2 a b (l ++ a :: b :: rest) = l :: splitOn2 a b rest := by
  induction l with
  | nil => simp [splitOn2]
  | cons c cs ih =>
    have hc : c ≠ a := h c (by simp)
    have := ih (fun x hx => h x (by simp [hx]))
    cases cs with
    | nil => simp [splitOn2, hc] at this ⊢
    | cons d ds =>
      simp only [List.cons_append] at this ⊢
      simp [splitOn2, hc, this]

/-! ### the hyperslab text of normalised slices -/

/-- a slice as produced by `fix_slice` with a non-empty selection: all fields present,
    start ≥ 0, stop ≥ 1, step ≥ 1 -/
def NormSl (s : PSlice) : Prop :=
  ∃ a b k : Int, s = ⟨some a, some b, some k⟩ ∧ 0 ≤ a ∧ 1 ≤ b ∧ 1 ≤ k

def groupText (s : PSlice) : List Char :=
  let t := hyperTriple s
  intText t.1 ++ [':'] ++ intText t.2.1 ++ [':'] ++ intText t.2.2

theorem intText_allDigits (i : Int) (h : 0 ≤ i) : AllDigits (intText i) := by
  rw [intText_nonneg i h]; exact natDigits_allDigits _

theorem digit_ne {c d : Char} (h : isDigit c = true) (hd : isDigit d = false) : c ≠ d := by
  intro e; subst e; rw [h] at hd; exact Bool.noConfusion hd

theorem hyperTriple_norm {s : PSlice} (h : NormSl s) :
    ∃ a b k : Int, s = ⟨some a, some b, some k⟩ ∧ 0 ≤ a ∧ 1 ≤ b ∧ 1 ≤ k ∧
      hyperTriple s = (a, k, b - 1) := by
  obtain ⟨a, b, k, rfl, ha, hb, hk⟩ := h
  refine ⟨a, b, k, rfl, ha, hb, hk, ?_⟩
  simp only [hyperTriple, orElse]
  have h1 : (if a = 0 then 0 else a) = a := by split <;> simp_all
  have h2 : (if k = 0 then 1 else k) = k := by split <;> omega
  have h3 : (if b = 0 then MAXSIZE else b) = b := by split <;> omega
  rw [h1, h2, h3]

theorem parseTokens_group {s : PSlice} (h : NormSl s) :
    (parseTokens (groupText s) >>= parseGroup) = .ok s := by
  obtain ⟨a, b, k, rfl, ha, hb, hk, ht⟩ := hyperTriple_norm h
  unfold groupText parseTokens
  rw [ht]
  simp only
  have da := intText_allDigits a ha
  have dk := intText_allDigits k (by omega)
  have db := intText_allDigits (b - 1) (by omega)
  have nc : ∀ l, AllDigits l → ∀ c ∈ l, c ≠ ':' := fun l hl c hc => digit_ne (hl c hc) (by decide)
  have : intText a ++ [':'] ++ intText k ++ [':'] ++ intText (b - 1)
      = intText a ++ ':' :: (intText k ++ ':' :: intText (b - 1)) := by simp
  rw [this, splitOnChar_append _ _ _ (nc _ da), splitOnChar_append _ _ _ (nc _ dk),
    splitOnChar_no_sep _ _ (nc _ db)]
  simp only [List.mapM_cons, List.mapM_nil, parseIntChars_intText a ha,
    parseIntChars_intText k (by omega), parseIntChars_intText (b - 1) (by omega)]
  simp [parseGroup, bind, Except.bind, pure, Except.pure]

/-- `g1][g2]…][gn` -/
def joinSep : List (List Char) → List Char
  | [] => []
  | [g] => g
  | g :: g' :: gs => g ++ ']' :: '[' :: joinSep (g' :: gs)

theorem wrap_flatMap (g : List Char) (gs : List (List Char)) :
    (g :: gs).flatMap (fun g => ['['] ++ g ++ [']']) = '[' :: joinSep (g :: gs) ++ [']'] := by
  induction gs generalizing g with
  | nil => simp [joinSep]
  | cons g' gs ih =>
    rw [List.flatMap_cons, ih g']
    simp [joinSep]

theorem splitOn2_joinSep (g : List Char) (gs : List (List Char))
    (h : ∀ x ∈ g :: gs, ∀ c ∈ x, c ≠ ']') :
    splitOn2 ']' '[' (joinSep (g :: gs)) = g :: gs := by
  induction gs generalizing g with
  | nil => exact splitOn2_no_a _ _ _ (h g (by simp))
  | cons g' gs ih =>
    simp only [joinSep]
    rw [splitOn2_append _ _ _ _ (h g (by simp))]
    rw [ih g' (fun x hx => h x (by simp at hx ⊢; right; exact hx))]

theorem groupText_no_bracket {s : PSlice} (h : NormSl s) : ∀ c ∈ groupText s, c ≠ ']' := by
  obtain ⟨a, b, k, rfl, ha, hb, hk, ht⟩ := hyperTriple_norm h
  unfold groupText
  rw [ht]
  intro c hc
  simp only [List.append_assoc, List.mem_append, List.mem_cons, List.not_mem_nil, or_false] at hc
  rcases hc with hc | hc | hc | hc | hc
  · exact digit_ne (intText_allDigits a ha c hc) (by decide)
  · subst hc; decide
  · exact digit_ne (intText_allDigits k (by omega) c hc) (by decide)
  · subst hc; decide
  · exact digit_ne (intText_allDigits (b - 1) (by omega) c hc) (by decide)

theorem groupText_ne_nil (s : PSlice) : groupText s ≠ [] := by
  unfold groupText; simp

theorem normSl_ne_all {s : PSlice} (h : NormSl s) : s ≠ PSlice.all := by
  obtain ⟨a, b, k, rfl, _⟩ := h
  simp [PSlice.all]

theorem dropTrailingAll_norm (l : List PSlice) (h : ∀ s ∈ l, NormSl s) : dropTrailingAll l = l := by
  unfold dropTrailingAll
  rw [dropWhile_head_false]
  · simp
  · intro x hx
    have : x ∈ l := by have := List.mem_of_mem_head? hx; simpa using this
    simpa using normSl_ne_all (h x this)

theorem hyperslabText_eq (l : List PSlice) (h : ∀ s ∈ l, NormSl s) :
    hyperslabText l = (l.map groupText).flatMap (fun g => ['['] ++ g ++ [']']) := by
  unfold hyperslabText
  rw [dropTrailingAll_norm l h, List.flatMap_map]
  congr 1

theorem mapM_groups (l : List PSlice) (h : ∀ s ∈ l, NormSl s) :
    (l.map groupText).mapM (fun g => do let toks ← parseTokens g; parseGroup toks) = Except.ok l := by
  induction l with
  | nil => rfl
  | cons s ss ih =>
    have h1 := parseTokens_group (h s (by simp))
    have h2 := ih (fun x hx => h x (by simp [hx]))
    simp only [List.map_cons, List.mapM_cons]
    rw [h1, h2]
    rfl

/-- **print/parse round trip of hyperslabs** on characters -/
theorem parseHyperslab_hyperslabText (l : List PSlice) (h : ∀ s ∈ l, NormSl s) :
    parseHyperslab (hyperslabText l) = .ok l := by
  rw [hyperslabText_eq l h]
  cases l with
  | nil => rfl
  | cons s ss =>
    unfold parseHyperslab
    simp only [List.map_cons]
    rw [wrap_flatMap]
    simp only [List.cons_append, List.drop_one, List.tail_cons, List.dropLast_concat]
    rw [splitOn2_joinSep]
    · have hf : ((groupText s :: ss.map groupText).filter (· ≠ [])) = groupText s :: ss.map groupText := by
        rw [List.filter_eq_self]
        intro g hg
        simp only [List.mem_cons, List.mem_map] at hg
        rcases hg with rfl | ⟨x, _, rfl⟩ <;> simp [groupText_ne_nil]
      rw [hf]
      exact mapM_groups (s :: ss) h
    · intro x hx
      simp only [List.mem_cons, List.mem_map] at hx
      rcases hx with rfl | ⟨y, hy, rfl⟩
      · exact groupText_no_bracket (h s (by simp))
      · exact groupText_no_bracket (h y (by simp [hy]))

end Pydap
