import Proofs.DasLink
import PydapModel.DasForeign
/-! `parse_das` on a DAS in a foreign layout (C08): arbitrary white space per node, several attributes per
    line, keyword and type words in any case. -/
namespace Pydap.Das

/-- a run of white space (possibly empty) -/
def Ws (w : Text) : Prop := ∀ c ∈ w, isSpace c = true
/-- at least one white space character -/
def Gap (w : Text) : Prop := w ≠ [] ∧ Ws w

theorem lstrip_ws (w t : Text) (h : Ws w) : lstrip (w ++ t) = lstrip t := by
  induction w with
  | nil => rfl
  | cons c cs ih =>
    have hc := h c (by simp)
    simp only [List.cons_append, lstrip, hc, if_true]
    exact ih (fun x hx => h x (by simp [hx]))

theorem gap_cases {g : Text} (h : Gap g) : ∃ c g', g = c :: g' ∧ isSpace c = true ∧ Ws g' := by
  obtain ⟨hne, hw⟩ := h
  cases g with
  | nil => exact absurd rfl hne
  | cons c g' => exact ⟨c, g', rfl, hw c (by simp), fun x hx => hw x (by simp [hx])⟩

theorem takeNS_gap (wd more : Text) (c : Char) (hc : isSpace c = true) (hw : ∀ x ∈ wd, isSpace x = false) :
    takeNS (wd ++ c :: more) = wd ∧ dropNS (wd ++ c :: more) = c :: more := by
  induction wd with
  | nil => simp [takeNS, dropNS, hc]
  | cons x xs ih =>
    have := ih (fun y hy => hw y (by simp [hy]))
    simp [takeNS, dropNS, hw x (by simp), this]

theorem consumeWord_gap (wd g more : Text) (hw : Word wd) (hg : Gap g) :
    consumeWord (wd ++ (g ++ more)) = .ok (wd, lstrip more) := by
  obtain ⟨c, g', rfl, hc, hg'⟩ := gap_cases hg
  obtain ⟨hne, hcs⟩ := hw
  have ⟨h1, h2⟩ := takeNS_gap wd (g' ++ more) c hc hcs
  unfold consumeWord
  simp only [List.cons_append]
  rw [h1, h2]
  cases wd with
  | nil => exact absurd rfl hne
  | cons x xs => simp [lstrip, hc, lstrip_ws g' more hg']

theorem fjoin_cons2 (sep a b : Text) (l : List Text) :
    fjoin sep (a :: b :: l) = a ++ ',' :: (sep ++ fjoin sep (b :: l)) := rfl

theorem fjoin_headOk (ty sep : Text) (x : Scalar) (xs : List Scalar) (h : ScalarOk ty x) :
    HeadOk (fjoin sep ((x :: xs).map encode)) := by
  cases xs with
  | nil => simpa [fjoin] using encode_headOk ty x h
  | cons y ys =>
    simp only [List.map_cons, fjoin_cons2]
    exact headOk_append _ _ (encode_headOk ty x h)

theorem afterValue_comma_ws (sep J : Text) (hs : Ws sep) (h : HeadOk J) : afterValue (',' :: (sep ++ J)) = J := by
  have h1 : lstrip (',' :: (sep ++ J)) = ',' :: (sep ++ J) := by simp [lstrip, isSpace]
  have h2 : lstrip (sep ++ J) = J := by rw [lstrip_ws sep J hs, lstrip_headOk J h]
  simp [afterValue, h1, peekChar, h2]

theorem values_fjoin (ty sep : Text) (xs : List Scalar) (rest : Text) (hs : Ws sep) :
    (∀ x ∈ xs, ScalarOk ty x) → ∀ fuel, xs.length < fuel →
    values ty fuel (fjoin sep (xs.map encode) ++ ';' :: rest) = .ok (xs, ';' :: rest) := by
  induction xs with
  | nil =>
    intro _ fuel hf
    cases fuel with
    | zero => omega
    | succ f => simp [fjoin, values, peekChar]
  | cons x xs ih =>
    intro h fuel hf
    have hx := h x (by simp)
    have hxs : ∀ y ∈ xs, ScalarOk ty y := fun y hy => h y (by simp [hy])
    cases fuel with
    | zero => omega
    | succ f =>
      have hf' : xs.length < f := by simp at hf; omega
      have ihf := ih hxs f hf'
      cases xs with
      | nil =>
        have e1 : afterValue (';' :: rest) = ';' :: rest := by simp [afterValue, lstrip, isSpace, peekChar]
        have := values_step ty x f (';' :: rest) hx (by simp [notSep])
        simp only [List.map_cons, List.map_nil, fjoin, List.nil_append] at ihf ⊢
        rw [this, e1, ihf]
      | cons y ys =>
        have hy := h y (by simp)
        have hJ : HeadOk (fjoin sep ((y :: ys).map encode) ++ ';' :: rest) :=
          headOk_append _ _ (fjoin_headOk ty sep y ys hy)
        have eq1 : fjoin sep ((x :: y :: ys).map encode) ++ ';' :: rest
            = encode x ++ ',' :: (sep ++ (fjoin sep ((y :: ys).map encode) ++ ';' :: rest)) := by
          simp only [List.map_cons, fjoin_cons2, List.append_assoc, List.cons_append]
        have e2 := afterValue_comma_ws sep _ hs hJ
        have := values_step ty x f (',' :: (sep ++ (fjoin sep ((y :: ys).map encode) ++ ';' :: rest))) hx
          (by simp [notSep])
        rw [eq1, this, e2, ihf]

theorem length_fjoin_ge (ty sep : Text) (xs : List Scalar) (h : ∀ x ∈ xs, ScalarOk ty x) :
    xs.length ≤ (fjoin sep (xs.map encode)).length := by
  induction xs with
  | nil => simp
  | cons x xs ih =>
    have hx := encode_headOk ty x (h x (by simp))
    obtain ⟨c, cs, he, _, _⟩ := hx
    have := ih (fun y hy => h y (by simp [hy]))
    cases xs with
    | nil => simp [fjoin, he]
    | cons y ys =>
      simp only [List.map_cons, fjoin_cons2] at this ⊢
      simp only [List.length_append, List.length_cons, he] at this ⊢
      omega

theorem lstrip_word (w t : Text) (h : Word w) : lstrip (w ++ t) = w ++ t := by
  obtain ⟨hne, hc⟩ := h
  cases w with
  | nil => exact absurd rfl hne
  | cons c cs => simp [lstrip, hc c (by simp)]

/-- `DASParser.attribute` on an attribute written with any white space -/
theorem parseAttribute_fline (ty k : Text) (xs : List Scalar) (w1 w2 sep w3 rest : Text)
    (hty : Word ty) (hk : Word k) (g1 : Gap w1) (g2 : Gap w2) (hs : Ws sep) (h3 : Ws w3)
    (hx : ∀ x ∈ xs, ScalarOk ty x) :
    parseAttribute (ty ++ (w1 ++ (k ++ (w2 ++ (fjoin sep (xs.map encode) ++ ';' :: (w3 ++ rest))))))
      = .ok (k, unwrap xs, lstrip rest) := by
  have hJ : lstrip (fjoin sep (xs.map encode) ++ ';' :: (w3 ++ rest))
      = fjoin sep (xs.map encode) ++ ';' :: (w3 ++ rest) := by
    cases xs with
    | nil => simp [fjoin, lstrip, isSpace]
    | cons x xs => exact lstrip_headOk _ (headOk_append _ _ (fjoin_headOk ty sep x xs (hx x (by simp))))
  have hv := values_fjoin ty sep xs (w3 ++ rest) hs hx
    ((fjoin sep (xs.map encode) ++ ';' :: (w3 ++ rest)).length + 1)
    (by have := length_fjoin_ge ty sep xs hx; simp only [List.length_append, List.length_cons]; omega)
  unfold parseAttribute
  rw [consumeWord_gap ty w1 _ hty g1]
  simp only [lstrip_word k _ hk]
  rw [consumeWord_gap k w2 _ hk g2]
  simp only [hJ, hv]
  simp [consumeChar, lstrip_ws w3 rest h3]

mutual
def FItemOk : FItem → Prop
  | .attr ty k xs w1 w2 sep w3 =>
    NameOk ty ∧ NameOk k ∧ (∀ x ∈ xs, ScalarOk ty x) ∧ Gap w1 ∧ Gap w2 ∧ Ws sep ∧ Ws w3
  | .cont n its w1 w2 w3 => NameOk n ∧ FItemsOk its ∧ Gap w1 ∧ Ws w2 ∧ Ws w3
def FItemsOk : List FItem → Prop
  | [] => True
  | it :: more => FItemOk it ∧ FItemsOk more
end

mutual
def fneedItem : FItem → Nat
  | .attr _ _ _ _ _ _ _ => 0
  | .cont _ sub _ _ _ => fneedItems sub + 1
def fneedItems : List FItem → Nat
  | [] => 0
  | it :: more => fneedItem it + fneedItems more + 1
end

theorem peekContainer_fattr (ty k g more : Text) (hty : NameOk ty) (hk : NameOk k) (hg : Gap g) :
    peekContainer (ty ++ (g ++ (k ++ more))) = false := by
  obtain ⟨c, g', rfl, hc, hg'⟩ := gap_cases hg
  have ⟨h1, h2⟩ := takeNS_gap ty (g' ++ (k ++ more)) c hc (fun x hx => (hty.2 x hx).1)
  unfold peekContainer
  simp only [List.cons_append]
  rw [h1, h2]
  obtain ⟨hne, _⟩ := hty
  cases ty with
  | nil => exact absurd rfl hne
  | cons x xs => simp only [lstrip_ws g' _ hg', lstrip_name k more hk, (peek_name k more hk).2]

theorem peekContainer_fcont (n g more : Text) (hn : NameOk n) (hg : Gap g) :
    peekContainer (n ++ (g ++ '{' :: more)) = true := by
  obtain ⟨c, g', rfl, hc, hg'⟩ := gap_cases hg
  have ⟨h1, h2⟩ := takeNS_gap n (g' ++ '{' :: more) c hc (fun x hx => (hn.2 x hx).1)
  unfold peekContainer
  simp only [List.cons_append]
  rw [h1, h2]
  obtain ⟨hne, _⟩ := hn
  cases n with
  | nil => exact absurd rfl hne
  | cons x xs => simp [lstrip_ws g' _ hg', lstrip, isSpace, peekChar]

theorem fitems_close (f : Nat) (rest : Text) (acc : Dict) :
    items (f + 1) (lstrip ('}' :: rest)) acc = .ok (acc, lstrip rest) := by
  have e : lstrip ('}' :: rest) = '}' :: rest := by simp [lstrip, isSpace]
  rw [e]
  simp [items, peekChar]

theorem fitems_attr_step (f : Nat) (ty k : Text) (xs : List Scalar) (w1 w2 sep w3 R : Text) (acc : Dict)
    (hty : NameOk ty) (hk : NameOk k) (hx : ∀ x ∈ xs, ScalarOk ty x)
    (g1 : Gap w1) (g2 : Gap w2) (hs : Ws sep) (h3 : Ws w3) :
    items (f + 1) (lstrip (frenderItem (.attr ty k xs w1 w2 sep w3) ++ R)) acc
      = items f (lstrip R) (dset acc k (unwrap xs)) := by
  have e : frenderItem (.attr ty k xs w1 w2 sep w3) ++ R
      = ty ++ (w1 ++ (k ++ (w2 ++ (fjoin sep (xs.map encode) ++ ';' :: (w3 ++ R))))) := by
    simp [frenderItem, List.append_assoc]
  have hp := parseAttribute_fline ty k xs w1 w2 sep w3 R hty.word hk.word g1 g2 hs h3 hx
  rw [e, lstrip_name ty _ hty]
  have h1 := (peek_name ty (w1 ++ (k ++ (w2 ++ (fjoin sep (xs.map encode) ++ ';' :: (w3 ++ R))))) hty).1
  have h2 := peekContainer_fattr ty k w1 (w2 ++ (fjoin sep (xs.map encode) ++ ';' :: (w3 ++ R))) hty hk g1
  rw [items]
  simp only [h1, h2, hp]
  simp

theorem fitems_cont_step (f : Nat) (n : Text) (sub : List FItem) (w1 w2 w3 R : Text) (acc D : Dict)
    (hn : NameOk n) (g1 : Gap w1) (h2w : Ws w2) (h3 : Ws w3)
    (hsub : items f (lstrip (frenderItems sub ++ '}' :: (w3 ++ R))) [] = .ok (D, lstrip (w3 ++ R))) :
    items (f + 1) (lstrip (frenderItem (.cont n sub w1 w2 w3) ++ R)) acc
      = items f (lstrip R) (dset acc n (.dict D)) := by
  have e : frenderItem (.cont n sub w1 w2 w3) ++ R
      = n ++ (w1 ++ '{' :: (w2 ++ (frenderItems sub ++ '}' :: (w3 ++ R)))) := by
    simp [frenderItem, List.append_assoc]
  rw [e, lstrip_name n _ hn]
  have h1 := (peek_name n (w1 ++ '{' :: (w2 ++ (frenderItems sub ++ '}' :: (w3 ++ R)))) hn).1
  have h2 := peekContainer_fcont n w1 (w2 ++ (frenderItems sub ++ '}' :: (w3 ++ R))) hn g1
  have h3' := consumeWord_gap n w1 ('{' :: (w2 ++ (frenderItems sub ++ '}' :: (w3 ++ R)))) hn.word g1
  have h4 : lstrip ('{' :: (w2 ++ (frenderItems sub ++ '}' :: (w3 ++ R))))
      = '{' :: (w2 ++ (frenderItems sub ++ '}' :: (w3 ++ R))) := by simp [lstrip, isSpace]
  rw [h4] at h3'
  have h5 : consumeChar '{' ('{' :: (w2 ++ (frenderItems sub ++ '}' :: (w3 ++ R))))
      = .ok (lstrip (frenderItems sub ++ '}' :: (w3 ++ R))) := by
    simp [consumeChar, lstrip_ws w2 _ h2w]
  rw [items]
  simp only [h1, h2, h3', h5, hsub, lstrip_ws w3 R h3]
  simp

mutual
theorem fitems_item : (it : FItem) → (R : Text) → (acc : Dict) → (f : Nat) →
    FItemOk it → fneedItem it ≤ f →
    items (f + 1) (lstrip (frenderItem it ++ R)) acc
      = items f (lstrip R) (dset acc (denoteItem (eraseItem it)).1 (denoteItem (eraseItem it)).2)
  | .attr ty k xs w1 w2 sep w3, R, acc, f, hok, _ => by
    simp only [FItemOk] at hok
    simpa [eraseItem, denoteItem] using
      fitems_attr_step f ty k xs w1 w2 sep w3 R acc hok.1 hok.2.1 hok.2.2.1 hok.2.2.2.1 hok.2.2.2.2.1
        hok.2.2.2.2.2.1 hok.2.2.2.2.2.2
  | .cont n sub w1 w2 w3, R, acc, f, hok, hf => by
    simp only [FItemOk] at hok
    simp only [fneedItem] at hf
    have ih := fitems_list sub (w3 ++ R) [] f hok.2.1 (by omega)
    simpa [eraseItem, denoteItem] using
      fitems_cont_step f n sub w1 w2 w3 R acc _ hok.1 hok.2.2.1 hok.2.2.2.1 hok.2.2.2.2 ih
theorem fitems_list : (its : List FItem) → (rest : Text) → (acc : Dict) → (f : Nat) →
    FItemsOk its → fneedItems its + 1 ≤ f →
    items f (lstrip (frenderItems its ++ '}' :: rest)) acc
      = .ok (denoteItems acc (eraseItems its), lstrip rest)
  | [], rest, acc, f, _, hf => by
    obtain ⟨g, rfl⟩ : ∃ g, f = g + 1 := ⟨f - 1, by omega⟩
    simpa [frenderItems, eraseItems, denoteItems] using fitems_close g rest acc
  | it :: more, rest, acc, f, hok, hf => by
    simp only [FItemsOk] at hok
    simp only [fneedItems] at hf
    obtain ⟨g, rfl⟩ : ∃ g, f = g + 1 := ⟨f - 1, by omega⟩
    have e : frenderItems (it :: more) ++ '}' :: rest
        = frenderItem it ++ (frenderItems more ++ '}' :: rest) := by
      simp [frenderItems, List.append_assoc]
    rw [e, fitems_item it _ acc g hok.1 (by omega), fitems_list more rest _ g hok.2 (by omega)]
    simp [eraseItems, denoteItems]
end

mutual
theorem fneedItem_len : (it : FItem) → fneedItem it + 1 ≤ (frenderItem it).length
  | .attr ty k xs w1 w2 sep w3 => by simp [fneedItem, frenderItem]; omega
  | .cont n sub w1 w2 w3 => by
    have := fneedItems_len sub
    simp only [fneedItem, frenderItem, List.length_append, List.length_cons]
    omega
theorem fneedItems_len : (its : List FItem) → fneedItems its ≤ (frenderItems its).length
  | [] => by simp [fneedItems]
  | it :: more => by
    have h1 := fneedItem_len it
    have h2 := fneedItems_len more
    simp only [fneedItems, frenderItems, List.length_append]
    omega
end

theorem dropPrefixCI_kw (kw : Text) : ∀ (p rest : Text), lower kw = p → dropPrefixCI p (kw ++ rest) = some rest := by
  induction kw with
  | nil => intro p rest h; simp [lower] at h; subst h; rfl
  | cons c cs ih =>
    intro p rest h
    cases p with
    | nil => simp [lower] at h
    | cons q qs =>
      simp only [lower, List.map_cons, List.cons.injEq] at h
      simp only [List.cons_append, dropPrefixCI, h.1, if_true]
      exact ih qs rest h.2

/-- **`parse_das` on a whole foreign text** -/
theorem fparse (kw w0 w1 : Text) (its : List FItem) (trail : Text)
    (hkw : lower kw = "attributes".toList) (h0 : Ws w0) (h1 : Ws w1) (hok : FItemsOk its) :
    dasParse (ftext kw w0 w1 its trail) = .ok (denoteItems [] (eraseItems its)) := by
  have hlen := fneedItems_len its
  unfold dasParse
  have hf : fneedItems its + 1 ≤ (ftext kw w0 w1 its trail).length + 1 := by
    simp only [ftext, List.length_append, List.length_cons]; omega
  generalize (ftext kw w0 w1 its trail).length + 1 = fuel at hf
  unfold parseFuel ftext
  rw [dropPrefixCI_kw kw _ _ hkw]
  have e2 : consumeChar '{' (lstrip (w0 ++ '{' :: (w1 ++ (frenderItems its ++ '}' :: trail))))
      = .ok (lstrip (frenderItems its ++ '}' :: trail)) := by
    rw [lstrip_ws w0 _ h0]
    simp [lstrip, isSpace, consumeChar, lstrip_ws w1 _ h1]
  simp only [e2, fitems_list its trail [] fuel hok hf]

/-- example text `ATTRIBUTES{a {URL u "v";float32\tx\n1.0,2.5;}}` as decorated nodes -/
def exF : List FItem :=
  [.cont "a".toList
    [.attr "URL".toList "u".toList [.str "v".toList] " ".toList " ".toList [] [],
     .attr "float32".toList "x".toList [.num "1.0".toList true, .num "2.5".toList true] "\t".toList "\n".toList [] []]
    " ".toList [] []]

end Pydap.Das
