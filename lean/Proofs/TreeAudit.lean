/-
  C12 — round 7 (theorem audit): lemmas that close gaps between the theorems and the text of the property.

  * `quote_alphabet_scope`: names of the property's alphabet (no `.`, no `%`) are inside `Op.scope`, `dap4…` names
    included — the guard of the history theorems restated on the *inputs*;
  * `Below`: every object of a tree at any depth, with the invariant — "every container", not only the roots;
  * `keys_remove`, `modifyAt_below_listing`: deletion erases one key and keeps the order of the others; an edit below
    a container leaves its own listing alone (with `setItem_visible`: the complete stepwise account of the order);
  * `selectStruct_shares`, `selectGrid_shares`, `select_step_shares`: a Structure/Dataset/Grid sub-selection has the data
    objects of its source;
  * `keysOf_once`: `keys()` has exactly the visible keys, each once; `walkIds_below`: `walk()` yields exactly the ids of
    the objects `Below` the root.
-/
import Proofs.TreeLookup
import Proofs.TreeChildren
namespace Pydap.Tree
open Pydap.Quote

/-! ### names of the property's alphabet are inside the scope of the history theorems -/

theorem rep3_cons_ne' {α} [DecidableEq α] (a b c r : α) {x : α} (h : x ≠ a) (t : List α) :
    rep3 a b c r (x :: t) = x :: rep3 a b c r t := by
  match t with
  | [] => simp [rep3]
  | [y] => simp [rep3]
  | y :: z :: t' => rw [rep3]; simp [h]

theorem rep3_cons_pat_ne {α} [DecidableEq α] (a b c r : α) {y z : α} (h : ¬ (y = b ∧ z = c)) (t : List α) :
    rep3 a b c r (a :: y :: z :: t) = a :: rep3 a b c r (y :: z :: t) := by
  rw [rep3]; simp [h]

/-- the shape of what `_quote` makes of one byte other than `%` and `.`: the byte itself, or `%XY` with `XY ≠ 2E` -/
def encShape : Bytes → Bool
  | [x] => x != 37 && x != 46
  | [x, y, z] => x == 37 && y != 37 && z != 37 && !(y == 50 && z == 69) && y != 46 && z != 46
  | _ => false

set_option maxRecDepth 100000 in
theorem encB_shape : ∀ b : UInt8, b = 37 ∨ b = 46 ∨ encShape (encB b) = true := by
  apply forall_byte
  decide

theorem chr_inj {x y : UInt8} (h : ([x] : Chr) = [y]) : x = y := by simpa using h

/-- one encoded byte in front: the `%2E → .` pass of `DatasetType.__setitem__` leaves it alone, and it has no `.` -/
theorem rep3_encShape (e : Bytes) (he : encShape e = true) (t : Str) :
    rep3 [37] [50] [69] dot (chars e ++ t) = chars e ++ rep3 [37] [50] [69] dot t ∧ dot ∉ chars e := by
  match e, he with
  | [x], he =>
    simp only [encShape, Bool.and_eq_true, bne_iff_ne, ne_eq] at he
    refine ⟨?_, ?_⟩
    · show rep3 [37] [50] [69] dot ([x] :: t) = [x] :: _
      exact rep3_cons_ne' _ _ _ _ (fun h => he.1 (chr_inj h)) t
    · simp only [chars, List.map_cons, List.map_nil, List.mem_singleton, dot]
      intro h; exact he.2 (chr_inj h).symm
  | [x, y, z], he =>
    simp only [encShape, Bool.and_eq_true, bne_iff_ne, ne_eq, beq_iff_eq, Bool.not_eq_true', Bool.and_eq_false_iff] at he
    obtain ⟨⟨⟨⟨⟨hx, hy⟩, hz⟩, hyz⟩, hy46⟩, hz46⟩ := he
    subst hx
    refine ⟨?_, ?_⟩
    · show rep3 [37] [50] [69] dot ([37] :: [y] :: [z] :: t) = [37] :: [y] :: [z] :: _
      have hne : ¬ (([y] : Chr) = [50] ∧ ([z] : Chr) = [69]) := by
        intro h
        rcases hyz with h1 | h1
        · exact absurd (chr_inj h.1) (by simpa using h1)
        · exact absurd (chr_inj h.2) (by simpa using h1)
      rw [rep3_cons_pat_ne _ _ _ _ hne, rep3_cons_ne' _ _ _ _ (fun h => hy (chr_inj h)), rep3_cons_ne' _ _ _ _ (fun h => hz (chr_inj h))]
      rfl
    · simp only [chars, List.map_cons, List.map_nil, List.mem_cons, dot, List.not_mem_nil, or_false, not_or]
      exact ⟨by decide, fun h => hy46 (chr_inj h).symm, fun h => hz46 (chr_inj h).symm⟩

theorem rep3_Q (bs : Bytes) (h37 : (37 : UInt8) ∉ bs) (h46 : (46 : UInt8) ∉ bs) :
    rep3 [37] [50] [69] dot (chars (Q bs)) = chars (Q bs) ∧ dot ∉ chars (Q bs) := by
  induction bs with
  | nil => exact ⟨rfl, by simp [Q, chars]⟩
  | cons b t ih =>
    simp only [List.mem_cons, not_or] at h37 h46
    obtain ⟨i1, i2⟩ := ih h37.2 h46.2
    have hs : encShape (encB b) = true := by
      rcases encB_shape b with h | h | h
      · exact absurd h.symm h37.1
      · exact absurd h.symm h46.1
      · exact h
    have hq : Q (b :: t) = encB b ++ Q t := by simp [Q]
    obtain ⟨j1, j2⟩ := rep3_encShape (encB b) hs (chars (Q t))
    rw [hq, chars_append, j1, i1]
    refine ⟨rfl, ?_⟩
    simp only [List.mem_append, not_or]
    exact ⟨j2, i2⟩

/-- a prefix of characters none of which is `%` or `.` is skipped by the `%2E → .` pass -/
theorem rep3_prefix (pre t : Str) (h : ∀ c ∈ pre, c ≠ [37]) :
    rep3 [37] [50] [69] dot (pre ++ t) = pre ++ rep3 [37] [50] [69] dot t := by
  induction pre with
  | nil => rfl
  | cons c p ih =>
    rw [List.cons_append, rep3_cons_ne' _ _ _ _ (h c (by simp)), ih (fun c hc => h c (by simp [hc]))]
    rfl

/-- **the property's name alphabet lies inside the scope**: a name none of whose characters contains the byte of
    `.` (the excluded path separator) or of `%` (not in the alphabet: identifiers, space, brackets, `&`, non-ASCII)
    is quoted to a name without `.` and without a literal `%2E` — `dap4…` names included -/
theorem quote_alphabet_scope (name : Str) (h : ∀ c ∈ name, (37 : UInt8) ∉ c ∧ (46 : UInt8) ∉ c) :
    (quote name).contains dot = false ∧ nameEsc (quote name) = true := by
  have hfl : ∀ (s : Str), (∀ c ∈ s, c ∈ name) → (37 : UInt8) ∉ s.flatten ∧ (46 : UInt8) ∉ s.flatten := by
    intro s hs
    constructor <;> (simp only [List.mem_flatten, not_exists, not_and]; intro c hc)
    · exact (h c (hs c hc)).1
    · exact (h c (hs c hc)).2
  have key : rep3 [37] [50] [69] dot (quote name) = quote name ∧ dot ∉ quote name := by
    rw [quote_eq]
    generalize hpre : (if name.take 4 == dap4 then name.take 8 else []) = pre
    generalize hrest : (if name.take 4 == dap4 then name.drop 8 else name) = rest
    have hp : ∀ c ∈ pre, c ∈ name := by
      intro c hc; rw [← hpre] at hc
      split at hc
      · exact List.mem_of_mem_take hc
      · cases hc
    have hr : ∀ c ∈ rest, c ∈ name := by
      intro c hc; rw [← hrest] at hc
      split at hc
      · exact List.mem_of_mem_drop hc
      · exact hc
    obtain ⟨a, b⟩ := hfl rest hr
    obtain ⟨q1, q2⟩ := rep3_Q rest.flatten a b
    have hp37 : ∀ c ∈ pre, c ≠ [37] := by
      intro c hc e; subst e
      exact (h _ (hp _ hc)).1 (by simp)
    rw [rep3_prefix pre _ hp37, q1]
    refine ⟨rfl, ?_⟩
    simp only [List.mem_append, not_or]
    refine ⟨fun hd => ?_, q2⟩
    exact (h _ (hp _ hd)).2 (by simp [dot])
  obtain ⟨k1, k2⟩ := key
  have hc : (quote name).contains dot = false := by simpa using k2
  refine ⟨hc, ?_⟩
  simp only [nameEsc, k1, splitOn_free dot _ hc, List.length_cons, List.length_nil, beq_self_eq_true]


/-! ### every object of a tree, at any depth -/

/-- `Below root v`: `v` is `root` or is reached from it through listed children (any classes on the way) -/
inductive Below (root : Obj) : Obj → Prop
  | self : Below root root
  | child {p c} : Below root p → childOf p c → Below root c

theorem Below.invO {root v : Obj} (h : Below root v) (hr : invO root) : invO v := by
  induction h with
  | self => exact hr
  | child _ hc ih => exact (childOf_facts _ _ ih hc).1

theorem Below.of_chain {root v : Obj} {ns : List Str} (h : Chain root ns v) : Below root v := by
  induction h with
  | child h0 => exact .child .self h0
  | step _ _ hc ih => exact .child ih hc

/-! ### `del` and edits below: what happens to the listing of a container -/

theorem keys_remove (k : Str) (f : Forest) : (f.remove k).keys = f.keys.erase k := by
  induction f with
  | nil => rfl
  | cons h kids rest _ ih =>
    simp only [Forest.remove, Forest.keys]
    by_cases e : h.name = k
    · simp [e]
    · rw [if_neg e, List.erase_cons_tail (by simpa using e)]
      simp [Forest.keys, ih]

/-- an edit strictly below a container leaves the container's own header (name, id, visible keys, attributes, data,
    identity) and the order of its `_dict` keys alone -/
theorem modifyAt_below_listing (g : Obj → Except Err Obj)
    (hg : ∀ o r, invO o → g o = .ok r → invO r ∧ sameHead o r) (k : Str) (ks : List Str)
    (o r : Obj) (ho : invO o) (h : modifyAt g (k :: ks) o = .ok r) :
    r.hdr = o.hdr ∧ r.kids.keys = o.kids.keys := by
  simp only [modifyAt] at h
  split at h; · cases h
  split at h; · cases h
  cases hu : o.kids.update (quote k) (modifyAt g ks) with
  | error e => rw [hu] at h; cases h
  | ok kids' =>
    rw [hu] at h
    cases h
    obtain ⟨hs, hi⟩ := ho
    rw [shapeO_parts] at hs
    obtain ⟨_, _, _, _, e⟩ := hs
    obtain ⟨_, _, u3⟩ := update_inv _ _ _ _ _ _ _ e hi (modifyAt_inv g hg ks) hu
    exact ⟨rfl, u3⟩

/-! ### selection on a Structure / Dataset shares the data of its source -/

theorem entry_stripV (a b : Hdr) (h : stripV a = stripV b) : entry a = entry b := by
  cases a; cases b
  simp only [stripV, Hdr.mk.injEq] at h
  obtain ⟨_, h2, h3, _, _, h6, h7⟩ := h
  simp [entry, h2, h3, h6, h7]

theorem selectStruct_shares (next : Nat) (o r : Obj) (keys : List Str) (n : Nat) (ho : invE o)
    (h : selectStruct next o keys = .ok (r, n)) :
    nameId r = nameId o ∧ contentsO r = contentsO o ∧ r.hdr.visible = dedup (keys.map quote)
    ∧ ∀ k ∈ r.hdr.visible, k ∈ r.kids.keys := by
  have hv : r.hdr.visible = dedup (keys.map quote) ∧ ∀ k ∈ r.hdr.visible, k ∈ r.kids.keys := by
    unfold selectStruct at h
    simp only [bind, Except.bind] at h
    cases hc : copyObj next o with
    | error e => rw [hc] at h; cases h
    | ok p =>
      obtain ⟨out, n1⟩ := p
      rw [hc] at h; simp only at h
      split at h
      · rename_i hall
        simp only [pure, Except.pure] at h
        cases h
        refine ⟨rfl, ?_⟩
        intro k hk
        have hk' := mem_dedup _ k hk
        simp only [List.all_eq_true] at hall
        exact find?_isSome_mem k out.kids (hall k hk')
      · cases h
  obtain ⟨c, hc, hk, hh⟩ := selectStruct_spec next o r keys n h
  obtain ⟨_, _, g3, g4⟩ := copyObj_spec next o c n ho hc
  refine ⟨?_, ?_, hv.1, hv.2⟩
  · rw [← g3]
    have : r.hdr.name = c.hdr.name ∧ r.hdr.id = c.hdr.id := by
      cases hr : r.hdr; cases hcc : c.hdr
      rw [hr, hcc] at hh
      simp only [stripV, Hdr.mk.injEq] at hh
      exact ⟨hh.2.2.1, hh.2.2.2.1⟩
    simp [nameId, this.1, this.2]
  · rw [← g4]
    simp only [contentsO, hk, entry_stripV _ _ hh]



/-! ### Grid (and Sequence) selection: every child of the result is a copy of a named child of the source -/

theorem objs_remove (k : Str) (f : Forest) : ∀ x, x ∈ (f.remove k).objs → x ∈ f.objs := by
  induction f with
  | nil => intro x h; exact h
  | cons h0 kids rest _ ihr =>
    intro x h
    simp only [Forest.remove] at h
    split at h
    · simp only [Forest.objs, List.mem_cons]; exact Or.inr h
    · simp only [Forest.objs, List.mem_cons] at h ⊢
      rcases h with h | h
      · exact Or.inl h
      · exact Or.inr (ihr x h)

theorem objs_put (o : Obj) (f : Forest) : ∀ x, x ∈ (f.put o).objs → x = o ∨ x ∈ f.objs := by
  induction f with
  | nil => intro x h; simp only [Forest.put, Forest.objs, List.mem_singleton] at h; exact Or.inl h
  | cons h0 kids rest _ ihr =>
    intro x h
    simp only [Forest.put] at h
    split at h
    · simp only [Forest.objs, List.mem_cons] at h ⊢
      rcases h with h | h
      · exact Or.inl h
      · exact Or.inr (Or.inr h)
    · simp only [Forest.objs, List.mem_cons] at h ⊢
      rcases h with h | h
      · exact Or.inr (Or.inl h)
      · rcases ihr x h with h | h
        · exact Or.inl h
        · exact Or.inr (Or.inr h)

theorem setId_contents (item r : Obj) (nid : Str) (h : setId item nid = .ok r) : contentsO r = contentsO item := by
  rw [setId_eq item r nid h]
  simp only [contentsO, setIdKids_contents, entry]

theorem setItem_objs (o item r : Obj) (key : Str) (h : setItem o key item = .ok r) :
    ∀ x, x ∈ r.kids.objs → x ∈ o.kids.objs ∨ contentsO x = contentsO item := by
  obtain ⟨_, _, nid, it, h1, h2⟩ := setItem_decomp o item r key h
  obtain ⟨o1, h3, hr⟩ := insertItem_eq o it r _ h2
  intro x hx
  rw [hr] at hx
  rcases objs_put it _ x hx with hx | hx
  · exact Or.inr (by rw [hx]; exact setId_contents item it nid h1)
  · rcases h3 with h3 | h3
    · rw [h3] at hx; exact Or.inl hx
    · rw [delItem_eq o o1 _ h3] at hx
      exact Or.inl (objs_remove _ _ x hx)

theorem selectInto_objs (keys : List Str) : ∀ next shell o r n, invE o →
    selectInto next shell o keys = .ok (r, n) →
    ∀ x, x ∈ r.kids.objs → x ∈ shell.kids.objs ∨ ∃ k ∈ keys, ∃ c, getItem o k = .ok c ∧ contentsO x = contentsO c := by
  induction keys with
  | nil =>
    intro next shell o r n _ h x hx
    simp only [selectInto] at h; cases h
    exact Or.inl hx
  | cons k ks ih =>
    intro next shell o r n ho h x hx
    simp only [selectInto, bind, Except.bind] at h
    cases hg : getItem o k with
    | error e => rw [hg] at h; cases h
    | ok c =>
      rw [hg] at h; simp only at h
      cases hc : copyObj next c with
      | error e => rw [hc] at h; cases h
      | ok p =>
        obtain ⟨cc, n1⟩ := p
        rw [hc] at h; simp only at h
        cases hset : setItem shell k cc with
        | error e => rw [hset] at h; cases h
        | ok shell' =>
          rw [hset] at h; simp only at h
          have hcc := (copyObj_spec next c cc n1 (getItem_invE o c k ho hg) hc).2.2.2
          rcases ih _ _ _ _ _ ho h x hx with hx' | ⟨k', hk', c', hg', hx'⟩
          · rcases setItem_objs shell cc shell' k hset x hx' with hx'' | hx''
            · exact Or.inl hx''
            · exact Or.inr ⟨k, by simp, c, hg, by rw [hx'', hcc]⟩
          · exact Or.inr ⟨k', by simp [hk'], c', hg', hx'⟩

/-- **`grid[(name, …)]` shares data**: every child stored in the selection is a copy of a child `grid[k]` of the source
    for one of the given names `k` — same name, class, attribute values and the very same data object -/
theorem selectGrid_shares (next : Nat) (o r : Obj) (keys : List Str) (n : Nat) (ho : invE o)
    (h : selectGrid next o keys = .ok (r, n)) :
    ∀ x, x ∈ r.kids.objs → ∃ k ∈ keys, ∃ c, getItem o k = .ok c ∧ contentsO x = contentsO c := by
  unfold selectGrid at h
  simp only [bind, Except.bind] at h
  split at h; · cases h
  split at h; · cases h
  cases hch : children o with
  | error e => rw [hch] at h; cases h
  | ok ds =>
    rw [hch] at h; simp only at h
    split at h
    · cases h
    · rename_i p hi
      obtain ⟨out, n1⟩ := p
      simp only at h
      split at h; · cases h
      simp only [pure, Except.pure] at h; cases h
      intro x hx
      rcases selectInto_objs keys _ _ _ _ _ ho hi x hx with hx' | hx'
      · simp [setAttr, mkObj, Forest.objs] at hx'
      · exact hx'

/-! ### the alphabet of the property as a guard on histories -/

/-- no character of the name contains the byte of `%` or of `.` -/
def nameAlpha (name : Str) : Bool := name.all (fun c => !c.contains 37 && !c.contains 46)

/-- the names a history constructs variables with are names of the property's alphabet (identifiers, space,
    brackets, `&`, non-ASCII, … — anything but `.` and `%`; `/` is allowed here) -/
def Op.alphabet : Op → Bool
  | .new _ name _ => nameAlpha name
  | _ => true

theorem nameAlpha_iff (name : Str) : nameAlpha name = true ↔ ∀ c ∈ name, (37 : UInt8) ∉ c ∧ (46 : UInt8) ∉ c := by
  simp [nameAlpha, List.all_eq_true]

theorem Op.scope_of_alphabet (op : Op) (h : op.alphabet = true) : op.scope = true := by
  cases op with
  | new k name a =>
    obtain ⟨a1, a2⟩ := quote_alphabet_scope name ((nameAlpha_iff name).1 h)
    simp only [Op.scope, a1, a2]; rfl
  | _ => rfl

/-- **`handle[path][(name, …)]`** succeeds ⇒ one new handle, all its objects new; and when the source is a Structure
    or a Dataset the selection has name, id and — child by child, hidden ones included — the names, classes, attribute
    values and the very data objects of its source, and lists exactly the named children (quoted, first occurrence) -/
theorem select_step_shares (s s' : State) (hh : Nat) (path keys : List Str)
    (hs : Good s) (h : stepE s (.select hh path keys) = .ok s') :
    ∃ o src r, s.get hh = .ok o ∧ navigate path o = .ok src ∧ s'.handles = s.handles ++ [some r]
      ∧ (∀ x ∈ r.oids, s.next ≤ x ∧ x ∉ s.oids)
      ∧ (src.hdr.kind = .struct ∨ src.hdr.kind = .dataset →
          nameId r = nameId src ∧ contentsO r = contentsO src ∧ r.hdr.visible = dedup (keys.map quote)
          ∧ ∀ k ∈ r.hdr.visible, k ∈ r.kids.keys)
      ∧ (src.hdr.kind = .grid →
          ∀ x, x ∈ r.kids.objs → ∃ k ∈ keys, ∃ c, getItem src k = .ok c ∧ contentsO x = contentsO c) := by
  obtain ⟨r, hr, hf⟩ := select_fresh_step s s' hh path keys hs h
  simp only [stepE, bind, Except.bind, pure, Except.pure] at h
  cases h1 : s.get hh with
  | error e => rw [h1] at h; cases h
  | ok o =>
    rw [h1] at h; simp only at h
    cases h2 : navigate path o with
    | error e => rw [h2] at h; cases h
    | ok c =>
      rw [h2] at h; simp only at h
      cases h3 : select s.next c keys with
      | error e => rw [h3] at h; cases h
      | ok p =>
        obtain ⟨r', n⟩ := p
        rw [h3] at h; cases h
        have hrr : r' = r := by
          have := List.append_cancel_left hr
          simpa using this
        subst hrr
        have hc := navigate_invE path o c (get_invE s hh o hs h1) h2
        refine ⟨o, c, r', rfl, h2, rfl, hf, ?_, ?_⟩
        · intro hk
          have hsel : selectStruct s.next c keys = .ok (r', n) := by
            unfold select at h3
            rcases hk with hk | hk <;> (rw [hk] at h3; exact h3)
          exact selectStruct_shares s.next c r' keys n hc hsel
        · intro hk
          have hsel : selectGrid s.next c keys = .ok (r', n) := by
            unfold select at h3
            rw [hk] at h3; exact h3
          exact selectGrid_shares s.next c r' keys n hc hsel

/-- **`keys()` lists every visible child once**: for an object satisfying the invariant, `keys()` (dict order for a
    Structure/Grid/Dataset, the visible keys themselves for a Sequence) has no duplicates and has exactly the visible
    keys as elements -/
theorem keysOf_once (o : Obj) (ho : invO o) :
    (keysOf o).Nodup ∧ ∀ k, k ∈ keysOf o ↔ k ∈ o.hdr.visible := by
  obtain ⟨_, _, hv, _, hk⟩ := (shapeO_parts o).1 ho.1
  simp only [visOk, Bool.and_eq_true, List.all_eq_true, decide_eq_true_eq] at hv
  obtain ⟨v1, v2⟩ := hv
  unfold keysOf
  split
  · exact ⟨v2, fun _ => Iff.rfl⟩
  · refine ⟨(shapeOk_keys_nodup _ hk).filter _, fun k => ?_⟩
    simp only [List.mem_filter, List.contains_eq_mem, decide_eq_true_eq]
    constructor
    · exact fun h => h.2
    · intro h
      have := (v1 k h).1
      simp only [List.contains_eq_mem, decide_eq_true_eq] at this
      exact ⟨this, h⟩


/-! ### `walk()` reaches exactly the objects `Below` the root -/

/-- `Down o v`: `v` is reached from `o` in ≥ 1 steps through listed children (front to back) -/
inductive Down : Obj → Obj → Prop
  | child {o c} : childOf o c → Down o c
  | cons {o c v} : childOf o c → Down c v → Down o v

theorem Down.snoc {o p c : Obj} (h : Down o p) (hc : childOf p c) : Down o c := by
  induction h with
  | child h0 => exact .cons h0 (.child hc)
  | cons h0 _ ih => exact .cons h0 (ih hc)

theorem Down.toBelow {o v : Obj} (h : Down o v) : ∀ root, Below root o → Below root v := by
  induction h with
  | child h0 => intro root hb; exact .child hb h0
  | cons h0 _ ih => intro root hb; exact ih root (.child hb h0)

theorem Below.toDown {root v : Obj} (h : Below root v) : v = root ∨ Down root v := by
  induction h with
  | self => exact Or.inl rfl
  | child _ hc ih =>
    rcases ih with ih | ih
    · subst ih; exact Or.inr (.child hc)
    · exact Or.inr (ih.snoc hc)

theorem find?_depth (k : Str) (f : Forest) (c : Obj) (h : f.find? k = some c) : c.kids.depth + 1 ≤ f.depth := by
  induction f with
  | nil => cases h
  | cons h0 kids rest _ ihr =>
    simp only [Forest.find?] at h
    simp only [Forest.depth]
    split at h
    · cases h; exact Nat.le_max_left _ _
    · exact Nat.le_trans (ihr h) (Nat.le_max_right _ _)

theorem walkIdsF_sound : ∀ (fuel : Nat) (o : Obj) (id : Str), id ∈ walkIdsF o.hdr.visible fuel o.kids →
    ∃ v, Down o v ∧ v.hdr.id = id := by
  intro fuel
  induction fuel with
  | zero => intro o id h; simp [walkIdsF] at h
  | succ fuel ih =>
    intro o id h
    simp only [walkIdsF, List.mem_flatMap] at h
    obtain ⟨k, hk, hm⟩ := h
    cases hf : o.kids.find? (quote k) with
    | none => rw [hf] at hm; simp at hm
    | some c =>
      rw [hf] at hm
      simp only [List.mem_cons] at hm
      have hc : childOf o c := ⟨k, hk, hf⟩
      rcases hm with hm | hm
      · exact ⟨c, .child hc, hm.symm⟩
      · obtain ⟨v, hv, hid⟩ := ih c id hm
        exact ⟨v, .cons hc hv, hid⟩

theorem walkIdsF_complete {o v : Obj} (h : Down o v) :
    ∀ fuel, o.kids.depth < fuel → v.hdr.id ∈ walkIdsF o.hdr.visible fuel o.kids := by
  induction h with
  | @child o c h0 =>
    intro fuel hf
    obtain ⟨k, hk, hfind⟩ := h0
    cases fuel with
    | zero => omega
    | succ fuel =>
      simp only [walkIdsF, List.mem_flatMap]
      exact ⟨k, hk, by rw [hfind]; exact List.mem_cons_self⟩
  | @cons o c v h0 _ ih =>
    intro fuel hf
    obtain ⟨k, hk, hfind⟩ := h0
    cases fuel with
    | zero => omega
    | succ fuel =>
      have := find?_depth _ _ _ hfind
      simp only [walkIdsF, List.mem_flatMap]
      exact ⟨k, hk, by rw [hfind]; exact List.mem_cons_of_mem _ (ih fuel (by omega))⟩

/-- **`walk(obj)` yields exactly the ids of the objects `Below obj`** (the object itself and everything reached through
    listed children, any depth); no invariant needed — the depth of `_dict` nesting is enough fuel -/
theorem walkIds_below (root : Obj) (id : Str) : id ∈ walkIds root ↔ ∃ v, Below root v ∧ v.hdr.id = id := by
  unfold walkIds
  simp only [List.mem_cons]
  constructor
  · rintro (h | h)
    · exact ⟨root, .self, h.symm⟩
    · obtain ⟨v, hv, hid⟩ := walkIdsF_sound _ root id h
      exact ⟨v, hv.toBelow root .self, hid⟩
  · rintro ⟨v, hb, hid⟩
    rcases hb.toDown with h | h
    · subst h; exact Or.inl hid.symm
    · exact Or.inr (hid ▸ walkIdsF_complete h _ (by omega))


end Pydap.Tree
