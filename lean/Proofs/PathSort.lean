import PydapModel.Path
import PydapModel.PathSort
/-
  C16 — the sort of `index`: Python's partial comparison of `alphanum_key` keys is always defined on keys of
  names and agrees with the model's total `keyLt`; `nameLe` is a total preorder; `sortNames` sorts; the sort
  with Python's comparison never raises and equals the model's.
-/
namespace Pydap.Path

/-! ### alternation of the chunks of a key -/

theorem chunksFuel_alt : ∀ (fuel : Nat) (cs : List Char), altFrom true (chunksFuel fuel cs) = true := by
  intro fuel
  induction fuel with
  | zero => intro cs; simp [chunksFuel, altFrom]
  | succ n ih =>
    intro cs
    unfold chunksFuel
    simp only
    split
    · simp [altFrom]
    · simp only [altFrom]
      exact ih _

theorem alphanumKey_alt (s : List Char) : altFrom true (alphanumKey s) = true :=
  chunksFuel_alt _ _

/-- `true` for a text chunk -/
def Chunk.isStr : Chunk → Bool
  | .str _ => true
  | .num _ => false

theorem altFrom_cons (b : Bool) (c : Chunk) (r : List Chunk) :
    altFrom b (c :: r) = true ↔ c.isStr = b ∧ altFrom (!b) r = true := by
  cases b <;> cases c <;> simp [altFrom, Chunk.isStr]

/-! ### `charsLt` is a strict total order -/

theorem charsLt_irrefl : ∀ a : List Char, charsLt a a = false
  | [] => rfl
  | c :: cs => by
    unfold charsLt
    simp only [Nat.lt_irrefl, if_false]
    exact charsLt_irrefl cs

theorem charsLt_tri : ∀ a b : List Char, charsLt a b = false → charsLt b a = false → a = b
  | [], [], _, _ => rfl
  | [], _ :: _, h, _ => by simp [charsLt] at h
  | _ :: _, [], _, h => by simp [charsLt] at h
  | a :: as, b :: bs, h1, h2 => by
    unfold charsLt at h1 h2
    by_cases hab : a.toNat < b.toNat
    · simp [hab] at h1
    · by_cases hba : b.toNat < a.toNat
      · simp [hba] at h2
      · simp only [hab, hba, if_false] at h1 h2
        have hn : a.toNat = b.toNat := by omega
        have hc : a = b := Char.toNat_inj.mp hn
        rw [hc, charsLt_tri as bs h1 h2]

theorem charsLt_trans : ∀ a b c : List Char, charsLt a b = true → charsLt b c = true → charsLt a c = true
  | [], [], _, h, _ => by simp [charsLt] at h
  | _ :: _, [], _, h, _ => by simp [charsLt] at h
  | _, _ :: _, [], _, h => by simp [charsLt] at h
  | [], _ :: _, _ :: _, _, _ => by simp [charsLt]
  | a :: as, b :: bs, c :: cs, h1, h2 => by
    unfold charsLt at h1 h2 ⊢
    by_cases hab : a.toNat < b.toNat
    · by_cases hbc : b.toNat < c.toNat
      · have : a.toNat < c.toNat := by omega
        simp [this]
      · by_cases hcb : c.toNat < b.toNat
        · simp [hbc, hcb] at h2
        · have : a.toNat < c.toNat := by omega
          simp [this]
    · by_cases hba : b.toNat < a.toNat
      · simp [hab, hba] at h1
      · simp only [hab, hba, if_false] at h1
        by_cases hbc : b.toNat < c.toNat
        · have : a.toNat < c.toNat := by omega
          simp [this]
        · by_cases hcb : c.toNat < b.toNat
          · simp [hbc, hcb] at h2
          · simp only [hbc, hcb, if_false] at h2
            have h3 : ¬ a.toNat < c.toNat := by omega
            have h4 : ¬ c.toNat < a.toNat := by omega
            simp only [h3, h4, if_false]
            exact charsLt_trans as bs cs h1 h2

/-! ### `chunkLt` on chunks of the same kind -/

theorem chunkLt_irrefl (a : Chunk) : chunkLt a a = false := by
  cases a with
  | str s => exact charsLt_irrefl s
  | num n => simp [chunkLt]

theorem chunkLt_tri (a b : Chunk) (hk : a.isStr = b.isStr)
    (h1 : chunkLt a b = false) (h2 : chunkLt b a = false) : a = b := by
  cases a with
  | str s =>
    cases b with
    | str t => rw [charsLt_tri s t h1 h2]
    | num m => simp [Chunk.isStr] at hk
  | num n =>
    cases b with
    | str t => simp [Chunk.isStr] at hk
    | num m =>
      simp only [chunkLt, decide_eq_false_iff_not] at h1 h2
      have : n = m := by omega
      rw [this]

theorem chunkLt_trans (a b c : Chunk) (h1 : chunkLt a b = true) (h2 : chunkLt b c = true) :
    chunkLt a c = true := by
  cases a <;> cases b <;> cases c <;> simp only [chunkLt, decide_eq_true_eq] at h1 h2 ⊢
  all_goals first
    | exact charsLt_trans _ _ _ h1 h2
    | omega
    | (exfalso; exact Bool.false_ne_true h1)
    | (exfalso; exact Bool.false_ne_true h2)

theorem chunkLt?_same (a b : Chunk) (hk : a.isStr = b.isStr) : chunkLt? a b = some (chunkLt a b) := by
  cases a <;> cases b <;> simp [Chunk.isStr] at hk <;> rfl

/-! ### `keyLt` on keys of the same alternation -/

theorem keyLt_irrefl : ∀ x : List Chunk, keyLt x x = false
  | [] => rfl
  | a :: as => by
    unfold keyLt
    simp only [chunkLt_irrefl, Bool.false_eq_true, if_false]
    exact keyLt_irrefl as

theorem keyLt_cons_same (a : Chunk) (as bs : List Chunk) : keyLt (a :: as) (a :: bs) = keyLt as bs := by
  rw [keyLt]
  simp only [chunkLt_irrefl, Bool.false_eq_true, if_false]

/-- head step of `keyLt` on chunks of the same kind -/
theorem keyLt_cons_iff (a b : Chunk) (as bs : List Chunk) (hk : a.isStr = b.isStr) :
    keyLt (a :: as) (b :: bs) = true ↔ chunkLt a b = true ∨ (a = b ∧ keyLt as bs = true) := by
  rw [keyLt]
  by_cases hab : chunkLt a b = true
  · simp [hab]
  · by_cases hba : chunkLt b a = true
    · have hne : a ≠ b := by
        intro h; rw [h, chunkLt_irrefl] at hba; exact Bool.false_ne_true hba
      simp [hab, hba, hne]
    · have hab' : chunkLt a b = false := by simpa using hab
      have hba' : chunkLt b a = false := by simpa using hba
      have he : a = b := chunkLt_tri a b hk hab' hba'
      subst he
      simp [chunkLt_irrefl]

theorem keyLt_tri : ∀ (x y : List Chunk) (b : Bool), altFrom b x = true → altFrom b y = true →
    keyLt x y = false → keyLt y x = false → x = y
  | [], [], _, _, _, _, _ => rfl
  | [], _ :: _, _, _, _, h, _ => by simp [keyLt] at h
  | _ :: _, [], _, _, _, _, h => by simp [keyLt] at h
  | a :: as, c :: cs, b, hx, hy, h1, h2 => by
    rw [altFrom_cons] at hx hy
    have hk : a.isStr = c.isStr := by rw [hx.1, hy.1]
    rw [keyLt] at h1 h2
    by_cases hac : chunkLt a c = true
    · simp [hac] at h1
    · by_cases hca : chunkLt c a = true
      · simp [hca] at h2
      · have hac' : chunkLt a c = false := by simpa using hac
        have hca' : chunkLt c a = false := by simpa using hca
        simp only [hac', hca', Bool.false_eq_true, if_false] at h1 h2
        have he : a = c := chunkLt_tri a c hk hac' hca'
        rw [he, keyLt_tri as cs (!b) hx.2 hy.2 h1 h2]

theorem keyLt_trans : ∀ (x y z : List Chunk) (b : Bool), altFrom b x = true → altFrom b y = true →
    altFrom b z = true → keyLt x y = true → keyLt y z = true → keyLt x z = true
  | [], [], _, _, _, _, _, h, _ => by simp [keyLt] at h
  | _ :: _, [], _, _, _, _, _, h, _ => by simp [keyLt] at h
  | _, _ :: _, [], _, _, _, _, _, h => by simp [keyLt] at h
  | [], _ :: _, _ :: _, _, _, _, _, _, _ => by simp [keyLt]
  | a :: as, c :: cs, e :: es, b, hx, hy, hz, h1, h2 => by
    rw [altFrom_cons] at hx hy hz
    have hac : a.isStr = c.isStr := by rw [hx.1, hy.1]
    have hce : c.isStr = e.isStr := by rw [hy.1, hz.1]
    have hae : a.isStr = e.isStr := by rw [hx.1, hz.1]
    rw [keyLt_cons_iff _ _ _ _ hac] at h1
    rw [keyLt_cons_iff _ _ _ _ hce] at h2
    rw [keyLt_cons_iff _ _ _ _ hae]
    rcases h1 with h1 | ⟨h1e, h1⟩
    · rcases h2 with h2 | ⟨h2e, _⟩
      · exact Or.inl (chunkLt_trans _ _ _ h1 h2)
      · rw [← h2e]; exact Or.inl h1
    · rcases h2 with h2 | ⟨h2e, h2⟩
      · rw [h1e]; exact Or.inl h2
      · exact Or.inr ⟨h1e.trans h2e, keyLt_trans as cs es (!b) hx.2 hy.2 hz.2 h1 h2⟩

theorem keyLt_asymm (x y : List Chunk) (b : Bool) (hx : altFrom b x = true) (hy : altFrom b y = true)
    (h : keyLt x y = true) : keyLt y x = false := by
  cases h' : keyLt y x with
  | false => rfl
  | true =>
    have := keyLt_trans x y x b hx hy hx h h'
    rw [keyLt_irrefl] at this
    exact absurd this Bool.false_ne_true

/-- negative transitivity -/
theorem keyLt_negtrans (x y z : List Chunk) (b : Bool) (hx : altFrom b x = true) (hy : altFrom b y = true)
    (hz : altFrom b z = true) (h : keyLt x z = true) : keyLt x y = true ∨ keyLt y z = true := by
  cases hxy : keyLt x y with
  | true => exact Or.inl rfl
  | false =>
    right
    cases hyz : keyLt y z with
    | true => rfl
    | false =>
      exfalso
      cases hyx : keyLt y x with
      | false =>
        have he : x = y := keyLt_tri x y b hx hy hxy hyx
        rw [he, hyz] at h
        exact Bool.false_ne_true h
      | true =>
        cases hzy : keyLt z y with
        | false =>
          have he : y = z := keyLt_tri y z b hy hz hyz hzy
          rw [← he, hxy] at h
          exact Bool.false_ne_true h
        | true =>
          have hzx := keyLt_trans z y x b hz hy hx hzy hyx
          rw [keyLt_asymm x z b hx hz h] at hzx
          exact Bool.false_ne_true hzx

/-! ### Python's comparison is defined on keys of the same alternation -/

theorem keyLt?_defined_aux : ∀ (x y : List Chunk) (b : Bool), altFrom b x = true → altFrom b y = true →
    keyLt? x y = some (keyLt x y)
  | [], [], _, _, _ => rfl
  | [], _ :: _, _, _, _ => rfl
  | _ :: _, [], _, _, _ => rfl
  | a :: as, c :: cs, b, hx, hy => by
    rw [altFrom_cons] at hx hy
    have hk : a.isStr = c.isStr := by rw [hx.1, hy.1]
    rw [keyLt?]
    by_cases he : a = c
    · rw [if_pos he, he, keyLt_cons_same]
      exact keyLt?_defined_aux as cs (!b) hx.2 hy.2
    · rw [if_neg he, chunkLt?_same a c hk, keyLt]
      by_cases hac : chunkLt a c = true
      · simp [hac]
      · have hac' : chunkLt a c = false := by simpa using hac
        by_cases hca : chunkLt c a = true
        · simp [hac', hca]
        · have hca' : chunkLt c a = false := by simpa using hca
          exact absurd (chunkLt_tri a c hk hac' hca') he

theorem keyLt?_defined (x y : List Chunk) (b : Bool) (hx : altFrom b x = true) (hy : altFrom b y = true) :
    keyLt? x y = some (keyLt x y) :=
  keyLt?_defined_aux x y b hx hy

theorem keyLt?_names (a b : Seg) :
    keyLt? (alphanumKey a) (alphanumKey b) = some (keyLt (alphanumKey a) (alphanumKey b)) :=
  keyLt?_defined _ _ true (alphanumKey_alt a) (alphanumKey_alt b)

/-! ### `nameLe` is a total preorder -/

theorem nameLe_refl (a : Seg) : nameLe a a = true := by
  simp [nameLe, keyLt_irrefl]

theorem nameLe_total (a b : Seg) : nameLe a b = true ∨ nameLe b a = true := by
  unfold nameLe
  cases h : keyLt (alphanumKey b) (alphanumKey a) with
  | false => exact Or.inl rfl
  | true =>
    right
    rw [keyLt_asymm _ _ true (alphanumKey_alt b) (alphanumKey_alt a) h]
    rfl

theorem nameLe_trans (a b c : Seg) : nameLe a b = true → nameLe b c = true → nameLe a c = true := by
  unfold nameLe
  intro h1 h2
  cases h : keyLt (alphanumKey c) (alphanumKey a) with
  | false => rfl
  | true =>
    exfalso
    rcases keyLt_negtrans _ (alphanumKey b) _ true (alphanumKey_alt c) (alphanumKey_alt b)
      (alphanumKey_alt a) h with h' | h'
    · rw [h'] at h2; exact Bool.false_ne_true h2
    · rw [h'] at h1; exact Bool.false_ne_true h1

/-! ### the insertion sort sorts -/

theorem mem_insertName_iff (z x : Seg) (l : List Seg) : z ∈ insertName x l ↔ z = x ∨ z ∈ l := by
  induction l with
  | nil => simp [insertName]
  | cons y ys ih =>
    unfold insertName
    split
    · simp
    · simp only [List.mem_cons, ih]
      constructor
      · rintro (h | h | h)
        · exact Or.inr (Or.inl h)
        · exact Or.inl h
        · exact Or.inr (Or.inr h)
      · rintro (h | h | h)
        · exact Or.inr (Or.inl h)
        · exact Or.inl h
        · exact Or.inr (Or.inr h)

theorem insertName_sorted (x : Seg) (l : List Seg) (h : l.Pairwise (fun a b => nameLe a b = true)) :
    (insertName x l).Pairwise (fun a b => nameLe a b = true) := by
  induction l with
  | nil => simp [insertName]
  | cons y ys ih =>
    rw [List.pairwise_cons] at h
    unfold insertName
    split
    · rename_i hxy
      rw [List.pairwise_cons]
      refine ⟨?_, List.pairwise_cons.mpr h⟩
      intro z hz
      rcases List.mem_cons.mp hz with hz | hz
      · rw [hz]; exact hxy
      · exact nameLe_trans x y z hxy (h.1 z hz)
    · rename_i hxy
      rw [List.pairwise_cons]
      refine ⟨?_, ih h.2⟩
      intro z hz
      rcases (mem_insertName_iff z x ys).mp hz with hz | hz
      · rw [hz]
        rcases nameLe_total x y with h' | h'
        · exact absurd h' hxy
        · exact h'
      · exact h.1 z hz

theorem sortNames_sorted (l : List Seg) : (sortNames l).Pairwise (fun a b => nameLe a b = true) := by
  induction l with
  | nil => simp [sortNames]
  | cons x xs ih => exact insertName_sorted x _ ih

/-! ### the sort with Python's comparison never raises and is the model's sort -/

theorem insertName?_eq (x : Seg) (l : List Seg) : insertName? x l = some (insertName x l) := by
  induction l with
  | nil => rfl
  | cons y ys ih =>
    unfold insertName? insertName
    rw [keyLt?_names, nameLe]
    cases h : keyLt (alphanumKey y) (alphanumKey x) with
    | true => simp [ih]
    | false => simp

theorem sortNames?_eq (l : List Seg) : sortNames? l = some (sortNames l) := by
  induction l with
  | nil => rfl
  | cons x xs ih =>
    unfold sortNames? sortNames
    rw [ih]
    exact insertName?_eq x _

end Pydap.Path
