/-
  C14 — the source text of model.py `BaseType.__getitem__`, `BaseType._get_data_index` and one turn of the loop of
  `GridType.__getitem__` (PydapModel/Generated/ModelSrc.lean, regenerated on every run by harness/py2lean.py
  `generate_model`): the data an object holds is only ever READ (`data[index]`), the result is stored on the new object.
-/
import Proofs.MiniPy
import PydapModel.Generated.ModelSrc
set_option linter.unusedSimpArgs false
namespace Pydap
open MiniPy

/-- `BaseType.__getitem__`: the block binds `out` to the copy, `out.data` to what `_get_data_index(index)` returned,
    returns the copy — and does nothing else (the environment it leaves is exactly these three bindings on top of the
    one it found) -/
theorem src_basetype_getitem_eq (env : Env) (cp ix : Val) (h1 : lookup env "@copy" = .ok cp)
    (h2 : lookup env "@indexed" = .ok ix) :
    exec env Gen.src_basetype_getitem
      = .ok (setVar (setVar (setVar env "out" cp) "out.data" ix) "@ret" cp) := by
  unfold Gen.src_basetype_getitem
  simp (decide := true) only [exec, eval, bind_ok', h1, h2, lookup_setVar_eq, lookup_setVar_ne]

/-- `_get_data_index`: the value is `self._data[index]`, passed through the string decoder exactly when the data is a
    numpy array of dtype S; nothing is bound but the return value -/
theorem src_get_data_index_eq (env : Env) (isStr isArr : Bool) (plain decoded : Val)
    (h1 : lookup env "@is_string" = .ok (.bool isStr)) (h2 : lookup env "@is_ndarray" = .ok (.bool isArr))
    (h3 : lookup env "@plain" = .ok plain) (h4 : lookup env "@decoded" = .ok decoded) :
    exec env Gen.src_get_data_index = .ok (setVar env "@ret" (if isStr && isArr then decoded else plain)) := by
  unfold Gen.src_get_data_index
  cases isStr <;> cases isArr <;>
    simp (decide := true) only [exec, eval, bind_ok', h1, h2, h3, h4, truthy_bool', and_bool, truthy, if_true, if_false,
      Bool.false_eq_true, Bool.and_self, Bool.and_false, Bool.false_and, Bool.and_true]

/-- one turn of the loop of `GridType.__getitem__`: the new child's data is `self[var.name].data[slice_]`, nothing else
    is bound -/
theorem src_grid_loop_turn_eq (env : Env) (v : Val) (h : lookup env "@member_indexed" = .ok v) :
    exec env Gen.src_grid_loop_turn = .ok (setVar env "var.data" v) := by
  unfold Gen.src_grid_loop_turn
  simp (decide := true) only [exec, eval, bind_ok', h]

end Pydap
