/-
  C14 — the source text of model.py `BaseType.__getitem__` and `BaseType._get_data_index` (PydapModel/Generated/ModelSrc.lean, regenerated on every run by harness/py2lean.py
  `generate_model`): the data an object holds is only ever READ (`data[index]`), the result is stored on the new object.
-/
import Proofs.MiniPy
import PydapModel.Generated.ModelSrc
set_option linter.unusedSimpArgs false
namespace Pydap
open MiniPy

theorem src_basetype_getitem_eq (env : Env) (cp ix : Val) (h1 : lookup env "@copy" = .ok cp)
    (h2 : lookup env "@indexed" = .ok ix) :
    ∃ env', exec env Gen.src_basetype_getitem = .ok env' ∧
      lookup env' "@ret" = .ok cp ∧ lookup env' "out.data" = .ok ix ∧
      lookup env' "self.data" = lookup env "self.data" ∧ lookup env' "self._data" = lookup env "self._data" := by
  unfold Gen.src_basetype_getitem
  simp (decide := true) only [exec, eval, bind_ok', h1, h2, lookup_setVar_eq, lookup_setVar_ne]
  refine ⟨_, rfl, ?_, ?_, ?_, ?_⟩ <;> simp (decide := true) only [lookup_setVar_eq, lookup_setVar_ne]

theorem src_get_data_index_eq (env : Env) (isStr isArr : Bool) (plain decoded : Val)
    (h1 : lookup env "@is_string" = .ok (.bool isStr)) (h2 : lookup env "@is_ndarray" = .ok (.bool isArr))
    (h3 : lookup env "@plain" = .ok plain) (h4 : lookup env "@decoded" = .ok decoded) :
    ∃ env', exec env Gen.src_get_data_index = .ok env' ∧
      lookup env' "@ret" = .ok (if isStr && isArr then decoded else plain) ∧
      lookup env' "self.data" = lookup env "self.data" ∧ lookup env' "self._data" = lookup env "self._data" := by
  unfold Gen.src_get_data_index
  cases isStr <;> cases isArr <;>
    simp (decide := true) only [exec, eval, bind_ok', h1, h2, h3, h4, truthy_bool', and_bool, truthy, if_true, if_false,
      Bool.false_eq_true, Bool.and_self, Bool.and_false, Bool.false_and, Bool.and_true] <;>
    (refine ⟨_, rfl, ?_, ?_, ?_⟩ <;> simp (decide := true) only [lookup_setVar_eq, lookup_setVar_ne])

end Pydap
