import Proofs.DasCanon
/-! The collision guards survive the normal form (C08): `C08_roundtrip_canon` can be stated on the dataset itself. -/
namespace Pydap.Das

mutual
/-- dict-valued attributes have distinct keys, at any depth (what Python's dicts enforce) -/
def ValKeys : AVal → Prop
  | .sc _ => True
  | .list _ => True
  | .dict kvs => AttrsKeys kvs ∧ (kvs.map (·.1)).Nodup
def AttrsKeys : List (Text × AVal) → Prop
  | [] => True
  | (_, v) :: rest => ValKeys v ∧ AttrsKeys rest
end

mutual
def VarKeys : Var → Prop
  | .mk .struct _ a cs => AttrsKeys a ∧ VarsKeys cs
  | .mk .seq _ a cs => AttrsKeys a ∧ VarsKeys cs
  | .mk .base _ a _ => AttrsKeys a
  | .mk .grid _ a _ => AttrsKeys a
def VarsKeys : List Var → Prop
  | [] => True
  | v :: rest => VarKeys v ∧ VarsKeys rest
end

theorem keys_canon_sublist (l : Dict) : (keys (canonAttrs l)).Sublist (keys l) := by
  induction l with
  | nil => simp [canonAttrs, keys]
  | cons x rest ih =>
    obtain ⟨k, v⟩ := x
    simp only [canonAttrs]
    by_cases hv : sizePos v = true
    · simp only [hv, if_true, keys, List.map_cons]; exact List.Sublist.cons_cons _ ih
    · simp only [hv, if_false, Bool.false_eq_true, keys, List.map_cons]; exact List.Sublist.cons _ ih

mutual
theorem valDeep_canon : (v : AVal) → ValKeys v → sizePos v = true → ValDeep (canonVal v)
  | .sc x, _, _ => trivial
  | .list xs, _, hs => by
    match xs, hs with
    | [x], _ => simp [canonVal, unwrap, ValDeep]
    | x :: y :: r, _ => simp [canonVal, unwrap, ValDeep]
  | .dict kvs, h, _ => by
    simp only [ValKeys] at h
    simp only [canonVal, ValDeep]
    exact ⟨attrsDeep_canon kvs h.1, List.Nodup.sublist (keys_canon_sublist kvs) h.2⟩
theorem attrsDeep_canon : (kvs : List (Text × AVal)) → AttrsKeys kvs → AttrsDeep (canonAttrs kvs)
  | [], _ => trivial
  | (k, v) :: rest, h => by
    simp only [AttrsKeys] at h
    simp only [canonAttrs]
    by_cases hv : sizePos v = true
    · simp only [hv, if_true, AttrsDeep]
      exact ⟨valDeep_canon v h.1 hv, attrsDeep_canon rest h.2⟩
    · simp only [hv, if_false, Bool.false_eq_true]
      exact attrsDeep_canon rest h.2
end

mutual
theorem varDeep_canon : (v : Var) → VarKeys v → VarDeep (canonVar v)
  | .mk .struct n a cs, h => by
    simp only [VarKeys] at h; simp only [canonVar, VarDeep]; exact ⟨attrsDeep_canon a h.1, varsDeep_canon cs h.2⟩
  | .mk .seq n a cs, h => by
    simp only [VarKeys] at h; simp only [canonVar, VarDeep]; exact ⟨attrsDeep_canon a h.1, varsDeep_canon cs h.2⟩
  | .mk .base n a cs, h => by
    simp only [VarKeys] at h; simp only [canonVar, VarDeep]; exact attrsDeep_canon a h
  | .mk .grid n a cs, h => by
    simp only [VarKeys] at h; simp only [canonVar, VarDeep]; exact attrsDeep_canon a h
theorem varsDeep_canon : (cs : List Var) → VarsKeys cs → VarsDeep (canonVars cs)
  | [], _ => trivial
  | v :: rest, h => by
    simp only [VarsKeys] at h; simp only [canonVars, VarsDeep]; exact ⟨varDeep_canon v h.1, varsDeep_canon rest h.2⟩
end

theorem canonVar_name (v : Var) : (canonVar v).name = v.name := by
  obtain ⟨k, n, a, cs⟩ := v; simp [canonVar, Var.name]

theorem canonVars_names (cs : List Var) : (canonVars cs).map Var.name = cs.map Var.name := by
  induction cs with
  | nil => rfl
  | cons v rest ih => simp [canonVars, canonVar_name, ih]

theorem mem_canonVars (cs : List Var) (m : Var) (h : m ∈ canonVars cs) : ∃ m0 ∈ cs, m = canonVar m0 := by
  induction cs with
  | nil => simp [canonVars] at h
  | cons v rest ih =>
    simp only [canonVars, List.mem_cons] at h
    rcases h with rfl | h
    · exact ⟨v, by simp, rfl⟩
    · obtain ⟨m0, hm, e⟩ := ih h; exact ⟨m0, by simp [hm], e⟩

theorem mem_canonAttrs (l : Dict) (x : Text × AVal) (h : x ∈ canonAttrs l) : ∃ v, (x.1, v) ∈ l ∧ x.2 = canonVal v := by
  induction l with
  | nil => simp [canonAttrs] at h
  | cons y rest ih =>
    obtain ⟨k, v⟩ := y
    simp only [canonAttrs] at h
    by_cases hv : sizePos v = true
    · simp only [hv, if_true, List.mem_cons] at h
      rcases h with rfl | h
      · exact ⟨v, by simp, rfl⟩
      · obtain ⟨w, hw, e⟩ := ih h; exact ⟨w, by simp [hw], e⟩
    · simp only [hv, if_false, Bool.false_eq_true] at h
      obtain ⟨w, hw, e⟩ := ih h; exact ⟨w, by simp [hw], e⟩

/-- a container in the normal form was a container before -/
theorem dget_canon_dict (a : Dict) (hnd : (keys a).Nodup) (k : Text) (e' : Dict)
    (h : dget (canonAttrs a) k = some (.dict e')) : ∃ e, dget a k = some (.dict e) := by
  have hnd' : (keys (canonAttrs a)).Nodup := List.Nodup.sublist (keys_canon_sublist a) hnd
  have hm := (dget_eq_some_iff _ hnd' k _).mp h
  obtain ⟨v, hv, e⟩ := mem_canonAttrs a _ hm
  simp only at hv e
  cases v with
  | sc x => simp [canonVal] at e
  | list xs =>
    match xs, e with
    | [], e => simp [canonVal, unwrap] at e
    | [x], e => simp [canonVal, unwrap] at e
    | x :: y :: r, e => simp [canonVal, unwrap] at e
  | dict kvs => exact ⟨kvs, (dget_eq_some_iff a hnd k _).mpr hv⟩

theorem nodup_canon_append (a : Dict) (xs : List Text) (h : (keys a ++ xs).Nodup) :
    (keys (canonAttrs a) ++ xs).Nodup :=
  List.Nodup.sublist (List.Sublist.append (keys_canon_sublist a) (List.Sublist.refl xs)) h

mutual
theorem varG_canon : (v : Var) → VarG v → VarG (canonVar v)
  | .mk .struct n a cs, h => by
    simp only [VarG] at h; simp only [canonVar, VarG]
    exact ⟨varsG_canon cs h.1, by rw [canonVars_names]; exact nodup_canon_append a _ h.2⟩
  | .mk .seq n a cs, h => by
    simp only [VarG] at h; simp only [canonVar, VarG]
    exact ⟨varsG_canon cs h.1, by rw [canonVars_names]; exact nodup_canon_append a _ h.2⟩
  | .mk .base n a cs, h => by
    simp only [VarG] at h; simp only [canonVar, VarG]
    exact ⟨List.Nodup.sublist (keys_canon_sublist a) h.1, by rw [h.2]; rfl⟩
  | .mk .grid n a cs, h => by
    simp only [VarG] at h; simp only [canonVar, VarG]
    refine ⟨List.Nodup.sublist (keys_canon_sublist a) h.1, ?_⟩
    intro m hm
    obtain ⟨m0, hm0, rfl⟩ := mem_canonVars cs m hm
    obtain ⟨hc, hd⟩ := h.2 m0 hm0
    refine ⟨?_, ?_⟩
    · obtain ⟨k0, n0, a0, c0⟩ := m0
      simp only [Var.children] at hc
      simp [canonVar, Var.children, hc, canonVars]
    · intro e he
      rw [canonVar_name] at he
      obtain ⟨e0, he0⟩ := dget_canon_dict a h.1 _ e he
      exact hd e0 he0
theorem varsG_canon : (cs : List Var) → VarsG cs → VarsG (canonVars cs)
  | [], _ => trivial
  | v :: rest, h => by
    simp only [VarsG] at h; simp only [canonVars, VarsG]; exact ⟨varG_canon v h.1, varsG_canon rest h.2⟩
end

/-- **the collision guards survive the normal form** -/
theorem dsG_canon (ds : Dataset) (h : DsG ds) : DsG (canonDs ds) := by
  have hk : (keys ds.attrs).Nodup := (List.nodup_append.mp h.nodup).1
  refine ⟨varsG_canon _ h.vars, ?_, ?_, ?_, ?_⟩
  · show (keys (canonAttrs ds.attrs) ++ (canonVars ds.children).map Var.name).Nodup
    rw [canonVars_names]; exact nodup_canon_append _ _ h.nodup
  · show NoDot (keys (canonAttrs ds.attrs) ++ (canonVars ds.children).map Var.name)
    rw [canonVars_names]
    intro k hk'
    apply h.nodot k
    simp only [List.mem_append] at hk' ⊢
    rcases hk' with hk' | hk'
    · exact Or.inl ((keys_canon_sublist ds.attrs).subset hk')
    · exact Or.inr hk'
  · intro e he
    obtain ⟨e0, he0⟩ := dget_canon_dict ds.attrs hk _ e he
    exact h.selfname e0 he0
  · intro v hv
    obtain ⟨v0, hv0, rfl⟩ := mem_canonVars _ v hv
    rw [canonVar_name]; exact h.noglobal v0 hv0

/-- the whole guard of the normal form from guards on the dataset itself -/
theorem guard_canon (ds : Dataset) (h : DsG ds) (ha : AttrsKeys ds.attrs) (hv : VarsKeys ds.children) :
    Guard (canonDs ds) :=
  ⟨dsG_canon ds h, attrsDeep_canon _ ha, varsDeep_canon _ hv⟩

end Pydap.Das
