/-
  C05 (round 7, theorem audit): `calculate_size` declines EXACTLY for declarations that contain a
  Sequence or a String anywhere (the earlier statement covered the two leaf cases only).
-/
import Proofs.XdrSize
namespace Pydap.Xdr

mutual
/-- the declaration contains a Sequence or a String variable at any depth (the responses whose size
    `calculate_size` cannot know in advance: records and strings are streamed) -/
def Tmpl.streamed : Tmpl → Bool
  | .base ty _ => wireChar ty == 'S'
  | .struct cs => streamedAny cs
  | .seq _ => true
def streamedAny : List Tmpl → Bool
  | [] => false
  | c :: cs => c.streamed || streamedAny cs
end

mutual
theorem calcData_none_iff : ∀ t : Tmpl, calcData t = none ↔ t.streamed = true
  | .base ty sh => by
    simp only [calcData, Tmpl.streamed, beq_iff_eq]
    constructor
    · intro h
      by_cases hS : wireChar ty = 'S'
      · exact hS
      · rw [if_neg hS] at h
        split at h <;> simp at h
    · intro h
      rw [if_pos h]
  | .seq _ => by simp [calcData, Tmpl.streamed]
  | .struct cs => by
    simp only [calcData, Tmpl.streamed]
    exact calcDatas_none_iff cs
theorem calcDatas_none_iff : ∀ cs : List Tmpl, calcDatas cs = none ↔ streamedAny cs = true
  | [] => by simp [calcDatas, streamedAny]
  | c :: cs => by
    have h1 := calcData_none_iff c
    have h2 := calcDatas_none_iff cs
    simp only [calcDatas, streamedAny, Bool.or_eq_true]
    cases hc : calcData c with
    | none =>
      have := h1.mp hc
      simp [this]
    | some a =>
      cases hcs : calcDatas cs with
      | none =>
        have := h2.mp hcs
        simp [this]
      | some b =>
        have n1 : ¬ c.streamed = true := fun h => by rw [h1.mpr h] at hc; cases hc
        have n2 : ¬ streamedAny cs = true := fun h => by rw [h2.mpr h] at hcs; cases hcs
        simp [n1, n2]
end

theorem calcSize_none_iff (dds : Bytes) (t : Tmpl) : calcSize dds t = none ↔ t.streamed = true := by
  unfold calcSize
  rw [← calcData_none_iff]
  cases calcData t <;> simp

end Pydap.Xdr
