/-
  End-to-end composition, part 3 — through the response text (B):
    * the client parses `_dds`, the DDS *without* its final newline (the separator `\nData:\n` takes it):
      `parse_print_nonl` re-runs C07's `parse_print` on that text, for every well-formed dataset;
    * a decidable sufficient condition (`sepFree`) for `safe_dds_and_data`'s split to cut at the right place;
    * ASCII encode/decode of the DDS text;
    * the bridge between the declaration types: what the server's printer is given (`ddsBase`), what the
      client's parser builds (`normBase`), and what the decoder is run with (`baseOfDds`).
-/
import Proofs.EndToEnd
import Proofs.DdsRoundtrip
import Proofs.DdsPrintable
import Proofs.XdrSize
namespace Pydap.E2E
open Pydap Pydap.Xdr

/-! ### the DDS without its final newline -/

def closeText0 (level : Nat) (name : Dds.Text) : Dds.Text := Dds.indent level ++ ['}', ' '] ++ name ++ [';']

theorem closeText_eq (level : Nat) (name : Dds.Text) : Dds.closeText level name = closeText0 level name ++ ['\n'] := by
  simp [Dds.closeText, closeText0]

open Dds in
theorem closing_print0 (level : Nat) (name : Text) (h : NameOk name) :
    closing (lstrip (closeText0 level name)) = .ok (name, []) := by
  have e1 : lstrip (closeText0 level name) = '}' :: ' ' :: (name ++ [';']) := by
    simp only [closeText0, List.append_assoc, List.cons_append, List.nil_append]
    rw [lstrip_indent]; exact lstrip_cons_nonspace _ (by decide)
  rw [e1]
  have s1 : consumeLit ['}'] ('}' :: ' ' :: (name ++ [';'])) = .ok (name ++ [';']) := by
    rw [consumeLit_one _ _ _ rfl, lstrip_cons_space _ (by decide), h.lstrip]
  have s2 := consumeClass_span notSemi name ';' [] (fun c hc => nameRe_notSemi c (h.2 c hc)) h.1 (by decide)
  rw [lstrip_cons_nonspace _ (by decide)] at s2
  have s3 : consumeLit [';'] [';'] = .ok [] := by
    rw [consumeLit_one _ _ _ rfl]; rfl
  simp only [closing, s1, s2, s3, quoteName_ok h]

open Dds in
theorem closing_peek0 (level : Nat) (name : Text) :
    peekLit ['}'] (lstrip (closeText0 level name)) = true := by
  have e1 : lstrip (closeText0 level name) = '}' :: ' ' :: (name ++ [';']) := by
    simp only [closeText0, List.append_assoc, List.cons_append, List.nil_append]
    rw [lstrip_indent]; exact lstrip_cons_nonspace _ (by decide)
  rw [e1, peekLit_one]; decide

open Dds in
/-- every printed DDS ends with a newline -/
theorem printDs_ends_nl (d : Dataset) (s : Text) (hp : printDs d = .ok s) :
    ∃ body, printL d.kids 1 0 = .ok body ∧ s = ("Dataset {\n".toList ++ body ++ closeText0 0 d.name) ++ ['\n'] := by
  unfold printDs at hp
  cases hb : printL d.kids 1 0 with
  | error e => rw [hb] at hp; cases hp
  | ok body =>
    rw [hb] at hp
    injection hp with hp; subst hp
    exact ⟨body, rfl, by rw [closeText_eq]; simp⟩

open Dds in
/-- **C07's round trip on the text the client actually parses** (`_dds = raw.split(b"\nData:\n")[0]`: the
    printed DDS without its final newline): same tree `normDs d`, for every well-formed dataset -/
theorem parse_print_nonl (d : Dataset) (s0 : Text) (hp : printDs d = .ok (s0 ++ ['\n'])) (hwf : WFds d) :
    parseDds s0 = .ok (normDs d) := by
  obtain ⟨body, hb, hs⟩ := printDs_ends_nl d _ hp
  have hs0 : s0 = "Dataset {\n".toList ++ body ++ closeText0 0 d.name := List.append_cancel_right hs
  subst hs0
  have hlen := needL_len d.kids 1 0 body hb
  have e0 : "Dataset {\n".toList ++ body ++ closeText0 0 d.name
      = "Dataset".toList ++ (' ' :: '{' :: '\n' :: (body ++ (closeText0 0 d.name))) := by
    simp
  have s1 : consumeLit "dataset".toList ("Dataset".toList ++ (' ' :: '{' :: '\n' :: (body ++ (closeText0 0 d.name))))
      = .ok ('{' :: '\n' :: (body ++ (closeText0 0 d.name))) := by
    rw [consumeLit_prefix _ _ _ (by decide), lstrip_cons_space _ (by decide), lstrip_cons_nonspace _ (by decide)]
  have s2 : consumeLit ['{'] ('{' :: '\n' :: (body ++ (closeText0 0 d.name)))
      = .ok (lstrip (body ++ (closeText0 0 d.name))) := by
    rw [consumeLit_one _ _ _ rfl, lstrip_cons_space _ (by decide)]
  have s3 := decls_print d.kids 1 0 body (closeText0 0 d.name)
    ("Dataset".toList ++ (' ' :: '{' :: '\n' :: (body ++ (closeText0 0 d.name)))).length hb hwf.2.1
    (by simp only [List.length_append, List.length_cons]; omega) (closing_peek0 0 d.name)
  have s4 := closing_print0 0 d.name hwf.1
  have hins := insertAll_nodup (normL d.kids 0) (by rw [normL_names]; exact hwf.2.2)
  rw [e0]
  simp only [parseDds, parseDdsWith, s1, s2, s3, s4, hins, normDs]

/-! ### the split -/

/-- no newline of the DDS is followed by `D` — then `\nData:\n` cannot start inside it -/
def sepFree : Bytes → Bool
  | [] => true
  | x :: r => (x != 10 || (match r with | y :: _ => y != 68 | [] => true)) && sepFree r

theorem split_sepFree : ∀ (a r : Bytes), sepFree a = true → splitFirst splitPattern (a ++ splitPattern ++ r) = some (a, r)
  | [], r, _ => by
    simp [splitFirst, splitPattern, dataMarker, List.isPrefixOf]
  | x :: a, r, h => by
    simp only [sepFree, Bool.and_eq_true, Bool.or_eq_true, bne_iff_ne] at h
    have ih := split_sepFree a r h.2
    have hnp : splitPattern.isPrefixOf (x :: (a ++ splitPattern ++ r)) = false := by
      rcases h.1 with hx | hy
      · simp [splitPattern, List.isPrefixOf]
        intro h10; exact absurd h10.symm hx
      · cases a with
        | nil => simp [splitPattern, dataMarker, List.isPrefixOf]
        | cons y a' =>
          have hy' : y ≠ 68 := by simpa using hy
          simp [splitPattern, dataMarker, List.isPrefixOf]
          intro _ h68; exact absurd h68.symm hy'
    simp only [List.cons_append]
    rw [splitFirst, hnp, ih]
    rfl

/-! ### ASCII -/

theorem decode_encode (t : List Char) (h : ∀ c ∈ t, c.toNat < 128) : decodeAscii (encodeAscii t) = t := by
  induction t with
  | nil => rfl
  | cons c cs ih =>
    have hc := h c (by simp)
    have ih' := ih (fun c hc => h c (by simp [hc]))
    have e1 : (UInt8.ofNat c.toNat).toNat = c.toNat := by
      simp [UInt8.toNat_ofNat']; omega
    show Char.ofNat (UInt8.ofNat c.toNat).toNat :: decodeAscii (encodeAscii cs) = c :: cs
    rw [ih', e1, Char.ofNat_toNat]

/-! ### the client on the server's body (any dataset) -/

/-- **the response text, general form**: for every well-formed dataset `d` whose printed DDS is ASCII and
    whose newlines are not followed by `D`, and every XDR declaration/value pair the parsed DDS converts to,
    the client recovers from `dds ‖ Data:\n ‖ xdr` the declared tree and exactly the values -/
theorem clientDecode_body (d : Dds.Dataset) (s0 : Dds.Text) (t : Tmpl) (data : Data) (hwf : Dds.WFds d)
    (hp : Dds.printDs d = .ok (s0 ++ ['\n'])) (hascii : ∀ c ∈ s0, c.toNat < 128)
    (hsep : sepFree (encodeAscii s0) = true)
    (ht : tmplOfDataset (Dds.normDs d) = some t) (hd : WF t data = true) :
    clientDecode (body (encodeAscii (s0 ++ ['\n'])) t data) = .ok (Dds.normDs d, data, []) := by
  have e : body (encodeAscii (s0 ++ ['\n'])) t data = encodeAscii s0 ++ splitPattern ++ encImpl t data := by
    simp [body, splitPattern, encodeAscii]
  have hdec : decImpl t (encImpl t data) = .ok (data, []) := by
    have := decImpl_enc t data [] hd
    rw [List.append_nil] at this
    rw [encImpl_eq t data hd]; exact this
  unfold clientDecode splitBody
  rw [e, split_sepFree _ _ hsep]
  simp only [decode_encode s0 hascii, parse_print_nonl d s0 hp hwf, ht, hdec]

/-! ### bridge between the declaration types -/

theorem normTy_npChar (ty : Ty) : Dds.normTy (npChar ty) = (parserStr ty).toList := by
  cases ty <;> decide

theorem tyOfParserDt_parserStr (ty : Ty) : tyOfParserDt (parserStr ty).toList = some ty := by
  cases ty <;> decide

theorem tyKnown_npChar (ty : Ty) :
    (Dds.lookup Gen.NUMPY_TO_DAP2_TYPEMAP (Dds.dtypeChar (npChar ty))).isSome = true := by
  cases ty <;> decide

theorem map_toNat_ofNat (l : List Nat) : (l.map Int.ofNat).map Int.toNat = l := by
  induction l with
  | nil => rfl
  | cons a as ih => simp only [List.map_cons, ih]; simp

/-- **server declaration → DDS text → client declaration → decoder declaration** is the identity on
    (type, shape): what `dds_to_dataset` builds from the printed declaration of a variable of DAP2 type `ty`
    and shape `shape` converts to the `Xdr` declaration `.base ty shape` the decoder model is run with -/
theorem baseOfDds_normBase (name : Dds.Text) (dims : List Dds.Text) (ty : Ty) (shape : List Nat)
    (hd : dims = [] ∨ dims.length = shape.length) :
    baseOfDds (Dds.normBase (ddsBase name dims ty shape) 0) = some (.base ty shape) := by
  have hshape : (Dds.normBase (ddsBase name dims ty shape) 0).shape = shape.map Int.ofNat := by
    unfold Dds.normBase ddsBase Dds.effShape
    simp only [List.drop_zero, Bool.false_eq_true, if_false]
    by_cases h1 : dims ≠ []
    · have hl : dims.length = shape.length := by
        rcases hd with h | h
        · exact absurd h h1
        · exact h
      rw [if_pos h1]
      exact List.map_snd_zip (by simp [hl])
    · rw [if_neg h1]
      by_cases h2 : (shape.map Int.ofNat).length = 1
      · rw [if_pos h2]
      · rw [if_neg h2]
  have hdt : (Dds.normBase (ddsBase name dims ty shape) 0).dt = (parserStr ty).toList := by
    have : (Dds.normBase (ddsBase name dims ty shape) 0).dt = Dds.normTy (npChar ty) := by
      unfold Dds.normBase ddsBase Dds.effShape
      simp only [List.drop_zero, Bool.false_eq_true, if_false]
      split
      · rfl
      · split <;> rfl
    rw [this, normTy_npChar]
  unfold baseOfDds
  rw [hshape, hdt, tyOfParserDt_parserStr]
  have hall : (shape.map Int.ofNat).all (0 ≤ ·) = true := by
    rw [List.all_eq_true]; intro x hx
    simp only [List.mem_map] at hx
    obtain ⟨n, _, rfl⟩ := hx
    simp
  rw [if_pos hall, map_toNat_ofNat]
  rfl

/-- the dataset the server answers an array request with: the one constrained variable -/
def answerDs (dsName name : Dds.Text) (dims : List Dds.Text) (ty : Ty) (cshape : List Nat) : Dds.Dataset :=
  ⟨dsName, [.base (ddsBase name dims ty cshape)]⟩

/-- what the split and the ASCII decoding need of the printed text: it is ASCII and none of its newlines is followed
    by `D` (proved below for every answer dataset with names in C07's domain: `textOk_answerDs`) -/
def TextOk (d : Dds.Dataset) : Prop :=
  ∀ s0, Dds.printDs d = .ok (s0 ++ ['\n']) → (∀ c ∈ s0, c.toNat < 128) ∧ sepFree (encodeAscii s0) = true

theorem answerDs_wf (dsName name : Dds.Text) (dims : List Dds.Text) (ty : Ty) (cshape : List Nat)
    (hds : Dds.NameOk dsName) (hn : Dds.NameOk name) (hdn : ∀ x ∈ dims, Dds.NameOk x) :
    Dds.WFds (answerDs dsName name dims ty cshape) := by
  refine ⟨hds, ⟨⟨hn, hdn, ?_⟩, trivial⟩, by simp [answerDs, Dds.Tmpl.name]⟩
  intro n hn'
  simp only [ddsBase, List.mem_map] at hn'
  obtain ⟨m, _, rfl⟩ := hn'
  simp

theorem answerDs_prints (dsName name : Dds.Text) (dims : List Dds.Text) (ty : Ty) (cshape : List Nat) :
    ∃ s0, Dds.printDs (answerDs dsName name dims ty cshape) = .ok (s0 ++ ['\n']) := by
  obtain ⟨s, hs⟩ := Dds.printDs_ok (answerDs dsName name dims ty cshape)
    (by simp only [answerDs, Dds.PrintableL, Dds.PrintableT, Dds.TyKnown, ddsBase]
        exact ⟨tyKnown_npChar ty, trivial⟩)
  obtain ⟨b, _, e⟩ := printDs_ends_nl _ s hs
  exact ⟨_, by rw [hs, e]⟩

theorem answerDs_tmpl (dsName name : Dds.Text) (dims : List Dds.Text) (ty : Ty) (cshape : List Nat)
    (hd : dims = [] ∨ dims.length = cshape.length) :
    tmplOfDataset (Dds.normDs (answerDs dsName name dims ty cshape)) = some (answerTmpl ty cshape) := by
  simp [tmplOfDataset, Dds.normDs, answerDs, Dds.normL, Dds.normT, tmplOfDds, baseOfDds_normBase name dims ty cshape hd,
    answerTmpl]

/-! ### `TextOk` for every answer dataset with names in C07's domain -/

/-- ASCII and not a newline -/
def Plain (t : Dds.Text) : Prop := ∀ c ∈ t, c.toNat < 128 ∧ c.toNat ≠ 10

open Dds in
theorem nameRe_plain (c : Char) (h : isNameRe c = true) : c.toNat < 128 ∧ c.toNat ≠ 10 := by
  constructor <;> char_arith

theorem plain_append {a b : Dds.Text} (ha : Plain a) (hb : Plain b) : Plain (a ++ b) := by
  intro c hc
  rcases List.mem_append.mp hc with h | h
  · exact ha c h
  · exact hb c h

theorem plain_flatMap {α : Type} (l : List α) (f : α → Dds.Text) (h : ∀ x ∈ l, Plain (f x)) : Plain (l.flatMap f) := by
  intro c hc
  obtain ⟨x, hx, hcx⟩ := List.mem_flatMap.mp hc
  exact h x hx c hcx

theorem plain_name {n : Dds.Text} (h : Dds.NameOk n) : Plain n := fun c hc => nameRe_plain c (h.2 c hc)

theorem plain_intText (n : Nat) : Plain (intText (Int.ofNat n)) := by
  have : intText (Int.ofNat n) = natDigits n := by simp [intText]
  rw [this]
  intro c hc
  exact nameRe_plain c (Dds.digit_nameRe c (natDigits_allDigits n c hc))

theorem plain_lit (t : Dds.Text) (h : t.all (fun c => decide (c.toNat < 128) && decide (c.toNat ≠ 10)) = true) : Plain t := by
  intro c hc
  have := List.all_eq_true.mp h c hc
  simpa using this

theorem plain_dimText (nm : Dds.Text) (n : Nat) (h : Plain nm) : Plain (Dds.dimText nm (Int.ofNat n)) := by
  unfold Dds.dimText
  exact plain_append (plain_append (plain_append (plain_append (plain_lit ['['] (by decide)) h) (plain_lit [' ', '=', ' '] (by decide)))
    (plain_intText n)) (plain_lit [']'] (by decide)) |> fun x => by simpa using x

theorem plain_anonText (n : Nat) : Plain (Dds.anonText (Int.ofNat n)) := by
  unfold Dds.anonText
  have := plain_append (plain_append (plain_lit ['['] (by decide)) (plain_intText n)) (plain_lit [']'] (by decide))
  simpa using this

theorem plain_shapeText (name : Dds.Text) (dims : List Dds.Text) (ty : Ty) (shape : List Nat)
    (hn : Dds.NameOk name) (hdn : ∀ x ∈ dims, Dds.NameOk x) :
    Plain (Dds.shapeText (ddsBase name dims ty shape) 0) := by
  unfold Dds.shapeText ddsBase
  simp only [List.drop_zero]
  split
  · apply plain_flatMap
    intro p hp
    have h1 : p.1 ∈ dims := (List.of_mem_zip hp).1
    have h2 : p.2 ∈ shape.map Int.ofNat := (List.of_mem_zip hp).2
    obtain ⟨n, _, hn2⟩ := List.mem_map.mp h2
    rw [← hn2]
    exact plain_dimText p.1 n (plain_name (hdn _ h1))
  · split
    · apply plain_flatMap
      intro x hx
      obtain ⟨n, _, rfl⟩ := List.mem_map.mp hx
      exact plain_dimText name n (plain_name hn)
    · apply plain_flatMap
      intro x hx
      obtain ⟨n, _, rfl⟩ := List.mem_map.mp hx
      exact plain_anonText n

/-! bytes -/

theorem enc_plain {t : Dds.Text} (h : Plain t) : ∀ x ∈ encodeAscii t, x ≠ 10 := by
  intro x hx
  obtain ⟨c, hc, rfl⟩ := List.mem_map.mp hx
  obtain ⟨h1, h2⟩ := h c hc
  intro he
  have := congrArg UInt8.toNat he
  simp [UInt8.toNat_ofNat'] at this
  omega

theorem sepFree_append (a b : Bytes) (h : ∀ x ∈ a, x ≠ 10) : sepFree (a ++ b) = sepFree b := by
  induction a with
  | nil => rfl
  | cons x a ih =>
    have hx : x ≠ 10 := h x (by simp)
    simp only [List.cons_append, sepFree]
    rw [ih (fun y hy => h y (by simp [hy]))]
    simp [hx]

theorem sepFree_nl (y : UInt8) (r : Bytes) (hy : y ≠ 68) : sepFree (10 :: y :: r) = sepFree (y :: r) := by
  simp [sepFree, hy]

theorem encodeAscii_append (a b : Dds.Text) : encodeAscii (a ++ b) = encodeAscii a ++ encodeAscii b := by
  simp [encodeAscii]

/-- **`TextOk` holds for every answer dataset with names in C07's domain** -/
theorem textOk_answerDs (dsName name : Dds.Text) (dims : List Dds.Text) (ty : Ty) (cshape : List Nat)
    (hds : Dds.NameOk dsName) (hn : Dds.NameOk name) (hdn : ∀ x ∈ dims, Dds.NameOk x) :
    TextOk (answerDs dsName name dims ty cshape) := by
  intro s0 hp
  obtain ⟨tyT, hty⟩ := Option.isSome_iff_exists.mp (tyKnown_npChar ty)
  obtain ⟨dt, hf⟩ := Dds.tyFacts _ _ hty
  have hT : Plain tyT := fun c hc => nameRe_plain c (Dds.word_nameRe c (hf.word c hc))
  -- the three lines of the text
  let B : Dds.Text := List.replicate 3 ' ' ++ tyT ++ [' '] ++ name ++ Dds.shapeText (ddsBase name dims ty cshape) 0 ++ [';']
  let C : Dds.Text := [' '] ++ dsName ++ [';']
  have hB : Plain B :=
    plain_append (plain_append (plain_append (plain_append (plain_append (plain_lit _ (by decide)) hT) (plain_lit _ (by decide)))
      (plain_name hn)) (plain_shapeText name dims ty cshape hn hdn)) (plain_lit _ (by decide))
  have hC : Plain C := plain_append (plain_append (plain_lit _ (by decide)) (plain_name hds)) (plain_lit _ (by decide))
  have hs : s0 = "Dataset {".toList ++ '\n' :: ' ' :: (B ++ '\n' :: '}' :: C) := by
    apply List.append_cancel_right (bs := ['\n'])
    have hty' : Dds.lookup Gen.NUMPY_TO_DAP2_TYPEMAP (Dds.dtypeChar (ddsBase name dims ty cshape).dt) = some tyT := hty
    simp only [answerDs, Dds.printDs, Dds.printL, Dds.printT, Dds.printBase, hty'] at hp
    have hp' := Except.ok.inj hp
    rw [← hp']
    simp [B, C, Dds.indent, Dds.closeText, ddsBase, List.replicate]
  subst hs
  refine ⟨?_, ?_⟩
  · intro c hc
    simp only [List.mem_append, List.mem_cons] at hc
    rcases hc with h | h | h | h | h | h | h
    · exact (plain_lit "Dataset {".toList (by decide) c h).1
    · subst h; decide
    · subst h; decide
    · exact (hB c h).1
    · subst h; decide
    · subst h; decide
    · exact (hC c h).1
  · have e : encodeAscii ("Dataset {".toList ++ '\n' :: ' ' :: (B ++ '\n' :: '}' :: C))
        = encodeAscii "Dataset {".toList ++ 10 :: 32 :: (encodeAscii B ++ 10 :: 125 :: (encodeAscii C ++ [])) := by
      simp [encodeAscii]
    rw [e, sepFree_append _ _ (enc_plain (plain_lit _ (by decide))), sepFree_nl _ _ (by decide)]
    rw [← List.cons_append, sepFree_append (32 :: encodeAscii B) _ (by
      intro x hx; rcases List.mem_cons.mp hx with h | h
      · subst h; decide
      · exact enc_plain hB x h)]
    rw [sepFree_nl _ _ (by decide), ← List.cons_append, sepFree_append (125 :: encodeAscii C) [] (by
      intro x hx; rcases List.mem_cons.mp hx with h | h
      · subst h; decide
      · exact enc_plain hC x h)]
    rfl


/-- **(B), generic in the expansion `E` of the index**: request ∘ server slicing ∘ DDS print ‖ `Data:` ‖ XDR
    encode ∘ client split ∘ DDS parse ∘ declaration conversion ∘ XDR decode = numpy indexing, and the
    declaration the client holds afterwards is the printed one (name, parser dtype of `ty`, constrained
    shape, dimension names) -/
theorem fetchArrayText_spec (dsName name : Dds.Text) (dims : List Dds.Text) (ty : Ty) (shape : List Nat)
    (vals : List Val) (pre : List PSlice) (idx E : List Idx)
    (hw : WFArr ty shape vals) (hlen : pre.length ≤ shape.length)
    (hfix : ∀ cshape : List Nat, cshape.length = shape.length → fixSlice idx cshape = zipFix E cshape)
    (hv : ValidList shape (padPre pre shape.length) E)
    (hds : Dds.NameOk dsName) (hn : Dds.NameOk name) (hdn : ∀ x ∈ dims, Dds.NameOk x)
    (hd : dims = [] ∨ dims.length = shape.length) :
    ∃ cshape vs, numpyIndex shape vals (padPre pre shape.length) E = some (cshape, vs) ∧
      fetchArrayText dsName name dims ty shape vals pre idx
        = .ok (Dds.normDs (answerDs dsName name dims ty cshape), .tuple [dataOf cshape vs], []) := by
  obtain ⟨R, h1, h2, h3⟩ := remoteIndex_spec shape pre idx E hlen hfix hv
  subst h3
  have hq := reqList_length shape _ E hv
  refine ⟨_, _, numpyIndex_of_positions shape vals _ E _ hq hw.1 h2, ?_⟩
  have hcl : (selShape (selList shape (reqList shape (padPre pre shape.length) E))).length = shape.length := by
    simp [selShape, selList_length shape _ hq]
  obtain ⟨s0, hs0⟩ := answerDs_prints dsName name dims ty
    (selShape (selList shape (reqList shape (padPre pre shape.length) E)))
  obtain ⟨ha, hs⟩ := textOk_answerDs dsName name dims ty _ hds hn hdn s0 hs0
  have hbody := clientDecode_body _ s0 _ _ (answerDs_wf dsName name dims ty _ hds hn hdn) hs0 ha hs
    (answerDs_tmpl dsName name dims ty _ (by rw [hcl]; exact hd)) (served_wf ty shape vals _ hw hq)
  unfold fetchArrayText responseBody
  simp only [h1, served]
  unfold answerDs at hs0
  rw [hs0]
  exact hbody

end Pydap.E2E
