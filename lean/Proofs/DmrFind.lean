/-
  `dataset[path]` on the assembled tree: every stored variable is found at its full path (`buildTree_find`).
-/
import Proofs.DmrTree
import PydapModel.DmrFind
namespace Pydap.Dmr

open Forest

/-! ### snoc -/

theorem findVar_snoc (nm : Str) (item : Leaf) (t : Forest) :
    ∀ (q : List Str) (r' : VarRec), Forest.findVar q t = some r' →
      Forest.findVar q (t.snoc nm item) = some r' := by
  induction t with
  | nil =>
    intro q r' h
    match q with
    | [] => simp [Forest.findVar] at h
    | [a] => simp [Forest.findVar] at h
    | a :: b :: c => simp [Forest.findVar] at h
  | var n r rest ih =>
    intro q r' h
    match q with
    | [] => simp [Forest.findVar] at h
    | [a] =>
      simp only [Forest.snoc, Forest.findVar] at h ⊢
      split
      · rename_i hb; rw [if_pos hb] at h; exact h
      · rename_i hb; rw [if_neg hb] at h; exact ih _ _ h
    | a :: b :: c =>
      simp only [Forest.snoc, Forest.findVar] at h ⊢
      split
      · rename_i hb; rw [if_pos hb] at h; exact h
      · rename_i hb; rw [if_neg hb] at h; exact ih _ _ h
  | group n k rest ihk ihr =>
    intro q r' h
    match q with
    | [] => simp [Forest.findVar] at h
    | [a] =>
      simp only [Forest.snoc, Forest.findVar] at h ⊢
      split
      · rename_i hb; rw [if_pos hb] at h; exact h
      · rename_i hb; rw [if_neg hb] at h; exact ihr _ _ h
    | a :: b :: c =>
      simp only [Forest.snoc, Forest.findVar] at h ⊢
      split
      · rename_i hb; rw [if_pos hb] at h; exact h
      · rename_i hb; rw [if_neg hb] at h; exact ihr _ _ h

theorem findVar_snoc_new (nm : Str) (r : VarRec) (t : Forest) :
    nm ∉ t.names → Forest.findVar [nm] (t.snoc nm (.var r)) = some r := by
  induction t with
  | nil => intro _; simp [Forest.snoc, Forest.findVar]
  | var n r0 rest ih =>
    intro h
    simp only [Forest.names, List.mem_cons, not_or] at h
    have hn : (n == nm) = false := by simp; exact fun e => h.1 e.symm
    simp only [Forest.snoc, Forest.findVar, hn]
    simpa using ih h.2
  | group n k rest ihk ihr =>
    intro h
    simp only [Forest.names, List.mem_cons, not_or] at h
    have hn : (n == nm) = false := by simp; exact fun e => h.1 e.symm
    simp only [Forest.snoc, Forest.findVar, hn]
    simpa using ihr h.2

/-! ### mapGroup -/

theorem hasGroup_mem_names (g : Str) (t : Forest) : t.hasGroup g = true → g ∈ t.names := by
  induction t with
  | nil => intro h; simp [Forest.hasGroup] at h
  | var n r rest ih =>
    intro h
    simp only [Forest.hasGroup] at h
    simp only [Forest.names, List.mem_cons]
    exact Or.inr (ih h)
  | group n k rest ihk ihr =>
    intro h
    simp only [Forest.hasGroup, Bool.or_eq_true] at h
    simp only [Forest.names, List.mem_cons]
    rcases h with h | h
    · left; have : n = g := by simpa using h
      exact this.symm
    · exact Or.inr (ihr h)

theorem kidsOf_mapGroup (g : Str) (f : Forest → Forest) (t : Forest) :
    t.hasGroup g = true → kidsOf g (t.mapGroup g f) = f (kidsOf g t) := by
  induction t with
  | nil => intro h; simp [Forest.hasGroup] at h
  | var n r rest ih =>
    intro h
    simp only [Forest.hasGroup] at h
    simp only [Forest.mapGroup, kidsOf]
    exact ih h
  | group n k rest ihk ihr =>
    intro h
    by_cases hn : n = g
    · subst hn
      have hb : (n == n) = true := by simp
      simp only [Forest.mapGroup, hb, if_true, kidsOf]
    · have hb : (n == g) = false := by simp [hn]
      simp only [Forest.hasGroup, hb, Bool.false_or] at h
      simp only [Forest.mapGroup, hb, Bool.false_eq_true, if_false, kidsOf]
      exact ihr h

theorem findVar_single_mapGroup (a g : Str) (f : Forest → Forest) (t : Forest) :
    Forest.findVar [a] (t.mapGroup g f) = Forest.findVar [a] t := by
  induction t with
  | nil => rfl
  | var n r rest ih => simp only [Forest.mapGroup, Forest.findVar, ih]
  | group n k rest ihk ihr =>
    simp only [Forest.mapGroup]
    split <;> simp only [Forest.findVar, ihr]

theorem findVar_mapGroup_ne (a b : Str) (c : List Str) (g : Str) (f : Forest → Forest) (t : Forest) :
    a ≠ g → Forest.findVar (a :: b :: c) (t.mapGroup g f) = Forest.findVar (a :: b :: c) t := by
  intro hne
  induction t with
  | nil => rfl
  | var n r rest ih => simp only [Forest.mapGroup, Forest.findVar, ih]
  | group n k rest ihk ihr =>
    by_cases hn : n = g
    · subst hn
      have hb : (n == n) = true := by simp
      have hb2 : (n == a) = false := by simp; exact fun e => hne e.symm
      simp only [Forest.mapGroup, hb, if_true, Forest.findVar, hb2, Bool.false_eq_true, if_false, ihr]
    · have hb : (n == g) = false := by simp [hn]
      simp only [Forest.mapGroup, hb, Bool.false_eq_true, if_false, Forest.findVar, ihr]

theorem findVar_cons (g b : Str) (c : List Str) (t : Forest) :
    t.names.Nodup → t.hasGroup g = true →
    Forest.findVar (g :: b :: c) t = Forest.findVar (b :: c) (kidsOf g t) := by
  induction t with
  | nil => intro _ h; simp [Forest.hasGroup] at h
  | var n r rest ih =>
    intro hnd hg
    simp only [Forest.names, List.nodup_cons] at hnd
    simp only [Forest.hasGroup] at hg
    have hn : n ≠ g := fun e => hnd.1 (e ▸ hasGroup_mem_names g rest hg)
    have hb : (n == g) = false := by simp [hn]
    simp only [Forest.findVar, hb, Bool.false_eq_true, if_false, kidsOf]
    exact ih hnd.2 hg
  | group n k rest ihk ihr =>
    intro hnd hg
    simp only [Forest.names, List.nodup_cons] at hnd
    by_cases hn : n = g
    · subst hn
      have hb : (n == n) = true := by simp
      simp only [Forest.findVar, hb, if_true, kidsOf]
    · have hb : (n == g) = false := by simp [hn]
      simp only [Forest.hasGroup, hb, Bool.false_or] at hg
      simp only [Forest.findVar, hb, Bool.false_eq_true, if_false, kidsOf]
      exact ihr hnd.2 hg

theorem names_mapGroup (g : Str) (f : Forest → Forest) (t : Forest) :
    (t.mapGroup g f).names = t.names := by
  induction t with
  | nil => rfl
  | var n r rest ih => simp only [Forest.mapGroup, Forest.names, ih]
  | group n k rest ihk ihr =>
    simp only [Forest.mapGroup]
    split <;> simp only [Forest.names, ihr]

theorem hasGroup_mapGroup (g p : Str) (f : Forest → Forest) (t : Forest) :
    (t.mapGroup g f).hasGroup p = t.hasGroup p := by
  induction t with
  | nil => rfl
  | var n r rest ih => simp only [Forest.mapGroup, Forest.hasGroup, ih]
  | group n k rest ihk ihr =>
    simp only [Forest.mapGroup]
    split <;> simp only [Forest.hasGroup, ihr]

/-! ### the one-step lemma -/

theorem findVar_insertAt_step (p : List Str) : ∀ (t : Forest) (nm : Str) (r : VarRec),
    (allPaths t).Nodup → (p = [] ∨ p ∈ groupPaths t) → p ++ [nm] ∉ allPaths t →
    (Forest.findVar (p ++ [nm]) (insertAt (p ++ [nm]) (.var r) t) = some r
      ∧ ∀ (q : List Str) (r' : VarRec), Forest.findVar q t = some r' →
          Forest.findVar q (insertAt (p ++ [nm]) (.var r) t) = some r') := by
  induction p with
  | nil =>
    intro t nm r hnd _ hfresh
    have hnm : nm ∉ t.names := fun h => hfresh (mem_allPaths_of_mem_names t nm h)
    have he : insertAt ([] ++ [nm]) (.var r) t = t.snoc nm (.var r) := by
      show insertAt [nm] (.var r) t = _
      rw [insertAt, remove_of_not_mem nm t hnm]
    rw [he]
    exact ⟨findVar_snoc_new nm r t hnm, findVar_snoc nm _ t⟩
  | cons g ps ih =>
    intro t nm r hnd hp hfresh
    have hp' : g :: ps ∈ groupPaths t := by
      rcases hp with hp | hp
      · exact absurd hp (by simp)
      · exact hp
    have hnames := names_nodup t hnd
    obtain ⟨hg, hps⟩ := kidsOf_group g ps t hnames hp'
    have hq : ps ++ [nm] ≠ [] := by simp
    have he : insertAt ((g :: ps) ++ [nm]) (.var r) t
        = t.mapGroup g (insertAt (ps ++ [nm]) (.var r)) := by
      show insertAt (g :: (ps ++ [nm])) (.var r) t = _
      exact insertAt_cons g _ _ t hq hg
    have hfresh' : ps ++ [nm] ∉ allPaths (kidsOf g t) := fun h => hfresh (kidsOf_mem g t _ h)
    obtain ⟨h1, h2⟩ := ih (kidsOf g t) nm r (kidsOf_nodup g t hnd) hps hfresh'
    rw [he]
    have hnames' : (t.mapGroup g (insertAt (ps ++ [nm]) (.var r))).names.Nodup := by
      rw [names_mapGroup]; exact hnames
    have hg' : (t.mapGroup g (insertAt (ps ++ [nm]) (.var r))).hasGroup g = true := by
      rw [hasGroup_mapGroup]; exact hg
    -- `findVar (g :: b :: c)` in the new tree looks into the updated children
    have key : ∀ (b : Str) (c : List Str),
        Forest.findVar (g :: b :: c) (t.mapGroup g (insertAt (ps ++ [nm]) (.var r)))
          = Forest.findVar (b :: c) (insertAt (ps ++ [nm]) (.var r) (kidsOf g t)) := by
      intro b c
      rw [findVar_cons g b c _ hnames' hg', kidsOf_mapGroup g _ t hg]
    constructor
    · show Forest.findVar (g :: (ps ++ [nm])) _ = some r
      obtain ⟨b, c, hbc⟩ : ∃ b c, ps ++ [nm] = b :: c := by
        cases hps' : ps ++ [nm] with
        | nil => exact absurd hps' hq
        | cons b c => exact ⟨b, c, rfl⟩
      have hk := key b c
      rw [← hbc] at hk
      rw [hk]; exact h1
    · intro q r' hq'
      match q, hq' with
      | [], hq' => simp [Forest.findVar] at hq'
      | [a], hq' => rw [findVar_single_mapGroup]; exact hq'
      | a :: b :: c, hq' =>
        by_cases ha : a = g
        · subst ha
          rw [key b c]
          apply h2
          rw [← findVar_cons a b c t hnames hg]; exact hq'
        · rw [findVar_mapGroup_ne a b c g _ t ha]; exact hq'

/-- same, for a non-empty full path -/
theorem findVar_insertAt_path (q : List Str) (t : Forest) (r : VarRec)
    (hq : q ≠ []) (hnd : (allPaths t).Nodup)
    (hp : q.dropLast = [] ∨ q.dropLast ∈ groupPaths t) (hfresh : q ∉ allPaths t) :
    (Forest.findVar q (insertAt q (.var r) t) = some r
      ∧ ∀ (q' : List Str) (r' : VarRec), Forest.findVar q' t = some r' →
          Forest.findVar q' (insertAt q (.var r) t) = some r') := by
  have e : q.dropLast ++ [q.getLast hq] = q := List.dropLast_concat_getLast hq
  have := findVar_insertAt_step q.dropLast t (q.getLast hq) r hnd hp (by rw [e]; exact hfresh)
  rw [e] at this
  exact this

/-! ### the fold over the variables -/

theorem fold_vars_find (gs : List (List Str)) :
    ∀ (vs : List (List Str × VarRec)) (A : List (List Str)) (t : Forest),
    (groupPaths t).Perm gs → (allPaths t).Perm A →
    (A ++ vs.map (·.1)).Nodup →
    (∀ v ∈ vs, v.1 ≠ [] ∧ (v.1.dropLast = [] ∨ v.1.dropLast ∈ gs)) →
    ((∀ (q : List Str) (r : VarRec), Forest.findVar q t = some r →
        Forest.findVar q (vs.foldl (fun t v => insertAt v.1 (.var v.2) t) t) = some r)
      ∧ ∀ v ∈ vs,
        Forest.findVar v.1 (vs.foldl (fun t v => insertAt v.1 (.var v.2) t) t) = some v.2) := by
  intro vs
  induction vs with
  | nil =>
    intro A t _ _ _ _
    exact ⟨fun q r h => h, fun v hv => by simp at hv⟩
  | cons v vs ih =>
    intro A t hg ha hnd hvs
    have hv := hvs v (by simp)
    have hnd1 : (allPaths t).Nodup := ha.nodup_iff.mpr ((List.nodup_append.mp hnd).1)
    have hvA : v.1 ∉ A := by
      intro hm
      have := (List.nodup_append.mp hnd).2.2 v.1 hm v.1 (by simp)
      exact this rfl
    have hfresh : v.1 ∉ allPaths t := fun hm => hvA (ha.mem_iff.mp hm)
    have hpar' : v.1.dropLast = [] ∨ v.1.dropLast ∈ groupPaths t := by
      rcases hv.2 with h | h
      · exact Or.inl h
      · exact Or.inr (hg.mem_iff.mpr h)
    obtain ⟨_, h2, h3⟩ := insertAt_path v.1 t (.var v.2) hv.1 hnd1 hpar' hfresh
    obtain ⟨f1, f2⟩ := findVar_insertAt_path v.1 t v.2 hv.1 hnd1 hpar' hfresh
    have hg1 : (groupPaths (insertAt v.1 (.var v.2) t)).Perm gs := by
      refine h3.trans ?_
      simpa [Leaf.gp] using hg
    have ha1 : (allPaths (insertAt v.1 (.var v.2) t)).Perm (A ++ [v.1]) := by
      refine h2.trans ?_
      exact (List.perm_append_comm (l₁ := [v.1])).trans (ha.append_right _)
    have hnd' : ((A ++ [v.1]) ++ vs.map (·.1)).Nodup := by simpa using hnd
    obtain ⟨i1, i2⟩ := ih (A ++ [v.1]) (insertAt v.1 (.var v.2) t) hg1 ha1 hnd'
      (fun w hw => hvs w (List.mem_cons_of_mem _ hw))
    simp only [List.foldl_cons]
    constructor
    · intro q r h
      exact i1 q r (f2 q r h)
    · intro w hw
      rcases List.mem_cons.mp hw with hw | hw
      · subst hw
        exact i1 _ _ f1
      · exact i2 w hw

theorem buildTree_find (gs : List (List Str)) (vs : List (List Str × VarRec))
    (hnd : (gs ++ vs.map (·.1)).Nodup)
    (hpf : ParentsFirst [] gs)
    (hvs : ∀ v ∈ vs, v.1 ≠ [] ∧ (v.1.dropLast = [] ∨ v.1.dropLast ∈ gs)) :
    ∀ v ∈ vs,
      Forest.findVar v.1
        (vs.foldl (fun t v => insertAt v.1 (.var v.2) t)
          (gs.foldl (fun t g => insertAt g .group t) .nil)) = some v.2 := by
  have hgs : ([] ++ gs : List (List Str)).Nodup := by
    simpa using (List.nodup_append.mp hnd).1
  obtain ⟨_, hg, ha⟩ := fold_groups gs [] .nil rfl (by simp [groupPaths]) (by simp [allPaths]) hgs hpf
  simp only [List.nil_append] at hg ha
  exact (fold_vars_find gs vs gs _ hg ha hnd hvs).2

end Pydap.Dmr
