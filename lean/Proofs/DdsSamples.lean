import Proofs.DdsForeignTree
namespace Pydap.Dds
open Pydap

/-! ### a foreign-style sample inside the domain of `foreign_parse` (non-vacuity) -/

/-- `dataSET{` newline `uRL u[3][t=2];STRUCTURE {` … : mixed case, Url/Int, anonymous and named dimensions,
    no whitespace where none is needed, tabs/newlines elsewhere -/
def fsample : FDataset :=
  ⟨"dataSET".toList, ['x'], [[], ['\n'], [' ']],
   [.base ⟨"uRL".toList, ['u'], [(none, 3), (some ['t'], 2)], []⟩,
    .cont false "STRUCTURE".toList ['s'] [[' '], ['\n', '\t']]
      [.base ⟨"Int".toList, ['i'], [], [[], [], [], [], [], [], [' ', '\n']]⟩],
    .grid "GRID".toList "array".toList "Maps".toList ['g'] [] ⟨"byte".toList, ['a'], [(none, 2)], []⟩
      [⟨"Float64".toList, ['m'], [(some ['m'], 2)], []⟩]]⟩

theorem nameOk_of_decide (n : Text) (h : (n ≠ [] ∧ ∀ c ∈ n, isNameRe c = true)) : NameOk n := h

theorem entryOk_none (n : Int) (h : 0 ≤ n) : EntryOk (none, n) := ⟨h, fun nm e => by cases e⟩
theorem entryOk_some (d : Text) (n : Int) (h : 0 ≤ n) (hd : NameOk d) : EntryOk (some d, n) :=
  ⟨h, fun nm e => by cases e; exact hd⟩

theorem gsOk_of_decide (gs : List Text) (h : ∀ w ∈ gs, ∀ c ∈ w, isSpace c = true) : GsOk gs := h

theorem fsample_wf : FWFds fsample := by
  have b1 : FBaseOk ⟨"uRL".toList, ['u'], [(none, 3), (some ['t'], 2)], []⟩ :=
    { ty := ⟨by decide, by decide, by decide, by decide, by decide, ⟨"|S128".toList, by decide⟩⟩
      name := (nameOk_of_decide _ (by decide)).raw
      dims := by
        intro e he
        simp only [List.mem_cons, List.not_mem_nil, or_false] at he
        rcases he with rfl | rfl
        · exact entryOk_none 3 (by decide)
        · exact entryOk_some _ 2 (by decide) (nameOk_of_decide _ (by decide))
      gs := gsOk_of_decide _ (by decide) }
  have b2 : FBaseOk ⟨"Int".toList, ['i'], [], [[], [], [], [], [], [], [' ', '\n']]⟩ :=
    { ty := ⟨by decide, by decide, by decide, by decide, by decide, ⟨">i".toList, by decide⟩⟩
      name := (nameOk_of_decide _ (by decide)).raw
      dims := by intro e he; cases he
      gs := gsOk_of_decide _ (by decide) }
  have b3 : FBaseOk ⟨"byte".toList, ['a'], [(none, 2)], []⟩ :=
    { ty := ⟨by decide, by decide, by decide, by decide, by decide, ⟨"B".toList, by decide⟩⟩
      name := (nameOk_of_decide _ (by decide)).raw
      dims := by
        intro e he
        simp only [List.mem_cons, List.not_mem_nil, or_false] at he
        subst he; exact entryOk_none 2 (by decide)
      gs := gsOk_of_decide _ (by decide) }
  have b4 : FBaseOk ⟨"Float64".toList, ['m'], [(some ['m'], 2)], []⟩ :=
    { ty := ⟨by decide, by decide, by decide, by decide, by decide, ⟨">d".toList, by decide⟩⟩
      name := (nameOk_of_decide _ (by decide)).raw
      dims := by
        intro e he
        simp only [List.mem_cons, List.not_mem_nil, or_false] at he
        subst he; exact entryOk_some _ 2 (by decide) (nameOk_of_decide _ (by decide))
      gs := gsOk_of_decide _ (by decide) }
  have g : FGridOk "GRID".toList "array".toList "Maps".toList ['g'] [] ⟨"byte".toList, ['a'], [(none, 2)], []⟩
      [⟨"Float64".toList, ['m'], [(some ['m'], 2)], []⟩] :=
    { hkw := ⟨by decide⟩, hkwA := ⟨by decide⟩, hkwM := ⟨by decide⟩
      hname := (nameOk_of_decide _ (by decide)).raw
      hgs := gsOk_of_decide _ (by decide)
      harr := b3
      hmaps := by
        intro b hb
        simp only [List.mem_cons, List.not_mem_nil, or_false] at hb
        subst hb; exact b4
      hnodup := by decide }
  exact
    { hkw := ⟨by decide⟩
      hname := (nameOk_of_decide _ (by decide)).raw
      hgs := gsOk_of_decide _ (by decide)
      hkids := by
        simp only [fsample, FWFL, FWFT, and_true]
        exact ⟨b1, ⟨⟨by decide⟩, (nameOk_of_decide _ (by decide)).raw, gsOk_of_decide _ (by decide), b2, by decide⟩, g⟩
      hnodup := by decide }

/-! ### a foreign-style sample whose names need quoting (non-vacuity of the raw-name domain) -/

theorem rawNameOk_of_decide (n : Text)
    (h : n ≠ [] ∧ (∀ c ∈ n, notSemiBr c = true) ∧ (∀ c ∈ n, c.toNat < 128) ∧ (∀ c ∈ n, c ≠ '/') ∧
      (n.take 4 = ['d', 'a', 'p', '4'] → ∀ c ∈ n.take 8, isNameRe c = true) ∧
      (n.head?.all fun c => !isSpace c) = true) :
    RawNameOk n :=
  ⟨h.1, h.2.1, h.2.2.1, h.2.2.2.1, h.2.2.2.2.1, by
    intro c cs e
    have := h.2.2.2.2.2
    rw [e] at this
    simpa using this⟩

/-- `Dataset { Int32 a.b c[2]; Structure { Byte u&v; } s t; } my ds;` — a dot, blanks, `&` inside names -/
def fsampleRaw : FDataset :=
  ⟨"Dataset".toList, "my ds".toList, [[' '], ['\n'], [' ']],
   [.base ⟨"Int32".toList, "a.b c".toList, [(none, 2)], []⟩,
    .cont false "Structure".toList "s t".toList [[' '], ['\n']]
      [.base ⟨"Byte".toList, "u&v".toList, [], []⟩]]⟩

theorem fsampleRaw_wf : FWFds fsampleRaw := by
  have b1 : FBaseOk ⟨"Int32".toList, "a.b c".toList, [(none, 2)], []⟩ :=
    { ty := ⟨by decide, by decide, by decide, by decide, by decide, ⟨">i".toList, by decide⟩⟩
      name := rawNameOk_of_decide _ (by decide)
      dims := by
        intro e he
        simp only [List.mem_cons, List.not_mem_nil, or_false] at he
        subst he; exact entryOk_none 2 (by decide)
      gs := gsOk_of_decide _ (by decide) }
  have b2 : FBaseOk ⟨"Byte".toList, "u&v".toList, [], []⟩ :=
    { ty := ⟨by decide, by decide, by decide, by decide, by decide, ⟨"B".toList, by decide⟩⟩
      name := rawNameOk_of_decide _ (by decide)
      dims := by intro e he; cases he
      gs := gsOk_of_decide _ (by decide) }
  exact
    { hkw := ⟨by decide⟩
      hname := rawNameOk_of_decide _ (by decide)
      hgs := gsOk_of_decide _ (by decide)
      hkids := by
        simp only [fsampleRaw, FWFL, FWFT, and_true]
        exact ⟨b1, ⟨by decide⟩, rawNameOk_of_decide _ (by decide), gsOk_of_decide _ (by decide), b2, by decide⟩
      hnodup := by decide }

/-- what it declares: every name quoted -/
theorem fsampleRaw_decl :
    declDs fsampleRaw = ⟨"my%20ds".toList,
      [.base ⟨"a%2Eb%20c".toList, ">i".toList, [2], [], true⟩,
       .struct "s%20t".toList [.base ⟨"u%26v".toList, "B".toList, [], [], true⟩]]⟩ := by
  have n1 : quoteName "my ds".toList = "my%20ds".toList := by decide
  have n2 : quoteName "a.b c".toList = "a%2Eb%20c".toList := by decide
  have n3 : quoteName "s t".toList = "s%20t".toList := by decide
  have n4 : quoteName "u&v".toList = "u%26v".toList := by decide
  have t1 : declTy "Int32".toList = ">i".toList := by decide
  have t2 : declTy "Byte".toList = "B".toList := by decide
  simp only [fsampleRaw, declDs, declL, declT, declBase, n1, n2, n3, n4, t1, t2, Bool.false_eq_true, if_false,
    List.map_cons, List.map_nil, List.filterMap_cons, List.filterMap_nil]
  rfl

/-! ### a pydap-style sample inside the domain of `parse_print` (non-vacuity) -/

def sample : Dataset :=
  ⟨"my%20ds".toList,
   [.base ⟨"a%20b".toList, ['f'], [2, 3], ["x".toList, "y".toList], false⟩,
    .base ⟨['c'], ['i'], [4], [], true⟩,
    .struct ['S'] [.base ⟨['u'], ['U'], [2], [], false⟩],
    -- 7 records: a column, an array member holding data (record axis + 3 values), a declared-only array member
    .seq ['Q'] [.base ⟨['i'], ['h'], [7], [], false⟩, .base ⟨['k'], ['h'], [7, 3], [], false⟩,
                .base ⟨['m'], ['d'], [3], [['n']], true⟩],
    .grid ['G'] [⟨"arr".toList, ['d'], [2], [['x']], false⟩, ⟨['x'], ['d'], [2], [['x']], false⟩]]⟩

theorem sample_wf : WFds sample := by
  simp [WFds, sample, WFL, WFT, BaseOk, NameOk, Tmpl.name]
  decide

theorem sample_prints : ∃ s, printDs sample = .ok s := by
  have l1 : lookup Gen.NUMPY_TO_DAP2_TYPEMAP (dtypeChar ['f']) = some "Float32".toList := by decide
  have l2 : lookup Gen.NUMPY_TO_DAP2_TYPEMAP (dtypeChar ['i']) = some "Int32".toList := by decide
  have l3 : lookup Gen.NUMPY_TO_DAP2_TYPEMAP (dtypeChar ['U']) = some "String".toList := by decide
  have l4 : lookup Gen.NUMPY_TO_DAP2_TYPEMAP (dtypeChar ['h']) = some "Int16".toList := by decide
  have l5 : lookup Gen.NUMPY_TO_DAP2_TYPEMAP (dtypeChar ['d']) = some "Float64".toList := by decide
  simp [sample, printDs, printL, printT, printGrid, printBases, printBase, l1, l2, l3, l4, l5]

end Pydap.Dds
