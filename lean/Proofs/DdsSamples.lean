import Proofs.DdsForeignTree
namespace Pydap.Dds
open Pydap

/-! ### a foreign-style sample inside the domain of `foreign_parse` (non-vacuity) -/

/-- `dataSET{` newline `uRL u[3][t=2];STRUCTURE {` … : mixed case, Url/Int, anonymous and named dimensions,
    no whitespace where none is needed, tabs/newlines elsewhere -/
def fsample : FDataset :=
  ⟨"dataSET".toList, ['x'], [[], ['\n'], [' ']],
   [.base ⟨"uRL".toList, ['u'], [(none, 3), (some ['t'], 2)], []⟩,
    .cont false "STRUCTURE".toList ['s'] [[' '], ['\n', '\t']]
      [.base ⟨"Int".toList, ['i'], [], [[], [], [], [], [], [], [' ', '\n']]⟩],
    .grid "GRID".toList "array".toList "Maps".toList ['g'] [] ⟨"byte".toList, ['a'], [(none, 2)], []⟩
      [⟨"Float64".toList, ['m'], [(some ['m'], 2)], []⟩]]⟩

theorem nameOk_of_decide (n : Text) (h : (n ≠ [] ∧ ∀ c ∈ n, isNameRe c = true)) : NameOk n := h

theorem entryOk_none (n : Int) (h : 0 ≤ n) : EntryOk (none, n) := ⟨h, fun nm e => by cases e⟩
theorem entryOk_some (d : Text) (n : Int) (h : 0 ≤ n) (hd : NameOk d) : EntryOk (some d, n) :=
  ⟨h, fun nm e => by cases e; exact hd⟩

theorem gsOk_of_decide (gs : List Text) (h : ∀ w ∈ gs, ∀ c ∈ w, isSpace c = true) : GsOk gs := h

theorem fsample_wf : FWFds fsample := by
  have b1 : FBaseOk ⟨"uRL".toList, ['u'], [(none, 3), (some ['t'], 2)], []⟩ :=
    { ty := ⟨by decide, by decide, by decide, by decide, by decide, ⟨"|S128".toList, by decide⟩⟩
      name := nameOk_of_decide _ (by decide)
      dims := by
        intro e he
        simp only [List.mem_cons, List.not_mem_nil, or_false] at he
        rcases he with rfl | rfl
        · exact entryOk_none 3 (by decide)
        · exact entryOk_some _ 2 (by decide) (nameOk_of_decide _ (by decide))
      gs := gsOk_of_decide _ (by decide) }
  have b2 : FBaseOk ⟨"Int".toList, ['i'], [], [[], [], [], [], [], [], [' ', '\n']]⟩ :=
    { ty := ⟨by decide, by decide, by decide, by decide, by decide, ⟨">i".toList, by decide⟩⟩
      name := nameOk_of_decide _ (by decide)
      dims := by intro e he; cases he
      gs := gsOk_of_decide _ (by decide) }
  have b3 : FBaseOk ⟨"byte".toList, ['a'], [(none, 2)], []⟩ :=
    { ty := ⟨by decide, by decide, by decide, by decide, by decide, ⟨"B".toList, by decide⟩⟩
      name := nameOk_of_decide _ (by decide)
      dims := by
        intro e he
        simp only [List.mem_cons, List.not_mem_nil, or_false] at he
        subst he; exact entryOk_none 2 (by decide)
      gs := gsOk_of_decide _ (by decide) }
  have b4 : FBaseOk ⟨"Float64".toList, ['m'], [(some ['m'], 2)], []⟩ :=
    { ty := ⟨by decide, by decide, by decide, by decide, by decide, ⟨">d".toList, by decide⟩⟩
      name := nameOk_of_decide _ (by decide)
      dims := by
        intro e he
        simp only [List.mem_cons, List.not_mem_nil, or_false] at he
        subst he; exact entryOk_some _ 2 (by decide) (nameOk_of_decide _ (by decide))
      gs := gsOk_of_decide _ (by decide) }
  have g : FGridOk "GRID".toList "array".toList "Maps".toList ['g'] [] ⟨"byte".toList, ['a'], [(none, 2)], []⟩
      [⟨"Float64".toList, ['m'], [(some ['m'], 2)], []⟩] :=
    { hkw := ⟨by decide⟩, hkwA := ⟨by decide⟩, hkwM := ⟨by decide⟩
      hname := nameOk_of_decide _ (by decide)
      hgs := gsOk_of_decide _ (by decide)
      harr := b3
      hmaps := by
        intro b hb
        simp only [List.mem_cons, List.not_mem_nil, or_false] at hb
        subst hb; exact b4
      hnodup := by decide }
  exact
    { hkw := ⟨by decide⟩
      hname := nameOk_of_decide _ (by decide)
      hgs := gsOk_of_decide _ (by decide)
      hkids := by
        simp only [fsample, FWFL, FWFT, and_true]
        exact ⟨b1, ⟨⟨by decide⟩, nameOk_of_decide _ (by decide), gsOk_of_decide _ (by decide), b2, by decide⟩, g⟩
      hnodup := by decide }

/-! ### a pydap-style sample inside the domain of `parse_print` (non-vacuity) -/

def sample : Dataset :=
  ⟨"my%20ds".toList,
   [.base ⟨"a%20b".toList, ['f'], [2, 3], ["x".toList, "y".toList], false⟩,
    .base ⟨['c'], ['i'], [4], [], true⟩,
    .struct ['S'] [.base ⟨['u'], ['U'], [2], [], false⟩],
    -- 7 records: a column, an array member holding data (record axis + 3 values), a declared-only array member
    .seq ['Q'] [.base ⟨['i'], ['h'], [7], [], false⟩, .base ⟨['k'], ['h'], [7, 3], [], false⟩,
                .base ⟨['m'], ['d'], [3], [['n']], true⟩],
    .grid ['G'] [⟨"arr".toList, ['d'], [2], [['x']], false⟩, ⟨['x'], ['d'], [2], [['x']], false⟩]]⟩

theorem sample_wf : WFds sample := by
  simp [WFds, sample, WFL, WFT, BaseOk, NameOk, Tmpl.name]
  decide

theorem sample_prints : ∃ s, printDs sample = .ok s := by
  have l1 : lookup Gen.NUMPY_TO_DAP2_TYPEMAP (dtypeChar ['f']) = some "Float32".toList := by decide
  have l2 : lookup Gen.NUMPY_TO_DAP2_TYPEMAP (dtypeChar ['i']) = some "Int32".toList := by decide
  have l3 : lookup Gen.NUMPY_TO_DAP2_TYPEMAP (dtypeChar ['U']) = some "String".toList := by decide
  have l4 : lookup Gen.NUMPY_TO_DAP2_TYPEMAP (dtypeChar ['h']) = some "Int16".toList := by decide
  have l5 : lookup Gen.NUMPY_TO_DAP2_TYPEMAP (dtypeChar ['d']) = some "Float64".toList := by decide
  simp [sample, printDs, printL, printT, printGrid, printBases, printBase, l1, l2, l3, l4, l5]

end Pydap.Dds
