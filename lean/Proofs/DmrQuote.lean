/-
  C11 / C10 — `_quote` inside the DMR parser: the parser model's `quoteName` is C12's `Quote.quote`
  (PydapModel/Quote.lean) on byte strings; for names that do not start with `dap4` it is the bytewise
  map `qn` (C12's `encB` per byte).  Facts used by the parser proofs: `/` is kept and never produced,
  quoting is idempotent (C12: `encB_stable`), the result is never empty for a non-empty name.
-/
import PydapModel.DmrSpec
import Proofs.Quote
namespace Pydap.Dmr
open Pydap.Quote (encB Q chars)

def ofByte (b : UInt8) : Char := Char.ofNat b.toNat
def toByte (c : Char) : UInt8 := UInt8.ofNat c.toNat

/-- one byte of a name, quoted (C12's `encB`) -/
def qc (c : Char) : Str := (encB (toByte c)).map ofByte
/-- the quoted part of `_quote`, byte by byte -/
def qn (s : Str) : Str := s.flatMap qc

def dap4c : Str := ['d', 'a', 'p', '4']

/-- a byte string: every `Char` stands for one byte -/
def isBytes (s : Str) : Prop := ∀ c ∈ s, c.toNat < 256

theorem ofByte_toNat (b : UInt8) : (ofByte b).toNat = b.toNat := by
  have h : b.toNat < 256 := UInt8.toNat_lt b
  unfold ofByte
  have hv : b.toNat.isValidChar := by left; omega
  simp [Char.ofNat, hv, Char.toNat, Char.ofNatAux]

theorem toByte_ofByte (b : UInt8) : toByte (ofByte b) = b := by
  unfold toByte; rw [ofByte_toNat]; simp

theorem ofByte_toByte (c : Char) (h : c.toNat < 256) : ofByte (toByte c) = c := by
  apply Char.ext
  have : (ofByte (toByte c)).toNat = c.toNat := by
    rw [ofByte_toNat]; unfold toByte; simp; omega
  unfold Char.toNat at this
  exact UInt32.toNat_inj.mp this

theorem toByte_inj (c d : Char) (hc : c.toNat < 256) (hd : d.toNat < 256) (h : toByte c = toByte d) : c = d := by
  rw [← ofByte_toByte c hc, ← ofByte_toByte d hd, h]

theorem ofByte_inj (a b : UInt8) (h : ofByte a = ofByte b) : a = b := by
  rw [← toByte_ofByte a, ← toByte_ofByte b, h]

theorem qn_append (a b : Str) : qn (a ++ b) = qn a ++ qn b := by simp [qn]
theorem qn_cons (c : Char) (s : Str) : qn (c :: s) = qc c ++ qn s := by simp [qn]
theorem qn_nil : qn [] = [] := rfl

theorem qc_slash : qc '/' = ['/'] := by decide

theorem qn_bytes (s : Str) : isBytes (qn s) := by
  intro c hc
  simp only [qn, qc, List.mem_flatMap, List.mem_map] at hc
  obtain ⟨_, _, b, _, rfl⟩ := hc
  rw [ofByte_toNat]; exact UInt8.toNat_lt b

set_option maxRecDepth 100000 in
theorem encB_noSlash : ∀ b : UInt8, b ≠ 47 → ∀ x ∈ encB b, x ≠ 47 := by
  apply Pydap.Quote.forall_byte
  decide

set_option maxRecDepth 100000 in
theorem encB_ne_nil : ∀ b : UInt8, encB b ≠ [] := by
  apply Pydap.Quote.forall_byte
  decide

theorem qc_noSlash (c : Char) (hc : c.toNat < 256) (h : c ≠ '/') : '/' ∉ qc c := by
  intro hm
  simp only [qc, List.mem_map] at hm
  obtain ⟨x, hx, hxe⟩ := hm
  have hb : toByte c ≠ 47 := by
    intro e
    apply h
    have : toByte c = toByte '/' := by rw [e]; decide
    exact toByte_inj c '/' hc (by decide) this
  have : x = 47 := ofByte_inj x 47 (by rw [hxe]; decide)
  exact encB_noSlash _ hb x hx this

theorem qc_ne_nil (c : Char) : qc c ≠ [] := by
  simp only [qc, ne_eq, List.map_eq_nil_iff]; exact encB_ne_nil _

theorem qn_noSlash (s : Str) (hb : isBytes s) (h : '/' ∉ s) : '/' ∉ qn s := by
  intro hm
  simp only [qn, List.mem_flatMap] at hm
  obtain ⟨c, hc, hcm⟩ := hm
  exact qc_noSlash c (hb c hc) (by rintro rfl; exact h hc) hcm

theorem qn_ne_nil (s : Str) (h : s ≠ []) : qn s ≠ [] := by
  cases s with
  | nil => exact absurd rfl h
  | cons c t =>
    rw [qn_cons]
    intro e
    exact qc_ne_nil c (List.append_eq_nil_iff.mp e).1

theorem qc_stable (c : Char) : ∀ y ∈ qc c, qc y = [y] := by
  intro y hy
  simp only [qc, List.mem_map] at hy
  obtain ⟨x, hx, rfl⟩ := hy
  simp only [qc, toByte_ofByte, Pydap.Quote.encB_stable _ x hx, List.map_cons, List.map_nil]

theorem qn_fix (s : Str) (h : ∀ y ∈ s, qc y = [y]) : qn s = s := by
  induction s with
  | nil => rfl
  | cons c t ih =>
    rw [qn_cons, h c (by simp), ih (fun y hy => h y (by simp [hy]))]; rfl

/-- **idempotent** (C12 `C12_quote_idempotent`, bytewise) -/
theorem qn_idem (s : Str) : qn (qn s) = qn s := by
  apply qn_fix
  intro y hy
  simp only [qn, List.mem_flatMap] at hy
  obtain ⟨c, _, hc⟩ := hy
  exact qc_stable c y hc

theorem toQ_take (n : Nat) (s : Str) : (toQ s).take n = toQ (s.take n) := by simp [toQ, List.map_take]

theorem toQ_dap4 (s : Str) (hb : isBytes s) (h : s.take 4 ≠ dap4c) : ((toQ s).take 4 == Pydap.Quote.dap4) = false := by
  rw [toQ_take]
  apply Bool.eq_false_iff.mpr
  intro e
  apply h
  have e' : toQ (s.take 4) = Pydap.Quote.dap4 := by simpa using e
  have hb' : isBytes (s.take 4) := fun c hc => hb c (List.mem_of_mem_take hc)
  match hs : s.take 4, hb', e' with
  | [a, b, c, d], hb', e' =>
    simp only [toQ, Pydap.Quote.dap4, List.map_cons, List.map_nil, List.cons.injEq, and_true] at e'
    obtain ⟨h1, h2, h3, h4⟩ := e'
    have f : ∀ (x : Char) (k : Char), x.toNat < 256 → k.toNat < 256 → UInt8.ofNat x.toNat = toByte k → x = k :=
      fun x k hx hk e => toByte_inj x k hx hk e
    rw [f a 'd' (hb' a (by simp)) (by decide) (by rw [h1]; decide), f b 'a' (hb' b (by simp)) (by decide) (by rw [h2]; decide),
      f c 'p' (hb' c (by simp)) (by decide) (by rw [h3]; decide), f d '4' (hb' d (by simp)) (by decide) (by rw [h4]; decide)]
    rfl
  | [], _, e' => cases e'
  | [_], _, e' => simp [toQ, Pydap.Quote.dap4] at e'
  | [_, _], _, e' => simp [toQ, Pydap.Quote.dap4] at e'
  | [_, _, _], _, e' => simp [toQ, Pydap.Quote.dap4] at e'
  | _ :: _ :: _ :: _ :: _ :: _, _, e' => simp [toQ, Pydap.Quote.dap4] at e'

theorem toQ_flatten (s : Str) : (toQ s).flatten = s.map toByte := by
  induction s with
  | nil => rfl
  | cons c t ih =>
    simp only [toQ, List.map_cons, List.flatten_cons, List.singleton_append] at ih ⊢
    rw [ih]; rfl

theorem map_Q (s : Str) : (Q (s.map toByte)).map (fun b => Char.ofNat b.toNat) = qn s := by
  induction s with
  | nil => rfl
  | cons c t ih =>
    simp only [Q, qn, List.map_cons, List.flatMap_cons, List.map_append] at ih ⊢
    rw [ih]; rfl

/-- **the parser's `_quote` is the bytewise map** on byte strings that do not start with `dap4` -/
theorem quoteName_eq_qn (s : Str) (hb : isBytes s) (h : s.take 4 ≠ dap4c) : quoteName s = qn s := by
  unfold quoteName
  rw [Pydap.Quote.quote_eq, toQ_dap4 s hb h]
  simp only [Bool.false_eq_true, if_false, List.nil_append, ofQ, Pydap.Quote.flatten_chars]
  rw [toQ_flatten, map_Q]

/-- a string that starts with `/` never starts with `dap4` -/
theorem quoteName_slash (s : Str) (hb : isBytes s) : quoteName ('/' :: s) = '/' :: qn s := by
  rw [quoteName_eq_qn ('/' :: s) (by intro c hc; simp at hc; rcases hc with rfl | hc; decide; exact hb c hc)
    (by cases s <;> simp [dap4c]), qn_cons, qc_slash]; rfl

/-! ### idempotence for every name (C12's `quote_idem`, transported) -/

theorem toQ_ofQ (x : Pydap.Quote.Str) (h : ∀ c ∈ x, ∃ b, c = [b]) : toQ (ofQ x) = x := by
  induction x with
  | nil => rfl
  | cons c t ih =>
    obtain ⟨b, rfl⟩ := h c (by simp)
    have := ih (fun d hd => h d (by simp [hd]))
    simp only [toQ, ofQ, List.flatten_cons, List.map_append, List.map_cons, List.map_nil, List.cons_append,
      List.nil_append] at this ⊢
    rw [this]
    congr 2
    exact toByte_ofByte b

theorem quote_singletons (s : Str) : ∀ c ∈ Pydap.Quote.quote (toQ s), ∃ b, c = [b] := by
  intro c hc
  rw [Pydap.Quote.quote_eq] at hc
  rcases List.mem_append.mp hc with h | h
  · split at h
    · have := List.mem_of_mem_take h
      simp only [toQ, List.mem_map] at this
      obtain ⟨x, _, rfl⟩ := this
      exact ⟨_, rfl⟩
    · cases h
  · simp only [chars, List.mem_map] at h
    obtain ⟨b, _, rfl⟩ := h
    exact ⟨b, rfl⟩

/-- `_quote(_quote(name)) = _quote(name)` for every name (C12 `C12_quote_idempotent`) -/
theorem quoteName_idem (s : Str) : quoteName (quoteName s) = quoteName s := by
  unfold quoteName
  rw [toQ_ofQ _ (quote_singletons s), Pydap.Quote.quote_idem]

/-! ### names of the specs -/

theorem goodName_seg {n : Str} (h : goodName n) : segName n := ⟨h.1, h.2.1⟩

theorem goodName_quote {n : Str} (h : goodName n) : quoteName n = qn n :=
  quoteName_eq_qn n h.2.2.1 h.2.2.2

/-- a stored (quoted) path component: non-empty, no `/`, bytes, a fixed point of quoting -/
def qseg (q : Str) : Prop := segName q ∧ isBytes q ∧ qn q = q ∧ quoteName q = q

theorem goodName_qseg {n : Str} (h : goodName n) : qseg (quoteName n) := by
  refine ⟨?_, ?_, ?_, quoteName_idem n⟩ <;> rw [goodName_quote h]
  · exact ⟨qn_ne_nil n h.1, qn_noSlash n h.2.2.1 h.2.1⟩
  · exact qn_bytes n
  · exact qn_idem n

end Pydap.Dmr
