import Proofs.DasWhole
/-! The dict the served text denotes is the dataset's own structure (C08): link between parse and attach. -/
namespace Pydap.Das

mutual
/-- values the DAS carries unchanged: lists of two or more values, dicts with distinct keys, at any depth —
    the complement of finding class C08.short_list -/
def ValDeep : AVal → Prop
  | .sc _ => True
  | .list xs => 2 ≤ xs.length
  | .dict kvs => AttrsDeep kvs ∧ (kvs.map (·.1)).Nodup
def AttrsDeep : List (Text × AVal) → Prop
  | [] => True
  | (_, v) :: rest => ValDeep v ∧ AttrsDeep rest
end

mutual
def VarDeep : Var → Prop
  | .mk .struct _ a cs => AttrsDeep a ∧ VarsDeep cs
  | .mk .seq _ a cs => AttrsDeep a ∧ VarsDeep cs
  | .mk .base _ a _ => AttrsDeep a
  | .mk .grid _ a _ => AttrsDeep a
def VarsDeep : List Var → Prop
  | [] => True
  | v :: rest => VarDeep v ∧ VarsDeep rest
end

theorem attrsDeep_iff (kvs : List (Text × AVal)) : AttrsDeep kvs ↔ ∀ kv ∈ kvs, ValDeep kv.2 := by
  induction kvs with
  | nil => simp [AttrsDeep]
  | cons kv rest ih =>
    obtain ⟨k, v⟩ := kv
    simp only [AttrsDeep, ih, List.mem_cons, forall_eq_or_imp]

theorem attrsDeep_sort (a : Dict) (h : AttrsDeep a) : AttrsDeep (sortKeys a) := by
  rw [attrsDeep_iff] at h ⊢
  exact fun kv hkv => h kv ((mem_sortKeys kv a).mp hkv)

theorem filter_sizePos (a : Dict) (h : AttrsDeep a) : a.filter (fun kv => sizePos kv.2) = a := by
  rw [attrsDeep_iff] at h
  apply List.filter_eq_self.mpr
  intro kv hkv
  have := h kv hkv
  obtain ⟨k, v⟩ := kv
  cases v with
  | sc x => rfl
  | dict e => rfl
  | list xs =>
    cases xs with
    | nil => simp [ValDeep] at this
    | cons x xs => rfl

theorem sizePos_deep (v : AVal) (h : ValDeep v) : sizePos v = true := by
  cases v with
  | sc x => rfl
  | dict e => rfl
  | list xs =>
    cases xs with
    | nil => simp [ValDeep] at h
    | cons x xs => rfl

theorem unwrap_deep (xs : List Scalar) (h : 2 ≤ xs.length) : unwrap xs = .list xs := by
  match xs, h with
  | _ :: _ :: _, _ => rfl

theorem names_of_map (l : List Item) (d : Dict) (h : l.map denoteItem = d) :
    l.map (fun it => (denoteItem it).1) = keys d := by
  rw [← h]; simp [keys, List.map_map, Function.comp_def]

mutual
theorem denote_buildAttr : (k : Text) → (v : AVal) → ValDeep v → denoteItem (buildAttr k v) = (k, v)
  | k, .sc x, _ => rfl
  | k, .list xs, h => by
    simp only [ValDeep] at h
    simp [buildAttr, denoteItem, unwrap_deep xs h]
  | k, .dict kvs, h => by
    simp only [ValDeep] at h
    have hm := denote_buildAttrs kvs h.1
    have hn : (keys ([] : Dict) ++ (buildAttrs kvs).map (fun it => (denoteItem it).1)).Nodup := by
      have := names_of_map _ _ hm
      rw [this]; simpa [keys] using h.2
    simp only [buildAttr, denoteItem]
    rw [denoteItems_nodup _ [] hn, hm]; rfl
theorem denote_buildAttrs : (kvs : List (Text × AVal)) → AttrsDeep kvs → (buildAttrs kvs).map denoteItem = kvs
  | [], _ => rfl
  | (k, v) :: rest, h => by
    simp only [AttrsDeep] at h
    simp only [buildAttrs, sizePos_deep v h.1, if_true, List.map_cons]
    rw [denote_buildAttr k v h.1, denote_buildAttrs rest h.2]
end

theorem denote_leaf (n : Text) (a : Dict) (hd : AttrsDeep a) (hn : (keys a).Nodup) :
    denoteItem (.cont n (buildAttrs ((sortKeys a).filter fun kv => sizePos kv.2))) = (n, .dict (sortKeys a)) := by
  have hs := attrsDeep_sort a hd
  rw [filter_sizePos _ hs]
  have hm := denote_buildAttrs (sortKeys a) hs
  have hnn : (keys ([] : Dict) ++ (buildAttrs (sortKeys a)).map (fun it => (denoteItem it).1)).Nodup := by
    have := names_of_map _ _ hm
    rw [this]; simpa [keys] using nodup_keys_sort a hn
  simp only [denoteItem]
  rw [denoteItems_nodup _ [] hnn, hm]; rfl

theorem denote_inner (a : Dict) (cs : List Var) (hd : AttrsDeep a)
    (hc : (dasVars cs).map denoteItem = varsEntries cs) (hn : (keys a ++ cs.map Var.name).Nodup) :
    denoteItems [] (buildAttrs (sortKeys a) ++ dasVars cs) = sortKeys a ++ varsEntries cs := by
  have hm := denote_buildAttrs (sortKeys a) (attrsDeep_sort a hd)
  have hall : (buildAttrs (sortKeys a) ++ dasVars cs).map denoteItem = sortKeys a ++ varsEntries cs := by
    rw [List.map_append, hm, hc]
  have hnn : (keys ([] : Dict) ++ (buildAttrs (sortKeys a) ++ dasVars cs).map (fun it => (denoteItem it).1)).Nodup := by
    have := names_of_map _ _ hall
    rw [this, keys_append, keys_varsEntries]; simpa [keys] using nodup_sort_append a _ hn
  rw [denoteItems_nodup _ [] hnn, hall]; rfl

mutual
theorem denote_dasVar : (v : Var) → VarG v → VarDeep v → denoteItem (dasVar v) = varEntry v
  | .mk .struct n a cs, hg, hd => by
    simp only [VarG] at hg
    simp only [VarDeep] at hd
    simp only [dasVar, denoteItem, varEntry]
    rw [denote_inner a cs hd.1 (denote_dasVars cs hg.1 hd.2) hg.2]
  | .mk .seq n a cs, hg, hd => by
    simp only [VarG] at hg
    simp only [VarDeep] at hd
    simp only [dasVar, denoteItem, varEntry]
    rw [denote_inner a cs hd.1 (denote_dasVars cs hg.1 hd.2) hg.2]
  | .mk .base n a cs, hg, hd => by
    simp only [VarG] at hg
    simp only [VarDeep] at hd
    simp only [dasVar, varEntry]
    exact denote_leaf n a hd hg.1
  | .mk .grid n a cs, hg, hd => by
    simp only [VarG] at hg
    simp only [VarDeep] at hd
    simp only [dasVar, varEntry]
    exact denote_leaf n a hd hg.1
theorem denote_dasVars : (cs : List Var) → VarsG cs → VarsDeep cs → (dasVars cs).map denoteItem = varsEntries cs
  | [], _, _ => rfl
  | v :: rest, hg, hd => by
    simp only [VarsG] at hg
    simp only [VarsDeep] at hd
    simp only [dasVars, List.map_cons, varsEntries]
    rw [denote_dasVar v hg.1 hd.1, denote_dasVars rest hg.2 hd.2]
end

/-- the served text of a collision-free dataset over carried values denotes the dataset's own structure -/
theorem denote_ds (ds : Dataset) (hg : DsG ds) (ha : AttrsDeep ds.attrs) (hv : VarsDeep ds.children) :
    denoteItems [] (dasItems ds) = dsDict ds :=
  denote_inner ds.attrs ds.children ha (denote_dasVars _ hg.vars hv) hg.nodup

end Pydap.Das
