/-
  A concrete case inside the hypotheses of `C10_e2e_index` (used by its non-vacuity example).
-/
import Proofs.Dap4E2E
namespace Pydap.Dap4
open Pydap Pydap.Dmr Pydap.E2E

/-- the chain on a concrete case: `v[1:4:2]` on the Int16 variable `/g/v`, big-endian answer cut into 1-byte chunks … -/
def demoSrc : Source := ⟨"/g/v".toList, 2, [5], [10, 20, 30, 40, 50]⟩
def demoTree : Bytes → XNode := fun _ => renderRoot [] "d".toList (answerSpec ["g".toList] (answerVar "Int16".toList "v".toList [2]))
def demoCut : Bytes → List Bytes := fun b => if b = [] then [[]] else b.map fun x => [x]

theorem demoCut_ok : ∀ b, (demoCut b).flatten = b ∧ demoCut b ≠ [] ∧ ∀ c ∈ demoCut b, c.length < 2 ^ 24 := by
  intro b
  unfold demoCut
  split
  · subst_vars; simp
  · rename_i hne
    have hf : ∀ l : Bytes, (l.map fun x => [x]).flatten = l := by
      intro l
      induction l with
      | nil => rfl
      | cons x xs ih => simp [ih]
    refine ⟨hf b, by simpa using hne, ?_⟩
    · intro c hc
      obtain ⟨x, _, rfl⟩ := List.mem_map.mp hc
      simp

theorem demo_valid : ValidList demoSrc.shape (padPre [] demoSrc.shape.length)
    (npExpand [Idx.sl ⟨some 1, some 4, some 2⟩] none demoSrc.shape.length) := by
  have hs : sel 5 PSlice.all = [0, 1, 2, 3, 4] := by decide
  have hs2 : sel 5 ⟨some 1, some 4, some 2⟩ = [1, 3] := by decide
  show ValidList [5] [PSlice.all] [Idx.sl ⟨some 1, some 4, some 2⟩]
  refine ⟨nonNeg_all, ⟨?_, ?_, ?_, ?_⟩, trivial⟩
  · intro a e; cases e; rw [hs]; decide
  · intro a e; cases e; rw [hs]; decide
  · intro a e; cases e; decide
  · rw [hs]; show sel 5 _ ≠ []; rw [hs2]; simp

theorem demo_numpy : numpyIndex demoSrc.shape demoSrc.vals (padPre [] demoSrc.shape.length)
    (npExpand [Idx.sl ⟨some 1, some 4, some 2⟩] none demoSrc.shape.length) = some ([2], [20, 40]) := by decide


end Pydap.Dap4
