import Proofs.DasNested
/-! `add_attributes` on a DAS that MIXES flat and nested containers over a whole tree (C08): a variable below the top level
    may have a flat container `s.a { … }`, a nested one `s { a { … } }`, both or none. -/
namespace Pydap.Das

/-- `va.update(container)` when a container was found -/
def optUpd (va : Dict) : Option Dict → Dict
  | none => va
  | some e => dupdate va e

/-- the nested loop, each variable starting from its own initial attributes `I id` -/
def nestedAllI (I : List Text → Dict) : Dict → List (List Text) → Except AErr (Dict × List (List Text × Dict))
  | A, [] => .ok (A, [])
  | A, p :: ps =>
    match nestedStep A p (I p) with
    | .error e => .error e
    | .ok (A1, va) =>
      match nestedAllI I A1 ps with
      | .error e => .error e
      | .ok (A2, out) => .ok (A2, (p, va) :: out)

theorem nestedAllI_append (I : List Text → Dict) (ps qs : List (List Text)) : ∀ A : Dict,
    nestedAllI I A (ps ++ qs) =
      match nestedAllI I A ps with
      | .error e => .error e
      | .ok (A1, o1) =>
        match nestedAllI I A1 qs with
        | .error e => .error e
        | .ok (A2, o2) => .ok (A2, o1 ++ o2) := by
  induction ps with
  | nil =>
    intro A
    simp only [List.nil_append, nestedAllI]
    cases nestedAllI I A qs with
    | error e => rfl
    | ok r => rfl
  | cons p ps ih =>
    intro A
    simp only [List.cons_append, nestedAllI]
    cases nestedStep A p (I p) with
    | error e => rfl
    | ok r =>
      obtain ⟨A1, va⟩ := r
      simp only [ih A1]
      cases nestedAllI I A1 ps with
      | error e => rfl
      | ok r1 =>
        obtain ⟨A2, o1⟩ := r1
        simp only
        cases nestedAllI I A2 qs with
        | error e => rfl
        | ok r2 => rfl

theorem nestedAllI_local (I : List Text → Dict) (ps : List (List Text)) : ∀ (A N : Dict) (k : Text),
    (∀ p ∈ ps, p ≠ []) → dget A k = some (.dict N) →
    nestedAllI I A (ps.map (k :: ·)) =
      match nestedAllI (fun q => I (k :: q)) N ps with
      | .ok (N', out) => .ok (dset A k (.dict N'), out.map fun pd => (k :: pd.1, pd.2))
      | .error e => .error e := by
  induction ps with
  | nil => intro A N k _ h; simp [nestedAllI, dset_of_get A k _ h]
  | cons p ps ih =>
    intro A N k hne h
    have hp : p ≠ [] := hne p (by simp)
    obtain ⟨q, qs, rfl⟩ : ∃ q qs, p = q :: qs := by
      cases p with
      | nil => exact absurd rfl hp
      | cons q qs => exact ⟨q, qs, rfl⟩
    simp only [List.map_cons, nestedAllI]
    rw [nestedStep_local A N k q qs _ h]
    cases hs : nestedStep N (q :: qs) (I (k :: q :: qs)) with
    | error e => simp
    | ok r =>
      obtain ⟨N1, va⟩ := r
      simp only
      have h1 : dget (dset A k (.dict N1)) k = some (.dict N1) := dget_dset_self A k _
      rw [ih (dset A k (.dict N1)) N1 k (fun p hp => hne p (by simp [hp])) h1]
      cases hr : nestedAllI (fun q => I (k :: q)) N1 ps with
      | error e => simp
      | ok r2 =>
        obtain ⟨N2, out⟩ := r2
        simp [dset_dset]

theorem nestedAllI_miss (I : List Text → Dict) (ps : List (List Text)) (N : Dict) (n : Text) (hne : ∀ p ∈ ps, p ≠ [])
    (h : ∀ E, dget N n ≠ some (.dict E)) :
    nestedAllI I N (ps.map (n :: ·)) = .ok (N, ps.map fun p => (n :: p, I (n :: p))) := by
  induction ps with
  | nil => rfl
  | cons p ps ih =>
    obtain ⟨q, qs, rfl⟩ : ∃ q qs, p = q :: qs := by
      cases p with
      | nil => exact absurd rfl (hne [] (by simp))
      | cons q qs => exact ⟨q, qs, rfl⟩
    simp only [List.map_cons, nestedAllI, nestedStep_miss N n q qs _ h,
      ih (fun p hp => hne p (by simp [hp]))]

mutual
/-- the container each variable takes by its nested path (`none`: there is none), ids relative to the parent -/
def takenVar (N : Dict) : Var → List (List Text × Option Dict)
  | .mk _ n _ ch =>
    match dget N n with
    | some (.dict E) => (takenVars E ch).map (fun pt => (n :: pt.1, pt.2)) ++ [([n], some (stripKids E ch))]
    | _ => ((walkVars [] ch).reverse.map fun p => (n :: p, none)) ++ [([n], none)]
def takenVars (N : Dict) : List Var → List (List Text × Option Dict)
  | [] => []
  | v :: rest => takenVars N rest ++ takenVar N v
end

/-- what the variables hold: initial attributes updated with the container taken -/
def applyI (I : List Text → Dict) (l : List (List Text × Option Dict)) : List (List Text × Dict) :=
  l.map fun pt => (pt.1, optUpd (I pt.1) pt.2)

theorem takenVar_congr (N N' : Dict) (v : Var) (h : dget N' v.name = dget N v.name) : takenVar N' v = takenVar N v := by
  obtain ⟨k, n, a, ch⟩ := v
  simp only [Var.name] at h
  simp only [takenVar, h]

mutual
theorem nestedI_var : (v : Var) → (I : List Text → Dict) → (N : Dict) → VarDistinct v →
    nestedAllI I N (walkVar [] v).reverse = .ok (popKid N v.name, applyI I (takenVar N v))
  | .mk k n a ch, I, N, hd => by
    simp only [VarDistinct] at hd
    have hne : ∀ p ∈ (walkVars [] ch).reverse, p ≠ [] := fun p hp => walkVars_ne ch p (List.mem_reverse.mp hp)
    rw [walkVar_nil, nestedAllI_append]
    simp only [Var.name, takenVar, popKid]
    cases hN : dget N n with
    | none =>
      rw [nestedAllI_miss I _ N n hne (by intro E h; rw [hN] at h; cases h)]
      simp only [nestedAllI, nestedStep_own, hN]
      simp [applyI, optUpd, List.map_map, Function.comp_def]
    | some x =>
      cases x with
      | sc y =>
        rw [nestedAllI_miss I _ N n hne (by intro E h; rw [hN] at h; cases h)]
        simp only [nestedAllI, nestedStep_own, hN]
        simp [applyI, optUpd, List.map_map, Function.comp_def]
      | list y =>
        rw [nestedAllI_miss I _ N n hne (by intro E h; rw [hN] at h; cases h)]
        simp only [nestedAllI, nestedStep_own, hN]
        simp [applyI, optUpd, List.map_map, Function.comp_def]
      | dict E =>
        rw [nestedAllI_local I _ N E n hne hN, nestedI_vars ch (fun q => I (n :: q)) E hd.2 hd.1]
        simp only [nestedAllI, nestedStep_own, dget_dset_self, derase_dset]
        simp [applyI, optUpd, List.map_map, Function.comp_def]
theorem nestedI_vars : (cs : List Var) → (I : List Text → Dict) → (N : Dict) → VarsDistinct cs → (cs.map Var.name).Nodup →
    nestedAllI I N (walkVars [] cs).reverse = .ok (stripKids N cs, applyI I (takenVars N cs))
  | [], I, N, _, _ => by simp [walkVars, nestedAllI, stripKids, takenVars, applyI]
  | v :: rest, I, N, hd, hn => by
    simp only [VarsDistinct] at hd
    have hn' : v.name ∉ rest.map Var.name ∧ (rest.map Var.name).Nodup := List.nodup_cons.mp hn
    simp only [walkVars, List.reverse_append]
    rw [nestedAllI_append, nestedI_vars rest I N hd.2 hn'.2]
    simp only
    rw [nestedI_var v I (stripKids N rest) hd.1]
    simp only [takenVars]
    rw [takenVar_congr N (stripKids N rest) v (dget_stripKids_ne rest N v.name hn'.1)]
    simp [applyI, stripKids]
end


/-! #### the flat containers of variables below the top level can be taken out beforehand -/

theorem derase_comm (A : Dict) (a b : Text) : derase (derase A a) b = derase (derase A b) a := by
  unfold derase; simp only [List.filter_filter]; congr 1; funext kv; exact Bool.and_comm _ _

theorem derase_dset_ne (A : Dict) (k key : Text) (x : AVal) (h : k ≠ key) :
    derase (dset A k x) key = dset (derase A key) k x := by
  induction A with
  | nil => simp [dset, derase, h]
  | cons y rest ih =>
    obtain ⟨a, b⟩ := y
    by_cases hak : a = k
    · subst hak
      simp [dset, derase, h]
    · by_cases hkey : a = key
      · subst hkey
        simp only [dset, hak, if_false]
        simp only [derase] at ih ⊢
        simp [List.filter]
        simpa using ih
      · simp only [dset, hak, if_false]
        simp only [derase] at ih ⊢
        simp [List.filter, hkey, dset, hak]
        simpa using ih

/-- a visit leaves every top-level entry but the one its path starts with -/
theorem nestedStep_other (A : Dict) (p : List Text) (va A1 va1 : Dict)
    (h : nestedStep A p va = .ok (A1, va1)) (key : Text) (hk : p.head? ≠ some key) : dget A1 key = dget A key := by
  match p, h, hk with
  | [], h, _ => simp [nestedStep] at h; rw [← h.1]
  | [n], h, hk =>
    have hne : key ≠ n := fun e => hk (by simp [e])
    rw [nestedStep_own] at h
    cases hd : dget A n with
    | none => simp [hd] at h; rw [← h.1]
    | some x =>
      cases x with
      | sc y => simp [hd] at h; rw [← h.1]
      | list y => simp [hd] at h; rw [← h.1]
      | dict E => simp [hd] at h; rw [← h.1]; exact dget_derase_ne A n key hne
  | k :: q :: qs, h, hk =>
    have hne : key ≠ k := fun e => hk (by simp [e])
    cases hd : dget A k with
    | none =>
      rw [nestedStep_miss A k q qs va (by intro E hh; rw [hd] at hh; cases hh)] at h
      simp at h; rw [← h.1]
    | some x =>
      cases x with
      | sc y =>
        rw [nestedStep_miss A k q qs va (by intro E hh; rw [hd] at hh; cases hh)] at h
        simp at h; rw [← h.1]
      | list y =>
        rw [nestedStep_miss A k q qs va (by intro E hh; rw [hd] at hh; cases hh)] at h
        simp at h; rw [← h.1]
      | dict N =>
        rw [nestedStep_local A N k q qs va hd] at h
        cases hs : nestedStep N (q :: qs) va with
        | error e => rw [hs] at h; cases h
        | ok r =>
          obtain ⟨N', d⟩ := r
          rw [hs] at h
          simp at h
          rw [← h.1]
          exact dget_dset_ne A key k _ hne

/-- erasing another top-level entry commutes with a visit -/
theorem nestedStep_derase (A : Dict) (p : List Text) (va : Dict) (key : Text) (hk : p.head? ≠ some key) :
    nestedStep (derase A key) p va =
      match nestedStep A p va with
      | .ok (A1, d) => .ok (derase A1 key, d)
      | .error e => .error e := by
  match p, hk with
  | [], _ => simp [nestedStep]
  | [n], hk =>
    have hne : n ≠ key := fun e => hk (by simp [e])
    simp only [nestedStep_own, dget_derase_ne A key n hne]
    cases hd : dget A n with
    | none => rfl
    | some x =>
      cases x with
      | sc y => rfl
      | list y => rfl
      | dict E => simp [derase_comm A key n]
  | k :: q :: qs, hk =>
    have hne : k ≠ key := fun e => hk (by simp [e])
    have hg : dget (derase A key) k = dget A k := dget_derase_ne A key k hne
    cases hd : dget A k with
    | none =>
      rw [nestedStep_miss A k q qs va (by intro E hh; rw [hd] at hh; cases hh),
        nestedStep_miss _ k q qs va (by intro E hh; rw [hg, hd] at hh; cases hh)]
    | some x =>
      cases x with
      | sc y =>
        rw [nestedStep_miss A k q qs va (by intro E hh; rw [hd] at hh; cases hh),
          nestedStep_miss _ k q qs va (by intro E hh; rw [hg, hd] at hh; cases hh)]
      | list y =>
        rw [nestedStep_miss A k q qs va (by intro E hh; rw [hd] at hh; cases hh),
          nestedStep_miss _ k q qs va (by intro E hh; rw [hg, hd] at hh; cases hh)]
      | dict N =>
        rw [nestedStep_local A N k q qs va hd, nestedStep_local _ N k q qs va (by rw [hg, hd])]
        cases hs : nestedStep N (q :: qs) va with
        | error e => rfl
        | ok r =>
          obtain ⟨N', d⟩ := r
          simp only [derase_dset_ne A k key _ hne]


/-- take the containers with these top-level names out (only containers are taken) -/
def popAll (A : Dict) (ks : List Text) : Dict := ks.foldl popKid A

theorem nestedStep_popKid (A : Dict) (p : List Text) (va : Dict) (key : Text) (hk : p.head? ≠ some key) :
    nestedStep (popKid A key) p va =
      match nestedStep A p va with
      | .ok (A1, d) => .ok (popKid A1 key, d)
      | .error e => .error e := by
  obtain ⟨⟨A1, d⟩, hs⟩ := nestedStep_ok A p va
  have ho := nestedStep_other A p va A1 d hs key hk
  rw [hs]
  simp only
  unfold popKid
  rw [ho]
  cases hd : dget A key with
  | none => simpa using hs
  | some x =>
    cases x with
    | sc y => simpa using hs
    | list y => simpa using hs
    | dict E =>
      simp only
      rw [nestedStep_derase A p va key hk, hs]

theorem nestedStep_popAll (ks : List Text) : ∀ (A : Dict) (p : List Text) (va : Dict),
    (∀ key ∈ ks, p.head? ≠ some key) →
    nestedStep (popAll A ks) p va =
      match nestedStep A p va with
      | .ok (A1, d) => .ok (popAll A1 ks, d)
      | .error e => .error e := by
  induction ks with
  | nil => intro A p va _; unfold popAll; simp only [List.foldl_nil]; cases nestedStep A p va with
    | error e => rfl
    | ok r => rfl
  | cons k ks ih =>
    intro A p va h
    show nestedStep (popAll (popKid A k) ks) p va = _
    rw [ih (popKid A k) p va (fun key hk => h key (List.mem_cons_of_mem _ hk)),
      nestedStep_popKid A p va k (h k (by simp))]
    cases nestedStep A p va with
    | error e => rfl
    | ok r => rfl

theorem nestedAllI_congr (I J : List Text → Dict) (ps : List (List Text)) : ∀ A : Dict,
    (∀ q ∈ ps, I q = J q) → nestedAllI I A ps = nestedAllI J A ps := by
  induction ps with
  | nil => intro A _; rfl
  | cons p ps ih =>
    intro A h
    simp only [nestedAllI, h p (by simp)]
    cases nestedStep A p (J p) with
    | error e => rfl
    | ok r =>
      obtain ⟨A1, va⟩ := r
      simp only [ih A1 (fun q hq => h q (List.mem_cons_of_mem _ hq))]

/-- the initial attributes of a variable: the flat container `s.a { … }` of a variable below the top level -/
def flatI (A : Dict) (p : List Text) : Dict :=
  if p.length = 1 then []
  else match dget A (dotted p) with
    | some (.dict F) => dupdate [] F
    | _ => []

/-- the dotted ids of the variables below the top level -/
def deepKeys (ps : List (List Text)) : List Text := (ps.filter fun p => p.length != 1).map dotted

/-- no variable below the top level has a dotted id that is the first name of an id -/
def HeadsOk (ps : List (List Text)) : Prop := ∀ p ∈ ps, ∀ q ∈ ps, q.length ≠ 1 → p.head? ≠ some (dotted q)

theorem flatI_congr (A A1 : Dict) (ps : List (List Text))
    (h : ∀ q ∈ ps, q.length ≠ 1 → dget A1 (dotted q) = dget A (dotted q)) : ∀ q ∈ ps, flatI A1 q = flatI A q := by
  intro q hq
  unfold flatI
  by_cases hl : q.length = 1
  · simp [hl]
  · simp only [hl, if_false, h q hq hl]

/-- **the loop of `add_attributes` = the nested loop on the dict without the flat containers of deeper variables, each
    such variable starting from its flat container** -/
theorem attachAll_mixed (ps : List (List Text)) : ∀ (A : Dict), HeadsOk ps → (ps.map dotted).Nodup →
    attachAll A ps = nestedAllI (flatI A) (popAll A (deepKeys ps)) ps := by
  induction ps with
  | nil => intro A _ _; rfl
  | cons p ps ih =>
    intro A hh hn
    have hn' : dotted p ∉ ps.map dotted ∧ (ps.map dotted).Nodup := List.nodup_cons.mp hn
    have hh' : HeadsOk ps := fun a ha b hb => hh a (List.mem_cons_of_mem _ ha) b (List.mem_cons_of_mem _ hb)
    have hhead : ∀ key ∈ deepKeys ps, p.head? ≠ some key := by
      intro key hkey
      simp only [deepKeys, List.mem_map, List.mem_filter] at hkey
      obtain ⟨q, ⟨hq, hl⟩, rfl⟩ := hkey
      exact hh p (by simp) q (List.mem_cons_of_mem _ hq) (by simpa using hl)
    -- the tail of the loop after a first step that ends in `A1`
    have tail : ∀ (A1 : Dict), (∀ q ∈ ps, q.length ≠ 1 → dget A1 (dotted q) = dget A (dotted q)) →
        attachAll A1 ps = nestedAllI (flatI A) (popAll A1 (deepKeys ps)) ps := by
      intro A1 hB
      rw [ih A1 hh' hn'.2]
      exact nestedAllI_congr _ _ ps _ (flatI_congr A A1 ps hB)
    by_cases hl : p.length = 1
    · -- a top-level variable: the flat lookup is the nested one
      obtain ⟨n, rfl⟩ := List.length_eq_one_iff.mp hl
      have hK : deepKeys ([n] :: ps) = deepKeys ps := by simp [deepKeys]
      obtain ⟨⟨A1, va⟩, hs⟩ := nestedStep_ok A [n] []
      have hI : flatI A [n] = [] := by simp [flatI]
      have ht := tail A1 (fun q hq hlq =>
        nestedStep_other A [n] [] A1 va hs _ (hh [n] (by simp) q (List.mem_cons_of_mem _ hq) hlq))
      simp only [attachAll, nestedAllI, attachStep_top, hs, hK, hI,
        nestedStep_popAll (deepKeys ps) A [n] [] hhead, ht]
      cases nestedAllI (flatI A) (popAll A1 (deepKeys ps)) ps <;> rfl
    · have hK : deepKeys (p :: ps) = dotted p :: deepKeys ps := by simp [deepKeys, hl]
      by_cases hF : ∃ F, dget A (dotted p) = some (.dict F)
      · obtain ⟨F, hd⟩ := hF
        have hI : flatI A p = dupdate [] F := by simp [flatI, hl, hd]
        have hP : popKid A (dotted p) = derase A (dotted p) := by simp [popKid, hd]
        obtain ⟨⟨A1, va⟩, hs⟩ := nestedStep_ok (derase A (dotted p)) p (dupdate [] F)
        have hstep : attachStep A p [] = nestedStep (derase A (dotted p)) p (dupdate [] F) := by
          simp [attachStep, hd]
        have ht := tail A1 (by
          intro q hq hlq
          rw [nestedStep_other _ p _ A1 va hs _ (hh p (by simp) q (List.mem_cons_of_mem _ hq) hlq)]
          apply dget_derase_ne
          intro e
          exact hn'.1 (by rw [← e]; exact List.mem_map_of_mem hq))
        have hR : nestedStep (popAll A (dotted p :: deepKeys ps)) p (dupdate [] F)
            = .ok (popAll A1 (deepKeys ps), va) := by
          show nestedStep (popAll (popKid A (dotted p)) (deepKeys ps)) p (dupdate [] F) = _
          rw [hP, nestedStep_popAll (deepKeys ps) _ p _ hhead, hs]
        simp only [attachAll, nestedAllI, hstep, hs, hK, hI, hR, ht]
        cases nestedAllI (flatI A) (popAll A1 (deepKeys ps)) ps <;> rfl
      · have hnd : ∀ F, dget A (dotted p) ≠ some (.dict F) := fun F h => hF ⟨F, h⟩
        have hI : flatI A p = [] := by
          unfold flatI; rw [if_neg hl]; split
          · rename_i F h; exact absurd h (hnd F)
          · rfl
        have hP : popKid A (dotted p) = A := by
          unfold popKid; split
          · rename_i F h; exact absurd h (hnd F)
          · rfl
        have hstep : attachStep A p [] = nestedStep A p [] := by
          unfold attachStep; split
          · rename_i F h; exact absurd h (hnd F)
          · rfl
        obtain ⟨⟨A1, va⟩, hs⟩ := nestedStep_ok A p []
        have ht := tail A1 (fun q hq hlq =>
          nestedStep_other A p [] A1 va hs _ (hh p (by simp) q (List.mem_cons_of_mem _ hq) hlq))
        have hR : nestedStep (popAll A (dotted p :: deepKeys ps)) p [] = .ok (popAll A1 (deepKeys ps), va) := by
          show nestedStep (popAll (popKid A (dotted p)) (deepKeys ps)) p [] = _
          rw [hP, nestedStep_popAll (deepKeys ps) _ p _ hhead, hs]
        simp only [attachAll, nestedAllI, hstep, hs, hK, hI, hR, ht]
        cases nestedAllI (flatI A) (popAll A1 (deepKeys ps)) ps <;> rfl


theorem walkVars_head' (cs : List Var) : ∀ p ∈ walkVars [] cs, ∃ v ∈ cs, p.head? = some v.name := by
  induction cs with
  | nil => intro p hp; simp [walkVars] at hp
  | cons v rest ih =>
    intro p hp
    simp only [walkVars, List.mem_append] at hp
    rcases hp with hp | hp
    · obtain ⟨r, rfl⟩ := walkVar_head v p hp; exact ⟨v, by simp, rfl⟩
    · obtain ⟨w, hw, e⟩ := ih p hp; exact ⟨w, by simp [hw], e⟩

/-- with dot-free top-level names no dotted id of a deeper variable is the first name of an id -/
theorem headsOk_of_nodot (cs : List Var) (h : ∀ v ∈ cs, '.' ∉ v.name) : HeadsOk (visitIds cs) := by
  intro p hp q hq hl e
  obtain ⟨v, hv, hpv⟩ := walkVars_head' cs p (List.mem_reverse.mp hp)
  have hqne : q ≠ [] := walkVars_ne cs q (List.mem_reverse.mp hq)
  rw [hpv] at e
  injection e with e
  match q, hqne, hl with
  | [n], _, hl => exact hl rfl
  | k :: r :: rs, _, _ => exact h v hv (by rw [e]; exact dotted_has_dot k r rs)

/-- what `add_attributes` must produce from a DAS mixing flat and nested containers: `A0` = the parsed dict without the
    dict-valued NC_GLOBAL/DODS_EXTRA, `A1` = `A0` without the flat containers of the variables below the top level -/
def mixedExpected (cs : List Var) (A : Dict) : Attached :=
  let A0 := A.filter notGlobal
  let A1 := popAll A0 (deepKeys (visitIds cs))
  ⟨dupdate (mergeGlobals A []) (stripKids A1 cs), applyI (flatI A0) (takenVars A1 cs)⟩

/-- **`add_attributes` on a DAS mixing flat and nested containers, whole tree** -/
theorem mixed_attach (name : Text) (cs : List Var) (A : Dict)
    (hd : VarsDistinct cs) (hn : (cs.map Var.name).Nodup) (hdot : ∀ v ∈ cs, '.' ∉ v.name)
    (hids : ((visitIds cs).map dotted).Nodup)
    (hself : ∀ e, dget (stripKids (popAll (A.filter notGlobal) (deepKeys (visitIds cs))) cs) name ≠ some (.dict e)) :
    addAttributes name cs A = .ok (mixedExpected cs A) := by
  unfold addAttributes mixedExpected
  have h1 := attachAll_mixed (visitIds cs) (A.filter notGlobal) (headsOk_of_nodot cs hdot) hids
  have h2 := nestedI_vars cs (flatI (A.filter notGlobal)) (popAll (A.filter notGlobal) (deepKeys (visitIds cs))) hd hn
  unfold visitIds notGlobal at h1 h2 hself
  unfold visitIds notGlobal
  simp only [h1, h2, attachStep_top, nestedStep_own]

/-- the dataset's own visit (last): a leftover container named like the dataset is merged into its attributes -/
def finalGlobals (g R : Dict) (name : Text) : Dict :=
  match dget R name with
  | some (.dict E) => dupdate (dupdate g E) (derase R name)
  | _ => dupdate g R

/-- **mixed style without the guard on the dataset's name** -/
theorem mixed_attach_total (name : Text) (cs : List Var) (A : Dict)
    (hd : VarsDistinct cs) (hn : (cs.map Var.name).Nodup) (hdot : ∀ v ∈ cs, '.' ∉ v.name)
    (hids : ((visitIds cs).map dotted).Nodup) :
    addAttributes name cs A = .ok
      ⟨finalGlobals (mergeGlobals A []) (stripKids (popAll (A.filter notGlobal) (deepKeys (visitIds cs))) cs) name,
       (mixedExpected cs A).vars⟩ := by
  unfold addAttributes mixedExpected finalGlobals
  have h1 := attachAll_mixed (visitIds cs) (A.filter notGlobal) (headsOk_of_nodot cs hdot) hids
  have h2 := nestedI_vars cs (flatI (A.filter notGlobal)) (popAll (A.filter notGlobal) (deepKeys (visitIds cs))) hd hn
  unfold visitIds notGlobal at h1 h2
  unfold visitIds notGlobal
  simp only [h1, h2, attachStep_top, nestedStep_own]
  cases hN : dget (stripKids (popAll (A.filter fun kv => !isGlobalDict kv) (deepKeys (walkVars [] cs).reverse)) cs) name with
  | none => rfl
  | some x =>
    cases x with
    | sc y => rfl
    | list y => rfl
    | dict E => rfl

/-! #### the outcome read as lookups -/

theorem mem_takenVars_of_mem (N : Dict) (cs : List Var) (v : Var) (hv : v ∈ cs) :
    ∀ pt ∈ takenVar N v, pt ∈ takenVars N cs := by
  induction cs with
  | nil => cases hv
  | cons w rest ih =>
    intro pt hpt
    simp only [takenVars, List.mem_append]
    rcases List.mem_cons.mp hv with rfl | hv
    · exact Or.inr hpt
    · exact Or.inl (ih hv pt hpt)

theorem taken_some (N : Dict) (cs : List Var) (v : Var) (hv : v ∈ cs) (E : Dict) (h : dget N v.name = some (.dict E)) :
    ([v.name], some (stripKids E v.children)) ∈ takenVars N cs
    ∧ ∀ q t, (q, t) ∈ takenVars E v.children → (v.name :: q, t) ∈ takenVars N cs := by
  obtain ⟨k, n, a, ch⟩ := v
  simp only [Var.name, Var.children] at h ⊢
  refine ⟨mem_takenVars_of_mem N cs _ hv _ ?_, fun q t hq => mem_takenVars_of_mem N cs _ hv _ ?_⟩
  · simp [takenVar, h]
  · simp only [takenVar, h, List.mem_append]
    exact Or.inl (List.mem_map.mpr ⟨(q, t), hq, rfl⟩)

theorem taken_none (N : Dict) (cs : List Var) (v : Var) (hv : v ∈ cs) (h : ∀ E, dget N v.name ≠ some (.dict E)) :
    ([v.name], none) ∈ takenVars N cs ∧ ∀ p ∈ walkVars [] v.children, (v.name :: p, none) ∈ takenVars N cs := by
  obtain ⟨k, n, a, ch⟩ := v
  simp only [Var.name, Var.children] at h ⊢
  have hu : takenVar N (.mk k n a ch) = ((walkVars [] ch).reverse.map fun p => (n :: p, none)) ++ [([n], none)] := by
    cases hd : dget N n with
    | none => simp only [takenVar, hd]
    | some x =>
      cases x with
      | sc y => simp only [takenVar, hd]
      | list y => simp only [takenVar, hd]
      | dict E => exact absurd hd (h E)
  refine ⟨mem_takenVars_of_mem N cs _ hv _ ?_, fun p hp => mem_takenVars_of_mem N cs _ hv _ ?_⟩
  · rw [hu]; simp
  · rw [hu]
    simp only [List.mem_append]
    exact Or.inl (List.mem_map.mpr ⟨p, List.mem_reverse.mpr hp, rfl⟩)

/-- a variable listed with the container `t` taken by its nested path holds its flat container updated with `t` -/
theorem applyI_mem (I : List Text → Dict) (l : List (List Text × Option Dict)) (p : List Text) (t : Option Dict)
    (h : (p, t) ∈ l) : (p, optUpd (I p) t) ∈ applyI I l :=
  List.mem_map.mpr ⟨(p, t), h, rfl⟩

/-- example: `s { a { x } }` together with `s.a { y }` and `b { u }` -/
def exMixedA : Dict :=
  [("s".toList, .dict [("a".toList, .dict [("x".toList, .sc (.num "1".toList false))])]),
   ("s.a".toList, .dict [("y".toList, .sc (.num "2".toList false))]),
   ("b".toList, .dict [("u".toList, .sc (.num "1".toList false))])]

end Pydap.Das
