/-
  C09 helper lemmas for the declaration-tree decoder (`PydapModel/StreamTree.lean`): the fuel given to the
  marker loops is irrelevant beyond the length of the input, and never runs out.
-/
import PydapModel.StreamTree
import Proofs.Stream
import Proofs.StreamSeq
import Proofs.StreamFuel
namespace Pydap.Stream

theorem seqLoopG_run (record : Dec (List Tok)) (f : Nat) (b : Bytes) :
    (seqLoopG record (f + 1)).runBR b = (match brRead 4 b with
      | .error e => .error e
      | .ok m =>
        if m.1 = Pydap.Gen.START_OF_SEQUENCE then
          match record.runBR m.2 with
          | .error e => .error e
          | .ok r => match (seqLoopG record f).runBR r.2 with
            | .error e => .error e
            | .ok rs => .ok (Tok.rowStart :: r.1 ++ rs.1, rs.2)
        else .ok ([Tok.seqEnd], m.2)) := by
  simp only [seqLoopG, Dec.runBR]
  cases brRead 4 b with
  | error e => rfl
  | ok m =>
    simp only []
    by_cases hm : m.1 = Pydap.Gen.START_OF_SEQUENCE
    · simp only [hm, if_true, runBR_bind]
      cases record.runBR m.2 with
      | error e => rfl
      | ok r =>
        simp only []
        cases (seqLoopG record f).runBR r.2 with
        | error e => rfl
        | ok rs => rfl
    · simp [hm, Dec.runBR]

/-- two record decoders that agree on everything shorter than the input by a marker give the same loop,
    whatever the fuel beyond the length of the input -/
theorem seqLoopG_congr (r1 r2 : Dec (List Tok)) : ∀ (f1 f2 : Nat) (b : Bytes), b.length < f1 → b.length < f2 →
    (∀ b' : Bytes, b'.length + 4 ≤ b.length → r1.runBR b' = r2.runBR b') →
    (seqLoopG r1 f1).runBR b = (seqLoopG r2 f2).runBR b := by
  intro f1
  induction f1 with
  | zero => intro f2 b h; omega
  | succ f1 ih =>
    intro f2 b h1 h2 hr
    obtain ⟨f2, rfl⟩ : ∃ g, f2 = g + 1 := ⟨f2 - 1, by omega⟩
    rw [seqLoopG_run, seqLoopG_run]
    cases hb : brRead 4 b with
    | error e => rfl
    | ok m =>
      have hl := brRead_ok_length hb
      simp only []
      split
      · rw [hr m.2 (by omega)]
        cases hrr : r2.runBR m.2 with
        | error e => rfl
        | ok r =>
          have hlen := runBR_length _ _ _ _ (show r2.runBR m.2 = .ok (r.1, r.2) from hrr)
          simp only []
          rw [ih f2 r.2 (by omega) (by omega) (fun b' hb' => hr b' (by omega))]
      · rfl

mutual
theorem decT_fuel (f1 f2 : Nat) : (t : Tmpl) → ∀ b : Bytes, b.length < f1 → b.length < f2 →
    (decT f1 t).runBR b = (decT f2 t).runBR b
  | .fixed w, b, _, _ => by simp [decT]
  | .byte, b, _, _ => by simp [decT]
  | .str, b, _, _ => by simp [decT]
  | .arr w n, b, _, _ => by simp [decT]
  | .strArr n, b, _, _ => by simp [decT]
  | .seq cols, b, h1, h2 => by
    unfold decT
    split
    · exact seqLoopG_congr _ _ f1 f2 b h1 h2 (fun _ _ => rfl)
    · exact seqLoopG_congr _ _ f1 f2 b h1 h2 (fun b' hb' => decTs_fuel f1 f2 cols b' (by omega) (by omega))
  | .struct fs, b, h1, h2 => by
    unfold decT
    exact decTs_fuel f1 f2 fs b h1 h2
theorem decTs_fuel (f1 f2 : Nat) : (ts : List Tmpl) → ∀ b : Bytes, b.length < f1 → b.length < f2 →
    (decTs f1 ts).runBR b = (decTs f2 ts).runBR b
  | [], b, _, _ => by simp [decTs]
  | t :: ts, b, h1, h2 => by
    unfold decTs
    rw [runBR_bind, runBR_bind, decT_fuel f1 f2 t b h1 h2]
    cases hr : (decT f2 t).runBR b with
    | error e => rfl
    | ok x =>
      have hlen := runBR_length _ _ _ _ (show (decT f2 t).runBR b = .ok (x.1, x.2) from hr)
      simp only []
      rw [runBR_bind, runBR_bind, decTs_fuel f1 f2 ts x.2 (by omega) (by omega)]
end

/-- **every body `unpack_dap2_data` accepts is prefix-free** -/
theorem unpackData_prefix (vars : List Tmpl) (b p : Bytes) (toks : List Tok) (rest : Bytes)
    (h : unpackData vars b = .ok (toks, rest)) (hp : p <+: b) :
    (∃ rest', unpackData vars p = .ok (toks, rest')) ∨ unpackData vars p = .error .eof := by
  unfold unpackData at h ⊢
  have hl := hp.length_le
  rw [decTs_fuel (p.length + 1) (b.length + 1) vars p (by omega) (by omega)]
  rcases runBR_prefix _ b p toks rest h hp with ⟨_, h2⟩ | ⟨_, h2⟩
  · exact .inl ⟨_, h2⟩
  · exact .inr h2

theorem unpackDataStream_eq (vars : List Tmpl) (cs : List Bytes) :
    absSR (unpackDataStream vars ⟨cs, []⟩) = unpackData vars cs.flatten := by
  have h := run_sim (decTs ((⟨cs, []⟩ : SR).abs.length + 1) vars) ⟨cs, []⟩
  have habs : (⟨cs, []⟩ : SR).abs = cs.flatten := by simp [SR.abs]
  rw [habs] at h
  simp only [unpackDataStream, unpackData, habs]
  exact h

/-! ### the fuel never runs out -/

theorem decStrRaw_noFuel : NoFuel decStrRaw := by
  unfold decStrRaw
  refine NoFuel.read _ _ fun l => ?_
  split
  · exact NoFuel.fail _ (by decide)
  · split
    · exact NoFuel.fail _ (by decide)
    · exact NoFuel.read _ _ fun s => NoFuel.read _ _ fun _ => NoFuel.ret _

theorem decStrs_noFuel : ∀ n, NoFuel (decStrs n) := by
  intro n
  induction n with
  | zero => exact NoFuel.ret _
  | succ n ih => exact decStrRaw_noFuel.bind fun s => ih.bind fun ss => NoFuel.ret _

theorem seqLoopG_noFuel (record : Dec (List Tok)) : ∀ (f : Nat) (b : Bytes), b.length < f →
    (∀ b' : Bytes, b'.length + 4 ≤ b.length → record.runBR b' ≠ .error .fuel) →
    (seqLoopG record f).runBR b ≠ .error .fuel := by
  intro f
  induction f with
  | zero => intro b h; omega
  | succ f ih =>
    intro b hf hrec
    rw [seqLoopG_run]
    cases hb : brRead 4 b with
    | error e =>
      unfold brRead at hb
      split at hb <;> cases hb
      simp
    | ok m =>
      have hl := brRead_ok_length hb
      simp only []
      split
      · cases hr : record.runBR m.2 with
        | error e =>
          simp only []
          intro hh
          cases hh
          exact hrec m.2 (by omega) hr
        | ok r =>
          have h2 := runBR_length _ _ _ _ (show record.runBR m.2 = .ok (r.1, r.2) from hr)
          have h3 := ih r.2 (by omega) (fun b' hb' => hrec b' (by omega))
          simp only []
          cases hi : (seqLoopG record f).runBR r.2 with
          | error e => simp only []; intro hh; cases hh; exact h3 hi
          | ok rs => simp
      · simp

theorem leaf_noFuel_fixed (w : Nat) : NoFuel (Dec.read w fun b => if b.length = w then Dec.ret [Tok.val b] else Dec.fail Err.value) := by
  refine NoFuel.read _ _ fun b => ?_
  split
  · exact NoFuel.ret _
  · exact NoFuel.fail _ (by decide)

mutual
theorem decT_noFuel (f : Nat) : (t : Tmpl) → ∀ b : Bytes, b.length < f → (decT f t).runBR b ≠ .error .fuel
  | .fixed w, b, _ => by
    unfold decT
    exact (leaf_noFuel_fixed w).run b
  | .byte, b, _ => by
    unfold decT
    refine NoFuel.run (NoFuel.read _ _ fun x => ?_) b
    split
    · exact NoFuel.read _ _ fun _ => NoFuel.ret _
    · exact NoFuel.fail _ (by decide)
  | .str, b, _ => by
    unfold decT
    exact (decStr_noFuel.bind fun s => NoFuel.ret _).run b
  | .arr w n, b, _ => by
    unfold decT
    refine NoFuel.run (NoFuel.read _ _ fun l => ?_) b
    split
    · exact NoFuel.fail _ (by decide)
    · split
      · exact NoFuel.fail _ (by decide)
      · refine NoFuel.read _ _ fun _ => NoFuel.read _ _ fun x => ?_
        split
        · exact NoFuel.fail _ (by decide)
        · split
          · exact NoFuel.read _ _ fun _ => NoFuel.ret _
          · exact NoFuel.ret _
  | .strArr n, b, _ => by
    unfold decT
    refine NoFuel.run (NoFuel.read _ _ fun l => ?_) b
    split
    · exact NoFuel.fail _ (by decide)
    · split
      · exact NoFuel.fail _ (by decide)
      · refine (decStrs_noFuel _).bind fun ss => ?_
        split
        · exact NoFuel.fail _ (by decide)
        · exact NoFuel.ret _
  | .seq cols, b, h => by
    unfold decT
    split
    · refine seqLoopG_noFuel _ f b h (fun b' _ => NoFuel.run (NoFuel.read _ _ fun x => ?_) b')
      split
      · exact NoFuel.ret _
      · exact NoFuel.fail _ (by decide)
    · exact seqLoopG_noFuel _ f b h (fun b' hb' => decTs_noFuel f cols b' (by omega))
  | .struct fs, b, h => by
    unfold decT
    exact decTs_noFuel f fs b h
theorem decTs_noFuel (f : Nat) : (ts : List Tmpl) → ∀ b : Bytes, b.length < f → (decTs f ts).runBR b ≠ .error .fuel
  | [], b, _ => by simp [decTs, Dec.runBR]
  | t :: ts, b, h => by
    unfold decTs
    rw [runBR_bind]
    cases hr : (decT f t).runBR b with
    | error e =>
      simp only []
      intro hh
      cases hh
      exact decT_noFuel f t b h hr
    | ok x =>
      have hlen := runBR_length _ _ _ _ (show (decT f t).runBR b = .ok (x.1, x.2) from hr)
      simp only []
      rw [runBR_bind]
      cases hr2 : (decTs f ts).runBR x.2 with
      | error e =>
        simp only []
        intro hh
        cases hh
        exact decTs_noFuel f ts x.2 (by omega) hr2
      | ok y => simp [Dec.runBR]
end

theorem unpackData_noFuel (vars : List Tmpl) (data : Bytes) : unpackData vars data ≠ .error .fuel :=
  decTs_noFuel _ vars data (by omega)

end Pydap.Stream
