/-
  C09 helper lemmas: `SequenceProxy.__iter__` = pattern search + StreamReader + marker loop, as a function of
  the concatenated response only; what the search returns on a prefix of a response.
-/
import PydapModel.Stream
import Proofs.Stream
import Proofs.StreamFind
namespace Pydap.Stream

theorem dataPattern_ne_nil : dataPattern ≠ [] := by decide

/-- what the client makes of a response, written on the concatenated bytes -/
def clientSpec (cols : List Col) (resp : Bytes) : Except Err (List Row) :=
  match afterFirst dataPattern resp with
  | none => .error .noData
  | some body => match unpackSeqBytes cols body with
    | .error e => .error e
    | .ok x => .ok x.1

theorem clientSeq_eq_spec (cols : List Col) (cs : List Bytes) : clientSeq cols cs = clientSpec cols cs.flatten := by
  have hs := findPattern_spec dataPattern dataPattern_ne_nil cs
  unfold clientSeq clientStream clientSpec
  cases hf : findPattern dataPattern cs with
  | none =>
    rw [hf] at hs
    simp only [Option.map_none] at hs
    rw [← hs]
  | some x =>
    rw [hf] at hs
    simp only [Option.map_some] at hs
    rw [← hs]
    simp only [unpackSeqStream, unpackSeqBytes]
    have habs : (⟨x.1 :: x.2, []⟩ : SR).abs = x.1 ++ x.2.flatten := by simp [SR.abs]
    have := run_sim (seqLoop cols ((⟨x.1 :: x.2, []⟩ : SR).abs.length + 1)) ⟨x.1 :: x.2, []⟩
    rw [habs] at this
    rw [habs, ← this]
    cases (seqLoop cols ((x.1 ++ x.2.flatten).length + 1)).runSR ⟨x.1 :: x.2, []⟩ with
    | error e => rfl
    | ok y => rfl

/-- the search on a prefix of a response: nothing found, or a prefix of what the full response gives, shorter
    by exactly the number of bytes cut -/
theorem afterFirst_prefix (pat : Bytes) (hpat : pat ≠ []) : ∀ (b s : Bytes), afterFirst pat b = some s →
    ∀ p, p <+: b → afterFirst pat p = none ∨
      ∃ s', afterFirst pat p = some s' ∧ s' <+: s ∧ s'.length + b.length = s.length + p.length := by
  intro b
  induction b with
  | nil => intro s h; simp [afterFirst, hpat] at h
  | cons a t ih =>
    intro s h p hp
    cases p with
    | nil => left; simp [afterFirst, hpat]
    | cons a' p' =>
      have ha : a' = a := by
        obtain ⟨r, hr⟩ := hp; simp at hr; exact hr.1
      subst ha
      have hp' : p' <+: t := by
        obtain ⟨r, hr⟩ := hp; simp at hr; exact ⟨r, hr⟩
      cases hh : pat.isPrefixOf (a' :: t) with
      | true =>
        have hs : s = (a' :: t).drop pat.length := by
          unfold afterFirst at h; simp [hh] at h; exact h.symm
        have hpre := List.isPrefixOf_iff_prefix.mp hh
        by_cases hl : pat.length ≤ (a' :: p').length
        · right
          have h2 : pat <+: a' :: p' := List.prefix_of_prefix_length_le hpre hp hl
          have h2' := List.isPrefixOf_iff_prefix.mpr h2
          refine ⟨(a' :: p').drop pat.length, by unfold afterFirst; simp [h2'], ?_, ?_⟩
          · rw [hs]
            obtain ⟨r, hr⟩ := hp
            exact ⟨r, by rw [← hr, List.drop_append_of_le_length hl]⟩
          · rw [hs]; simp only [List.length_drop]
            have := hpre.length_le
            omega
        · left
          exact afterFirst_short pat _ (by omega)
      | false =>
        have h1 : afterFirst pat t = some s := by
          unfold afterFirst at h; simpa [hh] using h
        have h3 : pat.isPrefixOf (a' :: p') = false := by
          cases h4 : pat.isPrefixOf (a' :: p') with
          | false => rfl
          | true =>
            have := (List.isPrefixOf_iff_prefix.mp h4).trans hp
            rw [← List.isPrefixOf_iff_prefix, hh] at this
            cases this
        rcases ih s h1 p' hp' with hn | ⟨s', e1, e2, e3⟩
        · left; unfold afterFirst; simp [h3, hn]
        · right
          refine ⟨s', by unfold afterFirst; simp [h3, e1], e2, ?_⟩
          simp; omega

theorem ddsSeparator_ne_nil : ddsSeparator ≠ [] := by decide

/-- the array path on a prefix of a response it decodes: the same value, or an error -/
theorem bodyPath_prefix (d : Dec α) (resp p : Bytes) (a : α) (h : bodyPath d resp = .ok a) (hp : p <+: resp) :
    bodyPath d p = .ok a ∨ bodyPath d p = .error .noData ∨ bodyPath d p = .error .eof := by
  unfold bodyPath splitData at h ⊢
  cases hs : afterFirst ddsSeparator resp with
  | none => rw [hs] at h; cases h
  | some s =>
    rw [hs] at h
    simp only [] at h
    cases hr : d.runBR s with
    | error e => rw [hr] at h; cases h
    | ok x =>
      rw [hr] at h
      simp only [fstOf] at h
      cases h
      rcases afterFirst_prefix ddsSeparator ddsSeparator_ne_nil resp s hs p hp with hn | ⟨s', e1, e2, _⟩
      · right; left; rw [hn]
      · rw [e1]
        simp only []
        rcases runBR_prefix d s s' x.1 x.2 hr e2 with ⟨_, h2⟩ | ⟨_, h2⟩
        · left; rw [h2]; rfl
        · right; right; rw [h2]; rfl

end Pydap.Stream
