/-
  C15 — the unconstrained request (`?` empty: projection = every variable whole, no selection) of a well-formed
  dataset with distinct variable names goes through the whole of `BaseHandler.parse` without raising.
-/
import PydapModel.Handler
import Proofs.Handler
import Proofs.HandlerWF
import Proofs.Arrayterator
namespace Pydap.Handler

def wholeItem (v : Var) : ProjItem := .path [(v.name, [])]

theorem collect_whole (src : Dataset) : ∀ (vs out : List Var),
    (∀ v ∈ vs, findVar src.vars v.name = some v) → (vs.map Var.name).Nodup →
    (∀ v ∈ vs, ∀ o ∈ out, o.name ≠ v.name) →
    (vs.map wholeItem).foldlM (collect1 src) out = .ok (out ++ vs)
  | [], out, _, _, _ => by simp [pure, Except.pure]
  | v :: vs, out, hf, hn, hd => by
    have hfv := hf v (by simp)
    have hfilter : out.filter (fun o => o.name ≠ v.name) = out := by
      apply List.filter_eq_self.mpr
      intro o ho; simpa using hd v (by simp) o ho
    have hnot : (out.map Var.name).contains v.name = false := by
      cases hc : (out.map Var.name).contains v.name with
      | false => rfl
      | true =>
        simp only [List.contains_iff_mem, List.mem_map] at hc
        obtain ⟨o, ho, he⟩ := hc
        exact absurd he (hd v (by simp) o ho)
    have hstep : collect1 src out (wholeItem v) = .ok (out ++ [v]) := by
      simp only [wholeItem, collect1, collect1Core, hfv]
      cases v with
      | base b => simp [setVar, Var.name] at hfilter ⊢; simpa [Var.name] using hfilter
      | struct n ms => simp_all [Var.name]
      | grid n a ms => simp_all [Var.name]
      | seq n c r => simp_all [Var.name]
    simp only [List.map_cons, List.foldlM_cons, hstep, bind, Except.bind]
    have hn' : (vs.map Var.name).Nodup := (List.nodup_cons.mp (by simpa using hn)).2
    have hnv : v.name ∉ vs.map Var.name := (List.nodup_cons.mp (by simpa using hn)).1
    rw [collect_whole src vs (out ++ [v]) (fun w hw => hf w (by simp [hw])) hn' ?_]
    · simp
    · intro w hw o ho
      simp only [List.mem_append, List.mem_singleton] at ho
      rcases ho with ho | rfl
      · exact hd w (by simp [hw]) o ho
      · intro he; exact hnv (by rw [he]; exact List.mem_map_of_mem hw)

theorem slice_whole : ∀ (vs out : List Var), (vs.map wholeItem).foldlM slice1 out = .ok out
  | [], out => by simp [pure, Except.pure]
  | v :: vs, out => by
    simp [List.foldlM_cons, wholeItem, slice1, bind, Except.bind]
    exact slice_whole vs out

theorem optMapM_some {α β : Type} (f : α → Option β) : ∀ (l : List α), (∀ x ∈ l, ∃ y, f x = some y) → ∃ ys, l.mapM f = some ys
  | [], _ => ⟨[], rfl⟩
  | x :: xs, h => by
    obtain ⟨y, hy⟩ := h x (by simp)
    obtain ⟨ys, hys⟩ := optMapM_some f xs (fun z hz => h z (by simp [hz]))
    exact ⟨y :: ys, by simp [List.mapM_cons, hy, hys]⟩

theorem colIndex_mem (cols : List (Str × Str)) (c : Str × Str) (hc : c ∈ cols) :
    ∃ i, colIndex cols c.1 = some i ∧ i < cols.length := by
  unfold colIndex
  cases h : cols.findIdx? (fun x => x.1 = c.1) with
  | none =>
    rw [List.findIdx?_eq_none_iff] at h
    simpa using h c hc
  | some i =>
    exact ⟨i, rfl, by have := List.findIdx?_eq_some_iff_getElem.mp h; exact this.1⟩

theorem fixSeqData_self (src : Dataset) (v : Var) (hv : v.WF) (hf : findVar src.vars v.name = some v) :
    ∃ v', fixSeqData src v = .ok v' := by
  cases v with
  | seq n cols rows =>
    simp only [Var.name] at hf
    simp only [fixSeqData, hf]
    obtain ⟨idx, hidx⟩ := optMapM_some (fun c : Str × Str => colIndex cols c.1) cols
      (fun c hc => by obtain ⟨i, hi, _⟩ := colIndex_mem cols c hc; exact ⟨i, hi⟩)
    rw [hidx]
    have hlt : ∀ i ∈ idx, i < cols.length := by
      intro i hi
      obtain ⟨c, hc, hci⟩ := optMapM_mem _ _ _ hidx i hi
      obtain ⟨j, hj, hjl⟩ := colIndex_mem cols c hc
      rw [hj] at hci; cases hci; exact hjl
    obtain ⟨rs, hrs⟩ := optMapM_some (fun r : List Val => idx.mapM (fun i => r[i]?)) rows (by
      intro r hr
      have hl : r.length = cols.length := hv r hr
      exact optMapM_some _ idx (fun i hi => ⟨r[i]'(by rw [hl]; exact hlt i hi), by simp [hl, hlt i hi]⟩))
    simp only [] at hrs ⊢
    rw [hrs]; exact ⟨_, rfl⟩
  | base b => exact ⟨_, rfl⟩
  | struct n ms => exact ⟨_, rfl⟩
  | grid n a ms => exact ⟨_, rfl⟩

theorem findVar_self (vs : List Var) (hn : (vs.map Var.name).Nodup) : ∀ v ∈ vs, findVar vs v.name = some v := by
  induction vs with
  | nil => intro v hv; cases hv
  | cons w ws ih =>
    intro v hv
    have hnw : w.name ∉ ws.map Var.name ∧ (ws.map Var.name).Nodup := by
      rw [List.map_cons] at hn; exact List.nodup_cons.mp hn
    simp only [List.mem_cons] at hv
    rcases hv with rfl | hv
    · simp [findVar]
    · have hne : w.name ≠ v.name := by
        intro he; exact hnw.1 (by rw [he]; exact List.mem_map_of_mem hv)
      have := ih hnw.2 v hv
      simp only [findVar] at this ⊢
      simp [hne, this]

/-- the unconstrained request: `constrain ds [] []` succeeds on a well-formed dataset with distinct names -/
theorem constrain_whole (ds : Dataset) (hds : ds.WF) (hn : (ds.vars.map Var.name).Nodup) :
    ∃ cds, constrain ds [] [] = .ok cds := by
  have hself := findVar_self ds.vars hn
  have hproj : (ds.vars.map fun v => ProjItem.path [(v.name, [])]) = ds.vars.map wholeItem := rfl
  have hc := collect_whole ds ds.vars [] hself hn (by intro _ _ o ho; cases ho)
  obtain ⟨out, hout⟩ := mapM_ok_of_forall (fixSeqData ds) ds.vars
    (fun v hv => fixSeqData_self ds v (hds v hv) (hself v hv))
  simp only [List.nil_append] at hc
  refine ⟨{ ds with vars := out }, ?_⟩
  simp [constrain, applySelection_nil, applyProjection, hproj, hc, hout, slice_whole, bind, Except.bind, pure, Except.pure]
end Pydap.Handler
