/-
  The source text of the lines the DDS printer yields (responses/dds.py: the module constant `INDENT`, the `yield`s of
  `dds(DatasetType)`, `_sequencetype`, `_structuretype`, `_gridtype`, `_basetype`, and the shape text of `_basetype`),
  translated on every run by harness/py2lean.py into MiniPy syntax (PydapModel/Generated/DdsSrc.lean), is the text of the
  model's printer pieces (`Dds.indent`, `closeText`, the opening lines of `printT` / `printGrid` / `printDs`, the line of
  `printBase`, `shapeText`; C07).  `"…{name}…".format(name=e)` is translated as the concatenation of the literal pieces
  and the arguments.
-/
import Proofs.MiniPy
import PydapModel.DdsText
import PydapModel.Generated.DdsSrc
set_option linter.unusedSimpArgs false
namespace Pydap
open MiniPy Dds

namespace DdsSrc

theorem codes_append (a b : List Char) : codesOf (a ++ b) = codesOf a ++ codesOf b := by simp [codesOf]
theorem codes_cons (c : Char) (t : List Char) : codesOf (c :: t) = c.toNat :: codesOf t := rfl

/-! ### `INDENT` and `level * INDENT` -/

def indentCodes : List Nat := [32, 32, 32, 32]

theorem src_dds_indent_eq : runItem [] Gen.src_dds_indent "INDENT" = .ok (.str indentCodes) := by
  unfold Gen.src_dds_indent
  simp (decide := true) only [runItem, exec, eval, bind_ok', lookup_setVar_eq]
  rfl

theorem indent_codes (k : Nat) : (List.replicate k indentCodes).flatten = codesOf (indent k) := by
  induction k with
  | zero => rfl
  | succ n ih =>
    rw [List.replicate_succ, List.flatten_cons, ih]
    unfold indent
    have : 4 * (n + 1) = 4 * n + 1 + 1 + 1 + 1 := by omega
    rw [this]
    simp only [List.replicate_succ, codes_cons]
    rfl

/-! ### the lines -/

/-- the inputs of the line blocks -/
def linesEnv (level : Nat) (name : Text) : Env :=
  [("INDENT", .str indentCodes), ("level", .int level), ("var.name", .str (codesOf name))]

macro "dds_line" : tactic => `(tactic|
  (simp (decide := true) only [runItem, exec, eval, bind_ok', lookup_cons_eq, lookup_cons_ne, lookup_setVar_eq,
     lookup_setVar_ne, linesEnv, Int.toNat_natCast, indent_codes, asInt_int, closeText, codes_append, List.append_assoc]
   <;> (try (have h1 : ((↑level : Int) + 1).toNat = level + 1 := by omega); try rw [h1]; try rw [indent_codes])
   <;> rfl))

theorem src_dds_structure_lines_eq (level : Nat) (name : Text) :
    runItem (linesEnv level name) Gen.src_dds_structure_lines "@line0"
      = .ok (.str (codesOf (indent level ++ "Structure {\n".toList))) ∧
    runItem (linesEnv level name) Gen.src_dds_structure_lines "@line1"
      = .ok (.str (codesOf (closeText level name))) := by
  unfold Gen.src_dds_structure_lines
  constructor <;> dds_line


theorem src_dds_sequence_lines_eq (level : Nat) (name : Text) :
    runItem (linesEnv level name) Gen.src_dds_sequence_lines "@line0"
      = .ok (.str (codesOf (indent level ++ "Sequence {\n".toList))) ∧
    runItem (linesEnv level name) Gen.src_dds_sequence_lines "@line1"
      = .ok (.str (codesOf (closeText level name))) := by
  unfold Gen.src_dds_sequence_lines
  constructor <;> dds_line

theorem src_dds_dataset_lines_eq (level : Nat) (name : Text) :
    runItem (linesEnv level name) Gen.src_dds_dataset_lines "@line0"
      = .ok (.str (codesOf (indent level ++ "Dataset {\n".toList))) ∧
    runItem (linesEnv level name) Gen.src_dds_dataset_lines "@line1"
      = .ok (.str (codesOf (closeText level name))) := by
  unfold Gen.src_dds_dataset_lines
  constructor <;> dds_line

theorem src_dds_grid_lines_eq (level : Nat) (name : Text) :
    runItem (linesEnv level name) Gen.src_dds_grid_lines "@line0"
      = .ok (.str (codesOf (indent level ++ "Grid {\n".toList))) ∧
    runItem (linesEnv level name) Gen.src_dds_grid_lines "@line1"
      = .ok (.str (codesOf (indent (level + 1) ++ "Array:\n".toList))) ∧
    runItem (linesEnv level name) Gen.src_dds_grid_lines "@line2"
      = .ok (.str (codesOf (indent (level + 1) ++ "Maps:\n".toList))) ∧
    runItem (linesEnv level name) Gen.src_dds_grid_lines "@line3"
      = .ok (.str (codesOf (closeText level name))) := by
  unfold Gen.src_dds_grid_lines
  refine ⟨?_, ?_, ?_, ?_⟩ <;> dds_line

/-- the line of a base variable: `ty` is the table entry (an input), `shape` the text computed before -/
theorem src_dds_base_line_eq (level : Nat) (name ty shape : Text) :
    runItem (("@type", .str (codesOf ty)) :: ("shape", .str (codesOf shape)) :: linesEnv level name)
        Gen.src_dds_base_line "@line0"
      = .ok (.str (codesOf (indent level ++ ty ++ [' '] ++ name ++ shape ++ [';', '\n']))) := by
  unfold Gen.src_dds_base_line
  dds_line


/-! ### `"{}".format(int)` -/

theorem digit_code : ∀ k : Nat, k < 10 → (digitChar k).toNat = 48 + k
  | 0, _ => rfl | 1, _ => rfl | 2, _ => rfl | 3, _ => rfl | 4, _ => rfl
  | 5, _ => rfl | 6, _ => rfl | 7, _ => rfl | 8, _ => rfl | 9, _ => rfl
  | k + 10, h => absurd h (by omega)

theorem natStr_digits : ∀ f n : Nat, n ≤ f → natStrAux f n = codesOf (natDigits n) := by
  intro f
  induction f with
  | zero =>
    intro n h
    have : n = 0 := by omega
    subst this
    rw [natDigits]; rfl
  | succ f ih =>
    intro n h
    rw [natDigits]
    simp only [natStrAux]
    by_cases hn : n < 10
    · simp only [hn, if_true, codesOf, List.map_cons, List.map_nil, digit_code n hn]
    · simp only [hn, if_false, codes_append, codes_cons]
      rw [ih (n / 10) (by omega), digit_code (n % 10) (by omega)]
      rfl

theorem intStr_eq (i : Int) : intStr i = codesOf (intText i) := by
  unfold intStr intText
  by_cases h : i < 0
  · simp only [h, if_true, codes_cons, natStr_digits _ _ (Nat.le_refl _)]; rfl
  · simp only [h, if_false, natStr_digits _ _ (Nat.le_refl _)]

/-! ### the shape text of `_basetype` -/

def strs : List (List Nat) → MiniPy.Val
  | [] => .ilist []
  | l => .slist l

/-- the inputs of the shape block for the base variable `b` inside `sq` enclosing sequences -/
def shapeEnv (b : BaseV) (sq : Nat) : Env :=
  [("var.shape", .ilist b.shape), ("@nodata", .bool b.nodata), ("sequence", .int sq),
   ("var.dims", strs (b.dims.map codesOf)), ("var.name", .str (codesOf b.name)),
   ("@dims_text", .str (codesOf ((b.dims.zip (effShape b sq)).flatMap fun p => dimText p.1 p.2))),
   ("@anon_text", .str (codesOf ((effShape b sq).flatMap anonText)))]

theorem truthy_strs (l : List (List Nat)) : truthy (strs l) = !l.isEmpty := by cases l <;> rfl

theorem runItem_seq (env : Env) (a b : Stmt) (x : String) :
    runItem env (.seq a b) x = (exec env a >>= fun e => runItem e b x) := by
  simp only [runItem, exec, bind_assoc]

/-- the three forms of the shape text, from any environment that holds the inputs -/
theorem shape_forms (dims : List Text) (name : Text) (sh : List Int) (env : Env) (rest : Stmt)
    (hr : rest = (.ite (.var "var.dims") (.assign "shape" (.var "@dims_text")) (.ite (.eq (.len (.var "shape")) (.int (1))) (.assign "shape" (.concat (.strc [91]) (.concat (.fmtArg (.var "var.name")) (.concat (.strc [32, 61, 32]) (.concat (.fmtArg (.idx (.var "shape") 0)) (.strc [93])))))) (.assign "shape" (.var "@anon_text")))))
    (h1 : lookup env "var.dims" = .ok (strs (dims.map codesOf)))
    (h2 : lookup env "shape" = .ok (.ilist sh))
    (h3 : lookup env "var.name" = .ok (.str (codesOf name)))
    (h4 : lookup env "@dims_text" = .ok (.str (codesOf ((dims.zip sh).flatMap fun p => dimText p.1 p.2))))
    (h5 : lookup env "@anon_text" = .ok (.str (codesOf (sh.flatMap anonText)))) :
    runItem env rest "shape"
      = .ok (.str (codesOf (if dims ≠ [] then (dims.zip sh).flatMap fun p => dimText p.1 p.2
          else if sh.length = 1 then sh.flatMap (dimText name) else sh.flatMap anonText))) := by
  subst hr
  cases dims with
  | cons d ds =>
    simp (decide := true) only [runItem, exec, eval, bind_ok', h1, h2, h3, h4, h5, lookup_setVar_eq,
      lookup_setVar_ne, truthy_strs, List.map_cons, List.isEmpty_cons, Bool.not_false, if_true, ne_eq,
      reduceCtorEq, not_false_eq_true]
  | nil =>
    cases sh with
    | nil =>
      simp (decide := true) only [runItem, exec, eval, bind_ok', h1, h2, h3, h4, h5, lookup_setVar_eq,
        lookup_setVar_ne, truthy_strs, List.map_nil, List.isEmpty_nil, Bool.not_true, if_false, Bool.false_eq_true,
        asInt_int, List.length_nil, truthy_bool', ne_eq, not_true_eq_false]
    | cons n t =>
      cases t with
      | nil =>
        simp (decide := true) only [runItem, exec, eval, bind_ok', h1, h2, h3, h4, h5, lookup_setVar_eq,
          lookup_setVar_ne, truthy_strs, List.map_nil, List.isEmpty_nil, Bool.not_true, if_false, if_true,
          Bool.false_eq_true, asInt_int, List.length_cons, List.length_nil, truthy_bool', ne_eq, not_true_eq_false,
          List.getElem?_cons_zero, intStr_eq, List.flatMap_cons, List.flatMap_nil, List.append_nil, dimText,
          codes_append, codes_cons]
        simp [codesOf]
      | cons m u =>
        have hq : ¬ ((↑(u.length + 1 + 1) : Int) = 1) := by omega
        have hq' : ¬ (u.length + 1 + 1 = 1) := by omega
        simp (decide := true) only [runItem, exec, eval, bind_ok', h1, h2, h3, h4, h5, lookup_setVar_eq,
          lookup_setVar_ne, truthy_strs, List.map_nil, List.isEmpty_nil, Bool.not_true, if_false, if_true,
          Bool.false_eq_true, asInt_int, List.length_cons, truthy_bool', ne_eq, not_true_eq_false, hq, hq',
          decide_false]

theorem src_dds_base_shape_eq (b : BaseV) (sq : Nat) :
    runItem (shapeEnv b sq) Gen.src_dds_base_shape "shape" = .ok (.str (codesOf (shapeText b sq))) := by
  have hshape : ∃ rest, Gen.src_dds_base_shape = .seq (.assign "shape" (.var "var.shape"))
      (.seq (.ite (.not_ (.var "@nodata")) (.assign "shape" (.dropE (.var "shape") (.var "sequence"))) .skip) rest) ∧
      rest = (.ite (.var "var.dims") (.assign "shape" (.var "@dims_text")) (.ite (.eq (.len (.var "shape")) (.int (1))) (.assign "shape" (.concat (.strc [91]) (.concat (.fmtArg (.var "var.name")) (.concat (.strc [32, 61, 32]) (.concat (.fmtArg (.idx (.var "shape") 0)) (.strc [93])))))) (.assign "shape" (.var "@anon_text")))) :=
    ⟨_, rfl, rfl⟩
  obtain ⟨rest, hsrc, hrest⟩ := hshape
  rw [hsrc]; simp only [runItem_seq]
  unfold shapeText shapeEnv
  cases hnd : b.nodata
  · simp (decide := true) only [exec, eval, bind_ok', lookup_cons_eq, lookup_cons_ne, lookup_setVar_eq,
      lookup_setVar_ne, truthy_bool', Bool.not_false, if_true, asInt_int, Int.natCast_nonneg, Int.toNat_natCast]
    have he : effShape b sq = b.shape.drop sq := by simp [effShape, hnd]
    simp only [he]
    exact shape_forms b.dims b.name (b.shape.drop sq) _ rest hrest
      (by simp (decide := true) only [lookup_setVar_ne, lookup_cons_ne, lookup_cons_eq])
      (lookup_setVar_eq _ _ _)
      (by simp (decide := true) only [lookup_setVar_ne, lookup_cons_ne, lookup_cons_eq])
      (by simp (decide := true) only [lookup_setVar_ne, lookup_cons_ne, lookup_cons_eq])
      (by simp (decide := true) only [lookup_setVar_ne, lookup_cons_ne, lookup_cons_eq])
  · simp (decide := true) only [exec, eval, bind_ok', lookup_cons_eq, lookup_cons_ne, lookup_setVar_eq,
      lookup_setVar_ne, truthy_bool', Bool.not_true, if_false, Bool.false_eq_true]
    have he : effShape b sq = b.shape := by simp [effShape, hnd]
    simp only [he]
    exact shape_forms b.dims b.name b.shape _ rest hrest
      (by simp (decide := true) only [lookup_setVar_ne, lookup_cons_ne, lookup_cons_eq])
      (lookup_setVar_eq _ _ _)
      (by simp (decide := true) only [lookup_setVar_ne, lookup_cons_ne, lookup_cons_eq])
      (by simp (decide := true) only [lookup_setVar_ne, lookup_cons_ne, lookup_cons_eq])
      (by simp (decide := true) only [lookup_setVar_ne, lookup_cons_ne, lookup_cons_eq])

end DdsSrc
end Pydap
