import PydapModel.Proxy
namespace Pydap.Proxy

/-- every sequence proxy's template reference is allocated -/
def WF (h : Heap) : Prop := ∀ p, Obj.seq p ∈ h.objs → p.template < h.tmpls.length

/-- forget the `dataset` cache of a `ServerFunctionResult` (not an observable) -/
def strip : Obj → Obj
  | .res b id s _ => .res b id s false
  | o => o

/-- `h'` extends `h`: allocated templates and objects are untouched (up to the result cache),
    the log only grows -/
structure Extends (h h' : Heap) : Prop where
  tm_len : h.tmpls.length ≤ h'.tmpls.length
  tm : ∀ i, i < h.tmpls.length → h'.tmpls[i]? = h.tmpls[i]?
  ob_len : h.objs.length ≤ h'.objs.length
  ob : ∀ r, r < h.objs.length → (h'.objs[r]?).map strip = (h.objs[r]?).map strip
  lg : ∃ l, h'.log = h.log ++ l

theorem Extends.refl (h : Heap) : Extends h h :=
  ⟨Nat.le_refl _, fun _ _ => rfl, Nat.le_refl _, fun _ _ => rfl, ⟨[], by simp⟩⟩

theorem Extends.trans {a b c : Heap} (h1 : Extends a b) (h2 : Extends b c) : Extends a c := by
  refine ⟨Nat.le_trans h1.tm_len h2.tm_len, ?_, Nat.le_trans h1.ob_len h2.ob_len, ?_, ?_⟩
  · intro i hi; rw [h2.tm i (Nat.lt_of_lt_of_le hi h1.tm_len), h1.tm i hi]
  · intro r hr; rw [h2.ob r (Nat.lt_of_lt_of_le hr h1.ob_len), h1.ob r hr]
  · obtain ⟨l1, e1⟩ := h1.lg; obtain ⟨l2, e2⟩ := h2.lg
    exact ⟨l1 ++ l2, by rw [e2, e1, List.append_assoc]⟩

theorem extends_pushObj (h : Heap) (o : Obj) : Extends h (pushObj h o) := by
  refine ⟨Nat.le_refl _, fun _ _ => rfl, by simp [pushObj], ?_, ⟨[], by simp [pushObj]⟩⟩
  intro r hr; simp [pushObj, List.getElem?_append_left hr]

theorem extends_pushLog (h : Heap) (s : Sess) (q : Req) : Extends h (pushLog h s q) :=
  ⟨Nat.le_refl _, fun _ _ => rfl, Nat.le_refl _, fun _ _ => rfl, ⟨[(s, q)], rfl⟩⟩

theorem wf_pushLog {h : Heap} (w : WF h) (s : Sess) (q : Req) : WF (pushLog h s q) := w

theorem wf_pushObj_nonseq {h : Heap} (w : WF h) (o : Obj) (ho : ∀ p, o ≠ .seq p) : WF (pushObj h o) := by
  intro p hp
  simp only [pushObj, List.mem_append, List.mem_singleton] at hp
  rcases hp with hp | hp
  · exact w p hp
  · exact absurd hp.symm (ho p)

/-! ### variables and grids: reads only append to the log, results are fresh objects -/

/-- `h'` differs from `h` by GETs appended to the log only -/
structure LogOnly (h h' : Heap) : Prop where
  tm : h'.tmpls = h.tmpls
  ob : h'.objs = h.objs
  sr : h'.src = h.src
  lg : ∃ l, h'.log = h.log ++ l

theorem LogOnly.refl (h : Heap) : LogOnly h h := ⟨rfl, rfl, rfl, ⟨[], by simp⟩⟩

theorem LogOnly.trans {a b c : Heap} (h1 : LogOnly a b) (h2 : LogOnly b c) : LogOnly a c := by
  refine ⟨h2.tm.trans h1.tm, h2.ob.trans h1.ob, h2.sr.trans h1.sr, ?_⟩
  obtain ⟨l1, e1⟩ := h1.lg; obtain ⟨l2, e2⟩ := h2.lg
  exact ⟨l1 ++ l2, by rw [e2, e1, List.append_assoc]⟩

theorem logOnly_pushLog (h : Heap) (s : Sess) (q : Req) : LogOnly h (pushLog h s q) :=
  ⟨rfl, rfl, rfl, ⟨[(s, q)], rfl⟩⟩

theorem LogOnly.extends {h h' : Heap} (l : LogOnly h h') : Extends h h' :=
  ⟨by rw [l.tm]; exact Nat.le_refl _, fun _ _ => by rw [l.tm], by rw [l.ob]; exact Nat.le_refl _,
   fun _ _ => by rw [l.ob], l.lg⟩

theorem LogOnly.wf {h h' : Heap} (l : LogOnly h h') (w : WF h) : WF h' := by
  intro p hp; rw [l.ob] at hp; rw [l.tm]; exact w p hp

theorem readData_logOnly (h : Heap) (d : Data) (idx : List Idx) : LogOnly h (readData h d idx).1 := by
  cases d with
  | proxy r =>
    simp only [readData]
    split
    · exact logOnly_pushLog _ _ _
    · exact LogOnly.refl _
  | vals a => exact LogOnly.refl _

theorem gridLoop_logOnly (h : Heap) (kids : List Nat) (ixs : List (List Idx)) :
    LogOnly h (gridLoop h kids ixs).1 := by
  induction kids generalizing h ixs with
  | nil => simp only [gridLoop]; exact LogOnly.refl _
  | cons k ks ih =>
    cases ixs with
    | nil =>
      simp only [gridLoop]
      split
      · exact ih h []
      · exact LogOnly.refl _
    | cons ix ixs =>
      simp only [gridLoop]
      split
      · split
        · exact (readData_logOnly h _ ix).trans (ih _ _)
        · exact readData_logOnly h _ ix
      · exact LogOnly.refl _

/-- the children of the result of `GridType.__getitem__` are variables -/
theorem gridLoop_vars (h : Heap) (kids : List Nat) (ixs : List (List Idx)) (l : List Obj)
    (e : (gridLoop h kids ixs).2 = some l) : ∀ o ∈ l, ∃ id d, o = Obj.var id d := by
  induction kids generalizing h ixs l with
  | nil => simp only [gridLoop, Option.some.injEq] at e; subst e; intro o ho; cases ho
  | cons k ks ih =>
    cases ixs with
    | nil =>
      simp only [gridLoop] at e
      split at e
      · obtain ⟨l', hr, rfl⟩ := Option.map_eq_some_iff.mp e
        intro o ho
        rcases List.mem_cons.mp ho with rfl | ho
        · exact ⟨_, _, rfl⟩
        · exact ih h [] l' hr o ho
      · simp at e
    | cons ix ixs =>
      simp only [gridLoop] at e
      split at e
      · split at e
        · obtain ⟨l', hr, rfl⟩ := Option.map_eq_some_iff.mp e
          intro o ho
          rcases List.mem_cons.mp ho with rfl | ho
          · exact ⟨_, _, rfl⟩
          · exact ih _ ixs l' hr o ho
        · simp at e
      · simp at e

theorem extends_pushObjs (h : Heap) (l : List Obj) : Extends h (pushObjs h l) := by
  refine ⟨Nat.le_refl _, fun _ _ => rfl, by simp [pushObjs], ?_, ⟨[], by simp [pushObjs]⟩⟩
  intro r hr; simp [pushObjs, List.getElem?_append_left hr]

theorem wf_pushObjs_nonseq {h : Heap} (w : WF h) (l : List Obj) (ho : ∀ o ∈ l, ∀ p, o ≠ .seq p) :
    WF (pushObjs h l) := by
  intro p hp
  simp only [pushObjs, List.mem_append] at hp
  rcases hp with hp | hp
  · exact w p hp
  · exact absurd rfl (ho _ hp p)

theorem varGetitem_extends (h : Heap) (w : WF h) (r : Nat) (idx : List Idx) :
    Extends h (varGetitem h r idx) ∧ WF (varGetitem h r idx) := by
  unfold varGetitem
  split
  · rename_i id d _
    have l := readData_logOnly h d idx
    split
    · exact ⟨l.extends.trans (extends_pushObj _ _), wf_pushObj_nonseq (l.wf w) _ (by intro p hp; cases hp)⟩
    · exact ⟨l.extends, l.wf w⟩
  · exact ⟨Extends.refl h, w⟩

theorem gridFinish_extends (h : Heap) (w : WF h) (kids : List Nat) (ixs : List (List Idx)) :
    Extends h (gridFinish (gridLoop h kids ixs)) ∧ WF (gridFinish (gridLoop h kids ixs)) := by
  have l := gridLoop_logOnly h kids ixs
  unfold gridFinish
  split
  · rename_i newKids hk
    have hv := gridLoop_vars h _ _ newKids hk
    refine ⟨(l.extends.trans (extends_pushObjs _ _)).trans (extends_pushObj _ _),
      wf_pushObj_nonseq (wf_pushObjs_nonseq (l.wf w) _ ?_) _ (by intro p hp; cases hp)⟩
    intro o ho p hp
    obtain ⟨id, d', e⟩ := hv o ho
    rw [e] at hp; cases hp
  · exact ⟨l.extends, l.wf w⟩

theorem gridGetitemHeap_extends (h : Heap) (w : WF h) (r : Nat) (key : List Idx) :
    Extends h (gridGetitemHeap h r key) ∧ WF (gridGetitemHeap h r key) := by
  unfold gridGetitemHeap
  split
  · split
    · exact ⟨Extends.refl h, w⟩
    · split
      · split
        · exact gridFinish_extends h w _ _
        · exact ⟨Extends.refl h, w⟩
      · exact varGetitem_extends h w _ key
  · exact ⟨Extends.refl h, w⟩

/-- `__copy__` allocates: the old heap is extended, the copy's template is the fresh cell -/
theorem seqCopy_spec {h h1 : Heap} {p out : SeqProxy} (e : seqCopy h p = some (h1, out)) :
    ∃ t, h.tmpls[p.template]? = some t ∧ h1 = { h with tmpls := h.tmpls ++ [t] } ∧
      out = { p with template := h.tmpls.length } := by
  unfold seqCopy at e
  cases ht : h.tmpls[p.template]? with
  | none => simp [ht] at e
  | some t => simp [ht] at e; exact ⟨t, rfl, e.1.symm, e.2.symm⟩

theorem getitem_spec {h h2 : Heap} {p out : SeqProxy} {k : DKey}
    (e : seqGetitemWith seqCopy h p k = some (h2, out)) :
    Extends h h2 ∧ h2.objs = h.objs ∧ out.template < h2.tmpls.length ∧ out.session = p.session := by
  unfold seqGetitemWith at e
  cases hc : seqCopy h p with
  | none => simp [hc] at e
  | some r =>
    obtain ⟨h1, o1⟩ := r
    simp only [hc] at e
    obtain ⟨t, ht, rfl, rfl⟩ := seqCopy_spec hc
    cases k with
    | name k =>
      simp only [seqApply, List.getElem?_append_right (Nat.le_refl _), Nat.sub_self,
        List.getElem?_cons_zero] at e
      split at e
      · simp only [Option.some.injEq, Prod.mk.injEq] at e
        obtain ⟨rfl, rfl⟩ := e
        refine ⟨⟨by simp, ?_, Nat.le_refl _, fun _ _ => rfl, ⟨[], by simp⟩⟩, rfl, by simp, rfl⟩
        intro i hi
        simp [List.getElem?_append_left, hi, Nat.lt_succ_of_lt hi]
      · simp at e
    | cols ks =>
      simp only [seqApply, List.getElem?_append_right (Nat.le_refl _), Nat.sub_self,
        List.getElem?_cons_zero, Option.some.injEq, Prod.mk.injEq] at e
      obtain ⟨rfl, rfl⟩ := e
      refine ⟨⟨by simp, ?_, Nat.le_refl _, fun _ _ => rfl, ⟨[], by simp⟩⟩, rfl, by simp, rfl⟩
      intro i hi
      have hne : h.tmpls.length ≠ i := by omega
      simp [List.getElem?_set_ne hne, List.getElem?_append_left hi]
    | ce cl =>
      simp only [seqApply, Option.some.injEq, Prod.mk.injEq] at e
      obtain ⟨rfl, rfl⟩ := e
      refine ⟨⟨by simp, ?_, Nat.le_refl _, fun _ _ => rfl, ⟨[], by simp⟩⟩, rfl, by simp, rfl⟩
      intro i hi; simp [List.getElem?_append_left hi]
    | idx i =>
      simp only [seqApply, Option.some.injEq, Prod.mk.injEq] at e
      obtain ⟨rfl, rfl⟩ := e
      refine ⟨⟨by simp, ?_, Nat.le_refl _, fun _ _ => rfl, ⟨[], by simp⟩⟩, rfl, by simp, rfl⟩
      intro i hi; simp [List.getElem?_append_left hi]
    | sl s =>
      simp only [seqApply, Option.some.injEq, Prod.mk.injEq] at e
      obtain ⟨rfl, rfl⟩ := e
      refine ⟨⟨by simp, ?_, Nat.le_refl _, fun _ _ => rfl, ⟨[], by simp⟩⟩, rfl, by simp, rfl⟩
      intro i hi; simp [List.getElem?_append_left hi]

theorem wf_pushObj_seq {h h2 : Heap} (w : WF h) (ex : Extends h h2) (ho : h2.objs = h.objs)
    (out : SeqProxy) (hlt : out.template < h2.tmpls.length) : WF (pushObj h2 (.seq out)) := by
  intro p hp
  simp only [pushObj, List.mem_append, List.mem_singleton] at hp
  rcases hp with hp | hp
  · rw [ho] at hp; exact Nat.lt_of_lt_of_le (w p hp) ex.tm_len
  · cases hp; exact hlt

/-- **frame lemma**: one event extends the heap and keeps it well-formed -/
theorem step_extends (h : Heap) (w : WF h) (e : Ev) : Extends h (step h e) ∧ WF (step h e) := by
  cases e with
  | copy r =>
    simp only [step, stepWith]
    cases hr : h.objs[r]? with
    | none => exact ⟨Extends.refl h, w⟩
    | some o =>
      cases o with
      | seq p =>
        simp only
        cases hc : seqCopy h p with
        | none => exact ⟨Extends.refl h, w⟩
        | some res =>
          obtain ⟨h1, out⟩ := res
          obtain ⟨t, ht, rfl, rfl⟩ := seqCopy_spec hc
          have ex : Extends h { h with tmpls := h.tmpls ++ [t] } :=
            ⟨by simp, fun i hi => by simp [List.getElem?_append_left hi], Nat.le_refl _, fun _ _ => rfl, ⟨[], by simp⟩⟩
          exact ⟨ex.trans (extends_pushObj _ _), wf_pushObj_seq w ex rfl _ (by simp)⟩
      | _ => exact ⟨Extends.refl h, w⟩
  | getitem r k =>
    simp only [step, stepWith]
    cases hr : h.objs[r]? with
    | none => exact ⟨Extends.refl h, w⟩
    | some o =>
      cases o with
      | seq p =>
        simp only
        cases hg : seqGetitemWith seqCopy h p k with
        | none => exact ⟨Extends.refl h, w⟩
        | some res =>
          obtain ⟨h2, out⟩ := res
          obtain ⟨ex, ho, hlt, _⟩ := getitem_spec hg
          exact ⟨ex.trans (extends_pushObj _ _), wf_pushObj_seq w ex ho _ hlt⟩
      | _ => exact ⟨Extends.refl h, w⟩
  | iter r =>
    simp only [step, stepWith]
    cases hr : h.objs[r]? with
    | none => exact ⟨Extends.refl h, w⟩
    | some o =>
      cases o with
      | seq p =>
        simp only
        cases h.tmpls[p.template]? with
        | none => exact ⟨Extends.refl h, w⟩
        | some t => exact ⟨extends_pushLog _ _ _, wf_pushLog w _ _⟩
      | _ => exact ⟨Extends.refl h, w⟩
  | aget r idx =>
    simp only [step, stepWith]
    cases hr : h.objs[r]? with
    | none => exact ⟨Extends.refl h, w⟩
    | some o =>
      cases o with
      | arr p => exact ⟨extends_pushLog _ _ _, wf_pushLog w _ _⟩
      | _ => exact ⟨Extends.refl h, w⟩
  | fattr r name =>
    simp only [step, stepWith]
    cases hr : h.objs[r]? with
    | none => exact ⟨Extends.refl h, w⟩
    | some o =>
      cases o with
      | fns b s => exact ⟨extends_pushObj _ _, wf_pushObj_nonseq w _ (by intro p hp; cases hp)⟩
      | _ => exact ⟨Extends.refl h, w⟩
  | fcall r args =>
    simp only [step, stepWith]
    cases hr : h.objs[r]? with
    | none => exact ⟨Extends.refl h, w⟩
    | some o =>
      cases o with
      | fn b n s => exact ⟨extends_pushObj _ _, wf_pushObj_nonseq w _ (by intro p hp; cases hp)⟩
      | _ => exact ⟨Extends.refl h, w⟩
  | rget r dec =>
    simp only [step, stepWith]
    cases hr : h.objs[r]? with
    | none => exact ⟨Extends.refl h, w⟩
    | some o =>
      cases o with
      | res b id s loaded =>
        cases loaded with
        | true => exact ⟨Extends.refl h, w⟩
        | false =>
          cases dec with
          | false => exact ⟨extends_pushLog _ _ _, wf_pushLog w _ _⟩
          | true =>
            simp only [if_true]
            refine ⟨⟨Nat.le_refl _, fun _ _ => rfl, by simp [pushLog], ?_,
              ⟨[(s, ⟨b, .dods, [id], [], []⟩), (s, ⟨b, .das, [id], [], []⟩)], by simp [pushLog]⟩⟩, ?_⟩
            · intro r' hr'
              simp only [pushLog]
              by_cases hrr : r = r'
              · subst hrr
                rw [List.getElem?_set_self (by simpa using hr'), hr]
                simp [strip]
              · rw [List.getElem?_set_ne hrr]
            · intro p hp
              simp only [pushLog] at hp
              have := List.mem_or_eq_of_mem_set hp
              rcases this with hm | hm
              · exact w p hm
              · cases hm
      | _ => exact ⟨Extends.refl h, w⟩
  | vget r idx => exact varGetitem_extends h w r idx
  | ggrid r key => exact gridGetitemHeap_extends h w r key

theorem run_extends (h : Heap) (w : WF h) (evs : List Ev) : Extends h (run h evs) ∧ WF (run h evs) := by
  induction evs generalizing h with
  | nil => exact ⟨Extends.refl h, w⟩
  | cons e es ih =>
    obtain ⟨e1, w1⟩ := step_extends h w e
    obtain ⟨e2, w2⟩ := ih (step h e) w1
    exact ⟨e1.trans e2, w2⟩

theorem obsObj_strip (h : Heap) (o : Obj) : obsObj h (strip o) = obsObj h o := by
  cases o <;> rfl

/-- observables of allocated objects are the same in any extension -/
theorem obs_extends {h h' : Heap} (w : WF h) (ex : Extends h h') (r : Nat) (hr : r < h.objs.length) :
    obs h' r = obs h r := by
  have hob := ex.ob r hr
  have hr' : r < h'.objs.length := Nat.lt_of_lt_of_le hr ex.ob_len
  rw [List.getElem?_eq_getElem hr, List.getElem?_eq_getElem hr'] at hob
  simp only [Option.map_some, Option.some.injEq] at hob
  unfold obs
  rw [List.getElem?_eq_getElem hr, List.getElem?_eq_getElem hr']
  simp only [Option.bind_some]
  rw [← obsObj_strip h' h'.objs[r], hob, ← obsObj_strip h h.objs[r]]
  generalize hq : strip h.objs[r] = q
  cases q with
  | seq p =>
    have hmem : Obj.seq p ∈ h.objs := by
      have : h.objs[r] = Obj.seq p := by
        cases ho : h.objs[r] <;> simp [ho, strip] at hq ⊢
        exact hq
      rw [← this]; exact List.getElem_mem hr
    simp only [obsObj]
    rw [ex.tm p.template (w p hmem)]
  | _ => rfl

/-! ### the deep view of a grid: its children, their data, the proxies behind them -/

/-- what a variable's data is, with a proxy resolved to its observable (id, stored slice, session) -/
inductive DataView where
  | proxy (vid : Name) (slice : List Idx) (session : Sess)
  | vals (axes : List (Bool × List Nat))
deriving DecidableEq, Repr

def dataView (h : Heap) : Data → Option DataView
  | .vals a => some (.vals a)
  | .proxy k => match h.objs[k]? with
    | some (.arr p) => some (.proxy p.vid p.slice p.session)
    | _ => none

def varView (h : Heap) (k : Nat) : Option (Name × DataView) :=
  match h.objs[k]? with
  | some (.var id d) => (dataView h d).map fun v => (id, v)
  | _ => none

def kidsView (h : Heap) : List Nat → Option (List (Name × DataView))
  | [] => some []
  | k :: ks => match varView h k, kidsView h ks with
    | some v, some vs => some (v :: vs)
    | _, _ => none

/-- a grid seen through all its references: `_output_grid`, and for every child (array first, then
    the maps) its id and data -/
def gridView (h : Heap) (r : Nat) : Option (Bool × List (Name × DataView)) :=
  match h.objs[r]? with
  | some (.grid ks og) => (kidsView h ks).map fun vs => (og, vs)
  | _ => none

theorem strip_eq_nonres {o' o : Obj} (e : strip o' = strip o) (hn : ∀ b i s l, o ≠ .res b i s l) : o' = o := by
  cases o with
  | res b i s l => exact absurd rfl (hn b i s l)
  | _ => cases o' <;> simp_all [strip]

/-- allocated objects other than the result cache of a `ServerFunctionResult` never change -/
theorem objs_stable {h h' : Heap} (ex : Extends h h') {k : Nat} {o : Obj} (hk : h.objs[k]? = some o)
    (hn : ∀ b i s l, o ≠ .res b i s l) : h'.objs[k]? = some o := by
  have hlt : k < h.objs.length := (List.getElem?_eq_some_iff.mp hk).1
  have hob := ex.ob k hlt
  rw [hk] at hob
  cases ho' : h'.objs[k]? with
  | none => rw [ho'] at hob; simp at hob
  | some o' =>
    rw [ho'] at hob
    simp only [Option.map_some, Option.some.injEq] at hob
    rw [strip_eq_nonres hob hn]

theorem dataView_extends {h h' : Heap} (ex : Extends h h') {d : Data} {v : DataView}
    (e : dataView h d = some v) : dataView h' d = some v := by
  cases d with
  | vals a => exact e
  | proxy k =>
    simp only [dataView] at e ⊢
    split at e
    · rename_i p hp
      rw [objs_stable ex hp (by intro b i s l hh; cases hh)]; exact e
    · cases e

theorem varView_extends {h h' : Heap} (ex : Extends h h') {k : Nat} {v : Name × DataView}
    (e : varView h k = some v) : varView h' k = some v := by
  simp only [varView] at e ⊢
  split at e
  · rename_i id d hk
    rw [objs_stable ex hk (by intro b i s l hh; cases hh)]
    obtain ⟨dv, hd, rfl⟩ := Option.map_eq_some_iff.mp e
    simp only [dataView_extends ex hd, Option.map_some]
  · cases e

theorem kidsView_extends {h h' : Heap} (ex : Extends h h') (ks : List Nat) {vs : List (Name × DataView)}
    (e : kidsView h ks = some vs) : kidsView h' ks = some vs := by
  induction ks generalizing vs with
  | nil => exact e
  | cons k ks ih =>
    simp only [kidsView] at e ⊢
    cases hv : varView h k with
    | none => simp [hv] at e
    | some v =>
      cases hvs : kidsView h ks with
      | none => simp [hv, hvs] at e
      | some vs' =>
        simp only [hv, hvs] at e
        rw [varView_extends ex hv, ih hvs]; exact e

theorem gridView_extends {h h' : Heap} (ex : Extends h h') {r : Nat} {v : Bool × List (Name × DataView)}
    (e : gridView h r = some v) : gridView h' r = some v := by
  simp only [gridView] at e ⊢
  split at e
  · rename_i ks og hk
    rw [objs_stable ex hk (by intro b i s l hh; cases hh)]
    obtain ⟨vs, hvs, rfl⟩ := Option.map_eq_some_iff.mp e
    simp only [kidsView_extends ex ks hvs, Option.map_some]
  · cases e

/-! ### what a grid read returns does not depend on the history before it -/

theorem getitem_src {h h2 : Heap} {p out : SeqProxy} {k : DKey}
    (e : seqGetitemWith seqCopy h p k = some (h2, out)) : h2.src = h.src := by
  unfold seqGetitemWith at e
  cases hc : seqCopy h p with
  | none => simp [hc] at e
  | some r =>
    obtain ⟨h1, o1⟩ := r
    simp only [hc] at e
    obtain ⟨t, ht, rfl, rfl⟩ := seqCopy_spec hc
    cases k <;> simp only [seqApply] at e <;> (repeat' split at e) <;>
      first
      | (simp only [Option.some.injEq, Prod.mk.injEq] at e; rw [← e.1])
      | simp at e

theorem varGetitem_src (h : Heap) (r : Nat) (idx : List Idx) : (varGetitem h r idx).src = h.src := by
  unfold varGetitem
  split
  · split
    · exact (readData_logOnly h _ idx).sr
    · exact (readData_logOnly h _ idx).sr
  · rfl

theorem gridGetitemHeap_src (h : Heap) (r : Nat) (key : List Idx) : (gridGetitemHeap h r key).src = h.src := by
  unfold gridGetitemHeap
  split
  · split
    · rfl
    · split
      · split
        · unfold gridFinish
          split
          · exact (gridLoop_logOnly h _ _).sr
          · exact (gridLoop_logOnly h _ _).sr
        · rfl
      · exact varGetitem_src h _ key
  · rfl

theorem step_src (h : Heap) (e : Ev) : (step h e).src = h.src := by
  cases e with
  | vget r idx => exact varGetitem_src h r idx
  | ggrid r key => exact gridGetitemHeap_src h r key
  | getitem r k =>
    simp only [step, stepWith]
    split
    · split
      · rename_i hg; have hs := getitem_src hg; exact hs
      · rfl
    · rfl
  | copy r =>
    simp only [step, stepWith]
    split
    · split
      · rename_i hc; obtain ⟨t, ht, rfl, rfl⟩ := seqCopy_spec hc; rfl
      · rfl
    · rfl
  | _ => simp only [step, stepWith] <;> (repeat' split) <;> rfl

theorem run_src (h : Heap) (evs : List Ev) : (run h evs).src = h.src := by
  induction evs generalizing h with
  | nil => rfl
  | cons e es ih => exact (ih (step h e)).trans (step_src h e)
/-- `h'` holds every non-cache object of `h` unchanged and talks to the same server -/
def Stable (h h' : Heap) : Prop :=
  (∀ (k : Nat) (o : Obj), h.objs[k]? = some o → (∀ b i s l, o ≠ Obj.res b i s l) → h'.objs[k]? = some o) ∧ h'.src = h.src

theorem Stable.logOnly {h h' h1 h1' : Heap} (s : Stable h h') (l : LogOnly h h1) (l' : LogOnly h' h1') :
    Stable h1 h1' := by
  refine ⟨?_, by rw [l'.sr, l.sr]; exact s.2⟩
  intro k o hk hn
  rw [l.ob] at hk; rw [l'.ob]; exact s.1 k o hk hn

theorem readData_stable {h h' : Heap} (s : Stable h h') (d : Data) (ix : List Idx) {ax}
    (e : (readData h d ix).2 = some ax) : (readData h' d ix).2 = some ax := by
  cases d with
  | vals a => exact e
  | proxy r =>
    simp only [readData] at e ⊢
    split at e
    · rename_i p hp
      rw [s.1 r _ hp (by intro b i s l hh; cases hh)]
      simp only at e ⊢
      rw [s.2]; exact e
    · cases e

/-- what reading the children `kids` with the index lists `ixs` returns now, it returns after any
    changes that leave the objects in place -/
theorem gridLoop_stable {h h' : Heap} (s : Stable h h') (kids : List Nat) (ixs : List (List Idx)) {l : List Obj}
    (e : (gridLoop h kids ixs).2 = some l) : (gridLoop h' kids ixs).2 = some l := by
  induction kids generalizing h h' ixs l with
  | nil => simp only [gridLoop] at e ⊢; exact e
  | cons k ks ih =>
    cases ixs with
    | nil =>
      simp only [gridLoop] at e ⊢
      split at e
      · rename_i id d hk
        rw [s.1 k _ hk (by intro b i s l hh; cases hh)]
        obtain ⟨l', hr, rfl⟩ := Option.map_eq_some_iff.mp e
        simp only [ih s [] hr, Option.map_some]
      · cases e
    | cons ix ixs =>
      simp only [gridLoop] at e ⊢
      split at e
      · rename_i id d hk
        rw [s.1 k _ hk (by intro b i s l hh; cases hh)]
        simp only
        split at e
        · rename_i ax hax
          rw [readData_stable s d ix hax]
          simp only
          obtain ⟨l', hr, rfl⟩ := Option.map_eq_some_iff.mp e
          have s1 := s.logOnly (readData_logOnly h d ix) (readData_logOnly h' d ix)
          simp only [ih s1 ixs hr, Option.map_some]
        · cases e
      · cases e

theorem Stable.of_extends {h h' : Heap} (ex : Extends h h') (hs : h'.src = h.src) : Stable h h' :=
  ⟨fun _ _ hk hn => objs_stable ex hk hn, hs⟩

/-- the children of the grid that `grid[key]` returns (`output_grid` on), `none` when the read raises
    or `r` is not such a grid -/
def gridResult (h : Heap) (r : Nat) (key : List Idx) : Option (List Obj) :=
  match h.objs[r]? with
  | some (.grid kids true) =>
    match kids.head? with
    | some a => match h.objs[a]? with
      | some (.var _ d) => (gridLoop h kids (gridIndexLists (dataRank h d) key)).2
      | _ => none
    | none => none
  | _ => none

theorem gridResult_stable {h h' : Heap} (s : Stable h h') (r : Nat) (key : List Idx) {l : List Obj}
    (e : gridResult h r key = some l) : gridResult h' r key = some l := by
  unfold gridResult at e ⊢
  split at e
  · rename_i kids hk
    rw [s.1 r _ hk (by intro b i s l hh; cases hh)]
    simp only
    cases kids with
    | nil => simp at e
    | cons a ks =>
      simp only [List.head?_cons] at e ⊢
      split at e
      · rename_i id d ha
        rw [s.1 a _ ha (by intro b i s l hh; cases hh)]
        simp only
        have hr : dataRank h' d = dataRank h d := by
          cases d with
          | vals ax => rfl
          | proxy p =>
            simp only [dataRank]
            cases hp : h.objs[p]? with
            | none =>
              exfalso
              simp only [gridIndexLists, gridLoop, ha, readData, hp] at e
              cases e
            | some o =>
              cases o with
              | arr q => rw [s.1 p _ hp (by intro b i s l hh; cases hh)]
              | _ =>
                exfalso
                simp only [gridIndexLists, gridLoop, ha, readData, hp] at e
                cases e
        rw [hr]
        exact gridLoop_stable s _ _ e
      · cases e
  · cases e

/-- the array `variable[idx]` returns (also `grid[key]` with `output_grid` off, which is `grid.array[key]`) -/
def varResult (h : Heap) (r : Nat) (idx : List Idx) : Option (List (Bool × List Nat)) :=
  match h.objs[r]? with
  | some (.var _ d) => (readData h d idx).2
  | _ => none

theorem varResult_stable {h h' : Heap} (s : Stable h h') (r : Nat) (idx : List Idx) {ax : List (Bool × List Nat)}
    (e : varResult h r idx = some ax) : varResult h' r idx = some ax := by
  unfold varResult at e ⊢
  split at e
  · rename_i id d hk
    rw [s.1 r _ hk (by intro b i s l hh; cases hh)]
    exact readData_stable s d idx e
  · cases e

/-- `grid[key]` allocates exactly the children `gridResult` lists, then the new grid referring to them -/
theorem ggrid_objs (h : Heap) (r : Nat) (key : List Idx) {l : List Obj} (e : gridResult h r key = some l) :
    (step h (.ggrid r key)).objs
      = h.objs ++ l ++ [Obj.grid ((List.range l.length).map fun i => h.objs.length + i) true] := by
  unfold gridResult at e
  simp only [step, stepWith, gridGetitemHeap]
  split at e
  · rename_i kids hk
    rw [hk]
    simp only
    cases kids with
    | nil => simp at e
    | cons a ks =>
      simp only [List.head?_cons] at e ⊢
      split at e
      · rename_i id d ha
        rw [ha]
        simp only [if_true, gridFinish, e, pushObj, pushObjs, (gridLoop_logOnly h _ _).ob]
      · cases e
  · cases e

/-! ### sessions -/

def objSess : Obj → Sess
  | .seq p => p.session
  | .arr p => p.session
  | .fns _ s => s
  | .fn _ _ s => s
  | .res _ _ s _ => s
  | .var _ _ => none
  | .grid _ _ => none

/-- the objects that carry a session: proxies and the server-function chain.  `BaseType` and
    `GridType` objects carry none — their requests are made by the proxy their data refers to. -/
def carries : Obj → Bool
  | .var _ _ => false
  | .grid _ _ => false
  | _ => true

/-- every session-carrying object carries `σ` and every GET so far went through `σ` -/
def SessInv (σ : Sess) (h : Heap) : Prop :=
  (∀ o ∈ h.objs, carries o = true → objSess o = σ) ∧ (∀ e ∈ h.log, e.1 = σ)

theorem sessInv_pushObj {σ : Sess} {h : Heap} (i : SessInv σ h) (o : Obj) (ho : objSess o = σ) :
    SessInv σ (pushObj h o) := by
  refine ⟨?_, i.2⟩
  intro o' ho' _
  simp only [pushObj, List.mem_append, List.mem_singleton] at ho'
  rcases ho' with h1 | h1
  · exact i.1 o' h1 (by assumption)
  · rw [h1]; exact ho

theorem sessInv_pushObjs_nc {σ : Sess} {h : Heap} (i : SessInv σ h) (l : List Obj)
    (hl : ∀ o ∈ l, carries o = false) : SessInv σ (pushObjs h l) := by
  refine ⟨?_, i.2⟩
  intro o' ho' hc
  simp only [pushObjs, List.mem_append] at ho'
  rcases ho' with h1 | h1
  · exact i.1 o' h1 hc
  · rw [hl o' h1] at hc; cases hc

theorem sessInv_pushObj_nc {σ : Sess} {h : Heap} (i : SessInv σ h) (o : Obj)
    (ho : carries o = false) : SessInv σ (pushObj h o) :=
  sessInv_pushObjs_nc i [o] (by intro o' h'; rw [List.mem_singleton.mp h']; exact ho)

theorem sessInv_pushLog {σ : Sess} {h : Heap} (i : SessInv σ h) (q : Req) : SessInv σ (pushLog h σ q) := by
  refine ⟨i.1, ?_⟩
  intro e he
  simp only [pushLog, List.mem_append, List.mem_singleton] at he
  rcases he with h1 | h1
  · exact i.2 e h1
  · rw [h1]

theorem readData_sessInv (σ : Sess) (h : Heap) (i : SessInv σ h) (d : Data) (idx : List Idx) :
    SessInv σ (readData h d idx).1 := by
  cases d with
  | proxy r =>
    simp only [readData]
    split
    · rename_i p hr
      have : p.session = σ := i.1 _ (List.mem_of_getElem? hr) rfl
      rw [this]; exact sessInv_pushLog i _
    · exact i
  | vals a => exact i

theorem gridLoop_sessInv (σ : Sess) (h : Heap) (i : SessInv σ h) (kids : List Nat) (ixs : List (List Idx)) :
    SessInv σ (gridLoop h kids ixs).1 := by
  induction kids generalizing h ixs with
  | nil => simp only [gridLoop]; exact i
  | cons k ks ih =>
    cases ixs with
    | nil =>
      simp only [gridLoop]
      split
      · exact ih h i []
      · exact i
    | cons ix ixs =>
      simp only [gridLoop]
      split
      · split
        · exact ih _ (readData_sessInv σ h i _ ix) _
        · exact readData_sessInv σ h i _ ix
      · exact i

theorem varGetitem_sessInv (σ : Sess) (h : Heap) (i : SessInv σ h) (r : Nat) (idx : List Idx) :
    SessInv σ (varGetitem h r idx) := by
  unfold varGetitem
  split
  · split
    · exact sessInv_pushObj_nc (readData_sessInv σ h i _ idx) _ rfl
    · exact readData_sessInv σ h i _ idx
  · exact i

theorem gridGetitemHeap_sessInv (σ : Sess) (h : Heap) (i : SessInv σ h) (r : Nat) (key : List Idx) :
    SessInv σ (gridGetitemHeap h r key) := by
  unfold gridGetitemHeap
  split
  · split
    · exact i
    · split
      · split
        · unfold gridFinish
          split
          · rename_i newKids hk
            have hv := gridLoop_vars h _ _ newKids hk
            refine sessInv_pushObj_nc (sessInv_pushObjs_nc (gridLoop_sessInv σ h i _ _) _ ?_) _ rfl
            intro o ho
            obtain ⟨id, d', e⟩ := hv o ho
            rw [e]; rfl
          · exact gridLoop_sessInv σ h i _ _
        · exact i
      · exact varGetitem_sessInv σ h i _ key
  · exact i

theorem step_sessInv (σ : Sess) (h : Heap) (i : SessInv σ h) (e : Ev) : SessInv σ (step h e) := by
  have hget : ∀ r o, h.objs[r]? = some o → carries o = true → objSess o = σ :=
    fun r o hr => i.1 o (List.mem_of_getElem? hr)
  cases e with
  | copy r =>
    simp only [step, stepWith]
    cases hr : h.objs[r]? with
    | none => exact i
    | some o =>
      cases o with
      | seq p =>
        simp only
        cases hc : seqCopy h p with
        | none => exact i
        | some res =>
          obtain ⟨h1, out⟩ := res
          obtain ⟨t, ht, rfl, rfl⟩ := seqCopy_spec hc
          exact sessInv_pushObj (h := { h with tmpls := h.tmpls ++ [t] }) i _ (by have := hget r _ hr rfl; exact this)
      | _ => exact i
  | getitem r k =>
    simp only [step, stepWith]
    cases hr : h.objs[r]? with
    | none => exact i
    | some o =>
      cases o with
      | seq p =>
        simp only
        cases hg : seqGetitemWith seqCopy h p k with
        | none => exact i
        | some res =>
          obtain ⟨h2, out⟩ := res
          obtain ⟨ex, ho, _, hs⟩ := getitem_spec hg
          have i2 : SessInv σ h2 := by
            refine ⟨by rw [ho]; exact i.1, ?_⟩
            -- `__getitem__` issues no request
            unfold seqGetitemWith at hg
            cases hc : seqCopy h p with
            | none => simp [hc] at hg
            | some r1 =>
              obtain ⟨h1, o1⟩ := r1
              obtain ⟨t, ht, rfl, rfl⟩ := seqCopy_spec hc
              simp only [hc] at hg
              have hl : h2.log = h.log := by
                cases k <;> simp only [seqApply] at hg
                · split at hg
                  · simp at hg
                  · split at hg
                    · simp only [Option.some.injEq, Prod.mk.injEq] at hg; rw [← hg.1]
                    · simp at hg
                · split at hg
                  · simp at hg
                  · simp only [Option.some.injEq, Prod.mk.injEq] at hg; rw [← hg.1]
                all_goals (simp only [Option.some.injEq, Prod.mk.injEq] at hg; rw [← hg.1])
              rw [hl]; exact i.2
          exact sessInv_pushObj i2 _ (by simp only [objSess]; rw [hs]; exact hget r _ hr rfl)
      | _ => exact i
  | iter r =>
    simp only [step, stepWith]
    cases hr : h.objs[r]? with
    | none => exact i
    | some o =>
      cases o with
      | seq p =>
        simp only
        cases h.tmpls[p.template]? with
        | none => exact i
        | some t =>
          have : p.session = σ := hget r _ hr rfl
          rw [this]; exact sessInv_pushLog i _
      | _ => exact i
  | aget r idx =>
    simp only [step, stepWith]
    cases hr : h.objs[r]? with
    | none => exact i
    | some o =>
      cases o with
      | arr p =>
        have : p.session = σ := hget r _ hr rfl
        simp only; rw [this]; exact sessInv_pushLog i _
      | _ => exact i
  | fattr r name =>
    simp only [step, stepWith]
    cases hr : h.objs[r]? with
    | none => exact i
    | some o =>
      cases o with
      | fns b s => exact sessInv_pushObj i _ (by have := hget r _ hr rfl; exact this)
      | _ => exact i
  | fcall r args =>
    simp only [step, stepWith]
    cases hr : h.objs[r]? with
    | none => exact i
    | some o =>
      cases o with
      | fn b n s => exact sessInv_pushObj i _ (by have := hget r _ hr rfl; exact this)
      | _ => exact i
  | rget r dec =>
    simp only [step, stepWith]
    cases hr : h.objs[r]? with
    | none => exact i
    | some o =>
      cases o with
      | res b id s loaded =>
        cases loaded with
        | true => exact i
        | false =>
          have hs : s = σ := hget r _ hr rfl
          subst hs
          cases dec with
          | false => exact sessInv_pushLog i _
          | true =>
            simp only [if_true]
            have i2 := sessInv_pushLog (sessInv_pushLog i ⟨b, .dods, [id], [], []⟩) ⟨b, .das, [id], [], []⟩
            refine ⟨?_, i2.2⟩
            intro o ho hc
            have := List.mem_or_eq_of_mem_set ho
            rcases this with hm | hm
            · exact i2.1 o hm hc
            · rw [hm]; rfl
      | _ => exact i
  | vget r idx => exact varGetitem_sessInv σ h i r idx
  | ggrid r key => exact gridGetitemHeap_sessInv σ h i r key

theorem run_sessInv (σ : Sess) (h : Heap) (i : SessInv σ h) (evs : List Ev) : SessInv σ (run h evs) := by
  induction evs generalizing h with
  | nil => exact i
  | cons e es ih => exact ih (step h e) (step_sessInv σ h i e)

/-! ### the derived request is a function of the parent's observable and the key only -/

/-- heap-free description of a sequence proxy: what a fresh client accumulates -/
structure Spec where
  baseurl : Name
  path : List Name
  keys : List Name
  visible : List Name
  subChildren : Bool
  selection : List Name
  slice : List PSlice
  session : Sess
deriving DecidableEq, Repr

def specOf (t : Tmpl) (p : SeqProxy) : Spec :=
  ⟨p.baseurl, t.path, t.keys, t.visible, p.subChildren, p.selection, p.slice, p.session⟩

/-- one derivation on the accumulated description -/
def specStep (s : Spec) : DKey → Option Spec
  | .name k => if k ∈ s.keys then some { s with path := s.path ++ [k], keys := [], visible := [], subChildren := false }
      else none
  | .cols ks => some { s with visible := ks, subChildren := true }
  | .ce cl => some { s with selection := s.selection ++ cl }
  | .idx i => some { s with slice := combine (s.slice.map Idx.sl) [Idx.sl ⟨some i, some (i + 1), none⟩] }
  | .sl sl => some { s with slice := combine (s.slice.map Idx.sl) [Idx.sl sl] }

def specReq (s : Spec) : Req :=
  { baseurl := s.baseurl, ext := .dods,
    ids := if s.subChildren then s.visible.map fun k => joinDot (s.path ++ [k]) else [joinDot s.path],
    slab := dropTrailingAll s.slice, selection := s.selection }

theorem seqReq_spec (t : Tmpl) (p : SeqProxy) : seqReq t p = specReq (specOf t p) := rfl

/-- the object `__getitem__` returns is described by `specStep` of the parent's description,
    whatever else the heap contains -/
theorem getitem_specStep {h h2 : Heap} {p out : SeqProxy} {k : DKey} {t : Tmpl}
    (ht : h.tmpls[p.template]? = some t)
    (e : seqGetitemWith seqCopy h p k = some (h2, out)) :
    ∃ t', h2.tmpls[out.template]? = some t' ∧ specStep (specOf t p) k = some (specOf t' out) := by
  unfold seqGetitemWith at e
  cases hc : seqCopy h p with
  | none => simp [hc] at e
  | some r =>
    obtain ⟨h1, o1⟩ := r
    simp only [hc] at e
    obtain ⟨t0, ht0, rfl, rfl⟩ := seqCopy_spec hc
    rw [ht] at ht0; cases ht0
    cases k with
    | name k =>
      simp only [seqApply, List.getElem?_append_right (Nat.le_refl _), Nat.sub_self,
        List.getElem?_cons_zero] at e
      split at e
      · rename_i hk
        simp only [Option.some.injEq, Prod.mk.injEq] at e
        obtain ⟨rfl, rfl⟩ := e
        refine ⟨⟨t.path ++ [k], [], []⟩, by simp, ?_⟩
        simp [specStep, specOf, hk]
      · simp at e
    | cols ks =>
      simp only [seqApply, List.getElem?_append_right (Nat.le_refl _), Nat.sub_self,
        List.getElem?_cons_zero, Option.some.injEq, Prod.mk.injEq] at e
      obtain ⟨rfl, rfl⟩ := e
      exact ⟨{ t with visible := ks }, by simp, by simp [specStep, specOf]⟩
    | ce cl =>
      simp only [seqApply, Option.some.injEq, Prod.mk.injEq] at e
      obtain ⟨rfl, rfl⟩ := e
      exact ⟨t, by simp, by simp [specStep, specOf]⟩
    | idx i =>
      simp only [seqApply, Option.some.injEq, Prod.mk.injEq] at e
      obtain ⟨rfl, rfl⟩ := e
      exact ⟨t, by simp, by simp [specStep, specOf]⟩
    | sl s =>
      simp only [seqApply, Option.some.injEq, Prod.mk.injEq] at e
      obtain ⟨rfl, rfl⟩ := e
      exact ⟨t, by simp, by simp [specStep, specOf]⟩

/-- the heap-free description of object `r` (sequence proxies only) -/
def specAt (h : Heap) (r : Nat) : Option Spec :=
  match h.objs[r]? with
  | some (.seq p) => (h.tmpls[p.template]?).map fun t => specOf t p
  | _ => none

theorem specAt_extends {h h' : Heap} (w : WF h) (ex : Extends h h') (r : Nat) (hr : r < h.objs.length) :
    specAt h' r = specAt h r := by
  have hob := ex.ob r hr
  have hr' : r < h'.objs.length := Nat.lt_of_lt_of_le hr ex.ob_len
  rw [List.getElem?_eq_getElem hr, List.getElem?_eq_getElem hr'] at hob
  simp only [Option.map_some, Option.some.injEq] at hob
  unfold specAt
  rw [List.getElem?_eq_getElem hr, List.getElem?_eq_getElem hr']
  cases ho : h.objs[r] with
  | seq p =>
    have ho' : h'.objs[r] = Obj.seq p := by
      rw [ho] at hob
      cases ho2 : h'.objs[r] <;> simp [ho2, strip] at hob ⊢
      exact hob
    have hmem : Obj.seq p ∈ h.objs := by rw [← ho]; exact List.getElem_mem hr
    simp only [ho']
    rw [ex.tm p.template (w p hmem)]
  | arr p => rw [ho] at hob; cases ho2 : h'.objs[r] <;> simp [ho2, strip] at hob ⊢
  | fns b s => rw [ho] at hob; cases ho2 : h'.objs[r] <;> simp [ho2, strip] at hob ⊢
  | fn b n s => rw [ho] at hob; cases ho2 : h'.objs[r] <;> simp [ho2, strip] at hob ⊢
  | res b i s l => rw [ho] at hob; cases ho2 : h'.objs[r] <;> simp [ho2, strip] at hob ⊢
  | var i d => rw [ho] at hob; cases ho2 : h'.objs[r] <;> simp [ho2, strip] at hob ⊢
  | grid ks og => rw [ho] at hob; cases ho2 : h'.objs[r] <;> simp [ho2, strip] at hob ⊢

theorem getitem_isSome {h : Heap} {p : SeqProxy} {k : DKey} {t : Tmpl}
    (ht : h.tmpls[p.template]? = some t) (hs : (specStep (specOf t p) k).isSome) :
    (seqGetitemWith seqCopy h p k).isSome := by
  unfold seqGetitemWith seqCopy
  simp only [ht]
  cases k with
  | name k =>
    simp only [seqApply, List.getElem?_append_right (Nat.le_refl _), Nat.sub_self, List.getElem?_cons_zero]
    have : k ∈ t.keys := by
      by_cases hk : k ∈ t.keys
      · exact hk
      · have hk' : k ∉ (specOf t p).keys := hk
        simp only [specStep] at hs
        rw [if_neg hk'] at hs; simp at hs
    simp [this]
  | cols ks => simp [seqApply]
  | ce cl => simp [seqApply]
  | idx i => simp [seqApply]
  | sl s => simp [seqApply]

/-- **one derivation, anywhere in a history**: the new object (the next free reference) is
    described by `specStep` of the parent's description -/
theorem step_getitem_spec (h : Heap) (r : Nat) (k : DKey) (s s' : Spec)
    (hs : specAt h r = some s) (hk : specStep s k = some s') :
    specAt (step h (.getitem r k)) h.objs.length = some s' := by
  unfold specAt at hs
  cases ho : h.objs[r]? with
  | none => simp [ho] at hs
  | some o =>
    cases o with
    | seq p =>
      simp only [ho] at hs
      cases ht : h.tmpls[p.template]? with
      | none => simp [ht] at hs
      | some t =>
        simp only [ht, Option.map_some, Option.some.injEq] at hs
        subst hs
        have hsome := getitem_isSome (h := h) (p := p) (k := k) ht (by rw [hk]; rfl)
        cases hg : seqGetitemWith seqCopy h p k with
        | none => rw [hg] at hsome; simp at hsome
        | some res =>
          obtain ⟨h2, out⟩ := res
          obtain ⟨t', ht', hst⟩ := getitem_specStep ht hg
          obtain ⟨_, hobj, _, _⟩ := getitem_spec hg
          rw [hk] at hst
          simp only [step, stepWith, ho, hg, specAt, pushObj]
          rw [← hobj, List.getElem?_append_right (Nat.le_refl _)]
          simp [ht', hst]
    | _ => simp [ho] at hs

/-- accumulate a list of keys on a description (what a fresh client does) -/
def specChain (s : Spec) : List DKey → Option Spec
  | [] => some s
  | k :: ks => (specStep s k).bind fun s1 => specChain s1 ks

/-- derive along `keys`, each key applied to the object the previous one created, with an
    arbitrary history of other events before every derivation -/
def deriveAmid (h : Heap) (r : Nat) : List (List Ev × DKey) → Heap × Nat
  | [] => (h, r)
  | (evs, k) :: rest => deriveAmid (step (run h evs) (.getitem r k)) (run h evs).objs.length rest

theorem specAt_lt {h : Heap} {r : Nat} {s : Spec} (hs : specAt h r = some s) : r < h.objs.length := by
  unfold specAt at hs
  cases ho : h.objs[r]? with
  | none => simp [ho] at hs
  | some o => exact (List.getElem?_eq_some_iff.mp ho).1

theorem deriveAmid_spec (h : Heap) (w : WF h) (r : Nat) (s s' : Spec) (l : List (List Ev × DKey))
    (hs : specAt h r = some s) (hc : specChain s (l.map Prod.snd) = some s') :
    specAt (deriveAmid h r l).1 (deriveAmid h r l).2 = some s' := by
  induction l generalizing h r s with
  | nil => simp only [List.map_nil, specChain, Option.some.injEq] at hc; subst hc; exact hs
  | cons a rest ih =>
    obtain ⟨evs, k⟩ := a
    simp only [List.map_cons, specChain] at hc
    cases hk : specStep s k with
    | none => simp [hk] at hc
    | some s1 =>
      simp only [hk, Option.bind_some] at hc
      obtain ⟨ex, w1⟩ := run_extends h w evs
      have hs1 : specAt (run h evs) r = some s := by
        rw [specAt_extends w ex r (specAt_lt hs)]; exact hs
      have hnew := step_getitem_spec (run h evs) r k s s1 hs1 hk
      exact ih _ (step_extends _ w1 _).2 _ s1 hnew hc

end Pydap.Proxy
