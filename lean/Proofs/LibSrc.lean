/-
  The source text of lib.py `_quote` and `unquote`, translated on every run by harness/py2lean.py into MiniPy syntax
  (PydapModel/Generated/LibSrc.lean), computes the model's `Quote.quote` / the three `rep3` passes of `Quote.unquote`
  (C12).  urllib's `quote_(name.encode("utf-8"), safe=safe)` is an input of the block (`@quoted`); the value of `name`
  it is applied to is tied by `src_quote_split`.  A Python `str` is a list of code points on the MiniPy side and a
  list of UTF-8 byte groups (`Quote.Str`) on the model side: `utf8Chr` / `cpOf` relate the two.
-/
import Proofs.MiniPy
import PydapModel.Quote
import PydapModel.Generated.LibSrc
set_option linter.unusedSimpArgs false
namespace Pydap
open MiniPy Quote

/-! ### code points ↔ UTF-8 byte groups -/

/-- the UTF-8 bytes of one code point (`chr(c).encode("utf-8")`, surrogates as `surrogatepass` writes them) -/
def utf8Chr (c : Nat) : Chr :=
  if c < 128 then [UInt8.ofNat c]
  else if c < 2048 then [UInt8.ofNat (192 + c / 64), UInt8.ofNat (128 + c % 64)]
  else if c < 65536 then [UInt8.ofNat (224 + c / 4096), UInt8.ofNat (128 + c / 64 % 64), UInt8.ofNat (128 + c % 64)]
  else [UInt8.ofNat (240 + c / 262144), UInt8.ofNat (128 + c / 4096 % 64), UInt8.ofNat (128 + c / 64 % 64),
        UInt8.ofNat (128 + c % 64)]

/-- the code point of one UTF-8 byte group -/
def cpOf : Chr → Nat
  | [a] => a.toNat
  | [a, b] => (a.toNat - 192) * 64 + (b.toNat - 128)
  | [a, b, c] => (a.toNat - 224) * 4096 + (b.toNat - 128) * 64 + (c.toNat - 128)
  | [a, b, c, d] => (a.toNat - 240) * 262144 + (b.toNat - 128) * 4096 + (c.toNat - 128) * 64 + (d.toNat - 128)
  | _ => 0

/-- a model string as MiniPy text -/
def cps (s : Str) : List Nat := s.map cpOf

/-- MiniPy text as a model string -/
def strOf (s : List Nat) : Str := s.map utf8Chr

theorem toNat_ofNat8 (n : Nat) : (UInt8.ofNat n).toNat = n % 256 := by simp

theorem cpOf_utf8Chr (c : Nat) (h : c < 1114112) : cpOf (utf8Chr c) = c := by
  unfold utf8Chr
  by_cases h1 : c < 128
  · rw [if_pos h1]; show (UInt8.ofNat c).toNat = c; rw [toNat_ofNat8]; omega
  · rw [if_neg h1]
    by_cases h2 : c < 2048
    · rw [if_pos h2]; show ((UInt8.ofNat _).toNat - 192) * 64 + ((UInt8.ofNat _).toNat - 128) = c
      rw [toNat_ofNat8, toNat_ofNat8]; omega
    · rw [if_neg h2]
      by_cases h3 : c < 65536
      · rw [if_pos h3]
        show ((UInt8.ofNat _).toNat - 224) * 4096 + ((UInt8.ofNat _).toNat - 128) * 64
          + ((UInt8.ofNat _).toNat - 128) = c
        rw [toNat_ofNat8, toNat_ofNat8, toNat_ofNat8]; omega
      · rw [if_neg h3]
        show ((UInt8.ofNat _).toNat - 240) * 262144 + ((UInt8.ofNat _).toNat - 128) * 4096
          + ((UInt8.ofNat _).toNat - 128) * 64 + ((UInt8.ofNat _).toNat - 128) = c
        rw [toNat_ofNat8, toNat_ofNat8, toNat_ofNat8, toNat_ofNat8]; omega

theorem cps_strOf (s : List Nat) (h : ∀ c ∈ s, c < 1114112) : cps (strOf s) = s := by
  induction s with
  | nil => rfl
  | cons c t ih =>
    simp only [cps, strOf, List.map_cons, List.cons.injEq] at *
    exact ⟨cpOf_utf8Chr c (h c (by simp)), ih (fun x hx => h x (by simp [hx]))⟩

theorem cps_chars (bs : Bytes) : cps (chars bs) = bs.map UInt8.toNat := by
  induction bs with
  | nil => rfl
  | cons b t ih =>
    simp only [cps, chars, List.map_cons, List.cons.injEq] at *
    exact ⟨rfl, ih⟩

theorem cps_append (a b : Str) : cps (a ++ b) = cps a ++ cps b := by simp [cps]

/-- a one-byte group is the encoding of the code point equal to that byte only -/
theorem utf8Chr_single (c : Nat) (b : UInt8) (hb : b.toNat < 128) : utf8Chr c = [b] ↔ c = b.toNat := by
  unfold utf8Chr
  constructor
  · intro h
    by_cases h1 : c < 128
    · rw [if_pos h1] at h
      have : UInt8.ofNat c = b := by simpa using h
      rw [← this, toNat_ofNat8]; omega
    · rw [if_neg h1] at h
      split_ifs at h <;> simp at h
  · intro h
    have : c < 128 := by omega
    rw [if_pos this, h]
    simp

theorem strOf_eq_dap4 (l : List Nat) : (strOf l == dap4) = decide ([100, 97, 112, 52] = l) := by
  have e : ∀ (c : Nat) (b : UInt8), b.toNat < 128 → ((utf8Chr c = [b]) ↔ c = b.toNat) := utf8Chr_single
  match l with
  | [] => rfl
  | [_] => simp [strOf, dap4]
  | [_, _] => simp [strOf, dap4]
  | [_, _, _] => simp [strOf, dap4]
  | _ :: _ :: _ :: _ :: _ :: _ => simp [strOf, dap4]
  | [a, b, c, d] =>
    have ha := e a 100 (by decide)
    have hb := e b 97 (by decide)
    have hc := e c 112 (by decide)
    have hd := e d 52 (by decide)
    have : (strOf [a, b, c, d] = dap4) ↔ ([100, 97, 112, 52] = [a, b, c, d]) := by
      simp only [strOf, dap4, List.map_cons, List.map_nil, List.cons.injEq, and_true, ha, hb, hc, hd]
      constructor
      · rintro ⟨h1, h2, h3, h4⟩; subst h1 h2 h3 h4; decide
      · rintro ⟨h1, h2, h3, h4⟩; subst h1 h2 h3 h4; decide
    by_cases hq : strOf [a, b, c, d] = dap4
    · rw [beq_iff_eq.mpr hq]; exact (decide_eq_true (this.mp hq)).symm
    · have h1 : (strOf [a, b, c, d] == dap4) = false := beq_eq_false_iff_ne.mpr hq
      rw [h1]; exact (decide_eq_false (fun e => hq (this.mpr e))).symm

theorem strOf_take (s : List Nat) (n : Nat) : (strOf s).take n = strOf (s.take n) := by simp [strOf, List.map_take]
theorem strOf_drop (s : List Nat) (n : Nat) : (strOf s).drop n = strOf (s.drop n) := by simp [strOf, List.map_drop]

/-! ### `str.replace` with a one-character pattern is the model's `replChr` -/

/-- `replChr` on one-byte-per-character strings, at the level of bytes -/
def replB (b : UInt8) (r q : Bytes) : Bytes := q.flatMap (fun x => if x = b then r else [x])

theorem replChr_chars (b : UInt8) (r q : Bytes) : replChr [b] (chars r) (chars q) = chars (replB b r q) := by
  induction q with
  | nil => rfl
  | cons x t ih =>
    simp only [replChr, chars, replB, List.map_cons, List.flatMap_cons, List.map_append] at *
    rw [ih]
    by_cases h : x = b <;> simp [h]

theorem replaceGo_bytes (b : UInt8) (r q : Bytes) :
    replaceGo [b.toNat] (r.map UInt8.toNat) 0 (q.map UInt8.toNat) = (replB b r q).map UInt8.toNat := by
  rw [replaceGo_single]
  induction q with
  | nil => rfl
  | cons x t ih =>
    simp only [replB, List.map_cons, List.flatMap_cons, List.map_append] at *
    rw [ih]
    by_cases h : x = b
    · subst h; simp
    · have : x.toNat ≠ b.toNat := fun e => h (UInt8.toNat_inj.mp e)
      simp [h, this]

/-! ### `_quote` -/

/-- the part of the name that `_quote` passes to urllib -/
def quoteRest (name : Str) : Str := if name.take 4 == dap4 then name.drop 8 else name
/-- the part that is kept as it is -/
def quotePre (name : Str) : Str := if name.take 4 == dap4 then name.take 8 else []
/-- the three replaces after urllib's quoting -/
def quoteTail (q : Bytes) : Bytes := replB 93 [37, 53, 68] (replB 91 [37, 53, 66] (replB 46 [37, 50, 69] q))

theorem quote_split (name : Str) :
    quote name = quotePre name ++ chars (quoteTail ((quoteRest name).flatten.flatMap quoteByte)) := by
  unfold quote quotePre quoteRest quoteTail urlQuote
  have e1 : pct2E = chars [37, 50, 69] := rfl
  have e2 : pct5B = chars [37, 53, 66] := rfl
  have e3 : pct5D = chars [37, 53, 68] := rfl
  simp only [e1, e2, e3, replChr_chars]

/-- `safe`, the dap4 test and the split: after the first statements `name` is what urllib is applied to and
    `prefix` what is kept -/
theorem src_quote_split_eq (s : List Nat) :
    runItem [("name", .str s)] Gen.src_quote_split "name" = .ok (.str (if (strOf s).take 4 == dap4 then s.drop 8 else s)) ∧
    runItem [("name", .str s)] Gen.src_quote_split "prefix" = .ok (.str (if (strOf s).take 4 == dap4 then s.take 8 else [])) ∧
    runItem [("name", .str s)] Gen.src_quote_split "safe" = .ok (.str (Pydap.Gen.QUOTE_SAFE.toList.map Char.toNat)) := by
  unfold Gen.src_quote_split
  rw [strOf_take, strOf_eq_dap4]
  have hsw : decide (s.take 4 = [100, 97, 112, 52]) = decide ([100, 97, 112, 52] = s.take 4) :=
    decide_eq_decide.mpr eq_comm
  refine ⟨?_, ?_, ?_⟩ <;>
  · simp (decide := true) only [runItem, exec, eval, bind_ok', lookup_cons_eq, lookup_cons_ne, lookup_setVar_eq,
      lookup_setVar_ne, truthy_bool, hsw]
    by_cases h : [100, 97, 112, 52] = s.take 4 <;>
      simp (decide := true) [h, exec, eval, lookup_setVar_eq, lookup_setVar_ne, lookup_cons_eq, lookup_cons_ne]

/-- the whole body, for every value `q` of `quote_(name.encode("utf-8"), safe=safe)` -/
theorem src_quote_eq (s : List Nat) (q : Bytes) :
    runItem [("name", .str s), ("@quoted", .str (q.map UInt8.toNat))] Gen.src_quote "@ret"
      = .ok (.str ((if (strOf s).take 4 == dap4 then s.take 8 else []) ++ (quoteTail q).map UInt8.toNat)) := by
  unfold Gen.src_quote quoteTail
  rw [strOf_take, strOf_eq_dap4]
  have hsw : decide (s.take 4 = [100, 97, 112, 52]) = decide ([100, 97, 112, 52] = s.take 4) :=
    decide_eq_decide.mpr eq_comm
  have r1 := replaceGo_bytes 46 [37, 50, 69] q
  have r2 := replaceGo_bytes 91 [37, 53, 66] (replB 46 [37, 50, 69] q)
  have r3 := replaceGo_bytes 93 [37, 53, 68] (replB 91 [37, 53, 66] (replB 46 [37, 50, 69] q))
  simp only [List.map_cons, List.map_nil, show (46 : UInt8).toNat = 46 from rfl, show (91 : UInt8).toNat = 91 from rfl,
    show (93 : UInt8).toNat = 93 from rfl, show (37 : UInt8).toNat = 37 from rfl, show (50 : UInt8).toNat = 50 from rfl,
    show (69 : UInt8).toNat = 69 from rfl, show (53 : UInt8).toNat = 53 from rfl, show (66 : UInt8).toNat = 66 from rfl,
    show (68 : UInt8).toNat = 68 from rfl] at r1 r2 r3
  by_cases h : [100, 97, 112, 52] = s.take 4 <;>
    simp (decide := true) only [runItem, exec, eval, bind_ok', lookup_cons_eq, lookup_cons_ne, lookup_setVar_eq,
      lookup_setVar_ne, truthy_bool, hsw, h, decide_true, decide_false, if_true, if_false, strReplace, List.isEmpty_cons,
      Bool.false_eq_true, r1, r2, r3, List.nil_append]

/-- `_quote(name)` is the model's `quote`: with urllib's quoting of the split-off rest as `@quoted`, the interpreted
    source returns the code points of `quote (strOf s)` -/
theorem src_quote_model (s : List Nat) (hs : ∀ c ∈ s, c < 1114112) :
    runItem [("name", .str s), ("@quoted", .str (((quoteRest (strOf s)).flatten.flatMap quoteByte).map UInt8.toNat))]
      Gen.src_quote "@ret" = .ok (.str (cps (quote (strOf s)))) := by
  rw [src_quote_eq, quote_split, cps_append, cps_chars]
  unfold quotePre
  by_cases h : ((strOf s).take 4 == dap4) = true
  · simp only [h, if_true]
    rw [strOf_take, cps_strOf _ (fun c hc => hs c (List.mem_of_mem_take hc))]
  · simp only [h, if_false, Bool.false_eq_true]; rfl

/-! ### `unquote` -/

/-- `str.replace` with a three-character pattern and a one-character replacement is the model's `rep3` -/
theorem replaceGo_three (a b c r : Nat) (l : List Nat) :
    replaceGo [a, b, c] [r] 0 l = rep3 a b c r l ∧
    (∀ y z, replaceGo [a, b, c] [r] 2 (y :: z :: l) = rep3 a b c r l) := by
  have skip2 : ∀ (y z : Nat) (t : List Nat), replaceGo [a, b, c] [r] 2 (y :: z :: t) = replaceGo [a, b, c] [r] 0 t := by
    intro y z t; simp [replaceGo]
  suffices h : ∀ n (l : List Nat), l.length ≤ n → replaceGo [a, b, c] [r] 0 l = rep3 a b c r l by
    exact ⟨h l.length l (Nat.le_refl _), fun y z => by rw [skip2]; exact h l.length l (Nat.le_refl _)⟩
  intro n
  induction n with
  | zero => intro l hl; match l, hl with | [], _ => rfl
  | succ n ih =>
    intro l hl
    match l, hl with
    | [], _ => rfl
    | [x], _ => simp [replaceGo, rep3, List.isPrefixOf]
    | [x, y], _ => simp [replaceGo, rep3, List.isPrefixOf]
    | x :: y :: z :: t, hl =>
      have h1 := ih (y :: z :: t) (by simp at hl ⊢; omega)
      have h2 := ih t (by simp at hl ⊢; omega)
      rw [rep3]
      by_cases hm : x = a ∧ y = b ∧ z = c
      · obtain ⟨rfl, rfl, rfl⟩ := hm
        simp only [replaceGo, List.isPrefixOf, beq_self_eq_true, Bool.and_self, if_true, List.length_cons,
          List.length_nil, and_self]
        simp only [Nat.zero_add, Nat.reduceAdd, Nat.add_one_sub_one, List.cons_append, List.nil_append, replaceGo, h2]
      · have : ([a, b, c].isPrefixOf (x :: y :: z :: t)) = false := by
          simp only [List.isPrefixOf, Bool.and_true]
          cases hc : (a == x && (b == y && c == z))
          · rfl
          · simp only [Bool.and_eq_true, beq_iff_eq] at hc
            exact absurd ⟨hc.1.symm, hc.2.1.symm, hc.2.2.symm⟩ hm
        rw [replaceGo, this, if_neg hm, h1]
        simp

/-- the three replaces of `unquote`, on code points -/
theorem src_unquote_replaces_eq (s : List Nat) :
    runItem [("name", .str s)] Gen.src_unquote_replaces "name"
      = .ok (.str (rep3 37 53 68 93 (rep3 37 53 66 91 (rep3 37 50 69 46 s)))) := by
  unfold Gen.src_unquote_replaces
  simp (decide := true) only [runItem, exec, eval, bind_ok', lookup_cons_eq, lookup_setVar_eq, strReplace,
    List.isEmpty_cons, Bool.false_eq_true, if_false, (replaceGo_three _ _ _ _ _).1]

/-- `rep3` commutes with an injective renaming of the alphabet -/
theorem rep3_map {α β} [DecidableEq α] [DecidableEq β] (f : α → β) (hf : ∀ x y, f x = f y → x = y) (a b c r : α)
    (l : List α) : (rep3 a b c r l).map f = rep3 (f a) (f b) (f c) (f r) (l.map f) := by
  suffices h : ∀ n (l : List α), l.length ≤ n → (rep3 a b c r l).map f = rep3 (f a) (f b) (f c) (f r) (l.map f) from
    h l.length l (Nat.le_refl _)
  intro n
  induction n with
  | zero => intro l hl; match l, hl with | [], _ => rfl
  | succ n ih =>
    intro l hl
    match l, hl with
    | [], _ => rfl
    | [x], _ => simp [rep3]
    | [x, y], _ => simp [rep3]
    | x :: y :: z :: t, hl =>
      have h1 := ih (y :: z :: t) (by simp at hl ⊢; omega)
      have h2 := ih t (by simp at hl ⊢; omega)
      simp only [List.map_cons] at h1 ⊢
      rw [rep3, rep3]
      by_cases hm : x = a ∧ y = b ∧ z = c
      · obtain ⟨rfl, rfl, rfl⟩ := hm
        simp [h2]
      · have : ¬ (f x = f a ∧ f y = f b ∧ f z = f c) := fun ⟨p, q, r⟩ => hm ⟨hf _ _ p, hf _ _ q, hf _ _ r⟩
        rw [if_neg hm, if_neg this, List.map_cons, h1]

/-- on a string of one-byte characters the interpreted replaces leave exactly what the model's `unquote` hands to
    `unq` (urllib's unquote) -/
theorem src_unquote_model (bs : Bytes) :
    ∃ r : Bytes,
      runItem [("name", .str (bs.map UInt8.toNat))] Gen.src_unquote_replaces "name" = .ok (.str (r.map UInt8.toNat)) ∧
      unquote (chars bs) = unq r := by
  refine ⟨rep3 (37 : UInt8) 53 68 93 (rep3 (37 : UInt8) 53 66 91 (rep3 (37 : UInt8) 50 69 46 bs)), ?_, ?_⟩
  · rw [src_unquote_replaces_eq]
    have inj : ∀ x y : UInt8, x.toNat = y.toNat → x = y := fun x y h => UInt8.toNat_inj.mp h
    rw [rep3_map UInt8.toNat inj, rep3_map UInt8.toNat inj, rep3_map UInt8.toNat inj]
    rfl
  · unfold unquote
    have : (chars bs).flatten = bs := by
      induction bs with
      | nil => rfl
      | cons x t ih => simp only [chars, List.map_cons, List.flatten_cons, List.singleton_append] at *; rw [ih]
    rw [this]

end Pydap
