import Proofs.DdsFixpoint
import Proofs.DdsPrintable
import Proofs.DdsForeignTree
namespace Pydap.Dds
open Pydap

/-! ### the skeleton of a tree: kinds, names and ORDER of all nodes — the members of a Grid (array first, then the
    maps in the order the Grid holds them) included.  Nothing ties the order or the names of the maps to the
    dimensions of the array: neither the printer nor the parser looks at them. -/

inductive Skel where
  | base (name : Text)
  | struct (name : Text) (kids : List Skel)
  | seq (name : Text) (kids : List Skel)
  | grid (name : Text) (members : List Text)
deriving Repr

mutual
def skelT : Tmpl → Skel
  | .base b => .base b.name
  | .struct n kids => .struct n (skelL kids)
  | .seq n kids => .seq n (skelL kids)
  | .grid n kids => .grid n (kids.map (·.name))
def skelL : List Tmpl → List Skel
  | [] => []
  | t :: ts => skelT t :: skelL ts
end

def skelDs (d : Dataset) : Text × List Skel := (d.name, skelL d.kids)

theorem normBase_name (b : BaseV) (sq : Nat) : (normBase b sq).name = b.name := by
  unfold normBase
  simp only
  split
  · rfl
  · split <;> rfl

mutual
theorem normT_skel : (t : Tmpl) → (sq : Nat) → skelT (normT t sq) = skelT t
  | .base b, sq => by simp only [normT, skelT, normBase_name]
  | .struct n kids, sq => by simp only [normT, skelT, normL_skel kids sq]
  | .seq n kids, sq => by simp only [normT, skelT, normL_skel kids (sq + 1)]
  | .grid n kids, sq => by
    simp only [normT, skelT, List.map_map]
    congr 1
    apply List.map_congr_left
    intro b _
    exact normBase_name b sq
theorem normL_skel : (ts : List Tmpl) → (sq : Nat) → skelL (normL ts sq) = skelL ts
  | [], sq => by simp only [normL, skelL]
  | t :: ts, sq => by simp only [normL, skelL, normT_skel t sq, normL_skel ts sq]
end

theorem normDs_skel (d : Dataset) : skelDs (normDs d) = skelDs d := by
  simp only [skelDs, normDs, normL_skel d.kids 0]

/-! ### a Grid whose maps are NOT held in the order of the array's dimensions (non-vacuity) -/

/-- array `v[t][y][x]`; maps `x`, then `h` (not a dimension of the array), then `t`; dimension `y` has no map -/
def permGridWitness : Dataset :=
  ⟨['d'], [.grid ['G'] [⟨['v'], ['d'], [2, 3, 4], [['t'], ['y'], ['x']], false⟩,
                        ⟨['x'], ['f'], [4], [['x']], false⟩,
                        ⟨['h'], ['i'], [2], [], false⟩,
                        ⟨['t'], ['d'], [2], [['t']], false⟩]]⟩

theorem intText_2 : intText 2 = ['2'] := by simp [intText, natDigits, digitChar]
theorem intText_4 : intText 4 = ['4'] := by simp [intText, natDigits, digitChar]

theorem permGridWitness_wf : WFds permGridWitness := by
  simp [WFds, permGridWitness, WFL, WFT, BaseOk, NameOk, Tmpl.name]
  decide

set_option maxRecDepth 8000 in
theorem permGridWitness_prints :
    printDs permGridWitness = .ok ("Dataset {\n    Grid {\n        Array:\n            Float64 v[t = 2][y = 3][x = 4];\n" ++
      "        Maps:\n            Float32 x[x = 4];\n            Int32 h[h = 2];\n            Float64 t[t = 2];\n    } G;\n} d;\n").toList := by
  have l1 : lookup Gen.NUMPY_TO_DAP2_TYPEMAP (dtypeChar ['d']) = some "Float64".toList := by decide
  have l2 : lookup Gen.NUMPY_TO_DAP2_TYPEMAP (dtypeChar ['f']) = some "Float32".toList := by decide
  have l3 : lookup Gen.NUMPY_TO_DAP2_TYPEMAP (dtypeChar ['i']) = some "Int32".toList := by decide
  simp [permGridWitness, printDs, printL, printT, printGrid, printBases, printBase, shapeText, effShape, dimText,
    intText_2, intText_3, intText_4, closeText, indent, l1, l2, l3]

theorem permGridWitness_norm :
    normDs permGridWitness
      = ⟨['d'], [.grid ['G'] [⟨['v'], ['>', 'd'], [2, 3, 4], [['t'], ['y'], ['x']], true⟩,
                              ⟨['x'], ['>', 'f'], [4], [['x']], true⟩,
                              ⟨['h'], ['>', 'i'], [2], [['h']], true⟩,
                              ⟨['t'], ['>', 'd'], [2], [['t']], true⟩]]⟩ := by
  have l1 : normTy ['d'] = ['>', 'd'] := by decide
  have l2 : normTy ['f'] = ['>', 'f'] := by decide
  have l3 : normTy ['i'] = ['>', 'i'] := by decide
  simp [permGridWitness, normDs, normL, normT, normBase, effShape, l1, l2, l3]

/-! ### what a foreign-style DDS declares is inside the domain of the print → parse theorems -/

/-- every dtype of the parser's table is a dtype the printer knows -/
theorem parser_dtypes_known : ∀ p ∈ Gen.LOWER_DAP2_TO_NUMPY_PARSER_TYPEMAP,
    (lookup Gen.NUMPY_TO_DAP2_TYPEMAP (dtypeChar p.2.toList)).isSome = true := by decide

theorem declBase_known (b : FBase) (h : FBaseOk b) : TyKnown (declBase b) := by
  obtain ⟨dt, hdt⟩ := h.ty.known
  obtain ⟨p, hp, e⟩ := lookup_mem _ _ _ hdt
  have := parser_dtypes_known p hp
  simp only [TyKnown, declBase, declTy, hdt]
  rw [← e]; exact this

/-- every raw name is quoted into `name_regexp` -/
theorem RawNameOk.quoted {n : Text} (h : RawNameOk n) : NameOk (quoteName n) :=
  quoteName_nameOk_any n h.ne (fun c hc => ⟨h.noSlash c hc, h.ascii c hc⟩) h.dap4

theorem declBase_ok (b : FBase) (h : FBaseOk b) : BaseOk (declBase b) := by
  refine ⟨h.name.quoted, ?_, ?_⟩
  · intro d hd
    have hd' : d ∈ b.dims.filterMap (·.1) := by
      simp only [declBase, fitDims] at hd
      split at hd
      · exact hd
      · cases hd
    simp only [List.mem_filterMap] at hd'
    obtain ⟨e, he, hed⟩ := hd'
    exact (h.dims e he).2 d hed
  · intro n hn
    simp only [declBase, List.mem_map] at hn
    obtain ⟨e, he, hen⟩ := hn
    rw [← hen]; exact (h.dims e he).1

mutual
theorem declT_wf : (t : FTmpl) → FWFT t → WFT (declT t) ∧ PrintableT (declT t)
  | .base b, h => by
    simp only [FWFT] at h
    simp only [declT, WFT, PrintableT]
    exact ⟨declBase_ok b h, declBase_known b h⟩
  | .cont isSeq kw name gs kids, h => by
    simp only [FWFT] at h
    obtain ⟨_, hn, _, hk, hnd⟩ := h
    have ih := declL_wf kids hk
    cases isSeq <;> simp only [declT, Bool.false_eq_true, if_false, if_true, WFT, PrintableT] <;>
      exact ⟨⟨hn.quoted, ih.1, hnd⟩, ih.2⟩
  | .grid kw kwA kwM name gs arr maps, h => by
    simp only [FWFT] at h
    simp only [declT, WFT, PrintableT]
    refine ⟨⟨h.hname.quoted, ?_, ?_⟩, by simp, ?_⟩
    · intro b hb
      simp only [List.mem_cons, List.mem_map] at hb
      rcases hb with rfl | ⟨m, hm, rfl⟩
      · exact declBase_ok arr h.harr
      · exact declBase_ok m (h.hmaps m hm)
    · have := h.hnodup
      simpa [declBase, List.map_map, Function.comp_def] using this
    · intro b hb
      simp only [List.mem_cons, List.mem_map] at hb
      rcases hb with rfl | ⟨m, hm, rfl⟩
      · exact declBase_known arr h.harr
      · exact declBase_known m (h.hmaps m hm)
theorem declL_wf : (ts : List FTmpl) → FWFL ts → WFL (declL ts) ∧ PrintableL (declL ts)
  | [], _ => by simp [declL, WFL, PrintableL]
  | t :: ts, h => by
    simp only [FWFL] at h
    have h1 := declT_wf t h.1
    have h2 := declL_wf ts h.2
    simp only [declL, WFL, PrintableL]
    exact ⟨⟨h1.1, h2.1⟩, h1.2, h2.2⟩
end

theorem declDs_wf (d : FDataset) (h : FWFds d) : WFds (declDs d) ∧ PrintableL (declDs d).kids :=
  ⟨⟨h.hname.quoted, (declL_wf d.kids h.hkids).1, h.hnodup⟩, (declL_wf d.kids h.hkids).2⟩

end Pydap.Dds
