import Proofs.DdsText
namespace Pydap.Dds
theorem toNat_ofNat_small (n : Nat) (h : n < 55296) : (Char.ofNat n).toNat = n := by
  unfold Char.ofNat
  rw [dif_pos (Or.inl h)]
  simp [Char.ofNatAux, Char.toNat]
theorem lowerC_toNat (c : Char) : (lowerC c).toNat = if isUpper c then c.toNat + 32 else c.toNat := by
  unfold lowerC
  split
  · rename_i h
    apply toNat_ofNat_small
    have : c.toNat ≤ 90 := by char_arith
    omega
  · rfl
theorem word_peek_close (c : Char) (x : Text) (h : isWord c = true) : peekLit ['}'] (c :: x) = false := by
  rw [peekLit_one]
  have h2 : lowerC '}' = '}' := by decide
  rw [h2]
  have := lowerC_toNat c
  simp only [decide_eq_false_iff_not, ceq, this]
  split <;> char_arith

/-! ### dict insertion -/

theorem foldl_insert_nodup {α} (f : α → Text) (l acc : List α) (h : ((acc ++ l).map f).Nodup) :
    l.foldl (fun acc v => acc.filter (fun x => f x != f v) ++ [v]) acc = acc ++ l := by
  induction l generalizing acc with
  | nil => simp
  | cons v vs ih =>
    simp only [List.foldl_cons]
    have hv : acc.filter (fun x => f x != f v) = acc := by
      rw [List.filter_eq_self]
      intro x hx
      simp only [bne_iff_ne, ne_eq]
      intro e
      simp only [List.map_append, List.map_cons] at h
      have := (List.nodup_append.mp h).2.2 (f x) (List.mem_map_of_mem hx) (f v) (by simp)
      exact this e
    rw [hv, ih (acc ++ [v]) (by simpa using h)]
    simp

theorem insertAll_nodup (l : List Tmpl) (h : (l.map Tmpl.name).Nodup) : insertAll l = l := by
  have := foldl_insert_nodup Tmpl.name l [] (by simpa using h)
  have e : addChild = (fun acc v => acc.filter (fun x => x.name != v.name) ++ [v]) := by
    funext acc v; rfl
  rw [insertAll, e]; simpa using this

theorem insertAllB_nodup (l : List BaseV) (h : (l.map (·.name)).Nodup) : insertAllB l = l := by
  have := foldl_insert_nodup (fun b : BaseV => b.name) l [] (by simpa using h)
  have e : addChildB = (fun acc v => acc.filter (fun x => x.name != v.name) ++ [v]) := by
    funext acc v; rfl
  rw [insertAllB, e]; simpa using this

/-! ### closing brace, name, semicolon -/

theorem closing_print (level : Nat) (name rest : Text) (h : NameOk name) :
    closing (lstrip (closeText level name ++ rest)) = .ok (name, lstrip rest) := by
  have e1 : lstrip (closeText level name ++ rest) = '}' :: ' ' :: (name ++ ';' :: '\n' :: rest) := by
    simp only [closeText, List.append_assoc, List.cons_append, List.nil_append]
    rw [lstrip_indent]; exact lstrip_cons_nonspace _ (by decide)
  rw [e1]
  have s1 : consumeLit ['}'] ('}' :: ' ' :: (name ++ ';' :: '\n' :: rest)) = .ok (name ++ ';' :: '\n' :: rest) := by
    rw [consumeLit_one _ _ _ rfl, lstrip_cons_space _ (by decide), h.lstrip]
  have s2 := consumeClass_span notSemi name ';' ('\n' :: rest) (fun c hc => nameRe_notSemi c (h.2 c hc)) h.1 (by decide)
  rw [lstrip_cons_nonspace _ (by decide)] at s2
  have s3 : consumeLit [';'] (';' :: '\n' :: rest) = .ok (lstrip rest) := by
    rw [consumeLit_one _ _ _ rfl, lstrip_cons_space _ (by decide)]
  simp only [closing, s1, s2, s3, quoteName_ok h]

theorem closing_peek (level : Nat) (name rest : Text) :
    peekLit ['}'] (lstrip (closeText level name ++ rest)) = true := by
  have e1 : lstrip (closeText level name ++ rest) = '}' :: ' ' :: (name ++ ';' :: '\n' :: rest) := by
    simp only [closeText, List.append_assoc, List.cons_append, List.nil_append]
    rw [lstrip_indent]; exact lstrip_cons_nonspace _ (by decide)
  rw [e1, peekLit_one]; decide

/-! ### what a printed base declaration starts with -/

theorem printBase_shape (b : BaseV) (level sq : Nat) (s : Text) (hp : printBase b level sq = .ok s) :
    ∃ ty dt tail, TyFacts ty dt ∧ ∀ rest, lstrip (s ++ rest) = ty ++ ' ' :: (tail ++ rest) := by
  unfold printBase at hp
  cases hl : lookup Gen.NUMPY_TO_DAP2_TYPEMAP (dtypeChar b.dt) with
  | none => rw [hl] at hp; cases hp
  | some ty =>
    rw [hl] at hp
    obtain ⟨dt, tf⟩ := tyFacts _ _ hl
    injection hp with hp
    subst hp
    refine ⟨ty, dt, b.name ++ shapeText b sq ++ [';', '\n'], tf, fun rest => ?_⟩
    simp only [List.append_assoc, List.cons_append, List.nil_append]
    rw [lstrip_indent]
    exact lstrip_head ty _ tf.ne (fun c hc => nameRe_not_space c (word_nameRe c (tf.word c hc)))

theorem printBase_peek (b : BaseV) (level sq : Nat) (s rest : Text) (hp : printBase b level sq = .ok s) :
    peekLit ['}'] (lstrip (s ++ rest)) = false := by
  obtain ⟨ty, dt, tail, tf, h⟩ := printBase_shape b level sq s hp
  rw [h]
  cases ty with
  | nil => exact absurd rfl tf.ne
  | cons c cs => exact word_peek_close c _ (tf.word c (by simp))

theorem printBase_word (b : BaseV) (level sq : Nat) (s rest : Text) (hp : printBase b level sq = .ok s) :
    let w := lower ((lstrip (s ++ rest)).takeWhile isWord)
    w ≠ "grid".toList ∧ w ≠ "sequence".toList ∧ w ≠ "structure".toList := by
  obtain ⟨ty, dt, tail, tf, h⟩ := printBase_shape b level sq s hp
  simp only [h]
  rw [(takeWhile_span isWord ty ' ' (tail ++ rest) tf.word (by decide)).1]
  exact ⟨tf.notGrid, tf.notSeq, tf.notStruct⟩

/-! ### grids -/

theorem mapsLoop_print (bs : List BaseV) (level sq : Nat) (s rest : Text) (fuel : Nat)
    (hp : printBases bs level sq = .ok s) (hok : ∀ b ∈ bs, BaseOk b) (hf : bs.length ≤ fuel)
    (hr : peekLit ['}'] (lstrip rest) = true) :
    mapsLoop fuel (lstrip (s ++ rest)) = .ok (bs.map (fun b => normBase b sq), lstrip rest) := by
  induction bs generalizing s fuel with
  | nil =>
    simp only [printBases] at hp
    injection hp with hp; subst hp
    cases fuel <;> simp [mapsLoop, hr]
  | cons b bs ih =>
    cases fuel with
    | zero => simp at hf
    | succ f =>
      unfold printBases at hp
      cases h1 : printBase b level sq with
      | error e => rw [h1] at hp; cases hp
      | ok sb =>
        rw [h1] at hp
        cases h2 : printBases bs level sq with
        | error e => rw [h2] at hp; cases hp
        | ok sr =>
          rw [h2] at hp
          injection hp with hp; subst hp
          have ih' := ih sr f h2 (fun x hx => hok x (by simp [hx])) (by simpa using hf)
          have hb := base_print b level sq sb (sr ++ rest) h1 (hok b (by simp))
          have hpk := printBase_peek b level sq sb (sr ++ rest) h1
          rw [List.append_assoc]
          simp only [mapsLoop, hpk, Bool.false_eq_true, if_false, hb, ih', List.map_cons]

theorem printBase_len (b : BaseV) (level sq : Nat) (s : Text) (hp : printBase b level sq = .ok s) : 2 ≤ s.length := by
  unfold printBase at hp
  split at hp
  · cases hp
  · injection hp with hp; subst hp; simp only [List.length_append, List.length_cons, List.length_nil]; omega

theorem printBases_len (bs : List BaseV) (level sq : Nat) (s : Text) (hp : printBases bs level sq = .ok s) :
    bs.length ≤ s.length := by
  induction bs generalizing s with
  | nil => simp
  | cons b bs ih =>
    unfold printBases at hp
    cases h1 : printBase b level sq with
    | error e => rw [h1] at hp; cases hp
    | ok sb =>
      rw [h1] at hp
      cases h2 : printBases bs level sq with
      | error e => rw [h2] at hp; cases hp
      | ok sr =>
        rw [h2] at hp
        injection hp with hp; subst hp
        have := ih sr h2
        have := printBase_len b level sq sb h1
        simp only [List.length_append, List.length_cons]; omega

theorem grid_print (name : Text) (kids : List BaseV) (level sq : Nat) (s rest : Text)
    (hp : printGrid name kids level sq = .ok s) (hn : NameOk name) (hok : ∀ b ∈ kids, BaseOk b)
    (hnd : (kids.map (·.name)).Nodup) :
    grid (lstrip (s ++ rest)) = .ok (.grid name (kids.map fun b => normBase b sq), lstrip rest) := by
  unfold printGrid at hp
  cases kids with
  | nil => cases hp
  | cons a maps =>
    simp only at hp
    cases h1 : printBase a (level + 2) sq with
    | error e => rw [h1] at hp; cases hp
    | ok sa =>
      rw [h1] at hp
      cases h2 : printBases maps (level + 2) sq with
      | error e => rw [h2] at hp; cases hp
      | ok sm =>
        rw [h2] at hp
        injection hp with hp; subst hp
        generalize hR3 : closeText level name ++ rest = R3
        generalize hR2 : indent (level + 1) ++ ("Maps:\n".toList ++ (sm ++ R3)) = R2
        generalize hZ1 : indent (level + 1) ++ ("Array:\n".toList ++ (sa ++ R2)) = Z1
        have e1 : lstrip ((indent level ++ "Grid {\n".toList ++ indent (level + 1) ++ "Array:\n".toList ++ sa
            ++ indent (level + 1) ++ "Maps:\n".toList ++ sm ++ closeText level name) ++ rest)
            = "Grid".toList ++ (' ' :: '{' :: '\n' :: Z1) := by
          simp only [List.append_assoc, hR3, hR2, hZ1]
          rw [lstrip_indent]; exact lstrip_cons_nonspace _ (by decide)
        rw [e1]
        have s1 : consumeLit "grid".toList ("Grid".toList ++ (' ' :: '{' :: '\n' :: Z1)) = .ok ('{' :: '\n' :: Z1) := by
          rw [consumeLit_prefix _ _ _ (by decide), lstrip_cons_space _ (by decide), lstrip_cons_nonspace _ (by decide)]
        have s2 : consumeLit ['{'] ('{' :: '\n' :: Z1) = .ok ("Array".toList ++ (':' :: '\n' :: (sa ++ R2))) := by
          rw [consumeLit_one _ _ _ rfl, lstrip_cons_space _ (by decide), ← hZ1, lstrip_indent]
          exact congrArg _ (lstrip_cons_nonspace _ (by decide))
        have s3 : consumeLit "array".toList ("Array".toList ++ (':' :: '\n' :: (sa ++ R2))) = .ok (':' :: '\n' :: (sa ++ R2)) := by
          rw [consumeLit_prefix _ _ _ (by decide), lstrip_cons_nonspace _ (by decide)]
        have s4 : consumeLit [':'] (':' :: '\n' :: (sa ++ R2)) = .ok (lstrip (sa ++ R2)) := by
          rw [consumeLit_one _ _ _ rfl, lstrip_cons_space _ (by decide)]
        have s5 := base_print a (level + 2) sq sa R2 h1 (hok a (by simp))
        have s6 : lstrip R2 = "Maps".toList ++ (':' :: '\n' :: (sm ++ R3)) := by
          rw [← hR2, lstrip_indent]; exact lstrip_cons_nonspace _ (by decide)
        have s7 : consumeLit "maps".toList ("Maps".toList ++ (':' :: '\n' :: (sm ++ R3))) = .ok (':' :: '\n' :: (sm ++ R3)) := by
          rw [consumeLit_prefix _ _ _ (by decide), lstrip_cons_nonspace _ (by decide)]
        have s8 : consumeLit [':'] (':' :: '\n' :: (sm ++ R3)) = .ok (lstrip (sm ++ R3)) := by
          rw [consumeLit_one _ _ _ rfl, lstrip_cons_space _ (by decide)]
        have hlen : maps.length ≤ ("Grid".toList ++ (' ' :: '{' :: '\n' :: Z1)).length := by
          have := printBases_len maps (level + 2) sq sm h2
          rw [← hZ1, ← hR2]
          simp only [List.length_append, List.length_cons]; omega
        have s9 := mapsLoop_print maps (level + 2) sq sm R3 _ h2 (fun b hb => hok b (by simp [hb])) hlen
          (by rw [← hR3]; exact closing_peek level name rest)
        have s10 : closing (lstrip R3) = .ok (name, lstrip rest) := by
          rw [← hR3]; exact closing_print level name rest hn
        have hins : insertAllB (normBase a sq :: maps.map fun b => normBase b sq)
            = normBase a sq :: maps.map fun b => normBase b sq := by
          apply insertAllB_nodup
          have : ∀ b : BaseV, (normBase b sq).name = b.name := by
            intro b; rw [normBase_entries]
          have e : (normBase a sq :: maps.map fun b => normBase b sq).map (·.name) = (a :: maps).map (·.name) := by
            simp [this, Function.comp_def]
          rw [e]; exact hnd
        simp only [grid, s1, s2, s3, s4, s5, s6, s7, s8, s9, s10, hins, List.map_cons]

end Pydap.Dds
