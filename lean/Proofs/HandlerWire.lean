/-
  The data response on the wire (C06): the XDR payload the handler model hands to C05's encoder
  (`Xdr.encImpl (tmplOf cds) (dataOf cds)`).
    * `payload_length`: whenever `calculate_size` announces a length for the declaration of a
      well-formed dataset, the payload has exactly that length — all eight types, Byte arrays with
      their padding, every nesting the model has; only `Base.WF` (as many values as the shape says)
      is needed, no value ranges;
    * `payload_vars`: the payload is the concatenation, in declaration order, of the payloads of the
      variables;
    * the explicit wire form of Byte arrays / scalars / sequence columns and of regular arrays.
-/
import PydapModel.Handler
import Proofs.Handler
import Proofs.XdrSize
namespace Pydap.Handler
open Pydap

/-! ### characters ↔ bytes -/

theorem ofNat_toNat_char (x : UInt8) : UInt8.ofNat (Char.ofNat x.toNat).toNat = x := by
  have h : x.toNat < 256 := x.toNat_lt
  have hv : x.toNat.isValidChar := by
    left; omega
  rw [Char.ofNat, dif_pos hv]
  show UInt8.ofNat x.toNat = x
  simp

theorem strBytes_bytesStr (b : Xdr.Bytes) : strBytes (bytesStr b) = b := by
  induction b with
  | nil => rfl
  | cons x xs ih =>
    simp only [bytesStr, strBytes, List.map_cons, List.map_map] at ih ⊢
    rw [ofNat_toNat_char]
    congr 1

theorem strBytes_append (a b : Str) : strBytes (a ++ b) = strBytes a ++ strBytes b := by
  simp [strBytes]

theorem strBytes_length (a : Str) : (strBytes a).length = a.length := by simp [strBytes]

theorem bytesStr_length (a : Xdr.Bytes) : (bytesStr a).length = a.length := by simp [bytesStr]

/-! ### structure of the payload -/

theorem encImpls_map {α : Type} (f : α → Xdr.Tmpl) (g : α → Xdr.Data) :
    ∀ l : List α, Xdr.encImpls (l.map f) (l.map g) = l.flatMap fun x => Xdr.encImpl (f x) (g x)
  | [] => by simp [Xdr.encImpls]
  | x :: xs => by simp [Xdr.encImpls, encImpls_map f g xs]

/-- payload of one variable -/
def payloadVar (v : Var) : Xdr.Bytes := Xdr.encImpl (tmplOfVar v) (dataOfVar v)

def payloadBase (b : Base) : Xdr.Bytes := Xdr.encImpl (tmplOfBase b) (dataOfBase b)

/-- the payload is the payloads of the variables, in the order of the declaration -/
theorem payload_vars (ds : Dataset) : payload ds = ds.vars.flatMap payloadVar := by
  simp only [payload, tmplOf, dataOf, Xdr.encImpl]
  exact encImpls_map _ _ _

theorem payloadVar_struct (n : Str) (ms : List Member) :
    payloadVar (.struct n ms) = ms.flatMap fun m => Xdr.encImpl (tmplOfMember m) (dataOfMember m) := by
  simp only [payloadVar, tmplOfVar, dataOfVar, Xdr.encImpl]
  exact encImpls_map _ _ _

theorem payloadVar_grid (n : Str) (a : Base) (ms : List Base) :
    payloadVar (.grid n a ms) = payloadBase a ++ ms.flatMap payloadBase := by
  simp only [payloadVar, tmplOfVar, dataOfVar, Xdr.encImpl, Xdr.encImpls, payloadBase]
  congr 1
  exact encImpls_map _ _ _

theorem member_struct_payload (k : Str) (bs : List Base) :
    Xdr.encImpl (tmplOfMember (.struct k bs)) (dataOfMember (.struct k bs)) = bs.flatMap payloadBase := by
  simp only [tmplOfMember, dataOfMember, Xdr.encImpl]
  exact encImpls_map _ _ _

/-! ### the wire form of a base variable -/

theorem tyOf_ne_string_num (t : Xdr.Ty) (hs : t ≠ .string) (v : Val) : ∃ n, xVal t v = .num n := by
  cases v with
  | int i => cases t <;> simp [xVal] at hs ⊢
  | str s => cases t <;> simp [xVal] at hs ⊢

theorem flatten_toWire_xVal (t : Xdr.Ty) (hs : t ≠ .string) :
    ∀ vs : List Val, ((vs.map (xVal t)).map (Xdr.toWire t)).flatten.length = vs.length * Xdr.wireWidth t
  | [] => by simp
  | v :: vs => by
    obtain ⟨n, hn⟩ := tyOf_ne_string_num t hs v
    simp only [List.map_cons, List.flatten_cons, List.length_append, hn, Xdr.toWire_length,
      flatten_toWire_xVal t hs vs, List.length_cons]
    rw [Nat.add_mul]; omega

/-- **a Byte array on the wire**: the element count twice, one byte per value, zeros up to a multiple
    of four -/
theorem payloadBase_byte_array (b : Base) (hty : tyOf b.ty = .byte) (hs : b.shape ≠ []) :
    payloadBase b = Xdr.be 4 b.data.length ++ Xdr.be 4 b.data.length ++
      ((b.data.map (xVal .byte)).map (Xdr.toWire .byte)).flatten ++ Xdr.zeros (Xdr.pad4 b.data.length) := by
  have hB : Xdr.wireStr .byte = "B" := by decide
  have hC : Xdr.wireChar .byte ≠ 'S' := by decide
  cases hsh : b.shape with
  | nil => exact absurd hsh hs
  | cons n ns =>
    simp [payloadBase, tmplOfBase, dataOfBase, xValR_fun, xValR_eq, hsh, hty, Xdr.encImpl, Xdr.encBase, Xdr.encElems, hB, hC,
      Xdr.lengthWord_eq]

/-- a Byte scalar (also a Byte column of a sequence record): one byte, three zeros -/
theorem byte_scalar_wire (v : Val) :
    Xdr.encImpl (.base .byte []) (.scalar (xVal .byte v)) = Xdr.toWire .byte (xVal .byte v) ++ [0, 0, 0] := by
  have hB : Xdr.wireStr .byte = "B" := by decide
  simp [Xdr.encImpl, Xdr.encBase, Xdr.encElems, hB, Xdr.pad4, Xdr.zeros]

theorem base_payload_length (b : Base) (h : b.WF) (m : Nat)
    (hc : Xdr.calcData (tmplOfBase b) = some m) : (payloadBase b).length = m := by
  simp only [tmplOfBase, Xdr.calcData] at hc
  split at hc
  · simp at hc
  · next hS =>
    have hs : tyOf b.ty ≠ .string := fun e => hS ((Xdr.wireChar_S _).mpr e)
    cases hsh : b.shape with
    | nil =>
      obtain ⟨v, hv⟩ := prod_nil_data h hsh
      obtain ⟨n, hn⟩ := tyOf_ne_string_num (tyOf b.ty) hs v
      simp only [hsh, Xdr.prod, List.isEmpty_nil, if_true] at hc
      simp only [payloadBase, tmplOfBase, dataOfBase, xValR_fun, xValR_eq, hsh, hv, Xdr.encImpl, Xdr.encBase, Xdr.encElems, hn]
      split at hc
      · next hB =>
        simp only [hB, if_true, List.map_cons, List.map_nil, List.flatten_cons, List.flatten_nil,
          List.length_append, Xdr.toWire_length, Xdr.zeros_length, List.length_cons, List.length_nil]
        have hb : tyOf b.ty = .byte := (Xdr.wireStr_B _).mp hB
        have w1 : Xdr.wireWidth (tyOf b.ty) = 1 := by rw [hb]; decide
        have p1 : Xdr.pad4 1 = 3 := by decide
        simp [p1] at hc
        rw [w1, p1]
        omega
      · next hB =>
        simp only [hB, hS, if_false, List.map_cons, List.map_nil, List.flatten_cons, List.flatten_nil,
          List.length_append, Xdr.toWire_length, List.length_nil]
        simp at hc
        omega
    | cons k ks =>
      have hlen : b.data.length = Xdr.prod (k :: ks) := by
        have := h.1; rw [hsh] at this
        have e : ∀ l : List Nat, prod l = Xdr.prod l := by
          intro l; induction l with
          | nil => rfl
          | cons a l ih => simp [prod, Xdr.prod, ih]
        rw [this, e]
      have hfl := flatten_toWire_xVal (tyOf b.ty) hs b.data
      simp only [hsh, List.isEmpty_cons] at hc
      simp only [payloadBase, tmplOfBase, dataOfBase, xValR_fun, xValR_eq, hsh, Xdr.encImpl, Xdr.encBase, Xdr.encElems, hS, if_false]
      have h8 : ∀ k : Nat, (List.replicate 2 (Xdr.lengthWord k)).flatten.length = 8 := by
        intro k; simp [Xdr.lengthWord_eq]
      split at hc
      · next hB =>
        have hb : tyOf b.ty = .byte := (Xdr.wireStr_B _).mp hB
        have w1 : Xdr.wireWidth (tyOf b.ty) = 1 := by rw [hb]; decide
        simp only [hB, if_true, List.length_append, h8, hfl, Xdr.zeros_length, List.length_map, w1]
        simp [← hlen] at hc
        omega
      · next hB =>
        simp only [hB, if_false, List.length_append, h8, hfl]
        simp [← hlen] at hc
        omega

/-! ### `calculate_size` announces the length of the payload -/

theorem calcDatas_map_length {α : Type} (f : α → Xdr.Tmpl) (g : α → Xdr.Data) :
    ∀ (l : List α), (∀ x ∈ l, ∀ m, Xdr.calcData (f x) = some m → (Xdr.encImpl (f x) (g x)).length = m) →
    ∀ n, Xdr.calcDatas (l.map f) = some n → (Xdr.encImpls (l.map f) (l.map g)).length = n
  | [], _, n, hc => by simp [Xdr.calcDatas] at hc; simp [Xdr.encImpls, hc]
  | x :: xs, hx, n, hc => by
    simp only [List.map_cons, Xdr.calcDatas] at hc
    split at hc
    · next a c ha hb =>
      simp at hc
      have h1 := hx x (List.mem_cons_self ..) a ha
      have h2 := calcDatas_map_length f g xs (fun y hy => hx y (List.mem_cons_of_mem _ hy)) c hb
      simp only [List.map_cons, Xdr.encImpls, List.length_append, h1, h2, hc]
    · simp at hc

theorem member_payload_length (mem : Member) (h : mem.WF) (m : Nat)
    (hc : Xdr.calcData (tmplOfMember mem) = some m) :
    (Xdr.encImpl (tmplOfMember mem) (dataOfMember mem)).length = m := by
  cases mem with
  | base b => exact base_payload_length b h m hc
  | struct k bs =>
    simp only [tmplOfMember, Xdr.calcData] at hc
    simp only [tmplOfMember, dataOfMember, Xdr.encImpl]
    exact calcDatas_map_length tmplOfBase dataOfBase bs (fun b hb m' hm => base_payload_length b (h b hb) m' hm) m hc

theorem var_payload_length (v : Var) (h : v.WF) (m : Nat) (hc : Xdr.calcData (tmplOfVar v) = some m) :
    (payloadVar v).length = m := by
  cases v with
  | base b => exact base_payload_length b h m hc
  | struct n ms =>
    simp only [tmplOfVar, Xdr.calcData] at hc
    simp only [payloadVar, tmplOfVar, dataOfVar, Xdr.encImpl]
    exact calcDatas_map_length tmplOfMember dataOfMember ms
      (fun x hx m' hm => member_payload_length x (h x hx) m' hm) m hc
  | grid n a ms =>
    simp only [tmplOfVar, Xdr.calcData] at hc
    simp only [payloadVar, tmplOfVar, dataOfVar, Xdr.encImpl]
    have := calcDatas_map_length tmplOfBase dataOfBase (a :: ms)
      (fun b hb m' hm => base_payload_length b (by
        rcases List.mem_cons.mp hb with rfl | hb
        · exact h.1
        · exact h.2 b hb) m' hm) m (by simpa using hc)
    simpa using this
  | seq n cols rows => simp [tmplOfVar, Xdr.calcData] at hc

/-- **`calculate_size` is the length of the payload** for every well-formed dataset for which it
    announces one -/
theorem payload_length (ds : Dataset) (h : ds.WF) (m : Nat) (hc : Xdr.calcData (tmplOf ds) = some m) :
    (payload ds).length = m := by
  simp only [tmplOf, Xdr.calcData] at hc
  simp only [payload, tmplOf, dataOf, Xdr.encImpl]
  exact calcDatas_map_length tmplOfVar dataOfVar ds.vars
    (fun v hv m' hm => var_payload_length v (h v hv) m' hm) m hc

/-- the Content-length header, when there is one, is the length of the whole body -/
theorem contentLength_body (ds : Dataset) (h : ds.WF) (n : Nat) (hc : contentLength ds = some n) :
    (ddsText ds ++ cs!"Data:\n" ++ bytesStr (payload ds)).length = n := by
  unfold contentLength Xdr.calcSize at hc
  cases hd : Xdr.calcData (tmplOf ds) with
  | none => simp [hd] at hc
  | some m =>
    simp [hd] at hc
    have := payload_length ds h m hd
    simp [bytesStr_length, strBytes_length, this, Xdr.dataMarker] at hc ⊢
    omega

/-- `calculate_size` declines exactly when the declaration holds a sequence or a String -/
theorem contentLength_none_seq (ds : Dataset) (n : Str) (cols : List (Str × Str)) (rows : List (List Val))
    (hv : Var.seq n cols rows ∈ ds.vars) : contentLength ds = none := by
  have aux : ∀ vs : List Var, Var.seq n cols rows ∈ vs → Xdr.calcDatas (vs.map tmplOfVar) = none := by
    intro vs
    induction vs with
    | nil => intro hv; cases hv
    | cons v vs ih =>
      intro hv
      rcases List.mem_cons.mp hv with rfl | hv'
      · simp [Xdr.calcDatas, tmplOfVar, Xdr.calcData]
      · simp only [List.map_cons, Xdr.calcDatas, ih hv']
        split <;> simp_all
  have : Xdr.calcData (tmplOf ds) = none := by
    simp only [tmplOf, Xdr.calcData]
    exact aux ds.vars hv
  simp [contentLength, Xdr.calcSize, this]

end Pydap.Handler
