/-
  The source text of the XDR size and padding arithmetic (responses/dods.py `calculate_size`, the `-n % 4` padding
  counts of `_sequencetype` / `_basetype`, and of handlers/dap.py `convert_stream_to_list`), translated on every run by
  harness/py2lean.py into MiniPy syntax (PydapModel/Generated/DodsSrc.lean), computes the model functions of
  PydapModel/Xdr.lean (`calcData`, `calcSize`, `pad4`).
-/
import Proofs.MiniPy
import PydapModel.Xdr
import PydapModel.Generated.DodsSrc
set_option linter.unusedSimpArgs false
namespace Pydap
open MiniPy

/-- a shape tuple as a MiniPy value -/
def shapeVal (shape : List Nat) : Val := .ilist (shape.map Int.ofNat)

theorem prodInts_shape (shape : List Nat) : prodInts (shape.map Int.ofNat) = ((Xdr.prod shape : Nat) : Int) := by
  induction shape with
  | nil => rfl
  | cons n ns ih => simp only [List.map_cons, prodInts, Xdr.prod, ih, Int.natCast_mul]; rfl

theorem isEmpty_map_shape (shape : List Nat) : (shape.map Int.ofNat).isEmpty = shape.isEmpty := by
  cases shape <;> rfl

/-- Python's `-n % 4` is `pad4 n` -/
theorem neg_mod4 (n : Nat) : (-(n : Int)) % 4 = ((Xdr.pad4 n : Nat) : Int) := by
  unfold Xdr.pad4; omega

/-- the environment of one turn of `calculate_size`'s loop on a BaseType of wire type `ty` -/
def calcEnv (L : Nat) (ty : Xdr.Ty) (shape : List Nat) : Env :=
  [("length", .int L), ("var.shape", shapeVal shape), ("@is_ubyte", .bool (decide (Xdr.wireStr ty = "B"))),
   ("@itemsize", .int (Xdr.wireWidth ty))]

theorem src_calculate_size_base_eq (L : Nat) (ty : Xdr.Ty) (shape : List Nat) (hS : Xdr.wireChar ty ≠ 'S') :
    ∃ n, Xdr.calcData (.base ty shape) = some n ∧
      runItem (calcEnv L ty shape) Gen.src_calculate_size_base "length" = .ok (.int ((L + n : Nat) : Int)) := by
  unfold Gen.src_calculate_size_base calcEnv shapeVal
  simp only [Xdr.calcData, hS, if_false]
  have h4 : (0 : Int) < 4 := by decide
  by_cases hB : Xdr.wireStr ty = "B" <;> by_cases hE : shape.isEmpty = true
  all_goals
    simp only [hB, hE, if_true, if_false]
    refine ⟨_, rfl, ?_⟩
    simp (decide := true) only [runItem, exec, eval, bind_ok', lookup_cons_eq, lookup_cons_ne, lookup_setVar_eq,
      lookup_setVar_ne, truthy_ilist, truthy_bool, isEmpty_map_shape, hE, asInt_int, prodInts_shape, pyMod_pos _ _ h4,
      neg_mod4, Bool.not_true, Bool.not_false, Bool.false_eq_true, if_true, if_false]
    congr 2
    push_cast
    have hc := Int.mul_comm (Xdr.wireWidth ty : Int) (Xdr.prod shape : Int)
    omega
theorem src_calculate_size_tail_eq (dds : Xdr.Bytes) (t : Xdr.Tmpl) (n : Nat) (hn : Xdr.calcData t = some n) :
    ∃ m, Xdr.calcSize dds t = some m ∧
      runItem [("length", .int n), ("@dds_len", .int dds.length)] Gen.src_calculate_size_tail "@ret"
        = .ok (.int (m : Nat)) := by
  unfold Gen.src_calculate_size_tail
  refine ⟨n + dds.length + Xdr.dataMarker.length, by simp [Xdr.calcSize, hn], ?_⟩
  simp (decide := true) only [runItem, exec, eval, bind_ok', lookup_cons_eq, lookup_cons_ne, lookup_setVar_eq,
    lookup_setVar_ne, asInt_int, Xdr.dataMarker, List.length_cons, List.length_nil]
  congr 2 <;> (push_cast; omega)

theorem src_dods_paddings_eq (n : Nat) :
    runItem [("length", .int n)] Gen.src_dods_paddings "@seqpad0" = .ok (.int (Xdr.pad4 n : Nat)) ∧
    runItem [("length", .int n)] Gen.src_dods_paddings "@pad0" = .ok (.int (Xdr.pad4 n : Nat)) ∧
    runItem [("length", .int n)] Gen.src_dods_paddings "@pad1" = .ok (.int (Xdr.pad4 n : Nat)) := by
  unfold Gen.src_dods_paddings
  have h4 : (0 : Int) < 4 := by decide
  refine ⟨?_, ?_, ?_⟩ <;>
  simp (decide := true) only [runItem, exec, eval, bind_ok', lookup_cons_eq, lookup_cons_ne, lookup_setVar_eq,
    lookup_setVar_ne, asInt_int, pyMod_pos _ _ h4, neg_mod4]

theorem src_convert_stream_paddings_eq (n : Nat) :
    runItem [("k", .int n), ("n", .int n)] Gen.src_convert_stream_paddings "@pad0" = .ok (.int (Xdr.pad4 n : Nat)) ∧
    runItem [("k", .int n), ("n", .int n)] Gen.src_convert_stream_paddings "@pad1" = .ok (.int (Xdr.pad4 n : Nat)) ∧
    runItem [("k", .int n), ("n", .int n)] Gen.src_convert_stream_paddings "@pad2" = .ok (.int (Xdr.pad4 n : Nat)) := by
  unfold Gen.src_convert_stream_paddings
  have h4 : (0 : Int) < 4 := by decide
  refine ⟨?_, ?_, ?_⟩ <;>
  simp (decide := true) only [runItem, exec, eval, bind_ok', lookup_cons_eq, lookup_cons_ne, lookup_setVar_eq,
    lookup_setVar_ne, asInt_int, pyMod_pos _ _ h4, neg_mod4]

end Pydap
