/-
  The source text of wsgi/app.py `DapServer.__call__` (everything after `path = …`: the containment test and the
  routing order), translated on every run by harness/py2lean.py into MiniPy syntax
  (PydapModel/Generated/AppSrc.lean), takes the decision of the model `Path.serveAt` (C16).
  Each `return e` of the source is the assignment `@ret = "<source text of e>"`; the file-system tests are inputs.
-/
import Proofs.MiniPy
import PydapModel.Path
import PydapModel.Generated.AppSrc
set_option linter.unusedSimpArgs false
namespace Pydap
open MiniPy

theorem joinEmpty_codesOf (t : List Char) (ht : t ≠ []) : joinEmpty (codesOf t) = codesOf (Path.withSep t) := by
  unfold joinEmpty Path.withSep codesOf
  have h1 : (t.map Char.toNat).isEmpty = false := by cases t <;> simp_all
  have h2 : ((t.map Char.toNat).getLast? = some 47) ↔ (t.getLast? = some '/') := by
    rw [List.getLast?_map]
    cases t.getLast? with
    | none => simp
    | some c =>
      simp only [Option.map_some, Option.some.injEq]
      constructor
      · intro h; exact Char.toNat_inj' (by rw [h]; rfl)
      · intro h; rw [h]; rfl
  have hc : ((t.map Char.toNat).isEmpty || decide ((t.map Char.toNat).getLast? = some 47))
      = decide (t.getLast? = some '/') := by
    rw [h1, Bool.false_or]; exact decide_eq_decide.mpr h2
  rw [hc]
  by_cases h : t.getLast? = some '/' <;> simp [h]


theorem text_ne_nil (p : Path.Segs) : Path.text p ≠ [] := by
  cases p with
  | nil => simp [Path.text]
  | cons s r => simp [Path.text, Path.body]

/-- what `DapServer.__call__` returns, as the source text of the returned expression -/
def routeTag : Path.Outcome → List Nat
  | .forbidden => [72, 84, 84, 80, 70, 111, 114, 98, 105, 100, 100, 101, 110, 40, 41]
  | .notFound => [72, 84, 84, 80, 78, 111, 116, 70, 111, 117, 110, 100, 40, 99, 111, 109, 109, 101, 110, 116, 61, 112, 97, 116, 104, 41]
  | .listing false _ _ _ => [115, 101, 108, 102, 46, 105, 110, 100, 101, 120, 40, 112, 97, 116, 104, 44, 32, 114, 101, 113, 41]
  | .listing true _ _ _ => [115, 101, 108, 102, 46, 105, 110, 100, 101, 120, 40, 111, 115, 46, 112, 97, 116, 104, 46, 100, 105, 114, 110, 97, 109, 101, 40, 112, 97, 116, 104, 41, 44, 32, 114, 101, 113, 44, 32, 99, 97, 116, 97, 108, 111, 103, 61, 84, 114, 117, 101, 41]
  | .file _ => [70, 105, 108, 101, 65, 112, 112, 40, 112, 97, 116, 104, 41]
  | .dap _ => [114, 101, 113, 46, 103, 101, 116, 95, 114, 101, 115, 112, 111, 110, 115, 101, 40, 97, 112, 112, 41]
  | .unsupported _ => [114, 101, 113, 46, 103, 101, 116, 95, 114, 101, 115, 112, 111, 110, 115, 101, 40, 97, 112, 112, 41]

/-- the inputs of the routing block for a request resolved to `p` on the file system `fs` -/
def routeEnv (fs : Path.FS) (root p : Path.Segs) : Env :=
  [("path", .str (codesOf (Path.text p))), ("self.path", .str (codesOf (Path.text root))),
   ("@exists", .bool (fs p).exists), ("@isdir", .bool (fs p).isDir),
   ("@basename", .str (codesOf (Path.basename p))), ("@isdir_parent", .bool (fs (Path.dirname p)).isDir),
   ("@isfile_base", .bool (fs (Path.stripExt p)).isFile)]

theorem catalog_codes : codesOf Path.catalogName = [99, 97, 116, 97, 108, 111, 103, 46, 120, 109, 108] := by decide

theorem src_dapserver_call_eq (exts : List Path.Seg) (fs : Path.FS) (root p : Path.Segs) :
    runItem (routeEnv fs root p) Gen.src_dapserver_call "@ret"
      = .ok (.str (routeTag (Path.serveAt exts fs root p).2)) := by
  unfold Gen.src_dapserver_call routeEnv
  have hcont : (decide (¬ codesOf (Path.text p) = codesOf (Path.text root)) &&
      !(codesOf (Path.withSep (Path.text root))).isPrefixOf (codesOf (Path.text p))) = !Path.contained root p := by
    rw [isPrefixOf_codesOf]
    unfold Path.contained
    by_cases h : Path.text p = Path.text root
    · simp [h]
    · have : codesOf (Path.text p) ≠ codesOf (Path.text root) := fun e => h (codesOf_inj.mp e)
      simp [h, this]
  have hcat : decide (codesOf (Path.basename p) = [99, 97, 116, 97, 108, 111, 103, 46, 120, 109, 108])
      = decide (Path.basename p = Path.catalogName) := by
    rw [← catalog_codes]; exact decide_eq_decide.mpr codesOf_inj
  simp (decide := true) only [runItem, exec, eval, bind_ok', lookup_cons_eq, lookup_cons_ne, lookup_setVar_eq,
    lookup_setVar_ne, joinEmpty_codesOf _ (text_ne_nil root), ite_truthy_bool_and, hcont, hcat, ne_eq]
  simp only [truthy_bool, hcont]
  unfold Path.serveAt
  cases hc : Path.contained root p
  · simp (decide := true) only [Bool.not_false, if_true, bind_ok', lookup_setVar_eq, routeTag]
  · simp only [Bool.not_true, Bool.false_eq_true, if_false]
    cases hfs : fs p with
    | dir es => simp (decide := true) only [Path.Node.exists, Path.Node.isDir, if_true, bind_ok',
        lookup_setVar_eq, routeTag, Path.index]
    | file => simp (decide := true) only [Path.Node.exists, Path.Node.isDir, if_true, if_false,
        bind_ok', lookup_setVar_eq, routeTag, Bool.false_eq_true]
    | missing =>
      simp (decide := true) only [Path.Node.exists, if_false, Bool.false_eq_true]
      by_cases hb : Path.basename p = Path.catalogName
      · cases hd : fs (Path.dirname p) with
        | dir es => simp (decide := true) only [hb, Path.Node.isDir, Bool.and_self, decide_true, if_true, bind_ok',
            lookup_setVar_eq, routeTag, Path.index]
        | file => 
          simp (decide := true) only [hb, Path.Node.isDir, Bool.and_false, decide_true, if_true, if_false, bind_ok',
            Bool.false_eq_true, Path.serveDap]
          cases hf : (fs (Path.stripExt p)).isFile <;> cases hh : Path.hasHandler exts (Path.stripExt p) <;>
            simp (decide := true) only [if_true, if_false, Bool.false_eq_true, bind_ok', lookup_setVar_eq, routeTag]
        | missing =>
          simp (decide := true) only [hb, Path.Node.isDir, Bool.and_false, decide_true, if_true, if_false, bind_ok',
            Bool.false_eq_true, Path.serveDap]
          cases hf : (fs (Path.stripExt p)).isFile <;> cases hh : Path.hasHandler exts (Path.stripExt p) <;>
            simp (decide := true) only [if_true, if_false, Bool.false_eq_true, bind_ok', lookup_setVar_eq, routeTag]
      · simp (decide := true) only [hb, decide_false, Bool.false_and, if_false, Bool.false_eq_true, Path.serveDap]
        cases hf : (fs (Path.stripExt p)).isFile <;> cases hh : Path.hasHandler exts (Path.stripExt p) <;>
          simp (decide := true) only [if_true, if_false, Bool.false_eq_true, bind_ok', lookup_setVar_eq, routeTag]
end Pydap
