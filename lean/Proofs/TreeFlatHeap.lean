/-
  C12 — round 7 (theorem audit): a small explicit refinement.  A flat heap address ↦ record with in-place mutation of one
  record; the tree seen from a handle (`reify`); frame for any single-record mutation; `attributes[k] = v` through one
  handle refines the model's `setAttr` and is invisible through a handle whose tree shares no address (`oids.Nodup`).
-/
import Proofs.TreeOrder
namespace Pydap.Tree
open Pydap.Quote

/-! ### a flat heap of mutable records, and why `oids.Nodup` makes the tree store faithful for one mutation -/

/-- a Python object in a flat heap: its fields and the addresses of the objects in its `_dict`, in order -/
structure Rec where
  hdr : Hdr
  kids : List Nat

/-- address ↦ record (`none`: nothing allocated there) -/
abbrev FlatHeap := Nat → Option Rec

def ofList : List Obj → Forest
  | [] => .nil
  | o :: t => .cons o.hdr o.kids (ofList t)

def mapO (g : Nat → Option Obj) : List Nat → Option (List Obj)
  | [] => some []
  | a :: t => match g a, mapO g t with
    | some o, some os => some (o :: os)
    | _, _ => none

/-- the tree the client sees from address `a` (the model's `Obj`, with `oid` = address), following `_dict` pointers -/
def reify (hp : FlatHeap) : Nat → Nat → Option Obj
  | 0, _ => none
  | fuel + 1, a => match hp a with
    | none => none
    | some r => (mapO (reify hp fuel) r.kids).map (fun os => ⟨{ r.hdr with oid := a }, ofList os⟩)

/-- mutate the one record at `addr` in place (any change of its fields or of its `_dict` pointers: `attributes[k] = v`,
    `del self._dict[key]`, `_visible_keys.append`, `self._dict[key] = item` …) -/
def mutate (hp : FlatHeap) (addr : Nat) (f : Rec → Rec) : FlatHeap :=
  fun x => if x = addr then (hp x).map f else hp x

theorem ofList_oids (os : List Obj) : (ofList os).oids = os.flatMap Obj.oids := by
  induction os with
  | nil => rfl
  | cons o t ih => simp [ofList, Forest.oids, Obj.oids, ih]

theorem mapO_congr (g g' : Nat → Option Obj) (l : List Nat) (os : List Obj) (h : mapO g l = some os)
    (hg : ∀ x o, g x = some o → o ∈ os → g' x = some o) : mapO g' l = some os := by
  induction l generalizing os with
  | nil => simp only [mapO] at h ⊢; exact h
  | cons a t ih =>
    simp only [mapO] at h ⊢
    cases ha : g a with
    | none => rw [ha] at h; cases h
    | some o =>
      cases ht : mapO g t with
      | none => rw [ha, ht] at h; cases h
      | some os' =>
        rw [ha, ht] at h; cases h
        rw [hg a o ha (by simp), ih os' ht (fun x o' hx ho' => hg x o' hx (by simp [ho']))]

/-- **frame on the flat heap**: mutating the record at `addr` does not change the tree seen from any address whose tree
    does not contain `addr` -/
theorem reify_frame (hp : FlatHeap) (addr : Nat) (f : Rec → Rec) : ∀ (fuel a : Nat) (t : Obj),
    reify hp fuel a = some t → addr ∉ t.oids → reify (mutate hp addr f) fuel a = some t := by
  intro fuel
  induction fuel with
  | zero => intro a t h; cases h
  | succ fuel ih =>
    intro a t h hn
    simp only [reify] at h ⊢
    cases hr : hp a with
    | none => rw [hr] at h; cases h
    | some r =>
      rw [hr] at h
      simp only at h
      cases hm : mapO (reify hp fuel) r.kids with
      | none => rw [hm] at h; cases h
      | some os =>
        rw [hm] at h
        simp only [Option.map_some, Option.some.injEq] at h
        subst h
        simp only [Obj.oids, List.mem_cons, not_or, ofList_oids, List.mem_flatMap, not_exists, not_and] at hn
        have hne : a ≠ addr := fun e => hn.1 e.symm
        have : mutate hp addr f a = some r := by simp [mutate, hne, hr]
        rw [this]
        simp only
        rw [mapO_congr _ _ _ _ hm (fun x o hx ho => ih x o hx (by
          have := hn.2 o ho
          simpa [Obj.oids, not_or] using this))]
        rfl

/-- `obj.attributes[k] = v` on the record itself -/
def recSetAttr (k : Str) (v : AVal) (r : Rec) : Rec := ⟨(setAttr ⟨r.hdr, .nil⟩ k v).hdr, r.kids⟩

/-- **refinement of one mutation**: on a flat heap in which the trees seen from two handles `r1`, `r2` share no address
    (`oids.Nodup`, the invariant proved for every history), executing `handle1.attributes[k] = v` *in place* gives, seen
    from `r1`, exactly the tree the model's `setAttr` computes, and leaves the tree seen from `r2` — children, ids,
    attributes, data — untouched; and any in-place mutation of any single record reachable from `r1` leaves `r2`'s tree
    untouched -/
theorem heap_setAttr_refines (hp : FlatHeap) (fuel r1 r2 : Nat) (t1 t2 : Obj) (k : Str) (v : AVal)
    (h1 : reify hp fuel r1 = some t1) (h2 : reify hp fuel r2 = some t2) (hnd : (t1.oids ++ t2.oids).Nodup) :
    reify (mutate hp r1 (recSetAttr k v)) fuel r1 = some (setAttr t1 k v)
    ∧ reify (mutate hp r1 (recSetAttr k v)) fuel r2 = some t2
    ∧ ∀ addr ∈ t1.oids, ∀ f, reify (mutate hp addr f) fuel r2 = some t2 := by
  have hdis : ∀ x ∈ t1.oids, x ∉ t2.oids := fun x hx hy => (List.nodup_append.1 hnd).2.2 x hx x hy rfl
  have hr1 : r1 ∈ t1.oids := by
    cases fuel with
    | zero => cases h1
    | succ fuel =>
      simp only [reify] at h1
      cases hr : hp r1 with
      | none => rw [hr] at h1; cases h1
      | some r =>
        rw [hr] at h1; simp only at h1
        cases hm : mapO (reify hp fuel) r.kids with
        | none => rw [hm] at h1; cases h1
        | some os =>
          rw [hm] at h1
          simp only [Option.map_some, Option.some.injEq] at h1
          subst h1; simp [Obj.oids]
  refine ⟨?_, reify_frame hp r1 _ fuel r2 t2 h2 (hdis r1 hr1), fun addr ha f => reify_frame hp addr f fuel r2 t2 h2 (hdis addr ha)⟩
  cases fuel with
  | zero => cases h1
  | succ fuel =>
    simp only [reify] at h1 ⊢
    cases hr : hp r1 with
    | none => rw [hr] at h1; cases h1
    | some r =>
      rw [hr] at h1; simp only at h1
      cases hm : mapO (reify hp fuel) r.kids with
      | none => rw [hm] at h1; cases h1
      | some os =>
        rw [hm] at h1
        simp only [Option.map_some, Option.some.injEq] at h1
        subst h1
        have hn1 := (List.nodup_append.1 hnd).1
        simp only [Obj.oids, List.nodup_cons, ofList_oids, List.mem_flatMap, not_exists, not_and] at hn1
        have : mutate hp r1 (recSetAttr k v) r1 = some (recSetAttr k v r) := by simp [mutate, hr]
        rw [this]
        simp only [recSetAttr]
        rw [mapO_congr _ _ _ _ hm (fun x o hx ho => reify_frame hp r1 _ fuel x o hx (hn1.1 o ho))]
        rfl


end Pydap.Tree
