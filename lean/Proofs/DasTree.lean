import Proofs.DasAttach
/-! `DASParser.container` over a whole rendered tree of DAS nodes (C08): the recursion over nested `{ }`. -/
namespace Pydap.Das

/-- a name or type word of the domain: non-empty, no white space, no brace -/
def NameOk (w : Text) : Prop := w ≠ [] ∧ ∀ c ∈ w, isSpace c = false ∧ c ≠ '{' ∧ c ≠ '}'

theorem NameOk.word {w : Text} (h : NameOk w) : Word w := ⟨h.1, fun c hc => (h.2 c hc).1⟩

mutual
def ItemOk : Item → Prop
  | .attr ty k xs => NameOk ty ∧ NameOk k ∧ ∀ x ∈ xs, ScalarOk ty x
  | .cont n sub => NameOk n ∧ ItemsOk sub
def ItemsOk : List Item → Prop
  | [] => True
  | it :: more => ItemOk it ∧ ItemsOk more
end

mutual
def needItem : Item → Nat
  | .attr _ _ _ => 0
  | .cont _ sub => needItems sub + 1
def needItems : List Item → Nat
  | [] => 0
  | it :: more => needItem it + needItems more + 1
end

theorem lstrip_nl (t : Text) : lstrip ('\n' :: t) = lstrip t := by simp [lstrip, isSpace]

theorem lstrip_name (w t : Text) (h : NameOk w) : lstrip (w ++ t) = w ++ t := by
  obtain ⟨hne, hc⟩ := h
  cases w with
  | nil => exact absurd rfl hne
  | cons c cs => simp [lstrip, (hc c (by simp)).1]

theorem peek_name (w t : Text) (h : NameOk w) : peekChar '}' (w ++ t) = false ∧ peekChar '{' (w ++ t) = false := by
  obtain ⟨hne, hc⟩ := h
  cases w with
  | nil => exact absurd rfl hne
  | cons c cs =>
    have := hc c (by simp)
    simp [peekChar, this.2.1, this.2.2]

theorem render_attr_text (lvl : Nat) (ty k : Text) (xs : List Scalar) (R : Text) (hty : NameOk ty) :
    lstrip (renderItem lvl (.attr ty k xs) ++ R)
      = ty ++ ' ' :: (k ++ ' ' :: (joinVals (xs.map encode) ++ ';' :: '\n' :: R)) := by
  have e : renderItem lvl (.attr ty k xs) ++ R
      = indent lvl ++ (ty ++ ' ' :: (k ++ ' ' :: (joinVals (xs.map encode) ++ ';' :: '\n' :: R))) := by
    simp [renderItem, List.append_assoc]
  rw [e, lstrip_indent, lstrip_name _ _ hty]

theorem render_cont_text (lvl : Nat) (n : Text) (sub : List Item) (R : Text) (hn : NameOk n) :
    lstrip (renderItem lvl (.cont n sub) ++ R)
      = n ++ ' ' :: '{' :: '\n' :: (renderItems (lvl + 1) sub ++ (indent lvl ++ '}' :: '\n' :: R)) := by
  have e : renderItem lvl (.cont n sub) ++ R
      = indent lvl ++ (n ++ ' ' :: '{' :: '\n' :: (renderItems (lvl + 1) sub ++ (indent lvl ++ '}' :: '\n' :: R))) := by
    simp [renderItem, List.append_assoc]
  rw [e, lstrip_indent, lstrip_name _ _ hn]

/-- `peek(r"[^\s]+\s+{")` says "attribute" on an attribute line -/
theorem peekContainer_attr (ty k more : Text) (hty : NameOk ty) (hk : NameOk k) :
    peekContainer (ty ++ ' ' :: (k ++ more)) = false := by
  have ⟨h1, h2⟩ := takeNS_word ty (k ++ more) (fun c hc => (hty.2 c hc).1)
  unfold peekContainer
  rw [h1, h2]
  obtain ⟨hne, _⟩ := hty
  cases ty with
  | nil => exact absurd rfl hne
  | cons c cs => simp only [lstrip_name k more hk, (peek_name k more hk).2]

/-- … and "container" on a `name {` line -/
theorem peekContainer_cont (n more : Text) (hn : NameOk n) :
    peekContainer (n ++ ' ' :: '{' :: more) = true := by
  have ⟨h1, h2⟩ := takeNS_word n ('{' :: more) (fun c hc => (hn.2 c hc).1)
  unfold peekContainer
  rw [h1, h2]
  obtain ⟨hne, _⟩ := hn
  cases n with
  | nil => exact absurd rfl hne
  | cons c cs => simp [lstrip, isSpace, peekChar]

theorem items_close (f l : Nat) (rest : Text) (acc : Dict) :
    items (f + 1) (lstrip (indent l ++ '}' :: rest)) acc = .ok (acc, lstrip rest) := by
  have e : lstrip (indent l ++ '}' :: rest) = '}' :: rest := by
    rw [lstrip_indent]; simp [lstrip, isSpace]
  rw [e]
  simp [items, peekChar]

theorem items_attr_step (f lvl : Nat) (ty k : Text) (xs : List Scalar) (R : Text) (acc : Dict)
    (hty : NameOk ty) (hk : NameOk k) (hx : ∀ x ∈ xs, ScalarOk ty x) :
    items (f + 1) (lstrip (renderItem lvl (.attr ty k xs) ++ R)) acc
      = items f (lstrip R) (dset acc k (unwrap xs)) := by
  have hp := parse_rendered_attr lvl ty k xs R hty.word hk.word hx
  rw [render_attr_text lvl ty k xs R hty] at hp ⊢
  have h1 := (peek_name ty (' ' :: (k ++ ' ' :: (joinVals (xs.map encode) ++ ';' :: '\n' :: R))) hty).1
  have h2 := peekContainer_attr ty k (' ' :: (joinVals (xs.map encode) ++ ';' :: '\n' :: R)) hty hk
  rw [items]
  simp only [h1, h2, hp]
  simp

theorem items_cont_step (f lvl : Nat) (n : Text) (sub : List Item) (R : Text) (acc D : Dict) (hn : NameOk n)
    (hsub : items f (lstrip (renderItems (lvl + 1) sub ++ (indent lvl ++ '}' :: '\n' :: R))) []
      = .ok (D, lstrip ('\n' :: R))) :
    items (f + 1) (lstrip (renderItem lvl (.cont n sub) ++ R)) acc
      = items f (lstrip R) (dset acc n (.dict D)) := by
  rw [render_cont_text lvl n sub R hn]
  have h1 := (peek_name n (' ' :: '{' :: '\n' :: (renderItems (lvl + 1) sub ++ (indent lvl ++ '}' :: '\n' :: R))) hn).1
  have h2 := peekContainer_cont n ('\n' :: (renderItems (lvl + 1) sub ++ (indent lvl ++ '}' :: '\n' :: R))) hn
  have h3 := consumeWord_word n ('{' :: '\n' :: (renderItems (lvl + 1) sub ++ (indent lvl ++ '}' :: '\n' :: R))) hn.word
  have h4 : lstrip ('{' :: '\n' :: (renderItems (lvl + 1) sub ++ (indent lvl ++ '}' :: '\n' :: R)))
      = '{' :: '\n' :: (renderItems (lvl + 1) sub ++ (indent lvl ++ '}' :: '\n' :: R)) := by
    simp [lstrip, isSpace]
  rw [h4] at h3
  have h5 : consumeChar '{' ('{' :: '\n' :: (renderItems (lvl + 1) sub ++ (indent lvl ++ '}' :: '\n' :: R)))
      = .ok (lstrip (renderItems (lvl + 1) sub ++ (indent lvl ++ '}' :: '\n' :: R))) := by
    simp [consumeChar, lstrip_nl]
  rw [items]
  simp only [h1, h2, h3, h5, hsub, lstrip_nl]
  simp

mutual
theorem items_item : (it : Item) → (lvl : Nat) → (R : Text) → (acc : Dict) → (f : Nat) →
    ItemOk it → needItem it ≤ f →
    items (f + 1) (lstrip (renderItem lvl it ++ R)) acc
      = items f (lstrip R) (dset acc (denoteItem it).1 (denoteItem it).2)
  | .attr ty k xs, lvl, R, acc, f, hok, _ => by
    simp only [ItemOk] at hok
    simpa [denoteItem] using items_attr_step f lvl ty k xs R acc hok.1 hok.2.1 hok.2.2
  | .cont n sub, lvl, R, acc, f, hok, hf => by
    simp only [ItemOk] at hok
    simp only [needItem] at hf
    have ih := items_list sub (lvl + 1) lvl ('\n' :: R) [] f hok.2 (by omega)
    simpa [denoteItem] using items_cont_step f lvl n sub R acc _ hok.1 ih
theorem items_list : (its : List Item) → (lvl l : Nat) → (rest : Text) → (acc : Dict) → (f : Nat) →
    ItemsOk its → needItems its + 1 ≤ f →
    items f (lstrip (renderItems lvl its ++ (indent l ++ '}' :: rest))) acc
      = .ok (denoteItems acc its, lstrip rest)
  | [], lvl, l, rest, acc, f, _, hf => by
    obtain ⟨g, rfl⟩ : ∃ g, f = g + 1 := ⟨f - 1, by omega⟩
    simpa [renderItems, denoteItems] using items_close g l rest acc
  | it :: more, lvl, l, rest, acc, f, hok, hf => by
    simp only [ItemsOk] at hok
    simp only [needItems] at hf
    obtain ⟨g, rfl⟩ : ∃ g, f = g + 1 := ⟨f - 1, by omega⟩
    have e : renderItems lvl (it :: more) ++ (indent l ++ '}' :: rest)
        = renderItem lvl it ++ (renderItems lvl more ++ (indent l ++ '}' :: rest)) := by
      simp [renderItems, List.append_assoc]
    rw [e, items_item it lvl _ acc g hok.1 (by omega),
      items_list more lvl l rest _ g hok.2 (by omega)]
    simp [denoteItems]
end

end Pydap.Das
