/-
  Helper lemmas for the handler model (C06, C15).
-/
import PydapModel.Handler
import Proofs.Slice
namespace Pydap.Handler
open Pydap

/-! ### `Except` plumbing -/

theorem mapM_ok_of_forall {α β : Type} (f : α → Except Exc β) :
    ∀ (l : List α), (∀ x ∈ l, ∃ y, f x = .ok y) → ∃ ys, l.mapM f = .ok ys
  | [], _ => ⟨[], rfl⟩
  | x :: xs, h => by
    obtain ⟨y, hy⟩ := h x (by simp)
    obtain ⟨ys, hys⟩ := mapM_ok_of_forall f xs (fun z hz => h z (by simp [hz]))
    exact ⟨y :: ys, by simp [List.mapM_cons, hy, hys, bind, Except.bind, pure, Except.pure]⟩

/-! ### the ASCII printer is total on well-formed variables -/

theorem prod_nil_data {b : Base} (h : b.WF) (hs : b.shape = []) : ∃ v, b.data = [v] := by
  have h1 := h.1
  rw [hs] at h1
  simp [prod] at h1
  match hd : b.data with
  | [v] => exact ⟨v, rfl⟩
  | [] => rw [hd] at h1; simp at h1
  | _ :: _ :: _ => rw [hd] at h1; simp at h1

theorem asciiBase_ok (fmt : Int → Str) (id : Str) (b : Base) (h : b.WF) :
    ∃ t, asciiBase fmt id b = .ok t := by
  unfold asciiBase
  cases hs : b.shape with
  | nil =>
    obtain ⟨v, hv⟩ := prod_nil_data h hs
    simp [hv]
  | cons n sh =>
    simp [h.2]

theorem asciiMembers_ok (fmt : Int → Str) (p : Str) (ms : List Base) (h : ∀ m ∈ ms, m.WF) :
    ∃ t, asciiMembers fmt p ms = .ok t := by
  unfold asciiMembers
  obtain ⟨ys, hys⟩ := mapM_ok_of_forall (fun m => asciiBase fmt (p ++ ['.'] ++ m.name) m) ms
    (fun m hm => asciiBase_ok fmt _ m (h m hm))
  exact ⟨ys.flatMap (· ++ ['\n']), by rw [hys]; rfl⟩

theorem asciiVar_ok (fmt : Int → Str) (v : Var) (h : v.WF) : ∃ t, asciiVar fmt v = .ok t := by
  cases v with
  | base b => exact asciiBase_ok fmt _ b h
  | struct n ms => exact asciiMembers_ok fmt n ms h
  | grid n a ms =>
    exact asciiMembers_ok fmt n (a :: ms) (by
      intro m hm; simp at hm; rcases hm with rfl | hm
      · exact h.1
      · exact h.2 m hm)
  | seq n cols rows => exact ⟨_, rfl⟩

theorem asciiData_ok (fmt : Int → Str) (ds : Dataset) (h : ds.WF) : ∃ t, asciiData fmt ds = .ok t := by
  unfold asciiData
  obtain ⟨ys, hys⟩ := mapM_ok_of_forall (asciiVar fmt) ds.vars (fun v hv => asciiVar_ok fmt v (h v hv))
  exact ⟨ys.flatMap (· ++ ['\n']), by rw [hys]; rfl⟩

end Pydap.Handler
