/-
  Helper lemmas for the handler model (C06, C15).
-/
import PydapModel.Handler
import Proofs.Slice
namespace Pydap.Handler
open Pydap

@[simp] theorem wordBytes_eq (rep : StrRep) (s : Str) : wordBytes rep s = strBytes s := by
  cases rep <;> rfl

@[simp] theorem xValR_eq (rep : StrRep) (t : Xdr.Ty) (v : Val) : xValR rep t v = xVal t v := by
  cases v <;> cases t <;> simp [xValR, xVal]

theorem flatMap_congr_mem {α β : Type} {l : List α} {f g : α → List β} (h : ∀ x ∈ l, f x = g x) :
    l.flatMap f = l.flatMap g := by
  induction l with
  | nil => rfl
  | cons a as ih =>
    simp only [List.flatMap_cons]
    rw [h a (by simp), ih (fun x hx => h x (by simp [hx]))]

theorem xValR_fun (rep : StrRep) (t : Xdr.Ty) : xValR rep t = xVal t := funext (xValR_eq rep t)

/-! ### `Except` plumbing -/

theorem mapM_ok_of_forall {α β : Type} (f : α → Except Exc β) :
    ∀ (l : List α), (∀ x ∈ l, ∃ y, f x = .ok y) → ∃ ys, l.mapM f = .ok ys
  | [], _ => ⟨[], rfl⟩
  | x :: xs, h => by
    obtain ⟨y, hy⟩ := h x (by simp)
    obtain ⟨ys, hys⟩ := mapM_ok_of_forall f xs (fun z hz => h z (by simp [hz]))
    exact ⟨y :: ys, by simp [List.mapM_cons, hy, hys, bind, Except.bind, pure, Except.pure]⟩

/-! ### the ASCII printer is total on well-formed variables -/

theorem prod_nil_data {b : Base} (h : b.WF) (hs : b.shape = []) : ∃ v, b.data = [v] := by
  have h1 := h.1
  rw [hs] at h1
  simp [prod] at h1
  match hd : b.data with
  | [v] => exact ⟨v, rfl⟩
  | [] => rw [hd] at h1; simp at h1
  | _ :: _ :: _ => rw [hd] at h1; simp at h1

theorem asciiBase_ok (fmt : Int → Str) (id : Str) (b : Base) (h : b.WF) :
    ∃ t, asciiBase fmt id b = .ok t := by
  unfold asciiBase
  cases hs : b.shape with
  | nil =>
    obtain ⟨v, hv⟩ := prod_nil_data h hs
    simp [hv]
  | cons n sh =>
    simp [h.2]

theorem asciiMembers_ok (fmt : Int → Str) (p : Str) (ms : List Base) (h : ∀ m ∈ ms, m.WF) :
    ∃ t, asciiMembers fmt p ms = .ok t := by
  unfold asciiMembers
  obtain ⟨ys, hys⟩ := mapM_ok_of_forall (fun m => asciiBase fmt (p ++ ['.'] ++ m.name) m) ms
    (fun m hm => asciiBase_ok fmt _ m (h m hm))
  exact ⟨ys.flatMap (· ++ ['\n']), by rw [hys]; rfl⟩

theorem asciiMember_ok (fmt : Int → Str) (p : Str) (m : Member) (h : m.WF) :
    ∃ t, asciiMember fmt p m = .ok t := by
  cases m with
  | base b => exact asciiBase_ok fmt _ b h
  | struct n bs => exact asciiMembers_ok fmt _ bs h

theorem asciiVar_ok (fmt : Int → Str) (v : Var) (h : v.WF) : ∃ t, asciiVar fmt v = .ok t := by
  cases v with
  | base b => exact asciiBase_ok fmt _ b h
  | struct n ms =>
    obtain ⟨ys, hys⟩ := mapM_ok_of_forall (asciiMember fmt n) ms
      (fun m hm => asciiMember_ok fmt n m (h m hm))
    exact ⟨ys.flatMap (· ++ ['\n']), by simp [asciiVar, hys, bind, Except.bind, pure, Except.pure]⟩
  | grid n a ms =>
    exact asciiMembers_ok fmt n (a :: ms) (by
      intro m hm; simp at hm; rcases hm with rfl | hm
      · exact h.1
      · exact h.2 m hm)
  | seq n cols rows => exact ⟨_, rfl⟩

theorem asciiData_ok (fmt : Int → Str) (ds : Dataset) (h : ds.WF) : ∃ t, asciiData fmt ds = .ok t := by
  unfold asciiData
  obtain ⟨ys, hys⟩ := mapM_ok_of_forall (asciiVar fmt) ds.vars (fun v hv => asciiVar_ok fmt v (h v hv))
  exact ⟨ys.flatMap (· ++ ['\n']), by rw [hys]; rfl⟩

end Pydap.Handler

namespace Pydap.Handler
open Pydap

/-! ### the guarded region in terms of the one constrained dataset -/

theorem guarded_eq (ds : Dataset) (path query pre ext : Str) (hp : rsplitDot path = some (pre, ext)) :
    guarded ds path query =
      match constrained ds (if ext = cs!"das" then [] else query) with
      | .error e => .error e
      | .ok cds =>
        match lookupKind ext with
        | none => .error .keyError
        | some .other => .error .unspecified
        | some k => .ok (k, cds) := by
  unfold guarded constrained
  simp only [hp, bind, Except.bind, pure, Except.pure]
  cases parseCE (if ext = cs!"das" then [] else query) with
  | error e => rfl
  | ok ce =>
    simp only []
    cases constrain ds ce.1 ce.2 with
    | error e => rfl
    | ok cds =>
      simp only []
      cases lookupKind ext with
      | none => rfl
      | some k => cases k <;> rfl

/-! ### `np.ndindex` enumerates `prod shape` index tuples -/

theorem sum_map_const {α : Type} (l : List α) (f : α → Nat) (c : Nat) (h : ∀ x ∈ l, f x = c) :
    (l.map f).sum = l.length * c := by
  induction l with
  | nil => simp
  | cons x xs ih =>
    simp only [List.map_cons, List.sum_cons, List.length_cons]
    rw [h x (by simp), ih (fun y hy => h y (by simp [hy])), Nat.succ_mul, Nat.add_comm]

theorem ndindex_length : ∀ sh : List Nat, (ndindex sh).length = prod sh
  | [] => rfl
  | n :: sh => by
    simp only [ndindex, List.length_flatMap, prod]
    rw [sum_map_const _ _ (prod sh)]
    · simp
    · intro i _; simp [ndindex_length sh]

theorem ndindex_mem_length : ∀ (sh : List Nat) (ix : List Nat), ix ∈ ndindex sh → ix.length = sh.length
  | [], ix, h => by simp [ndindex] at h; simp [h]
  | n :: sh, ix, h => by
    simp only [ndindex, List.mem_flatMap, List.mem_map] at h
    obtain ⟨i, _, t, ht, rfl⟩ := h
    simp [ndindex_mem_length sh t ht]

end Pydap.Handler

namespace Pydap.Handler
open Pydap

/-! ### hyperslabs keep arrays well formed -/

theorem validSl_nonneg {N : Nat} {s : PSlice} (h : validSl N s = true) : NonNegSl s := by
  obtain ⟨st, sp, se⟩ := s
  simp only [validSl, decide_eq_true_eq] at h
  constructor
  · intro x hx; simp only at hx; subst hx; simpa using h.1
  · intro x hx; simp only at hx; subst hx
    have h1 := h.1; have h3 := h.2.2.1; simp only [Option.getD_some] at h3; omega
  · intro x hx; simp only at hx; subst hx; simpa using h.2.2.2

theorem nonNeg_all : NonNegSl PSlice.all := by
  constructor <;> intro x hx <;> simp [PSlice.all] at hx

theorem mem_sel_lt (N : Nat) (s : PSlice) (hnn : NonNegSl s) : ∀ j ∈ sel N s, j < N := by
  intro j hj
  rw [sel_eq_natSel N s hnn] at hj
  have := mem_natSel_lt N _ _ _ j (stepN_pos hnn) hj
  omega

theorem zip_sel_nonneg : ∀ (sh : List Nat) (sl : List PSlice), (∀ s ∈ sl, NonNegSl s) →
    ∀ p ∈ List.zip sh (List.zipWith sel sh sl), ∀ i ∈ p.2, i < p.1
  | [], _, _ => by simp
  | _ :: _, [], _ => by simp
  | n :: sh, s :: sl, h => by
    intro p hp
    simp only [List.zipWith_cons_cons, List.zip_cons_cons, List.mem_cons] at hp
    rcases hp with rfl | hp
    · exact mem_sel_lt n s (h s (by simp))
    · exact zip_sel_nonneg sh sl (fun x hx => h x (by simp [hx])) p hp

/-- the slices accepted by `check_hyperslab`, completed with `slice(None)`, select positions inside the axes -/
theorem zip_sel_bound : ∀ (sh : List Nat) (sl : List PSlice) (k : Nat),
    (List.zipWith validSl sh sl).all id = true →
    ∀ p ∈ List.zip sh (List.zipWith sel sh (sl ++ List.replicate k PSlice.all)), ∀ i ∈ p.2, i < p.1
  | [], _, _, _ => by simp
  | n :: sh, [], k, _ => by
    simp only [List.nil_append]
    exact zip_sel_nonneg (n :: sh) _ (fun s hs => by rw [List.eq_of_mem_replicate hs]; exact nonNeg_all)
  | n :: sh, s :: sl, k, h => by
    simp only [List.zipWith_cons_cons, List.all_cons, Bool.and_eq_true, id] at h
    intro p hp
    simp only [List.cons_append, List.zipWith_cons_cons, List.zip_cons_cons, List.mem_cons] at hp
    rcases hp with rfl | hp
    · exact mem_sel_lt n s (validSl_nonneg h.1)
    · exact zip_sel_bound sh sl k h.2 p hp

theorem selND_length : ∀ (sh : List Nat) (idx : List (List Nat)) (d : List Val),
    idx.length = sh.length → (∀ p ∈ List.zip sh idx, ∀ i ∈ p.2, i < p.1) → d.length = prod sh →
    (selND sh idx d).length = prod (idx.map List.length)
  | [], [], d, _, _, hd => by simpa [selND, prod] using hd
  | [], _ :: _, _, hl, _, _ => by simp at hl
  | _ :: _, [], _, hl, _, _ => by simp at hl
  | n :: sh, ix :: rest, d, hl, hb, hd => by
    simp only [selND, List.length_flatMap, List.map_cons, prod]
    rw [sum_map_const _ _ (prod (rest.map List.length))]
    intro i hi
    have hin : i < n := hb (n, ix) (by simp) i hi
    apply selND_length sh rest _ (by simpa using hl) (fun p hp => hb p (by simp [hp]))
    have h1 := Nat.mul_le_mul_right (prod sh) (show i + 1 ≤ n from hin)
    rw [Nat.succ_mul] at h1
    simp only [prod] at hd
    simp only [List.length_take, List.length_drop, hd]
    omega

end Pydap.Handler
