import Proofs.DasLex
/-! The attribute line: `values`, `parseAttribute` on what `build_attributes` prints (C08). -/
namespace Pydap.Das

/-- a scalar of the DAS-safe domain under the declared DAS type `ty`: a safe string under a string type;
    a number whose printed token (Python's `%.6g`, outside the model) is made of token characters and is
    classified back to its own Python type (`ast.literal_eval`, outside the model) -/
def ScalarOk (ty : Text) : Scalar → Prop
  | .str s => SafeStr s ∧ strTypes.contains (lower ty) = true
  | .num tok f => tok ≠ [] ∧ (∀ c ∈ tok, tokChar c = true) ∧ convert ty tok = .ok (.num tok f)

def HeadOk (t : Text) : Prop := ∃ c cs, t = c :: cs ∧ notSep c = true ∧ isSpace c = false

theorem lstrip_headOk (t : Text) (h : HeadOk t) : lstrip t = t := by
  obtain ⟨c, cs, rfl, _, hs⟩ := h
  simp [lstrip, hs]

theorem headOk_append (t u : Text) (h : HeadOk t) : HeadOk (t ++ u) := by
  obtain ⟨c, cs, rfl, h1, h2⟩ := h
  exact ⟨c, cs ++ u, rfl, h1, h2⟩

theorem encode_headOk (ty : Text) (x : Scalar) (h : ScalarOk ty x) : HeadOk (encode x) := by
  cases x with
  | str s => exact ⟨'"', s ++ ['"'], rfl, by decide, by decide⟩
  | num tok f =>
    obtain ⟨hne, hc, _⟩ := h
    cases tok with
    | nil => exact absurd rfl hne
    | cons c cs =>
      have := hc c (by simp)
      simp [tokChar] at this
      exact ⟨c, cs, rfl, this.1.1, this.1.2⟩

theorem convert_quoted (ty s : Text) (hs : SafeStr s) (ht : strTypes.contains (lower ty) = true) :
    convert ty ('"' :: s ++ ['"']) = .ok (.str s) := by
  unfold convert
  rw [if_pos ht, stripQuotes_quoted s hs]

/-- one value: the three-alternative pattern returns exactly the printed text, and the conversion gives
    the scalar back -/
theorem scan_encode (ty : Text) (x : Scalar) (rest : Text) (h : ScalarOk ty x)
    (hr : ∀ c, rest.head? = some c → notSep c = false) :
    scanValue (encode x ++ rest) = .ok (encode x, rest) ∧ convert ty (encode x) = .ok x := by
  cases x with
  | str s =>
    obtain ⟨hs, ht⟩ := h
    constructor
    · have := scanValue_str s rest hs
      simpa [encode] using this
    · exact convert_quoted ty s hs ht
  | num tok f =>
    obtain ⟨hne, hc, hconv⟩ := h
    exact ⟨scanValue_tok tok rest hne hc hr, hconv⟩

theorem peekChar_headOk_semi (t : Text) (h : HeadOk t) : peekChar ';' t = false := by
  obtain ⟨c, cs, rfl, h1, _⟩ := h
  simp [peekChar]
  intro hc; subst hc; simp [notSep] at h1

theorem joinVals_cons2 (a b : Text) (l : List Text) :
    joinVals (a :: b :: l) = a ++ ',' :: ' ' :: joinVals (b :: l) := rfl

theorem joinVals_headOk (ty : Text) (x : Scalar) (xs : List Scalar) (h : ScalarOk ty x) :
    HeadOk (joinVals ((x :: xs).map encode)) := by
  cases xs with
  | nil => simpa [joinVals] using encode_headOk ty x h
  | cons y ys =>
    simp only [List.map_cons, joinVals_cons2]
    exact headOk_append _ _ (encode_headOk ty x h)

def afterValue (r : Text) : Text :=
  if peekChar ',' (lstrip r) then lstrip ((lstrip r).drop 1) else lstrip r

theorem afterValue_comma (J : Text) (h : HeadOk J) : afterValue (',' :: ' ' :: J) = J := by
  have := lstrip_headOk _ h
  simp [afterValue, lstrip, isSpace, peekChar, this]

/-- one turn of the `while not self.peek(";")` loop on a printed value -/
theorem values_step (ty : Text) (x : Scalar) (f : Nat) (next : Text) (hx : ScalarOk ty x)
    (hr : ∀ c, next.head? = some c → notSep c = false) :
    values ty (f + 1) (encode x ++ next) =
      match values ty f (afterValue next) with
      | .error e => .error e
      | .ok (vs, r3) => .ok (x :: vs, r3) := by
  have hsc := scan_encode ty x next hx hr
  have hp := peekChar_headOk_semi _ (headOk_append (encode x) next (encode_headOk ty x hx))
  rw [values]
  rw [if_neg (by rw [hp]; exact Bool.false_ne_true), hsc.1]
  simp only [hsc.2]
  rfl

/-- the `while not self.peek(";")` loop gives back every printed value -/
theorem values_joined (ty : Text) (xs : List Scalar) (rest : Text) :
    (∀ x ∈ xs, ScalarOk ty x) → ∀ fuel, xs.length < fuel →
    values ty fuel (joinVals (xs.map encode) ++ ';' :: rest) = .ok (xs, ';' :: rest) := by
  induction xs with
  | nil =>
    intro _ fuel hf
    cases fuel with
    | zero => omega
    | succ f => simp [joinVals, values, peekChar]
  | cons x xs ih =>
    intro h fuel hf
    have hx := h x (by simp)
    have hxs : ∀ y ∈ xs, ScalarOk ty y := fun y hy => h y (by simp [hy])
    cases fuel with
    | zero => omega
    | succ f =>
      have hf' : xs.length < f := by simp at hf; omega
      have ihf := ih hxs f hf'
      cases xs with
      | nil =>
        have e1 : afterValue (';' :: rest) = ';' :: rest := by simp [afterValue, lstrip, isSpace, peekChar]
        have := values_step ty x f (';' :: rest) hx (by simp [notSep])
        simp only [List.map_cons, List.map_nil, joinVals, List.nil_append] at ihf ⊢
        rw [this, e1, ihf]
      | cons y ys =>
        have hy := h y (by simp)
        have hJ : HeadOk (joinVals ((y :: ys).map encode) ++ ';' :: rest) :=
          headOk_append _ _ (joinVals_headOk ty y ys hy)
        have eq1 : joinVals ((x :: y :: ys).map encode) ++ ';' :: rest
            = encode x ++ ',' :: ' ' :: (joinVals ((y :: ys).map encode) ++ ';' :: rest) := by
          simp only [List.map_cons, joinVals_cons2, List.append_assoc, List.cons_append]
        have e2 := afterValue_comma _ hJ
        have := values_step ty x f (',' :: ' ' :: (joinVals ((y :: ys).map encode) ++ ';' :: rest)) hx
          (by simp [notSep])
        rw [eq1, this, e2, ihf]

theorem takeNS_word (w more : Text) (h : ∀ c ∈ w, isSpace c = false) :
    takeNS (w ++ ' ' :: more) = w ∧ dropNS (w ++ ' ' :: more) = ' ' :: more := by
  induction w with
  | nil => simp [takeNS, dropNS, isSpace]
  | cons c cs ih =>
    have := ih (fun x hx => h x (by simp [hx]))
    simp [takeNS, dropNS, h c (by simp), this]

theorem consumeWord_word (w more : Text) (h : Word w) :
    consumeWord (w ++ ' ' :: more) = .ok (w, lstrip more) := by
  obtain ⟨hne, hc⟩ := h
  have ⟨h1, h2⟩ := takeNS_word w more hc
  unfold consumeWord
  rw [h1, h2]
  cases w with
  | nil => exact absurd rfl hne
  | cons c cs => simp [lstrip, isSpace]

theorem length_joinVals_ge (ty : Text) (xs : List Scalar) (h : ∀ x ∈ xs, ScalarOk ty x) :
    xs.length ≤ (joinVals (xs.map encode)).length := by
  induction xs with
  | nil => simp
  | cons x xs ih =>
    have hx := encode_headOk ty x (h x (by simp))
    obtain ⟨c, cs, he, _, _⟩ := hx
    have := ih (fun y hy => h y (by simp [hy]))
    cases xs with
    | nil => simp [joinVals, he]
    | cons y ys =>
      simp only [List.map_cons, joinVals_cons2] at this ⊢
      simp only [List.length_append, List.length_cons, he] at this ⊢
      omega

/-- `DASParser.attribute` on an attribute line as `build_attributes` prints it (after the `lstrip` of the
    preceding `consume`): name and values come back, the buffer continues after the line -/
theorem parseAttribute_line (ty name : Text) (xs : List Scalar) (rest : Text)
    (hty : Word ty) (hname : Word name) (hx : ∀ x ∈ xs, ScalarOk ty x) :
    parseAttribute (ty ++ ' ' :: name ++ ' ' :: joinVals (xs.map encode) ++ [';', '\n'] ++ rest)
      = .ok (name, unwrap xs, lstrip rest) := by
  have e0 : ty ++ ' ' :: name ++ ' ' :: joinVals (xs.map encode) ++ [';', '\n'] ++ rest
      = ty ++ ' ' :: (name ++ ' ' :: (joinVals (xs.map encode) ++ ';' :: '\n' :: rest)) := by
    simp [List.append_assoc]
  rw [e0]
  obtain ⟨hnne, hnc⟩ := hname
  have hrest : lstrip (name ++ ' ' :: (joinVals (xs.map encode) ++ ';' :: '\n' :: rest))
      = name ++ ' ' :: (joinVals (xs.map encode) ++ ';' :: '\n' :: rest) := by
    cases name with
    | nil => exact absurd rfl hnne
    | cons c cs => simp [lstrip, hnc c (by simp)]
  have hJ : lstrip (joinVals (xs.map encode) ++ ';' :: '\n' :: rest)
      = joinVals (xs.map encode) ++ ';' :: '\n' :: rest := by
    cases xs with
    | nil => simp [joinVals, lstrip, isSpace]
    | cons x xs => exact lstrip_headOk _ (headOk_append _ _ (joinVals_headOk ty x xs (hx x (by simp))))
  have hv := values_joined ty xs ('\n' :: rest) hx
    ((joinVals (xs.map encode) ++ ';' :: '\n' :: rest).length + 1)
    (by have := length_joinVals_ge ty xs hx; simp only [List.length_append, List.length_cons]; omega)
  unfold parseAttribute
  rw [consumeWord_word ty _ hty]
  simp only [hrest]
  rw [consumeWord_word name _ ⟨hnne, hnc⟩]
  simp only [hJ, hv]
  simp [consumeChar, lstrip, isSpace]

end Pydap.Das
