import Proofs.DeriveSlice
import Proofs.SeqClient
namespace Pydap.Derive
open Pydap Pydap.IterData Pydap.SeqClient Pydap.Seq Pydap.TableVal

theorem nonNeg_all : NonNegSl PSlice.all := ⟨by simp [PSlice.all], by simp [PSlice.all], by simp [PSlice.all]⟩

theorem pySlice_all {α} (xs : List α) : pySlice PSlice.all xs = xs := by
  obtain ⟨hl, hg⟩ := pySlice_facts PSlice.all nonNeg_all xs
  have hs : sel xs.length PSlice.all = List.range' 0 xs.length := by
    simp [sel, PSlice.all, npBound]
  apply List.ext_getElem?
  intro j
  rw [hg j, hs]
  by_cases hj : j < xs.length
  · simp [hj]
  · simp [hj]

theorem pySlice_map {α β} (f : α → β) (s : PSlice) (xs : List α) :
    pySlice s (xs.map f) = (pySlice s xs).map f := by
  unfold pySlice
  rw [List.length_map, List.map_filterMap]
  apply filterMap_congr'
  intro i _
  simp

theorem mem_pySlice {α} (s : PSlice) (xs : List α) (x : α) (h : x ∈ pySlice s xs) : x ∈ xs := by
  obtain ⟨i, _, hi⟩ := List.mem_filterMap.mp h
  exact List.mem_of_getElem? hi

/-- the record range the server applies = Python slicing -/
theorem applySlices_rangeList {α} (s : PSlice) (h : NonNegSl s) (xs : List α) :
    applySlices (rangeList s) xs = .ok (pySlice s xs) := by
  unfold rangeList
  by_cases ha : s = PSlice.all
  · subst ha; simp [applySlices, pySlice_all]
  · simp only [ha, if_false, applySlices]
    rw [islice_sel s h]
    rfl

variable {A : Type}

/-! ### the chain as client operators -/

/-- the operator of C04 that accumulates what a step accumulates (a child selects one column) -/
def toCOp : DStep A → COp A
  | .cols ks => .cols ks
  | .filt c cs => .filt c cs
  | .sl s => .sl s
  | .idx i => .idx i
  | .child k => .cols [k]
  | .colfilt c cs => .filt c cs

def isChild : DStep A → Bool
  | .child _ => true
  | _ => false

/-- a step the theorem speaks about; `seen` = a child was selected before (the object is a single column: Python
    raises on a column list, a further child, or a comparison made on a child of the column) -/
def StepOk (enc : A → List Char) (keys : List Name) (seen : Bool) : DStep A → Prop
  | .cols ks => seen = false ∧ ks ≠ [] ∧ ks.Nodup ∧ ∀ k ∈ ks, k ∈ keys
  | .filt c cs => seen = false ∧ ∀ x ∈ c :: cs, CmpOk enc keys x
  | .colfilt c cs => ∀ x ∈ c :: cs, CmpOk enc keys x
  | .sl s => NonNegSl s
  | .idx i => 0 ≤ i
  | .child k => seen = false ∧ k ∈ keys

def ChainOk (enc : A → List Char) (keys : List Name) : Bool → List (DStep A) → Prop
  | _, [] => True
  | seen, st :: r => StepOk enc keys seen st ∧ ChainOk enc keys (seen || isChild st) r

theorem opOk_of_stepOk (enc : A → List Char) (keys : List Name) (seen : Bool) (st : DStep A)
    (h : StepOk enc keys seen st) : OpOk enc keys (toCOp st) := by
  cases st with
  | cols ks => exact h.2
  | filt c cs => exact h.2
  | colfilt c cs => exact h
  | sl s => trivial
  | idx i => trivial
  | child k => exact ⟨by simp, by simp, by simpa using h.2⟩

theorem opsOk_of_chainOk (enc : A → List Char) (keys : List Name) (seen : Bool) (chain : List (DStep A))
    (h : ChainOk enc keys seen chain) : ∀ op ∈ chain.map toCOp, OpOk enc keys op := by
  induction chain generalizing seen with
  | nil => intro op hop; cases hop
  | cons st r ih =>
    intro op hop
    simp only [List.map_cons, List.mem_cons] at hop
    rcases hop with rfl | hop
    · exact opOk_of_stepOk enc keys seen st h.1
    · exact ih _ h.2 op hop

/-- the description of the derived object: the accumulation of C04, and after a child the single column -/
def specOfAcc (b id : Name) (keys : List Name) (σ : Proxy.Sess) (seen : Bool) (a : Acc) : Proxy.Spec :=
  if seen then ⟨b, [id] ++ a.vis, [], [], false, a.sel, [a.sl], σ⟩ else accSpec b id keys σ a

def ColInv (seen : Bool) (a : Acc) : Prop := seen = true → ∃ k, a.vis = [k] ∧ a.sub = true

theorem keyOfStep_eq (enc : A → List Char) (id : Name) (p : Proxy.SeqProxy) (st : DStep A) (hc : isChild st = false) :
    keyOfStep enc [id] p st = keyOf enc [id] p (toCOp st) := by
  cases st <;> first | rfl | (simp [isChild] at hc)

/-- the text of a conjunction, cut at `&`, is the list of its clauses (read off `specStep_keyOf`) -/
theorem ceKey_clauses (enc : A → List Char) (id : Name) (keys : List Name) (hid : NameOk id)
    (hkeys : ∀ k ∈ keys, NameOk k) (p : Proxy.SeqProxy) (c : Cmp A) (cs : List (Cmp A))
    (hop : ∀ x ∈ c :: cs, CmpOk enc keys x) :
    ceKey (andText ((c :: cs).map (cmpOf enc [id] p)))
      = .ce ((c :: cs).map fun x => CE.renderClause (clauseCond enc id x)) := by
  have h := specStep_keyOf enc [] id keys none hid hkeys p ⟨[], false, [], PSlice.all⟩ (.filt c cs) hop
  simp only [keyOf, ceKey, Proxy.specStep, accSpec, accStep, Option.some.injEq, Proxy.Spec.mk.injEq,
    List.nil_append, true_and, and_true] at h
  simp only [ceKey, h]

theorem step_spec (enc : A → List Char) (b id : Name) (keys : List Name) (σ : Proxy.Sess)
    (hid : NameOk id) (hkeys : ∀ k ∈ keys, NameOk k) (p : Proxy.SeqProxy) (seen : Bool) (a : Acc) (st : DStep A)
    (hok : StepOk enc keys seen st) (hinv : ColInv seen a) :
    Proxy.specStep (specOfAcc b id keys σ seen a) (keyOfStep enc [id] p st)
      = some (specOfAcc b id keys σ (seen || isChild st) (accStep enc id a (toCOp st)))
    ∧ ColInv (seen || isChild st) (accStep enc id a (toCOp st)) := by
  cases seen with
  | false =>
    cases st with
    | child k =>
      refine ⟨?_, fun _ => ⟨k, rfl, rfl⟩⟩
      simp [specOfAcc, keyOfStep, Proxy.specStep, accSpec, hok.2, isChild, toCOp, accStep]
    | cols ks =>
      refine ⟨?_, by intro h; cases h⟩
      simp only [specOfAcc, isChild, Bool.or_false, Bool.false_eq_true, if_false]
      exact specStep_keyOf enc b id keys σ hid hkeys p a (.cols ks) hok.2
    | filt c cs =>
      refine ⟨?_, by intro h; cases h⟩
      simp only [specOfAcc, isChild, Bool.or_false, Bool.false_eq_true, if_false]
      exact specStep_keyOf enc b id keys σ hid hkeys p a (.filt c cs) hok.2
    | colfilt c cs =>
      refine ⟨?_, by intro h; cases h⟩
      simp only [specOfAcc, isChild, Bool.or_false, Bool.false_eq_true, if_false]
      exact specStep_keyOf enc b id keys σ hid hkeys p a (.filt c cs) hok
    | sl s =>
      refine ⟨?_, by intro h; cases h⟩
      simp only [specOfAcc, isChild, Bool.or_false, Bool.false_eq_true, if_false]
      exact specStep_keyOf enc b id keys σ hid hkeys p a (.sl s) trivial
    | idx i =>
      refine ⟨?_, by intro h; cases h⟩
      simp only [specOfAcc, isChild, Bool.or_false, Bool.false_eq_true, if_false]
      exact specStep_keyOf enc b id keys σ hid hkeys p a (.idx i) trivial
  | true =>
    obtain ⟨k, hv, hsub⟩ := hinv rfl
    cases st with
    | child k' => exact absurd hok.1 (by simp)
    | cols ks => exact absurd hok.1 (by simp)
    | filt c cs => exact absurd hok.1 (by simp)
    | colfilt c cs =>
      refine ⟨?_, fun _ => ⟨k, by simpa [toCOp, accStep] using hv, by simpa [toCOp, accStep] using hsub⟩⟩
      simp only [keyOfStep, ceKey_clauses enc id keys hid hkeys p c cs hok]
      simp [specOfAcc, Proxy.specStep, toCOp, accStep]
    | sl s =>
      refine ⟨?_, fun _ => ⟨k, by simpa [toCOp, accStep] using hv, by simpa [toCOp, accStep] using hsub⟩⟩
      simp [specOfAcc, keyOfStep, Proxy.specStep, toCOp, accStep, combine, toSlice]
    | idx i =>
      refine ⟨?_, fun _ => ⟨k, by simpa [toCOp, accStep] using hv, by simpa [toCOp, accStep] using hsub⟩⟩
      simp [specOfAcc, keyOfStep, Proxy.specStep, toCOp, accStep, combine, toSlice]

def seenAfter (seen : Bool) (chain : List (DStep A)) : Bool := seen || chain.any isChild

theorem chain_spec (enc : A → List Char) (b id : Name) (keys : List Name) (σ : Proxy.Sess)
    (hid : NameOk id) (hkeys : ∀ k ∈ keys, NameOk k) (p : Proxy.SeqProxy) (chain : List (DStep A)) (seen : Bool)
    (a : Acc) (hok : ChainOk enc keys seen chain) (hinv : ColInv seen a) :
    Proxy.specChain (specOfAcc b id keys σ seen a) (chain.map (keyOfStep enc [id] p))
      = some (specOfAcc b id keys σ (seenAfter seen chain) ((chain.map toCOp).foldl (accStep enc id) a))
    ∧ ColInv (seenAfter seen chain) ((chain.map toCOp).foldl (accStep enc id) a) := by
  induction chain generalizing seen a with
  | nil => simpa [seenAfter, Proxy.specChain] using hinv
  | cons st r ih =>
    obtain ⟨h1, h2⟩ := step_spec enc b id keys σ hid hkeys p seen a st hok.1 hinv
    have := ih (seen || isChild st) (accStep enc id a (toCOp st)) hok.2 h2
    simp only [List.map_cons, Proxy.specChain, h1, Option.bind_some, List.foldl_cons]
    simpa [seenAfter, Bool.or_assoc] using this


/-- **the single column writes the text of the one-column list**: `s[a:k:b].f` (fix 3339666) -/
theorem specQuery_child (b id : Name) (keys : List Name) (σ : Proxy.Sess) (_hid : NameOk id) (a : Acc) (k : Name)
    (hk : NameOk k) (hv : a.vis = [k]) (hsub : a.sub = true) :
    specQuery (specOfAcc b id keys σ true a) = specQuery (accSpec b id keys σ a) := by
  obtain ⟨vis, sub, sel, sl⟩ := a
  simp only at hv hsub
  subst hv hsub
  have hd : ∀ x ∈ k, x ≠ '.' := fun x hx => (plain_ne (hk.2 x hx)).2.2.1
  have h1 : projFull ⟨[id, k], [], []⟩ (pOf b sel sl false σ) = id ++ hyperslabText [sl] ++ '.' :: k := by
    simp [projFull, proxyId, Proxy.seqIds, Proxy.joinDot, joinWith, pOf, rsplitDot_append id k hd]
  have h2 : projFull ⟨[id], keys, [k]⟩ (pOf b sel sl true σ) = id ++ hyperslabText [sl] ++ '.' :: k := by
    simp [projFull, projText, Proxy.seqIds, Proxy.joinDot, joinWith, pOf]
  show rstripChar '&' (projFull ⟨[id, k], [], []⟩ (pOf b sel sl false σ) ++ '&' :: joinWith '&' sel)
    = rstripChar '&' (projFull ⟨[id], keys, [k]⟩ (pOf b sel sl true σ) ++ '&' :: joinWith '&' sel)
  rw [h1, h2]

theorem specQuery_acc (b id : Name) (keys names : List Name) (σ : Proxy.Sess) (hid : NameOk id)
    (hnames : ∀ k ∈ names, NameOk k) (seen : Bool) (a : Acc) (hinv : ColInv seen a)
    (hvis : VisOk keys a) (hkeys : ∀ k ∈ keys, k ∈ names) :
    specQuery (specOfAcc b id keys σ seen a) = specQuery (accSpec b id keys σ a) := by
  cases seen with
  | false => rfl
  | true =>
    obtain ⟨k, hv, hsub⟩ := hinv rfl
    have hk : NameOk k := hnames k (hkeys k ((hvis hsub).2.2 k (by rw [hv]; simp)))
    exact specQuery_child b id keys σ hid a k hk hv hsub

/-! ### what the accumulation holds, read off the chain -/

theorem conds_eq (chain : List (DStep A)) : (chain.map toCOp).flatMap opRcs = chain.flatMap stepConds := by
  induction chain with
  | nil => rfl
  | cons st r ih =>
    simp only [List.map_cons, List.flatMap_cons, ih]
    cases st <;> rfl

theorem cols_eq (enc : A → List Char) (id : Name) (names : List Name) (chain : List (DStep A)) (a : Acc) :
    (let a' := (chain.map toCOp).foldl (accStep enc id) a
     if a'.sub then a'.vis else names) = chain.foldl stepCols (if a.sub then a.vis else names) := by
  induction chain generalizing a with
  | nil => rfl
  | cons st r ih =>
    simp only [List.map_cons, List.foldl_cons]
    rw [ih]
    cases st <;> rfl

theorem range_eq {α} (enc : A → List Char) (id : Name) (chain : List (DStep A)) (seen : Bool) (keys : List Name)
    (hok : ChainOk enc keys seen chain) (a : Acc) (ha : NonNegSl a.sl) (xs : List α) :
    NonNegSl ((chain.map toCOp).foldl (accStep enc id) a).sl ∧
    pySlice ((chain.map toCOp).foldl (accStep enc id) a).sl xs = chain.foldl applyRange (pySlice a.sl xs) := by
  induction chain generalizing seen a with
  | nil => exact ⟨ha, rfl⟩
  | cons st r ih =>
    simp only [List.map_cons, List.foldl_cons]
    have hstep : NonNegSl (accStep enc id a (toCOp st)).sl ∧
        pySlice (accStep enc id a (toCOp st)).sl xs = applyRange (pySlice a.sl xs) st := by
      cases st with
      | sl s =>
        exact ⟨combine1_nonneg ha hok.1, by simp [toCOp, accStep, applyRange, stepRange, pySlice_combine _ _ ha hok.1]⟩
      | idx i =>
        have h0 : 0 ≤ i := hok.1
        have hi : NonNegSl ⟨some i, some (i + 1), none⟩ :=
          ⟨by intro a h; cases h; exact h0, by intro b h; cases h; omega, by intro k h; cases h⟩
        exact ⟨combine1_nonneg ha hi, by simp [toCOp, accStep, applyRange, stepRange, pySlice_combine _ _ ha hi]⟩
      | cols ks => exact ⟨ha, rfl⟩
      | filt c cs => exact ⟨ha, rfl⟩
      | colfilt c cs => exact ⟨ha, rfl⟩
      | child k => exact ⟨ha, rfl⟩
    obtain ⟨h1, h2⟩ := ih _ hok.2 (accStep enc id a (toCOp st)) hstep.1
    exact ⟨h1, by rw [h2, hstep.2]⟩

theorem mem_foldl_applyRange {α} (chain : List (DStep A)) (xs : List α) (x : α)
    (h : x ∈ chain.foldl applyRange xs) : x ∈ xs := by
  induction chain generalizing xs with
  | nil => exact h
  | cons st r ih =>
    have := ih _ h
    unfold applyRange at this
    cases hs : stepRange st with
    | none => simpa [hs] using this
    | some s => rw [hs] at this; exact mem_pySlice s xs x this

theorem mapM_eq_map {α β} (g : α → Option β) (p : α → β) : ∀ (xs : List α), (∀ r ∈ xs, g r = some (p r)) →
    xs.mapM g = some (xs.map p)
  | [], _ => rfl
  | x :: xs, h => by
    rw [List.mapM_cons, h x (by simp), mapM_eq_map g p xs (fun r hr => h r (by simp [hr]))]; rfl

theorem cells_total (names cols : List Name) (hcols : ∀ k ∈ cols, k ∈ names) (r : List A)
    (hl : r.length = names.length) : ∃ cells, cols.mapM (cellOf names r) = some cells := by
  induction cols with
  | nil => exact ⟨[], rfl⟩
  | cons k ks ih =>
    obtain ⟨v, hv, _⟩ := cellOf_some names r hl (hcols k (by simp))
    obtain ⟨cells, hc⟩ := ih (fun x hx => hcols x (by simp [hx]))
    exact ⟨v :: cells, by rw [List.mapM_cons, hv, hc]; rfl⟩

/-- **the reference of C04 with the combined record range = the by-name reference with the ranges in order** -/
theorem refEval_refSelection (cmp : Op → A → A → Bool) (enc : A → List Char) (id : Name) (names : List Name)
    (rows : List (List A)) (hrows : ∀ r ∈ rows, r.length = names.length)
    (chain : List (DStep A)) (hok : ChainOk enc names false chain)
    (hcols : ∀ k ∈ chain.foldl stepCols names, k ∈ names) :
    ∃ out, refSelection cmp names chain rows = some out ∧
      refEval cmp names ⟨chain.flatMap stepConds, .table (chain.foldl stepCols names),
        rangeList ((chain.map toCOp).foldl (accStep enc id) ⟨names, false, [], PSlice.all⟩).sl⟩ rows
        = .ok (out.map Item.row) := by
  let cols := chain.foldl stepCols names
  let g : List A → Option (List A) := fun r => cols.mapM (cellOf names r)
  let proj : List A → List A := fun r => (g r).getD []
  let kept := rows.filter fun r => (chain.flatMap stepConds).all (refCond cmp names r)
  have hg : ∀ r ∈ rows, g r = some (proj r) := by
    intro r hr
    obtain ⟨cells, hc⟩ := cells_total names cols hcols r (hrows r hr)
    show g r = some ((g r).getD [])
    rw [show g r = some cells from hc]; rfl
  have hkept : ∀ r ∈ kept, r ∈ rows := fun r hr => (List.mem_filter.mp hr).1
  obtain ⟨hnn, hrange⟩ := range_eq enc id chain false names hok ⟨names, false, [], PSlice.all⟩ nonNeg_all kept
  simp only [pySlice_all] at hrange
  refine ⟨(chain.foldl applyRange kept).map proj, ?_, ?_⟩
  · show (chain.foldl applyRange kept).mapM g = _
    exact mapM_eq_map g proj _ (fun r hr => hg r (hkept r (mem_foldl_applyRange chain kept r hr)))
  · unfold refEval
    simp only
    have hm : kept.mapM (fun r => refItem names r (.table cols)) = some (kept.map fun r => Item.row (proj r)) := by
      apply mapM_eq_map
      intro r hr
      show (g r).map Item.row = _
      rw [hg r (hkept r hr)]; rfl
    show (match kept.mapM (fun r => refItem names r (.table cols)) with
      | none => _
      | some items => applySlices _ items) = _
    rw [hm]
    simp only
    rw [applySlices_rangeList _ hnn, pySlice_map, hrange, List.map_map]
    rfl


end Pydap.Derive
