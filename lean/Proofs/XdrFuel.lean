/-
  C05: the fuel of the decoder model is immaterial on *every* stream (conforming or not): any two amounts
  of fuel that cover the stream give the same result.  With C09's prefix theorem for read-only decoders this
  turns "no proper prefix of a conforming stream decodes" into "every proper prefix raises *short*"
  (EOFError / StopIteration), never the model's own `fuel`.
-/
import Proofs.XdrStream
import Proofs.XdrPrefix
namespace Pydap.Xdr
open Pydap.Stream (Dec SR)

theorem read_len {n : Nat} {s a r : Bytes} (h : read n s = .ok (a, r)) : r.length + n = s.length := by
  unfold read at h
  split at h
  · cases h
  · simp only [Except.ok.injEq, Prod.mk.injEq] at h
    obtain ⟨_, rfl⟩ := h
    simp; omega

theorem dec_len {f : Nat} {t : Tmpl} {s : Bytes} {d : Data} {r : Bytes} (h : dec f t s = .ok (d, r)) :
    r.length ≤ s.length := by
  have := run_decD f t s
  rw [h] at this
  exact Stream.runBR_length _ _ _ _ this

theorem decs_len {f : Nat} {cs : List Tmpl} {s : Bytes} {ds : List Data} {r : Bytes}
    (h : decs f cs s = .ok (ds, r)) : r.length ≤ s.length := by
  have := run_decsD f cs s
  rw [h] at this
  exact Stream.runBR_length _ _ _ _ this

theorem tsize_pos (t : Tmpl) : 1 ≤ tsize t := by cases t <;> simp [tsize] <;> omega
theorem tsizes_pos (cs : List Tmpl) : 1 ≤ tsizes cs := by cases cs <;> simp [tsizes] <;> omega

theorem decRowsSimple_fuel (cs : List Tmpl) : ∀ (f1 f2 : Nat) (s : Bytes), s.length < f1 → s.length < f2 →
    decRowsSimple cs f1 s = decRowsSimple cs f2 s
  | 0, _, _, h, _ => by omega
  | _ + 1, 0, _, _, h => by omega
  | f1 + 1, f2 + 1, s, h1, h2 => by
    unfold decRowsSimple
    cases hm : read 4 s with
    | error e => rfl
    | ok m =>
      obtain ⟨a, s1⟩ := m
      have l1 := read_len hm
      simp only []
      split
      · cases hp : read (recordSize cs) s1 with
        | error e => rfl
        | ok p =>
          obtain ⟨b, s2⟩ := p
          have l2 := read_len hp
          simp only []
          rw [decRowsSimple_fuel cs f1 f2 s2 (by omega) (by omega)]
      · rfl

mutual
theorem dec_fuel : ∀ (f1 f2 : Nat) (t : Tmpl) (s : Bytes), s.length + tsize t ≤ f1 → s.length + tsize t ≤ f2 →
    dec f1 t s = dec f2 t s
  | 0, _, t, _, h, _ => by have := tsize_pos t; omega
  | _ + 1, 0, t, _, _, h => by have := tsize_pos t; omega
  | f1 + 1, f2 + 1, .base ty shape, s, _, _ => by simp only [dec]
  | f1 + 1, f2 + 1, .struct cs, s, h1, h2 => by
    simp only [tsize] at h1 h2
    simp only [dec]
    rw [decs_fuel f1 f2 cs s (by omega) (by omega)]
  | f1 + 1, f2 + 1, .seq cs, s, h1, h2 => by
    simp only [tsize] at h1 h2
    have := tsizes_pos cs
    simp only [dec]
    rw [decRowsSimple_fuel cs f1 f2 s (by omega) (by omega), decRows_fuel f1 f2 cs s (by omega) (by omega)]
theorem decs_fuel : ∀ (f1 f2 : Nat) (cs : List Tmpl) (s : Bytes), s.length + tsizes cs ≤ f1 →
    s.length + tsizes cs ≤ f2 → decs f1 cs s = decs f2 cs s
  | 0, _, cs, _, h, _ => by have := tsizes_pos cs; omega
  | _ + 1, 0, cs, _, _, h => by have := tsizes_pos cs; omega
  | f1 + 1, f2 + 1, [], s, _, _ => by simp only [decs]
  | f1 + 1, f2 + 1, c :: cs, s, h1, h2 => by
    simp only [tsizes] at h1 h2
    simp only [decs]
    rw [dec_fuel f1 f2 c s (by omega) (by omega)]
    cases hd : dec f2 c s with
    | error e => rfl
    | ok p =>
      obtain ⟨d, s1⟩ := p
      have := dec_len hd
      simp only []
      rw [decs_fuel f1 f2 cs s1 (by omega) (by omega)]
theorem decRows_fuel : ∀ (f1 f2 : Nat) (cs : List Tmpl) (s : Bytes), s.length + tsizes cs + 1 ≤ f1 →
    s.length + tsizes cs + 1 ≤ f2 → decRows f1 cs s = decRows f2 cs s
  | 0, _, _, _, h, _ => by omega
  | _ + 1, 0, _, _, _, h => by omega
  | f1 + 1, f2 + 1, cs, s, h1, h2 => by
    simp only [decRows]
    cases hm : read 4 s with
    | error e => rfl
    | ok m =>
      obtain ⟨a, s1⟩ := m
      have l1 := read_len hm
      simp only []
      split
      · rw [decs_fuel f1 f2 cs s1 (by omega) (by omega)]
        cases hd : decs f2 cs s1 with
        | error e => rfl
        | ok p =>
          obtain ⟨ds, s2⟩ := p
          have := decs_len hd
          simp only []
          rw [decRows_fuel f1 f2 cs s2 (by omega) (by omega)]
      · rfl
end

/-- on a prefix `p` of `b`, `decImpl`'s own fuel and the fuel it would use on `b` give the same result -/
theorem decImpl_fuel (t : Tmpl) (p : Bytes) (f : Nat) (h : fuelFor t p ≤ f) : dec f t p = decImpl t p := by
  unfold decImpl
  unfold fuelFor at h ⊢
  exact dec_fuel _ _ t p (by omega) (by omega)

/-- **every proper prefix of a conforming stream raises `short`** (a `read` meets the end of the data) -/
theorem decImpl_prefix_short (t : Tmpl) (d : Data) (p q : Bytes) (h : WF t d = true)
    (he : XdrSpec.enc t d = p ++ q) (hq : q ≠ []) : decImpl t p = .error .short := by
  have hfull := decImpl_enc t d [] h
  rw [List.append_nil] at hfull
  have hrun := run_decImpl t (XdrSpec.enc t d)
  rw [hfull] at hrun
  have hp : p <+: XdrSpec.enc t d := ⟨q, he.symm⟩
  have hl : p.length < (XdrSpec.enc t d).length := by
    rw [he]; cases q with
    | nil => exact absurd rfl hq
    | cons x q => simp
  rcases Stream.runBR_prefix _ _ p d [] hrun hp with ⟨h1, _⟩ | ⟨_, h2⟩
  · simp at h1; omega
  · rw [run_decD] at h2
    have hf : fuelFor t p ≤ fuelFor t (XdrSpec.enc t d) := by unfold fuelFor; omega
    rw [decImpl_fuel t p _ hf] at h2
    cases hd : decImpl t p with
    | ok x => rw [hd] at h2; cases h2
    | error e =>
      rw [hd] at h2
      simp only [mapE_error, Except.error.injEq] at h2
      rw [(errMap_eof e).mp h2]

end Pydap.Xdr
