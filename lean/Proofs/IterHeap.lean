/-
  C17 audit: the object-level model `PydapModel/IterHeap.lean` — frame (nothing that existed is written), freshness,
  refinement of the value model through `view`, re-iterability, histories.
-/
import PydapModel.IterHeap
namespace Pydap.IterHeap
open Pydap Pydap.IterData

variable {A : Type}

/-- `h'` still holds every object of `h`, unchanged, at its address -/
def Ext (h h' : Heap A) : Prop := ∀ (i : Nat) (x : Obj A), h[i]? = some x → h'[i]? = some x

theorem Ext.refl (h : Heap A) : Ext h h := fun _ _ e => e
theorem Ext.trans {a b c : Heap A} (h1 : Ext a b) (h2 : Ext b c) : Ext a c := fun i x e => h2 i x (h1 i x e)

theorem lt_of_get {h : Heap A} {i : Nat} {x : Obj A} (e : h[i]? = some x) : i < h.length := by
  rcases Nat.lt_or_ge i h.length with hlt | hge
  · exact hlt
  · rw [List.getElem?_eq_none hge] at e; cases e

theorem ext_append {h hx : Heap A} (e : Ext h hx) (l : Heap A) : Ext h (hx ++ l) := by
  intro i x hi
  have := e i x hi
  rw [List.getElem?_append_left (lt_of_get this)]; exact this

theorem ext_set {h hx : Heap A} (e : Ext h hx) (i : Nat) (v : Obj A) (hi : h.length ≤ i) : Ext h (hx.set i v) := by
  intro j x hj
  have hlt := lt_of_get hj
  rw [List.getElem?_set_ne (by omega)]
  exact e j x hj

theorem appendMap_ext {h hx h3 : Heap A} {ref : Nat} {m : MapF} (e : Ext h hx) (hr : h.length ≤ ref)
    (ha : appendMap hx ref m = some h3) : Ext h h3 := by
  unfold appendMap at ha
  split at ha
  · cases ha; exact ext_set e _ _ hr
  · cases ha

theorem pushMap_ext {h hx h3 : Heap A} {ref : Nat} {m : MapF} (e : Ext h hx) (hr : h.length ≤ ref)
    (ha : pushMap hx ref m = some h3) : Ext h h3 := by
  unfold pushMap at ha
  split at ha
  · cases ha; exact ext_set e _ _ hr
  · cases ha

theorem appendFilt_ext {h hx h3 : Heap A} {ref : Nat} {f : Filt A} (e : Ext h hx) (hr : h.length ≤ ref)
    (ha : appendFilt hx ref f = some h3) : Ext h h3 := by
  unfold appendFilt at ha
  split at ha
  · cases ha; exact ext_set e _ _ hr
  · cases ha

theorem appendSlice_ext {h hx h3 : Heap A} {ref : Nat} {s : PSlice} (e : Ext h hx) (hr : h.length ≤ ref)
    (ha : appendSlice hx ref s = some h3) : Ext h h3 := by
  unfold appendSlice at ha
  split at ha
  · cases ha; exact ext_set e _ _ hr
  · cases ha

/-- `__copy__` allocates: the old heap is untouched, the new object and the four objects it owns are new -/
theorem copyStream_spec {h h1 : Heap A} {r out : Nat} {o : Flds} (hc : copyStream h r = some (h1, out, o)) :
    Ext h h1 ∧ out = h.length + 4 ∧ o.tmpl = h.length ∧ o.ifilter = h.length + 1 ∧ o.imap = h.length + 2 ∧
      o.islice = h.length + 3 := by
  unfold copyStream at hc
  split at hc
  · cases hc
  · split at hc
    · simp only [Option.some.injEq, Prod.mk.injEq] at hc
      obtain ⟨rfl, rfl, rfl⟩ := hc
      exact ⟨ext_append (Ext.refl h) _, rfl, rfl, rfl, rfl, rfl⟩
    · cases hc

/-- **Frame and freshness of `__getitem__`.**  Whatever the heap, the stream object and the key: when the step returns
    an object, that object did not exist before, and EVERY object that existed before — the operand, its lists, its
    template, `root`, the source, every other stream and everything they refer to — is still there, unchanged. -/
theorem getitemH_frame (lit : List Char → Option A) (h h' : Heap A) (r r' : Nat) (k : Key)
    (hg : getitemH lit h r k = some (.ok (h', r'))) : Ext h h' ∧ h.length ≤ r' := by
  unfold getitemH at hg
  split at hg
  · rename_i self h1 out o _ hc
    obtain ⟨e1, rfl, ht, hf, hm, hs⟩ := copyStream_spec hc
    cases k with
    | str key =>
      simp only at hg
      split at hg
      · cases hg
      · split at hg
        · cases hg
        · split at hg
          · simp only [Option.map_eq_some_iff] at hg
            obtain ⟨h3, ha, hh⟩ := hg
            simp only [Option.some.injEq, Except.ok.injEq, Prod.mk.injEq] at hh
            obtain ⟨rfl, rfl⟩ := hh
            exact ⟨appendMap_ext (ext_set (ext_append e1 _) _ _ (by omega)) (by show h.length ≤ o.imap; omega) ha, by omega⟩
          · cases hg
      · cases hg
    | list keys =>
      simp only at hg
      split at hg
      · cases hg
      · split at hg
        · cases hg
        · split at hg
          · simp only [Option.map_eq_some_iff] at hg
            obtain ⟨h3, ha, hh⟩ := hg
            simp only [Option.some.injEq, Except.ok.injEq, Prod.mk.injEq] at hh
            obtain ⟨rfl, rfl⟩ := hh
            exact ⟨appendMap_ext (ext_set e1 _ _ (by omega)) (by omega) ha, by omega⟩
          · cases hg
      · cases hg
    | int i =>
      simp only [Option.map_eq_some_iff] at hg
      obtain ⟨h3, ha, hh⟩ := hg
      simp only [Option.some.injEq, Except.ok.injEq, Prod.mk.injEq] at hh
      obtain ⟨rfl, rfl⟩ := hh
      exact ⟨appendSlice_ext e1 (by omega) ha, by omega⟩
    | slice sl =>
      simp only [Option.map_eq_some_iff] at hg
      obtain ⟨h3, ha, hh⟩ := hg
      simp only [Option.some.injEq, Except.ok.injEq, Prod.mk.injEq] at hh
      obtain ⟨rfl, rfl⟩ := hh
      exact ⟨appendSlice_ext e1 (by omega) ha, by omega⟩
    | cond c =>
      simp only at hg
      split at hg
      · split at hg
        · cases hg
        · split at hg
          · rename_i h2 hf2
            simp only [Option.map_eq_some_iff] at hg
            obtain ⟨h3, ha, hh⟩ := hg
            simp only [Option.some.injEq, Except.ok.injEq, Prod.mk.injEq] at hh
            obtain ⟨rfl, rfl⟩ := hh
            exact ⟨pushMap_ext (appendFilt_ext e1 (by omega) hf2) (by omega) ha, by omega⟩
          · cases hg
      · cases hg
  · cases hg

/-- no source object appears or changes: a source of `h'` is the same source of `h` -/
def NS (h h' : Heap A) : Prop := ∀ (i : Nat) (so : Source A), h'[i]? = some (Obj.source so) → h[i]? = some (Obj.source so)

def NonSrc (x : Obj A) : Prop := ∀ so, x ≠ Obj.source so

theorem ns_append {h hx : Heap A} (e : NS h hx) (l : Heap A) (hl : ∀ x ∈ l, NonSrc x) : NS h (hx ++ l) := by
  intro i so hi
  rcases Nat.lt_or_ge i hx.length with hlt | hge
  · rw [List.getElem?_append_left hlt] at hi; exact e i so hi
  · rw [List.getElem?_append_right hge] at hi
    exact absurd rfl (hl _ (List.mem_of_getElem? hi) so)

theorem ns_set {h hx : Heap A} (e : NS h hx) (i : Nat) (v : Obj A) (hv : NonSrc v) : NS h (hx.set i v) := by
  intro j so hj
  by_cases hij : i = j
  · subst hij
    rw [List.getElem?_set] at hj
    simp only [if_true] at hj
    split at hj
    · simp only [Option.some.injEq] at hj; exact absurd hj (hv so)
    · cases hj
  · rw [List.getElem?_set_ne hij] at hj; exact e j so hj

theorem appendMap_ns {h hx h3 : Heap A} {ref : Nat} {m : MapF} (e : NS h hx)
    (ha : appendMap hx ref m = some h3) : NS h h3 := by
  unfold appendMap at ha
  split at ha
  · cases ha; exact ns_set e _ _ (by intro so; simp)
  · cases ha

theorem pushMap_ns {h hx h3 : Heap A} {ref : Nat} {m : MapF} (e : NS h hx)
    (ha : pushMap hx ref m = some h3) : NS h h3 := by
  unfold pushMap at ha
  split at ha
  · cases ha; exact ns_set e _ _ (by intro so; simp)
  · cases ha

theorem appendFilt_ns {h hx h3 : Heap A} {ref : Nat} {f : Filt A} (e : NS h hx)
    (ha : appendFilt hx ref f = some h3) : NS h h3 := by
  unfold appendFilt at ha
  split at ha
  · cases ha; exact ns_set e _ _ (by intro so; simp)
  · cases ha

theorem appendSlice_ns {h hx h3 : Heap A} {ref : Nat} {s : PSlice} (e : NS h hx)
    (ha : appendSlice hx ref s = some h3) : NS h h3 := by
  unfold appendSlice at ha
  split at ha
  · cases ha; exact ns_set e _ _ (by intro so; simp)
  · cases ha

theorem copyStream_ns {h h1 : Heap A} {r out : Nat} {o : Flds} (hc : copyStream h r = some (h1, out, o)) : NS h h1 := by
  unfold copyStream at hc
  split at hc
  · cases hc
  · split at hc
    · simp only [Option.some.injEq, Prod.mk.injEq] at hc
      obtain ⟨rfl, rfl, rfl⟩ := hc
      exact ns_append (fun _ _ e => e) _ (by
        intro x hx so
        simp only [List.mem_cons, List.not_mem_nil, or_false, Flds.obj] at hx
        rcases hx with rfl | rfl | rfl | rfl | rfl <;> simp)
    · cases hc

/-- `__getitem__` makes no source object and writes to none -/
theorem getitemH_nosrc (lit : List Char → Option A) (h h' : Heap A) (r r' : Nat) (k : Key)
    (hg : getitemH lit h r k = some (.ok (h', r'))) : NS h h' := by
  unfold getitemH at hg
  split at hg
  · rename_i self h1 out o _ hc
    have e1 := copyStream_ns hc
    cases k with
    | str key =>
      simp only at hg
      split at hg
      · cases hg
      · split at hg
        · cases hg
        · split at hg
          · simp only [Option.map_eq_some_iff] at hg
            obtain ⟨h3, ha, hh⟩ := hg
            simp only [Option.some.injEq, Except.ok.injEq, Prod.mk.injEq] at hh
            obtain ⟨rfl, rfl⟩ := hh
            exact appendMap_ns (ns_set (ns_append e1 _ (by intro x hx so; simp only [List.mem_cons, List.not_mem_nil, or_false] at hx; subst hx; simp)) _ _ (by intro so; simp [Flds.obj])) ha
          · cases hg
      · cases hg
    | list keys =>
      simp only at hg
      split at hg
      · cases hg
      · split at hg
        · cases hg
        · split at hg
          · simp only [Option.map_eq_some_iff] at hg
            obtain ⟨h3, ha, hh⟩ := hg
            simp only [Option.some.injEq, Except.ok.injEq, Prod.mk.injEq] at hh
            obtain ⟨rfl, rfl⟩ := hh
            exact appendMap_ns (ns_set e1 _ _ (by intro so; simp)) ha
          · cases hg
      · cases hg
    | int i =>
      simp only [Option.map_eq_some_iff] at hg
      obtain ⟨h3, ha, hh⟩ := hg
      simp only [Option.some.injEq, Except.ok.injEq, Prod.mk.injEq] at hh
      obtain ⟨rfl, rfl⟩ := hh
      exact appendSlice_ns e1 ha
    | slice sl =>
      simp only [Option.map_eq_some_iff] at hg
      obtain ⟨h3, ha, hh⟩ := hg
      simp only [Option.some.injEq, Except.ok.injEq, Prod.mk.injEq] at hh
      obtain ⟨rfl, rfl⟩ := hh
      exact appendSlice_ns e1 ha
    | cond c =>
      simp only at hg
      split at hg
      · split at hg
        · cases hg
        · split at hg
          · rename_i h2 hf2
            simp only [Option.map_eq_some_iff] at hg
            obtain ⟨h3, ha, hh⟩ := hg
            simp only [Option.some.injEq, Except.ok.injEq, Prod.mk.injEq] at hh
            obtain ⟨rfl, rfl⟩ := hh
            exact pushMap_ns (appendFilt_ns e1 hf2) ha
          · cases hg
      · cases hg
  · cases hg

/-- a stream object that could be read before can be read after, and stands for the same record -/
theorem view_ext {h h' : Heap A} (e : Ext h h') (r : Nat) (s : Stream A) (hv : view h r = some s) :
    view h' r = some s := by
  unfold view fldsAt at hv ⊢
  cases hr : h[r]? with
  | none => simp [hr] at hv
  | some x =>
    rw [e r x hr]
    rw [hr] at hv
    cases x with
    | stream a b c d g l q =>
      simp only at hv ⊢
      cases h1 : h[a]? <;> cases h2 : h[b]? <;> cases h3 : h[c]? <;> cases h4 : h[d]? <;> cases h5 : h[g]? <;>
        cases h6 : h[q]? <;> simp only [h1, h2, h3, h4, h5, h6] at hv <;> try (cases hv; done)
      rename_i x1 x2 x3 x4 x5 x6
      rw [e a x1 h1, e b x2 h2, e c x3 h3, e d x4 h4, e g x5 h5, e q x6 h6]
      exact hv
    | source _ => simp at hv
    | tmpl _ => simp at hv
    | filts _ => simp at hv
    | maps _ => simp at hv
    | slices _ => simp at hv

/-- no one-shot iterator among the sources (lists and CSV files only) -/
def Reiterable (h : Heap A) : Prop :=
  ∀ (i : Nat) (l : List (List A)) (c : Bool), h[i]? ≠ some (Obj.source (Source.gen l c))

theorem set_same {α} (l : List α) (i : Nat) (x : α) (e : l[i]? = some x) : l.set i x = l := by
  apply List.ext_getElem?
  intro j
  by_cases hij : i = j
  · subst hij
    rw [List.getElem?_set_self (by
      rcases Nat.lt_or_ge i l.length with hlt | hge
      · exact hlt
      · rw [List.getElem?_eq_none hge] at e; cases e), e]
  · rw [List.getElem?_set_ne hij]

theorem view_some {h : Heap A} {r : Nat} {s : Stream A} (hv : view h r = some s) :
    ∃ f so tv fl ml sl rt, fldsAt h r = some f ∧ h[f.src]? = some (Obj.source so) ∧ h[f.tmpl]? = some (Obj.tmpl tv) ∧
      h[f.ifilter]? = some (Obj.filts fl) ∧ h[f.imap]? = some (Obj.maps ml) ∧ h[f.islice]? = some (Obj.slices sl) ∧
      h[f.root]? = some (Obj.tmpl (.seq rt)) ∧ s = ⟨so.all, rt, tv, fl, ml, sl, f.level⟩ := by
  unfold view at hv
  cases hf : fldsAt h r with
  | none => simp [hf] at hv
  | some f =>
    simp only [hf] at hv
    split at hv
    · rename_i so tv fl ml sl rt e1 e2 e3 e4 e5 e6
      simp only [Option.some.injEq] at hv
      exact ⟨f, so, tv, fl, ml, sl, rt, rfl, e1, e2, e3, e4, e5, e6, hv.symm⟩
    · cases hv

/-- **Re-iterability.**  Over a re-iterable source a complete pass lists `iter` of the record the object stands for
    and leaves the heap exactly as it was — so a second pass, now or after any other event, lists the same rows. -/
theorem iterH_reiterable (cmp : Op → A → A → Bool) (h : Heap A) (r : Nat) (s : Stream A) (hre : Reiterable h)
    (hv : view h r = some s) : iterH cmp h r = some (iter cmp s, h) := by
  obtain ⟨f, so, tv, fl, ml, sl, rt, hf, e1, e2, e3, e4, e5, e6, rfl⟩ := view_some hv
  unfold iterH
  rw [hv, hf]
  simp only [e1]
  cases so with
  | gen l c => exact absurd e1 (hre _ l c)
  | rows l => simp only [drain, set_same h f.src _ e1, Source.all]
  | csv l => simp only [drain, set_same h f.src _ e1, Source.all]

/-- without that hypothesis the clause is false: a one-shot source is drained by the first pass -/
theorem iterH_generator_consumed (cmp : Op → A → A → Bool) (row : List A) :
    ∃ h1 h2, iterH cmp (mkHeap (.gen [row] false) ⟨[], [], []⟩ true) 5 = some (.ok [.row row], h1) ∧
      iterH cmp h1 5 = some (.ok [], h2) := ⟨_, _, rfl, rfl⟩

theorem get_app {α} (h l : List α) (k : Nat) : (h ++ l)[h.length + k]? = l[k]? := by
  rw [List.getElem?_append_right (by omega)]; congr 1; omega

theorem get_app0 {α} (h l : List α) : (h ++ l)[h.length]? = l[0]? := get_app h l 0

theorem get_old {h : Heap A} {i : Nat} {x : Obj A} (e : h[i]? = some x) (l : Heap A) : (h ++ l)[i]? = some x :=
  ext_append (Ext.refl h) l i x e

theorem copyStream_eq {h : Heap A} {r : Nat} {f : Flds} {tv : Tmpl} {fl : List (Filt A)} {ml : List MapF}
    {sl : List PSlice} (hf : fldsAt h r = some f) (e2 : h[f.tmpl]? = some (Obj.tmpl tv))
    (e3 : h[f.ifilter]? = some (Obj.filts fl)) (e4 : h[f.imap]? = some (Obj.maps ml))
    (e5 : h[f.islice]? = some (Obj.slices sl)) :
    copyStream h r = some (h ++ [Obj.tmpl tv, Obj.filts fl, Obj.maps ml, Obj.slices sl,
        (⟨f.src, h.length, h.length + 1, h.length + 2, h.length + 3, f.level, f.root⟩ : Flds).obj], h.length + 4,
      ⟨f.src, h.length, h.length + 1, h.length + 2, h.length + 3, f.level, f.root⟩) := by
  unfold copyStream
  simp only [hf, e2, e3, e4, e5]

/-- reading a stream object whose seven references are resolved -/
theorem view_of {h : Heap A} {r : Nat} {g : Flds} {so : Source A} {tv : Tmpl} {fl : List (Filt A)} {ml : List MapF}
    {sl : List PSlice} {rt : SeqT} (h0 : h[r]? = some g.obj) (e1 : h[g.src]? = some (Obj.source so))
    (e2 : h[g.tmpl]? = some (Obj.tmpl tv)) (e3 : h[g.ifilter]? = some (Obj.filts fl))
    (e4 : h[g.imap]? = some (Obj.maps ml)) (e5 : h[g.islice]? = some (Obj.slices sl))
    (e6 : h[g.root]? = some (Obj.tmpl (.seq rt))) :
    view h r = some ⟨so.all, rt, tv, fl, ml, sl, g.level⟩ := by
  unfold view fldsAt
  simp only [h0, Flds.obj, e1, e2, e3, e4, e5, e6]

/-- the refinement step over an abstract heap `H1` = the heap after `__copy__` -/
theorem refines_core (lit : List Char → Option A) (h H1 : Heap A) (r n : Nat) (f : Flds) (so : Source A) (tv : Tmpl)
    (fl : List (Filt A)) (ml : List MapF) (sl : List PSlice) (rt : SeqT) (k : Key)
    (hf : fldsAt h r = some f)
    (hc : copyStream h r = some (H1, n + 4, ⟨f.src, n, n + 1, n + 2, n + 3, f.level, f.root⟩))
    (l1 : f.src < n) (l2 : f.tmpl < n) (l6 : f.root < n) (hlen : H1.length = n + 5)
    (n0 : H1[n]? = some (Obj.tmpl tv)) (n1 : H1[n + 1]? = some (Obj.filts fl)) (n2 : H1[n + 2]? = some (Obj.maps ml))
    (n3 : H1[n + 3]? = some (Obj.slices sl))
    (n4 : H1[n + 4]? = some (Flds.obj ⟨f.src, n, n + 1, n + 2, n + 3, f.level, f.root⟩))
    (o1 : H1[f.src]? = some (Obj.source so)) (o2 : H1[f.tmpl]? = some (Obj.tmpl tv))
    (o6 : H1[f.root]? = some (Obj.tmpl (.seq rt))) :
    match getitem lit ⟨so.all, rt, tv, fl, ml, sl, f.level⟩ k with
    | .error e => getitemH lit h r k = some (.error e)
    | .ok s' => ∃ h' r', getitemH lit h r k = some (.ok (h', r')) ∧ view h' r' = some s' := by
  cases k with
  | int i =>
    simp only [getitem]
    refine ⟨H1.set (n + 3) (Obj.slices (sl ++ [⟨some i, some (i + 1), none⟩])), n + 4, ?_, ?_⟩
    · unfold getitemH
      simp only [hf, hc, appendSlice, n3, Option.map_some]
    · exact view_of (g := ⟨f.src, n, n + 1, n + 2, n + 3, f.level, f.root⟩)
        (by rw [List.getElem?_set_ne (by omega)]; exact n4)
        (by rw [List.getElem?_set_ne (by simp only; omega)]; exact o1)
        (by rw [List.getElem?_set_ne (by simp only; omega)]; exact n0)
        (by rw [List.getElem?_set_ne (by simp only; omega)]; exact n1)
        (by rw [List.getElem?_set_ne (by simp only; omega)]; exact n2)
        (by rw [List.getElem?_set_self (by omega)])
        (by rw [List.getElem?_set_ne (by simp only; omega)]; exact o6)
  | slice sl' =>
    simp only [getitem]
    refine ⟨H1.set (n + 3) (Obj.slices (sl ++ [sl'])), n + 4, ?_, ?_⟩
    · unfold getitemH
      simp only [hf, hc, appendSlice, n3, Option.map_some]
    · exact view_of (g := ⟨f.src, n, n + 1, n + 2, n + 3, f.level, f.root⟩)
        (by rw [List.getElem?_set_ne (by omega)]; exact n4)
        (by rw [List.getElem?_set_ne (by simp only; omega)]; exact o1)
        (by rw [List.getElem?_set_ne (by simp only; omega)]; exact n0)
        (by rw [List.getElem?_set_ne (by simp only; omega)]; exact n1)
        (by rw [List.getElem?_set_ne (by simp only; omega)]; exact n2)
        (by rw [List.getElem?_set_self (by omega)])
        (by rw [List.getElem?_set_ne (by simp only; omega)]; exact o6)
  | cond c =>
    simp only [getitem]
    cases hb : buildFilter lit c rt with
    | error e =>
      simp only [bind, Except.bind]
      unfold getitemH
      simp only [hf, hc, tmplAt, o6, hb]
    | ok p =>
      obtain ⟨fi, m⟩ := p
      simp only [bind, Except.bind, pure, Except.pure]
      refine ⟨(H1.set (n + 1) (Obj.filts (fl ++ [fi]))).set (n + 2) (Obj.maps (m :: ml)), n + 4, ?_, ?_⟩
      · unfold getitemH
        have : (H1.set (n + 1) (Obj.filts (fl ++ [fi])))[n + 2]? = some (Obj.maps ml) := by
          rw [List.getElem?_set_ne (by omega)]; exact n2
        simp only [hf, hc, tmplAt, o6, hb, appendFilt, n1, pushMap, this, Option.map_some]
      · exact view_of (g := ⟨f.src, n, n + 1, n + 2, n + 3, f.level, f.root⟩)
          (by rw [List.getElem?_set_ne (by omega), List.getElem?_set_ne (by omega)]; exact n4)
          (by rw [List.getElem?_set_ne (by simp only; omega), List.getElem?_set_ne (by simp only; omega)]; exact o1)
          (by rw [List.getElem?_set_ne (by simp only; omega), List.getElem?_set_ne (by simp only; omega)]; exact n0)
          (by rw [List.getElem?_set_ne (by simp only; omega), List.getElem?_set_self (by omega)])
          (by rw [List.getElem?_set_self (by simp only [List.length_set]; omega)])
          (by rw [List.getElem?_set_ne (by simp only; omega), List.getElem?_set_ne (by simp only; omega)]; exact n3)
          (by rw [List.getElem?_set_ne (by simp only; omega), List.getElem?_set_ne (by simp only; omega)]; exact o6)
  | list keys =>
    simp only [getitem]
    cases tv with
    | base b =>
      simp only
      unfold getitemH
      simp only [hf, hc, tmplAt, o2]
    | seq t =>
      simp only
      cases hm : keys.mapM (indexOf? t.visible) with
      | none =>
        simp only
        unfold getitemH
        simp only [hf, hc, tmplAt, o2, hm]
      | some cols =>
        simp only
        refine ⟨(H1.set n (Obj.tmpl (.seq { t with visible := keys }))).set (n + 2)
          (Obj.maps (ml ++ [MapF.proj cols (f.level + 1)])), n + 4, ?_, ?_⟩
        · unfold getitemH
          have : (H1.set n (Obj.tmpl (.seq { t with visible := keys })))[n + 2]? = some (Obj.maps ml) := by
            rw [List.getElem?_set_ne (by omega)]; exact n2
          simp only [hf, hc, tmplAt, o2, hm, n0, appendMap, this, Option.map_some]
        · exact view_of (g := ⟨f.src, n, n + 1, n + 2, n + 3, f.level, f.root⟩)
            (by rw [List.getElem?_set_ne (by omega), List.getElem?_set_ne (by omega)]; exact n4)
            (by rw [List.getElem?_set_ne (by simp only; omega), List.getElem?_set_ne (by simp only; omega)]; exact o1)
            (by rw [List.getElem?_set_ne (by simp only; omega), List.getElem?_set_self (by omega)])
            (by rw [List.getElem?_set_ne (by simp only; omega), List.getElem?_set_ne (by simp only; omega)]; exact n1)
            (by rw [List.getElem?_set_self (by simp only [List.length_set]; omega)])
            (by rw [List.getElem?_set_ne (by simp only; omega), List.getElem?_set_ne (by simp only; omega)]; exact n3)
            (by rw [List.getElem?_set_ne (by simp only; omega), List.getElem?_set_ne (by simp only; omega)]; exact o6)
  | str key =>
    simp only [getitem]
    cases tv with
    | base b =>
      simp only
      unfold getitemH
      simp only [hf, hc, tmplAt, o2]
    | seq t =>
      simp only
      cases hi : indexOf? t.visible key with
      | none =>
        simp only
        unfold getitemH
        simp only [hf, hc, tmplAt, o2, hi]
      | some col =>
        simp only
        have c5 : (H1 ++ [Obj.tmpl (.base (t.id ++ '.' :: key))])[n + 5]? = some (Obj.tmpl (.base (t.id ++ '.' :: key))) := by
          have := get_app0 H1 [Obj.tmpl (.base (t.id ++ '.' :: key))]
          rw [hlen] at this; exact this
        have old : ∀ i, i < n + 5 → (H1 ++ [Obj.tmpl (.base (t.id ++ '.' :: key))])[i]? = H1[i]? := by
          intro i hi'; exact List.getElem?_append_left (by omega)
        refine ⟨(((H1 ++ [Obj.tmpl (.base (t.id ++ '.' :: key))]).set (n + 4)
            (Flds.obj ⟨f.src, n + 5, n + 1, n + 2, n + 3, f.level + 1, f.root⟩))).set (n + 2)
              (Obj.maps (ml ++ [MapF.item col (f.level + 1)])), n + 4, ?_, ?_⟩
        · unfold getitemH
          have : (((H1 ++ [Obj.tmpl (.base (t.id ++ '.' :: key))]).set (n + 4)
              (Flds.obj ⟨f.src, n + 5, n + 1, n + 2, n + 3, f.level + 1, f.root⟩)))[n + 2]? = some (Obj.maps ml) := by
            rw [List.getElem?_set_ne (by omega), old _ (by omega)]; exact n2
          simp only [hf, hc, tmplAt, o2, hi, n0, hlen, appendMap, this, Option.map_some]
        · have len2 : (H1 ++ [Obj.tmpl (.base (t.id ++ '.' :: key))]).length = n + 6 := by simp [hlen]
          exact view_of (g := ⟨f.src, n + 5, n + 1, n + 2, n + 3, f.level + 1, f.root⟩)
            (by rw [List.getElem?_set_ne (by omega), List.getElem?_set_self (by omega)])
            (by rw [List.getElem?_set_ne (by simp only; omega), List.getElem?_set_ne (by simp only; omega),
                  old _ (by simp only; omega)]; exact o1)
            (by rw [List.getElem?_set_ne (by simp only; omega), List.getElem?_set_ne (by simp only; omega)]; exact c5)
            (by rw [List.getElem?_set_ne (by simp only; omega), List.getElem?_set_ne (by simp only; omega),
                  old _ (by simp only; omega)]; exact n1)
            (by rw [List.getElem?_set_self (by simp only [List.length_set]; omega)])
            (by rw [List.getElem?_set_ne (by simp only; omega), List.getElem?_set_ne (by simp only; omega),
                  old _ (by simp only; omega)]; exact n3)
            (by rw [List.getElem?_set_ne (by simp only; omega), List.getElem?_set_ne (by simp only; omega),
                  old _ (by simp only; omega)]; exact o6)

/-- **`__getitem__` on objects refines `getitem` on records.**  If the stream object `r` stands for the record `s`,
    then the step raises exactly when `getitem lit s k` fails, with the same exception class, and otherwise returns an
    object that stands for the record `getitem lit s k` returns. -/
theorem getitemH_refines (lit : List Char → Option A) (h : Heap A) (r : Nat) (s : Stream A) (k : Key)
    (hv : view h r = some s) :
    match getitem lit s k with
    | .error e => getitemH lit h r k = some (.error e)
    | .ok s' => ∃ h' r', getitemH lit h r k = some (.ok (h', r')) ∧ view h' r' = some s' := by
  obtain ⟨f, so, tv, fl, ml, sl, rt, hf, e1, e2, e3, e4, e5, e6, rfl⟩ := view_some hv
  have hc := copyStream_eq hf e2 e3 e4 e5
  have n0 := get_app0 h [Obj.tmpl tv, Obj.filts fl, Obj.maps ml, Obj.slices sl,
        (⟨f.src, h.length, h.length + 1, h.length + 2, h.length + 3, f.level, f.root⟩ : Flds).obj (A := A)]
  have n1 := get_app h [Obj.tmpl tv, Obj.filts fl, Obj.maps ml, Obj.slices sl,
        (⟨f.src, h.length, h.length + 1, h.length + 2, h.length + 3, f.level, f.root⟩ : Flds).obj (A := A)] 1
  have n2 := get_app h [Obj.tmpl tv, Obj.filts fl, Obj.maps ml, Obj.slices sl,
        (⟨f.src, h.length, h.length + 1, h.length + 2, h.length + 3, f.level, f.root⟩ : Flds).obj (A := A)] 2
  have n3 := get_app h [Obj.tmpl tv, Obj.filts fl, Obj.maps ml, Obj.slices sl,
        (⟨f.src, h.length, h.length + 1, h.length + 2, h.length + 3, f.level, f.root⟩ : Flds).obj (A := A)] 3
  have n4 := get_app h [Obj.tmpl tv, Obj.filts fl, Obj.maps ml, Obj.slices sl,
        (⟨f.src, h.length, h.length + 1, h.length + 2, h.length + 3, f.level, f.root⟩ : Flds).obj (A := A)] 4
  simp only [List.getElem?_cons_zero, List.getElem?_cons_succ] at n0 n1 n2 n3 n4
  exact refines_core lit h _ r h.length f so tv fl ml sl rt k hf hc (lt_of_get e1) (lt_of_get e2) (lt_of_get e6)
    (by simp) n0 n1 n2 n3 n4 (get_old e1 _) (get_old e2 _) (get_old e6 _)

theorem reiterable_of_ns {h h' : Heap A} (e : NS h h') (hr : Reiterable h) : Reiterable h' :=
  fun i l c hi => hr i l c (e i _ hi)

/-- **Histories.**  Any interleaving of steps on any of the streams made so far and of complete passes over any of
    them, from any heap without one-shot sources: nothing that existed is changed, handles are only added, and no
    one-shot source appears. -/
theorem runHist_stable (lit : List Char → Option A) (cmp : Op → A → A → Bool) :
    ∀ (cmds : List Cmd) (h : Heap A) (hs : List Nat) (h' : Heap A) (hs' : List Nat), Reiterable h →
      runHist lit cmp h hs cmds = some (h', hs') → Ext h h' ∧ hs <+: hs' ∧ Reiterable h'
  | [], h, hs, h', hs', hre, hrun => by
    simp only [runHist, Option.some.injEq, Prod.mk.injEq] at hrun
    obtain ⟨rfl, rfl⟩ := hrun
    exact ⟨Ext.refl _, List.prefix_refl _, hre⟩
  | .step t k :: rest, h, hs, h', hs', hre, hrun => by
    simp only [runHist] at hrun
    split at hrun
    · cases hrun
    · rename_i r _
      split at hrun
      · cases hrun
      · exact runHist_stable lit cmp rest h hs h' hs' hre hrun
      · rename_i h1 r1 hg
        obtain ⟨e1, p1, re1⟩ := runHist_stable lit cmp rest h1 (hs ++ [r1]) h' hs'
          (reiterable_of_ns (getitemH_nosrc lit h h1 r r1 k hg) hre) hrun
        exact ⟨(getitemH_frame lit h h1 r r1 k hg).1.trans e1, (List.prefix_append hs [r1]).trans p1, re1⟩
  | .pass t :: rest, h, hs, h', hs', hre, hrun => by
    simp only [runHist] at hrun
    split at hrun
    · cases hrun
    · rename_i r _
      split at hrun
      · cases hrun
      · rename_i x h1 hi
        have : h1 = h := by
          cases hv : view h r with
          | none => unfold iterH at hi; simp [hv] at hi
          | some s =>
            rw [iterH_reiterable cmp h r s hre hv] at hi
            simp only [Option.some.injEq, Prod.mk.injEq] at hi
            exact hi.2.symm
        subst this
        exact runHist_stable lit cmp rest h1 hs h' hs' hre hrun

end Pydap.IterHeap
