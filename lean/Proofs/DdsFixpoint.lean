import Proofs.DdsRoundtrip
namespace Pydap.Dds
open Pydap

/-! ### fixpoint: printing the normal form -/

/-- a base variable below `sq` sequences declares nothing but its columns -/
def ColsB (b : BaseV) (sq : Nat) : Prop := sq = 0 ∨ b.shape.length ≤ sq

theorem lookup_nil_none : lookup Gen.NUMPY_TO_DAP2_TYPEMAP [] = none := by decide

theorem zip_map_fst_snd {α β} (z : List (α × β)) : (z.map (·.1)).zip (z.map (·.2)) = z := by
  induction z with
  | nil => rfl
  | cons p ps ih => simp [ih]

theorem shapeText_norm (b : BaseV) (sq : Nat) (h : ColsB b sq) :
    shapeText (normBase b sq) sq = shapeText b sq := by
  rcases h with h | h
  · subst h
    unfold normBase shapeText
    simp only [List.drop_zero]
    by_cases h1 : b.dims ≠ []
    · rw [if_pos h1, if_pos h1]
      simp only
      generalize b.dims.zip b.shape = z
      cases z with
      | nil => simp
      | cons p ps =>
        rw [if_pos (by simp)]
        rw [zip_map_fst_snd]
    · rw [if_neg h1, if_neg h1]
      by_cases h2 : b.shape.length = 1
      · rw [if_pos h2, if_pos h2]
        simp only
        match hs : b.shape, h2 with
        | [n], _ => simp
      · rw [if_neg h2, if_neg h2]
        simp only [ne_eq, not_true_eq_false, if_false, h2]
  · have hd : b.shape.drop sq = [] := List.drop_eq_nil_of_le h
    unfold normBase shapeText
    simp only [hd, List.zip_nil_right, List.map_nil, List.length_nil, List.drop_nil, List.flatMap_nil]
    by_cases h1 : b.dims ≠ []
    · rw [if_pos h1, if_pos h1]; simp
    · rw [if_neg h1, if_neg h1]; simp

theorem printBase_norm (b : BaseV) (level sq : Nat) (h : ColsB b sq) :
    printBase (normBase b sq) level sq = printBase b level sq := by
  have hn : (normBase b sq).name = b.name := by rw [normBase_entries]
  have hd : (normBase b sq).dt = normTy b.dt := by rw [normBase_entries]
  unfold printBase
  rw [shapeText_norm b sq h, hn, hd]
  cases hl : lookup Gen.NUMPY_TO_DAP2_TYPEMAP (dtypeChar b.dt) with
  | none =>
    have : normTy b.dt = [] := by simp [normTy, hl]
    rw [this]
    have : dtypeChar [] = [] := by decide
    rw [this, lookup_nil_none]
  | some ty =>
    obtain ⟨dt, tf⟩ := tyFacts _ _ hl
    have : normTy b.dt = dt := by simp [normTy, hl, tf.parser]
    rw [this, tf.back]

theorem printBases_norm (bs : List BaseV) (level sq : Nat) (h : ∀ b ∈ bs, ColsB b sq) :
    printBases (bs.map fun b => normBase b sq) level sq = printBases bs level sq := by
  induction bs with
  | nil => rfl
  | cons b bs ih =>
    simp only [List.map_cons, printBases]
    rw [printBase_norm b level sq (h b (by simp)), ih (fun x hx => h x (by simp [hx]))]

mutual
def ColsT : Tmpl → Nat → Prop
  | .base b, sq => ColsB b sq
  | .struct _ kids, sq => ColsL kids sq
  | .seq _ kids, sq => ColsL kids (sq + 1)
  | .grid _ kids, sq => ∀ b ∈ kids, ColsB b sq
def ColsL : List Tmpl → Nat → Prop
  | [], _ => True
  | t :: ts, sq => ColsT t sq ∧ ColsL ts sq
end

mutual
theorem printT_norm : (t : Tmpl) → (level sq : Nat) → ColsT t sq → printT (normT t sq) level sq = printT t level sq
  | .base b, level, sq, h => by
    simp only [ColsT] at h
    simp only [normT, printT, printBase_norm b level sq h]
  | .struct n kids, level, sq, h => by
    simp only [ColsT] at h
    simp only [normT, printT, printL_norm kids (level + 1) sq h]
  | .seq n kids, level, sq, h => by
    simp only [ColsT] at h
    simp only [normT, printT, printL_norm kids (level + 1) (sq + 1) h]
  | .grid n kids, level, sq, h => by
    simp only [ColsT] at h
    simp only [normT, printT]
    unfold printGrid
    cases kids with
    | nil => rfl
    | cons a maps =>
      simp only [List.map_cons]
      rw [printBase_norm a (level + 2) sq (h a (by simp)),
        printBases_norm maps (level + 2) sq (fun x hx => h x (by simp [hx]))]
theorem printL_norm : (ts : List Tmpl) → (level sq : Nat) → ColsL ts sq → printL (normL ts sq) level sq = printL ts level sq
  | [], level, sq, h => by simp [normL]
  | t :: ts, level, sq, h => by
    simp only [ColsL] at h
    simp only [normL, printL, printT_norm t level sq h.1, printL_norm ts level sq h.2]
end

theorem printDs_norm (d : Dataset) (h : ColsL d.kids 0) : printDs (normDs d) = printDs d := by
  simp only [printDs, normDs, printL_norm d.kids 1 0 h]

/-- array member of a sequence: the witness of the open finding -/
def seqArrayWitness : Dataset :=
  ⟨['d'], [.seq ['Q'] [.base ⟨['i'], ['h'], [5, 3], []⟩]]⟩

theorem intText_3 : intText 3 = ['3'] := by
  simp [intText, natDigits, digitChar]

theorem seqArrayWitness_not_fixpoint : printDs (normDs seqArrayWitness) ≠ printDs seqArrayWitness := by
  have l1 : lookup Gen.NUMPY_TO_DAP2_TYPEMAP (dtypeChar ['h']) = some "Int16".toList := by decide
  have l2 : normTy ['h'] = ['>', 'h'] := by decide
  have l3 : lookup Gen.NUMPY_TO_DAP2_TYPEMAP (dtypeChar ['>', 'h']) = some "Int16".toList := by decide
  have h1 : printDs seqArrayWitness = .ok "Dataset {\n    Sequence {\n        Int16 i[i = 3];\n    } Q;\n} d;\n".toList := by
    simp [seqArrayWitness, printDs, printL, printT, printBase, shapeText, dimText, intText_3, closeText, indent, l1]
  have h2 : printDs (normDs seqArrayWitness) = .ok "Dataset {\n    Sequence {\n        Int16 i;\n    } Q;\n} d;\n".toList := by
    simp [seqArrayWitness, normDs, normL, normT, normBase, printDs, printL, printT, printBase, shapeText, closeText, indent, l2, l3]
  rw [h1, h2]
  intro h
  have := Except.ok.inj h
  revert this
  decide

theorem seqArrayWitness_wf : WFds seqArrayWitness := by
  simp [WFds, seqArrayWitness, WFL, WFT, BaseOk, NameOk, Tmpl.name]
  decide

end Pydap.Dds
