import Proofs.DdsRoundtrip
namespace Pydap.Dds
open Pydap

/-! ### fixpoint: printing the normal form (every tree, no guard)

`normBase` yields a variable without data (`nodata = true`) whose shape is the declared shape
(`effShape b sq`); the printer does not strip record axes from such a variable, so it prints the same
declaration again. -/

theorem lookup_nil_none : lookup Gen.NUMPY_TO_DAP2_TYPEMAP [] = none := by decide

theorem zip_map_fst_snd {α β} (z : List (α × β)) : (z.map (·.1)).zip (z.map (·.2)) = z := by
  induction z with
  | nil => rfl
  | cons p ps ih => simp [ih]

theorem normBase_nodata (b : BaseV) (sq : Nat) : (normBase b sq).nodata = true := by
  rw [normBase_entries]

theorem effShape_nodata (b : BaseV) (sq : Nat) (h : b.nodata = true) : effShape b sq = b.shape := by
  simp [effShape, h]

theorem effShape_zero (b : BaseV) : effShape b 0 = b.shape := by
  simp [effShape]

theorem shapeText_norm (b : BaseV) (sq : Nat) : shapeText (normBase b sq) sq = shapeText b sq := by
  unfold shapeText
  rw [effShape_nodata _ sq (normBase_nodata b sq)]
  unfold normBase
  simp only
  generalize effShape b sq = sh
  by_cases h1 : b.dims ≠ []
  · rw [if_pos h1, if_pos h1]
    simp only
    generalize b.dims.zip sh = z
    cases z with
    | nil => simp
    | cons p ps =>
      rw [if_pos (by simp)]
      rw [zip_map_fst_snd]
  · rw [if_neg h1, if_neg h1]
    by_cases h2 : sh.length = 1
    · rw [if_pos h2, if_pos h2]
      simp only
      match sh, h2 with
      | [n], _ => simp
    · rw [if_neg h2, if_neg h2]
      simp only [ne_eq, not_true_eq_false, if_false]

theorem printBase_norm (b : BaseV) (level sq : Nat) :
    printBase (normBase b sq) level sq = printBase b level sq := by
  have hn : (normBase b sq).name = b.name := by rw [normBase_entries]
  have hd : (normBase b sq).dt = normTy b.dt := by rw [normBase_entries]
  unfold printBase
  rw [shapeText_norm b sq, hn, hd]
  cases hl : lookup Gen.NUMPY_TO_DAP2_TYPEMAP (dtypeChar b.dt) with
  | none =>
    have : normTy b.dt = [] := by simp [normTy, hl]
    rw [this]
    have : dtypeChar [] = [] := by decide
    rw [this, lookup_nil_none]
  | some ty =>
    obtain ⟨dt, tf⟩ := tyFacts _ _ hl
    have : normTy b.dt = dt := by simp [normTy, hl, tf.parser]
    rw [this, tf.back]

theorem printBases_norm (bs : List BaseV) (level sq : Nat) :
    printBases (bs.map fun b => normBase b sq) level sq = printBases bs level sq := by
  induction bs with
  | nil => rfl
  | cons b bs ih =>
    simp only [List.map_cons, printBases]
    rw [printBase_norm b level sq, ih]

mutual
theorem printT_norm : (t : Tmpl) → (level sq : Nat) → printT (normT t sq) level sq = printT t level sq
  | .base b, level, sq => by
    simp only [normT, printT, printBase_norm b level sq]
  | .struct n kids, level, sq => by
    simp only [normT, printT, printL_norm kids (level + 1) sq]
  | .seq n kids, level, sq => by
    simp only [normT, printT, printL_norm kids (level + 1) (sq + 1)]
  | .grid n kids, level, sq => by
    simp only [normT, printT]
    unfold printGrid
    cases kids with
    | nil => rfl
    | cons a maps =>
      simp only [List.map_cons]
      rw [printBase_norm a (level + 2) sq, printBases_norm maps (level + 2) sq]
theorem printL_norm : (ts : List Tmpl) → (level sq : Nat) → printL (normL ts sq) level sq = printL ts level sq
  | [], level, sq => by simp [normL]
  | t :: ts, level, sq => by
    simp only [normL, printL, printT_norm t level sq, printL_norm ts level sq]
end

theorem printDs_norm (d : Dataset) : printDs (normDs d) = printDs d := by
  simp only [printDs, normDs, printL_norm d.kids 1 0]

/-- array member of a sequence that holds data (5 records of 3 values): the witness of the former finding
    `C07.sequence_array_member.fixpoint` (fixed in b7ad9b3) -/
def seqArrayWitness : Dataset :=
  ⟨['d'], [.seq ['Q'] [.base ⟨['i'], ['h'], [5, 3], [], false⟩]]⟩

theorem intText_3 : intText 3 = ['3'] := by
  simp [intText, natDigits, digitChar]

theorem seqArrayWitness_prints :
    printDs seqArrayWitness = .ok "Dataset {\n    Sequence {\n        Int16 i[i = 3];\n    } Q;\n} d;\n".toList := by
  have l1 : lookup Gen.NUMPY_TO_DAP2_TYPEMAP (dtypeChar ['h']) = some "Int16".toList := by decide
  simp [seqArrayWitness, printDs, printL, printT, printBase, shapeText, effShape, dimText, intText_3, closeText,
    indent, l1]

/-- what the witness parses to: the declared shape `(3,)`, no data -/
theorem seqArrayWitness_norm :
    normDs seqArrayWitness = ⟨['d'], [.seq ['Q'] [.base ⟨['i'], ['>', 'h'], [3], [['i']], true⟩]]⟩ := by
  have l2 : normTy ['h'] = ['>', 'h'] := by decide
  simp [seqArrayWitness, normDs, normL, normT, normBase, effShape, l2]

theorem seqArrayWitness_wf : WFds seqArrayWitness := by
  simp [WFds, seqArrayWitness, WFL, WFT, BaseOk, NameOk, Tmpl.name]
  decide

end Pydap.Dds
