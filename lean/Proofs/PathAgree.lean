import PydapModel.Path
import PydapModel.PathRe
import Proofs.PathServe
import Proofs.PathRe
/-
  C16 — the listing's `supported` flag and the routing of `<entry>.<response>` decide the same thing: an entry is
  offered as a dataset iff a request for `<entry>.dds` is handed to a handler (for that very file).
-/
namespace Pydap.Path

/-- the files a listing shows, with their `supported` flags -/
def Outcome.files : Outcome → List (Seg × Bool)
  | .listing _ _ fs _ => fs
  | _ => []

theorem basename_snoc (d : Segs) (x : Seg) : basename (d ++ [x]) = x := by simp [basename]
theorem dirname_snoc (d : Segs) (x : Seg) : dirname (d ++ [x]) = d := by simp [dirname]

theorem splitextSeg_append (e r : Seg) (hr : '.' ∉ r) (he : e.all (· = '.') = false) :
    splitextSeg (e ++ '.' :: r) = (e, '.' :: r) := by
  have hrev : (e ++ '.' :: r).reverse = r.reverse ++ '.' :: e.reverse := by simp
  have htw : (r.reverse ++ '.' :: e.reverse).takeWhile (· ≠ '.') = r.reverse := by
    rw [List.takeWhile_append_of_pos]
    · simp
    · intro a ha
      have : a ∈ r := List.mem_reverse.mp ha
      simp only [ne_eq, decide_not, Bool.not_eq_eq_eq_not, Bool.not_true, decide_eq_false_iff_not]
      intro h; exact hr (h ▸ this)
  unfold splitextSeg
  simp only [hrev, htw, List.drop_left']
  have hall : (e.reverse).all (· = '.') = false := by
    rw [List.all_reverse]; exact he
  simp [hall]

theorem stripExt_snoc (d : Segs) (x : Seg) : stripExt (d ++ [x]) = d ++ [(splitextSeg x).1] := by
  simp [stripExt]

/-- a name that ends in a dot and a non-empty, dot-free extension does not consist of dots only -/
theorem not_all_dots_of_ext (e x : Seg) (hx : x ≠ []) (hxd : '.' ∉ x) (h : endsWith (lower e) ('.' :: x) = true) :
    e.all (· = '.') = false := by
  rw [endsWith_iff_suffix] at h
  obtain ⟨m, hm⟩ := h
  cases x with
  | nil => exact absurd rfl hx
  | cons c t =>
    have hc : c ≠ '.' := by intro h; exact hxd (by simp [h])
    have hmem : c ∈ lower e := by rw [← hm]; simp
    obtain ⟨c0, hc0, hl⟩ := List.mem_map.mp hmem
    cases hall : e.all (· = '.') with
    | false => rfl
    | true =>
      have := (List.all_eq_true.mp hall) c0 hc0
      simp only [decide_eq_true_eq] at this
      subst this
      rw [lowerChar_dot] at hl
      exact absurd hl.symm hc

theorem mem_index_files (exts : List Seg) (fs : FS) (cat : Bool) (d : Segs) (es : List Seg) (e : Seg) (b : Bool) :
    (e, b) ∈ (index exts fs cat d es).2.files ↔
      e ∈ es ∧ (fs (d ++ [e])).isFile = true ∧ b = hasHandler exts (d ++ [e]) := by
  simp only [index, Outcome.files, List.mem_map, Prod.mk.injEq]
  constructor
  · rintro ⟨x, hx, rfl, rfl⟩
    have := (sortNames_perm _).mem_iff.mp hx
    simp only [List.mem_filter] at this
    exact ⟨this.1, this.2, rfl⟩
  · rintro ⟨h1, h2, rfl⟩
    exact ⟨e, (sortNames_perm _).mem_iff.mpr (List.mem_filter.mpr ⟨h1, h2⟩), rfl, rfl⟩

theorem catalog_ne_of_ext (e r : Seg) (hne : e ++ '.' :: r ≠ catalogName) (d : Segs) :
    basename (d ++ [e ++ '.' :: r]) ≠ catalogName := by
  rw [basename_snoc]; exact hne

/-- routing of `<d>/<e>.<r>` when `<d>/<e>` is a file and nothing is literally called `<e>.<r>` -/
theorem route_entry_response (exts : List Seg) (fs : FS) (root d : Segs) (e r : Seg)
    (hexts : ∀ x ∈ exts, x ≠ [] ∧ '.' ∉ x ∧ '/' ∉ x)
    (hfile : fs (d ++ [e]) = .file)
    (hin : contained root (d ++ [e ++ '.' :: r]) = true)
    (hmiss : fs (d ++ [e ++ '.' :: r]) = .missing)
    (hr : '.' ∉ r) (hcat : e ++ '.' :: r ≠ catalogName) :
    hasHandler exts (d ++ [e]) = true ↔ (serveAt exts fs root (d ++ [e ++ '.' :: r])).2 = .dap (d ++ [e]) := by
  rw [serveAt_missing exts fs root _ hin hmiss (Or.inl (catalog_ne_of_ext e r hcat d))]
  constructor
  · intro hh
    have hb := hasHandler_basename exts d e (fun x hx => (hexts x hx).2.2)
    rw [hb, List.any_eq_true] at hh
    obtain ⟨x, hx, hend⟩ := hh
    have hnd := not_all_dots_of_ext e x (hexts x hx).1 (hexts x hx).2.1 hend
    have hs : stripExt (d ++ [e ++ '.' :: r]) = d ++ [e] := by
      rw [stripExt_snoc, splitextSeg_append e r hr hnd]
    have hh' : hasHandler exts (d ++ [e]) = true := by
      rw [hb, List.any_eq_true]; exact ⟨x, hx, hend⟩
    simp [serveDap, hs, hfile, Node.isFile, hh']
  · intro ho
    have hc := serveDap_complete exts fs (d ++ [e ++ '.' :: r]) hmiss
    unfold Complete at hc
    rw [ho] at hc
    rcases hc with h | h | h | h | h | h | h
    · cases h
    · cases h
    · cases h.1
    · obtain ⟨_, _, _, h, _⟩ := h; cases h
    · obtain ⟨_, _, _, h, _⟩ := h; cases h
    · obtain ⟨h1, _, h3, _⟩ := h
      injection h1 with h1
      rw [← h1] at h3; exact h3
    · cases h.1

end Pydap.Path
