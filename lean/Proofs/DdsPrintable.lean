import Proofs.DdsQuote
namespace Pydap.Dds
open Pydap

/-! ### the printer succeeds exactly on trees whose dtypes are in `NUMPY_TO_DAP2_TYPEMAP` and whose grids are non-empty -/

def TyKnown (b : BaseV) : Prop := (lookup Gen.NUMPY_TO_DAP2_TYPEMAP (dtypeChar b.dt)).isSome = true

mutual
def PrintableT : Tmpl → Prop
  | .base b => TyKnown b
  | .struct _ kids => PrintableL kids
  | .seq _ kids => PrintableL kids
  | .grid _ kids => kids ≠ [] ∧ ∀ b ∈ kids, TyKnown b
def PrintableL : List Tmpl → Prop
  | [] => True
  | t :: ts => PrintableT t ∧ PrintableL ts
end

theorem printBase_ok (b : BaseV) (level sq : Nat) (h : TyKnown b) : ∃ s, printBase b level sq = .ok s := by
  unfold TyKnown at h
  unfold printBase
  cases hl : lookup Gen.NUMPY_TO_DAP2_TYPEMAP (dtypeChar b.dt) with
  | none => rw [hl] at h; cases h
  | some ty => exact ⟨_, rfl⟩

theorem printBases_ok (bs : List BaseV) (level sq : Nat) (h : ∀ b ∈ bs, TyKnown b) : ∃ s, printBases bs level sq = .ok s := by
  induction bs with
  | nil => exact ⟨[], rfl⟩
  | cons b bs ih =>
    obtain ⟨s1, h1⟩ := printBase_ok b level sq (h b (by simp))
    obtain ⟨s2, h2⟩ := ih (fun x hx => h x (by simp [hx]))
    simp only [printBases, h1, h2]; exact ⟨_, rfl⟩

mutual
theorem printT_ok : (t : Tmpl) → (level sq : Nat) → PrintableT t → ∃ s, printT t level sq = .ok s
  | .base b, level, sq, h => by simp only [PrintableT] at h; simpa [printT] using printBase_ok b level sq h
  | .struct n kids, level, sq, h => by
    simp only [PrintableT] at h
    obtain ⟨s, hs⟩ := printL_ok kids (level + 1) sq h
    simp only [printT, hs]; exact ⟨_, rfl⟩
  | .seq n kids, level, sq, h => by
    simp only [PrintableT] at h
    obtain ⟨s, hs⟩ := printL_ok kids (level + 1) (sq + 1) h
    simp only [printT, hs]; exact ⟨_, rfl⟩
  | .grid n kids, level, sq, h => by
    simp only [PrintableT] at h
    cases kids with
    | nil => exact absurd rfl h.1
    | cons a maps =>
      obtain ⟨s1, h1⟩ := printBase_ok a (level + 2) sq (h.2 a (by simp))
      obtain ⟨s2, h2⟩ := printBases_ok maps (level + 2) sq (fun x hx => h.2 x (by simp [hx]))
      simp only [printT, printGrid, h1, h2]; exact ⟨_, rfl⟩
theorem printL_ok : (ts : List Tmpl) → (level sq : Nat) → PrintableL ts → ∃ s, printL ts level sq = .ok s
  | [], level, sq, h => ⟨[], rfl⟩
  | t :: ts, level, sq, h => by
    simp only [PrintableL] at h
    obtain ⟨s1, h1⟩ := printT_ok t level sq h.1
    obtain ⟨s2, h2⟩ := printL_ok ts level sq h.2
    simp only [printL, h1, h2]; exact ⟨_, rfl⟩
end

theorem printDs_ok (d : Dataset) (h : PrintableL d.kids) : ∃ s, printDs d = .ok s := by
  obtain ⟨s, hs⟩ := printL_ok d.kids 1 0 h
  simp only [printDs, hs]; exact ⟨_, rfl⟩

/-- every numpy dtype char of the table is printable -/
theorem table_chars_known : ∀ p ∈ Gen.NUMPY_TO_DAP2_TYPEMAP,
    (lookup Gen.NUMPY_TO_DAP2_TYPEMAP (dtypeChar p.1.toList)).isSome = true := by decide

end Pydap.Dds
