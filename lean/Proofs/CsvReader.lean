import PydapModel.CsvReader
/-
  Helper lemmas for C20's CSV quoting theorem: what the reader's state machine does on the text of one bare token,
  one quoted string, one cell followed by a delimiter or a line terminator, one row, all rows.
-/
namespace Pydap.Csv

/-- ordinary character of an unquoted token -/
def Plain (c : Char) : Prop := c ≠ ',' ∧ c ≠ '"' ∧ c ≠ '\n' ∧ c ≠ '\r'

def CellOK : WCell → Prop
  | .q _ => True
  | .bare t => ∀ c ∈ t, Plain c

theorem readFrom_pend (p : PS) (a b : Bool) (l : List Char) (h : l ≠ []) : readFrom p a l = readFrom p b l := by
  cases l with
  | nil => exact absurd rfl h
  | cons c cs => simp only [readFrom]

theorem plain_isNl {c : Char} (h : Plain c) : isNl c = false := by
  simp [isNl, h.2.2.1, h.2.2.2]

theorem plain_lineEnds {c : Char} (h : Plain c) (l : List Char) : lineEnds c l = false := by
  simp [lineEnds, h.2.2.1, h.2.2.2]

/-- the characters of a bare token are appended to the field -/
theorem bare_run (t : List Char) (ht : ∀ c ∈ t, Plain c) (fld : List Char) (num : Bool) (fs : List Field) (a : Bool)
    (rest : List Char) (hr : rest ≠ []) :
    readFrom ⟨.inField, fld, num, fs⟩ a (t ++ rest) = readFrom ⟨.inField, fld ++ t, num, fs⟩ a rest := by
  induction t generalizing fld a with
  | nil => simp
  | cons x t ih =>
    have hx := ht x (List.mem_cons_self)
    have ht' : ∀ c ∈ t, Plain c := fun c hc => ht c (List.mem_cons_of_mem _ hc)
    have h1 : readFrom ⟨.inField, fld, num, fs⟩ a (x :: (t ++ rest)) =
        readFrom ⟨.inField, fld ++ [x], num, fs⟩ true (t ++ rest) := by
      simp [readFrom, step, add, plain_isNl hx, plain_lineEnds hx, hx.1]
    rw [List.cons_append, h1, ih ht' (fld ++ [x]) true]
    rw [readFrom_pend _ true a rest hr]
    simp

/-- a quoted string (quotes doubled) up to its closing quote -/
theorem quoted_run (s : List Char) (fld : List Char) (fs : List Field) (a : Bool) (rest : List Char) :
    readFrom ⟨.inQuoted, fld, false, fs⟩ a (escQ s ++ '"' :: rest) =
      readFrom ⟨.quoteInQuoted, fld ++ s, false, fs⟩ true rest := by
  induction s generalizing fld a with
  | nil => simp [escQ, readFrom, step, lineEnds]
  | cons x s ih =>
    by_cases hq : x = '"'
    · subst hq
      have : readFrom ⟨.inQuoted, fld, false, fs⟩ a ('"' :: '"' :: (escQ s ++ '"' :: rest)) =
          readFrom ⟨.inQuoted, fld ++ ['"'], false, fs⟩ true (escQ s ++ '"' :: rest) := by
        simp [readFrom, step, add, lineEnds]
      simp only [escQ, if_true, List.cons_append]
      rw [this, ih]
      simp
    · have : readFrom ⟨.inQuoted, fld, false, fs⟩ a (x :: (escQ s ++ '"' :: rest)) =
          readFrom ⟨.quoteInQuoted, fld ++ [x] ++ s, false, fs⟩ true rest := by
        rw [readFrom]
        simp only [step, hq, if_false, add]
        by_cases hl : lineEnds x (escQ s ++ '"' :: rest) = true
        · simp only [hl, if_true]
          simp only [reduceCtorEq, if_false]
          exact ih (fld ++ [x]) false
        · simp only [hl]
          exact ih (fld ++ [x]) true
      simp only [escQ, hq, if_false, List.cons_append]
      rw [this]
      simp

/-- the parser state after the content of a cell, started at the beginning of a field -/
def afterCell (st0 : St) (fs : List Field) : WCell → PS
  | .q s => ⟨.quoteInQuoted, s, false, fs⟩
  | .bare [] => ⟨st0, [], false, fs⟩
  | .bare (x :: t) => ⟨.inField, x :: t, true, fs⟩

theorem cell_content (w : WCell) (hw : CellOK w) (st0 : St) (h0 : st0 = .startRecord ∨ st0 = .startField)
    (fs : List Field) (a b : Bool) (rest : List Char) (hr : rest ≠ []) :
    readFrom ⟨st0, [], false, fs⟩ a (renderCell w ++ rest) = readFrom (afterCell st0 fs w) b rest := by
  cases w with
  | q s =>
    have h1 : readFrom ⟨st0, [], false, fs⟩ a ('"' :: (escQ s ++ '"' :: rest)) =
        readFrom ⟨.inQuoted, [], false, fs⟩ true (escQ s ++ '"' :: rest) := by
      rcases h0 with h | h <;> subst h <;> simp [readFrom, step, stepStartField, isNl, lineEnds]
    simp only [renderCell, List.cons_append, List.append_assoc, List.nil_append]
    rw [h1, quoted_run, readFrom_pend _ true b rest hr]
    simp [afterCell]
  | bare t =>
    cases t with
    | nil => simpa [renderCell, afterCell] using readFrom_pend _ a b rest hr
    | cons x t =>
      have hx : Plain x := hw x List.mem_cons_self
      have ht : ∀ c ∈ t, Plain c := fun c hc => hw c (List.mem_cons_of_mem _ hc)
      have h1 : readFrom ⟨st0, [], false, fs⟩ a (x :: (t ++ rest)) =
          readFrom ⟨.inField, [x], true, fs⟩ true (t ++ rest) := by
        rcases h0 with h | h <;> subst h <;>
          simp [readFrom, step, stepStartField, add, plain_isNl hx, plain_lineEnds hx, hx.1, hx.2.1]
      simp only [renderCell, List.cons_append]
      rw [h1, bare_run t ht [x] true fs true rest hr, readFrom_pend _ true b rest hr]
      simp [afterCell]

/-- a delimiter after a cell saves the field -/
theorem cell_comma (w : WCell) (st0 : St) (h0 : st0 = .startRecord ∨ st0 = .startField) (fs : List Field) (a : Bool)
    (rest : List Char) :
    readFrom (afterCell st0 fs w) a (',' :: rest) = readFrom ⟨.startField, [], false, fs ++ [expectField w]⟩ true rest := by
  cases w with
  | q s => simp [afterCell, readFrom, step, save, lineEnds, expectField]
  | bare t =>
    cases t with
    | nil => rcases h0 with h | h <;> subst h <;>
        simp [afterCell, readFrom, step, stepStartField, save, isNl, lineEnds, expectField]
    | cons x t => simp [afterCell, readFrom, step, save, isNl, lineEnds, expectField]

/-- a line terminator (`\n` or `\r\n`) after the last cell completes the record -/
theorem cell_newline (w : WCell) (st0 : St) (h0 : st0 = .startRecord ∨ st0 = .startField)
    (hne : st0 = .startRecord → w ≠ .bare []) (fs : List Field) (a : Bool) (nl rest : List Char)
    (hnl : nl = ['\n'] ∨ nl = ['\r', '\n']) :
    readFrom (afterCell st0 fs w) a (nl ++ rest) = consRow (fs ++ [expectField w]) (readFrom reset false rest) := by
  rcases hnl with h | h <;> subst h
  · cases w with
    | q s => simp [afterCell, readFrom, step, save, isNl, lineEnds, expectField]
    | bare t =>
      cases t with
      | nil =>
        rcases h0 with h | h
        · exact absurd rfl (hne h)
        · subst h
          simp [afterCell, readFrom, step, stepStartField, save, isNl, lineEnds, expectField]
      | cons x t => simp [afterCell, readFrom, step, save, isNl, lineEnds, expectField]
  · cases w with
    | q s => simp [afterCell, readFrom, step, save, isNl, lineEnds, expectField]
    | bare t =>
      cases t with
      | nil =>
        rcases h0 with h | h
        · exact absurd rfl (hne h)
        · subst h
          simp [afterCell, readFrom, step, stepStartField, save, isNl, lineEnds, expectField]
      | cons x t => simp [afterCell, readFrom, step, save, isNl, lineEnds, expectField]

theorem nl_ne_nil {nl : List Char} (hnl : nl = ['\n'] ∨ nl = ['\r', '\n']) (rest : List Char) : nl ++ rest ≠ [] := by
  rcases hnl with h | h <;> subst h <;> simp

/-- one row -/
theorem row_read (ws : List WCell) : ∀ (w : WCell) (st0 : St) (fs : List Field) (a : Bool) (nl rest : List Char),
    (st0 = .startRecord ∨ st0 = .startField) → (st0 = .startRecord → ws = [] → w ≠ .bare []) →
    (∀ c ∈ w :: ws, CellOK c) → (nl = ['\n'] ∨ nl = ['\r', '\n']) →
    readFrom ⟨st0, [], false, fs⟩ a (renderRow (w :: ws) ++ nl ++ rest) =
      consRow (fs ++ (w :: ws).map expectField) (readFrom reset false rest) := by
  induction ws with
  | nil =>
    intro w st0 fs a nl rest h0 hne hok hnl
    simp only [renderRow, List.append_assoc]
    rw [cell_content w (hok w List.mem_cons_self) st0 h0 fs a true (nl ++ rest) (nl_ne_nil hnl rest)]
    rw [cell_newline w st0 h0 (fun h => hne h rfl) fs true nl rest hnl]
    simp
  | cons w' ws ih =>
    intro w st0 fs a nl rest h0 _ hok hnl
    have hsplit : renderRow (w :: w' :: ws) ++ nl ++ rest =
        renderCell w ++ (',' :: (renderRow (w' :: ws) ++ nl ++ rest)) := by
      simp [renderRow, List.append_assoc]
    rw [hsplit, cell_content w (hok w List.mem_cons_self) st0 h0 fs a true _ (by simp), cell_comma w st0 h0 fs true]
    rw [ih w' .startField (fs ++ [expectField w]) true nl rest (Or.inr rfl) (fun h => by cases h)
      (fun c hc => hok c (List.mem_cons_of_mem _ hc)) hnl]
    simp

/-- a row the writer can produce and the reader gives back: not empty, not a single empty bare cell (that line is
    blank and reads as `[]`), bare tokens made of ordinary characters -/
def RowOK (r : List WCell) : Prop := r ≠ [] ∧ r ≠ [.bare []] ∧ ∀ c ∈ r, CellOK c

/-- all rows -/
theorem rows_read (nl : List Char) (hnl : nl = ['\n'] ∨ nl = ['\r', '\n']) (rows : List (List WCell))
    (hok : ∀ r ∈ rows, RowOK r) :
    readAll (renderRows nl rows) = .ok (rows.map fun r => r.map expectField) := by
  unfold readAll
  induction rows with
  | nil => simp [renderRows, readFrom, reset]
  | cons r rs ih =>
    obtain ⟨hne, hnb, hc⟩ := hok r List.mem_cons_self
    cases r with
    | nil => exact absurd rfl hne
    | cons w ws =>
      simp only [renderRows]
      have := row_read ws w .startRecord [] false nl (renderRows nl rs) (Or.inl rfl)
        (fun _ h => by intro hw; subst h; subst hw; exact hnb rfl) hc hnl
      simp only [reset] at this ⊢
      rw [this]
      simp only [reset] at ih
      rw [ih (fun r hr => hok r (List.mem_cons_of_mem _ hr))]
      simp [consRow]

/-- the value the handler must deliver for a written cell; `fl` = Python's `float` on the tokens -/
def cellOf (fl : List Char → Nat) : WCell → Cell
  | .q s => .str s
  | .bare [] => .str []
  | .bare (c :: t) => .num (fl (c :: t))

def FloatOK (float : List Char → Option Nat) (fl : List Char → Nat) (r : List WCell) : Prop :=
  ∀ c t, WCell.bare (c :: t) ∈ r → float (c :: t) = some (fl (c :: t))

theorem convRow_expect (float : List Char → Option Nat) (fl : List Char → Nat) (r : List WCell)
    (h : FloatOK float fl r) : convRow float (r.map expectField) = .ok (r.map (cellOf fl)) := by
  induction r with
  | nil => rfl
  | cons w ws ih =>
    have ih' := ih (fun c t hm => h c t (List.mem_cons_of_mem _ hm))
    cases w with
    | q s => simp [convRow, convField, expectField, cellOf, ih']
    | bare t =>
      cases t with
      | nil => simp [convRow, convField, expectField, cellOf, ih']
      | cons c t => simp [convRow, convField, expectField, cellOf, ih', h c t List.mem_cons_self]

theorem convRows_expect (float : List Char → Option Nat) (fl : List Char → Nat) (rows : List (List WCell))
    (h : ∀ r ∈ rows, FloatOK float fl r) :
    convRows float (rows.map fun r => r.map expectField) = .ok (rows.map fun r => r.map (cellOf fl)) := by
  induction rows with
  | nil => rfl
  | cons r rs ih =>
    simp [convRows, convRow_expect float fl r (h r List.mem_cons_self),
      ih (fun r hr => h r (List.mem_cons_of_mem _ hr))]

end Pydap.Csv
