/-
  Helper lemmas for the process-of-sessions model (PydapModel/Sessions.lean):

  * `step_skip`, `step_sync`, `run_local`   an event of another session shows session j nothing and leaves it as it was;
                                            all histories: session j's trace and final state in the interleaved history
                                            = in the history without the other sessions' events
  * `keyFn_orig`                            whatever was installed, a non-normalised key is the request's unpatched key
  * `FInv`, `getThrough_finv`, `consolidateThrough_finv`   entries under unpatched keys are the server's answers; kept by
                                            every GET and every consolidation through any key function
  * `run_bystander`, `runFile_bystander`    all histories: a session on which nothing was installed gets the unpatched key
                                            and the server's answer for every GET — with its own store, and on a store
                                            shared with consolidated sessions through one database file
-/
import PydapModel.Sessions
import Proofs.CacheKey
import Proofs.Cache
import Proofs.Consolidate
namespace Pydap.Sessions
open Pydap Pydap.CK Pydap.Cons Pydap.Cache

variable {ρ : Type}

theorem traceOf_append (j : Nat) (a b : List (Nat × Obs ρ)) : traceOf j (a ++ b) = traceOf j a ++ traceOf j b := by
  simp [traceOf]

theorem traceOf_tagged_ne {i j : Nat} (h : i ≠ j) (os : List (Obs ρ)) : traceOf j (os.map fun o => (i, o)) = [] := by
  simp [traceOf, List.filter_eq_nil_iff, h]

theorem traceOf_tagged_eq (j : Nat) (os : List (Obs ρ)) : traceOf j (os.map fun o => (j, o)) = os := by
  induction os with
  | nil => rfl
  | cons o os ih => simpa [traceOf] using ih

/-- an event of another session: session `j` sees nothing and is left as it was -/
theorem step_skip (orig : List Char → List Char) (server : Req → ρ) (p : Proc ρ) (j : Nat) (e : Ev)
    (he : concerns j e = false) :
    traceOf j (step orig server p e).1 = [] ∧ (step orig server p e).2.length = p.length ∧
      (step orig server p e).2[j]? = p[j]? := by
  cases e with
  | get i r =>
    have hij : i ≠ j := by simpa [concerns] using he
    simp only [step]
    split
    · exact ⟨rfl, rfl, rfl⟩
    · refine ⟨?_, by simp, by simp [hij]⟩
      simp [traceOf, hij]
  | consolidate i files =>
    have hij : i ≠ j := by simpa [concerns] using he
    simp only [step]
    split
    · exact ⟨rfl, rfl, rfl⟩
    · exact ⟨traceOf_tagged_ne hij _, by simp, by simp [hij]⟩
  | create c => simp [concerns] at he

/-- an event of session `j` (or a creation) in two processes that agree on session `j` -/
theorem step_sync (orig : List Char → List Char) (server : Req → ρ) (p q : Proc ρ) (j : Nat) (e : Ev)
    (hl : p.length = q.length) (hj : p[j]? = q[j]?) (he : concerns j e = true) :
    traceOf j (step orig server p e).1 = traceOf j (step orig server q e).1 ∧
      (step orig server p e).2.length = (step orig server q e).2.length ∧
      (step orig server p e).2[j]? = (step orig server q e).2[j]? := by
  cases e with
  | get i r =>
    have hij : i = j := by simpa [concerns] using he
    subst hij
    simp only [step, ← hj]
    split
    · exact ⟨rfl, hl, by rw [hj]⟩
    · next s hs =>
      refine ⟨rfl, by simpa using hl, ?_⟩
      have h1 : i < p.length := (List.getElem?_eq_some_iff.1 hs).1
      simp [h1, hl ▸ h1]
  | consolidate i files =>
    have hij : i = j := by simpa [concerns] using he
    subst hij
    simp only [step, ← hj]
    split
    · exact ⟨rfl, hl, by rw [hj]⟩
    · next s hs =>
      refine ⟨rfl, by simpa using hl, ?_⟩
      have h1 : i < p.length := (List.getElem?_eq_some_iff.1 hs).1
      simp [h1, hl ▸ h1]
  | create c =>
    refine ⟨rfl, by simp [step, hl], ?_⟩
    simp only [step, List.getElem?_append, hl]
    split
    · exact hj
    · rfl

/-- **Locality, all histories**: from two processes that agree on session `j`, the interleaved history and the
    history without the events of the other sessions show session `j` the same GETs and leave it in the same state -/
theorem run_local (orig : List Char → List Char) (server : Req → ρ) (j : Nat) (evs : List Ev) :
    ∀ p q : Proc ρ, p.length = q.length → p[j]? = q[j]? →
      traceOf j (run orig server p evs).1 = traceOf j (run orig server q (evs.filter (concerns j))).1 ∧
      (run orig server p evs).2.length = (run orig server q (evs.filter (concerns j))).2.length ∧
      (run orig server p evs).2[j]? = (run orig server q (evs.filter (concerns j))).2[j]? := by
  induction evs with
  | nil => intro p q hl hj; exact ⟨rfl, hl, hj⟩
  | cons e es ih =>
    intro p q hl hj
    cases he : concerns j e with
    | false =>
      obtain ⟨h1, h2, h3⟩ := step_skip orig server p j e he
      have := ih (step orig server p e).2 q (h2.trans hl) (h3.trans hj)
      simp only [List.filter_cons, he, run, traceOf_append, h1, List.nil_append]
      exact this
    | true =>
      obtain ⟨h1, h2, h3⟩ := step_sync orig server p q j e hl hj he
      have := ih _ _ h2 h3
      simp only [List.filter_cons, he, run, traceOf_append, h1, if_true]
      exact ⟨by rw [this.1], this.2⟩


theorem keyFn_nil (orig : List Char → List Char) (r : Req) : keyFn orig [] r = Key.orig (orig r.url) :=
  keyBefore_orig orig r

/-- whatever was installed: a key that is not a normalised one is the unpatched key of the request -/
theorem keyFn_orig (orig : List Char → List Char) (ds : List Decl) (r : Req) (h : List Char)
    (hk : keyFn orig ds r = Key.orig h) : h = orig r.url := by
  induction ds with
  | nil => rw [keyFn_nil] at hk; cases hk; rfl
  | cons d ds ih =>
    simp only [keyFn] at hk
    split at hk
    · cases hk
    · exact ih hk

/-- every entry stored under an unpatched key is the server's answer to the requests with that key -/
def FInv (orig : List Char → List Char) (server : Req → ρ) (st : Store Key ρ) : Prop :=
  ∀ h resp, (Key.orig h, resp) ∈ st → ∀ u : Req, orig u.url = h → server u = resp

theorem finv_nil (orig : List Char → List Char) (server : Req → ρ) : FInv orig server [] := by
  intro h resp hm; cases hm

theorem install_store (s : Sess ρ) (res : Except Err (Option Decl)) : (install s res).store = s.store ∧
    (install s res).caching = s.caching := by
  unfold install; split <;> exact ⟨rfl, rfl⟩


/-- a GET through a session on which nothing was installed, over a store with the invariant: the unpatched key, the
    server's answer -/
theorem getThrough_unpatched (orig : List Char → List Char) (server : Req → ρ) (s : Sess ρ) (r : Req) (hd : s.decls = []) (hs : FInv orig server s.store) :
    (getThrough orig server s r).1.resp = server r ∧ (getThrough orig server s r).1.req = r ∧
      (getThrough orig server s r).1.key = (if s.caching then some (Key.orig (orig r.url)) else none) := by
  unfold getThrough
  split
  · next hc =>
    refine ⟨?_, rfl, by simp [hd, keyFn_nil]⟩
    simp only [cachedGet, hd, keyFn_nil]
    split
    · next resp hl => exact (hs _ _ (lookup_mem hl) r rfl).symm
    · rfl
  · next hc => exact ⟨rfl, rfl, by simp⟩

section
variable (orig : List Char → List Char) (server : Req → ρ)
  (horig : ∀ a b, orig a = orig b → a = b) (hfun : ∀ u v : Req, u.url = v.url → server u = server v)
include horig hfun

theorem getThrough_finv (s : Sess ρ) (r : Req) (hs : FInv orig server s.store) :
    FInv orig server (getThrough orig server s r).2.store ∧ (getThrough orig server s r).2.decls = s.decls ∧
      (getThrough orig server s r).2.caching = s.caching := by
  unfold getThrough
  split
  · refine ⟨?_, rfl, rfl⟩
    simp only [cachedGet]
    split
    · exact hs
    · intro h resp hm u hu
      rcases List.mem_cons.1 hm with e | e
      · injection e with e1 e2
        have := keyFn_orig orig _ _ _ e1.symm
        subst e2
        exact hfun _ _ (horig _ _ (hu.trans this))
      · exact hs h resp e u hu
  · exact ⟨hs, rfl, rfl⟩

theorem getsThrough_finv (rs : List Req) : ∀ s : Sess ρ, FInv orig server s.store →
    FInv orig server (getsThrough orig server s rs).2.store ∧ (getsThrough orig server s rs).2.caching = s.caching := by
  induction rs with
  | nil => intro s hs; exact ⟨hs, rfl⟩
  | cons r rs ih =>
    intro s hs
    obtain ⟨h1, _, h3⟩ := getThrough_finv orig server horig hfun s r hs
    obtain ⟨h4, h5⟩ := ih _ h1
    exact ⟨h4, h5.trans h3⟩

theorem consolidateThrough_finv (s : Sess ρ) (files : List FileIn) (hs : FInv orig server s.store) :
    FInv orig server (consolidateThrough orig server s files).2.store ∧
      (consolidateThrough orig server s files).2.caching = s.caching := by
  simp only [consolidateThrough]
  obtain ⟨h1, h2⟩ := getsThrough_finv orig server horig hfun (consolidate s.caching files).dmrGets s hs
  have h3 := install_store (getsThrough orig server s (consolidate s.caching files).dmrGets).2 (consolidate s.caching files).result
  obtain ⟨h4, h5⟩ := getsThrough_finv orig server horig hfun (consolidate s.caching files).dimGets
    (install (getsThrough orig server s (consolidate s.caching files).dmrGets).2 (consolidate s.caching files).result)
    (by rw [h3.1]; exact h1)
  exact ⟨h4, h5.trans (h3.2.trans h2)⟩


/-- the obligation on one observation of the bystander -/
def Plain (orig : List Char → List Char) (server : Req → ρ) (o : Obs ρ) : Prop :=
  o.resp = server o.req ∧ (o.key = none ∨ o.key = some (Key.orig (orig o.req.url)))

omit horig hfun in
theorem getThrough_plain (s : Sess ρ) (r : Req) (hd : s.decls = []) (hs : FInv orig server s.store) :
    Plain orig server (getThrough orig server s r).1 := by
  obtain ⟨h1, h2, h3⟩ := getThrough_unpatched orig server s r hd hs
  refine ⟨by rw [h1, h2], ?_⟩
  rw [h3, h2]
  cases s.caching
  · exact Or.inl rfl
  · exact Or.inr rfl

/-- **The bystander, own store, all histories**: a session on which nothing is installed and which is never consolidated
    gets, for every GET in any interleaved history, the unpatched key and the server's answer -/
theorem run_bystander (j : Nat) (evs : List Ev) : ∀ p : Proc ρ,
    (∀ s, p[j]? = some s → s.decls = [] ∧ FInv orig server s.store) → (∀ files, Ev.consolidate j files ∉ evs) →
    ∀ x ∈ (run orig server p evs).1, x.1 = j → Plain orig server x.2 := by
  induction evs with
  | nil => intro p _ _ x hx; cases hx
  | cons e es ih =>
    intro p hp hne x hx hxj
    have hne' : ∀ files, Ev.consolidate j files ∉ es := fun f h => hne f (List.mem_cons_of_mem _ h)
    simp only [run, List.mem_append] at hx
    cases e with
    | get i r =>
      by_cases hij : i = j
      · subst hij
        simp only [step] at hx ih
        cases hs : p[i]? with
        | none =>
          simp only [hs] at hx
          rcases hx with hx | hx
          · cases hx
          · exact ih p hp hne' x hx hxj
        | some s =>
          simp only [hs] at hx
          obtain ⟨hd, hf⟩ := hp s hs
          rcases hx with hx | hx
          · simp only [List.mem_singleton] at hx
            subst hx
            exact getThrough_plain orig server s r hd hf
          · refine ih _ ?_ hne' x hx hxj
            intro s' hs'
            have h1 : i < p.length := (List.getElem?_eq_some_iff.1 hs).1
            simp [h1] at hs'
            subst hs'
            obtain ⟨a, b, _⟩ := getThrough_finv orig server horig hfun s r hf
            exact ⟨b.trans hd, a⟩
      · obtain ⟨h1, _, h3⟩ := step_skip orig server p j (.get i r) (by simp [concerns, hij])
        rcases hx with hx | hx
        · exfalso
          have : x.2 ∈ traceOf j (step orig server p (.get i r)).1 := by
            simp only [traceOf, List.mem_map, List.mem_filter]
            exact ⟨x, ⟨hx, by simp [hxj]⟩, rfl⟩
          rw [h1] at this; cases this
        · exact ih _ (fun s hs => hp s (h3 ▸ hs)) hne' x hx hxj
    | consolidate i files =>
      have hij : i ≠ j := fun h => hne files (h ▸ List.mem_cons_self)
      obtain ⟨h1, _, h3⟩ := step_skip orig server p j (.consolidate i files) (by simp [concerns, hij])
      rcases hx with hx | hx
      · exfalso
        have : x.2 ∈ traceOf j (step orig server p (.consolidate i files)).1 := by
          simp only [traceOf, List.mem_map, List.mem_filter]
          exact ⟨x, ⟨hx, by simp [hxj]⟩, rfl⟩
        rw [h1] at this; cases this
      · exact ih _ (fun s hs => hp s (h3 ▸ hs)) hne' x hx hxj
    | create c =>
      rcases hx with hx | hx
      · cases hx
      · refine ih _ ?_ hne' x hx hxj
        intro s hs
        simp only [step, List.getElem?_append] at hs
        split at hs
        · exact hp s hs
        · have hm := List.mem_of_getElem? hs
          simp only [List.mem_singleton] at hm
          subst hm
          exact ⟨rfl, finv_nil orig server⟩

/-- **The bystander on a shared database file, all histories** (the default settings of `create_session`): the store is
    filled by every session of the process, also through consolidated key functions; a session on which nothing is
    installed still gets, for every GET, the unpatched key and the server's answer -/
theorem runFile_bystander (j : Nat) (evs : List Ev) : ∀ p : FileProc ρ,
    FInv orig server p.store → (∀ ds, p.decls[j]? = some ds → ds = []) → (∀ files, Ev.consolidate j files ∉ evs) →
    ∀ x ∈ (runFile orig server p evs).1, x.1 = j → Plain orig server x.2 := by
  induction evs with
  | nil => intro p _ _ _ x hx; cases hx
  | cons e es ih =>
    intro p hf hp hne x hx hxj
    have hne' : ∀ files, Ev.consolidate j files ∉ es := fun f h => hne f (List.mem_cons_of_mem _ h)
    simp only [runFile, List.mem_append] at hx
    cases e with
    | get i r =>
      simp only [stepFile] at hx ih
      cases hs : p.decls[i]? with
      | none =>
        simp only [hs] at hx
        rcases hx with hx | hx
        · cases hx
        · exact ih p hf hp hne' x hx hxj
      | some ds =>
        simp only [hs] at hx
        have hf' := (getThrough_finv orig server horig hfun ⟨true, ds, p.store⟩ r hf).1
        rcases hx with hx | hx
        · simp only [List.mem_singleton] at hx
          subst hx
          have : ds = [] := hp ds (by simpa using hxj ▸ hs)
          subst this
          exact getThrough_plain orig server ⟨true, [], p.store⟩ r rfl hf
        · exact ih ⟨p.decls, _⟩ hf' hp hne' x hx hxj
    | consolidate i files =>
      have hij : i ≠ j := fun h => hne files (h ▸ List.mem_cons_self)
      simp only [stepFile] at hx ih
      cases hs : p.decls[i]? with
      | none =>
        simp only [hs] at hx
        rcases hx with hx | hx
        · cases hx
        · exact ih p hf hp hne' x hx hxj
      | some ds =>
        simp only [hs] at hx
        have hf' := (consolidateThrough_finv orig server horig hfun ⟨true, ds, p.store⟩ files hf).1
        rcases hx with hx | hx
        · simp only [List.mem_map] at hx
          obtain ⟨o, _, rfl⟩ := hx
          exact absurd hxj hij
        · refine ih ⟨p.decls.set i _, _⟩ hf' ?_ hne' x hx hxj
          intro ds' hds'
          simp only [List.getElem?_set, hij, if_false] at hds'
          exact hp ds' hds'
    | create c =>
      rcases hx with hx | hx
      · cases hx
      · refine ih ⟨p.decls ++ [[]], p.store⟩ hf ?_ hne' x hx hxj
        intro ds hs
        simp only [List.getElem?_append] at hs
        split at hs
        · exact hp ds hs
        · have hm := List.mem_of_getElem? hs
          simpa using hm
end

/-! ### the witness of seed C18-y: session 0 is consolidated for `exFiles`, session 1 then reads `t` of the second file whole -/
def exRead : Req := readReq exFileB "t".toList [(0, 1, 1)]
def exHist : List Ev := [.consolidate 0 exFiles, .get 1 exRead]

end Pydap.Sessions
