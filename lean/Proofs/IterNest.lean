/-
  Lemmas behind the nested part of C17: shapes, cells by name, the reference's inner filters.
-/
import PydapModel.IterNest
import Proofs.IterDataSim
namespace Pydap.IterNest
open Pydap Pydap.IterData

variable {A : Type}

/-! ### generic list facts -/

theorem mapM_cellOf_self {B : Type} (all : List Name) (hnd : all.Nodup) (r : List B) (hr : r.length = all.length) :
    all.mapM (cellOf all r) = some r := by
  apply optMapM_of_getElem _ _ _ hr.symm
  intro i hi
  have hmem : all[i] ∈ all := List.getElem_mem hi
  simp [cellOf, indexOf?_of_mem hmem, hnd.idxOf_getElem i hi]

theorem optMapM_congr {α β : Type} (f g : α → Option β) :
    ∀ l : List α, (∀ x ∈ l, f x = g x) → l.mapM f = l.mapM g
  | [], _ => rfl
  | a :: l, h => by
    rw [List.mapM_cons, List.mapM_cons, h a (by simp), optMapM_congr f g l (fun x hx => h x (by simp [hx]))]

/-- rows traversed by `F` on the reference side and mapped by `f` on the stream side -/
theorem mapM_step {α β γ : Type} (F : α → Option β) (G : α → Option γ) (f : β → Except Err γ) :
    ∀ (rows : List α) (prows : List β), rows.mapM F = some prows →
      (∀ ir ∈ rows, ∀ p, F ir = some p → ∃ y, G ir = some y ∧ f p = .ok y) →
      ∃ out, rows.mapM G = some out ∧ mapE f prows = .ok out
  | [], prows, h, _ => by
    simp at h; subst h
    exact ⟨[], rfl, rfl⟩
  | a :: rows, prows, h, hall => by
    rw [List.mapM_cons] at h
    cases hfa : F a with
    | none => simp [hfa] at h
    | some p =>
      cases hr : rows.mapM F with
      | none => simp [hfa, hr] at h
      | some rest =>
        simp [hfa, hr] at h
        subst h
        obtain ⟨y, hy1, hy2⟩ := hall a (by simp) p hfa
        obtain ⟨out, h1, h2⟩ := mapM_step F G f rows rest hr (fun ir hir => hall ir (by simp [hir]))
        refine ⟨y :: out, ?_, ?_⟩
        · rw [List.mapM_cons, hy1, h1]; rfl
        · unfold mapE; rw [hy2, h2]; rfl

theorem idxOf_inj {ks : List Name} {a b : Name} (ha : a ∈ ks) (h : ks.idxOf a = ks.idxOf b) : a = b := by
  have h1 := getElem?_idxOf ha
  rw [h] at h1
  by_cases hb : b ∈ ks
  · have h2 := getElem?_idxOf hb
    rw [h2] at h1
    exact (Option.some.inj h1).symm
  · have hlt : ¬ ks.idxOf b < ks.length := fun hl => hb (List.idxOf_lt_length_iff.mp hl)
    have : ks[ks.idxOf b]? = none := List.getElem?_eq_none (by omega)
    rw [this] at h1
    cases h1

/-! ### header lookups -/

theorem lookup_getElem : ∀ (hdr : Hdr) (k : Name), k ∈ hdr.names →
    ∃ kid, hdr.lookup k = some kid ∧ hdr[hdr.names.idxOf k]? = some (k, kid)
  | [], k, h => by simp [Hdr.names] at h
  | (k', kid') :: rest, k, h => by
    by_cases hk : k = k'
    · subst hk
      exact ⟨kid', by simp [List.lookup], by simp [Hdr.names]⟩
    · have hmem : k ∈ Hdr.names rest := by
        simp only [Hdr.names, List.map_cons, List.mem_cons] at h
        rcases h with h | h
        · exact absurd h hk
        · exact h
      obtain ⟨kid, h1, h2⟩ := lookup_getElem rest k hmem
      refine ⟨kid, ?_, ?_⟩
      · have : (k == k') = false := by simpa using hk
        simp [List.lookup, this, h1]
      · have hne : ¬ k' = k := fun e => hk e.symm
        simp only [Hdr.names, List.map_cons, List.idxOf_cons]
        have : (k' == k) = false := by simpa using hne
        simp only [this, cond_false]
        simpa [Hdr.names] using h2

theorem lookup_mem {hdr : Hdr} {k : Name} {kid : Option (List Name)} (h : hdr.lookup k = some kid) :
    k ∈ hdr.names := by
  induction hdr with
  | nil => simp [List.lookup] at h
  | cons p rest ih =>
    obtain ⟨k', kid'⟩ := p
    by_cases hk : k = k'
    · subst hk; simp [Hdr.names]
    · have : (k == k') = false := by simpa using hk
      simp only [List.lookup, this] at h
      have := ih h
      simp only [Hdr.names, List.map_cons, List.mem_cons]
      exact Or.inr this

theorem innerKeys_lookup {hdr : Hdr} {n : Name} {keys : List Name} (h : innerKeys hdr n = some keys) :
    hdr.lookup n = some (some keys) := by
  unfold innerKeys at h
  split at h <;> simp_all

theorem lookup_mem_pair {hdr : Hdr} {k : Name} {kid : Option (List Name)} (h : hdr.lookup k = some kid) :
    (k, kid) ∈ hdr := by
  induction hdr with
  | nil => simp [List.lookup] at h
  | cons p rest ih =>
    obtain ⟨k', kid'⟩ := p
    by_cases hk : k = k'
    · subst hk
      simp [List.lookup] at h
      subst h
      simp
    · have : (k == k') = false := by simpa using hk
      simp only [List.lookup, this] at h
      exact List.mem_cons_of_mem _ (ih h)

theorem wsHdr_names {hdr : Hdr} (h : wsHdr hdr = true) : hdr.names.Nodup := by
  simp only [wsHdr, Bool.and_eq_true, decide_eq_true_eq] at h
  exact h.1

theorem wsHdr_inner {hdr : Hdr} (h : wsHdr hdr = true) {n : Name} {ks : List Name}
    (hk : hdr.lookup n = some (some ks)) : ks.Nodup := by
  simp only [wsHdr, Bool.and_eq_true, List.all_eq_true] at h
  have := h.2 _ (lookup_mem_pair hk)
  simpa using this

/-! ### well-shaped rows -/

theorem wsRow_length : ∀ (hdr : Hdr) (r : List (NCell A)), wsRow hdr r = true → r.length = hdr.names.length
  | [], [], _ => rfl
  | [], _ :: _, h => by simp [wsRow] at h
  | _ :: _, [], h => by simp [wsRow] at h
  | (_, kid) :: hdr, c :: cs, h => by
    simp only [wsRow, Bool.and_eq_true] at h
    simp [Hdr.names, wsRow_length hdr cs h.2]

theorem wsRow_getElem : ∀ (hdr : Hdr) (r : List (NCell A)), wsRow hdr r = true →
    ∀ (i : Nat) (p : Name × Option (List Name)), hdr[i]? = some p → ∃ c, r[i]? = some c ∧ wsCell p.2 c = true
  | [], _, _, i, p, hp => by simp at hp
  | _ :: _, [], h, _, _, _ => by simp [wsRow] at h
  | (k, kid) :: hdr, c :: cs, h, i, p, hp => by
    simp only [wsRow, Bool.and_eq_true] at h
    cases i with
    | zero =>
      simp at hp; subst hp
      exact ⟨c, by simp, h.1⟩
    | succ j =>
      simp at hp
      obtain ⟨c', h1, h2⟩ := wsRow_getElem hdr cs h.2 j p hp
      exact ⟨c', by simpa using h1, h2⟩

theorem wsRow_set : ∀ (hdr : Hdr) (r : List (NCell A)), wsRow hdr r = true →
    ∀ (i : Nat) (p : Name × Option (List Name)) (c : NCell A), hdr[i]? = some p → wsCell p.2 c = true →
      wsRow hdr (r.set i c) = true
  | [], _, _, i, p, _, hp, _ => by simp at hp
  | _ :: _, [], h, _, _, _, _, _ => by simp [wsRow] at h
  | (k, kid) :: hdr, c0 :: cs, h, i, p, c, hp, hc => by
    simp only [wsRow, Bool.and_eq_true] at h
    cases i with
    | zero =>
      simp at hp; subst hp
      simp only [List.set_cons_zero, wsRow, Bool.and_eq_true]
      exact ⟨hc, h.2⟩
    | succ j =>
      simp at hp
      simp only [List.set_cons_succ, wsRow, Bool.and_eq_true]
      exact ⟨h.1, wsRow_set hdr cs h.2 j p c hp hc⟩

/-- the cell under a header name, and its shape -/
theorem cell_of_name {hdr : Hdr} {r : List (NCell A)} (hr : wsRow hdr r = true) {k : Name}
    {kid : Option (List Name)} (hk : hdr.lookup k = some kid) :
    ∃ c, cellOf hdr.names r k = some c ∧ r[hdr.names.idxOf k]? = some c ∧ wsCell kid c = true := by
  have hmem := lookup_mem hk
  obtain ⟨kid', h1, h2⟩ := lookup_getElem hdr k hmem
  rw [hk] at h1
  cases h1
  obtain ⟨c, hc1, hc2⟩ := wsRow_getElem hdr r hr _ _ h2
  exact ⟨c, by simp [cellOf, indexOf?_of_mem hmem, hc1], hc1, hc2⟩

theorem wsCell_seq {keys : List Name} {c : NCell A} (h : wsCell (some keys) c = true) :
    ∃ rows, c = .seq rows ∧ ∀ ir ∈ rows, ir.length = keys.length := by
  cases c with
  | base a => simp [wsCell] at h
  | seq rows =>
    refine ⟨rows, rfl, ?_⟩
    simp only [wsCell, List.all_eq_true, beq_iff_eq] at h
    exact h

theorem wsCell_base {c : NCell A} (h : wsCell none c = true) : ∃ a, c = .base a := by
  cases c with
  | base a => exact ⟨a, rfl⟩
  | seq rows => simp [wsCell] at h

/-! ### the reference's inner filters -/

theorem applyInner_append (cmp : Op → A → A → Bool) (hdr : Hdr) (ncs : List (Name × RCond A)) (nc : Name × RCond A)
    (r : List (NCell A)) :
    applyInner cmp hdr (ncs ++ [nc]) r = applyOne cmp hdr nc (applyInner cmp hdr ncs r) := by
  induction ncs generalizing r with
  | nil => rfl
  | cons a ncs ih => simp only [List.cons_append, applyInner]; exact ih _

theorem ws_applyOne (cmp : Op → A → A → Bool) (hdr : Hdr) (nc : Name × RCond A) (r : List (NCell A))
    (hr : wsRow hdr r = true) : wsRow hdr (applyOne cmp hdr nc r) = true := by
  unfold applyOne
  cases hi : indexOf? hdr.names nc.1 with
  | none => exact hr
  | some i =>
    cases hk : innerKeys hdr nc.1 with
    | none => exact hr
    | some keys =>
      simp only
      obtain ⟨c, _, hc2, hc3⟩ := cell_of_name hr (innerKeys_lookup hk)
      obtain ⟨rfl, _, hmem⟩ := indexOf?_eq_some hi
      obtain ⟨rows, rfl, hrows⟩ := wsCell_seq hc3
      rw [hc2]
      simp only
      obtain ⟨kid', h1, h2⟩ := lookup_getElem hdr nc.1 hmem
      rw [innerKeys_lookup hk] at h1
      cases h1
      apply wsRow_set hdr r hr _ _ _ h2
      simp only [wsCell, List.all_eq_true, beq_iff_eq]
      intro ir hir
      exact hrows ir (List.mem_filter.mp hir).1

theorem ws_applyInner (cmp : Op → A → A → Bool) (hdr : Hdr) (ncs : List (Name × RCond A)) (r : List (NCell A))
    (hr : wsRow hdr r = true) : wsRow hdr (applyInner cmp hdr ncs r) = true := by
  induction ncs generalizing r with
  | nil => exact hr
  | cons a ncs ih => exact ih _ (ws_applyOne cmp hdr a r hr)

/-! ### the inner filters commute (a clause's map is recorded in front of the earlier ones) -/

/-- filter the records of the nested cell at position `i`, if there is one -/
def applyAt (i : Nat) (p : List A → Bool) (r : List (NCell A)) : List (NCell A) :=
  match r[i]? with
  | some (.seq rows) => r.set i (.seq (rows.filter p))
  | _ => r

theorem applyOne_eq (cmp : Op → A → A → Bool) (hdr : Hdr) (nc : Name × RCond A) (r : List (NCell A)) :
    applyOne cmp hdr nc r =
      match indexOf? hdr.names nc.1, innerKeys hdr nc.1 with
      | some i, some keys => applyAt i (fun ir => refCond cmp keys ir nc.2) r
      | _, _ => r := by
  unfold applyOne applyAt
  cases indexOf? hdr.names nc.1 <;> cases innerKeys hdr nc.1 <;> rfl

theorem applyAt_comm (i j : Nat) (p q : List A → Bool) (r : List (NCell A)) :
    applyAt i p (applyAt j q r) = applyAt j q (applyAt i p r) := by
  by_cases hij : i = j
  · subst hij
    cases hr : r[i]? with
    | none => simp [applyAt, hr]
    | some c =>
      have hi : i < r.length := by
        rcases Nat.lt_or_ge i r.length with h | h
        · exact h
        · rw [List.getElem?_eq_none h] at hr; cases hr
      cases c with
      | base a => simp [applyAt, hr]
      | seq rows =>
        simp [applyAt, hr, List.getElem?_set_self hi, List.set_set, List.filter_filter, Bool.and_comm]
  · have hji : j ≠ i := fun e => hij e.symm
    cases hri : r[i]? with
    | none =>
      cases hrj : r[j]? with
      | none => simp [applyAt, hri, hrj]
      | some c => cases c <;> simp [applyAt, hri, hrj, List.getElem?_set_ne hji]
    | some ci =>
      cases hrj : r[j]? with
      | none => cases ci <;> simp [applyAt, hri, hrj, List.getElem?_set_ne hij]
      | some cj =>
        cases ci <;> cases cj <;>
          simp [applyAt, hri, hrj, List.getElem?_set_ne hij, List.getElem?_set_ne hji, List.set_comm _ _ hij]

theorem applyOne_comm (cmp : Op → A → A → Bool) (hdr : Hdr) (a b : Name × RCond A) (r : List (NCell A)) :
    applyOne cmp hdr a (applyOne cmp hdr b r) = applyOne cmp hdr b (applyOne cmp hdr a r) := by
  simp only [applyOne_eq]
  cases indexOf? hdr.names a.1 <;> cases innerKeys hdr a.1 <;>
    cases indexOf? hdr.names b.1 <;> cases innerKeys hdr b.1 <;> simp only
  exact applyAt_comm _ _ _ _ r

/-- a clause applied to the source row first = applied after the earlier clauses -/
theorem applyInner_comm (cmp : Op → A → A → Bool) (hdr : Hdr) (ncs : List (Name × RCond A)) (nc : Name × RCond A)
    (r : List (NCell A)) :
    applyInner cmp hdr ncs (applyOne cmp hdr nc r) = applyOne cmp hdr nc (applyInner cmp hdr ncs r) := by
  induction ncs generalizing r with
  | nil => rfl
  | cons a ncs ih =>
    simp only [applyInner]
    rw [applyOne_comm, ih]

end Pydap.IterNest
