import Proofs.DasWalk
/-! Induction over the reverse walk below the top level (C08). -/
namespace Pydap.Das

theorem varEntry_name (v : Var) : (varEntry v).1 = v.name := by
  obtain ⟨k, n, a, cs⟩ := v
  cases k <;> simp [varEntry, Var.name]

theorem keys_varsEntries (cs : List Var) : keys (varsEntries cs) = cs.map Var.name := by
  induction cs with
  | nil => rfl
  | cons v rest ih =>
    simp only [varsEntries, keys, List.map_cons, varEntry_name] at ih ⊢
    rw [ih]

theorem nodup_keys_sort (a : Dict) (h : (keys a).Nodup) : (keys (sortKeys a)).Nodup :=
  (keys_sort_perm a).nodup_iff.mpr h

theorem container_steps (B S M : Dict) (n : Text) (ps : List (List Text)) (out : List (List Text × Dict))
    (hn : n ∉ keys B) (hS : (keys S).Nodup) (hne : ∀ p ∈ ps, p ≠ [])
    (hM : nestedAll M ps = .ok (S, out)) :
    nestedAll (B ++ [(n, .dict M)]) (ps.map (n :: ·) ++ [[n]]) = .ok (B, out.map (pre n) ++ [([n], S)]) := by
  rw [nestedAll_append, nestedAll_local ps _ M n hne (dget_last B n _ hn), hM]
  simp only [dset_last B n _ _ hn]
  simp [nestedAll, own_step B S n hn hS, pre]

mutual
theorem proc_var : (v : Var) → (B : Dict) → VarG v → v.name ∉ keys B →
    nestedAll (B ++ [varEntry v]) ((walkVar [] v).reverse) = .ok (B, expectVar v)
  | .mk .struct n a cs, B, hg, hn => by
    simp only [VarG] at hg
    simp only [Var.name] at hn
    have hnd := nodup_sort_append a _ hg.2
    have ih := proc_vars cs (sortKeys a) hg.1 hnd
    rw [walkVar_nil]
    simp only [varEntry, expectVar]
    exact container_steps B (sortKeys a) _ n _ _ hn (List.nodup_append.mp hnd).1
      (fun p hp => walkVars_ne cs p (List.mem_reverse.mp hp)) ih
  | .mk .seq n a cs, B, hg, hn => by
    simp only [VarG] at hg
    simp only [Var.name] at hn
    have hnd := nodup_sort_append a _ hg.2
    have ih := proc_vars cs (sortKeys a) hg.1 hnd
    rw [walkVar_nil]
    simp only [varEntry, expectVar]
    exact container_steps B (sortKeys a) _ n _ _ hn (List.nodup_append.mp hnd).1
      (fun p hp => walkVars_ne cs p (List.mem_reverse.mp hp)) ih
  | .mk .base n a cs, B, hg, hn => by
    simp only [VarG] at hg
    simp only [Var.name] at hn
    obtain ⟨hnd, rfl⟩ := hg
    rw [walkVar_nil]
    simp only [varEntry, expectVar]
    have := container_steps B (sortKeys a) (sortKeys a) n [] [] hn (nodup_keys_sort a hnd) (by simp)
      (by simp [nestedAll])
    simpa [walkVars] using this
  | .mk .grid n a cs, B, hg, hn => by
    simp only [VarG] at hg
    simp only [Var.name] at hn
    rw [walkVar_nil, walk_leaves cs (fun m hm => (hg.2 m hm).1)]
    simp only [varEntry, expectVar]
    have hmem : ∀ m ∈ cs.reverse, ∀ e, dget (sortKeys a) m.name ≠ some (.dict e) := by
      intro m hm e
      rw [dget_sortKeys a hg.1]
      exact (hg.2 m (List.mem_reverse.mp hm)).2 e
    have hs := members_step (sortKeys a) cs.reverse hmem
    have := container_steps B (sortKeys a) (sortKeys a) n _ _ hn (nodup_keys_sort a hg.1)
      (by intro p hp; simp only [List.mem_map] at hp; obtain ⟨m, _, rfl⟩ := hp; simp) hs
    simpa [List.map_reverse, List.map_map, Function.comp_def, pre] using this
theorem proc_vars : (cs : List Var) → (B : Dict) → VarsG cs → (keys B ++ cs.map Var.name).Nodup →
    nestedAll (B ++ varsEntries cs) ((walkVars [] cs).reverse) = .ok (B, expectVars cs)
  | [], B, _, _ => by simp [walkVars, varsEntries, nestedAll, expectVars]
  | v :: rest, B, hg, hnd => by
    simp only [VarsG] at hg
    have hnd' : (keys (B ++ [varEntry v]) ++ rest.map Var.name).Nodup := by
      simpa [keys_append, keys, varEntry_name, List.append_assoc] using hnd
    have hv : v.name ∉ keys B := by
      have := (List.nodup_append.mp hnd).2.2
      intro hmem
      exact this _ hmem _ (by simp) rfl
    have e : B ++ varsEntries (v :: rest) = (B ++ [varEntry v]) ++ varsEntries rest := by
      simp [varsEntries]
    simp only [walkVars, List.reverse_append, expectVars]
    rw [nestedAll_append, e, proc_vars rest (B ++ [varEntry v]) hg.2 hnd']
    simp only
    rw [proc_var v B hg.1 hv]
end

end Pydap.Das
