import PydapModel.DasText
/-! Lexical lemmas for the DAS value / attribute-line round trip (C08). -/
namespace Pydap.Das

/-- a string of the DAS-safe domain: no double quote, no backslash -/
def SafeStr (s : Text) : Prop := ∀ c ∈ s, c ≠ '"' ∧ c ≠ '\\'

/-- characters a printed number token is made of: not a separator, not white space, not a quote -/
def tokChar (c : Char) : Bool := notSep c && !isSpace c && c != '"'

/-- a word (type or attribute name) as the parser sees it: non-empty, no white space -/
def Word (w : Text) : Prop := w ≠ [] ∧ ∀ c ∈ w, isSpace c = false

theorem scanQ_safe (s : Text) : ∀ (c : Char) (rest : Text), SafeStr (c :: s) →
    scanQ (c :: s ++ '"' :: rest) = some (c :: s ++ ['"'], rest) := by
  induction s with
  | nil =>
    intro c rest h
    have := (h c (by simp)).2
    simp [scanQ, this]
  | cons d s ih =>
    intro c rest h
    have hd : d ≠ '"' := (h d (by simp)).1
    have hs : SafeStr (d :: s) := fun x hx => h x (by simp at hx ⊢; right; exact hx)
    have := ih d rest hs
    simp only [List.cons_append] at this ⊢
    simp [scanQ, hd, this]

theorem scanValue_str (s rest : Text) (h : SafeStr s) :
    scanValue ('"' :: s ++ '"' :: rest) = .ok ('"' :: s ++ ['"'], rest) := by
  cases s with
  | nil => simp [scanValue]
  | cons c s =>
    have hc : c ≠ '"' := (h c (by simp)).1
    have := scanQ_safe s c rest h
    simp only [List.cons_append] at this ⊢
    unfold scanValue
    split
    · rename_i heq; simp at heq; exact absurd heq.1.symm (by simpa using hc.symm)
    · rename_i r _ heq
      simp at heq; subst heq
      simp [this]
    · rename_i h1 h2; exact absurd rfl (h2 _)

theorem dropQ_id (l : Text) (h : ∀ c, l.head? = some c → c ≠ '"') : dropQ l = l := by
  cases l with
  | nil => rfl
  | cons c cs => simp [dropQ, h c rfl]

theorem stripQuotes_quoted (s : Text) (h : SafeStr s) : stripQuotes ('"' :: s ++ ['"']) = s := by
  unfold stripQuotes
  have e1 : dropQ ('"' :: s ++ ['"']) = dropQ (s ++ ['"']) := by simp [dropQ]
  rw [e1]
  cases hs : s with
  | nil => simp [dropQ]
  | cons c cs =>
    have hc : c ≠ '"' := (h c (by simp [hs])).1
    have e2 : dropQ (c :: cs ++ ['"']) = c :: cs ++ ['"'] := dropQ_id _ (by simp; exact hc)
    rw [e2]
    have e3 : (c :: cs ++ ['"']).reverse = '"' :: (c :: cs).reverse := by simp
    rw [e3]
    have e4 : dropQ ('"' :: (c :: cs).reverse) = dropQ (c :: cs).reverse := by simp [dropQ]
    rw [e4]
    have e5 : dropQ (c :: cs).reverse = (c :: cs).reverse := by
      apply dropQ_id
      intro x hx
      have : x ∈ (c :: cs).reverse := List.mem_of_mem_head? (by simpa using hx)
      have : x ∈ s := by rw [hs]; exact List.mem_reverse.mp this
      exact (h x this).1
    rw [e5]; simp

theorem takeVal_tok (t rest : Text) (ht : ∀ c ∈ t, notSep c = true)
    (hr : ∀ c, rest.head? = some c → notSep c = false) : takeVal (t ++ rest) = t ∧ dropVal (t ++ rest) = rest := by
  induction t with
  | nil =>
    cases rest with
    | nil => simp [takeVal, dropVal]
    | cons c cs => simp [takeVal, dropVal, hr c rfl]
  | cons c cs ih =>
    have hc := ht c (by simp)
    have := ih (fun x hx => ht x (by simp [hx]))
    simp [takeVal, dropVal, hc, this]

theorem scanValue_tok (t rest : Text) (hne : t ≠ []) (ht : ∀ c ∈ t, tokChar c = true)
    (hr : ∀ c, rest.head? = some c → notSep c = false) : scanValue (t ++ rest) = .ok (t, rest) := by
  have hsep : ∀ c ∈ t, notSep c = true := fun c hc => by
    have := ht c hc; simp [tokChar] at this; exact this.1.1
  have ⟨h1, h2⟩ := takeVal_tok t rest hsep hr
  cases t with
  | nil => exact absurd rfl hne
  | cons c cs =>
    have hq : c ≠ '"' := by
      have := ht c (by simp); simp [tokChar] at this; exact this.2
    have ha : alt3 (c :: cs ++ rest) = .ok (c :: cs, rest) := by
      unfold alt3; rw [h1, h2]
    simp only [List.cons_append] at ha ⊢
    unfold scanValue
    split
    · rename_i heq; simp at heq; exact absurd heq.1.symm (by simpa using hq.symm)
    · rename_i heq; simp at heq; exact absurd heq.1.symm (by simpa using hq.symm)
    · exact ha

end Pydap.Das
