/-
  `sorted(…, key=…)` as modelled by `sortBy`: sorting any permutation of a list by the position of its keys in
  that list gives the list back.
-/
import PydapModel.Dap4Order
namespace Pydap.Dmr

theorem insertBy_perm {α} (f : α → Nat) (x : α) (l : List α) : (insertBy f x l).Perm (x :: l) := by
  induction l with
  | nil => exact List.Perm.refl _
  | cons y ys ih =>
    rw [insertBy]
    split
    · exact List.Perm.refl _
    · exact (List.Perm.cons y ih).trans (List.Perm.swap x y ys)

theorem sortBy_perm {α} (f : α → Nat) (l : List α) : (sortBy f l).Perm l := by
  induction l with
  | nil => exact List.Perm.refl _
  | cons x xs ih => exact (insertBy_perm f x _).trans (List.Perm.cons x ih)

theorem insertBy_sorted {α} (f : α → Nat) (x : α) (l : List α) (h : l.Pairwise (fun a b => f a ≤ f b)) :
    (insertBy f x l).Pairwise (fun a b => f a ≤ f b) := by
  induction l with
  | nil => simp [insertBy]
  | cons y ys ih =>
    rw [insertBy]
    have hy := List.pairwise_cons.mp h
    split
    · rename_i hxy
      refine List.pairwise_cons.mpr ⟨?_, h⟩
      intro z hz
      rcases List.mem_cons.mp hz with rfl | hz'
      · exact hxy
      · exact Nat.le_trans hxy (hy.1 z hz')
    · rename_i hxy
      refine List.pairwise_cons.mpr ⟨?_, ih hy.2⟩
      intro z hz
      have : z ∈ x :: ys := (insertBy_perm f x ys).subset hz
      rcases List.mem_cons.mp this with rfl | hz'
      · omega
      · exact hy.1 z hz'

theorem sortBy_sorted {α} (f : α → Nat) (l : List α) : (sortBy f l).Pairwise (fun a b => f a ≤ f b) := by
  induction l with
  | nil => simp [sortBy]
  | cons x xs ih => exact insertBy_sorted f x _ ih

/-- two lists with the same elements, one sorted and one strictly sorted, are equal -/
theorem sorted_perm_eq {α} (f : α → Nat) (l1 l2 : List α) (hp : l1.Perm l2)
    (h1 : l1.Pairwise (fun a b => f a ≤ f b)) (h2 : l2.Pairwise (fun a b => f a < f b)) : l1 = l2 := by
  induction l1 generalizing l2 with
  | nil => exact (List.Perm.nil_eq hp)
  | cons a t ih =>
    cases l2 with
    | nil => exact absurd hp.symm (by simp)
    | cons b u =>
      have h1' := List.pairwise_cons.mp h1
      have h2' := List.pairwise_cons.mp h2
      have ha : a ∈ b :: u := hp.subset (by simp)
      have hb : b ∈ a :: t := hp.symm.subset (by simp)
      have hab : a = b := by
        rcases List.mem_cons.mp ha with e | hau
        · exact e
        · rcases List.mem_cons.mp hb with e | hbt
          · exact e.symm
          · have := h2'.1 a hau
            have := h1'.1 b hbt
            omega
      subst hab
      rw [ih u (List.Perm.cons_inv hp) h1'.2 h2'.2]

theorem idxOf_sorted {α} [BEq α] [LawfulBEq α] (l : List α) (h : l.Nodup) :
    l.Pairwise (fun a b => l.idxOf a < l.idxOf b) := by
  induction l with
  | nil => simp
  | cons x xs ih =>
    have hx := List.nodup_cons.mp h
    refine List.pairwise_cons.mpr ⟨?_, ?_⟩
    · intro y hy
      have : (x == y) = false := by
        apply beq_false_of_ne; intro e; exact hx.1 (e ▸ hy)
      simp [List.idxOf_cons, this]
    · refine (ih hx.2).imp_of_mem ?_
      intro a b ha hb hab
      have ha' : (x == a) = false := by
        apply beq_false_of_ne; intro e; exact hx.1 (e ▸ ha)
      have hb' : (x == b) = false := by
        apply beq_false_of_ne; intro e; exact hx.1 (e ▸ hb)
      simp [List.idxOf_cons, ha', hb', hab]

/-- sorting any permutation of `recs` by position of the key in `keys = recs.map k` (distinct) gives `recs` -/
theorem sortBy_perm_eq {α} (k : α → Str) (keys : List Str) (recs ws : List α)
    (hk : recs.map k = keys) (hnd : keys.Nodup) (hp : ws.Perm recs) :
    sortBy (fun r => orderIndex keys (k r)) ws = recs := by
  apply sorted_perm_eq (fun r => orderIndex keys (k r)) _ _ ((sortBy_perm _ ws).trans hp) (sortBy_sorted _ ws)
  have := idxOf_sorted keys hnd
  rw [← hk] at this ⊢
  have h2 := List.pairwise_map.mp this
  simpa only [orderIndex] using h2

end Pydap.Dmr
