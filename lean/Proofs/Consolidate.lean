/-
  C18, metadata consolidation: lemmas about the model of `consolidate_metadata` (PydapModel/Consolidate.lean).

  * `split_first`                 a text is split uniquely at the first occurrence of a separator
  * `natDigits_inj`, `slabs_inj`  decimal rendering and the hyperslab rendering of a read are injective
  * `declText_eq_ceText`          for n ≥ 1 the declared text is the client's rendering of `[0:1:n-1]`
  * `ceText_eq_declText`          a read's constraint equals a declared one only if it is that variable, whole
  * `ceText_ne_declText_zero`     the n = 0 declaration `d[0:1:-1]` is the constraint of no read
  * `consolidate_some`            what a successful consolidation hands to the key closure
  * `store_mem_runCached`, `cacheInv_after_dmr`   the store left by the DMR phase satisfies the invariant of the patched key
  * `computeBase_under`           every file of the collection passes the containment test against the declared base
  * `consolidated_needs_agree`    without the agreement hypothesis the consolidated cache changes results
-/
import PydapModel.Consolidate
import Proofs.Hyperslab
import Proofs.CacheKey
import Proofs.Cache
namespace Pydap.Cons
open Pydap Pydap.CK Pydap.Cache

/-! ### texts -/

theorem split_first {c : Char} : ∀ {u v x y : List Char}, c ∉ u → c ∉ v → u ++ c :: x = v ++ c :: y → u = v ∧ x = y
  | [], [], _, _, _, _, h => by simpa using h
  | [], b :: v, _, _, _, hv, h => by
    simp only [List.nil_append, List.cons_append, List.cons.injEq] at h
    exact absurd (h.1 ▸ List.mem_cons_self) hv
  | a :: u, [], _, _, hu, _, h => by
    simp only [List.nil_append, List.cons_append, List.cons.injEq] at h
    exact absurd (h.1 ▸ List.mem_cons_self) hu
  | a :: u, b :: v, _, _, hu, hv, h => by
    simp only [List.cons_append, List.cons.injEq] at h
    have := split_first (fun m => hu (List.mem_cons_of_mem _ m)) (fun m => hv (List.mem_cons_of_mem _ m)) h.2
    exact ⟨by rw [h.1, this.1], this.2⟩

theorem natDigits_inj {a b : Nat} (h : natDigits a = natDigits b) : a = b := by
  have := parseNatChars_natDigits a
  rw [h, parseNatChars_natDigits b] at this
  exact (Option.some.inj this).symm

theorem not_mem_digits {c : Char} (hc : isDigit c = false) (n : Nat) : c ∉ natDigits n := fun m =>
  digit_ne (natDigits_allDigits n c m) hc rfl

theorem slabText_append_inj {t t' : Nat × Nat × Nat} {r r' : List Char}
    (h : slabText t ++ r = slabText t' ++ r') : t = t' ∧ r = r' := by
  obtain ⟨a, s, b⟩ := t
  obtain ⟨a', s', b'⟩ := t'
  simp only [slabText, List.cons_append, List.append_assoc, List.cons.injEq, true_and] at h
  have h1 := split_first (not_mem_digits (by decide) a) (not_mem_digits (by decide) a') h
  have h2 := split_first (not_mem_digits (by decide) s) (not_mem_digits (by decide) s') h1.2
  have h3 := split_first (c := ']') (not_mem_digits (by decide) b) (not_mem_digits (by decide) b') (by simpa using h2.2)
  rw [natDigits_inj h1.1, natDigits_inj h2.1, natDigits_inj h3.1]
  exact ⟨rfl, h3.2⟩

theorem slabText_ne_nil (t : Nat × Nat × Nat) : slabText t ≠ [] := by simp [slabText]

theorem slabs_inj : ∀ {l l' : List (Nat × Nat × Nat)}, l.flatMap slabText = l'.flatMap slabText → l = l'
  | [], [], _ => rfl
  | [], t :: l', h => by
    simp only [List.flatMap_nil, List.flatMap_cons] at h
    exact absurd (List.append_eq_nil_iff.1 h.symm).1 (slabText_ne_nil t)
  | t :: l, [], h => by
    simp only [List.flatMap_nil, List.flatMap_cons] at h
    exact absurd (List.append_eq_nil_iff.1 h).1 (slabText_ne_nil t)
  | t :: l, t' :: l', h => by
    simp only [List.flatMap_cons] at h
    have := slabText_append_inj h
    rw [this.1, slabs_inj this.2]

theorem natDigits_small {n : Nat} (h : n < 10) : natDigits n = [digitChar n] := by
  rw [natDigits]; simp [h]

theorem lastText_pos {n : Nat} (h : 1 ≤ n) : lastText n = natDigits (n - 1) := by
  unfold lastText
  rw [intText_nonneg _ (by omega)]
  congr 1
  omega

theorem lastText_zero : lastText 0 = ['-', '1'] := by
  unfold lastText intText
  rw [if_pos (by decide)]
  have : ((0 : Nat) - 1 : Int).natAbs = 1 := by decide
  rw [this, natDigits_small (by decide)]
  rfl

theorem lit_open : "[0:1:".toList = ['[', '0', ':', '1', ':'] := by decide

/-- normal form of the rendering of a non-empty hyperslab list -/
theorem slabs_cons (t : Nat × Nat × Nat) (ts : List (Nat × Nat × Nat)) : (t :: ts).flatMap slabText =
    '[' :: (natDigits t.1 ++ ':' :: (natDigits t.2.1 ++ ':' :: (natDigits t.2.2 ++ ']' :: ts.flatMap slabText))) := by
  simp only [slabText, List.flatMap_cons, List.cons_append, List.append_assoc, List.nil_append]

/-- for n ≥ 1 the declared text is exactly what a client read of `[0:1:n-1]` on the variable `d` sends -/
theorem declText_eq_ceText (d : List Char) {n : Nat} (h : 1 ≤ n) : declText d n = ceText d [(0, 1, n - 1)] := by
  unfold declText ceText
  rw [lastText_pos h, slabs_cons, lit_open, natDigits_small (show 0 < 10 by decide),
    natDigits_small (show 1 < 10 by decide)]
  simp [digitChar]

/-- a read's constraint is a declared one only if it reads that variable from 0 with step 1 through n-1 -/
theorem ceText_eq_declText {v d : List Char} {slabs : List (Nat × Nat × Nat)} {n : Nat} (hn : 1 ≤ n)
    (hv : '[' ∉ v) (hd : '[' ∉ d) (h : ceText v slabs = declText d n) : v = d ∧ slabs = [(0, 1, n - 1)] := by
  rw [declText_eq_ceText d hn] at h
  unfold ceText at h
  cases slabs with
  | nil =>
    rw [slabs_cons] at h
    simp only [List.flatMap_nil, List.append_nil] at h
    exact absurd (h ▸ by simp) hv
  | cons t ts =>
    have h' := h
    rw [slabs_cons t ts, slabs_cons (0, 1, n - 1) []] at h'
    have := split_first hv hd h'
    refine ⟨this.1, slabs_inj ?_⟩
    rw [slabs_cons t ts, slabs_cons (0, 1, n - 1) [], this.2]

/-- the declaration of a dimension of size 0 -/
theorem declText_zero (d : List Char) : declText d 0 = d ++ ['[', '0', ':', '1', ':', '-', '1', ']'] := by
  unfold declText; rw [lastText_zero, lit_open]; simp

/-- … is the constraint of no read: reads print non-negative numbers -/
theorem ceText_ne_declText_zero {v d : List Char} (slabs : List (Nat × Nat × Nat))
    (hv : '[' ∉ v) (hd : '[' ∉ d) : ceText v slabs ≠ declText d 0 := by
  intro h
  rw [declText_zero] at h
  unfold ceText at h
  cases slabs with
  | nil =>
    simp only [List.flatMap_nil, List.append_nil] at h
    exact absurd (h ▸ by simp) hv
  | cons t ts =>
    obtain ⟨a, s, b⟩ := t
    rw [slabs_cons] at h
    have h' : v ++ '[' :: (natDigits a ++ ':' :: (natDigits s ++ ':' :: (natDigits b ++ ']' :: ts.flatMap slabText)))
        = d ++ '[' :: (['0'] ++ ':' :: (['1'] ++ ':' :: ['-', '1', ']'])) := by
      rw [h]; rfl
    have h1 := (split_first hv hd h').2
    have h2 := (split_first (not_mem_digits (by decide) a) (by decide) h1).2
    have h3 := (split_first (not_mem_digits (by decide) s) (by decide) h2).2
    have hb := natDigits_allDigits b
    cases hd' : natDigits b with
    | nil => exact natDigits_ne_nil b hd'
    | cons c cs =>
      rw [hd'] at h3 hb
      simp only [List.cons_append, List.cons.injEq] at h3
      have := hb c List.mem_cons_self
      rw [h3.1] at this
      exact absurd this (by decide)

/-! ### selection -/

theorem mem_slabSel {m i : Nat} {t : Nat × Nat × Nat} :
    i ∈ slabSel m t ↔ i < m ∧ t.1 ≤ i ∧ i ≤ t.2.2 ∧ (i - t.1) % t.2.1 = 0 := by
  simp [slabSel]

/-! ### the declaration -/

theorem mem_dedup {x : List Char} : ∀ {l : List (List Char)}, x ∈ dedup l ↔ x ∈ l
  | [] => by simp [dedup]
  | y :: ys => by
    have ih := @mem_dedup x ys
    unfold dedup
    split
    · next hy =>
      rw [ih, List.mem_cons]
      constructor
      · exact Or.inr
      · rintro (rfl | h)
        · exact mem_dedup.1 hy
        · exact h
    · rw [List.mem_cons, List.mem_cons, ih]

theorem lookup_mem' {d : List Char} {n : Nat} : ∀ {l : List (List Char × Nat)}, l.lookup d = some n → (d, n) ∈ l
  | [], h => by simp [List.lookup] at h
  | (k, v) :: l, h => by
    simp only [List.lookup] at h
    split at h
    · next hk =>
      have : d = k := by simpa using hk
      cases h; subst this; exact List.mem_cons_self
    · exact List.mem_cons_of_mem _ (lookup_mem' h)

theorem mem_lookup' {d : List Char} {n : Nat} : ∀ {l : List (List Char × Nat)}, (d, n) ∈ l → ∃ n', l.lookup d = some n'
  | (k, v) :: l, h => by
    simp only [List.lookup]
    split
    · exact ⟨v, rfl⟩
    · next hk =>
      rcases List.mem_cons.1 h with e | e
      · cases e; simp at hk
      · exact mem_lookup' e

theorem sizesInFirst_ok {f0 : FileIn} : ∀ {ds : List (List Char)} {sized : List (List Char × Nat)},
    sizesInFirst f0 ds = .ok sized → sized.map (·.1) = ds ∧ ∀ p ∈ sized, f0.dims.lookup p.1 = some p.2
  | [], sized, h => by
    simp only [sizesInFirst] at h; cases h; simp
  | d :: ds, sized, h => by
    simp only [sizesInFirst] at h
    split at h
    · cases h
    · next n hn =>
      split at h
      · cases h
      · next r hr =>
        cases h
        have := sizesInFirst_ok hr
        refine ⟨by simp [this.1], ?_⟩
        intro p hp
        rcases List.mem_cons.1 hp with e | e
        · subst e; exact hn
        · exact this.2 p e

theorem mem_dimsUnion {files : List FileIn} {d : List Char} :
    d ∈ dimsUnion files ↔ ∃ f ∈ files, ∃ n, (d, n) ∈ f.dims := by
  unfold dimsUnion
  rw [mem_dedup]
  simp only [List.mem_flatMap, List.mem_map]
  constructor
  · rintro ⟨f, hf, p, hp, rfl⟩; exact ⟨f, hf, p.2, hp⟩
  · rintro ⟨f, hf, n, hn⟩; exact ⟨f, hf, (d, n), hn, rfl⟩

/-- what a consolidation that patched the session did -/
theorem consolidate_some {files : List FileIn} {decl : Decl} (h : (consolidate true files).result = .ok (some decl)) :
    ∃ f0 rest sized, files = f0 :: rest ∧ rest ≠ [] ∧ (∀ f ∈ rest, f.scheme = f0.scheme) ∧ f0.scheme = dap4Lit ∧
      sizesInFirst f0 (dimsUnion files) = .ok sized ∧ sized ≠ [] ∧ computeBase f0 files = .ok decl.base ∧
      decl.shared = sized.map (fun p => declText p.1 p.2) ∧
      (consolidate true files).dmrGets = files.map dmrReq ∧
      (consolidate true files).dimGets = sized.map (fun p => dimReq f0 p.1 p.2) := by
  unfold consolidate at h ⊢
  simp only [Bool.not_true, Bool.false_eq_true, if_false] at h ⊢
  match files, h with
  | [], h => cases h
  | [_], h => cases h
  | f0 :: f1 :: rest, h =>
    simp only at h ⊢
    split at h
    · cases h
    · next hs =>
      split at h
      · cases h
      · next hd =>
        split at h
        · cases h
        · next sized hsz =>
          split at h
          · cases h
          · next hne =>
            split at h
            · cases h
            · next b hb =>
              simp only [Except.ok.injEq, Option.some.injEq] at h
              subst h
              refine ⟨f0, f1 :: rest, sized, rfl, by simp, ?_, by simpa using hd, hsz, hne, hb, rfl, ?_, ?_⟩
              · intro f hf
                have := hs
                simp only [List.any_eq_true, decide_eq_true_eq, not_exists, not_and, Decidable.not_not] at this
                exact this f hf
              · simp only [if_neg hs, if_neg hd, hsz, hb]; rw [if_neg hne]
              · simp only [if_neg hs, if_neg hd, hsz, hb]; rw [if_neg hne]

/-! ### the store the DMR phase leaves -/

variable {α κ ρ : Type} [DecidableEq κ]

theorem store_mem_runCached (key : α → κ) (server : α → ρ) : ∀ (us : List α) (c : Store κ ρ) (k : κ) (r : ρ),
    (k, r) ∈ (runCached key server c us).2 → (k, r) ∈ c ∨ ∃ u ∈ us, k = key u ∧ r = server u
  | [], c, k, r, h => Or.inl h
  | u :: us, c, k, r, h => by
    simp only [runCached] at h
    rcases store_mem_runCached key server us _ k r h with h' | ⟨w, hw, e⟩
    · unfold cachedGet at h'
      split at h'
      · exact Or.inl h'
      · rcases List.mem_cons.1 h' with e | e
        · cases e; exact Or.inr ⟨u, List.mem_cons_self, rfl, rfl⟩
        · exact Or.inl e
    · exact Or.inr ⟨w, List.mem_cons_of_mem _ hw, e⟩

/-- the store filled through the UNPATCHED key (phase 1) satisfies the cache invariant of the PATCHED key: a stored
    original key is hit only by a request with the same identity -/
theorem cacheInv_after_dmr {ρ : Type} (orig : List Char → List Char) (horig : ∀ a b, orig a = orig b → a = b)
    (decl : Decl) (server : Req → ρ) (adm : Req → Prop) (dmr : List Req) (hdmr : ∀ u ∈ dmr, adm u)
    (hfun : ∀ r1 r2, adm r1 → adm r2 → r1.url = r2.url → server r1 = server r2) :
    CacheInv (keyAfter orig decl) server adm (runCached (keyBefore orig) server [] dmr).2 := by
  intro k r hmem u hu hk
  rcases store_mem_runCached _ _ dmr [] k r hmem with h | ⟨w, hw, ek, er⟩
  · cases h
  · subst er
    have hkw : keyBefore orig w = Key.orig (orig w.url) := by
      simp [keyBefore, customKey, customKeyWith]
      split <;> rfl
    rw [ek, hkw] at hk
    have := customKeyWith_orig (ub := underBase) (orig := orig) (shared := decl.shared) (base := some decl.base) hk
    exact hfun u w hu (hdmr w hw) (horig _ _ this).symm

/-! ### `compute_base_url_prefix`: the declared base contains the collection -/

theorem uptoLastSlash_prefix : ∀ p : List Char, uptoLastSlash p <+: p
  | [] => List.prefix_refl _
  | c :: cs => by
    unfold uptoLastSlash
    split
    · split
      · next hc => subst hc; exact ⟨cs, rfl⟩
      · exact List.nil_prefix
    · exact List.cons_prefix_cons.2 ⟨rfl, uptoLastSlash_prefix cs⟩

theorem uptoLastSlash_ne_nil_of_mem : ∀ {p : List Char}, '/' ∈ p → uptoLastSlash p ≠ []
  | c :: cs, h => by
    unfold uptoLastSlash
    split
    · next hn =>
      rcases List.mem_cons.1 h with e | e
      · simp [← e]
      · exact absurd hn (uptoLastSlash_ne_nil_of_mem e)
    · simp

/-- a non-empty `uptoLastSlash` ends with '/' -/
theorem uptoLastSlash_getLast : ∀ (p : List Char), uptoLastSlash p ≠ [] → (uptoLastSlash p).getLast? = some '/'
  | [], h => absurd rfl h
  | c :: cs, h => by
    by_cases hn : uptoLastSlash cs = []
    · by_cases hc : c = '/'
      · simp [uptoLastSlash, hn, hc]
      · simp [uptoLastSlash, hn, hc] at h
    · have := uptoLastSlash_getLast cs hn
      simp only [uptoLastSlash, hn, if_false]
      rw [List.getLast?_cons_of_ne_nil hn]
      exact this

theorem commonPrefix2_prefix_left : ∀ a b : List Char, commonPrefix2 a b <+: a
  | [], _ => by simp [commonPrefix2]
  | _ :: _, [] => by simp [commonPrefix2]
  | a :: as, b :: bs => by
    unfold commonPrefix2
    split
    · exact List.cons_prefix_cons.2 ⟨rfl, commonPrefix2_prefix_left as bs⟩
    · exact List.nil_prefix

theorem commonPrefix2_prefix_right : ∀ a b : List Char, commonPrefix2 a b <+: b
  | [], _ => by simp [commonPrefix2]
  | _ :: _, [] => by simp [commonPrefix2]
  | a :: as, b :: bs => by
    unfold commonPrefix2
    split
    · next h => subst h; exact List.cons_prefix_cons.2 ⟨rfl, commonPrefix2_prefix_right as bs⟩
    · exact List.nil_prefix

theorem commonPrefix_prefix : ∀ (l : List (List Char)) (p : List Char), p ∈ l → commonPrefix l <+: p
  | [q], p, h => by
    simp only [List.mem_singleton] at h; subst h; exact List.prefix_refl _
  | q :: r :: rs, p, h => by
    unfold commonPrefix
    rcases List.mem_cons.1 h with e | e
    · subst e; exact commonPrefix2_prefix_left _ _
    · exact (commonPrefix2_prefix_right _ _).trans (commonPrefix_prefix (r :: rs) p e)

theorem commonPrefix2_head {a b : List Char} {c : Char} (ha : ∃ r, a = c :: r) (hb : ∃ r, b = c :: r) :
    ∃ r, commonPrefix2 a b = c :: r := by
  obtain ⟨r1, rfl⟩ := ha; obtain ⟨r2, rfl⟩ := hb
  exact ⟨commonPrefix2 r1 r2, by simp [commonPrefix2]⟩

theorem commonPrefix_head {c : Char} : ∀ (l : List (List Char)), l ≠ [] → (∀ p ∈ l, ∃ r, p = c :: r) →
    ∃ r, commonPrefix l = c :: r
  | [q], _, h => h q (by simp)
  | q :: r :: rs, _, h => by
    unfold commonPrefix
    exact commonPrefix2_head (h q (by simp)) (commonPrefix_head (r :: rs) (by simp) (fun p hp => h p (List.mem_cons_of_mem _ hp)))

theorem rstripSlash_all : ∀ (s : List Char), s.all (· = '/') = true → rstripSlash s = []
  | [], _ => rfl
  | c :: cs, h => by
    simp only [List.all_cons, Bool.and_eq_true, decide_eq_true_eq] at h
    unfold rstripSlash
    rw [rstripSlash_all cs h.2]
    simp [h.1]

theorem rstripSlash_fix : ∀ (s : List Char), s.getLast? ≠ some '/' → rstripSlash s = s
  | [], _ => rfl
  | [c], h => by
    have : c ≠ '/' := by simpa using h
    simp [rstripSlash, this]
  | c :: d :: ds, h => by
    have h' : (d :: ds).getLast? ≠ some '/' := by
      rwa [List.getLast?_cons_of_ne_nil (by simp)] at h
    have ih := rstripSlash_fix (d :: ds) h'
    unfold rstripSlash
    rw [ih]
    simp

theorem dirSlash_of_slash {p r : List Char} (hp : p = '/' :: r) :
    dirSlash p = uptoLastSlash p ∧ uptoLastSlash p ≠ [] ∧ ∃ r', uptoLastSlash p = '/' :: r' := by
  have hne : uptoLastSlash p ≠ [] := uptoLastSlash_ne_nil_of_mem (by rw [hp]; exact List.mem_cons_self)
  refine ⟨by simp [dirSlash, hne], hne, ?_⟩
  have hpre := uptoLastSlash_prefix p
  rw [hp] at hpre hne ⊢
  cases hu : uptoLastSlash ('/' :: r) with
  | nil => exact absurd hu hne
  | cons c cs =>
    rw [hu] at hpre
    have := (List.cons_prefix_cons.1 hpre).1
    exact ⟨cs, by rw [this]⟩

/-- **every file of the collection lies under the declared base**: for each URL handed to `consolidate_metadata`
    (paths as `urlparse` gives them for a URL with a host: starting with '/'), the request path `path ++ suffix`
    (".dap", ".dmr") passes the containment test of `custom_create_key` against the base `compute_base_url_prefix` returns -/
theorem computeBase_under {f0 : FileIn} {files : List FileIn} {b : Base} (h : computeBase f0 files = .ok b)
    (hslash : ∀ g ∈ files, ∃ r, g.path = '/' :: r) {f : FileIn} (hf : f ∈ files) (suffix : List Char) :
    b.host = f0.host ∧ underBasePath b.path (f.path ++ suffix) = true := by
  unfold computeBase at h
  split at h
  · cases h
  · cases h
    refine ⟨rfl, ?_⟩
    simp only
    generalize hcp : commonPrefix (files.map fun f => dirSlash f.path) = cp
    obtain ⟨rf, hrf⟩ := hslash f hf
    have hdf := dirSlash_of_slash hrf
    have hcpf : cp <+: dirSlash f.path := by
      rw [← hcp]; exact commonPrefix_prefix _ _ (List.mem_map.2 ⟨f, hf, rfl⟩)
    have hhead : ∃ r, cp = '/' :: r := by
      rw [← hcp]
      refine commonPrefix_head _ (by intro e; rw [List.map_eq_nil_iff] at e; rw [e] at hf; cases hf) ?_
      intro p hp
      obtain ⟨g, hg, rfl⟩ := List.mem_map.1 hp
      obtain ⟨rg, hrg⟩ := hslash g hg
      have := dirSlash_of_slash hrg
      rw [this.1]; exact this.2.2
    obtain ⟨rc, hrc⟩ := hhead
    have hu : uptoLastSlash cp ≠ [] := uptoLastSlash_ne_nil_of_mem (by rw [hrc]; exact List.mem_cons_self)
    have hchain : uptoLastSlash cp <+: f.path ++ suffix :=
      (uptoLastSlash_prefix cp).trans (hcpf.trans (by rw [hdf.1]; exact (uptoLastSlash_prefix _).trans (List.prefix_append _ _)))
    unfold underBasePath
    rw [Bool.or_eq_true]
    right
    rw [List.isPrefixOf_iff_prefix]
    unfold dirname
    split
    · -- the common directory, trailing slashes stripped
      have hfix : rstripSlash (rstripSlash (uptoLastSlash cp)) = rstripSlash (uptoLastSlash cp) :=
        rstripSlash_fix _ (rstripSlash_getLast _)
      rw [hfix]
      obtain ⟨k, hk⟩ := rstripSlash_spec (uptoLastSlash cp)
      have hk0 : k ≠ 0 := by
        intro e
        rw [e, List.replicate_zero, List.append_nil] at hk
        have h1 := uptoLastSlash_getLast cp hu
        rw [hk] at h1
        exact rstripSlash_getLast _ h1
      obtain ⟨k', rfl⟩ : ∃ k', k = k' + 1 := ⟨k - 1, by omega⟩
      refine List.IsPrefix.trans ?_ hchain
      refine ⟨List.replicate k' '/', ?_⟩
      have e : rstripSlash (uptoLastSlash cp) ++ ['/'] ++ List.replicate k' '/' =
          rstripSlash (uptoLastSlash cp) ++ List.replicate (k' + 1) '/' := by
        simp [List.replicate_succ]
      exact e.trans hk.symm
    · next hcond =>
      have hall : (uptoLastSlash cp).all (· = '/') = true := by
        by_cases hall : (uptoLastSlash cp).all (· = '/') = true
        · exact hall
        · exact absurd ⟨hu, hall⟩ hcond
      rw [rstripSlash_all _ hall, List.nil_append]
      exact ⟨rf ++ suffix, by rw [hrf]; rfl⟩


/-! ### examples -/

def exFileA : FileIn := ⟨dap4Lit, "dap.test".toList, "/data/A.nc".toList, none, none, [("t".toList, 2)], [("t".toList, [2])]⟩
def exFileB : FileIn := { exFileA with path := "/data/sub/B.nc".toList }
def exFileZ : FileIn := { exFileA with dims := [("t".toList, 0)] }
def exFiles : List FileIn := [exFileA, exFileB]
def exDecl : Decl := ⟨⟨httpLit, "dap.test".toList, "/data".toList⟩, [declText "t".toList 2]⟩

theorem exFiles_result : (consolidate true exFiles).result = .ok (some exDecl) := by rfl
theorem exFiles_dimGets : (consolidate true exFiles).dimGets = [dimReq exFileA "t".toList 2] := by rfl

theorem exKey_shared :
    keyAfter id exDecl (readReq exFileB "t".toList [(0, 1, 1)]) = keyAfter id exDecl (dimReq exFileA "t".toList 2) :=
  (cacheKey_shared_hit id exDecl.shared exDecl.base (readReq exFileB "t".toList [(0, 1, 1)])
    (dimReq exFileA "t".toList 2) (declText "t".toList 2)
    (by rw [declText_eq_ceText _ (by decide)]; rfl) rfl (by simp [exDecl]) rfl rfl (by decide) (by decide) (by decide)).1

theorem exKey_elem0 :
    keyAfter id exDecl (readReq exFileB "t".toList [(0, 1, 0)]) ≠ keyAfter id exDecl (readReq exFileA "t".toList [(0, 1, 0)]) := by
  intro hk
  rcases cacheKey_collide id (fun _ _ h => h) exDecl.shared (some exDecl.base) _ _ hk with e | ⟨_, c, hc, hin, _⟩
  · revert e; decide
  · simp only [exDecl, List.mem_singleton] at hin
    subst hin
    have h1 : ceText "t".toList [(0, 1, 0)] = declText "t".toList 2 := Option.some.inj hc
    have := (ceText_eq_declText (by decide) (by decide) (by decide) h1).2
    revert this; decide

/-! ### the hypothesis of the transparency theorem is needed -/

theorem keyBefore_orig (orig : List Char → List Char) (r : Req) : keyBefore orig r = Key.orig (orig r.url) := by
  simp only [keyBefore, customKey, customKeyWith]
  split <;> rfl

theorem lookup_none {κ ρ : Type} [DecidableEq κ] (k : κ) : ∀ (store : Store κ ρ), (∀ e ∈ store, e.1 ≠ k) → lookup k store = none
  | [], _ => rfl
  | (k', r) :: rest, h => by
    simp only [lookup]
    rw [if_neg (h (k', r) List.mem_cons_self)]
    exact lookup_none k rest (fun e he => h e (List.mem_cons_of_mem _ he))

/-- a request whose key equals that of the request just before it, which missed, gets that request's answer -/
theorem runCached_pair_hit {α κ ρ : Type} [DecidableEq κ] (key : α → κ) (server : α → ρ) (store : Store κ ρ) (u1 u2 : α)
    (hmiss : lookup (key u1) store = none) (hk : key u2 = key u1) :
    (runCached key server store [u1, u2]).1 = [server u1, server u1] := by
  simp [runCached, cachedGet, hmiss, hk, lookup]

theorem exKey_dim_norm : keyAfter id exDecl (dimReq exFileA "t".toList 2) =
    Key.norm httpLit exFileA.host (exDecl.base.path ++ sharedNc) (declText "t".toList 2) := by
  have hin : declText "t".toList 2 ∈ exDecl.shared := by simp [exDecl]
  have hub : underBase (some exDecl.base) (dimReq exFileA "t".toList 2) = true := by decide
  have hed : earthdataColl (dimReq exFileA "t".toList 2) = none := by decide
  simp only [keyAfter, customKey, customKeyWith, dimReq, hin, if_true]
  simp only [dimReq] at hub hed
  rw [hed]
  simp only [hub, if_true]

/-- without `hagree` consolidation does change results: two files whose `t` differ (the server echoes the URL) — the whole
    read of `t` from the second file is answered with the pre-fetched array of the first -/
theorem consolidated_needs_agree :
    ¬ (∀ (server : Req → List Char) (reads : List Req),
        (∀ r1 r2 : Req, r1.url = r2.url → server r1 = server r2) →
        (runCached (keyAfter id exDecl) server (runCached (keyBefore id) server [] (consolidate true exFiles).dmrGets).2
            ((consolidate true exFiles).dimGets ++ reads)).1
          = runPlain server ((consolidate true exFiles).dimGets ++ reads)) := by
  intro hall
  have := hall (·.url) [readReq exFileB "t".toList [(0, 1, 1)]] (fun _ _ e => e)
  rw [exFiles_dimGets] at this
  rw [show [dimReq exFileA "t".toList 2] ++ [readReq exFileB "t".toList [(0, 1, 1)]] =
    [dimReq exFileA "t".toList 2, readReq exFileB "t".toList [(0, 1, 1)]] from rfl] at this
  rw [runCached_pair_hit _ _ _ _ _ ?_ exKey_shared] at this
  · simp only [runPlain, List.map, List.cons.injEq, and_true, true_and] at this
    revert this; decide
  · apply lookup_none
    intro e he
    rcases store_mem_runCached _ _ _ [] e.1 e.2 he with h | ⟨w, _, hk, _⟩
    · cases h
    · rw [hk, keyBefore_orig, exKey_dim_norm]; exact fun h => by cases h


end Pydap.Cons
