import PydapModel.Slice
namespace Pydap

def NoEll (l : List Idx) : Prop := ∀ x ∈ l, x ≠ Idx.ell

theorem expandEll_noEll (l : List Idx) (e : Int) (h : NoEll l) : expandEll l e = (l, e) := by
  induction l with
  | nil => rfl
  | cons x xs ih =>
    have hx : x ≠ Idx.ell := h x (by simp)
    have hxs : NoEll xs := fun y hy => h y (by simp [hy])
    cases x with
    | ell => exact absurd rfl hx
    | int i => simp [expandEll, ih hxs]
    | sl s => simp [expandEll, ih hxs]

theorem expandEll_one (pre post : List Idx) (e : Int) (h1 : NoEll pre) (h2 : NoEll post) :
    expandEll (pre ++ Idx.ell :: post) e
      = (pre ++ List.replicate (e + 1).toNat (Idx.sl PSlice.all) ++ post, 0) := by
  induction pre with
  | nil => simp [expandEll, expandEll_noEll post 0 h2]
  | cons x xs ih =>
    have hx : x ≠ Idx.ell := h1 x (by simp)
    have hxs : NoEll xs := fun y hy => h1 y (by simp [hy])
    cases x with
    | ell => exact absurd rfl hx
    | int i => simp [expandEll, ih hxs]
    | sl s => simp [expandEll, ih hxs]

/-- numpy's expansion of a basic index against a rank -/
def npExpand (pre : List Idx) (post : Option (List Idx)) (rank : Nat) : List Idx :=
  match post with
  | none => pre ++ List.replicate (rank - pre.length) (Idx.sl PSlice.all)
  | some post => pre ++ List.replicate (rank - pre.length - post.length) (Idx.sl PSlice.all) ++ post

theorem zipFix_length (l : List Idx) (shape : List Nat) (h : l.length = shape.length) :
    (zipFix l shape).length = shape.length := by
  induction l generalizing shape with
  | nil => cases shape <;> simp_all [zipFix]
  | cons x xs ih => cases shape with
    | nil => simp at h
    | cons n ns => simp [zipFix, ih ns (by simpa using h)]

theorem zipFix_getElem (l : List Idx) (shape : List Nat) (h : l.length = shape.length)
    (i : Nat) (hi : i < shape.length) :
    (zipFix l shape)[i]'(by rw [zipFix_length l shape h]; exact hi)
      = fixAxis (shape[i]) (l[i]'(by omega)) := by
  induction l generalizing shape i with
  | nil => cases shape with
    | nil => simp at hi
    | cons n ns => simp at h
  | cons x xs ih => cases shape with
    | nil => simp at h
    | cons n ns =>
      cases i with
      | zero => simp [zipFix]
      | succ i => simp [zipFix]; exact ih ns (by simpa using h) i (by simpa using hi)

theorem fixSlice_noEll (idx : List Idx) (shape : List Nat) (h : NoEll idx)
    (hl : idx.length ≤ shape.length) :
    fixSlice idx shape = zipFix (npExpand idx none shape.length) shape := by
  simp only [fixSlice, npExpand, expandEll_noEll idx _ h]
  congr 3
  omega

theorem fixSlice_ell (pre post : List Idx) (shape : List Nat) (h1 : NoEll pre) (h2 : NoEll post)
    (hl : pre.length + post.length ≤ shape.length) :
    fixSlice (pre ++ Idx.ell :: post) shape = zipFix (npExpand pre (some post) shape.length) shape := by
  simp only [fixSlice, npExpand, expandEll_one pre post _ h1 h2]
  simp
  have e : ((shape.length : Int) - (↑pre.length + (↑post.length + 1)) + 1).toNat
      = shape.length - pre.length - post.length := by omega
  rw [e]

theorem npExpand_length_none (idx : List Idx) (rank : Nat) (hl : idx.length ≤ rank) :
    (npExpand idx none rank).length = rank := by
  simp [npExpand]; omega

theorem npExpand_length_some (pre post : List Idx) (rank : Nat) (hl : pre.length + post.length ≤ rank) :
    (npExpand pre (some post) rank).length = rank := by
  simp [npExpand]; omega
end Pydap
