/-
  C12 — lemmas about the `_quote` / `unquote` model.
-/
import PydapModel.Quote
namespace Pydap.Quote

theorem forall_byte {P : UInt8 → Prop} (h : ∀ n, n < 256 → P (UInt8.ofNat n)) : ∀ b, P b := by
  intro b
  have := h b.toNat (UInt8.toNat_lt b)
  simpa using this

/-- `_quote` on one byte of the part that is not passed through: urllib's quoter followed by the three
    `.replace` passes -/
def encB (b : UInt8) : Bytes := if b = 46 then [37, 50, 69] else if isSafe b then [b] else pct b

def Q (bs : Bytes) : Bytes := bs.flatMap encB

theorem flatten_chars (bs : Bytes) : (chars bs).flatten = bs := by
  induction bs with
  | nil => rfl
  | cons b t ih => simp [chars] at ih ⊢; exact ih

theorem chars_append (a b : Bytes) : chars (a ++ b) = chars a ++ chars b := by simp [chars]

theorem replChr_chars (c0 : UInt8) (r0 bs : Bytes) :
    replChr [c0] (chars r0) (chars bs) = chars (bs.flatMap fun b => if b = c0 then r0 else [b]) := by
  induction bs with
  | nil => rfl
  | cons b t ih =>
    simp only [chars, replChr, List.map_cons, List.flatMap_cons, List.map_append] at ih ⊢
    rw [ih]
    by_cases h : b = c0 <;> simp [h]

set_option maxRecDepth 100000 in
theorem passes_byte : ∀ b : UInt8,
    (((quoteByte b).flatMap fun b => if b = 46 then [37, 50, 69] else [b]).flatMap
      fun b => if b = 91 then [37, 53, 66] else [b]).flatMap (fun b => if b = 93 then [37, 53, 68] else [b]) = encB b := by
  apply forall_byte
  decide

/-- the quoted part of `_quote`, as one bytewise map -/
theorem passes_eq (rest : Str) :
    replChr [93] pct5D (replChr [91] pct5B (replChr [46] pct2E (urlQuote rest))) = chars (Q rest.flatten) := by
  have e1 : pct2E = chars [37, 50, 69] := rfl
  have e2 : pct5B = chars [37, 53, 66] := rfl
  have e3 : pct5D = chars [37, 53, 68] := rfl
  rw [e1, e2, e3, urlQuote, replChr_chars, replChr_chars, replChr_chars]
  congr 1
  simp only [List.flatMap_assoc, Q]
  congr 1
  funext b
  have := passes_byte b
  simpa [List.flatMap_assoc] using this

theorem quote_eq (name : Str) :
    quote name = (if name.take 4 == dap4 then name.take 8 else []) ++
      chars (Q (if name.take 4 == dap4 then name.drop 8 else name).flatten) := by
  simp only [quote, passes_eq]

/-! ### idempotence -/

set_option maxRecDepth 100000 in
theorem encB_stable : ∀ b, ∀ x ∈ encB b, encB x = [x] := by
  apply forall_byte
  decide

theorem Q_stable (bs : Bytes) : ∀ x ∈ Q bs, encB x = [x] := by
  intro x hx
  simp only [Q, List.mem_flatMap] at hx
  obtain ⟨b, _, hb⟩ := hx
  exact encB_stable b x hb

theorem Q_fix (bs : Bytes) (h : ∀ x ∈ bs, encB x = [x]) : Q bs = bs := by
  induction bs with
  | nil => rfl
  | cons b t ih =>
    simp only [Q, List.flatMap_cons] at ih ⊢
    rw [h b (by simp), ih (fun x hx => h x (by simp [hx]))]
    rfl

theorem chars_take (n : Nat) (bs : Bytes) : (chars bs).take n = chars (bs.take n) := by
  simp [chars, List.map_take]

theorem chars_drop (n : Nat) (bs : Bytes) : (chars bs).drop n = chars (bs.drop n) := by
  simp [chars, List.map_drop]

/-- a string made of a passed-through part of at most 8 characters and stable ASCII bytes is a fixed point -/
theorem quote_fix (p : Str) (B : Bytes) (hB : ∀ x ∈ B, encB x = [x])
    (hp : (p ++ chars B).take 4 == dap4 → p.length ≤ 8) (hp' : ¬ ((p ++ chars B).take 4 == dap4) → p = []) :
    quote (p ++ chars B) = p ++ chars B := by
  rw [quote_eq]
  by_cases hd : (p ++ chars B).take 4 == dap4
  · have hlen := hp hd
    simp only [hd, if_true]
    have h8 : (p ++ chars B).drop 8 = chars (B.drop (8 - p.length)) := by
      rw [List.drop_append, List.drop_of_length_le hlen, chars_drop]; rfl
    rw [h8, flatten_chars, Q_fix _ (fun x hx => hB x (List.mem_of_mem_drop hx)), ← h8, List.take_append_drop]
  · have := hp' hd
    subst this
    have hd' : ¬ (List.take 4 (chars B) = dap4) := by simpa using hd
    simp [hd', flatten_chars, Q_fix _ hB]

theorem quote_idem (name : Str) : quote (quote name) = quote name := by
  conv => lhs; rw [quote_eq name]
  conv => rhs; rw [quote_eq name]
  by_cases hd : name.take 4 == dap4
  · simp only [hd, if_true]
    have h4 : (name.take 4).length = 4 := by
      have := eq_of_beq hd; rw [this]; rfl
    have hl : 4 ≤ name.length := by
      rw [List.length_take] at h4; omega
    apply quote_fix _ _ (Q_stable _)
    · intro _; simp [List.length_take]; omega
    · intro hn
      exfalso; apply hn
      have : (name.take 8 ++ chars (Q (name.drop 8).flatten)).take 4 = name.take 4 := by
        rw [List.take_append_of_le_length (by simp [List.length_take]; omega), List.take_take]; simp
      rw [this]; exact hd
  · simp only [hd]
    have := quote_fix [] (Q name.flatten) (Q_stable _) (by intro _; simp) (by intro _; rfl)
    simpa using this

/-! ### output alphabet -/

set_option maxRecDepth 100000 in
theorem encB_legal : ∀ b, ∀ x ∈ encB b, legal x = true := by
  apply forall_byte
  decide

theorem quote_legal (name : Str) (h : ¬ (name.take 4 == dap4)) :
    ∀ c ∈ quote name, ∃ b, c = [b] ∧ legal b = true := by
  rw [quote_eq]
  have h' : (name.take 4 == dap4) = false := by simpa using h
  rw [h']
  intro c hc
  simp only [Bool.false_eq_true, if_false, List.nil_append, chars] at hc
  rw [List.mem_map] at hc
  obtain ⟨b, hb, rfl⟩ := hc
  refine ⟨b, rfl, ?_⟩
  simp only [Q, List.mem_flatMap] at hb
  obtain ⟨a, _, ha⟩ := hb
  exact encB_legal a b ha

end Pydap.Quote
