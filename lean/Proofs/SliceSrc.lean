/-
  The source text of pydap's slice arithmetic, translated on every run by harness/py2lean.py into MiniPy syntax
  (PydapModel/Generated/SliceSrc.lean), computes exactly the hand-written model functions of PydapModel/Slice.lean.
  These theorems are the *checked tie by translation* for C03's arithmetic core: if the source changes, the generated
  syntax tree changes and the theorems are re-proved (or fail) against what the code says now.
-/
import Proofs.MiniPy
import PydapModel.Generated.SliceSrc
namespace Pydap
open MiniPy

def valOfSlice (s : PSlice) : Val := .slice s.start s.stop s.step




theorem src_fix_slice_axis_slice (N : Int) (s : PSlice) :
    runItem [("s", valOfSlice s), ("N", .int N)] Gen.src_fix_slice_axis "@item" = .ok (valOfSlice (fixSl N s)) := by
  obtain ⟨a, b, c⟩ := s
  unfold Gen.src_fix_slice_axis valOfSlice fixSl
  rcases a with _ | a <;> rcases b with _ | b
  all_goals (try (by_cases ha : a < 0))
  all_goals mp_path
  all_goals mp_finish

theorem src_fix_slice_axis_int (N : Int) (i : Int) :
    runItem [("s", .int i), ("N", .int N)] Gen.src_fix_slice_axis "@item"
      = .ok (match fixAxis N (Idx.int i) with | Idx.int j => Val.int j | _ => Val.none) := by
  unfold Gen.src_fix_slice_axis fixAxis
  by_cases h : i < 0 <;> mp_path

def valOfIdx : Idx → Val
  | Idx.int i => .int i
  | Idx.sl s => valOfSlice s
  | Idx.ell => .none

theorem src_combine_slices_axis_eq (e1 e2 : Idx) (h1 : e1 ≠ Idx.ell) (h2 : e2 ≠ Idx.ell) :
    runItem [("exp1", valOfIdx e1), ("exp2", valOfIdx e2)] Gen.src_combine_slices_axis "@item"
      = .ok (valOfSlice (combine1 (toSlice e1) (toSlice e2))) := by
  unfold Gen.src_combine_slices_axis
  rcases e1 with i1 | ⟨a1, b1, c1⟩ | _ <;> rcases e2 with i2 | ⟨a2, b2, c2⟩ | _ <;>
    simp only [ne_eq, not_true_eq_false, reduceCtorEq, not_false_eq_true] at h1 h2
  all_goals unfold valOfIdx valOfSlice toSlice combine1
  · mp_path
    mp_finish
  · rcases b2 with _ | b2 <;> mp_path <;> mp_finish
  · rcases b1 with _ | b1 <;> mp_path <;> mp_finish
  · rcases b1 with _ | b1 <;> rcases b2 with _ | b2 <;> mp_path <;> mp_finish

theorem src_hyperslab_triple_eq (s : PSlice) :
    runItem [("s", valOfSlice s)] Gen.src_hyperslab_triple "@t0" = .ok (.int (hyperTriple s).1) ∧
    runItem [("s", valOfSlice s)] Gen.src_hyperslab_triple "@t1" = .ok (.int (hyperTriple s).2.1) ∧
    runItem [("s", valOfSlice s)] Gen.src_hyperslab_triple "@t2" = .ok (.int (hyperTriple s).2.2) := by
  obtain ⟨a, b, c⟩ := s
  unfold Gen.src_hyperslab_triple valOfSlice hyperTriple
  refine ⟨?_, ?_, ?_⟩ <;> mp_path
  rfl

theorem idx_ilist (env : Env) (e : Expr) (l : List Int) (n : Nat) (v : Int)
    (he : eval env e = .ok (.ilist l)) (hv : l[n]? = some v) : eval env (.idx e n) = .ok (.int v) := by
  simp only [eval, he, bind_ok', hv]

theorem len_ilist (env : Env) (e : Expr) (l : List Int)
    (he : eval env e = .ok (.ilist l)) : eval env (.len e) = .ok (.int l.length) := by
  simp only [eval, he, bind_ok']

theorem src_parse_hyperslab_group_eq (l : List Int) (hl : l ≠ []) :
    runItem [("tokens", .ilist l)] Gen.src_parse_hyperslab_group "@item"
      = (match parseGroup l with
         | .ok s => .ok (valOfSlice s)
         | .error _ => .error (.raised "ConstraintExpressionError")) := by
  unfold Gen.src_parse_hyperslab_group
  match l, hl with
  | [a], _ =>
    simp only [parseGroup, valOfSlice]
    mp_path
    simp (decide := true) [lookup_setVar_ne, lookup_cons_ne, asInt_int, toOpt_int]
  | [a, b], _ =>
    simp only [parseGroup, valOfSlice]
    mp_path
    simp (decide := true) [lookup_setVar_ne, lookup_cons_ne, asInt_int, toOpt_int]
  | [a, k, b], _ =>
    simp only [parseGroup, valOfSlice]
    mp_path
    simp (decide := true) [lookup_setVar_ne, lookup_cons_ne, asInt_int, toOpt_int]
  | a :: b :: c :: d :: rest, _ =>
    simp only [parseGroup]
    mp_path
    have h1 : ¬ ((rest.length : Int) + 1 + 1 + 1 + 1 = 1) := by omega
    have h2 : ¬ ((rest.length : Int) + 1 + 1 + 1 + 1 = 2) := by omega
    have h3 : ¬ ((rest.length : Int) + 1 + 1 + 1 + 1 = 3) := by omega
    simp (decide := true) [lookup_setVar_ne, lookup_cons_ne, asInt_int, toOpt_int, h1, h2, h3]
end Pydap
