/-
  C12 — the tree invariant under `copy.copy`, selection by a tuple of names and data assignment.

  `DatasetType.__setitem__` derives the id of a root-level variable from its key after turning `%2E` back
  into `.`; `DatasetType.__copy__` re-inserts every child through it.  The invariant that survives *all*
  operations therefore also says that no stored name contains a literal `%2E` (`escOk`); the names of the
  property's alphabet (no literal `%`) satisfy it.
-/
import PydapModel.Heap
import Proofs.Quote
import Proofs.Tree
namespace Pydap.Tree
open Pydap.Quote

/-! ### names without a literal `%2E` -/

/-- the (quoted) name has no `%2E`: `DatasetType.__setitem__` would not see a `.` in it -/
def nameEsc (n : Str) : Bool := (splitOn dot (rep3 [37] [50] [69] dot n)).length == 1

def escOk : Forest → Bool
  | .nil => true
  | .cons h kids rest => nameEsc h.name && escOk kids && escOk rest

def escO (o : Obj) : Bool := nameEsc o.hdr.name && escOk o.kids

theorem dsKeyOk_of_esc (key n : Str) (hq : quote key = n) (he : nameEsc n = true) : dsKeyOk key := by
  simp only [dsKeyOk, hq]
  simpa [nameEsc] using he

theorem nameEsc_of_dsKeyOk (key : Str) (h : dsKeyOk key) : nameEsc (quote key) = true := by
  simpa [nameEsc, dsKeyOk] using h

theorem setIdKids_esc (pk : Kind) (pid : Str) (vis : List Str) (f : Forest) :
    escOk (setIdKids pk pid vis f) = escOk f := by
  induction f generalizing pk pid vis with
  | nil => rfl
  | cons h kids rest ihk ihr =>
    simp only [setIdKids]
    split
    · simp only [escOk, ihk, ihr]
    · simp only [escOk, ihr]

theorem escOk_remove (k : Str) (f : Forest) (h : escOk f = true) : escOk (f.remove k) = true := by
  induction f with
  | nil => rfl
  | cons h0 kids rest _ ihr =>
    simp only [escOk, Bool.and_eq_true] at h
    simp only [Forest.remove]
    split
    · exact h.2
    · simp only [escOk, Bool.and_eq_true]; exact ⟨h.1, ihr h.2⟩

theorem escOk_put (o : Obj) (f : Forest) (hf : escOk f = true) (ho : escO o = true) :
    escOk (f.put o) = true := by
  simp only [escO, Bool.and_eq_true] at ho
  induction f with
  | nil => simp [Forest.put, escOk, ho.1, ho.2]
  | cons h0 kids rest _ ihr =>
    simp only [escOk, Bool.and_eq_true] at hf
    simp only [Forest.put]
    split
    · simp only [escOk, Bool.and_eq_true]; exact ⟨⟨ho.1, ho.2⟩, hf.2⟩
    · simp only [escOk, Bool.and_eq_true]; exact ⟨hf.1, ihr hf.2⟩

theorem escOk_update (k : Str) (g : Obj → Except Err Obj) (f f' : Forest)
    (hg : ∀ o r, escO o = true → g o = .ok r → escO r = true)
    (hf : escOk f = true) (h : f.update k g = .ok f') : escOk f' = true := by
  induction f generalizing f' with
  | nil => simp [Forest.update] at h
  | cons h0 kids rest _ ihr =>
    simp only [escOk, Bool.and_eq_true] at hf
    simp only [Forest.update] at h
    split at h
    · cases hg0 : g ⟨h0, kids⟩ with
      | error e => rw [hg0] at h; cases h
      | ok r =>
        rw [hg0] at h; cases h
        have := hg _ r (by simp [escO, hf.1.1, hf.1.2]) hg0
        simp only [escO, Bool.and_eq_true] at this
        simp only [escOk, Bool.and_eq_true]; exact ⟨this, hf.2⟩
    · cases hu : Forest.update k g rest with
      | error e => rw [hu] at h; cases h
      | ok r =>
        rw [hu] at h; cases h
        simp only [escOk, Bool.and_eq_true]; exact ⟨hf.1, ihr r hf.2 hu⟩

theorem find?_esc (k : Str) (f : Forest) (c : Obj) (hf : escOk f = true) (h : f.find? k = some c) :
    escO c = true := by
  induction f with
  | nil => simp [Forest.find?] at h
  | cons h0 kids rest _ ihr =>
    simp only [escOk, Bool.and_eq_true] at hf
    simp only [Forest.find?] at h
    split at h
    · cases h; simp [escO, hf.1.1, hf.1.2]
    · exact ihr hf.2 h

/-! ### decomposition of `__setitem__` / `__delitem__` -/

theorem delItem_eq (o r : Obj) (key : Str) (h : delItem o key = .ok r) :
    r = ⟨{ o.hdr with visible := o.hdr.visible.erase key }, o.kids.remove key⟩ := by
  unfold delItem at h
  split at h; · cases h
  split at h; · cases h
  cases h; rfl

theorem insertItem_eq (o item r : Obj) (key : Str) (h : insertItem o key item = .ok r) :
    ∃ o1, (o1 = o ∨ delItem o key = .ok o1) ∧
      r = ⟨{ o1.hdr with visible := o1.hdr.visible ++ [key] }, o1.kids.put item⟩ := by
  unfold insertItem at h
  by_cases hc : o.hdr.visible.contains key = true
  · simp only [hc, if_true] at h
    cases hd : delItem o key with
    | error e => rw [hd] at h; cases h
    | ok o1 => rw [hd] at h; exact ⟨o1, Or.inr rfl, by cases h; rfl⟩
  · simp only [hc] at h
    exact ⟨o, Or.inl rfl, by cases h; rfl⟩

theorem insertItem_fresh (o item r : Obj) (key : Str) (hn : key ∉ o.hdr.visible)
    (h : insertItem o key item = .ok r) :
    r = ⟨{ o.hdr with visible := o.hdr.visible ++ [key] }, o.kids.put item⟩ := by
  unfold insertItem at h
  have hc : ¬ (o.hdr.visible.contains key = true) := by simpa using hn
  simp only [hc] at h
  cases h; rfl

theorem setId_eq (item r : Obj) (nid : Str) (h : setId item nid = .ok r) :
    r = ⟨{ item.hdr with id := nid }, setIdKids item.hdr.kind nid item.hdr.visible item.kids⟩ := by
  unfold setId at h
  split at h
  · cases h; rfl
  · cases h

/-- both `__setitem__`s: the key is the quoted name of the item, the item gets a new id (`_set_id`
    recursion), then the common insertion -/
theorem setItem_decomp (o item r : Obj) (key : Str) (h : setItem o key item = .ok r) :
    o.hdr.kind ≠ .base ∧ quote key = item.hdr.name ∧
    ∃ nid it, setId item nid = .ok it ∧ insertItem o item.hdr.name it = .ok r := by
  unfold setItem at h
  split at h
  · cases h
  · rename_i hd
    refine ⟨by rw [hd]; decide, ?_⟩
    unfold setItemDataset at h
    simp only [bind, Except.bind, throw, throwThe, MonadExceptOf.throw] at h
    split at h; · cases h
    split at h; · cases h
    split at h; · cases h
    split at h; · cases h
    rename_i hne
    have hkey : quote key = item.hdr.name := by simpa using hne
    refine ⟨hkey, ?_⟩
    split at h
    · cases h
    · rename_i it hs
      rw [hkey] at h
      exact ⟨_, it, hs, h⟩
  · rename_i hnb hnd
    refine ⟨fun e => hnb e, ?_⟩
    split at h; · cases h
    unfold setItemStruct at h
    simp only [bind, Except.bind, throw, throwThe, MonadExceptOf.throw] at h
    split at h; · cases h
    rename_i hne
    have hkey : quote key = item.hdr.name := by simpa using hne
    refine ⟨hkey, ?_⟩
    split at h
    · cases h
    · rename_i it hs
      rw [hkey] at h
      exact ⟨_, it, hs, h⟩

/-! ### `escOk` under the editing operations -/

theorem delItem_esc (o r : Obj) (key : Str) (ho : escO o = true) (h : delItem o key = .ok r) :
    escO r = true := by
  rw [delItem_eq o r key h]
  simp only [escO, Bool.and_eq_true] at ho ⊢
  exact ⟨ho.1, escOk_remove _ _ ho.2⟩

theorem insertItem_esc (o item r : Obj) (key : Str) (ho : escO o = true) (hi : escO item = true)
    (h : insertItem o key item = .ok r) : escO r = true := by
  obtain ⟨o1, h1, rfl⟩ := insertItem_eq o item r key h
  have : escO o1 = true := by
    rcases h1 with rfl | h1
    · exact ho
    · exact delItem_esc o o1 key ho h1
  simp only [escO, Bool.and_eq_true] at this ⊢
  exact ⟨this.1, escOk_put _ _ this.2 hi⟩

theorem setId_esc (item r : Obj) (nid : Str) (h : setId item nid = .ok r) : escO r = escO item := by
  rw [setId_eq item r nid h]
  simp only [escO, setIdKids_esc]

theorem setItem_esc (o item r : Obj) (key : Str) (ho : escO o = true) (hi : escO item = true)
    (h : setItem o key item = .ok r) : escO r = true := by
  obtain ⟨_, _, nid, it, hs, hins⟩ := setItem_decomp o item r key h
  exact insertItem_esc o it r _ ho (by rw [setId_esc item it nid hs]; exact hi) hins

theorem modifyAt_esc (g : Obj → Except Err Obj)
    (hg : ∀ o r, escO o = true → g o = .ok r → escO r = true) (path : List Str) :
    ∀ o r, escO o = true → modifyAt g path o = .ok r → escO r = true := by
  induction path with
  | nil => intro o r ho h; exact hg o r ho h
  | cons k ks ih =>
    intro o r ho h
    simp only [modifyAt] at h
    split at h; · cases h
    split at h; · cases h
    cases hu : o.kids.update (quote k) (modifyAt g ks) with
    | error e => rw [hu] at h; cases h
    | ok kids' =>
      rw [hu] at h; cases h
      simp only [escO, Bool.and_eq_true] at ho ⊢
      exact ⟨ho.1, escOk_update _ _ _ _ ih ho.2 hu⟩

/-! ### the invariant carried through every operation -/

/-- `invObj` plus: no stored name has a literal `%2E` -/
def invE (o : Obj) : Prop := invO o ∧ escO o = true

theorem setItem_invE (o item r : Obj) (key : Str) (ho : invE o) (hi : invE item)
    (h : setItem o key item = .ok r) : invE r ∧ sameHead o r := by
  obtain ⟨_, hkey, _⟩ := setItem_decomp o item r key h
  have he : nameEsc item.hdr.name = true := by
    have := hi.2; simp only [escO, Bool.and_eq_true] at this; exact this.1
  have := setItem_inv o item r key ho.1 hi.1 (fun _ => dsKeyOk_of_esc key _ hkey he) h
  exact ⟨⟨this.1, setItem_esc o item r key ho.2 hi.2 h⟩, this.2⟩

theorem find?_invO (k : Str) (pk : Kind) (pid : Str) (vis : List Str) (f : Forest) (c : Obj)
    (hs : shapeOk f = true) (hi : idsOk pk pid vis f = true) (h : f.find? k = some c) : invO c := by
  induction f with
  | nil => simp [Forest.find?] at h
  | cons h0 kids rest _ ihr =>
    simp only [shapeOk, Bool.and_eq_true] at hs
    obtain ⟨⟨⟨⟨⟨⟨s1, s2⟩, s3⟩, s4⟩, s5⟩, s6⟩, s7⟩ := hs
    simp only [idsOk, Bool.and_eq_true] at hi
    obtain ⟨⟨i1, i2⟩, i3⟩ := hi
    simp only [Forest.find?] at h
    split at h
    · cases h
      refine ⟨?_, i2⟩
      simp only [shapeO, shapeOk, Bool.and_eq_true]
      exact ⟨⟨⟨⟨⟨⟨s1, s2⟩, by simp [Forest.keys]⟩, s4⟩, s5⟩, s6⟩, trivial⟩
    · exact ihr s7 i3 h

theorem find?_invE (k : Str) (o c : Obj) (ho : invE o) (h : o.kids.find? k = some c) : invE c := by
  obtain ⟨⟨hs, hi⟩, he⟩ := ho
  rw [shapeO_parts] at hs
  simp only [escO, Bool.and_eq_true] at he
  exact ⟨find?_invO k _ _ _ _ c hs.2.2.2.2 hi h, find?_esc k _ c he.2 h⟩

theorem navigate_invE (path : List Str) : ∀ o c, invE o → navigate path o = .ok c → invE c := by
  induction path with
  | nil => intro o c ho h; simp only [navigate] at h; cases h; exact ho
  | cons k ks ih =>
    intro o c ho h
    simp only [navigate] at h
    split at h; · cases h
    split at h
    · cases h
    · rename_i c1 hf
      exact ih c1 c (find?_invE _ o c1 ho hf) h

theorem getItem_invE (o c : Obj) (key : Str) (ho : invE o) (h : getItem o key = .ok c) : invE c := by
  unfold getItem at h
  split at h
  · rename_i c1 hf
    cases h; exact find?_invE _ o c ho hf
  · split at h; · cases h
    split at h
    · cases h; exact ho
    · split at h <;> cases h

end Pydap.Tree
