/-
  C12 — the tree invariant under `copy.copy`, selection by a tuple of names and data assignment.

  `DatasetType.__setitem__` derives the id of a root-level variable from its key after turning `%2E` back
  into `.`; `DatasetType.__copy__` re-inserts every child through it.  The invariant that survives *all*
  operations therefore also says that no stored name contains a literal `%2E` (`escOk`); the names of the
  property's alphabet (no literal `%`) satisfy it.
-/
import PydapModel.Heap
import Proofs.Quote
import Proofs.Tree
namespace Pydap.Tree
open Pydap.Quote

/-! ### names without a literal `%2E` -/

def escOk : Forest → Bool
  | .nil => true
  | .cons h kids rest => nameEsc h.name && escOk kids && escOk rest

def escO (o : Obj) : Bool := nameEsc o.hdr.name && escOk o.kids

theorem dsKeyOk_of_esc (key n : Str) (hq : quote key = n) (he : nameEsc n = true) : dsKeyOk key := by
  simp only [dsKeyOk, hq]
  simpa [nameEsc] using he

theorem nameEsc_of_dsKeyOk (key : Str) (h : dsKeyOk key) : nameEsc (quote key) = true := by
  simpa [nameEsc, dsKeyOk] using h

theorem setIdKids_esc (pk : Kind) (pid : Str) (vis : List Str) (f : Forest) :
    escOk (setIdKids pk pid vis f) = escOk f := by
  induction f generalizing pk pid vis with
  | nil => rfl
  | cons h kids rest ihk ihr =>
    simp only [setIdKids]
    split
    · simp only [escOk, ihk, ihr]
    · simp only [escOk, ihr]

theorem escOk_remove (k : Str) (f : Forest) (h : escOk f = true) : escOk (f.remove k) = true := by
  induction f with
  | nil => rfl
  | cons h0 kids rest _ ihr =>
    simp only [escOk, Bool.and_eq_true] at h
    simp only [Forest.remove]
    split
    · exact h.2
    · simp only [escOk, Bool.and_eq_true]; exact ⟨h.1, ihr h.2⟩

theorem escOk_put (o : Obj) (f : Forest) (hf : escOk f = true) (ho : escO o = true) :
    escOk (f.put o) = true := by
  simp only [escO, Bool.and_eq_true] at ho
  induction f with
  | nil => simp [Forest.put, escOk, ho.1, ho.2]
  | cons h0 kids rest _ ihr =>
    simp only [escOk, Bool.and_eq_true] at hf
    simp only [Forest.put]
    split
    · simp only [escOk, Bool.and_eq_true]; exact ⟨⟨ho.1, ho.2⟩, hf.2⟩
    · simp only [escOk, Bool.and_eq_true]; exact ⟨hf.1, ihr hf.2⟩

theorem escOk_update (k : Str) (g : Obj → Except Err Obj) (f f' : Forest)
    (hg : ∀ o r, escO o = true → g o = .ok r → escO r = true)
    (hf : escOk f = true) (h : f.update k g = .ok f') : escOk f' = true := by
  induction f generalizing f' with
  | nil => simp [Forest.update] at h
  | cons h0 kids rest _ ihr =>
    simp only [escOk, Bool.and_eq_true] at hf
    simp only [Forest.update] at h
    split at h
    · cases hg0 : g ⟨h0, kids⟩ with
      | error e => rw [hg0] at h; cases h
      | ok r =>
        rw [hg0] at h; cases h
        have := hg _ r (by simp [escO, hf.1.1, hf.1.2]) hg0
        simp only [escO, Bool.and_eq_true] at this
        simp only [escOk, Bool.and_eq_true]; exact ⟨this, hf.2⟩
    · cases hu : Forest.update k g rest with
      | error e => rw [hu] at h; cases h
      | ok r =>
        rw [hu] at h; cases h
        simp only [escOk, Bool.and_eq_true]; exact ⟨hf.1, ihr r hf.2 hu⟩

theorem find?_esc (k : Str) (f : Forest) (c : Obj) (hf : escOk f = true) (h : f.find? k = some c) :
    escO c = true := by
  induction f with
  | nil => simp [Forest.find?] at h
  | cons h0 kids rest _ ihr =>
    simp only [escOk, Bool.and_eq_true] at hf
    simp only [Forest.find?] at h
    split at h
    · cases h; simp [escO, hf.1.1, hf.1.2]
    · exact ihr hf.2 h

/-! ### decomposition of `__setitem__` / `__delitem__` -/

theorem delItem_eq (o r : Obj) (key : Str) (h : delItem o key = .ok r) :
    r = ⟨{ o.hdr with visible := o.hdr.visible.erase key }, o.kids.remove key⟩ := by
  unfold delItem at h
  split at h; · cases h
  split at h; · cases h
  cases h; rfl

theorem insertItem_eq (o item r : Obj) (key : Str) (h : insertItem o key item = .ok r) :
    ∃ o1, (o1 = o ∨ delItem o key = .ok o1) ∧
      r = ⟨{ o1.hdr with visible := o1.hdr.visible ++ [key] }, o1.kids.put item⟩ := by
  unfold insertItem at h
  by_cases hc : o.hdr.visible.contains key = true
  · simp only [hc, if_true] at h
    cases hd : delItem o key with
    | error e => rw [hd] at h; cases h
    | ok o1 => rw [hd] at h; exact ⟨o1, Or.inr rfl, by cases h; rfl⟩
  · simp only [hc] at h
    exact ⟨o, Or.inl rfl, by cases h; rfl⟩

theorem insertItem_fresh (o item r : Obj) (key : Str) (hn : key ∉ o.hdr.visible)
    (h : insertItem o key item = .ok r) :
    r = ⟨{ o.hdr with visible := o.hdr.visible ++ [key] }, o.kids.put item⟩ := by
  unfold insertItem at h
  have hc : ¬ (o.hdr.visible.contains key = true) := by simpa using hn
  simp only [hc] at h
  cases h; rfl

theorem setId_eq (item r : Obj) (nid : Str) (h : setId item nid = .ok r) :
    r = ⟨{ item.hdr with id := nid }, setIdKids item.hdr.kind nid item.hdr.visible item.kids⟩ := by
  unfold setId at h
  split at h
  · cases h; rfl
  · cases h

/-- both `__setitem__`s: the key is the quoted name of the item, the item gets a new id (`_set_id`
    recursion), then the common insertion -/
theorem setItem_decomp (o item r : Obj) (key : Str) (h : setItem o key item = .ok r) :
    o.hdr.kind ≠ .base ∧ quote key = item.hdr.name ∧
    ∃ nid it, setId item nid = .ok it ∧ insertItem o item.hdr.name it = .ok r := by
  unfold setItem at h
  split at h
  · cases h
  · rename_i hd
    refine ⟨by rw [hd]; decide, ?_⟩
    unfold setItemDataset at h
    simp only [bind, Except.bind, throw, throwThe, MonadExceptOf.throw] at h
    split at h; · cases h
    split at h; · cases h
    split at h; · cases h
    split at h; · cases h
    rename_i hne
    have hkey : quote key = item.hdr.name := by simpa using hne
    refine ⟨hkey, ?_⟩
    split at h
    · cases h
    · rename_i it hs
      rw [hkey] at h
      exact ⟨_, it, hs, h⟩
  · rename_i hnb hnd
    refine ⟨fun e => hnb e, ?_⟩
    split at h; · cases h
    unfold setItemStruct at h
    simp only [bind, Except.bind, throw, throwThe, MonadExceptOf.throw] at h
    split at h; · cases h
    rename_i hne
    have hkey : quote key = item.hdr.name := by simpa using hne
    refine ⟨hkey, ?_⟩
    split at h
    · cases h
    · rename_i it hs
      rw [hkey] at h
      exact ⟨_, it, hs, h⟩

/-! ### `escOk` under the editing operations -/

theorem delItem_esc (o r : Obj) (key : Str) (ho : escO o = true) (h : delItem o key = .ok r) :
    escO r = true := by
  rw [delItem_eq o r key h]
  simp only [escO, Bool.and_eq_true] at ho ⊢
  exact ⟨ho.1, escOk_remove _ _ ho.2⟩

theorem insertItem_esc (o item r : Obj) (key : Str) (ho : escO o = true) (hi : escO item = true)
    (h : insertItem o key item = .ok r) : escO r = true := by
  obtain ⟨o1, h1, rfl⟩ := insertItem_eq o item r key h
  have : escO o1 = true := by
    rcases h1 with rfl | h1
    · exact ho
    · exact delItem_esc o o1 key ho h1
  simp only [escO, Bool.and_eq_true] at this ⊢
  exact ⟨this.1, escOk_put _ _ this.2 hi⟩

theorem setId_esc (item r : Obj) (nid : Str) (h : setId item nid = .ok r) : escO r = escO item := by
  rw [setId_eq item r nid h]
  simp only [escO, setIdKids_esc]

theorem setItem_esc (o item r : Obj) (key : Str) (ho : escO o = true) (hi : escO item = true)
    (h : setItem o key item = .ok r) : escO r = true := by
  obtain ⟨_, _, nid, it, hs, hins⟩ := setItem_decomp o item r key h
  exact insertItem_esc o it r _ ho (by rw [setId_esc item it nid hs]; exact hi) hins

theorem modifyAt_esc (g : Obj → Except Err Obj)
    (hg : ∀ o r, escO o = true → g o = .ok r → escO r = true) (path : List Str) :
    ∀ o r, escO o = true → modifyAt g path o = .ok r → escO r = true := by
  induction path with
  | nil => intro o r ho h; exact hg o r ho h
  | cons k ks ih =>
    intro o r ho h
    simp only [modifyAt] at h
    split at h; · cases h
    split at h; · cases h
    cases hu : o.kids.update (quote k) (modifyAt g ks) with
    | error e => rw [hu] at h; cases h
    | ok kids' =>
      rw [hu] at h; cases h
      simp only [escO, Bool.and_eq_true] at ho ⊢
      exact ⟨ho.1, escOk_update _ _ _ _ ih ho.2 hu⟩

/-! ### the invariant carried through every operation -/

/-- `invObj` plus: no stored name has a literal `%2E` -/
def invE (o : Obj) : Prop := invO o ∧ escO o = true

theorem setItem_invE (o item r : Obj) (key : Str) (ho : invE o) (hi : invE item)
    (h : setItem o key item = .ok r) : invE r ∧ sameHead o r := by
  obtain ⟨_, hkey, _⟩ := setItem_decomp o item r key h
  have he : nameEsc item.hdr.name = true := by
    have := hi.2; simp only [escO, Bool.and_eq_true] at this; exact this.1
  have := setItem_inv o item r key ho.1 hi.1 (fun _ => dsKeyOk_of_esc key _ hkey he) h
  exact ⟨⟨this.1, setItem_esc o item r key ho.2 hi.2 h⟩, this.2⟩

theorem find?_invO (k : Str) (pk : Kind) (pid : Str) (vis : List Str) (f : Forest) (c : Obj)
    (hs : shapeOk f = true) (hi : idsOk pk pid vis f = true) (h : f.find? k = some c) : invO c := by
  induction f with
  | nil => simp [Forest.find?] at h
  | cons h0 kids rest _ ihr =>
    simp only [shapeOk, Bool.and_eq_true] at hs
    obtain ⟨⟨⟨⟨⟨⟨s1, s2⟩, s3⟩, s4⟩, s5⟩, s6⟩, s7⟩ := hs
    simp only [idsOk, Bool.and_eq_true] at hi
    obtain ⟨⟨i1, i2⟩, i3⟩ := hi
    simp only [Forest.find?] at h
    split at h
    · cases h
      refine ⟨?_, i2⟩
      simp only [shapeO, shapeOk, Bool.and_eq_true]
      exact ⟨⟨⟨⟨⟨⟨s1, s2⟩, by simp [Forest.keys]⟩, s4⟩, s5⟩, s6⟩, trivial⟩
    · exact ihr s7 i3 h

theorem find?_invE (k : Str) (o c : Obj) (ho : invE o) (h : o.kids.find? k = some c) : invE c := by
  obtain ⟨⟨hs, hi⟩, he⟩ := ho
  rw [shapeO_parts] at hs
  simp only [escO, Bool.and_eq_true] at he
  exact ⟨find?_invO k _ _ _ _ c hs.2.2.2.2 hi h, find?_esc k _ c he.2 h⟩

theorem navigate_invE (path : List Str) : ∀ o c, invE o → navigate path o = .ok c → invE c := by
  induction path with
  | nil => intro o c ho h; simp only [navigate] at h; cases h; exact ho
  | cons k ks ih =>
    intro o c ho h
    simp only [navigate] at h
    split at h; · cases h
    split at h
    · cases h
    · rename_i c1 hf
      exact ih c1 c (find?_invE _ o c1 ho hf) h

theorem getItem_invE (o c : Obj) (key : Str) (ho : invE o) (h : getItem o key = .ok c) : invE c := by
  unfold getItem at h
  split at h
  · rename_i c1 hf
    cases h; exact find?_invE _ o c ho hf
  · split at h; · cases h
    split at h
    · cases h; exact ho
    · split at h <;> cases h

/-! ### `copy.copy` -/

/-- what a copy takes over from its source: name, class, attribute values and the data object (only Base
    and Sequence objects own one) -/
def entry (h : Hdr) : Str × Kind × List (Str × AVal) × DRef :=
  (h.name, h.kind, h.attrs, if h.kind = .base ∨ h.kind = .seq then h.data else .none)

/-- the entries of everything stored in a forest, in `_dict` order, parents first -/
def contents : Forest → List (Str × Kind × List (Str × AVal) × DRef)
  | .nil => []
  | .cons h kids rest => entry h :: (contents kids ++ contents rest)

def contentsO (o : Obj) : List (Str × Kind × List (Str × AVal) × DRef) := entry o.hdr :: contents o.kids

def nameId (o : Obj) : Str × Str := (o.hdr.name, o.hdr.id)

theorem setIdKids_contents (pk : Kind) (pid : Str) (vis : List Str) (f : Forest) :
    contents (setIdKids pk pid vis f) = contents f := by
  induction f generalizing pk pid vis with
  | nil => rfl
  | cons h kids rest ihk ihr =>
    simp only [setIdKids]
    split
    · simp only [contents, ihk, ihr, entry]
    · simp only [contents, ihr]

theorem put_fresh (o : Obj) (f : Forest) (hn : o.hdr.name ∉ f.keys) :
    (f.put o).keys = f.keys ++ [o.hdr.name] ∧ contents (f.put o) = contents f ++ contentsO o := by
  induction f with
  | nil => simp [Forest.put, Forest.keys, contents, contentsO]
  | cons h kids rest _ ihr =>
    simp only [Forest.keys, List.mem_cons, not_or] at hn
    have hne : ¬ (h.name = o.hdr.name) := fun e => hn.1 e.symm
    simp only [Forest.put, hne, if_false, Forest.keys, contents, List.cons_append, (ihr hn.2).1, (ihr hn.2).2,
      List.append_assoc]
    exact ⟨trivial, trivial⟩

theorem shapeOk_keys_nodup (f : Forest) (h : shapeOk f = true) : f.keys.Nodup := by
  induction f with
  | nil => simp [Forest.keys]
  | cons h0 kids rest _ ihr =>
    simp only [shapeOk, Bool.and_eq_true] at h
    obtain ⟨⟨⟨⟨⟨⟨_, _⟩, s3⟩, _⟩, _⟩, _⟩, s7⟩ := h
    simp only [Forest.keys, List.nodup_cons]
    exact ⟨by simpa using s3, ihr s7⟩

theorem objs_names (f : Forest) : f.objs.map (fun c => c.hdr.name) = f.keys := by
  induction f with
  | nil => rfl
  | cons h k r _ ih => simp [Forest.objs, Forest.keys, ih]

theorem shallow_invE (n : Nat) (h : Hdr) (hq : quote h.name = h.name) (hd : h.name.contains dot = false)
    (he : nameEsc h.name = true) : invE (shallow n h) := by
  refine ⟨⟨?_, rfl⟩, ?_⟩
  · rw [shapeO_parts]
    refine ⟨quote_idem _, ?_, rfl, fun _ => rfl, rfl⟩
    show (quote h.name).contains dot = false
    rw [hq]; exact hd
  · simp [escO, shallow, escOk, hq, he]

/-- inserting under a name that is not listed yet: the new id is given to the item, which is appended -/
theorem setItem_fresh (o item r : Obj) (key : Str) (hn : item.hdr.name ∉ o.hdr.visible)
    (h : setItem o key item = .ok r) :
    ∃ it, it.hdr.name = item.hdr.name ∧ contentsO it = contentsO item ∧ it.hdr.oid = item.hdr.oid ∧
      r = ⟨{ o.hdr with visible := o.hdr.visible ++ [item.hdr.name] }, o.kids.put it⟩ := by
  obtain ⟨_, _, nid, it, hs, hins⟩ := setItem_decomp o item r key h
  have e := setId_eq item it nid hs
  have hname : it.hdr.name = item.hdr.name := by rw [e]
  refine ⟨it, hname, ?_, by rw [e], insertItem_fresh o it r _ hn hins⟩
  rw [e]; simp only [contentsO, setIdKids_contents, entry]

theorem foldSet_invE (cs : List Obj) : ∀ o r, invE o → (∀ c ∈ cs, invE c) →
    cs.foldlM (fun o c => setItem o c.hdr.name c) o = .ok r → invE r ∧ sameHead o r := by
  induction cs with
  | nil =>
    intro o r ho _ h
    simp only [List.foldlM, pure, Except.pure] at h
    cases h; exact ⟨ho, rfl, rfl, rfl, rfl⟩
  | cons c cs ih =>
    intro o r ho hcs h
    rw [List.foldlM_cons] at h
    cases h1 : setItem o c.hdr.name c with
    | error e => rw [h1] at h; cases h
    | ok o1 =>
      rw [h1] at h
      obtain ⟨a, b⟩ := setItem_invE o c o1 _ ho (hcs c (by simp)) h1
      obtain ⟨a', b'⟩ := ih o1 r a (fun x hx => hcs x (by simp [hx])) h
      obtain ⟨b1, b2, b3, b4⟩ := b
      obtain ⟨c1, c2, c3, c4⟩ := b'
      exact ⟨a', c1.trans b1, c2.trans b2, c3.trans b3, c4.trans b4⟩

theorem foldSet_fresh (cs : List Obj) : ∀ o r, o.hdr.visible = o.kids.keys →
    (cs.map (·.hdr.name)).Nodup → (∀ c ∈ cs, c.hdr.name ∉ o.kids.keys) →
    cs.foldlM (fun o c => setItem o c.hdr.name c) o = .ok r →
    r.hdr.visible = r.kids.keys ∧ r.kids.keys = o.kids.keys ++ cs.map (·.hdr.name) ∧
    contents r.kids = contents o.kids ++ cs.flatMap contentsO ∧ entry r.hdr = entry o.hdr := by
  induction cs with
  | nil =>
    intro o r hv _ _ h
    simp only [List.foldlM, pure, Except.pure] at h
    cases h; simp [hv]
  | cons c cs ih =>
    intro o r hv hnd hfr h
    rw [List.foldlM_cons] at h
    cases h1 : setItem o c.hdr.name c with
    | error e => rw [h1] at h; cases h
    | ok o1 =>
      rw [h1] at h
      have hn : c.hdr.name ∉ o.kids.keys := hfr c (by simp)
      obtain ⟨it, i1, i2, _, rfl⟩ := setItem_fresh o c o1 _ (by rw [hv]; exact hn) h1
      obtain ⟨p1, p2⟩ := put_fresh it o.kids (by rw [i1]; exact hn)
      simp only [List.map_cons, List.nodup_cons] at hnd
      have := ih _ r (by simp only [p1, i1, hv]) hnd.2 (by
        intro x hx
        simp only [p1, i1, List.mem_append, List.mem_singleton, not_or]
        refine ⟨hfr x (by simp [hx]), ?_⟩
        intro e
        exact hnd.1 (by rw [← e]; exact List.mem_map_of_mem hx)) h
      obtain ⟨q1, q2, q3, q4⟩ := this
      refine ⟨q1, ?_, ?_, ?_⟩
      · rw [q2, p1, i1]; simp
      · rw [q3, p2, i2]; simp
      · rw [q4]; rfl

/-- **`copy.copy` of everything in a forest** (hidden children included): every copy satisfies the invariant,
    lists all its children, keeps name, id, class, attribute values and data objects of its source -/
theorem copyF_spec (f : Forest) : ∀ next cs n, shapeOk f = true → escOk f = true → copyF next f = .ok (cs, n) →
    (∀ c ∈ cs, invE c ∧ c.hdr.visible = c.kids.keys) ∧ cs.map nameId = f.objs.map nameId
    ∧ cs.flatMap contentsO = contents f := by
  induction f with
  | nil =>
    intro next cs n _ _ h
    simp only [copyF] at h
    cases h
    simp [Forest.objs, contents]
  | cons h0 kids rest ihk ihr =>
    intro next cs n hs he h
    simp only [shapeOk, Bool.and_eq_true] at hs
    obtain ⟨⟨⟨⟨⟨⟨s1, s2⟩, s3⟩, s4⟩, s5⟩, s6⟩, s7⟩ := hs
    simp only [escOk, Bool.and_eq_true] at he
    obtain ⟨⟨e1, e2⟩, e3⟩ := he
    simp only [copyF, bind, Except.bind] at h
    cases hk : copyF (next + 1) kids with
    | error e => rw [hk] at h; cases h
    | ok p =>
      obtain ⟨cs1, n1⟩ := p
      rw [hk] at h; simp only at h
      cases hf : cs1.foldlM (fun o c => setItem o c.hdr.name c) (shallow next h0) with
      | error e => rw [hf] at h; cases h
      | ok out =>
        rw [hf] at h; simp only at h
        cases hr : copyF n1 rest with
        | error e => rw [hr] at h; cases h
        | ok q =>
          obtain ⟨rs, n2⟩ := q
          rw [hr] at h; simp only [pure, Except.pure] at h
          cases h
          obtain ⟨k1, k2, k3⟩ := ihk _ _ _ s6 e2 hk
          obtain ⟨r1, r2, r3⟩ := ihr _ _ _ s7 e3 hr
          have hq : quote h0.name = h0.name := by simpa using s1
          have hd : h0.name.contains dot = false := by simpa using s2
          have hnames : cs1.map (·.hdr.name) = kids.keys := by
            have := congrArg (List.map Prod.fst) k2
            simp only [List.map_map] at this
            rw [show (Prod.fst ∘ nameId) = (fun c : Obj => c.hdr.name) from rfl] at this
            rw [this]
            exact objs_names kids
          obtain ⟨a, b⟩ := foldSet_invE cs1 _ out (shallow_invE next h0 hq hd e1) (fun c hc => (k1 c hc).1) hf
          obtain ⟨f1, f2, f3, f4⟩ := foldSet_fresh cs1 _ out rfl (by rw [hnames]; exact shapeOk_keys_nodup _ s6)
            (by intro c _; simp [shallow, Forest.keys]) hf
          refine ⟨?_, ?_, ?_⟩
          · intro c hc
            simp only [List.mem_cons] at hc
            rcases hc with rfl | hc
            · exact ⟨a, f1⟩
            · exact r1 c hc
          · simp only [List.map_cons, Forest.objs, r2, List.cons.injEq, and_true]
            obtain ⟨b1, b2, _, _⟩ := b
            simp only [nameId, b1, b2, shallow, hq]
          · simp only [List.flatMap_cons, contentsO, contents, r3, f3, f4, k3, List.cons_append]
            congr 1
            simp only [entry, shallow, hq]
            split <;> simp_all

theorem copyObj_spec (next : Nat) (o c : Obj) (n : Nat) (ho : invE o) (h : copyObj next o = .ok (c, n)) :
    invE c ∧ c.hdr.visible = c.kids.keys ∧ nameId c = nameId o ∧ contentsO c = contentsO o := by
  unfold copyObj at h
  simp only [bind, Except.bind] at h
  cases hk : copyF next (.cons o.hdr o.kids .nil) with
  | error e => rw [hk] at h; cases h
  | ok p =>
    obtain ⟨cs, n1⟩ := p
    rw [hk] at h; simp only at h
    have hs : shapeOk (.cons o.hdr o.kids .nil) = true := ho.1.1
    have he : escOk (.cons o.hdr o.kids .nil) = true := by
      have := ho.2; simp only [escO, Bool.and_eq_true] at this
      simp [escOk, this.1, this.2]
    obtain ⟨k1, k2, k3⟩ := copyF_spec _ _ _ _ hs he hk
    match cs, h, k1, k2, k3 with
    | [c'], h, k1, k2, k3 =>
      simp only [pure, Except.pure] at h
      cases h
      refine ⟨(k1 _ (by simp)).1, (k1 _ (by simp)).2, ?_, ?_⟩
      · simpa [Forest.objs] using k2
      · simpa [contents, contentsO] using k3

/-! ### data assignment: nothing but `data` fields changes -/

def stripH (h : Hdr) : Hdr := { h with data := .none }

/-- the forest with every data object forgotten -/
def strip : Forest → Forest
  | .nil => .nil
  | .cons h kids rest => .cons (stripH h) (strip kids) (strip rest)

theorem strip_keys (f : Forest) : (strip f).keys = f.keys := by
  induction f with
  | nil => rfl
  | cons h kids rest _ ihr => simp [strip, Forest.keys, ihr, stripH]

theorem strip_nil_iff (f : Forest) : (strip f == .nil) = (f == .nil) := by
  cases f <;> rfl

theorem strip_shape (f : Forest) : shapeOk (strip f) = shapeOk f := by
  induction f with
  | nil => rfl
  | cons h kids rest ihk ihr =>
    simp only [strip, shapeOk, strip_keys, ihk, ihr, visOk, strip_nil_iff, stripH]

theorem strip_ids (pk : Kind) (pid : Str) (vis : List Str) (f : Forest) :
    idsOk pk pid vis (strip f) = idsOk pk pid vis f := by
  induction f generalizing pk pid vis with
  | nil => rfl
  | cons h kids rest ihk ihr => simp only [strip, idsOk, ihk, ihr, stripH]

theorem strip_esc (f : Forest) : escOk (strip f) = escOk f := by
  induction f with
  | nil => rfl
  | cons h kids rest ihk ihr => simp only [strip, escOk, ihk, ihr, stripH]

theorem strip_oids (f : Forest) : (strip f).oids = f.oids := by
  induction f with
  | nil => rfl
  | cons h kids rest ihk ihr => simp only [strip, Forest.oids, ihk, ihr, stripH]

theorem seqSetKids_strip (f : Forest) : ∀ n d vis f', seqSetKids n d vis f = .ok f' → strip f' = strip f := by
  induction f with
  | nil => intro n d vis f' h; simp only [seqSetKids] at h; cases h; rfl
  | cons h0 kids rest ihk ihr =>
    intro n d vis f' h
    simp only [seqSetKids, bind, Except.bind] at h
    cases hr : seqSetKids n d vis rest with
    | error e => rw [hr] at h; cases h
    | ok rest' =>
      rw [hr] at h; simp only at h
      have er := ihr _ _ _ _ hr
      split at h
      · cases hp : itemPath d (splitOn dot (List.drop (n + 1) h0.id)) with
        | error e => rw [hp] at h; cases h
        | ok d' =>
          rw [hp] at h; simp only at h
          split at h
          · simp only [pure, Except.pure] at h; cases h
            simp only [strip, er, stripH]
          · cases hk : seqSetKids h0.id.length d' h0.visible kids with
            | error e => rw [hk] at h; cases h
            | ok kids' =>
              rw [hk] at h; simp only [pure, Except.pure] at h; cases h
              simp only [strip, er, ihk _ _ _ _ hk, stripH]
          · cases h
      · simp only [pure, Except.pure] at h; cases h
        simp only [strip, er]

theorem invO_of_strip (o r : Obj) (hh : stripH r.hdr = stripH o.hdr) (hk : strip r.kids = strip o.kids)
    (ho : invO o) : invO r ∧ sameHead o r := by
  have e1 : r.hdr.name = o.hdr.name := by have := congrArg Hdr.name hh; simpa [stripH] using this
  have e2 : r.hdr.id = o.hdr.id := by have := congrArg Hdr.id hh; simpa [stripH] using this
  have e3 : r.hdr.kind = o.hdr.kind := by have := congrArg Hdr.kind hh; simpa [stripH] using this
  have e4 : r.hdr.oid = o.hdr.oid := by have := congrArg Hdr.oid hh; simpa [stripH] using this
  have e5 : r.hdr.visible = o.hdr.visible := by have := congrArg Hdr.visible hh; simpa [stripH] using this
  obtain ⟨hs, hi⟩ := ho
  refine ⟨⟨?_, ?_⟩, ⟨e1, e2, e3, e4⟩⟩
  · have a : shapeO r = shapeOk (strip (.cons r.hdr r.kids .nil)) := by rw [strip_shape]; rfl
    have b : shapeO o = shapeOk (strip (.cons o.hdr o.kids .nil)) := by rw [strip_shape]; rfl
    rw [a]; rw [b] at hs
    simp only [strip, hh, hk] at hs ⊢
    exact hs
  · rw [e3, e2, e5, ← strip_ids, hk, strip_ids]; exact hi

theorem escO_of_strip (o r : Obj) (hh : stripH r.hdr = stripH o.hdr) (hk : strip r.kids = strip o.kids)
    (he : escO o = true) : escO r = true := by
  have e1 : r.hdr.name = o.hdr.name := by have := congrArg Hdr.name hh; simpa [stripH] using this
  simp only [escO] at he ⊢
  rw [e1, ← strip_esc, hk, strip_esc]; exact he

theorem oids_of_strip (o r : Obj) (hh : stripH r.hdr = stripH o.hdr) (hk : strip r.kids = strip o.kids) :
    r.oids = o.oids := by
  have e4 : r.hdr.oid = o.hdr.oid := by have := congrArg Hdr.oid hh; simpa [stripH] using this
  simp only [Obj.oids, e4]
  rw [← strip_oids, hk, strip_oids]

/-- `obj.data = d` changes data fields only -/
theorem setData_strip (o r : Obj) (d : DRef) (h : setData o d = .ok r) :
    stripH r.hdr = stripH o.hdr ∧ strip r.kids = strip o.kids := by
  unfold setData at h
  split at h
  · cases h; exact ⟨rfl, rfl⟩
  · split at h; · cases h
    split at h
    · rename_i kids' hk
      cases h
      exact ⟨rfl, seqSetKids_strip _ _ _ _ _ hk⟩
    · cases h
    · cases h
  · cases h

theorem setData_invO (o r : Obj) (d : DRef) (ho : invO o) (h : setData o d = .ok r) : invO r ∧ sameHead o r :=
  invO_of_strip o r (setData_strip o r d h).1 (setData_strip o r d h).2 ho

theorem setData_esc (o r : Obj) (d : DRef) (ho : escO o = true) (h : setData o d = .ok r) : escO r = true :=
  escO_of_strip o r (setData_strip o r d h).1 (setData_strip o r d h).2 ho

theorem setData_oids (o r : Obj) (d : DRef) (h : setData o d = .ok r) : r.oids = o.oids :=
  oids_of_strip o r (setData_strip o r d h).1 (setData_strip o r d h).2

/-- **`obj.data = d`** keeps the invariant, the head and the identities -/
theorem setData_invE (o r : Obj) (d : DRef) (ho : invE o) (h : setData o d = .ok r) :
    invE r ∧ sameHead o r ∧ r.oids = o.oids :=
  ⟨⟨(setData_invO o r d ho.1 h).1, setData_esc o r d ho.2 h⟩, (setData_invO o r d ho.1 h).2, setData_oids o r d h⟩

theorem setAttr_invE (k : Str) (v : AVal) (o : Obj) (ho : invE o) :
    invE (setAttr o k v) ∧ sameHead o (setAttr o k v) ∧ (setAttr o k v).oids = o.oids :=
  ⟨⟨(setAttr_inv k v o ho.1).1, ho.2⟩, (setAttr_inv k v o ho.1).2, rfl⟩

/-! ### selection by a tuple of names -/

theorem idsOk_mono_keys (pk : Kind) (pid : Str) (vis vis' : List Str) (f : Forest)
    (hsub : ∀ n ∈ f.keys, listed vis' n = true → listed vis n = true) (h : idsOk pk pid vis f = true) :
    idsOk pk pid vis' f = true := by
  induction f with
  | nil => rfl
  | cons h0 kids rest _ ihr =>
    simp only [idsOk, Bool.and_eq_true, Bool.or_eq_true, Bool.not_eq_true'] at h ⊢
    obtain ⟨⟨h1, h2⟩, h3⟩ := h
    refine ⟨⟨?_, h2⟩, ihr (fun n hn => hsub n (by simp [Forest.keys, hn])) h3⟩
    rcases h1 with h1 | h1
    · left
      cases hl : listed vis' h0.name with
      | false => rfl
      | true => have := hsub _ (by simp [Forest.keys]) hl; simp_all
    · exact Or.inr h1

theorem mem_dedup (l : List Str) : ∀ x, x ∈ dedup l → x ∈ l := by
  induction l with
  | nil => intro x h; exact h
  | cons a t ih =>
    intro x h
    simp only [dedup, List.mem_cons, List.mem_filter] at h ⊢
    rcases h with h | h
    · exact Or.inl h
    · exact Or.inr (ih x h.1)

theorem dedup_nodup (l : List Str) : (dedup l).Nodup := by
  induction l with
  | nil => simp [dedup]
  | cons a t ih =>
    simp only [dedup, List.nodup_cons, List.mem_filter, not_and]
    refine ⟨fun _ => by simp, ih.sublist List.filter_sublist⟩

theorem find?_isSome_mem (k : Str) (f : Forest) (h : (f.find? k).isSome = true) : k ∈ f.keys := by
  induction f with
  | nil => simp [Forest.find?] at h
  | cons h0 kids rest _ ihr =>
    simp only [Forest.find?] at h
    split at h
    · rename_i he; simp [Forest.keys, he]
    · simp [Forest.keys, ihr h]

theorem shapeOk_keys_quoted (f : Forest) (h : shapeOk f = true) : ∀ n ∈ f.keys, quote n = n := by
  induction f with
  | nil => intro n hn; simp [Forest.keys] at hn
  | cons h0 kids rest _ ihr =>
    simp only [shapeOk, Bool.and_eq_true] at h
    obtain ⟨⟨⟨⟨⟨⟨s1, _⟩, _⟩, _⟩, _⟩, _⟩, s7⟩ := h
    intro n hn
    simp only [Forest.keys, List.mem_cons] at hn
    rcases hn with rfl | hn
    · simpa using s1
    · exact ihr s7 n hn

/-- a header without its visible keys -/
def stripV (h : Hdr) : Hdr := { h with visible := [] }

theorem selectStruct_spec (next : Nat) (o r : Obj) (keys : List Str) (n : Nat)
    (h : selectStruct next o keys = .ok (r, n)) :
    ∃ c, copyObj next o = .ok (c, n) ∧ r.kids = c.kids ∧ stripV r.hdr = stripV c.hdr := by
  unfold selectStruct at h
  simp only [bind, Except.bind] at h
  cases hc : copyObj next o with
  | error e => rw [hc] at h; cases h
  | ok p =>
    obtain ⟨out, n1⟩ := p
    rw [hc] at h; simp only at h
    split at h
    · simp only [pure, Except.pure] at h
      cases h
      exact ⟨out, rfl, rfl, rfl⟩
    · cases h

/-- **`structure[(name, …)]`** (also Dataset): a copy restricted to the named children -/
theorem selectStruct_invE (next : Nat) (o r : Obj) (keys : List Str) (n : Nat) (ho : invE o)
    (h : selectStruct next o keys = .ok (r, n)) :
    invE r ∧ ∃ c, copyObj next o = .ok (c, n) ∧ r.kids = c.kids ∧ stripV r.hdr = stripV c.hdr := by
  unfold selectStruct at h
  simp only [bind, Except.bind] at h
  cases hc : copyObj next o with
  | error e => rw [hc] at h; cases h
  | ok p =>
    obtain ⟨out, n1⟩ := p
    rw [hc] at h; simp only at h
    split at h
    · rename_i hall
      simp only [pure, Except.pure] at h
      cases h
      obtain ⟨⟨⟨hs, hi⟩, he⟩, hv, _, _⟩ := copyObj_spec next o out n ho hc
      rw [shapeO_parts] at hs
      obtain ⟨a, b, c, d, e⟩ := hs
      refine ⟨⟨⟨?_, ?_⟩, he⟩, out, rfl, rfl, rfl⟩
      · rw [shapeO_parts]
        refine ⟨a, b, ?_, d, e⟩
        simp only [visOk, Bool.and_eq_true, List.all_eq_true, decide_eq_true_eq]
        refine ⟨?_, dedup_nodup _⟩
        intro k hk
        have hk' := mem_dedup _ _ hk
        have hf := (List.all_eq_true.1 hall) k hk'
        simp only [List.mem_map] at hk'
        obtain ⟨x, _, rfl⟩ := hk'
        simp only [List.contains_eq_mem, decide_eq_true_eq, beq_iff_eq]
        exact ⟨find?_isSome_mem _ _ hf, quote_idem x⟩
      · apply idsOk_mono_keys _ _ out.hdr.visible _ _ _ hi
        intro m hm _
        simp only [listed, List.any_eq_true, beq_iff_eq]
        exact ⟨m, by rw [hv]; exact hm, shapeOk_keys_quoted _ e m hm⟩
    · cases h

theorem selectInto_invE (keys : List Str) : ∀ next shell o r n, invE shell → invE o →
    selectInto next shell o keys = .ok (r, n) → invE r ∧ sameHead shell r := by
  induction keys with
  | nil =>
    intro next shell o r n hs _ h
    simp only [selectInto] at h; cases h
    exact ⟨hs, rfl, rfl, rfl, rfl⟩
  | cons k ks ih =>
    intro next shell o r n hs ho h
    simp only [selectInto, bind, Except.bind] at h
    cases hg : getItem o k with
    | error e => rw [hg] at h; cases h
    | ok c =>
      rw [hg] at h; simp only at h
      cases hc : copyObj next c with
      | error e => rw [hc] at h; cases h
      | ok p =>
        obtain ⟨cc, n1⟩ := p
        rw [hc] at h; simp only at h
        cases hset : setItem shell k cc with
        | error e => rw [hset] at h; cases h
        | ok shell' =>
          rw [hset] at h; simp only at h
          have hcc := (copyObj_spec next c cc n1 (getItem_invE o c k ho hg) hc).1
          obtain ⟨a, b1, b2, b3, b4⟩ := setItem_invE shell cc shell' k hs hcc hset
          obtain ⟨a', c1, c2, c3, c4⟩ := ih _ _ _ _ _ a ho h
          exact ⟨a', c1.trans b1, c2.trans b2, c3.trans b3, c4.trans b4⟩

theorem mkObj_invE (oid : Nat) (kind : Kind) (name : Str) (attrs : List (Str × AVal)) (d : DRef)
    (hn : (quote name).contains dot = false) (he : nameEsc (quote name) = true) :
    invE (mkObj oid kind name attrs d) :=
  ⟨mkObj_inv oid kind name attrs d hn, by simp [escO, mkObj, escOk, he]⟩

theorem invE_name (o : Obj) (ho : invE o) :
    quote o.hdr.name = o.hdr.name ∧ o.hdr.name.contains dot = false ∧ nameEsc o.hdr.name = true := by
  obtain ⟨⟨hs, _⟩, he⟩ := ho
  rw [shapeO_parts] at hs
  simp only [escO, Bool.and_eq_true] at he
  exact ⟨hs.1, hs.2.1, he.1⟩

/-- **tuple selection** on any container keeps the invariant of the result -/
theorem select_invE (next : Nat) (o r : Obj) (keys : List Str) (n : Nat) (ho : invE o)
    (h : select next o keys = .ok (r, n)) : invE r := by
  obtain ⟨q, dd, ee⟩ := invE_name o ho
  unfold select at h
  split at h
  · cases h
  · unfold selectSeq at h
    simp only [bind, Except.bind] at h
    cases hi : selectInto (next + 1) (mkObj next .seq o.hdr.name o.hdr.attrs o.hdr.data) o keys with
    | error e => rw [hi] at h; cases h
    | ok p =>
      obtain ⟨out, n1⟩ := p
      rw [hi] at h; simp only at h
      split at h; · cases h
      cases hd : setData out (.copy (.items o.hdr.data keys)) with
      | error e => rw [hd] at h; cases h
      | ok out' =>
        rw [hd] at h; simp only [pure, Except.pure] at h; cases h
        have := (selectInto_invE keys _ _ _ _ _ (mkObj_invE _ _ _ _ _ (by rw [q]; exact dd) (by rw [q]; exact ee)) ho hi).1
        exact (setData_invE out r _ this hd).1
  · unfold selectGrid at h
    simp only [bind, Except.bind] at h
    split at h; · cases h
    split at h; · cases h
    cases hch : children o with
    | error e => rw [hch] at h; cases h
    | ok ds =>
      rw [hch] at h; simp only at h
      split at h
      · cases h
      · rename_i p hi
        obtain ⟨out, n1⟩ := p
        simp only at h
        split at h; · cases h
        simp only [pure, Except.pure] at h; cases h
        exact (selectInto_invE keys _ _ _ _ _
          (setAttr_invE _ _ _ (mkObj_invE _ _ _ _ _ (by rw [q]; exact dd) (by rw [q]; exact ee))).1 ho hi).1
  · exact (selectStruct_invE next o r keys n ho h).1

end Pydap.Tree
