/-
  C12 — from the invariant to the observers: `children()` succeeds, yields every listed child exactly once,
  in the order of the visible keys, each with the id derived from its parent.
-/
import PydapModel.Heap
import Proofs.Quote
import Proofs.Tree
import Proofs.TreeGetVar
import Proofs.TreeCopy
namespace Pydap.Tree
open Pydap.Quote

theorem find?_of_mem_keys (k : Str) (f : Forest) (h : k ∈ f.keys) : ∃ c, f.find? k = some c ∧ c.hdr.name = k := by
  induction f with
  | nil => simp [Forest.keys] at h
  | cons h0 kids rest _ ihr =>
    simp only [Forest.find?]
    split
    · rename_i he; exact ⟨_, rfl, he⟩
    · rename_i hne
      simp only [Forest.keys, List.mem_cons] at h
      rcases h with h | h
      · exact absurd h.symm hne
      · exact ihr h

theorem mapM_find (f : Forest) (vis : List Str) (h : ∀ k ∈ vis, k ∈ f.keys ∧ quote k = k) :
    ∃ cs, (vis.mapM fun k => match f.find? (quote k) with
        | some c => Except.ok c
        | none => Except.error Err.keyError) = .ok cs ∧ cs.map (fun c => c.hdr.name) = vis := by
  induction vis with
  | nil => exact ⟨[], rfl, rfl⟩
  | cons k t ih =>
    obtain ⟨cs, h1, h2⟩ := ih (fun x hx => h x (by simp [hx]))
    obtain ⟨hk, hq⟩ := h k (by simp)
    obtain ⟨c, hc, hn⟩ := find?_of_mem_keys k f hk
    refine ⟨c :: cs, ?_, by simp [hn, h2]⟩
    simp only [List.mapM_cons, bind, Except.bind, pure, Except.pure, hq, hc, h1]

/-- **every container lists its children once, in the order of its visible keys** -/
theorem children_once (o : Obj) (ho : invO o) :
    ∃ cs, children o = .ok cs ∧ cs.map (fun c => c.hdr.name) = o.hdr.visible ∧ o.hdr.visible.Nodup
      ∧ (cs.map (fun c => c.hdr.name)).Nodup
      ∧ ∀ c ∈ cs, invO c ∧ c.hdr.id = childId o.hdr.kind o.hdr.id c.hdr.name := by
  have hv := ((shapeO_parts o).1 ho.1).2.2.1
  simp only [visOk, Bool.and_eq_true, List.all_eq_true, decide_eq_true_eq] at hv
  obtain ⟨v1, v2⟩ := hv
  obtain ⟨cs, h1, h2⟩ := mapM_find o.kids o.hdr.visible (fun k hk => by
    have := v1 k hk
    simp only [List.contains_eq_mem, decide_eq_true_eq, beq_iff_eq] at this
    exact this)
  refine ⟨cs, h1, h2, v2, by rw [h2]; exact v2, ?_⟩
  intro c hc
  have := childOf_facts o c ho (childOf_of_children o c cs h1 hc)
  exact ⟨this.1, this.2.1⟩

/-- **insertion order**: `container[key] = item` lists the item last; an item of that name listed before is
    un-listed first (replacement moves it to the end), every other visible key keeps its place -/
theorem setItem_visible (o item r : Obj) (key : Str) (h : setItem o key item = .ok r) :
    r.hdr.visible = o.hdr.visible.erase item.hdr.name ++ [item.hdr.name] ∧ quote key = item.hdr.name := by
  obtain ⟨_, hk, nid, it, _, hins⟩ := setItem_decomp o item r key h
  refine ⟨?_, hk⟩
  unfold insertItem at hins
  by_cases hc : o.hdr.visible.contains item.hdr.name = true
  · simp only [hc, if_true] at hins
    cases hd : delItem o item.hdr.name with
    | error e => rw [hd] at hins; cases hins
    | ok o1 =>
      rw [hd] at hins
      cases hins
      rw [delItem_eq o o1 _ hd]
  · simp only [hc] at hins
    cases hins
    have : item.hdr.name ∉ o.hdr.visible := by simpa using hc
    simp only [List.erase_of_not_mem this]

end Pydap.Tree
