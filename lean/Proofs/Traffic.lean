/-
  C13 — a "world" of traffic against one served dataset: what every thread asks for and where it fails.  Used to state
  that a response depends on the served dataset and the request alone (Props/C13.lean).
-/
import PydapModel.RequestRows
import Proofs.Sched
namespace Pydap.C13
open Pydap Pydap.Sched Pydap.HandlerSteps Pydap.RowHeap

/-- everything that makes up one world of concurrent traffic against the served dataset and the served source: per
    thread its request, its filters / maps / type lookups, and where (if anywhere) it fails -/
structure Traffic where
  reqs : Nat → Req
  filts : Nat → List RFilt
  maps : Nat → List RMap
  peeks : Nat → Nat
  cut : Nat → Option (Nat × String)

def Traffic.prog (w : Traffic) (ds : Node) (src : List PObj) (stream : List PVal) :
    Nat → List (Step ReqLoc RVal RVal String) := fun t =>
  interrupted (requestProgram ds (w.reqs t) src stream (w.filts t) (w.maps t) (w.peeks t) t) (w.cut t)

end Pydap.C13
