/-
  A concrete spec inside the hypotheses of `C11_parse` / `C10_decode_order` (used by their non-vacuity examples).
-/
import PydapModel.DmrSpec
namespace Pydap.Dmr

/-- a spec with a dimension and a variable at the root, a nested group re-using both short names, a variable
    declared after the group, mixed Dims, an attribute in two syntaxes -/
def demo : Spec :=
  .dim "x".toList 3 <|
  .var ⟨"Int32".toList, "x".toList, [.named "/x".toList 3], [], []⟩ <|
  .group "g".toList
    (.dim "x".toList 2 <|
     .var ⟨"Float64".toList, "x".toList, [.named "/g/x".toList 2, .anon 5, .named "/x".toList 3],
        [⟨"scale".toList, "UInt8".toList, some (.int "007".toList 7), [(true, .int "1".toList 1), (false, .int "2".toList 2)]⟩],
        ["/x".toList]⟩ .nil) <|
  .var ⟨"UInt16".toList, "after".toList, [], [], []⟩ .nil

example : expectVars demo =
    [⟨"x".toList, "x".toList, none, ">i4".toList, ["/x".toList], [3], [], []⟩,
     ⟨"/g/x".toList, "x".toList, some "/g".toList, ">f8".toList, ["/g/x".toList, "/x".toList], [2, 5, 3], [some "/x".toList],
       [("scale".toList, .many [.int 7, .int 1, .int 2])]⟩,
     ⟨"after".toList, "after".toList, none, ">u2".toList, [], [], [], []⟩] := by decide
theorem demo_ok : demo.ok := by
  have hx : goodName "x".toList := ⟨by decide, by decide, by decide, by decide⟩
  have hg : goodName "g".toList := ⟨by decide, by decide, by decide, by decide⟩
  have ha : goodName "after".toList := ⟨by decide, by decide, by decide, by decide⟩
  have hattr : SAttr.ok ⟨"scale".toList, "UInt8".toList, some (.int "007".toList 7),
      [(true, .int "1".toList 1), (false, .int "2".toList 2)]⟩ := by
    refine Or.inr (Or.inl ⟨by decide, by decide, ?_⟩)
    intro v hv
    simp only [SAttr.all, Option.toList, List.map, List.cons_append, List.nil_append, List.mem_cons,
      List.not_mem_nil, or_false] at hv
    rcases hv with rfl | rfl | rfl
    · exact ⟨_, _, rfl, by rfl⟩
    · exact ⟨_, _, rfl, by rfl⟩
    · exact ⟨_, _, rfl, by rfl⟩
  refine ⟨⟨hx.1, hx.2.1⟩, ⟨by decide, hx, by simp, by simp⟩, hg, ⟨⟨hx.1, hx.2.1⟩, ⟨by decide, hx, ?_, by simp, by simp [reservedAttrNames]⟩, trivial⟩,
    ⟨by decide, ha, by simp, by simp⟩, trivial⟩
  intro a hm
  simp only [List.mem_cons, List.not_mem_nil, or_false] at hm
  subst hm; exact hattr

theorem demo_refs : refsResolve demo := by
  intro pv hpv fq sz hm
  simp only [demo, specVars, List.nil_append, List.mem_cons, List.append_nil, List.not_mem_nil, or_false,
    List.cons_append] at hpv
  rcases hpv with rfl | rfl | rfl
  · simp only [List.mem_cons, List.not_mem_nil, or_false, SDim.named.injEq] at hm
    obtain ⟨rfl, rfl⟩ := hm
    exact ⟨([], "x".toList, 3), by simp [demo, declDims], by decide, rfl⟩
  · simp only [List.mem_cons, List.not_mem_nil, or_false, SDim.named.injEq, reduceCtorEq, false_or] at hm
    rcases hm with ⟨rfl, rfl⟩ | ⟨rfl, rfl⟩
    · exact ⟨(["g".toList], "x".toList, 2), by simp [demo, declDims], by decide, rfl⟩
    · exact ⟨([], "x".toList, 3), by simp [demo, declDims], by decide, rfl⟩
  · cases hm


/-- a variable ahead of a group with one member -/
def tiny : Spec :=
  .var ⟨"Int8".toList, "a".toList, [], [], []⟩
    (.group "g".toList (.var ⟨"Int16".toList, "b".toList, [.anon 2], [], []⟩ .nil) .nil)

theorem tiny_ok : tiny.ok := by
  have ha : goodName "a".toList := ⟨by decide, by decide, by decide, by decide⟩
  have hb : goodName "b".toList := ⟨by decide, by decide, by decide, by decide⟩
  have hg : goodName "g".toList := ⟨by decide, by decide, by decide, by decide⟩
  exact ⟨⟨by decide, ha, by simp, by simp⟩, hg, ⟨⟨by decide, hb, by simp, by simp⟩, trivial⟩, trivial⟩

theorem tiny_refs : refsResolve tiny := by
  intro pv hpv fq sz hm
  simp only [tiny, specVars, List.nil_append, List.mem_cons, List.append_nil, List.not_mem_nil, or_false] at hpv
  rcases hpv with rfl | rfl
  · cases hm
  · simp at hm

/-- names that `_quote` changes: a root variable `t[0]` ahead of the group `g h`, which declares the dimension `x y`
    and the variable `a.b` over it (stored as `/g%20h/a%2Eb`); `é` (two UTF-8 bytes) in a root variable -/
def qdemo : Spec :=
  .var ⟨"Int8".toList, "t[0]".toList, [], [], []⟩ <|
  .group "g h".toList
    (.dim "x y".toList 2 <|
     .var ⟨"Int16".toList, "a.b".toList, [.named "/g h/x y".toList 2], [], []⟩ .nil) <|
  .var ⟨"Int8".toList, ['\xc3', '\xa9'], [], [], []⟩ .nil

example : expectVars qdemo =
    [⟨"t[0]".toList, "t[0]".toList, none, ">i1".toList, [], [], [], []⟩,
     ⟨"/g%20h/a.b".toList, "a.b".toList, some "/g%20h".toList, ">i2".toList, ["/g h/x y".toList], [2], [], []⟩,
     ⟨['\xc3', '\xa9'], ['\xc3', '\xa9'], none, ">i1".toList, [], [], [], []⟩] := by decide

theorem qdemo_ok : qdemo.ok := by
  have h1 : goodName "t[0]".toList := ⟨by decide, by decide, by decide, by decide⟩
  have h2 : goodName "g h".toList := ⟨by decide, by decide, by decide, by decide⟩
  have h3 : goodName "a.b".toList := ⟨by decide, by decide, by decide, by decide⟩
  have h4 : goodName ['\xc3', '\xa9'] := ⟨by decide, by decide, by decide, by decide⟩
  have hd : segName "x y".toList := ⟨by decide, by decide⟩
  exact ⟨⟨by decide, h1, by simp, by simp⟩, h2, ⟨hd, ⟨by decide, h3, by simp, by simp⟩, trivial⟩,
    ⟨by decide, h4, by simp, by simp⟩, trivial⟩

theorem qdemo_refs : refsResolve qdemo := by
  intro pv hpv fq sz hm
  simp only [qdemo, specVars, List.nil_append, List.mem_cons, List.append_nil, List.not_mem_nil, or_false,
    List.cons_append] at hpv
  rcases hpv with rfl | rfl | rfl
  · cases hm
  · simp only [List.mem_cons, List.not_mem_nil, or_false, SDim.named.injEq] at hm
    obtain ⟨rfl, rfl⟩ := hm
    exact ⟨(["g h".toList], "x y".toList, 2), by simp [qdemo, declDims], by decide, rfl⟩
  · cases hm

end Pydap.Dmr
