/-
  A concrete spec inside the hypotheses of `C11_parse` / `C10_decode_order` (used by their non-vacuity examples).
-/
import PydapModel.DmrSpec
namespace Pydap.Dmr

/-- a spec with a dimension and a variable at the root, a nested group re-using both short names, a variable
    declared after the group, mixed Dims, an attribute in two syntaxes -/
def demo : Spec :=
  .dim "x".toList 3 <|
  .var ⟨"Int32".toList, "x".toList, [.named "/x".toList 3], [], []⟩ <|
  .group "g".toList
    (.dim "x".toList 2 <|
     .var ⟨"Float64".toList, "x".toList, [.named "/g/x".toList 2, .anon 5, .named "/x".toList 3],
        [⟨"scale".toList, "UInt8".toList, some (.int "007".toList 7), [(true, .int "1".toList 1), (false, .int "2".toList 2)]⟩],
        ["/x".toList]⟩ .nil) <|
  .var ⟨"UInt16".toList, "after".toList, [], [], []⟩ .nil

example : expectVars demo =
    [⟨"x".toList, "x".toList, none, ">i4".toList, ["/x".toList], [3], [], []⟩,
     ⟨"/g/x".toList, "x".toList, some "/g".toList, ">f8".toList, ["/g/x".toList, "/x".toList], [2, 5, 3], [some "/x".toList],
       [("scale".toList, .many [.int 7, .int 1, .int 2])]⟩,
     ⟨"after".toList, "after".toList, none, ">u2".toList, [], [], [], []⟩] := by decide
theorem demo_ok : demo.ok := by
  have hx : plainName "x".toList := ⟨by decide, by decide⟩
  have hg : plainName "g".toList := ⟨by decide, by decide⟩
  have ha : plainName "after".toList := ⟨by decide, by decide⟩
  have hattr : SAttr.ok ⟨"scale".toList, "UInt8".toList, some (.int "007".toList 7),
      [(true, .int "1".toList 1), (false, .int "2".toList 2)]⟩ := by
    refine Or.inr (Or.inl ⟨by decide, by decide, ?_⟩)
    intro v hv
    simp only [SAttr.all, Option.toList, List.map, List.cons_append, List.nil_append, List.mem_cons,
      List.not_mem_nil, or_false] at hv
    rcases hv with rfl | rfl | rfl
    · exact ⟨_, _, rfl, by rfl⟩
    · exact ⟨_, _, rfl, by rfl⟩
    · exact ⟨_, _, rfl, by rfl⟩
  refine ⟨hx, ⟨by decide, hx, by simp, by simp⟩, hg, ⟨hx, ⟨by decide, hx, ?_, by simp⟩, trivial⟩,
    ⟨by decide, ha, by simp, by simp⟩, trivial⟩
  intro a hm
  simp only [List.mem_cons, List.not_mem_nil, or_false] at hm
  subst hm; exact hattr

theorem demo_refs : refsResolve demo := by
  intro pv hpv fq sz hm
  simp only [demo, specVars, List.nil_append, List.mem_cons, List.append_nil, List.not_mem_nil, or_false,
    List.cons_append] at hpv
  rcases hpv with rfl | rfl | rfl
  · simp only [List.mem_cons, List.not_mem_nil, or_false, SDim.named.injEq] at hm
    obtain ⟨rfl, rfl⟩ := hm
    exact ⟨([], "x".toList, 3), by simp [demo, declDims], by decide, rfl⟩
  · simp only [List.mem_cons, List.not_mem_nil, or_false, SDim.named.injEq, reduceCtorEq, false_or] at hm
    rcases hm with ⟨rfl, rfl⟩ | ⟨rfl, rfl⟩
    · exact ⟨(["g".toList], "x".toList, 2), by simp [demo, declDims], by decide, rfl⟩
    · exact ⟨([], "x".toList, 3), by simp [demo, declDims], by decide, rfl⟩
  · cases hm


/-- a variable ahead of a group with one member -/
def tiny : Spec :=
  .var ⟨"Int8".toList, "a".toList, [], [], []⟩
    (.group "g".toList (.var ⟨"Int16".toList, "b".toList, [.anon 2], [], []⟩ .nil) .nil)

theorem tiny_ok : tiny.ok := by
  have ha : plainName "a".toList := ⟨by decide, by decide⟩
  have hb : plainName "b".toList := ⟨by decide, by decide⟩
  have hg : plainName "g".toList := ⟨by decide, by decide⟩
  exact ⟨⟨by decide, ha, by simp, by simp⟩, hg, ⟨⟨by decide, hb, by simp, by simp⟩, trivial⟩, trivial⟩

theorem tiny_refs : refsResolve tiny := by
  intro pv hpv fq sz hm
  simp only [tiny, specVars, List.nil_append, List.mem_cons, List.append_nil, List.not_mem_nil, or_false] at hpv
  rcases hpv with rfl | rfl
  · cases hm
  · simp at hm

end Pydap.Dmr
