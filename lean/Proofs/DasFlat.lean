import Proofs.DasForeign
/-! `add_attributes` on a purely flat DAS: one top-level container per variable, keyed by its dotted id (C08). -/
namespace Pydap.Das

/-- what is left of the parsed dict once the entries with these keys are popped -/
def dropKeys (A : Dict) (ks : List Text) : Dict := A.filter fun kv => !ks.contains kv.1

/-- the content of the container with key `k` (nothing when there is none) -/
def contentOf (A : Dict) (k : Text) : Dict :=
  match dget A k with
  | some (.dict S) => S
  | _ => []

/-- an entry is absent, or a container with distinct names satisfying `P` -/
def NoneOrDict (A : Dict) (k : Text) (P : Dict → Prop) : Prop :=
  dget A k = none ∨ ∃ S, dget A k = some (.dict S) ∧ P S

/-- guards of the flat placement for the ids `ps` still to visit:
    ids pairwise distinct (true when sibling names are distinct and dot-free); the entry under a variable's id,
    when present, is a container with distinct names; the container of a top-level variable has no entry named like
    one of that variable's children (otherwise the nested-id lookup of the child would take it — finding class
    C08.attr_named_like_child; this also excludes mixed flat+nested texts) -/
def FlatGuard (A : Dict) (ps : List (List Text)) : Prop :=
  (ps.map dotted).Nodup ∧
  (∀ p ∈ ps, NoneOrDict A (dotted p) fun S => (keys S).Nodup) ∧
  (∀ q0 r1 rs, (q0 :: r1 :: rs) ∈ ps → NoneOrDict A q0 fun S => r1 ∉ keys S)

theorem dget_derase_ne (A : Dict) (k k' : Text) (h : k' ≠ k) : dget (derase A k) k' = dget A k' := by
  induction A with
  | nil => rfl
  | cons kv rest ih =>
    rw [derase_cons]
    by_cases hk : kv.1 = k
    · rw [if_pos hk, ih, dget_cons, if_neg (by rw [hk]; exact h)]
    · rw [if_neg hk, dget_cons, dget_cons, ih]

theorem dget_derase_sub (A : Dict) (k k' : Text) (v : AVal) (h : dget (derase A k) k' = some v) :
    dget A k' = some v := by
  by_cases hk : k' = k
  · subst hk; rw [dget_derase_self] at h; cases h
  · rwa [dget_derase_ne A k k' hk] at h

theorem noneOrDict_derase (A : Dict) (k k' : Text) (P : Dict → Prop) (h : NoneOrDict A k' P) :
    NoneOrDict (derase A k) k' P := by
  cases hd : dget (derase A k) k' with
  | none => exact Or.inl hd
  | some v =>
    have h' := dget_derase_sub A k k' v hd
    rcases h with h | ⟨S, hS, hP⟩
    · rw [h] at h'; cases h'
    · rw [hS] at h'; injection h' with h'; subst h'; exact Or.inr ⟨S, hd, hP⟩

/-- the nested-id lookup finds nothing -/
theorem nested_miss (A : Dict) (p : List Text) (va : Dict)
    (h1 : ∀ n, p = [n] → dget A n = none)
    (h2 : ∀ q0 r1 rs, p = q0 :: r1 :: rs → NoneOrDict A q0 fun S => r1 ∉ keys S) :
    nestedStep A p va = .ok (A, va) := by
  match p with
  | [] => simp [nestedStep]
  | [n] => simp [nestedStep, reduceGet, h1 n rfl]
  | q0 :: r1 :: rs =>
    have e1 : (q0 :: r1 :: rs).getLast? = (r1 :: rs).getLast? := by simp [List.getLast?_cons_cons]
    have e2 : (q0 :: r1 :: rs).dropLast = q0 :: (r1 :: rs).dropLast := by simp [List.dropLast]
    unfold nestedStep
    rw [e1, e2]
    cases hl : (r1 :: rs).getLast? with
    | none => rfl
    | some k =>
      simp only
      rcases h2 q0 r1 rs rfl with h | ⟨S, hS, hP⟩
      · simp [reduceGet, getItem, h]
      · have hr1 := dget_none_of_not_mem S r1 hP
        cases rs with
        | nil =>
          simp at hl; subst hl
          simp [reduceGet, getItem, hS, List.dropLast, hr1]
        | cons r2 rs' =>
          simp [reduceGet, getItem, hS, List.dropLast, hr1]

theorem not_mem_keys_of_dget_none (A : Dict) (k : Text) (h : dget A k = none) : k ∉ keys A := by
  induction A with
  | nil => simp [keys]
  | cons kv rest ih =>
    rw [dget_cons] at h
    by_cases hk : k = kv.1
    · rw [if_pos hk] at h; cases h
    · rw [if_neg hk] at h
      simp only [keys, List.map_cons, List.mem_cons, not_or]
      exact ⟨hk, ih h⟩

theorem dropKeys_derase (A : Dict) (k : Text) (ks : List Text) :
    dropKeys (derase A k) ks = dropKeys A (k :: ks) := by
  unfold dropKeys derase
  rw [List.filter_filter]
  apply List.filter_congr
  intro kv _
  by_cases h : kv.1 = k <;> simp [h]

theorem dropKeys_nil (A : Dict) : dropKeys A [] = A := by
  unfold dropKeys; simp

/-- one visit on a flat DAS: the variable receives the content of the container keyed by its id -/
theorem flat_step (A : Dict) (p : List Text) (hd : NoneOrDict A (dotted p) fun S => (keys S).Nodup)
    (h3 : ∀ q0 r1 rs, p = q0 :: r1 :: rs → NoneOrDict A q0 fun S => r1 ∉ keys S) :
    attachStep A p [] = .ok (match dget A (dotted p) with | some _ => derase A (dotted p) | none => A,
      contentOf A (dotted p)) := by
  rcases hd with h | ⟨S, hS, hnd⟩
  · have hm := nested_miss A p [] (by intro n hn; subst hn; simpa [dotted] using h) h3
    simp [attachStep, h, hm, contentOf]
  · have h2 : dupdate [] S = S := by simpa using dupdate_nodup S [] (by simpa using hnd)
    have hm := nested_miss (derase A (dotted p)) p S
      (by intro n hn; subst hn; simpa [dotted] using dget_derase_self A n)
      (fun q0 r1 rs hp => noneOrDict_derase A _ q0 _ (h3 q0 r1 rs hp))
    simp [attachStep, hS, h2, hm, contentOf]

theorem flat_all (ps : List (List Text)) : ∀ A : Dict, FlatGuard A ps →
    attachAll A ps = .ok (dropKeys A (ps.map dotted), ps.map fun p => (p, contentOf A (dotted p))) := by
  induction ps with
  | nil => intro A _; simp [attachAll, dropKeys_nil]
  | cons p ps ih =>
    intro A ⟨hnd, h1, h3⟩
    have hstep := flat_step A p (h1 p (by simp)) (fun q0 r1 rs hp => h3 q0 r1 rs (by simp [hp]))
    rw [List.map_cons] at hnd
    have hnd2 := List.nodup_cons.mp hnd
    have hnd' : (ps.map dotted).Nodup := hnd2.2
    have hne : ∀ p' ∈ ps, dotted p' ≠ dotted p := by
      intro p' hp' he
      exact hnd2.1 (by rw [← he]; exact List.mem_map_of_mem hp')
    simp only [attachAll, hstep, List.map_cons]
    cases hd : dget A (dotted p) with
    | none =>
      simp only
      have hg : FlatGuard A ps := ⟨hnd', fun q hq => h1 q (by simp [hq]), fun q0 r1 rs hq => h3 q0 r1 rs (by simp [hq])⟩
      rw [ih A hg]
      have : dropKeys A (dotted p :: ps.map dotted) = dropKeys A (ps.map dotted) := by
        rw [← dropKeys_derase, derase_of_not_mem A _ (not_mem_keys_of_dget_none A _ hd)]
      simp [this]
    | some v =>
      simp only
      have hg : FlatGuard (derase A (dotted p)) ps :=
        ⟨hnd', fun q hq => by
            have := h1 q (by simp [hq])
            unfold NoneOrDict at this ⊢
            rw [dget_derase_ne A _ _ (hne q hq)]; exact this,
          fun q0 r1 rs hq => noneOrDict_derase A _ q0 _ (h3 q0 r1 rs (by simp [hq]))⟩
      rw [ih _ hg, dropKeys_derase]
      have hc : ∀ q ∈ ps, contentOf (derase A (dotted p)) (dotted q) = contentOf A (dotted q) := by
        intro q hq; unfold contentOf; rw [dget_derase_ne A _ _ (hne q hq)]
      have hm : ps.map (fun q => (q, contentOf (derase A (dotted p)) (dotted q)))
          = ps.map (fun q => (q, contentOf A (dotted q))) :=
        List.map_congr_left (fun q hq => by rw [hc q hq])
      rw [hm]

/-- the dataset node itself (visited last): nothing carries its name -/
theorem dataset_step (R g : Dict) (name : Text) (h : dget R name = none) :
    attachStep R [name] g = .ok (R, g) := by
  simp [attachStep, nestedStep, dotted, h, reduceGet]

/-- ids visited by `add_attributes`, in visiting order -/
def visitIds (cs : List Var) : List (List Text) := (walkVars [] cs).reverse

/-- what `add_attributes` must produce from a purely flat parsed DAS `A` -/
def flatExpected (cs : List Var) (A : Dict) : Attached :=
  ⟨dupdate (mergeGlobals A []) (dropKeys (A.filter notGlobal) ((visitIds cs).map dotted)),
   (visitIds cs).map fun p => (p, contentOf (A.filter notGlobal) (dotted p))⟩

/-- **`add_attributes` on a flat DAS, whole tree**: every variable receives exactly the content of the top-level
    container keyed by its dotted id (nothing when there is none); every other entry becomes a global attribute on top
    of the merged dict-valued NC_GLOBAL/DODS_EXTRA -/
theorem flat_attach (name : Text) (cs : List Var) (A : Dict)
    (hG : FlatGuard (A.filter notGlobal) (visitIds cs))
    (hself : name ∉ keys (dropKeys (A.filter notGlobal) ((visitIds cs).map dotted))) :
    addAttributes name cs A = .ok (flatExpected cs A) := by
  have hwalk := flat_all (visitIds cs) (A.filter notGlobal) hG
  have hmiss := dget_none_of_not_mem _ _ hself
  unfold visitIds notGlobal at hwalk
  unfold addAttributes flatExpected visitIds notGlobal
  unfold visitIds notGlobal at hmiss
  simp only [hwalk, dataset_step _ _ _ hmiss]

/-- example of a parsed flat DAS for the tree `exTmpl` -/
def exFlatA : Dict :=
  [("s.a".toList, .dict [("x".toList, .sc (.num "1.0".toList true))]),
   ("HDF_GLOBAL".toList, .dict [("k".toList, .sc (.str "v".toList))])]

end Pydap.Das
