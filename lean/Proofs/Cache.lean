/-
  Helper lemmas for the caching-session model (PydapModel/Cache.lean):

  * `lookup_mem`               a hit returns a stored pair
  * `cachedGet_resp/_inv`      one GET: under the invariant the response is the server's; the invariant is kept
  * `runCached_transparent`    all histories: responses through the cache = responses of the plain session
  * `runTrace_resp`, `wire_sublist`, `runTrace_length`  the trace agrees with `runCached`; the wire is a sub-history
-/
import PydapModel.Cache
namespace Pydap.Cache

variable {α κ ρ : Type} [DecidableEq κ]

theorem lookup_mem {k : κ} {r : ρ} {cache : Store κ ρ} (h : lookup k cache = some r) : (k, r) ∈ cache := by
  induction cache with
  | nil => simp [lookup] at h
  | cons e rest ih =>
    obtain ⟨k', r'⟩ := e
    simp only [lookup] at h
    split at h
    · next hk => cases h; subst hk; exact List.mem_cons_self
    · exact List.mem_cons_of_mem _ (ih h)

omit [DecidableEq κ] in
theorem cacheInv_nil (key : α → κ) (server : α → ρ) (adm : α → Prop) : CacheInv key server adm [] := by
  intro k r h; cases h

/-- "equal keys ⇒ equal answers" on the admissible requests: the one fact about key and server the
    induction needs -/
def KeySound (key : α → κ) (server : α → ρ) (adm : α → Prop) : Prop :=
  ∀ u1 u2, adm u1 → adm u2 → key u1 = key u2 → server u1 = server u2

theorem cachedGet_resp {key : α → κ} {server : α → ρ} {adm : α → Prop} {cache : Store κ ρ}
    (hinv : CacheInv key server adm cache) {u : α} (hu : adm u) :
    (cachedGet key server cache u).1 = server u := by
  unfold cachedGet
  split
  · next r h => exact (hinv _ _ (lookup_mem h) u hu rfl).symm
  · rfl

theorem cachedGet_inv {key : α → κ} {server : α → ρ} {adm : α → Prop} (hks : KeySound key server adm)
    {cache : Store κ ρ} (hinv : CacheInv key server adm cache) {u : α} (hu : adm u) :
    CacheInv key server adm (cachedGet key server cache u).2 := by
  unfold cachedGet
  split
  · exact hinv
  · intro k r hmem v hv hkv
    rcases List.mem_cons.1 hmem with h | h
    · cases h; exact hks v u hv hu hkv
    · exact hinv k r h v hv hkv

/-- **Transparency, all histories, any starting store satisfying the invariant.** -/
theorem runCached_transparent {key : α → κ} {server : α → ρ} {adm : α → Prop} (hks : KeySound key server adm)
    (urls : List α) : ∀ (cache : Store κ ρ), CacheInv key server adm cache → (∀ u ∈ urls, adm u) →
      (runCached key server cache urls).1 = runPlain server urls ∧
      CacheInv key server adm (runCached key server cache urls).2 := by
  induction urls with
  | nil => intro cache hinv _; exact ⟨rfl, hinv⟩
  | cons u us ih =>
    intro cache hinv hadm
    have hu : adm u := hadm u List.mem_cons_self
    have h := ih _ (cachedGet_inv hks hinv hu) (fun v hv => hadm v (List.mem_cons_of_mem _ hv))
    refine ⟨?_, h.2⟩
    simp only [runCached, runPlain, List.map_cons]
    rw [cachedGet_resp hinv hu, h.1]; rfl

/-- the trace carries the responses of `runCached` -/
theorem runTrace_resp (key : α → κ) (server : α → ρ) (urls : List α) : ∀ cache : Store κ ρ,
    (runTrace key server cache urls).map (·.2) = (runCached key server cache urls).1 := by
  induction urls with
  | nil => intro _; rfl
  | cons u us ih => intro cache; simp only [runTrace, runCached, List.map_cons, ih]

theorem runTrace_length (key : α → κ) (server : α → ρ) (urls : List α) : ∀ cache : Store κ ρ,
    (runTrace key server cache urls).length = urls.length := by
  induction urls with
  | nil => intro _; rfl
  | cons u us ih => intro cache; simp only [runTrace, List.length_cons, ih]

/-- only requests of the history reach the server, in order, each at most as often as it was asked -/
theorem wire_sublist (key : α → κ) (server : α → ρ) (urls : List α) : ∀ cache : Store κ ρ,
    (wire key server cache urls).Sublist urls := by
  induction urls with
  | nil => intro _; exact List.Sublist.slnil
  | cons u us ih =>
    intro cache
    simp only [wire]
    split
    · exact (ih _).cons _
    · exact (ih _).cons_cons _

/-- a request whose key was asked before (from the empty store) does not reach the server again:
    after a GET of `u` the key of `u` is in the store -/
theorem lookup_after_get (key : α → κ) (server : α → ρ) (cache : Store κ ρ) (u : α) :
    (lookup (key u) (cachedGet key server cache u).2).isSome = true := by
  unfold cachedGet
  split
  · next r h => simp [h]
  · simp [lookup]

end Pydap.Cache
