/-
  C14 — the whole of `SequenceProxy._projection` (three branches) against `SeqClient.projFull`.
-/
import Proofs.ProjSrc
namespace Pydap
open MiniPy

theorem rsplitDot_eq_rpartDot : ∀ s : List Char, IterData.rsplitDot s = rpartDot s
  | [] => rfl
  | c :: cs => by
    simp only [IterData.rsplitDot, rpartDot, rsplitDot_eq_rpartDot cs]
    cases rpartDot cs with
    | none => rfl
    | some ab => rfl

/-- the whole of `_projection` against the model's `projFull` (`isinstance(self.template, SequenceType)` = the template
    has `_dict` keys) -/
theorem projSpec_full (t : Proxy.Tmpl) (p : Proxy.SeqProxy) :
    projSpec p.subChildren (childIds t) (Proxy.joinDot t.path) (hyperslabText p.slice) (decide (t.keys ≠ []))
        (SeqClient.proxyId t p)
      = SeqClient.projFull t p := by
  unfold SeqClient.projFull
  by_cases h1 : p.subChildren = true ∧ t.visible ≠ []
  · rw [if_pos h1]; exact projSpec_model t p _ (.inr (.inr h1))
  · rw [if_neg h1]
    by_cases h2 : t.keys = []
    · rw [if_pos h2, rsplitDot_eq_rpartDot]
      cases hr : rpartDot (SeqClient.proxyId t p) with
      | none =>
        exact projSpec_model t p _ (.inr (.inl ((rpartDot_none _).mp hr)))
      | some ab =>
        obtain ⟨a, b⟩ := ab
        have hd : '.' ∈ SeqClient.proxyId t p := by
          obtain ⟨e, _⟩ := rpartDot_some _ a b hr
          rw [e]; simp
        unfold projSpec
        have hne : ¬ (p.subChildren = true ∧ childIds t ≠ []) := fun e => h1 ⟨e.1, by simpa [childIds] using e.2⟩
        rw [if_neg hne, if_pos ⟨by simp [h2], hd⟩, hr]
    · rw [if_neg h2]
      exact projSpec_model t p _ (.inl (by simp [h2]))

end Pydap
