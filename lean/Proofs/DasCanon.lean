import Proofs.DasStatement
/-! The normal form of attribute maps under the DAS (C08, finding C08.short_list made exact): a DAP attribute is a
    vector of one or more values; Python spells the vector of one value both `[x]` and `x`, and `[]` is not an
    attribute at all.  `canon` maps every attribute map to the spelling the DAS round trip returns; the served text
    does not depend on the spelling (`dasText_canon`). -/
namespace Pydap.Das

mutual
/-- `[x] ↦ x`; dicts recursively -/
def canonVal : AVal → AVal
  | .sc x => .sc x
  | .list xs => unwrap xs
  | .dict kvs => .dict (canonAttrs kvs)
/-- drop the attributes without values (`[]`), normalise the others -/
def canonAttrs : List (Text × AVal) → List (Text × AVal)
  | [] => []
  | (k, v) :: rest => if sizePos v then (k, canonVal v) :: canonAttrs rest else canonAttrs rest
end

mutual
def canonVar : Var → Var
  | .mk k n a cs => .mk k n (canonAttrs a) (canonVars cs)
def canonVars : List Var → List Var
  | [] => []
  | v :: rest => canonVar v :: canonVars rest
end

def canonDs (ds : Dataset) : Dataset := ⟨ds.name, canonAttrs ds.attrs, canonVars ds.children⟩

theorem listType_single (x : Scalar) : listType [x] = typeConvert x := by
  cases x with
  | str s => rfl
  | num t f => cases f <;> rfl

theorem sizePos_canonVal (v : AVal) (h : sizePos v = true) : sizePos (canonVal v) = true := by
  cases v with
  | sc x => rfl
  | dict kvs => rfl
  | list xs =>
    match xs, h with
    | [x], _ => rfl
    | x :: y :: r, _ => rfl

mutual
theorem buildAttr_canon : (k : Text) → (v : AVal) → sizePos v = true → buildAttr k (canonVal v) = buildAttr k v
  | k, .sc x, _ => rfl
  | k, .list xs, h => by
    match xs, h with
    | [x], _ => simp [canonVal, unwrap, buildAttr, listType_single]
    | x :: y :: r, _ => rfl
  | k, .dict kvs, _ => by
    simp only [canonVal, buildAttr]
    rw [buildAttrs_canon kvs]
theorem buildAttrs_canon : (kvs : List (Text × AVal)) → buildAttrs (canonAttrs kvs) = buildAttrs kvs
  | [] => rfl
  | (k, v) :: rest => by
    simp only [canonAttrs, buildAttrs]
    by_cases h : sizePos v = true
    · simp only [h, if_true, buildAttrs, sizePos_canonVal v h]
      rw [buildAttr_canon k v h, buildAttrs_canon rest]
    · simp only [h, if_false, Bool.false_eq_true]
      exact buildAttrs_canon rest
end

/-! #### `sorted(keys)` commutes with the normal form -/

def KSorted (l : Dict) : Prop := l.Pairwise (fun a b => a.1 ≤ b.1)

theorem le_of_not_le' {a b : Text} (h : ¬ a ≤ b) : b ≤ a := by
  rcases Std.le_total (a := a) (b := b) with h' | h'
  · exact absurd h' h
  · exact h'

theorem insKey_sorted (kv : Text × AVal) (l : Dict) (h : KSorted l) : KSorted (insKey kv l) := by
  induction l with
  | nil => simp [insKey, KSorted]
  | cons x rest ih =>
    have hx := List.pairwise_cons.mp h
    unfold insKey
    by_cases hle : kv.1 ≤ x.1
    · rw [if_pos hle]
      refine List.pairwise_cons.mpr ⟨?_, h⟩
      intro y hy
      rcases List.mem_cons.mp hy with rfl | hy
      · exact hle
      · exact Std.le_trans hle (hx.1 y hy)
    · rw [if_neg hle]
      refine List.pairwise_cons.mpr ⟨?_, ih hx.2⟩
      intro y hy
      rcases (mem_insKey y kv rest).mp hy with rfl | hy
      · exact le_of_not_le' hle
      · exact hx.1 y hy

theorem sortKeys_sorted (l : Dict) : KSorted (sortKeys l) := by
  induction l with
  | nil => simp [sortKeys, KSorted]
  | cons kv rest ih => exact insKey_sorted kv _ ih

theorem mem_keys_canon (l : Dict) (k : Text) (h : k ∈ keys (canonAttrs l)) : k ∈ keys l := by
  induction l with
  | nil => simp [canonAttrs, keys] at h
  | cons x rest ih =>
    obtain ⟨k', v'⟩ := x
    simp only [canonAttrs] at h
    by_cases hv : sizePos v' = true
    · simp only [hv, if_true, keys, List.map_cons, List.mem_cons] at h
      rcases h with rfl | h
      · simp [keys]
      · simp only [keys, List.map_cons, List.mem_cons]; right; exact ih h
    · simp only [hv, if_false, Bool.false_eq_true] at h
      simp only [keys, List.map_cons, List.mem_cons]; right; exact ih h

theorem insKey_head (kv : Text × AVal) (l : Dict) (h : ∀ y ∈ keys l, kv.1 ≤ y) : insKey kv l = kv :: l := by
  cases l with
  | nil => rfl
  | cons x rest => simp [insKey, h x.1 (by simp [keys])]

theorem canonAttrs_insKey (kv : Text × AVal) (l : Dict) (hs : KSorted l) :
    canonAttrs (insKey kv l) = if sizePos kv.2 then insKey (kv.1, canonVal kv.2) (canonAttrs l) else canonAttrs l := by
  obtain ⟨k, v⟩ := kv
  induction l with
  | nil => by_cases hv : sizePos v = true <;> simp [insKey, canonAttrs, hv]
  | cons x rest ih =>
    obtain ⟨k', v'⟩ := x
    have hx := List.pairwise_cons.mp hs
    simp only [insKey]
    by_cases hle : k ≤ k'
    · simp only [hle, if_true]
      have hall : ∀ y ∈ keys (canonAttrs ((k', v') :: rest)), k ≤ y := by
        intro y hy
        have := mem_keys_canon _ y hy
        simp only [keys, List.map_cons, List.mem_cons] at this
        rcases this with rfl | hm
        · exact hle
        · simp only [List.mem_map] at hm
          obtain ⟨z, hz, rfl⟩ := hm
          exact Std.le_trans hle (hx.1 z hz)
      by_cases hv : sizePos v = true
      · have := insKey_head (k, canonVal v) _ hall
        simp only [hv, if_true, this]
        simp [canonAttrs, hv]
      · simp [canonAttrs, hv]
    · simp only [hle, if_false]
      have ih' := ih hx.2
      by_cases hv' : sizePos v' = true
      · simp only [canonAttrs, hv', if_true]
        rw [ih']
        by_cases hv : sizePos v = true
        · simp [hv, insKey, hle]
        · simp [hv]
      · simp only [canonAttrs, hv', if_false, Bool.false_eq_true]
        exact ih'

theorem canonAttrs_sortKeys (a : Dict) : canonAttrs (sortKeys a) = sortKeys (canonAttrs a) := by
  induction a with
  | nil => rfl
  | cons kv rest ih =>
    obtain ⟨k, v⟩ := kv
    simp only [sortKeys]
    rw [canonAttrs_insKey _ _ (sortKeys_sorted rest), ih]
    by_cases hv : sizePos v = true <;> simp [canonAttrs, hv, sortKeys]

/-! #### the served text does not depend on the spelling -/

theorem buildAttrs_filter (l : Dict) : buildAttrs (l.filter fun kv => sizePos kv.2) = buildAttrs l := by
  induction l with
  | nil => rfl
  | cons kv rest ih =>
    obtain ⟨k, v⟩ := kv
    by_cases hv : sizePos v = true <;> simp [List.filter, buildAttrs, hv, ih]

theorem buildAttrs_sort_canon (a : Dict) : buildAttrs (sortKeys (canonAttrs a)) = buildAttrs (sortKeys a) := by
  rw [← canonAttrs_sortKeys, buildAttrs_canon]

mutual
theorem dasVar_canon : (v : Var) → dasVar (canonVar v) = dasVar v
  | .mk .struct n a cs => by simp only [canonVar, dasVar]; rw [buildAttrs_sort_canon, dasVars_canon cs]
  | .mk .seq n a cs => by simp only [canonVar, dasVar]; rw [buildAttrs_sort_canon, dasVars_canon cs]
  | .mk .base n a cs => by simp only [canonVar, dasVar]; rw [buildAttrs_filter, buildAttrs_filter, buildAttrs_sort_canon]
  | .mk .grid n a cs => by simp only [canonVar, dasVar]; rw [buildAttrs_filter, buildAttrs_filter, buildAttrs_sort_canon]
theorem dasVars_canon : (cs : List Var) → dasVars (canonVars cs) = dasVars cs
  | [] => rfl
  | v :: rest => by simp only [canonVars, dasVars]; rw [dasVar_canon v, dasVars_canon rest]
end

/-- **the DAS text is the same for `[x]` and `x`, with or without `[]`** -/
theorem dasText_canon (ds : Dataset) : dasText (canonDs ds) = dasText ds := by
  unfold dasText dasItems canonDs
  simp only [buildAttrs_sort_canon, dasVars_canon]

mutual
theorem walkVar_canon : (v : Var) → (p : List Text) → walkVar p (canonVar v) = walkVar p v
  | .mk k n a cs, p => by simp only [canonVar, walkVar]; rw [walkVars_canon cs]
theorem walkVars_canon : (cs : List Var) → (p : List Text) → walkVars p (canonVars cs) = walkVars p cs
  | [], _ => rfl
  | v :: rest, p => by simp only [canonVars, walkVars]; rw [walkVar_canon v, walkVars_canon rest]
end

theorem addAttributes_canon (name : Text) (cs : List Var) (A : Dict) :
    addAttributes name (canonVars cs) A = addAttributes name cs A := by
  unfold addAttributes; rw [walkVars_canon]

/-- serve, parse, attach does not see the spelling either -/
theorem roundTrip_canon (ds : Dataset) : roundTrip (canonDs ds) = roundTrip ds := by
  unfold roundTrip
  rw [dasText_canon]
  simp only [canonDs, addAttributes_canon]

/-! #### the normal form stays in the DAS-safe domain -/

mutual
theorem valOk_canon : (v : AVal) → ValOk v → ValOk (canonVal v)
  | .sc x, h => h
  | .list xs, h => by
    match xs, h with
    | [], _ => simp [canonVal, unwrap, ValOk]
    | [x], h =>
      simp only [ValOk] at h
      have := h x (by simp)
      simpa [canonVal, unwrap, ValOk, listType_single] using this
    | x :: y :: r, h => exact h
  | .dict kvs, h => by
    simp only [ValOk] at h
    simp only [canonVal, ValOk]
    exact attrsOk_canon kvs h
theorem attrsOk_canon : (kvs : List (Text × AVal)) → AttrsOk kvs → AttrsOk (canonAttrs kvs)
  | [], _ => trivial
  | (k, v) :: rest, h => by
    simp only [AttrsOk] at h
    simp only [canonAttrs]
    by_cases hv : sizePos v = true
    · simp only [hv, if_true, AttrsOk]
      exact ⟨h.1, valOk_canon v h.2.1, attrsOk_canon rest h.2.2⟩
    · simp only [hv, if_false, Bool.false_eq_true]
      exact attrsOk_canon rest h.2.2
end

mutual
theorem varOk_canon : (v : Var) → VarOk v → VarOk (canonVar v)
  | .mk .struct n a cs, h => by
    simp only [VarOk] at h; simp only [canonVar, VarOk]; exact ⟨h.1, attrsOk_canon a h.2.1, varsOk_canon cs h.2.2⟩
  | .mk .seq n a cs, h => by
    simp only [VarOk] at h; simp only [canonVar, VarOk]; exact ⟨h.1, attrsOk_canon a h.2.1, varsOk_canon cs h.2.2⟩
  | .mk .base n a cs, h => by
    simp only [VarOk] at h; simp only [canonVar, VarOk]; exact ⟨h.1, attrsOk_canon a h.2⟩
  | .mk .grid n a cs, h => by
    simp only [VarOk] at h; simp only [canonVar, VarOk]; exact ⟨h.1, attrsOk_canon a h.2⟩
theorem varsOk_canon : (cs : List Var) → VarsOk cs → VarsOk (canonVars cs)
  | [], _ => trivial
  | v :: rest, h => by
    simp only [VarsOk] at h; simp only [canonVars, VarsOk]; exact ⟨varOk_canon v h.1, varsOk_canon rest h.2⟩
end

theorem dsOk_canon (ds : Dataset) (h : DsOk ds) : DsOk (canonDs ds) :=
  ⟨attrsOk_canon _ h.1, varsOk_canon _ h.2⟩

end Pydap.Das
