/-
  The whole `constrain` pipeline (`BaseHandler.parse`: `apply_selection`, `fix_shorthand`,
  `apply_projection` = collect pass, "fix sequence data", slice pass) keeps a well-formed dataset
  well formed (C06 / C15): every array still carries `prod shape` values in an object with `.flat`,
  every sequence row has one value per visible column.
-/
import PydapModel.Handler
import Proofs.Handler
import Proofs.Arrayterator
namespace Pydap.Handler
open Pydap

/-! ### `Except` / `Option` plumbing -/

theorem foldlM_inv {α β : Type} (f : β → α → Except Exc β) (P : β → Prop)
    (hf : ∀ b a b', P b → f b a = .ok b' → P b') :
    ∀ (l : List α) (b r : β), P b → l.foldlM f b = .ok r → P r
  | [], b, r, hb, h => by
    simp only [List.foldlM_nil, pure, Except.pure, Except.ok.injEq] at h
    exact h ▸ hb
  | a :: l, b, r, hb, h => by
    simp only [List.foldlM_cons, bind, Except.bind] at h
    cases hfa : f b a with
    | error e => simp [hfa] at h
    | ok b' =>
      simp only [hfa] at h
      exact foldlM_inv f P hf l b' r (hf b a b' hb hfa) h

theorem mapM_ok_mem {α β : Type} (f : α → Except Exc β) :
    ∀ (l : List α) (ys : List β), l.mapM f = .ok ys → ∀ y ∈ ys, ∃ x ∈ l, f x = .ok y
  | [], ys, h, y, hy => by
    simp only [List.mapM_nil, pure, Except.pure, Except.ok.injEq] at h
    subst h; simp at hy
  | a :: l, ys, h, y, hy => by
    simp only [List.mapM_cons, bind, Except.bind, pure, Except.pure] at h
    cases hfa : f a with
    | error e => simp [hfa] at h
    | ok b =>
      simp only [hfa] at h
      cases hl : l.mapM f with
      | error e => simp [hl] at h
      | ok bs =>
        simp only [hl, Except.ok.injEq] at h
        subst h
        simp only [List.mem_cons] at hy
        rcases hy with rfl | hy
        · exact ⟨a, by simp, hfa⟩
        · obtain ⟨x, hx, hfx⟩ := mapM_ok_mem f l bs hl y hy
          exact ⟨x, by simp [hx], hfx⟩

theorem optMapM_length {α β : Type} (f : α → Option β) :
    ∀ (l : List α) (ys : List β), l.mapM f = some ys → ys.length = l.length
  | [], ys, h => by simp at h; subst h; rfl
  | a :: l, ys, h => by
    simp only [List.mapM_cons, Option.bind_eq_bind, Option.pure_def, Option.bind_eq_some_iff] at h
    obtain ⟨b, _, bs, hbs, h⟩ := h
    simp only [Option.some.injEq] at h
    subst h
    simp [optMapM_length f l bs hbs]

theorem optMapM_mem {α β : Type} (f : α → Option β) :
    ∀ (l : List α) (ys : List β), l.mapM f = some ys → ∀ y ∈ ys, ∃ x ∈ l, f x = some y
  | [], ys, h, y, hy => by simp at h; subst h; simp at hy
  | a :: l, ys, h, y, hy => by
    simp only [List.mapM_cons, Option.bind_eq_bind, Option.pure_def, Option.bind_eq_some_iff] at h
    obtain ⟨b, hb, bs, hbs, h⟩ := h
    simp only [Option.some.injEq] at h
    subst h
    simp only [List.mem_cons] at hy
    rcases hy with rfl | hy
    · exact ⟨a, by simp, hb⟩
    · obtain ⟨x, hx, hfx⟩ := optMapM_mem f l bs hbs y hy
      exact ⟨x, by simp [hx], hfx⟩

/-- a monadic filter that only ever hands back the element it was given yields members of the list -/
theorem filterMapM_mem {α : Type} (f : α → Except Exc (Option α))
    (hf : ∀ a b, f a = .ok (some b) → b = a) :
    ∀ (l ys : List α), l.filterMapM f = .ok ys → ∀ y ∈ ys, y ∈ l
  | [], ys, h, y, hy => by
    simp only [List.filterMapM_nil, pure, Except.pure, Except.ok.injEq] at h
    subst h; simp at hy
  | a :: l, ys, h, y, hy => by
    simp only [List.filterMapM_cons, bind, Except.bind, pure, Except.pure] at h
    cases hfa : f a with
    | error e => simp [hfa] at h
    | ok o =>
      simp only [hfa] at h
      cases o with
      | none => exact List.mem_cons_of_mem _ (filterMapM_mem f hf l ys h y hy)
      | some b =>
        simp only at h
        cases hl : l.filterMapM f with
        | error e => simp [hl] at h
        | ok bs =>
          simp only [hl, Except.ok.injEq] at h
          subst h
          simp only [List.mem_cons] at hy
          rcases hy with rfl | hy
          · rw [hf a _ hfa]; simp
          · exact List.mem_cons_of_mem _ (filterMapM_mem f hf l bs hl y hy)

theorem bind_pure_ok {α β : Type} (x : Except Exc α) (f : α → β) (r : β)
    (h : (do let a ← x; pure (f a)) = Except.ok r) : ∃ a, x = .ok a ∧ r = f a := by
  cases x with
  | error e => simp [bind, Except.bind] at h
  | ok a => simp only [bind, Except.bind, pure, Except.pure, Except.ok.injEq] at h; exact ⟨a, rfl, h.symm⟩

theorem map_ok {α β : Type} (x : Except Exc α) (f : α → β) (r : β)
    (h : f <$> x = Except.ok r) : ∃ a, x = .ok a ∧ r = f a := by
  cases x with
  | error e => simp [Functor.map, Except.map] at h
  | ok a => simp only [Functor.map, Except.map, Except.ok.injEq] at h; exact ⟨a, rfl, h.symm⟩

/-! ### lookups hand back members -/

theorem findVar_mem {vs : List Var} {n : Str} {v : Var} (h : findVar vs n = some v) : v ∈ vs :=
  List.mem_of_find?_eq_some h

theorem findMember_wf {v : Var} {m : Str} {b : Member} (hv : v.WF) (h : findMember v m = some b) : b.WF := by
  cases v with
  | base _ => simp [findMember] at h
  | seq _ _ _ => simp [findMember] at h
  | struct n ms => exact hv b (List.mem_of_find?_eq_some h)
  | grid n a ms =>
    simp only [findMember, Option.map_eq_some_iff] at h
    obtain ⟨x, hx, rfl⟩ := h
    have := List.mem_of_find?_eq_some hx
    simp only [List.mem_cons] at this
    rcases this with rfl | hm
    · exact hv.1
    · exact hv.2 x hm

theorem addMember_wf {ms : List Member} {b : Member} (hms : ∀ m ∈ ms, m.WF) (hb : b.WF) :
    ∀ m ∈ addMember ms b, m.WF := by
  intro m hm
  cases b with
  | base x =>
    simp only [addMember, setMember, List.mem_append, List.mem_filter, List.mem_singleton] at hm
    rcases hm with hm | rfl
    · exact hms m hm.1
    · exact hb
  | struct n bs =>
    simp only [addMember] at hm
    split at hm
    · exact hms m hm
    · simp only [List.mem_append, List.mem_singleton] at hm
      rcases hm with hm | rfl
      · exact hms m hm
      · exact hb

theorem setBase_wf {ms : List Base} {b : Base} (hms : ∀ m ∈ ms, m.WF) (hb : b.WF) :
    ∀ m ∈ setBase ms b, m.WF := by
  intro m hm
  simp only [setBase, List.mem_append, List.mem_filter, List.mem_singleton] at hm
  rcases hm with hm | rfl
  · exact hms m hm.1
  · exact hb

/-! ### `apply_selection` -/

theorem filterRows_mem (n : Str) (cols : List (Str × Str)) (rows rows' : List (List Val)) (cond : Str)
    (h : filterRows n cols rows cond = .ok rows') : ∀ r ∈ rows', r ∈ rows := by
  unfold filterRows at h
  split at h
  · simp at h
  · split at h
    · simp at h
    · split at h
      · refine filterMapM_mem _ ?_ rows rows' h
        intro a b hab
        split at hab
        · split at hab
          · simp only [Except.ok.injEq, Option.some.injEq] at hab; exact hab.symm
          · simp at hab
          · simp at hab
          · simp at hab
        · simp at hab
      · simp at h

theorem applySelVar_wf (sel : List Str) (v v' : Var) (hv : v.WF) (h : applySelVar sel v = .ok v') : v'.WF := by
  cases v with
  | seq n cols rows =>
    simp only [applySelVar, bind, Except.bind, pure, Except.pure] at h
    cases hf : List.foldlM (filterRows n cols) rows (sel.filter (relevant n)) with
    | error e => simp [hf] at h
    | ok rows' =>
      simp only [hf, Except.ok.injEq] at h
      subst h
      have := foldlM_inv (filterRows n cols) (fun rs => ∀ r ∈ rs, r ∈ rows)
        (fun b a b' hb hfa r hr => hb r (filterRows_mem n cols b b' a hfa r hr)) _ rows rows' (fun r hr => hr) hf
      intro r hr
      exact hv r (this r hr)
  | base b => simp only [applySelVar, Except.ok.injEq] at h; subst h; exact hv
  | struct n ms => simp only [applySelVar, Except.ok.injEq] at h; subst h; exact hv
  | grid n a ms => simp only [applySelVar, Except.ok.injEq] at h; subst h; exact hv

theorem applySelection_wf (sel : List Str) (ds ds' : Dataset) (hds : ds.WF)
    (h : applySelection sel ds = .ok ds') : ds'.WF := by
  simp only [applySelection, bind, Except.bind, pure, Except.pure] at h
  cases hm : ds.vars.mapM (applySelVar sel) with
  | error e => simp [hm] at h
  | ok vs =>
    simp only [hm, Except.ok.injEq] at h
    subst h
    intro v hv
    obtain ⟨x, hx, hfx⟩ := mapM_ok_mem _ _ _ hm v hv
    exact applySelVar_wf sel x v (hds x hx) hfx

/-! ### `apply_projection`: the collect pass -/

/-- what the collect pass guarantees: arrays, structures and grids are well formed; the rows of a
    collected sequence are only settled by the "fix sequence data" step -/
def Var.WF' : Var → Prop
  | .seq _ _ _ => True
  | v => v.WF

theorem Var.WF.toWF' {v : Var} (h : v.WF) : v.WF' := by
  cases v <;> first | exact h | trivial

theorem map_replace_wf' (out : List Var) (n : Str) (w : Var) (hout : ∀ v ∈ out, v.WF') (hw : w.WF') :
    ∀ v ∈ out.map (fun v => if v.name = n then w else v), v.WF' := by
  intro v hv
  simp only [List.mem_map] at hv
  obtain ⟨x, hx, rfl⟩ := hv
  split
  · exact hw
  · exact hout x hx

theorem setVar_all {P : Var → Prop} (out : List Var) (w : Var) (hout : ∀ v ∈ out, P v) (hw : P w) :
    ∀ v ∈ setVar out w, P v := by
  intro v hv
  simp only [setVar, List.mem_append, List.mem_filter, List.mem_singleton] at hv
  rcases hv with hv | rfl
  · exact hout v hv.1
  · exact hw

theorem append_all {P : Var → Prop} (out : List Var) (w : Var) (hout : ∀ v ∈ out, P v) (hw : P w) :
    ∀ v ∈ out ++ [w], P v := by
  intro v hv
  simp only [List.mem_append, List.mem_singleton] at hv
  rcases hv with hv | rfl
  · exact hout v hv
  · exact hw

theorem collect1Core_wf' (src : Dataset) (hsrc : src.WF) (out out' : List Var) (p : ProjItem)
    (hout : ∀ v ∈ out, v.WF') (h : collect1Core src out p = .ok out') : ∀ v ∈ out', v.WF' := by
  unfold collect1Core at h
  split at h
  · simp at h
  · simp only [Except.ok.injEq] at h; subst h; exact hout
  · -- one part
    split at h
    · simp at h
    · rename_i b hf
      simp only [Except.ok.injEq] at h; subst h
      exact setVar_all out _ hout (hsrc _ (findVar_mem hf)).toWF'
    · rename_i v _ hf
      split at h
      · simp only [Except.ok.injEq] at h; subst h; exact hout
      · simp only [Except.ok.injEq] at h; subst h
        exact append_all out _ hout (hsrc _ (findVar_mem hf)).toWF'
  · -- two parts
    split at h
    · simp at h
    · simp at h
    · -- sequence column
      split at h
      · simp at h
      · split at h
        · simp only [Except.ok.injEq] at h; subst h
          exact append_all out _ hout trivial
        · simp only [Except.ok.injEq] at h; subst h
          exact map_replace_wf' out _ _ hout trivial
        · simp at h
    · -- structure / grid member
      rename_i v _ _ hf
      split at h
      · simp at h
      · rename_i mem hb
        have hbwf : mem.WF := findMember_wf (hsrc _ (findVar_mem hf)) hb
        split at h
        · simp only [Except.ok.injEq] at h; subst h
          refine append_all out _ hout ?_
          intro m hm; simp at hm; subst hm; exact hbwf
        · rename_i ms ho
          simp only [Except.ok.injEq] at h; subst h
          have hms : ∀ m ∈ ms, m.WF := hout _ (findVar_mem ho)
          exact map_replace_wf' out _ _ hout (addMember_wf hms hbwf)
        · rename_i a ms ho
          have hg : a.WF ∧ ∀ m ∈ ms, m.WF := hout _ (findVar_mem ho)
          split at h
          · simp only [Except.ok.injEq] at h; subst h; exact hout
          · simp at h
        · simp at h
  · -- three parts: a member of a structure nested in a structure
    split at h
    · simp at h
    · rename_i sms hf
      have hsms : ∀ m ∈ sms, m.WF := hsrc _ (findVar_mem hf)
      split at h
      · simp at h
      · simp at h
      · rename_i bs hfm
        have hbs : ∀ b ∈ bs, b.WF := hsms _ (List.mem_of_find?_eq_some hfm)
        split at h
        · simp at h
        · rename_i b hfb
          have hb : b.WF := hbs _ (List.mem_of_find?_eq_some hfb)
          have hnew : ∀ nm, (Member.struct nm [b]).WF := by
            intro nm x hx; simp at hx; subst hx; exact hb
          split at h
          · simp only [Except.ok.injEq] at h; subst h
            refine append_all out _ hout ?_
            intro m hm; simp at hm; subst hm; exact hnew _
          · rename_i ms ho
            have hms : ∀ m ∈ ms, m.WF := hout _ (findVar_mem ho)
            split at h
            · simp only [Except.ok.injEq] at h; subst h
              refine map_replace_wf' out _ _ hout ?_
              intro m hm
              simp only [List.mem_append, List.mem_singleton] at hm
              rcases hm with hm | rfl
              · exact hms m hm
              · exact hnew _
            · rename_i obs hfo
              have hobs : ∀ b ∈ obs, b.WF := hms _ (List.mem_of_find?_eq_some hfo)
              simp only [Except.ok.injEq] at h; subst h
              refine map_replace_wf' out _ _ hout ?_
              intro m hm
              simp only [List.mem_map] at hm
              obtain ⟨x, hx, rfl⟩ := hm
              split
              · exact setBase_wf hobs hb
              · exact hms x hx
            · simp at h
          · simp at h
    · simp at h
  · simp at h

theorem collect1_wf' (src : Dataset) (hsrc : src.WF) (out out' : List Var) (p : ProjItem)
    (hout : ∀ v ∈ out, v.WF') (h : collect1 src out p = .ok out') : ∀ v ∈ out', v.WF' := by
  unfold collect1 at h
  split at h
  · split at h
    · simp at h
    · exact collect1Core_wf' src hsrc out out' _ hout h
  · exact collect1Core_wf' src hsrc out out' _ hout h

/-! ### "fix sequence data" -/

theorem fixSeqData_wf (src : Dataset) (v v' : Var) (hv : v.WF') (h : fixSeqData src v = .ok v') : v'.WF := by
  cases v with
  | base b => simp only [fixSeqData, Except.ok.injEq] at h; subst h; exact hv
  | struct n ms => simp only [fixSeqData, Except.ok.injEq] at h; subst h; exact hv
  | grid n a ms => simp only [fixSeqData, Except.ok.injEq] at h; subst h; exact hv
  | seq n cols rows =>
    simp only [fixSeqData] at h
    split at h
    · rename_i scols srows _
      split at h
      · simp at h
      · rename_i idx hidx
        split at h
        · simp at h
        · rename_i rows' hrows
          simp only [Except.ok.injEq] at h; subst h
          intro r hr
          obtain ⟨sr, _, hsr⟩ := optMapM_mem _ _ _ hrows r hr
          rw [optMapM_length _ _ _ hsr, optMapM_length _ _ _ hidx]
    · simp at h

/-! ### the slice pass -/

theorem map_replace_wf (out : List Var) (n : Str) (w : Var) (hout : ∀ v ∈ out, v.WF) (hw : w.WF) :
    ∀ v ∈ out.map (fun v => if v.name = n then w else v), v.WF := by
  intro v hv
  simp only [List.mem_map] at hv
  obtain ⟨x, hx, rfl⟩ := hv
  split
  · exact hw
  · exact hout x hx

theorem sliceGrid_wf (a : Base) (ms : List Base) (sl : List PSlice) (r : Base × List Base)
    (ha : a.WF) (hms : ∀ m ∈ ms, m.WF) (h : sliceGrid a ms sl = .ok r) : r.1.WF ∧ ∀ m ∈ r.2, m.WF := by
  unfold sliceGrid at h
  simp only [bind, Except.bind, pure, Except.pure] at h
  cases hsa : sliceBase a sl with
  | error e => simp [hsa] at h
  | ok a' =>
    simp only [hsa] at h
    split at h
    · simp at h
    · rename_i ms' hm
      simp only [Except.ok.injEq] at h
      subst h
      refine ⟨(sliceBase_wf a a' sl ha hsa).1, ?_⟩
      intro m hmem
      simp only [List.mem_append] at hmem
      rcases hmem with hmem | hmem
      · obtain ⟨x, hx, hfx⟩ := mapM_ok_mem _ _ _ hm m hmem
        obtain ⟨x1, x2⟩ := x
        simp only at hfx
        split at hfx
        · rename_i m' hs
          simp only [Except.ok.injEq] at hfx
          subst hfx
          exact (sliceBase_wf x1 _ [x2] (hms _ (List.of_mem_zip hx).1) hs).1
        · simp at hfx
      · exact hms m (List.mem_of_mem_drop hmem)

theorem slice1_wf (out out' : List Var) (p : ProjItem) (hout : ∀ v ∈ out, v.WF)
    (h : slice1 out p = .ok out') : ∀ v ∈ out', v.WF := by
  unfold slice1 at h
  split at h
  · simp at h
  · simp only [Except.ok.injEq] at h; subst h; exact hout
  · -- one part
    split at h
    · simp only [Except.ok.injEq] at h; subst h; exact hout
    · split at h
      · simp at h
      · rename_i b hf
        simp only [bind, Except.bind, pure, Except.pure] at h
        split at h
        · simp at h
        · rename_i b' hs
          simp only [Except.ok.injEq] at h; subst h
          have hb : b.WF := hout _ (findVar_mem hf)
          exact map_replace_wf out _ _ hout (sliceBase_wf b b' _ hb hs).1
      · rename_i cols rows hf
        have hr : ∀ r ∈ rows, r.length = cols.length := hout _ (findVar_mem hf)
        split at h
        · split at h
          · simp only [Except.ok.injEq] at h; subst h
            refine setVar_all out _ hout ?_
            intro r hrm
            simp only [List.mem_filterMap] at hrm
            obtain ⟨i, _, hi⟩ := hrm
            exact hr r (List.mem_of_getElem? hi)
          · simp at h
        · simp only [Except.ok.injEq] at h; subst h; exact hout
      · rename_i a ms hf
        have hg : a.WF ∧ ∀ m ∈ ms, m.WF := hout _ (findVar_mem hf)
        simp only [bind, Except.bind, pure, Except.pure] at h
        split at h
        · simp at h
        · rename_i r hs
          simp only [Except.ok.injEq] at h; subst h
          exact setVar_all out _ hout (sliceGrid_wf a ms _ r hg.1 hg.2 hs)
      · simp at h
  · -- two parts
    split at h
    · split at h <;> simp at h
    · split at h
      · simp only [Except.ok.injEq] at h; subst h; exact hout
      · split at h
        · rename_i ms hf
          have hms : ∀ m ∈ ms, m.WF := hout _ (findVar_mem hf)
          split at h
          · simp at h
          · simp at h
          · rename_i b hb
            obtain ⟨b', hs, rfl⟩ := bind_pure_ok _ _ _ h
            have hbwf : b.WF := hms _ (List.mem_of_find?_eq_some hb)
            refine map_replace_wf out _ _ hout ?_
            intro m hm
            simp only [List.mem_map] at hm
            obtain ⟨x, hx, rfl⟩ := hm
            split
            · exact (sliceBase_wf b b' _ hbwf hs).1
            · exact hms x hx
        · simp at h
  · -- three parts
    split at h
    · rename_i ms hf
      have hms : ∀ m ∈ ms, m.WF := hout _ (findVar_mem hf)
      split at h
      · simp at h
      · split at h
        · rename_i bs hfm
          have hbs : ∀ b ∈ bs, b.WF := hms _ (List.mem_of_find?_eq_some hfm)
          split at h
          · simp at h
          · split at h
            · simp only [Except.ok.injEq] at h; subst h; exact hout
            · split at h
              · simp at h
              · rename_i b hb
                obtain ⟨b', hs, rfl⟩ := bind_pure_ok _ _ _ h
                have hbwf : b.WF := hbs _ (List.mem_of_find?_eq_some hb)
                refine map_replace_wf out _ _ hout ?_
                intro m hm
                simp only [List.mem_map] at hm
                obtain ⟨x, hx, rfl⟩ := hm
                split
                · intro y hy
                  simp only [List.mem_map] at hy
                  obtain ⟨z, hz, rfl⟩ := hy
                  split
                  · exact (sliceBase_wf b b' _ hbwf hs).1
                  · exact hbs z hz
                · exact hms x hx
        · simp at h
    · simp at h
  · simp at h

/-! ### the whole pipeline -/

theorem applyProjection_wf (proj : List ProjItem) (src out : Dataset) (hsrc : src.WF)
    (h : applyProjection proj src = .ok out) : out.WF := by
  simp only [applyProjection, bind, Except.bind, pure, Except.pure] at h
  cases h1 : List.foldlM (collect1 src) [] proj with
  | error e => simp [h1] at h
  | ok o1 =>
    simp only [h1] at h
    cases h2 : o1.mapM (fixSeqData src) with
    | error e => simp [h2] at h
    | ok o2 =>
      simp only [h2] at h
      cases h3 : List.foldlM slice1 o2 proj with
      | error e => simp [h3] at h
      | ok o3 =>
        simp only [h3, Except.ok.injEq] at h
        subst h
        have w1 : ∀ v ∈ o1, v.WF' :=
          foldlM_inv (collect1 src) (fun o => ∀ v ∈ o, v.WF')
            (fun b a b' hb hfa => collect1_wf' src hsrc b b' a hb hfa) proj [] o1 (by simp) h1
        have w2 : ∀ v ∈ o2, v.WF := by
          intro v hv
          obtain ⟨x, hx, hfx⟩ := mapM_ok_mem _ _ _ h2 v hv
          exact fixSeqData_wf src x v (w1 x hx) hfx
        exact foldlM_inv slice1 (fun o => ∀ v ∈ o, v.WF)
          (fun b a b' hb hfa => slice1_wf b b' a hb hfa) proj o2 o3 w2 h3

theorem constrain_wf (ds cds : Dataset) (proj : List ProjItem) (sel : List Str) (hds : ds.WF)
    (h : constrain ds proj sel = .ok cds) : cds.WF := by
  simp only [constrain, bind, Except.bind] at h
  cases h1 : applySelection sel ds with
  | error e => simp [h1] at h
  | ok ds1 =>
    simp only [h1] at h
    have w1 := applySelection_wf sel ds ds1 hds h1
    split at h
    · simp only [pure, Except.pure] at h
      exact applyProjection_wf _ ds1 cds w1 h
    · split at h
      · simp at h
      · exact applyProjection_wf _ ds1 cds w1 h

theorem constrained_wf (ds cds : Dataset) (q : Str) (hds : ds.WF) (h : constrained ds q = .ok cds) :
    cds.WF := by
  unfold constrained at h
  split at h
  · simp at h
  · exact constrain_wf ds cds _ _ hds h

/-- the dataset handed to the response object by the guarded region is well formed -/
theorem guarded_wf (ds cds : Dataset) (path query : Str) (k : Kind) (hds : ds.WF)
    (h : guarded ds path query = .ok (k, cds)) : cds.WF := by
  cases hp : rsplitDot path with
  | none => simp [guarded, hp, bind, Except.bind] at h
  | some pr =>
    obtain ⟨pre, ext⟩ := pr
    rw [guarded_eq ds path query pre ext hp] at h
    split at h
    · simp at h
    · rename_i cds' hc
      have hw := constrained_wf ds cds' _ hds hc
      split at h
      · simp at h
      · simp at h
      · simp only [Except.ok.injEq, Prod.mk.injEq] at h
        exact h.2 ▸ hw

theorem bodyOf_complete (fmt : Int → Str) (k : Kind) (cds : Dataset) (h : cds.WF) :
    ∃ text, bodyOf fmt k cds = .complete text := by
  cases k with
  | ascii =>
    obtain ⟨t, ht⟩ := asciiData_ok fmt cds h
    exact ⟨ddsText cds ++ dashes ++ t, by simp [bodyOf, ht]⟩
  | dds => exact ⟨_, rfl⟩
  | das => exact ⟨_, rfl⟩
  | dods => exact ⟨_, rfl⟩
  | other => exact ⟨_, rfl⟩

end Pydap.Handler
