/-
  The source text of the texts client.py `consolidate_metadata` builds, translated on every run by harness/py2lean.py
  into MiniPy syntax (PydapModel/Generated/ClientSrc.lean), computes the model's `Cons.declText` (an element of
  `dim_ces`), `Cons.dimReq … .url` (a pre-fetch URL), `"http" + url[4:]`, `Cons.dmrReq … .url` and the `base_url`
  (`Cons.baseUrlText`) (C18).  The comprehensions themselves (which `dim`s, in which order) are outside the fragment:
  the blocks are their ELEMENT expressions, with `results[0].dimensions[dim]` as the input `@size`.

  A URL text is related to the model's `FileIn` (the `urlparse` parts) by `urlTextOf`; that the first '?' of a URL starts
  the query — host and path hold none — is `urlparse`'s behaviour and a hypothesis here (`NoQ`).
-/
import Proofs.MiniPy
import Proofs.DdsSrc
import PydapModel.Consolidate
import PydapModel.Generated.ClientSrc
set_option linter.unusedSimpArgs false
namespace Pydap
open MiniPy Cons DdsSrc

/-- the query part of a URL text -/
def qpartOf : Option (List Char) → List Char
  | none => []
  | some q => '?' :: q

/-- the URL text whose `urlparse` parts are `f` -/
def urlTextOf (f : FileIn) : List Char := f.scheme ++ "://".toList ++ f.host ++ f.path ++ qpartOf f.query

/-- `"http" + url[4:]` of that text when the scheme is `dap4` -/
def httpTextOf (f : FileIn) : List Char := baseUrlText f ++ qpartOf f.query

def NoQ (f : FileIn) : Prop := '?' ∉ f.host ∧ '?' ∉ f.path

theorem src_consolidate_dim_ce_eq (d : List Char) (n : Nat) :
    runItem [("dim", .str (codesOf d)), ("@size", .int n)] Gen.src_consolidate_dim_ce "@elt"
      = .ok (.str (codesOf (declText d n))) := by
  unfold Gen.src_consolidate_dim_ce declText lastText
  simp (decide := true) only [runItem, exec, eval, bind_ok', lookup_cons_eq, lookup_cons_ne, lookup_setVar_eq,
    asInt_int, intStr_eq, codes_append, List.append_assoc]
  rfl

theorem src_consolidate_new_url_eq (f0 : FileIn) (d : List Char) (n : Nat) :
    runItem [("base_url", .str (codesOf (baseUrlText f0))), ("dim", .str (codesOf d)), ("@size", .int n)]
        Gen.src_consolidate_new_url "@elt"
      = .ok (.str (codesOf (dimReq f0 d n).url)) := by
  unfold Gen.src_consolidate_new_url dimReq lastText
  simp (decide := true) only [runItem, exec, eval, bind_ok', lookup_cons_eq, lookup_cons_ne, lookup_setVar_eq,
    asInt_int, intStr_eq, codes_append, List.append_assoc]
  rfl

theorem src_consolidate_http_url_eq (f : FileIn) (hs : f.scheme = dap4Lit) :
    runItem [("@url", .str (codesOf (urlTextOf f)))] Gen.src_consolidate_http_url "@elt"
      = .ok (.str (codesOf (httpTextOf f))) := by
  unfold Gen.src_consolidate_http_url urlTextOf httpTextOf baseUrlText
  rw [hs]
  simp (decide := true) only [runItem, exec, eval, bind_ok', lookup_cons_eq, lookup_setVar_eq, codes_append,
    List.append_assoc]
  rfl

/-! ### '?' in a text -/

theorem q_code (c : Char) : (c.toNat = 63) ↔ c = '?' :=
  ⟨fun h => Char.toNat_inj' (by rw [h]; rfl), fun h => by rw [h]; rfl⟩

theorem findGo_q (t : List Char) (i : Nat) : (findGo [63] i (codesOf t)).isSome = decide ('?' ∈ t) := by
  induction t generalizing i with
  | nil => simp [findGo, codesOf]
  | cons c r ih =>
    rw [codes_cons]
    simp only [findGo, List.isPrefixOf, Bool.and_true, List.mem_cons]
    by_cases h : c = '?'
    · subst h; simp
    · have h1 : (63 == c.toNat) = false := by
        simp only [beq_eq_false_iff_ne, ne_eq]; intro e; exact h ((q_code c).mp e.symm)
      have h2 : ¬ ('?' = c) := fun e => h e.symm
      simp only [h1, if_false, Bool.false_eq_true, ih, h2, false_or]

theorem replace_q (t : List Char) :
    (codesOf t).flatMap (fun x => if x = 63 then [46, 100, 109, 114, 63] else [x]) = codesOf (replaceQ t) := by
  induction t with
  | nil => rfl
  | cons c r ih =>
    rw [codes_cons, List.flatMap_cons, ih]
    by_cases h : c = '?'
    · subst h; simp only [replaceQ, if_true, codes_append]; rfl
    · have h1 : ¬ c.toNat = 63 := fun e => h ((q_code c).mp e)
      simp only [replaceQ, h, h1, if_false, codes_cons, List.singleton_append]

theorem replaceQ_noq (t : List Char) (h : '?' ∉ t) : replaceQ t = t := by
  induction t with
  | nil => rfl
  | cons c r ih =>
    have hc : ¬ c = '?' := fun e => h (by rw [e]; exact List.mem_cons_self)
    have hr : '?' ∉ r := fun e => h (List.mem_cons_of_mem _ e)
    simp only [replaceQ, hc, if_false, ih hr]

theorem splitHead_q (a b : List Char) (h : '?' ∉ a) :
    splitHeadGo [63] (codesOf (a ++ qpartOf (some b))) = codesOf a := by
  induction a with
  | nil => simp [qpartOf, splitHeadGo, codesOf]
  | cons c r ih =>
    have hc : ¬ c = '?' := fun e => h (by rw [e]; exact List.mem_cons_self)
    have hr : '?' ∉ r := fun e => h (List.mem_cons_of_mem _ e)
    have h1 : (63 == c.toNat) = false := by
      simp only [beq_eq_false_iff_ne, ne_eq]; intro e; exact hc ((q_code c).mp e.symm)
    simp only [List.cons_append, codes_cons, splitHeadGo, List.isPrefixOf, h1, Bool.false_and, if_false,
      Bool.false_eq_true, ih hr]

theorem splitHead_noq (a : List Char) (h : '?' ∉ a) : splitHeadGo [63] (codesOf a) = codesOf a := by
  induction a with
  | nil => rfl
  | cons c r ih =>
    have hc : ¬ c = '?' := fun e => h (by rw [e]; exact List.mem_cons_self)
    have hr : '?' ∉ r := fun e => h (List.mem_cons_of_mem _ e)
    have h1 : (63 == c.toNat) = false := by
      simp only [beq_eq_false_iff_ne, ne_eq]; intro e; exact hc ((q_code c).mp e.symm)
    simp only [codes_cons, splitHeadGo, List.isPrefixOf, h1, Bool.false_and, if_false, Bool.false_eq_true, ih hr]

theorem base_noq (f : FileIn) (h : NoQ f) : '?' ∉ baseUrlText f := by
  unfold baseUrlText httpLit
  simp only [List.mem_append, not_or]
  exact ⟨⟨⟨by decide, by decide⟩, h.1⟩, h.2⟩

/-- the DMR request URL: `url + ".dmr"` without a query, `url.replace("?", ".dmr?")` with one -/
theorem src_consolidate_dmr_url_eq (f : FileIn) (h : NoQ f) :
    runItem [("url", .str (codesOf (httpTextOf f)))] Gen.src_consolidate_dmr_url "@elt"
      = .ok (.str (codesOf (dmrReq f).url)) := by
  unfold Gen.src_consolidate_dmr_url httpTextOf dmrReq
  have hb := base_noq f h
  cases hq : f.query with
  | none =>
    have hin : decide ('?' ∈ baseUrlText f) = false := by
      simp only [decide_eq_false_iff_not]; exact hb
    simp (decide := true) only [runItem, exec, eval, bind_ok', lookup_cons_eq, lookup_setVar_eq, findGo_q, hin,
      truthy_bool', Bool.not_false, if_true, if_false, codes_append, qpartOf, List.append_nil, List.isEmpty_cons,
      Bool.false_eq_true]
    rfl
  | some q =>
    have hin : decide ('?' ∈ baseUrlText f ++ '?' :: q) = true := by
      simp only [decide_eq_true_eq, List.mem_append, List.mem_cons, true_or, or_true]
    have hrep : replaceQ (baseUrlText f ++ '?' :: q) = baseUrlText f ++ ".dmr?".toList ++ replaceQ q := by
      have : ∀ a : List Char, '?' ∉ a → replaceQ (a ++ '?' :: q) = a ++ ".dmr?".toList ++ replaceQ q := by
        intro a
        induction a with
        | nil => intro _; simp [replaceQ]
        | cons c r ih =>
          intro ha
          have hc : ¬ c = '?' := fun e => ha (by rw [e]; exact List.mem_cons_self)
          have hr : '?' ∉ r := fun e => ha (List.mem_cons_of_mem _ e)
          simp only [List.cons_append, replaceQ, hc, if_false, ih hr, List.append_assoc]
      exact this _ hb
    simp (decide := true) only [runItem, exec, eval, bind_ok', lookup_cons_eq, lookup_setVar_eq, findGo_q, hin,
      truthy_bool', Bool.not_true, if_false, Bool.false_eq_true, strReplace, List.isEmpty_cons, replaceGo_single,
      replace_q, qpartOf, hrep]

/-- `base_url = URLs[0].split("?")[0]` is the first file's URL up to its query -/
theorem src_consolidate_base_url_eq (f0 : FileIn) (h : NoQ f0) :
    runItem [("@URL0", .str (codesOf (httpTextOf f0)))] Gen.src_consolidate_base_url "base_url"
      = .ok (.str (codesOf (baseUrlText f0))) := by
  unfold Gen.src_consolidate_base_url httpTextOf
  have hb := base_noq f0 h
  cases hq : f0.query with
  | none =>
    simp (decide := true) only [runItem, exec, eval, bind_ok', lookup_cons_eq, lookup_setVar_eq, List.isEmpty_cons,
      if_false, Bool.false_eq_true, qpartOf, List.append_nil, splitHead_noq _ hb]
  | some q =>
    simp (decide := true) only [runItem, exec, eval, bind_ok', lookup_cons_eq, lookup_setVar_eq, List.isEmpty_cons,
      if_false, Bool.false_eq_true, splitHead_q _ q hb]

end Pydap
