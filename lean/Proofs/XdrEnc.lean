/-
  C05: pydap's encoder (model of responses/dods.py) produces the reference encoding.
-/
import Proofs.XdrBasic
namespace Pydap.Xdr
open Pydap.XdrSpec

/-- numeric values: `tostring_with_byteorder` = the reference element encoding -/
theorem toWire_eq_spec (ty : Ty) (v : Int) (h : wfVal ty (.num v) = true) :
    toWire ty (.num v) = encElem ty (.num v) := by
  obtain ⟨w1, w2, w3, w4, w5, w6, w7, _⟩ := wireWidth_tbl
  cases ty
  case string => simp [wfVal] at h
  all_goals
    simp only [wfVal, Bool.and_eq_true, decide_eq_true_eq] at h
    simp only [toWire, encElem, word, u32, w1, w2, w3, w4, w5, w6, w7]
  case byte =>
    simp [be]
    congr 1
    omega
  case float64 =>
    congr 1
    omega
  all_goals rfl

theorem pad4_one : pad4 1 = 3 := by decide

theorem encScalar_eq (ty : Ty) (v : Val) (h : wfVal ty v = true) :
    encElems ty [v] = encScalar ty v := by
  cases v with
  | str b =>
    cases ty <;> simp [wfVal] at h
    have hS : wireChar .string = 'S' := by decide
    have hB : ¬ wireStr .string = "B" := by decide
    simp [encElems, strField, hS, hB, encScalar, encElem, encString, word, lengthWord_eq]
  | num n =>
    by_cases hb : ty = .byte
    · subst hb
      have hB : wireStr .byte = "B" := by decide
      simp [encElems, hB, encScalar, toWire_eq_spec _ _ h, pad4_one]
    · have hB : ¬ wireStr ty = "B" := by rw [wireStr_B]; exact hb
      have hs : ty ≠ .string := by
        intro e; subst e; simp [wfVal] at h
      have hS : ¬ wireChar ty = 'S' := by rw [wireChar_S]; exact hs
      simp only [encElems, hB, hS, if_false, List.map, List.flatten,
        toWire_eq_spec _ _ h]
      cases ty <;> simp_all [encScalar]


theorem map_toWire_eq (ty : Ty) (hs : ty ≠ .string) (vs : List Val) (h : vs.all (wfVal ty) = true) :
    vs.map (toWire ty) = vs.map (encElem ty) := by
  apply List.map_congr_left
  intro v hv
  have hw := (List.all_eq_true.mp h) v hv
  cases v with
  | num n => exact toWire_eq_spec ty n hw
  | str b => cases ty <;> simp [wfVal] at hw; exact absurd rfl hs

theorem map_str_eq (vs : List Val) (h : vs.all (wfVal .string) = true) :
    vs.map strField = vs.map (encElem .string) := by
  apply List.map_congr_left
  intro v hv
  have hw := (List.all_eq_true.mp h) v hv
  cases v with
  | num n => simp [wfVal] at hw
  | str b => simp [strField, encElem, encString, word, lengthWord_eq]

theorem encArray_eq (ty : Ty) (vs : List Val) (h : vs.all (wfVal ty) = true) :
    encBase ty (.array vs) = encArray ty vs := by
  by_cases hs : ty = .string
  · subst hs
    have hS : wireChar .string = 'S' := by decide
    have hB : ¬ wireStr .string = "B" := by decide
    simp only [encBase, encElems, hS, hB, if_true, if_false, encArray, map_str_eq vs h, lengthWord_eq, word]
    simp [List.replicate]
  · have hS : ¬ wireChar ty = 'S' := by rw [wireChar_S]; exact hs
    by_cases hb : ty = .byte
    · subst hb
      have hB : wireStr .byte = "B" := by decide
      simp [encBase, encElems, hS, hB, encArray, map_toWire_eq _ hs vs h, lengthWord_eq, word,
        List.replicate]
    · have hB : ¬ wireStr ty = "B" := by rw [wireStr_B]; exact hb
      simp only [encBase, encElems, hS, hB, if_false, map_toWire_eq _ hs vs h, lengthWord_eq]
      cases ty <;> simp_all [encArray, word, List.replicate]

/-- the composite-dtype record of the flat path is the concatenation of the reference scalars -/
theorem flatRecord_eq : ∀ (cs : List Tmpl) (ds : List Data), flatCols cs = true → seqCols cs = true →
    WFs cs ds = true → flatRecord cs ds = encs cs ds
  | [], [], _, _, _ => by simp [flatRecord, encs]
  | [], _ :: _, _, _, h => by simp [WFs] at h
  | _ :: _, [], _, _, h => by simp [WFs] at h
  | .struct _ :: _, _ :: _, hf, _, _ => by simp [flatCols] at hf
  | .seq _ :: _, _ :: _, hf, _, _ => by simp [flatCols] at hf
  | .base ty sh :: cs, d :: ds, hf, hc, h => by
    simp only [flatCols, Bool.and_eq_true, bne_iff_ne, ne_eq] at hf
    simp only [seqCols, Bool.and_eq_true, List.isEmpty_iff] at hc
    simp only [WFs, Bool.and_eq_true] at h
    obtain ⟨hsh, hc'⟩ := hc
    subst hsh
    cases d with
    | scalar v =>
      simp only [WF] at h
      have ih := flatRecord_eq cs ds hf.2 hc' h.2
      simp only [flatRecord, encs, enc, ih]
      congr 1
      cases v with
      | str b =>
        cases ty <;> simp [wfVal] at h
        have hS : wireChar .string = 'S' := by decide
        simp [flatField, strField, hS, encScalar, encElem, encString, word, lengthWord_eq]
      | num n =>
        have hs : ty ≠ .string := by
          intro e; subst e; simp [wfVal] at h
        have hS : ¬ wireChar ty = 'S' := by rw [wireChar_S]; exact hs
        have hnb : ty ≠ .byte := fun e => hf.1 ((wireStr_B ty).mpr e)
        simp only [flatField, hS, if_false, toWire_eq_spec _ _ h.1]
        cases ty <;> simp_all [encScalar]
    | array _ => simp [WF] at h
    | tuple _ => simp [WF] at h
    | rows _ => simp [WF] at h


theorem encRowsFlat_eq (cs : List Tmpl) (hf : flatCols cs = true) (hc : seqCols cs = true) :
    ∀ rs : List Data, WFrows cs rs = true → encRowsFlat cs rs = encRows cs rs
  | [], _ => by simp [encRowsFlat, encRows, end_eq]
  | .tuple ds :: rs, h => by
    simp only [WFrows, Bool.and_eq_true] at h
    simp [encRowsFlat, encRows, start_eq, flatRecord_eq cs ds hf hc h.1, encRowsFlat_eq cs hf hc rs h.2]
  | .scalar _ :: _, h => by simp [WFrows] at h
  | .array _ :: _, h => by simp [WFrows] at h
  | .rows _ :: _, h => by simp [WFrows] at h

mutual
theorem encImpl_eq : ∀ (t : Tmpl) (d : Data), WF t d = true → encImpl t d = enc t d
  | .base ty [], .scalar v, h => by
    simp only [WF] at h
    simp [encImpl, enc, encBase, encScalar_eq ty v h]
  | .base ty (n :: ns), .array vs, h => by
    simp only [WF, Bool.and_eq_true] at h
    simp only [encImpl, enc]
    exact encArray_eq ty vs h.1.2
  | .struct cs, .tuple ds, h => by
    simp only [WF, Bool.and_eq_true] at h
    simp only [encImpl, enc]
    exact encImpls_eq cs ds h.2
  | .seq cs, .rows rs, h => by
    simp only [WF, Bool.and_eq_true] at h
    simp only [encImpl, enc]
    split
    · next hf => exact encRowsFlat_eq cs hf h.1.2 rs h.2
    · exact encRowsNested_eq cs rs h.2
  | .base _ [], .array _, h => by simp [WF] at h
  | .base _ [], .tuple _, h => by simp [WF] at h
  | .base _ [], .rows _, h => by simp [WF] at h
  | .base _ (_ :: _), .scalar _, h => by simp [WF] at h
  | .base _ (_ :: _), .tuple _, h => by simp [WF] at h
  | .base _ (_ :: _), .rows _, h => by simp [WF] at h
  | .struct _, .scalar _, h => by simp [WF] at h
  | .struct _, .array _, h => by simp [WF] at h
  | .struct _, .rows _, h => by simp [WF] at h
  | .seq _, .scalar _, h => by simp [WF] at h
  | .seq _, .array _, h => by simp [WF] at h
  | .seq _, .tuple _, h => by simp [WF] at h
theorem encImpls_eq : ∀ (cs : List Tmpl) (ds : List Data), WFs cs ds = true → encImpls cs ds = encs cs ds
  | [], [], _ => by simp [encImpls, encs]
  | [], _ :: _, h => by simp [WFs] at h
  | _ :: _, [], h => by simp [WFs] at h
  | c :: cs, d :: ds, h => by
    simp only [WFs, Bool.and_eq_true] at h
    simp [encImpls, encs, encImpl_eq c d h.1, encImpls_eq cs ds h.2]
theorem encRowsNested_eq : ∀ (cs : List Tmpl) (rs : List Data), WFrows cs rs = true →
    encRowsNested cs rs = encRows cs rs
  | _, [], _ => by simp [encRowsNested, encRows, end_eq]
  | cs, .tuple ds :: rs, h => by
    simp only [WFrows, Bool.and_eq_true] at h
    simp [encRowsNested, encRows, start_eq, encImpls_eq cs ds h.1, encRowsNested_eq cs rs h.2]
  | _, .scalar _ :: _, h => by simp [WFrows] at h
  | _, .array _ :: _, h => by simp [WFrows] at h
  | _, .rows _ :: _, h => by simp [WFrows] at h
end

end Pydap.Xdr
