import Proofs.Path
/-
  C16: confinement of every access of `serve`, and the decision table of the routing.
-/
namespace Pydap.Path

theorem prefix_dropLast (r p : Segs) (h : r <+: p) (hne : p ≠ r) : r <+: p.dropLast := by
  obtain ⟨t, rfl⟩ := h
  cases ht : t with
  | nil => subst ht; simp at hne
  | cons x xs =>
    have : (x :: xs) ≠ [] := by simp
    rw [List.dropLast_append_of_ne_nil this]
    exact List.prefix_append _ _

theorem prefix_stripExt (r p : Segs) (h : r <+: p) (hne : p ≠ r) : r <+: stripExt p := by
  unfold stripExt
  cases hl : p.getLast? with
  | none => simpa using h
  | some s =>
    simp only
    exact List.IsPrefix.trans (prefix_dropLast r p h hne) (List.prefix_append _ _)

def Confined (root : Segs) (tr : List Access) : Prop := ∀ a ∈ tr, root <+: a.path

theorem index_confined (exts : List Seg) (fs : FS) (c : Bool) (root d : Segs) (es : List Seg)
    (h : root <+: d) : Confined root (index exts fs c d es).1 := by
  intro a ha
  simp only [index, List.mem_cons, List.mem_map] at ha
  rcases ha with rfl | ⟨e, _, rfl⟩
  · exact h
  · exact List.IsPrefix.trans h (List.prefix_append _ _)

theorem serveDap_confined (exts : List Seg) (fs : FS) (root p : Segs)
    (h : root <+: p) (hne : p ≠ root) : Confined root (serveDap exts fs p).1 := by
  have hb := prefix_stripExt root p h hne
  intro a ha
  unfold serveDap at ha
  simp only at ha
  split at ha
  · split at ha <;> simp at ha <;> rcases ha with rfl | rfl | rfl <;> assumption
  · simp at ha; rcases ha with rfl | rfl <;> assumption


theorem target_normal (root : Segs) (pi : List Char) (hroot : Normal root) : Normal (target root pi) :=
  resolve_normal root _ hroot (splitSlash_noslash pi)

theorem serve_confined (exts : List Seg) (fs : FS) (root : Segs) (pi : List Char)
    (hroot : Normal root) (hex : fs root ≠ .missing) :
    Confined root (serve exts fs root pi).1 := by
  have hp := target_normal root pi hroot
  unfold serve
  generalize target root pi = p at hp ⊢
  unfold serveAt
  split
  · intro a ha; simp at ha
  · rename_i hc
    have hpre : root <+: p := (contained_iff_prefix root p hroot hp).mp (by simpa using hc)
    split
    · rename_i es hfs
      intro a ha
      simp only [List.mem_cons] at ha
      rcases ha with rfl | ha
      · exact hpre
      · exact index_confined exts fs false root p es hpre a ha
    · intro a ha
      simp at ha
      rcases ha with rfl | rfl <;> exact hpre
    · rename_i hfs
      have hne : p ≠ root := by
        intro h; rw [h] at hfs; exact hex hfs
      have hd : root <+: dirname p := prefix_dropLast root p hpre hne
      split
      · split
        · rename_i es hds
          intro a ha
          simp only [List.mem_cons] at ha
          rcases ha with rfl | rfl | ha
          · exact hpre
          · exact hd
          · exact index_confined exts fs true root _ es hd a ha
        · intro a ha
          simp only [List.mem_cons] at ha
          rcases ha with rfl | ha
          · exact hd
          · exact serveDap_confined exts fs root p hpre hne a ha
      · exact serveDap_confined exts fs root p hpre hne


theorem foldl_normStep_plain (req acc : Segs) (hreq : Normal req) :
    req.foldl normStep acc = req.reverse ++ acc := by
  induction req generalizing acc with
  | nil => rfl
  | cons s r ih =>
    obtain ⟨h1, h2, h3, _⟩ := hreq s (by simp)
    have : normStep acc s = s :: acc := by simp [normStep, h1, h2, h3]
    simp only [List.foldl_cons, this]
    rw [ih _ (fun x hx => hreq x (by simp [hx]))]
    simp

theorem resolve_plain (root req : Segs) (hreq : Normal req) : resolve root req = root ++ req := by
  simp [resolve, foldl_normStep_plain req _ hreq]

theorem insertName_perm (x : Seg) (l : List Seg) : (insertName x l).Perm (x :: l) := by
  induction l with
  | nil => exact List.Perm.refl _
  | cons y ys ih =>
    unfold insertName
    split
    · exact List.Perm.refl _
    · exact (List.Perm.cons y ih).trans (List.Perm.swap x y ys)

theorem sortNames_perm (l : List Seg) : (sortNames l).Perm l := by
  induction l with
  | nil => exact List.Perm.refl _
  | cons x xs ih => exact (insertName_perm x _).trans (List.Perm.cons x ih)

theorem listing_files_perm (l : List Seg) (g : Seg → Bool) :
    (List.map (Prod.fst ∘ fun e => (e, g e)) (sortNames l)).Perm l := by
  have : (Prod.fst ∘ fun e : Seg => (e, g e)) = id := by funext e; rfl
  rw [this, List.map_id]
  exact sortNames_perm _

theorem serveAt_missing (exts : List Seg) (fs : FS) (root p : Segs) (hc : contained root p = true)
    (hm : fs p = .missing) (hnc : basename p ≠ catalogName ∨ (fs (dirname p)).isDir = false) :
    (serveAt exts fs root p).2 = (serveDap exts fs p).2 := by
  unfold serveAt
  simp only [hc, hm, Bool.not_true, Bool.false_eq_true, if_false]
  rcases hnc with h | h
  · rw [if_neg h]
  · split
    · cases hd : fs (dirname p) with
      | dir es => simp [hd, Node.isDir] at h
      | file => rfl
      | missing => rfl
    · rfl

/-- the complete case analysis of the outcome -/
def Complete (exts : List Seg) (fs : FS) (p : Segs) (o : Outcome) : Prop :=
    o = .forbidden ∨ o = .notFound ∨ (o = .file p ∧ fs p = .file) ∨
    (∃ es files dirs, o = .listing false p files dirs ∧ fs p = .dir es) ∨
    (∃ es files dirs, o = .listing true (dirname p) files dirs ∧ fs (dirname p) = .dir es ∧
        fs p = .missing ∧ basename p = catalogName) ∨
    (o = .dap (stripExt p) ∧ fs (stripExt p) = .file ∧ hasHandler exts (stripExt p) = true ∧ fs p = .missing) ∨
    (o = .unsupported (stripExt p) ∧ fs (stripExt p) = .file ∧ hasHandler exts (stripExt p) = false ∧
        fs p = .missing)

theorem serveDap_complete (exts : List Seg) (fs : FS) (p : Segs) (hm : fs p = .missing) :
    Complete exts fs p (serveDap exts fs p).2 := by
  unfold Complete serveDap
  cases hb : fs (stripExt p) with
  | missing => right; left; simp [hb, Node.isFile]
  | dir es => right; left; simp [hb, Node.isFile]
  | file =>
    cases hh : hasHandler exts (stripExt p) with
    | true => right; right; right; right; right; left; simp [hb, hh, hm, Node.isFile]
    | false => right; right; right; right; right; right; simp [hb, hh, hm, Node.isFile]

theorem serveAt_complete (exts : List Seg) (fs : FS) (root p : Segs) :
    Complete exts fs p (serveAt exts fs root p).2 := by
  cases hc : contained root p with
  | false => left; simp [serveAt, hc]
  | true =>
    cases hf : fs p with
    | file => right; right; left; exact ⟨by simp [serveAt, hc, hf], hf⟩
    | dir es =>
      right; right; right; left
      exact ⟨es, _, _, by simp only [serveAt, hc, hf]; rfl, hf⟩
    | missing =>
      by_cases hb : basename p = catalogName
      · cases hd : fs (dirname p) with
        | dir es =>
          right; right; right; right; left
          exact ⟨es, _, _, by simp only [serveAt, hc, hf, hb, hd]; rfl, hd, hf, hb⟩
        | file =>
          rw [serveAt_missing exts fs root p hc hf (Or.inr (by simp [hd, Node.isDir]))]
          exact serveDap_complete exts fs p hf
        | missing =>
          rw [serveAt_missing exts fs root p hc hf (Or.inr (by simp [hd, Node.isDir]))]
          exact serveDap_complete exts fs p hf
      · rw [serveAt_missing exts fs root p hc hf (Or.inl hb)]
        exact serveDap_complete exts fs p hf

end Pydap.Path
