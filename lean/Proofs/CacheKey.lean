/-
  C18, cache-key part: lemmas and theorems about `custom_create_key` (model: PydapModel/CacheKey.lean).

  * `cacheKey_collide`        two requests share a key only if same URL identity, or same shared constraint,
                              same scheme/netloc and both under the declared base (segment boundaries, base host)
                              or both in one Earthdata collection
  * `underBase_segment`       containment is on '/' boundaries (+ `rstripSlash_spec`, `rstripSlash_getLast`)
  * `cacheKey_shared_hit`, `cacheKey_earthdata_hit`   the converse (the patch is useful)
  * `cacheKey_prefix_refuted`, `cacheKey_collide_prefix_refuted`   what the text-prefix test of the code before
                              the repair let through
  * `findCollection_sound`, `findCollection_leftmost`  the structural search is `re.search` for this pattern
-/
import PydapModel.CacheKey
namespace Pydap.CK

/-! ### keys -/

theorem customKeyWith_orig {ub orig shared base r d}
    (h : customKeyWith ub orig shared base r = Key.orig d) : d = orig r.url := by
  unfold customKeyWith at h
  split at h
  · cases h; rfl
  · split at h
    · split at h
      · cases h
      · split at h
        · cases h; rfl
        · split at h
          · cases h
          · cases h; rfl
    · cases h; rfl

theorem customKeyWith_norm {ub orig shared base r s h p c}
    (hk : customKeyWith ub orig shared base r = Key.norm s h p c) :
    r.ce = some c ∧ c ∈ shared ∧ s = r.scheme ∧ h = r.host ∧
      ((∃ coll, earthdataColl r = some coll ∧ p = coll ++ sharedDap) ∨
       (earthdataColl r = none ∧ ∃ b, base = some b ∧ ub (some b) r = true ∧ p = b.path ++ sharedNc)) := by
  unfold customKeyWith at hk
  split at hk
  · cases hk
  · rename_i c' hce
    split at hk
    · rename_i hin
      split at hk
      · rename_i coll hcoll
        cases hk
        exact ⟨hce, hin, rfl, rfl, Or.inl ⟨coll, hcoll, rfl⟩⟩
      · rename_i hcoll
        split at hk
        · cases hk
        · rename_i b
          split at hk
          · rename_i hub
            cases hk
            exact ⟨hce, hin, rfl, rfl, Or.inr ⟨hcoll, b, rfl, hub, rfl⟩⟩
          · cases hk
    · cases hk

theorem sharedDap_snoc : sharedDap = "/shared.da".toList ++ ['p'] := by decide
theorem sharedNc_snoc : sharedNc = "/shared.n".toList ++ ['c'] := by decide

theorem dap_ne_nc (a b : List Char) : a ++ sharedDap ≠ b ++ sharedNc := by
  intro h
  rw [sharedDap_snoc, sharedNc_snoc, ← List.append_assoc, ← List.append_assoc] at h
  have := (List.append_inj' h rfl).2
  exact absurd this (by decide)

theorem earthdataColl_some {r coll} (h : earthdataColl r = some coll) :
    r.host = earthdataHost ∧ findCollection r.path = some coll := by
  unfold earthdataColl at h
  split at h
  · exact ⟨‹_›, h⟩
  · cases h

/-- Two requests get the same key only if they are the same request for the unpatched `create_key`, or they
    carry the same constraint, that constraint is in the declared shared set, scheme and netloc agree, and
    either both lie under the declared base (on its host, on segment boundaries) or both are Earthdata
    requests of the same provider/collection. -/
theorem cacheKey_collide (orig : List Char → List Char) (horig : ∀ a b, orig a = orig b → a = b)
    (shared : List (List Char)) (base : Option Base) (r1 r2 : Req)
    (h : customKey orig shared base r1 = customKey orig shared base r2) :
    r1.url = r2.url ∨
      (r1.ce = r2.ce ∧ ∃ c, r1.ce = some c ∧ c ∈ shared ∧ r1.scheme = r2.scheme ∧ r1.host = r2.host ∧
        ((underBase base r1 = true ∧ underBase base r2 = true) ∨
         (r1.host = earthdataHost ∧ r2.host = earthdataHost ∧
            ∃ coll, findCollection r1.path = some coll ∧ findCollection r2.path = some coll))) := by
  unfold customKey at h
  cases hk1 : customKeyWith underBase orig shared base r1 with
  | orig d =>
    rw [hk1] at h
    have h1 := customKeyWith_orig hk1
    have h2 := customKeyWith_orig h.symm
    exact Or.inl (horig _ _ (h1.symm.trans h2))
  | norm s hh p c =>
    rw [hk1] at h
    obtain ⟨hce1, hin, hs1, hh1, hb1⟩ := customKeyWith_norm hk1
    obtain ⟨hce2, _, hs2, hh2, hb2⟩ := customKeyWith_norm h.symm
    refine Or.inr ⟨hce1.trans hce2.symm, c, hce1, hin, hs1.symm.trans hs2, hh1.symm.trans hh2, ?_⟩
    rcases hb1 with ⟨c1, hc1, hp1⟩ | ⟨_, b1, hbase1, hub1, hp1⟩
    · rcases hb2 with ⟨c2, hc2, hp2⟩ | ⟨_, b2, _, _, hp2⟩
      · have hcc : c1 = c2 := List.append_cancel_right (hp1.symm.trans hp2)
        subst hcc
        exact Or.inr ⟨(earthdataColl_some hc1).1, (earthdataColl_some hc2).1, c1,
          (earthdataColl_some hc1).2, (earthdataColl_some hc2).2⟩
      · exact absurd (hp1.symm.trans hp2) (dap_ne_nc _ _)
    · rcases hb2 with ⟨c2, _, hp2⟩ | ⟨_, b2, hbase2, hub2, _⟩
      · exact absurd (hp2.symm.trans hp1) (dap_ne_nc _ _)
      · subst hbase1
        cases hbase2
        exact Or.inl ⟨hub1, hub2⟩

/-! ### containment on segment boundaries -/

theorem underBasePath_iff (bp p : List Char) :
    underBasePath bp p = true ↔ p = bp ∨ ∃ rest, p = rstripSlash bp ++ '/' :: rest := by
  unfold underBasePath
  rw [Bool.or_eq_true, decide_eq_true_eq, List.isPrefixOf_iff_prefix]
  constructor
  · rintro (h | ⟨t, ht⟩)
    · exact Or.inl h
    · exact Or.inr ⟨t, by rw [← ht]; simp⟩
  · rintro (h | ⟨t, ht⟩)
    · exact Or.inl h
    · exact Or.inr ⟨t, by rw [ht]; simp⟩

/-- `underBase` holds exactly when the request is on the host of the base and its path is the base path itself
    or continues the base path (trailing slashes dropped) with a '/' — containment on segment boundaries. -/
theorem underBase_segment (b : Base) (r : Req) :
    underBase (some b) r = true ↔
      r.host = b.host ∧ (r.path = b.path ∨ ∃ rest, r.path = rstripSlash b.path ++ '/' :: rest) := by
  unfold underBase
  simp only [Bool.and_eq_true, decide_eq_true_eq, underBasePath_iff]

theorem underBase_none (r : Req) : underBase none r = false := rfl

/-- `rstripSlash` is `str.rstrip("/")`: it removes a run of '/' at the end … -/
theorem rstripSlash_spec (s : List Char) : ∃ n, s = rstripSlash s ++ List.replicate n '/' := by
  induction s with
  | nil => exact ⟨0, rfl⟩
  | cons c cs ih =>
    obtain ⟨n, hn⟩ := ih
    unfold rstripSlash
    split
    · rename_i h
      refine ⟨n + 1, ?_⟩
      rw [h.1] at hn
      rw [hn, h.2]
      simp [List.replicate_succ]
    · exact ⟨n, by simp; exact hn⟩

/-- … and what is left does not end in '/'. -/
theorem rstripSlash_getLast (s : List Char) : (rstripSlash s).getLast? ≠ some '/' := by
  induction s with
  | nil => simp [rstripSlash]
  | cons c cs ih =>
    unfold rstripSlash
    split
    · simp
    · rename_i h
      cases hr : rstripSlash cs with
      | nil =>
        rw [hr] at h
        simp at h
        simp [h]
      | cons d ds =>
        rw [hr] at ih
        simpa [List.getLast?_cons_cons] using ih

/-! ### concrete witnesses -/

def exBase : Base := ⟨"http".toList, "data.example.org".toList, "/data/set".toList⟩
def exCe : List Char := "/time[0:1:9]".toList
def exReq (host path : String) : Req :=
  ⟨"http".toList, host.toList, path.toList, some exCe, ("http://" ++ host ++ path ++ "?dap4.ce=/time[0:1:9]").toList⟩
def exInside : Req := exReq "data.example.org" "/data/set/c.nc.dap"
def exSibling : Req := exReq "data.example.org" "/data/set2/a.nc.dap"
def exSibling2 : Req := exReq "data.example.org" "/data/setX/sub/b.nc.dap"
def exOtherHost : Req := exReq "other.example.org" "/data/set/c.nc.dap"

/-- the sibling directories `/data/set2`, `/data/setX` are not under `/data/set`; a file inside it is,
    and so are the base itself and the base followed by '/'. -/
example : underBase (some exBase) exSibling = false := by decide
example : underBase (some exBase) exSibling2 = false := by decide
example : underBase (some exBase) exInside = true := by decide
example : underBase (some exBase) exOtherHost = false := by decide
example : underBasePath "/data/set".toList "/data/set".toList = true := by decide
example : underBasePath "/data/set//".toList "/data/set/x".toList = true := by decide
example : underBasePath "/data/set/".toList "/data/set".toList = false := by decide
example : underBasePath [] "/x".toList = true := by decide

/-- Usefulness (the converse on the general branch): two requests on the host of the base, under the base,
    with the same scheme and the same shared constraint, outside the Earthdata branch, DO share a key. -/
theorem cacheKey_shared_hit (orig : List Char → List Char) (shared : List (List Char)) (b : Base) (r1 r2 : Req)
    (c : List Char) (hc1 : r1.ce = some c) (hc2 : r2.ce = some c) (hin : c ∈ shared)
    (hs : r1.scheme = r2.scheme) (hh : r1.host = r2.host) (hne : r1.host ≠ earthdataHost)
    (hu1 : underBase (some b) r1 = true) (hu2 : underBase (some b) r2 = true) :
    customKey orig shared (some b) r1 = customKey orig shared (some b) r2 ∧
    customKey orig shared (some b) r1 = Key.norm r1.scheme r1.host (b.path ++ sharedNc) c := by
  have e1 : earthdataColl r1 = none := by simp [earthdataColl, hne]
  have e2 : earthdataColl r2 = none := by simp [earthdataColl, ← hh, hne]
  simp [customKey, customKeyWith, hc1, hc2, hin, e1, e2, hu1, hu2, hs, hh]

/-- … and so do two Earthdata requests of the same collection. -/
theorem cacheKey_earthdata_hit (orig : List Char → List Char) (shared : List (List Char)) (base : Option Base)
    (r1 r2 : Req) (c coll : List Char) (hc1 : r1.ce = some c) (hc2 : r2.ce = some c) (hin : c ∈ shared)
    (hs : r1.scheme = r2.scheme) (hh1 : r1.host = earthdataHost) (hh2 : r2.host = earthdataHost)
    (hf1 : findCollection r1.path = some coll) (hf2 : findCollection r2.path = some coll) :
    customKey orig shared base r1 = customKey orig shared base r2 := by
  simp [customKey, customKeyWith, earthdataColl, hc1, hc2, hin, hh1, hh2, hf1, hf2, hs]

/-- What the repair removed: with the text-prefix test (`customKeyPrefix`, the code before the fix) the sibling
    `/data/set2/a.nc.dap` gets the key of `/data/set/c.nc.dap` although the URLs differ and it is not under the
    base; so does the same path on another host. With the repaired test they get their original keys. -/
theorem cacheKey_prefix_refuted :
    customKeyPrefix id [exCe] (some exBase) exSibling = customKeyPrefix id [exCe] (some exBase) exInside ∧
    customKeyPrefix id [exCe] (some exBase) exSibling2 = customKeyPrefix id [exCe] (some exBase) exInside ∧
    exSibling.url ≠ exInside.url ∧ underBase (some exBase) exSibling = false ∧
    customKeyPrefix id [exCe] (some exBase) exOtherHost
      = Key.norm "http".toList "other.example.org".toList "/data/set/shared.nc".toList exCe ∧
    customKey id [exCe] (some exBase) exSibling = Key.orig exSibling.url ∧
    customKey id [exCe] (some exBase) exOtherHost = Key.orig exOtherHost.url ∧
    customKey id [exCe] (some exBase) exInside
      = Key.norm "http".toList "data.example.org".toList "/data/set/shared.nc".toList exCe := by
  decide

/-- the statement of `cacheKey_collide` is false for the pre-fix key function -/
theorem cacheKey_collide_prefix_refuted :
    ¬ (∀ (shared : List (List Char)) (base : Option Base) (r1 r2 : Req),
        customKeyPrefix id shared base r1 = customKeyPrefix id shared base r2 →
        r1.url = r2.url ∨ (underBase base r1 = true ∧ underBase base r2 = true) ∨
          (r1.host = earthdataHost ∧ r2.host = earthdataHost)) := by
  intro h
  have := h [exCe] (some exBase) exSibling exInside cacheKey_prefix_refuted.1
  revert this
  decide

/-! ### the Earthdata pattern -/

def exEd (path : String) : Req := exReq "opendap.earthdata.nasa.gov" path

example : findCollection "/providers/POCLOUD/collections/C1/granules/g1.dap".toList
    = some "/providers/POCLOUD/collections/C1".toList := by decide
example : findCollection "/hyrax/providers/P/collections/C 1".toList
    = some "/providers/P/collections/C 1".toList := by decide
example : findCollection "/providers//collections/C1/g".toList = none := by decide
example : findCollection "/providers/P/collections/".toList = none := by decide
example : findCollection "/providers/providers/P/collections/C/x".toList
    = some "/providers/P/collections/C".toList := by decide
example : customKey id [exCe] none (exEd "/providers/P/collections/C1/granules/g1.dap")
    = customKey id [exCe] none (exEd "/providers/P/collections/C1/granules/g2.dap") := by decide
example : customKey id [exCe] none (exEd "/providers/P/collections/C1/granules/g1.dap")
    ≠ customKey id [exCe] none (exEd "/providers/P/collections/C10/granules/g1.dap") := by decide

/-! ### `findCollection` is a leftmost match of the pattern -/

theorem stripPrefix?_some {pre s r : List Char} (h : stripPrefix? pre s = some r) : s = pre ++ r := by
  induction pre generalizing s with
  | nil => simp [stripPrefix?] at h; simp [h]
  | cons p ps ih =>
    cases s with
    | nil => simp [stripPrefix?] at h
    | cons c cs =>
      simp only [stripPrefix?] at h
      split at h
      · rename_i hpc
        rw [hpc, ih h]; rfl
      · cases h

theorem takeSeg_append_dropSeg (s : List Char) : takeSeg s ++ dropSeg s = s :=
  List.takeWhile_append_dropWhile

theorem slash_not_mem_takeSeg (s : List Char) : '/' ∉ takeSeg s := by
  induction s with
  | nil => simp [takeSeg]
  | cons c cs ih =>
    unfold takeSeg at *
    rw [List.takeWhile_cons]
    split
    · rename_i h
      intro hm
      rcases List.mem_cons.1 hm with e | e
      · subst e; simp at h
      · exact ih e
    · simp

theorem dropSeg_head (s : List Char) : dropSeg s = [] ∨ ∃ t, dropSeg s = '/' :: t := by
  induction s with
  | nil => exact Or.inl rfl
  | cons c cs ih =>
    unfold dropSeg at *
    rw [List.dropWhile_cons]
    split
    · exact ih
    · rename_i h
      simp at h
      exact Or.inr ⟨cs, by rw [h]⟩

/-- what `matchCollAt` returns is a match of the pattern at the head of `s`: both names are non-empty and
    hold no '/', and the second one is maximal (greedy). -/
theorem matchCollAt_sound {s m : List Char} (h : matchCollAt s = some m) :
    ∃ x y post, m = providersLit ++ x ++ collectionsLit ++ y ∧ s = m ++ post ∧
      x ≠ [] ∧ '/' ∉ x ∧ y ≠ [] ∧ '/' ∉ y ∧ (post = [] ∨ ∃ t, post = '/' :: t) := by
  unfold matchCollAt at h
  split at h
  · cases h
  · rename_i r1 h1
    split at h
    · cases h
    · rename_i hx
      split at h
      · cases h
      · rename_i r2 h2
        split at h
        · cases h
        · rename_i hy
          cases h
          refine ⟨takeSeg r1, takeSeg r2, dropSeg r2, rfl, ?_, hx, slash_not_mem_takeSeg _, hy,
            slash_not_mem_takeSeg _, dropSeg_head _⟩
          have e1 := stripPrefix?_some h1
          have e2 := stripPrefix?_some h2
          calc s = providersLit ++ r1 := e1
            _ = providersLit ++ (takeSeg r1 ++ dropSeg r1) := by rw [takeSeg_append_dropSeg]
            _ = providersLit ++ (takeSeg r1 ++ (collectionsLit ++ r2)) := by rw [e2]
            _ = providersLit ++ (takeSeg r1 ++ (collectionsLit ++ (takeSeg r2 ++ dropSeg r2))) := by
                  rw [takeSeg_append_dropSeg]
            _ = _ := by simp only [List.append_assoc]

/-- `findCollection` returns an occurrence of the pattern inside the path. -/
theorem findCollection_sound {p m : List Char} (h : findCollection p = some m) :
    ∃ pre x y post, m = providersLit ++ x ++ collectionsLit ++ y ∧ p = pre ++ m ++ post ∧
      x ≠ [] ∧ '/' ∉ x ∧ y ≠ [] ∧ '/' ∉ y ∧ (post = [] ∨ ∃ t, post = '/' :: t) := by
  induction p with
  | nil => simp [findCollection] at h
  | cons c cs ih =>
    unfold findCollection at h
    split at h
    · rename_i m' hm
      cases h
      obtain ⟨x, y, post, e, es, r⟩ := matchCollAt_sound hm
      exact ⟨[], x, y, post, e, by simpa using es, r⟩
    · obtain ⟨pre, x, y, post, e, es, r⟩ := ih h
      exact ⟨c :: pre, x, y, post, e, by rw [es]; rfl, r⟩

/-- … the leftmost one: no earlier position of the path matches. -/
theorem findCollection_leftmost {p m : List Char} (h : findCollection p = some m) :
    ∃ pre rest, p = pre ++ rest ∧ matchCollAt rest = some m ∧
      ∀ pre1 rest1, pre1 ++ rest1 = p → pre1.length < pre.length → matchCollAt rest1 = none := by
  induction p with
  | nil => simp [findCollection] at h
  | cons c cs ih =>
    unfold findCollection at h
    split at h
    · rename_i m' hm
      cases h
      exact ⟨[], c :: cs, rfl, hm, by intro _ _ _ hl; simp at hl⟩
    · rename_i hnone
      obtain ⟨pre, rest, e, hm, hl⟩ := ih h
      refine ⟨c :: pre, rest, by rw [e]; rfl, hm, ?_⟩
      intro pre1 rest1 e1 hlen
      cases pre1 with
      | nil => simp at e1; rw [e1]; exact hnone
      | cons d ds =>
        simp at e1
        exact hl ds rest1 e1.2 (by simpa using hlen)

end Pydap.CK
