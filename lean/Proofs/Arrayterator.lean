/-
  `numpy.lib.Arrayterator` as the handler uses it (C06 / C15): what `__getitem__` composes, what the
  composed window selects, that `shape` announces exactly the number of positions `__array__` reads,
  that a window accepted by `check_hyperslab` stays inside the array, when the composition is numpy's
  `x[s1][s2]` (first stride 1) and that it is not in general.
-/
import PydapModel.Handler
import Proofs.Slice
import Proofs.Handler
namespace Pydap.Handler
open Pydap

/-! ### one axis -/

theorem Win.nonNeg {n : Nat} {w : Win} (h : w.OK n) : NonNegSl ⟨some w.start, some w.stop, some w.step⟩ := by
  obtain ⟨h0, h1, _, h3⟩ := h
  constructor <;> intro x hx <;> simp only [Option.some.injEq] at hx <;> subst hx <;> omega

/-- `Arrayterator.__array__` reads the positions `start, start + step, … < stop` -/
theorem Win.pos_eq {n : Nat} {w : Win} (h : w.OK n) :
    w.pos n = natSel n w.start.toNat w.stop.toNat w.step.toNat := by
  unfold Win.pos
  rw [sel_eq_natSel n _ (Win.nonNeg h)]
  simp [startN, stopN, stepN]

theorem Win.mem_pos {n : Nat} {w : Win} (h : w.OK n) (x : Nat) :
    x ∈ w.pos n ↔ w.start ≤ x ∧ (x : Int) < w.stop ∧ ((x : Int) - w.start) % w.step = 0 := by
  obtain ⟨h0, h1, h2, h3⟩ := h
  rw [Win.pos_eq ⟨h0, h1, h2, h3⟩, mem_natSel _ _ _ _ _ (by omega)]
  obtain ⟨ws, wz, wk⟩ := w
  simp only at h0 h1 h2 h3 ⊢
  obtain ⟨a, rfl⟩ := Int.eq_ofNat_of_zero_le h0
  obtain ⟨z, rfl⟩ := Int.eq_ofNat_of_zero_le (show 0 ≤ wz by omega)
  obtain ⟨k, rfl⟩ := Int.eq_ofNat_of_zero_le (show 0 ≤ wk by omega)
  simp only [Int.toNat_natCast]
  have hzn : min z n = z := by omega
  rw [hzn]
  constructor
  · rintro ⟨ha, hz, hm⟩
    refine ⟨by omega, by omega, ?_⟩
    have : ((x : Int) - (a : Int)) = ((x - a : Nat) : Int) := by omega
    rw [this]; exact_mod_cast hm
  · rintro ⟨ha, hz, hm⟩
    have hax : a ≤ x := by omega
    refine ⟨hax, by omega, ?_⟩
    have : ((x : Int) - (a : Int)) = ((x - a : Nat) : Int) := by omega
    rw [this] at hm; exact_mod_cast hm

theorem Win.pos_lt {n : Nat} {w : Win} (h : w.OK n) : ∀ j ∈ w.pos n, j < n :=
  mem_sel_lt n _ (Win.nonNeg h)

theorem cdiv_eq_count (x k : Nat) (hk : 1 ≤ k) :
    cdiv x k = ((((x : Int) - 1).fdiv (k : Int)) + 1).toNat := by
  unfold cdiv
  rcases Nat.eq_zero_or_pos x with rfl | hx
  · have h1 : (0 + k - 1) / k = 0 := Nat.div_eq_of_lt (by omega)
    rw [h1]
    have : ((((0 : Nat) : Int) - 1).fdiv (k : Int)) = -1 := by
      have : (((0 : Nat) : Int) - 1) = -1 := by omega
      rw [this, Int.fdiv_eq_ediv_of_nonneg _ (by omega)]
      have h2 : (-1 : Int) / (k : Int) = -1 := by
        rw [Int.ediv_eq_iff_of_pos (by omega)] <;> omega
      exact h2
    rw [this]; rfl
  · have e : ((x : Int) - 1) = ((x - 1 : Nat) : Int) := by omega
    rw [e, Int.fdiv_eq_ediv_of_nonneg _ (by omega)]
    have : x + k - 1 = (x - 1) + k := by omega
    rw [this, Nat.add_div_right _ (by omega)]
    have : (((x - 1 : Nat) : Int) / (k : Int) + 1) = (((x - 1) / k + 1 : Nat) : Int) := by push_cast; rfl
    rw [this, Int.toNat_natCast]

/-- **`Arrayterator.shape` announces exactly the number of positions `__array__` reads** -/
theorem Win.pos_length {n : Nat} {w : Win} (h : w.OK n) : (w.pos n).length = w.count := by
  rw [Win.pos_eq h, natSel_length]
  obtain ⟨h0, h1, h2, h3⟩ := h
  obtain ⟨ws, wz, wk⟩ := w
  simp only at h0 h1 h2 h3 ⊢
  obtain ⟨a, rfl⟩ := Int.eq_ofNat_of_zero_le h0
  obtain ⟨z, rfl⟩ := Int.eq_ofNat_of_zero_le (show 0 ≤ wz by omega)
  obtain ⟨k, rfl⟩ := Int.eq_ofNat_of_zero_le (show 0 ≤ wk by omega)
  unfold Win.count
  simp only [Int.toNat_natCast]
  have e1 : min z n - min a n = z - a := by omega
  rw [e1, cdiv_eq_count _ _ (by omega)]
  have : (((z - a : Nat) : Int) - 1) = ((z : Int) - (a : Int) - 1) := by omega
  rw [this]

theorem Win.count_le {n : Nat} {w : Win} (h : w.OK n) : (w.count : Int) ≤ w.stop - w.start := by
  have hl := Win.pos_length h
  rw [Win.pos_eq h, natSel_length] at hl
  obtain ⟨h0, h1, h2, h3⟩ := h
  rw [← hl]
  have hk : 1 ≤ w.step.toNat := by omega
  have := (cdiv_le_iff (min w.stop.toNat n - min w.start.toNat n) w.step.toNat (w.stop.toNat - w.start.toNat) hk).mpr (by
    have : w.stop.toNat - w.start.toNat ≤ (w.stop.toNat - w.start.toNat) * w.step.toNat := Nat.le_mul_of_pos_right _ (by omega)
    omega)
  omega

theorem Win.fresh_ok (n : Nat) : (Win.fresh n).OK n := by
  simp [Win.fresh, Win.OK]

theorem Win.fresh_count (n : Nat) : (Win.fresh n).count = n := by
  have := Win.pos_length (Win.fresh_ok n)
  rw [← this, Win.pos_eq (Win.fresh_ok n), natSel_length]
  simp [Win.fresh, cdiv]

/-- the three `or`s of `__getitem__` under `check_hyperslab`'s guard: a start 0 and `None` are both 0, the stop is at
    least 1 (never falsy), the stride is at least 1 -/
theorem Win.get_eq {N : Nat} {s : PSlice} (w : Win) (hv : validSl N s = true) :
    w.get s = ⟨w.start + s.start.getD 0, min w.stop (w.start + s.stop.getD (w.stop - w.start)),
               w.step * s.step.getD 1⟩ := by
  obtain ⟨st, sp, se⟩ := s
  simp only [validSl, decide_eq_true_eq] at hv
  obtain ⟨h0, _, h2, h3⟩ := hv
  unfold Win.get
  have e1 : orElse st 0 = st.getD 0 := by
    cases st with
    | none => rfl
    | some a => simp only [orElse, Option.getD_some]; split <;> simp_all
  have e2 : orElse sp (w.stop - w.start) = sp.getD (w.stop - w.start) := by
    cases sp with
    | none => rfl
    | some b =>
      simp only [orElse, Option.getD_some] at h2 ⊢
      split
      · omega
      · rfl
  have e3 : orElse se 1 = se.getD 1 := by
    cases se with
    | none => rfl
    | some k => simp only [orElse, Option.getD_some] at h3 ⊢; split <;> simp_all
  simp only [e1, e2, e3]

/-- **a hyperslab accepted by `check_hyperslab` against the announced shape leaves a window inside the array** (any
    strides, first or repeated item): the body can be produced -/
theorem Win.get_ok {n : Nat} {w : Win} {s : PSlice} (h : w.OK n) (hv : validSl w.count s = true) :
    (w.get s).OK n := by
  rw [Win.get_eq w hv]
  have hc := Win.count_le h
  obtain ⟨h0, h1, h2, h3⟩ := h
  obtain ⟨st, sp, se⟩ := s
  simp only [validSl, decide_eq_true_eq] at hv
  obtain ⟨v0, v1, v2, v3⟩ := hv
  have hk : 1 ≤ w.step * se.getD 1 := by nlinarith
  refine ⟨by simp only; omega, ?_, by simp only; omega, hk⟩
  simp only
  cases sp with
  | none => simp only [Option.getD_none] at v2 ⊢; omega
  | some b => simp only [Option.getD_some] at v2 ⊢; omega

theorem Win.get_all {n : Nat} {w : Win} (h : w.OK n) : w.get PSlice.all = w := by
  obtain ⟨h0, h1, h2, h3⟩ := h
  obtain ⟨a, z, k⟩ := w
  simp only [Win.get, PSlice.all, orElse, Win.mk.injEq]
  simp only at h0 h1 h2 h3
  refine ⟨by omega, by omega, by omega⟩

/-- a first hyperslab is numpy's selection (the fresh window has offset 0 and stride 1) -/
theorem Win.fresh_get_pos (n : Nat) (s : PSlice) (hv : validSl n s = true) :
    ((Win.fresh n).get s).pos n = sel n s := by
  rw [Win.get_eq _ hv]
  obtain ⟨st, sp, se⟩ := s
  simp only [validSl, decide_eq_true_eq] at hv
  obtain ⟨v0, _, v2, v3⟩ := hv
  have e3 : (1 * se.getD 1) = se.getD 1 := by omega
  have hA : npBound n 0 (some (0 + st.getD 0)) = npBound n 0 st := by
    cases st with
    | none => simp [npBound]
    | some a => simp
  have hB : npBound n n (some (min (n : Int) (0 + sp.getD ((n : Int) - 0)))) = npBound n n sp := by
    cases sp with
    | none => simp only [Option.getD_none, npBound]; split <;> omega
    | some b => simp only [Option.getD_some, npBound] at v2 ⊢; split <;> split <;> omega
  simp only [Win.pos, Win.fresh, sel, Option.getD_some, e3, hA, hB]

/-! ### the composition against numpy's -/

/-- **with a first stride of 1 the composed window selects numpy's `x[s1][s2]`**: the positions the earlier window
    holds at the indices the new hyperslab selects among them -/
theorem Win.get_unit_stride {n : Nat} {w : Win} {s : PSlice} (h : w.OK n) (hk : w.step = 1)
    (hv : validSl w.count s = true) :
    ((w.get s).pos n).map some = (sel w.count s).map (fun j => (w.pos n)[j]?) := by
  have hok := Win.get_ok h hv
  have hk' : w.step.toNat = 1 := by omega
  have hL : (natSel n w.start.toNat w.stop.toNat 1).length = w.count := by
    rw [← hk', ← Win.pos_eq h, Win.pos_length h]
  have hc := natSel_combine n w.start.toNat w.stop.toNat 1 (startN s) (stopN w.count s) (stepN s) (by omega)
    (stepN_pos (validSl_nonneg hv))
  simp only [hL] at hc
  rw [Win.pos_eq hok, sel_eq_natSel _ _ (validSl_nonneg hv), Win.pos_eq h, hk', ← hc]
  congr 2
  · rw [Win.get_eq w hv]
    obtain ⟨h0, h1, h2, h3⟩ := h
    have v0 := (validSl_nonneg hv).start
    simp only [startN]
    cases hs : s.start with
    | none => simp
    | some a => have := v0 a hs; simp only [Option.getD_some]; omega
  · rw [Win.get_eq w hv]
    have hcl := Win.count_le h
    obtain ⟨h0, h1, h2, h3⟩ := h
    have v1 := (validSl_nonneg hv).stop
    simp only [stopN]
    cases hs : s.stop with
    | none =>
      simp only [Option.getD_none]
      have hl := Win.pos_length ⟨h0, h1, h2, h3⟩
      rw [Win.pos_eq ⟨h0, h1, h2, h3⟩, natSel_length, hk', cdiv] at hl
      simp only [Nat.add_sub_cancel, Nat.div_one] at hl
      omega
    | some b => have := v1 b hs; simp only [Option.getD_some]; omega
  · rw [Win.get_eq w hv]
    have v2 := (validSl_nonneg hv).step
    simp only [stepN, hk]
    cases hs : s.step with
    | none => simp
    | some k => simp

/-- **in general it is not**: on `x = arange(10)`, after `[1:2:7]` (positions 1 3 5 7) the hyperslab `[1:2:7]` again
    makes the `Arrayterator` read positions 2 and 6 (start 1 + 1, stride 2 · 2, stop min(8, 1 + 8)) — numpy's
    `x[1:8:2][1:8:2]` is positions 3 and 7; 2 and 6 are not even among the positions the first hyperslab selected -/
theorem Win.get_strided_not_numpy :
    let w := (Win.fresh 10).get ⟨some 1, some 8, some 2⟩
    let s : PSlice := ⟨some 1, some 8, some 2⟩
    w.pos 10 = [1, 3, 5, 7] ∧ validSl w.count s = true ∧
    (w.get s).pos 10 = [2, 6] ∧ (w.get s).count = 2 ∧
    (sel w.count s).filterMap (fun j => (w.pos 10)[j]?) = [3, 7] := by
  decide

/-! ### all axes: `Arrayterator.__getitem__` on a tuple, `sliceBase` -/

theorem zipWin_ok : ∀ (sh : List Nat) (win : List Win) (sl : List PSlice) (k : Nat),
    (∀ p ∈ List.zip sh win, p.2.OK p.1) →
    (List.zipWith validSl (win.map Win.count) sl).all id = true →
    ∀ p ∈ List.zip sh (List.zipWith Win.get win (sl ++ List.replicate k PSlice.all)), p.2.OK p.1
  | [], _, _, _, _, _ => by simp
  | _ :: _, [], _, _, _, _ => by simp
  | n :: sh, w :: win, [], k, hw, _ => by
    cases k with
    | zero => simp
    | succ k =>
      intro p hp
      simp only [List.nil_append, List.replicate_succ, List.zipWith_cons_cons, List.zip_cons_cons,
        List.mem_cons] at hp
      rcases hp with rfl | hp
      · simp only; rw [Win.get_all (hw (n, w) (by simp))]; exact hw (n, w) (by simp)
      · exact zipWin_ok sh win [] k (fun q hq => hw q (by simp [hq])) (by simp) p (by simpa using hp)
  | n :: sh, w :: win, s :: sl, k, hw, hg => by
    simp only [List.map_cons, List.zipWith_cons_cons, List.all_cons, Bool.and_eq_true, id] at hg
    intro p hp
    simp only [List.cons_append, List.zipWith_cons_cons, List.zip_cons_cons, List.mem_cons] at hp
    rcases hp with rfl | hp
    · exact Win.get_ok (hw (n, w) (by simp)) hg.1
    · exact zipWin_ok sh win sl k (fun q hq => hw q (by simp [hq])) hg.2 p hp

theorem zip_pos_bound : ∀ (sh : List Nat) (win : List Win), (∀ p ∈ List.zip sh win, p.2.OK p.1) →
    ∀ p ∈ List.zip sh (List.zipWith Win.pos sh win), ∀ i ∈ p.2, i < p.1
  | [], _, _ => by simp
  | _ :: _, [], _ => by simp
  | n :: sh, w :: win, hw => by
    intro p hp
    simp only [List.zipWith_cons_cons, List.zip_cons_cons, List.mem_cons] at hp
    rcases hp with rfl | hp
    · exact Win.pos_lt (hw (n, w) (by simp))
    · exact zip_pos_bound sh win (fun q hq => hw q (by simp [hq])) p hp

theorem map_pos_length : ∀ (sh : List Nat) (win : List Win), win.length = sh.length →
    (∀ p ∈ List.zip sh win, p.2.OK p.1) →
    (List.zipWith Win.pos sh win).map List.length = win.map Win.count
  | [], [], _, _ => rfl
  | [], _ :: _, h, _ => by simp at h
  | _ :: _, [], h, _ => by simp at h
  | n :: sh, w :: win, hl, hw => by
    simp only [List.zipWith_cons_cons, List.map_cons]
    rw [Win.pos_length (hw (n, w) (by simp)),
      map_pos_length sh win (by simpa using hl) (fun q hq => hw q (by simp [hq]))]

theorem map_fresh_count : ∀ (sh : List Nat), (sh.map Win.fresh).map Win.count = sh
  | [] => rfl
  | n :: sh => by simp only [List.map_cons, Win.fresh_count, map_fresh_count sh]

theorem zip_fresh_ok : ∀ (sh : List Nat), ∀ p ∈ List.zip sh (sh.map Win.fresh), p.2.OK p.1
  | [] => by simp
  | n :: sh => by
    intro p hp
    simp only [List.map_cons, List.zip_cons_cons, List.mem_cons] at hp
    rcases hp with rfl | hp
    · exact Win.fresh_ok n
    · exact zip_fresh_ok sh p hp

/-- the `Arrayterator` `apply_projection` finds in `var.data` of a well-formed array lies inside its array and
    announces the shape the variable shows -/
theorem arrayterator_ok (b : Base) (h : b.WF) : b.arrayterator.OK b.shape := by
  unfold Base.arrayterator
  cases hv : b.view with
  | some v => have := h.2.2; unfold Base.viewOK at this; rw [hv] at this; exact this
  | none =>
    exact ⟨h.1, by simp, zip_fresh_ok b.shape, (map_fresh_count b.shape).symm⟩

/-- `Arrayterator.__getitem__` with a tuple `check_hyperslab` accepted against the announced shape: the new
    `Arrayterator` lies inside the array, and reads exactly as many values as its `shape` announces -/
theorem View.get_ok (v : View) (sh : List Nat) (hv : v.OK sh) (sl : List PSlice) (hl : sl.length ≤ sh.length)
    (hg : (List.zipWith validSl sh sl).all id = true) :
    ({ v with win := List.zipWith Win.get v.win (padSl sh.length sl) } : View).OK
        ((List.zipWith Win.get v.win (padSl sh.length sl)).map Win.count) ∧
    (selND v.shape (List.zipWith Win.pos v.shape (List.zipWith Win.get v.win (padSl sh.length sl))) v.data).length
      = prod ((List.zipWith Win.get v.win (padSl sh.length sl)).map Win.count) := by
  obtain ⟨hd, hwl, hw, hsh⟩ := hv
  have hshl : sh.length = v.shape.length := by rw [hsh, List.length_map, hwl]
  have hlen : (List.zipWith Win.get v.win (padSl sh.length sl)).length = v.shape.length := by
    simp only [padSl, List.length_zipWith, List.length_append, List.length_replicate]; omega
  have hok : ∀ p ∈ List.zip v.shape (List.zipWith Win.get v.win (padSl sh.length sl)), p.2.OK p.1 :=
    zipWin_ok v.shape v.win sl (sh.length - sl.length) hw (by rw [← hsh]; exact hg)
  refine ⟨⟨hd, hlen, hok, rfl⟩, ?_⟩
  rw [selND_length v.shape _ v.data (by rw [List.length_zipWith, hlen]; simp)
    (zip_pos_bound v.shape _ hok) hd, map_pos_length v.shape _ hlen hok]

theorem sliceBase_wf (b b' : Base) (sl : List PSlice) (h : b.WF) (hs : sliceBase b sl = .ok b') :
    b'.WF ∧ b'.name = b.name ∧ b'.ty = b.ty := by
  unfold sliceBase at hs
  split at hs
  · rename_i hc
    simp only [Except.ok.injEq] at hs
    subst hs
    have := View.get_ok b.arrayterator b.shape (arrayterator_ok b h) sl hc.1 hc.2
    exact ⟨⟨this.2, rfl, this.1⟩, rfl, rfl⟩
  · simp at hs

/-! ### a variable named for the first time: numpy's selection -/

theorem zip_fresh_get : ∀ (sh : List Nat) (sl : List PSlice) (k : Nat),
    (List.zipWith validSl sh sl).all id = true →
    List.zipWith Win.pos sh (List.zipWith Win.get (sh.map Win.fresh) (sl ++ List.replicate k PSlice.all))
      = List.zipWith sel sh (sl ++ List.replicate k PSlice.all)
  | [], _, _, _ => by simp
  | n :: sh, [], k, _ => by
    cases k with
    | zero => simp
    | succ k =>
      simp only [List.nil_append, List.replicate_succ, List.map_cons, List.zipWith_cons_cons]
      rw [Win.get_all (Win.fresh_ok n)]
      have := zip_fresh_get sh [] k (by simp)
      simp only [List.nil_append] at this
      rw [this]
      congr 1
      rw [Win.pos_eq (Win.fresh_ok n), sel_eq_natSel _ _ nonNeg_all]
      simp [startN, stopN, stepN, PSlice.all, Win.fresh]
  | n :: sh, s :: sl, k, hg => by
    simp only [List.zipWith_cons_cons, List.all_cons, Bool.and_eq_true, id] at hg
    simp only [List.cons_append, List.map_cons, List.zipWith_cons_cons]
    rw [Win.fresh_get_pos n s hg.1, zip_fresh_get sh sl k hg.2]

/-- **on a variable the projection names for the first time `sliceBase` is numpy's selection**: shape and values
    are `x[s]` per axis (missing axes whole, stops clipped) -/
theorem sliceBase_fresh (b b' : Base) (sl : List PSlice) (h : b.WF) (hv : b.view = none)
    (hs : sliceBase b sl = .ok b') :
    b'.shape = (List.zipWith sel b.shape (padSl b.shape.length sl)).map List.length ∧
    b'.data = selND b.shape (List.zipWith sel b.shape (padSl b.shape.length sl)) b.data := by
  unfold sliceBase at hs
  split at hs
  · rename_i hc
    simp only [Except.ok.injEq] at hs
    subst hs
    have hok := (View.get_ok b.arrayterator b.shape (arrayterator_ok b h) sl hc.1 hc.2).1
    have ha : b.arrayterator = ⟨b.shape, b.data, b.shape.map Win.fresh⟩ := by
      unfold Base.arrayterator; rw [hv]
    simp only [ha] at hok ⊢
    have hz := zip_fresh_get b.shape sl (b.shape.length - sl.length) hc.2
    have hm := map_pos_length b.shape _ hok.2.1 hok.2.2.1
    simp only [padSl] at hm hz ⊢
    rw [← hz, hm]
    exact ⟨rfl, rfl⟩
  · simp at hs

/-! ### the handler's answer to a variable named twice -/

theorem mapM_ok_id {α : Type} (f : α → Except Exc α) : ∀ (l : List α), (∀ x ∈ l, f x = .ok x) → l.mapM f = .ok l
  | [], _ => rfl
  | a :: as, h => by
    rw [List.mapM_cons, h a (by simp), mapM_ok_id f as (fun x hx => h x (by simp [hx]))]
    rfl

theorem applySelection_nil (ds : Dataset) : applySelection [] ds = .ok ds := by
  unfold applySelection
  rw [mapM_ok_id _ ds.vars]
  · rfl
  · intro v _
    cases v <;> rfl

theorem sliceBase_name {b b' : Base} {sl : List PSlice} (h : sliceBase b sl = .ok b') : b'.name = b.name := by
  unfold sliceBase at h
  split at h
  · simp only [Except.ok.injEq] at h; subst h; rfl
  · simp at h

/-- the slice pass on an output that holds the one array `b`: `sliceBase` -/
theorem slice1_single (b : Base) (sl : List PSlice) (hs : sl ≠ []) :
    slice1 [.base b] (.path [(b.name, sl)]) = (sliceBase b sl >>= fun b' => pure [.base b']) := by
  simp only [slice1, hs, if_false, findVar, List.find?_cons, Var.name, decide_true, bind, Except.bind, pure, Except.pure]
  cases sliceBase b sl with
  | error e => rfl
  | ok b' => simp [Var.name]

/-- **the handler's answer to `?a[s1],a[s2]`** for a top-level array `a`: the second hyperslab is applied, by
    `sliceBase`, to what the first one left -/
theorem constrain_repeated (ds : Dataset) (b : Base) (sl1 sl2 : List PSlice)
    (hf : findVar ds.vars b.name = some (.base b)) (h1 : sl1 ≠ []) (h2 : sl2 ≠ []) :
    constrain ds [.path [(b.name, sl1)], .path [(b.name, sl2)]] []
      = (sliceBase b sl1 >>= fun b1 => sliceBase b1 sl2 >>= fun b2 =>
          pure { ds with vars := [.base b2] }) := by
  have hc : (ds.vars.map Var.name).contains b.name = true := by
    have := List.mem_of_find?_eq_some hf
    have hp := List.find?_some hf
    simp only [decide_eq_true_eq] at hp
    simp only [List.contains_iff_mem, List.mem_map]
    exact ⟨_, this, hp⟩
  have hflt : ([] : List Var).filter (fun v => decide (v.name ≠ (Var.base b).name)) ++ [Var.base b] = [.base b] := rfl
  have hflt2 : ([Var.base b]).filter (fun v => decide (v.name ≠ (Var.base b).name)) ++ [Var.base b] = [.base b] := by
    simp [Var.name]
  unfold constrain
  rw [applySelection_nil]
  simp only [bind, Except.bind, pure, Except.pure, List.mapM_cons, List.mapM_nil, fixShorthand1, hc, if_true,
    List.cons_ne_nil, if_false, applyProjection, List.foldlM_cons, List.foldlM_nil, collect1, collect1Core, hf,
    setVar, hflt, hflt2, fixSeqData]
  rw [slice1_single b sl1 h1]
  simp only [bind, Except.bind, pure, Except.pure]
  cases hb1 : sliceBase b sl1 with
  | error e => rfl
  | ok b1 =>
    simp only
    rw [← sliceBase_name hb1, slice1_single b1 sl2 h2]
    simp only [bind, Except.bind, pure, Except.pure]
    cases sliceBase b1 sl2 <;> rfl

end Pydap.Handler
