/-
  Helper lemmas for the transport model (PydapModel/Transport.lean):

  * `join_cutBy`, `join_slices1`        cutting a byte string and joining the pieces gives it back, any cuts
  * `read_send`                         both read paths on a response of a plain session give the decoded body
  * `read_afterSave`, `read_fromStored` both read paths on a miss / hit of the caching session give the stored content
  * `storeOf_eq`                        what is stored depends on the request only (not on cuts / `stream=`)
  * `readsPlain_eq`, `readsCached_of_transparent`, `readsCached_eq`   all histories; the cache part is
                                        `Cache.runCached_transparent` (or any `C18_cache_transparent_*`)
-/
import PydapModel.Transport
import Proofs.Cache
namespace Pydap.Transport
open Pydap.Cache

theorem join_cutBy (ns : List Nat) : ∀ b : Bytes, join (cutBy ns b) = b := by
  induction ns with
  | nil =>
    intro b
    cases b with
    | nil => rfl
    | cons x xs => simp [cutBy, join]
  | cons n ns ih =>
    intro b
    simp only [cutBy, join, ih, List.take_append_drop]

theorem join_slices1 : ∀ b : Bytes, join (slices1 b) = b := by
  intro b
  induction b with
  | nil => rfl
  | cons x xs ih => simp [slices1, join, ih]

/-- the decoded body of a GET: what the transport's decoder makes of the wire body -/
def decoded {α : Type} (unz : Bytes → Bytes) (srv : α → Served) (u : α) : Bytes :=
  decodeBody unz (srv u).enc (srv u).body

theorem content_send (unz : Bytes → Bytes) (s : Bool) (w : Wire) :
    (requestsSend unz s w).content = decodeBody unz w.enc w.body := by
  cases s <;> simp [requestsSend, Resp.content, urlStream, join_cutBy]

/-- plain session: whole and streamed reads give the decoded body, whatever the cuts and `stream=` -/
theorem read_send (unz : Bytes → Bytes) (p : Path) (s : Bool) (w : Wire) :
    read p (requestsSend unz s w) = decodeBody unz w.enc w.body := by
  cases p <;> cases s <;>
    simp [read, readWhole, readStream, requestsSend, Resp.content, Resp.iterContent, urlStream, join_cutBy,
      join_slices1]

theorem read_afterSave (p : Path) (r : Resp) : read p (afterSave r) = r.content := by
  cases p <;> simp [read, readWhole, readStream, afterSave, Resp.content, Resp.iterContent, join_slices1]

theorem read_fromStored (p : Path) (s : Stored) : read p (fromStored s) = s.content := by
  cases p <;> simp [read, readWhole, readStream, fromStored, Resp.content, Resp.iterContent, join_slices1]

/-- requests_cache stores the header and the DECODED body: a function of the request alone -/
theorem storeOf_eq {α : Type} (unz : Bytes → Bytes) (srv : α → Served) (g : Get α) :
    storeOf unz srv g = ⟨(srv g.req).enc, decoded unz srv g.req⟩ := by
  simp only [storeOf, toStored, content_send, decoded, wireOf]
  cases g.streamKw <;> rfl

theorem readsPlain_eq {α : Type} (unz : Bytes → Bytes) (srv : α → Served) (hist : List (Get α)) :
    readsPlain unz srv hist = hist.map (fun g => decoded unz srv g.req) := by
  simp only [readsPlain, read_send, wireOf, decoded]

/-- the read of one GET through the caching session, given that the trace entry carries what the server
    would have stored for it -/
theorem read_cachedResp {α : Type} (unz : Bytes → Bytes) (srv : α → Served) (g : Get α) (hit : Bool) :
    read g.path (cachedResp unz srv g (hit, storeOf unz srv g)) = decoded unz srv g.req := by
  cases hit
  · simp only [cachedResp, Bool.false_eq_true, if_false, read_afterSave, content_send, wireOf, decoded]
  · simp only [cachedResp, if_true, read_fromStored, storeOf_eq]

theorem reads_zip {α : Type} (unz : Bytes → Bytes) (srv : α → Served) :
    ∀ (hist : List (Get α)) (tr : List (Bool × Stored)), tr.map (·.2) = hist.map (storeOf unz srv) →
      List.zipWith (fun g r => read g.path r) hist (List.zipWith (cachedResp unz srv) hist tr)
        = hist.map (fun g => decoded unz srv g.req) := by
  intro hist
  induction hist with
  | nil => intro tr _; rfl
  | cons g gs ih =>
    intro tr h
    cases tr with
    | nil => simp at h
    | cons t ts =>
      obtain ⟨hit, s⟩ := t
      simp only [List.map_cons, List.cons.injEq] at h
      obtain ⟨h1, h2⟩ := h
      subst h1
      simp only [List.zipWith_cons_cons, List.map_cons, read_cachedResp, ih ts h2]

/-- what requests_cache stores for a request: header kept, body decoded -/
def storedFor {α : Type} (unz : Bytes → Bytes) (srv : α → Served) (u : α) : Stored :=
  ⟨(srv u).enc, decoded unz srv u⟩

/-- a history of GETs seen by the cache is the history of their requests -/
theorem runCached_comp {α β κ ρ : Type} [DecidableEq κ] (f : β → α) (key : α → κ) (server : α → ρ) (l : List β) :
    ∀ cache : Store κ ρ, runCached (fun g => key (f g)) (fun g => server (f g)) cache l
      = runCached key server cache (l.map f) := by
  induction l with
  | nil => intro _; rfl
  | cons g gs ih =>
    intro cache
    have h1 : cachedGet (fun g => key (f g)) (fun g => server (f g)) cache g = cachedGet key server cache (f g) := rfl
    simp only [runCached, List.map_cons, h1, ih]

/-- **From cache transparency to the bytes the reader gets.**  If the caching session is transparent for the
    stored responses on the requests of the history (any of `C18_cache_transparent_*`), both read paths through
    it give the decoded bodies. -/
theorem readsCached_of_transparent {α κ : Type} [DecidableEq κ] (unz : Bytes → Bytes) (key : α → κ)
    (srv : α → Served) (hist : List (Get α))
    (ht : (runCached key (storedFor unz srv) [] (hist.map (·.req))).1 = runPlain (storedFor unz srv) (hist.map (·.req))) :
    readsCached unz key srv hist = hist.map (fun g => decoded unz srv g.req) := by
  have hs : storeOf unz srv = fun g : Get α => storedFor unz srv g.req := funext (storeOf_eq unz srv)
  refine reads_zip unz srv hist _ ?_
  rw [runTrace_resp, hs, runCached_comp (·.req) key (storedFor unz srv) hist [], ht]
  simp [runPlain, List.map_map, Function.comp_def]

/-- all histories: the caching session's reads are the decoded bodies, when equal keys mean equal answers on
    the requests of the history.  The cache part is `Cache.runCached_transparent`. -/
theorem readsCached_eq {α κ : Type} [DecidableEq κ] (unz : Bytes → Bytes) (key : α → κ) (srv : α → Served)
    (hist : List (Get α))
    (hks : ∀ u1 ∈ hist.map (·.req), ∀ u2 ∈ hist.map (·.req), key u1 = key u2 → srv u1 = srv u2) :
    readsCached unz key srv hist = hist.map (fun g => decoded unz srv g.req) := by
  refine readsCached_of_transparent unz key srv hist ?_
  exact (runCached_transparent (adm := (· ∈ hist.map (·.req)))
    (fun u1 u2 h1 h2 hk => by simp only [storedFor, decoded, hks u1 h1 u2 h2 hk]) _ []
    (cacheInv_nil _ _ _) (fun _ h => h)).1

end Pydap.Transport
