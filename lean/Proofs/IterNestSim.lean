/-
  C17, one nested level: one `__getitem__` step simulates one reference step; chains; iteration.
-/
import Proofs.IterNest
namespace Pydap.IterNest
open Pydap Pydap.IterData

variable {A : Type}

theorem evalMaps_append (cmp : Op → A → A → Bool) (ms : List (NMap A)) (m : NMap A) (x : Item A) :
    evalMaps cmp (ms ++ [m]) x = evalMaps cmp ms x >>= evalMap cmp m := by
  induction ms generalizing x with
  | nil =>
    simp only [List.nil_append, evalMaps]
    show _ = evalMap cmp m x
    cases evalMap cmp m x <;> rfl
  | cons a ms ih =>
    simp only [List.cons_append, evalMaps]
    cases evalMap cmp a x with
    | error e => rfl
    | ok y => exact ih y

theorem evalNFilts_append (cmp : Op → A → A → Bool) (fs : List (NFilt A)) (f : NFilt A) (r : List (NCell A))
    (b b' : Bool) (h1 : evalNFilts cmp fs r = .ok b) (h2 : evalNFilt cmp f r = .ok b') :
    evalNFilts cmp (fs ++ [f]) r = .ok (b && b') := by
  induction fs generalizing b with
  | nil =>
    simp only [evalNFilts] at h1
    cases h1
    simp only [List.nil_append, evalNFilts, h2]
    cases b' <;> rfl
  | cons a fs ih =>
    simp only [List.cons_append, evalNFilts] at h1 ⊢
    cases ha : evalNFilt cmp a r with
    | error e => rw [ha] at h1; cases h1
    | ok v =>
      rw [ha] at h1
      cases v with
      | false =>
        cases h1
        rfl
      | true => exact ih b h1

/-! ### what a resolved clause looks like -/

theorem resolve_inv {lit : List Char → Option A} {id : Name} {all : List Name} {c : Cond} {rc : RCond A}
    (h : resolve lit id all c = some rc) :
    ∃ c1, rsplitDot c.id1 = some (id, c1) ∧ c1 ∈ all ∧ rc.c1 = c1 ∧ rc.op = c.op ∧
      ((rsplitHead c.id2 = id ∧ lastTok c.id2 ∈ all ∧ rc.rhs = .name (lastTok c.id2)) ∨
       (rsplitHead c.id2 ≠ id ∧ ∃ v, lit c.id2 = some v ∧ rc.rhs = .const v)) := by
  unfold resolve at h
  cases hsp : rsplitDot c.id1 with
  | none => simp [hsp] at h
  | some p =>
    obtain ⟨p1, c1⟩ := p
    simp only [hsp] at h
    by_cases hp : p1 = id ∧ c1 ∈ all
    · obtain ⟨rfl, hc1⟩ := hp
      simp only [hc1, and_self, if_true] at h
      by_cases h2 : rsplitHead c.id2 = p1
      · simp only [h2, if_true] at h
        by_cases hm : lastTok c.id2 ∈ all
        · simp only [hm, if_true, Option.some.injEq] at h
          subst h
          exact ⟨c1, rfl, hc1, rfl, rfl, Or.inl ⟨h2, hm, rfl⟩⟩
        · simp [hm] at h
      · simp only [h2, if_false] at h
        cases hlit : lit c.id2 with
        | none => simp [hlit] at h
        | some v =>
          simp [hlit] at h
          subst h
          exact ⟨c1, rfl, hc1, rfl, rfl, Or.inr ⟨h2, v, rfl, rfl⟩⟩
    · simp [hp] at h

theorem drop_prefix_dot (p c1 : List Char) : (p ++ '.' :: c1).drop (p.length + 1) = c1 := by
  have : p ++ '.' :: c1 = (p ++ ['.']) ++ c1 := by simp
  rw [this]
  have hlen : p.length + 1 = (p ++ ['.']).length := by simp
  rw [hlen, List.drop_left]

/-- the filter `op(a(row), b(row))` built for a resolved clause evaluates it on a well-shaped row -/
theorem rhsOperand_resolved {lit : List Char → Option A} {parent : Name} {keys : List Name} {c : Cond} {rc : RCond A}
    (h : resolve lit parent keys c = some rc) :
    ∃ b : Operand A, rhsOperand lit parent keys c.id2 = .ok b ∧
      ∀ (cmp : Op → A → A → Bool) (ir : List A), ir.length = keys.length →
        evalFilt cmp ⟨keys.idxOf rc.c1, c.op, b⟩ ir = .ok (refCond cmp keys ir rc) := by
  obtain ⟨c1, _, hc1, hrc1, hop, hrhs⟩ := resolve_inv h
  rcases hrhs with ⟨h2, hm, hr⟩ | ⟨h2, v, hv, hr⟩
  · refine ⟨.col (keys.idxOf (lastTok c.id2)), by simp [rhsOperand, h2, indexOf?_of_mem hm], ?_⟩
    intro cmp ir hir
    obtain ⟨x, hx1, hx2⟩ := cellOf_some keys ir hir hc1
    obtain ⟨y, hy1, hy2⟩ := cellOf_some keys ir hir hm
    cases rc with
    | mk rc1 rop rrhs =>
      simp only at hrc1 hop hr
      subst hrc1 hop hr
      simp [evalFilt, evalOperand, hx2, hy2, refCond, hx1, hy1]
      rfl
  · refine ⟨.lit v, by simp [rhsOperand, h2, hv], ?_⟩
    intro cmp ir hir
    obtain ⟨x, hx1, hx2⟩ := cellOf_some keys ir hir hc1
    cases rc with
    | mk rc1 rop rrhs =>
      simp only at hrc1 hop hr
      subst hrc1 hop hr
      simp [evalFilt, evalOperand, hx2, refCond, hx1]
      rfl

/-! ### the simulation relation -/

structure Rel (cmp : Op → A → A → Bool) (id : Name) (hdr : Hdr) (s : Stream A) (st : Ref A) : Prop where
  ids : s.id = id ∧ s.hdr = hdr
  filt : ∀ r : List (NCell A), wsRow hdr r = true →
    evalNFilts cmp s.ifilter r = .ok (st.oconds.all (refOCond cmp hdr.names r))
  maps : ∀ r : List (NCell A), wsRow hdr r = true →
    ∃ it, refItem hdr (applyInner cmp hdr st.iconds r) st.layout = some it ∧ evalMaps cmp s.imap (.row r) = .ok it
  tmpl : match st.layout with
    | .table vs => s.template = .outer vs ∧ s.level = 0 ∧ (∀ k ∈ vs, k ∈ hdr.names)
    | .column k => s.template = .base (id ++ '.' :: k) ∧ s.level = 1
    | .innerTable n vs => ∃ keys, innerKeys hdr n = some keys ∧ s.template = .inner n vs ∧ s.level = 1
        ∧ (∀ k ∈ vs, k ∈ keys)
    | .innerColumn n k => s.template = .base (id ++ '.' :: n ++ '.' :: k) ∧ s.level = 2
  sl : s.islice = st.slices

theorem rel_table_maps {cmp : Op → A → A → Bool} {id : Name} {hdr : Hdr} {s : Stream A} {st : Ref A}
    (hrel : Rel cmp id hdr s st) {vs : List Name} (hl : st.layout = .table vs)
    (r : List (NCell A)) (hr : wsRow hdr r = true) :
    ∃ cells, vs.mapM (cellOf hdr.names (applyInner cmp hdr st.iconds r)) = some cells ∧
      evalMaps cmp s.imap (.row r) = .ok (.row cells) := by
  obtain ⟨it, h1, h2⟩ := hrel.maps r hr
  rw [hl] at h1
  simp only [refItem] at h1
  cases hc : vs.mapM (cellOf hdr.names (applyInner cmp hdr st.iconds r)) with
  | none => simp [hc] at h1
  | some cells =>
    simp [hc] at h1
    subst h1
    exact ⟨cells, rfl, h2⟩

theorem rel_inner_maps {cmp : Op → A → A → Bool} {id : Name} {hdr : Hdr} {s : Stream A} {st : Ref A}
    (hrel : Rel cmp id hdr s st) {n : Name} {vs keys : List Name} (hl : st.layout = .innerTable n vs)
    (hk : innerKeys hdr n = some keys)
    (r : List (NCell A)) (hr : wsRow hdr r = true) :
    ∃ rows prows, innerRows hdr.names (applyInner cmp hdr st.iconds r) n = some rows ∧
      (∀ ir ∈ rows, ir.length = keys.length) ∧
      (rows.mapM fun ir => vs.mapM (cellOf keys ir)) = some prows ∧
      evalMaps cmp s.imap (.row r) = .ok (.inner prows) := by
  obtain ⟨it, h1, h2⟩ := hrel.maps r hr
  rw [hl] at h1
  simp only [refItem, hk] at h1
  have hws := ws_applyInner cmp hdr st.iconds r hr
  obtain ⟨c, hc1, _, hc3⟩ := cell_of_name hws (innerKeys_lookup hk)
  obtain ⟨rows, rfl, hrows⟩ := wsCell_seq hc3
  have hin : innerRows hdr.names (applyInner cmp hdr st.iconds r) n = some rows := by
    simp [innerRows, hc1]
  rw [hin] at h1
  simp only at h1
  cases hp : (rows.mapM fun ir => vs.mapM (cellOf keys ir)) with
  | none => simp [hp] at h1
  | some prows =>
    simp [hp] at h1
    subst h1
    exact ⟨rows, prows, hin, hrows, hp, h2⟩

/-! ### child and column selections -/

theorem step_str {cmp : Op → A → A → Bool} {lit : List Char → Option A} {id : Name} {hdr : Hdr}
    (hh : wsHdr hdr = true)
    {s : Stream A} {st st' : Ref A} {key : Name}
    (hrel : Rel cmp id hdr s st) (hstep : refStep lit id hdr st (.str key) = some st') :
    ∃ s', getitem lit s (.str key) = .ok s' ∧ Rel cmp id hdr s' st' ∧ s'.src = s.src := by
  obtain ⟨hid, hhdr⟩ := hrel.ids
  simp only [refStep] at hstep
  cases hl : st.layout with
  | column k => simp [hl] at hstep
  | innerColumn n k => simp [hl] at hstep
  | table vs =>
    simp only [hl] at hstep
    have ht := hrel.tmpl
    simp only [hl] at ht
    obtain ⟨htm, hlev, hsub⟩ := ht
    by_cases hk : key ∈ vs
    · simp only [hk, if_true] at hstep
      cases hlk : hdr.lookup key with
      | none => simp [hlk] at hstep
      | some kid =>
        -- the cell of `key` in any (inner-filtered) well-shaped row
        have hcellmap : ∀ r : List (NCell A), wsRow hdr r = true →
            ∃ c, cellOf hdr.names (applyInner cmp hdr st.iconds r) key = some c ∧ wsCell kid c = true ∧
              evalMaps cmp (s.imap ++ [.item (vs.idxOf key) (s.level + 1)]) (.row r) =
                .ok (match c with
                  | .base a => Item.cell a
                  | .seq rows => Item.inner rows) := by
          intro r hr
          obtain ⟨cells, hc, hm⟩ := rel_table_maps hrel hl r hr
          have hws := ws_applyInner cmp hdr st.iconds r hr
          obtain ⟨c, hc1, _, hc3⟩ := cell_of_name hws hlk
          have hcell := optMapM_getElem? _ vs cells hc (vs.idxOf key) key (getElem?_idxOf hk)
          refine ⟨c, hc1, hc3, ?_⟩
          rw [evalMaps_append, hm, hlev]
          show evalMap cmp (.item (vs.idxOf key) 1) (.row cells) = _
          simp [evalMap, getCell, hcell, hc1]
          rfl
        cases kid with
        | none =>
          simp only [hlk, Option.some.injEq] at hstep
          subst hstep
          refine ⟨{ s with level := s.level + 1, template := .base (s.id ++ '.' :: key),
                           imap := s.imap ++ [.item (vs.idxOf key) (s.level + 1)] }, ?_, ?_, rfl⟩
          · simp [getitem, htm, indexOf?_of_mem hk, hhdr, hlk]
          · refine ⟨hrel.ids, hrel.filt, ?_, ?_, hrel.sl⟩
            · intro r hr
              obtain ⟨c, hc1, hc3, hm⟩ := hcellmap r hr
              obtain ⟨a, rfl⟩ := wsCell_base hc3
              exact ⟨.cell a, by simp [refItem, hc1], hm⟩
            · show (_ : Tmpl) = _ ∧ s.level + 1 = 1
              exact ⟨by rw [hid], by omega⟩
        | some ks =>
          simp only [hlk, Option.some.injEq] at hstep
          subst hstep
          have hik : innerKeys hdr key = some ks := by simp [innerKeys, hlk]
          have hknd : ks.Nodup := wsHdr_inner hh hlk
          refine ⟨{ s with level := s.level + 1, template := .inner key ks,
                           imap := s.imap ++ [.item (vs.idxOf key) (s.level + 1)] }, ?_, ?_, rfl⟩
          · simp [getitem, htm, indexOf?_of_mem hk, hhdr, hlk]
          · refine ⟨hrel.ids, hrel.filt, ?_, ?_, hrel.sl⟩
            · intro r hr
              obtain ⟨c, hc1, hc3, hm⟩ := hcellmap r hr
              obtain ⟨rows, rfl, hrows⟩ := wsCell_seq hc3
              refine ⟨.inner rows, ?_, hm⟩
              have hself : (rows.mapM fun ir => ks.mapM (cellOf ks ir)) = some rows := by
                have : ∀ (l : List (List A)), (∀ ir ∈ l, ir.length = ks.length) →
                    (l.mapM fun ir => ks.mapM (cellOf ks ir)) = some l := by
                  intro l
                  induction l with
                  | nil => intro _; rfl
                  | cons a l ih =>
                    intro h
                    rw [List.mapM_cons, mapM_cellOf_self ks hknd a (h a (by simp)),
                      ih (fun x hx => h x (by simp [hx]))]
                    rfl
                exact this rows hrows
              simp [refItem, innerRows, hc1, hik, hself]
            · exact ⟨ks, hik, rfl, by show s.level + 1 = 1; omega, fun k hk' => hk'⟩
    · simp [hk] at hstep
  | innerTable n vs =>
    simp only [hl] at hstep
    have ht := hrel.tmpl
    simp only [hl] at ht
    obtain ⟨keys, hik, htm, hlev, hsub⟩ := ht
    by_cases hk : key ∈ vs
    · simp only [hk, if_true, Option.some.injEq] at hstep
      subst hstep
      refine ⟨{ s with level := s.level + 1, template := .base (s.id ++ '.' :: n ++ '.' :: key),
                       imap := s.imap ++ [.item (vs.idxOf key) (s.level + 1)] }, ?_, ?_, rfl⟩
      · simp [getitem, htm, indexOf?_of_mem hk]
      · refine ⟨hrel.ids, hrel.filt, ?_, ?_, hrel.sl⟩
        · intro r hr
          obtain ⟨rows, prows, hin, hrows, hp, hm⟩ := rel_inner_maps hrel hl hik r hr
          obtain ⟨out, h1, h2⟩ := mapM_step (fun ir => vs.mapM (cellOf keys ir)) (fun ir => cellOf keys ir key)
            (fun p => getCell p (vs.idxOf key)) rows prows hp (by
              intro ir hir p hpp
              obtain ⟨v, hv1, _⟩ := cellOf_some keys ir (hrows ir hir) (hsub key hk)
              have hcell := optMapM_getElem? (cellOf keys ir) vs p hpp (vs.idxOf key) key (getElem?_idxOf hk)
              exact ⟨v, hv1, by simp [getCell, hcell, hv1]⟩)
          refine ⟨.innerCol out, by simp [refItem, hin, hik, h1], ?_⟩
          show evalMaps cmp (s.imap ++ [.item (vs.idxOf key) (s.level + 1)]) (.row r) = _
          rw [evalMaps_append, hm, hlev]
          show evalMap cmp (.item (vs.idxOf key) 2) (.inner prows) = _
          simp only [evalMap, if_true, h2]
          rfl
        · show (_ : Tmpl) = _ ∧ s.level + 1 = 2
          exact ⟨by rw [hrel.ids.1], by omega⟩
    · simp [hk] at hstep


theorem step_list {cmp : Op → A → A → Bool} {lit : List Char → Option A} {id : Name} {hdr : Hdr}
    {s : Stream A} {st st' : Ref A} {keys : List Name}
    (hrel : Rel cmp id hdr s st) (hstep : refStep lit id hdr st (.list keys) = some st') :
    ∃ s', getitem lit s (.list keys) = .ok s' ∧ Rel cmp id hdr s' st' ∧ s'.src = s.src := by
  simp only [refStep] at hstep
  cases hl : st.layout with
  | column k => simp [hl] at hstep
  | innerColumn n k => simp [hl] at hstep
  | table vs =>
    simp only [hl] at hstep
    by_cases hk : keys.all (· ∈ vs) = true
    · simp only [hk, if_true, Option.some.injEq] at hstep
      subst hstep
      have hmem : ∀ k ∈ keys, k ∈ vs := by
        intro k hkm
        have := List.all_eq_true.mp hk k hkm
        simpa using this
      have ht := hrel.tmpl
      simp only [hl] at ht
      obtain ⟨htm, hlev, hsub⟩ := ht
      have hcols := all_mem_mapM_indexOf vs keys hmem
      refine ⟨{ s with template := .outer keys,
                       imap := s.imap ++ [.proj (keys.map vs.idxOf) (s.level + 1)] }, ?_, ?_, rfl⟩
      · simp [getitem, htm, hcols]
      · refine ⟨hrel.ids, hrel.filt, ?_, ?_, hrel.sl⟩
        · intro r hr
          obtain ⟨cells, hc, hm⟩ := rel_table_maps hrel hl r hr
          obtain ⟨out, h1, h2⟩ := proj_by_name hdr.names vs _ cells hc keys _ hcols
          refine ⟨.row out, by simp [refItem, h1], ?_⟩
          show evalMaps cmp (s.imap ++ [.proj (keys.map vs.idxOf) (s.level + 1)]) (.row r) = _
          rw [evalMaps_append, hm, hlev]
          show evalMap cmp (.proj (keys.map vs.idxOf) 1) (.row cells) = _
          simp only [evalMap, if_true, h2]
          rfl
        · exact ⟨rfl, hlev, fun k hk' => hsub k (hmem k hk')⟩
    · simp [hk] at hstep
  | innerTable n vs =>
    simp only [hl] at hstep
    by_cases hk : keys.all (· ∈ vs) = true
    · simp only [hk, if_true, Option.some.injEq] at hstep
      subst hstep
      have hmem : ∀ k ∈ keys, k ∈ vs := by
        intro k hkm
        have := List.all_eq_true.mp hk k hkm
        simpa using this
      have ht := hrel.tmpl
      simp only [hl] at ht
      obtain ⟨ikeys, hik, htm, hlev, hsub⟩ := ht
      have hcols := all_mem_mapM_indexOf vs keys hmem
      refine ⟨{ s with template := .inner n keys,
                       imap := s.imap ++ [.proj (keys.map vs.idxOf) (s.level + 1)] }, ?_, ?_, rfl⟩
      · simp [getitem, htm, hcols]
      · refine ⟨hrel.ids, hrel.filt, ?_, ?_, hrel.sl⟩
        · intro r hr
          obtain ⟨rows, prows, hin, hrows, hp, hm⟩ := rel_inner_maps hrel hl hik r hr
          obtain ⟨out, h1, h2⟩ := mapM_step (fun ir => vs.mapM (cellOf ikeys ir))
            (fun ir => keys.mapM (cellOf ikeys ir))
            (fun p => (keys.map vs.idxOf).mapM (getCell p)) rows prows hp (by
              intro ir _ p hpp
              exact proj_by_name ikeys vs ir p hpp keys _ hcols)
          refine ⟨.inner out, by simp [refItem, hin, hik, h1], ?_⟩
          show evalMaps cmp (s.imap ++ [.proj (keys.map vs.idxOf) (s.level + 1)]) (.row r) = _
          rw [evalMaps_append, hm, hlev]
          show evalMap cmp (.proj (keys.map vs.idxOf) 2) (.inner prows) = _
          simp only [evalMap, if_true, h2]
          rfl
        · exact ⟨ikeys, hik, rfl, hlev, fun k hk' => hsub k (hmem k hk')⟩
    · simp [hk] at hstep

theorem step_slice {cmp : Op → A → A → Bool} {id : Name} {hdr : Hdr}
    {s : Stream A} {st : Ref A} (sl : PSlice) (hrel : Rel cmp id hdr s st) :
    Rel cmp id hdr { s with islice := s.islice ++ [sl] } { st with slices := st.slices ++ [sl] } :=
  ⟨hrel.ids, hrel.filt, hrel.maps, hrel.tmpl, by show s.islice ++ [sl] = st.slices ++ [sl]; rw [hrel.sl]⟩


/-! ### filters -/

theorem rhsOperand_of_resolve {lit : List Char → Option A} {parent : Name} {keys : List Name} {c : Cond} {rc : RCond A}
    (h : resolve lit parent keys c = some rc) :
    ∃ b : Operand A, rhsOperand lit parent keys c.id2 = .ok b ∧ rc.c1 ∈ keys ∧ rc.op = c.op ∧
      ((∃ k2, k2 ∈ keys ∧ rc.rhs = .name k2 ∧ b = .col (keys.idxOf k2)) ∨ (∃ v, rc.rhs = .const v ∧ b = .lit v)) := by
  obtain ⟨c1, _, hc1, hrc1, hop, hrhs⟩ := resolve_inv h
  rcases hrhs with ⟨h2, hm, hr⟩ | ⟨h2, v, hv, hr⟩
  · exact ⟨.col (keys.idxOf (lastTok c.id2)), by simp [rhsOperand, h2, indexOf?_of_mem hm], hrc1 ▸ hc1, hop,
      Or.inl ⟨_, hm, hr, rfl⟩⟩
  · exact ⟨.lit v, by simp [rhsOperand, h2, hv], hrc1 ▸ hc1, hop, Or.inr ⟨v, hr, rfl⟩⟩

theorem id1_of_resolve {lit : List Char → Option A} {parent : Name} {keys : List Name} {c : Cond} {rc : RCond A}
    (h : resolve lit parent keys c = some rc) :
    c.id1 = parent ++ '.' :: rc.c1 ∧ (∀ ch ∈ rc.c1, ch ≠ '.') := by
  obtain ⟨c1, hsp, _, hrc1, _, _⟩ := resolve_inv h
  obtain ⟨e, nd⟩ := rsplitDot_some _ _ _ hsp
  subst hrc1
  exact ⟨e, nd⟩

theorem evalMap_ident (cmp : Op → A → A → Bool) (x : Item A) : evalMap cmp .ident x = .ok x := by
  cases x <;> rfl

/-- the map of a nested filter, applied to a source row, filters the records of the named child exactly
    as the reference does -/
theorem nest_front (cmp : Op → A → A → Bool) {hdr : Hdr} {n : Name} {keys : List Name}
    (hik : innerKeys hdr n = some keys) (rc : RCond A) (f : Filt A)
    (hf : ∀ ir : List A, ir.length = keys.length → evalFilt cmp f ir = .ok (refCond cmp keys ir rc))
    (r : List (NCell A)) (hr : wsRow hdr r = true) :
    evalMap cmp (.nest (hdr.names.idxOf n) f) (.row r) = .ok (.row (applyOne cmp hdr (n, rc) r)) := by
  have hlk := innerKeys_lookup hik
  have hn : n ∈ hdr.names := lookup_mem hlk
  obtain ⟨c, _, hc2, hc3⟩ := cell_of_name hr hlk
  obtain ⟨rows, rfl, hrows⟩ := wsCell_seq hc3
  have happ : applyOne cmp hdr (n, rc) r =
      r.set (hdr.names.idxOf n) (.seq (rows.filter fun ir => refCond cmp keys ir rc)) := by
    simp [applyOne, indexOf?_of_mem hn, hik, hc2]
  have hfe := filterE_ok (evalFilt cmp f) (fun ir => refCond cmp keys ir rc) rows
    (fun ir hir => hf ir (hrows ir hir))
  simp only [evalMap, hc2, hfe, happ]
  rfl

theorem step_cond {cmp : Op → A → A → Bool} {lit : List Char → Option A} {id : Name} {hdr : Hdr}
    {s : Stream A} {st st' : Ref A} {c : Cond}
    (hrel : Rel cmp id hdr s st) (hstep : refStep lit id hdr st (.cond c) = some st') :
    ∃ s', getitem lit s (.cond c) = .ok s' ∧ Rel cmp id hdr s' st' ∧ s'.src = s.src := by
  obtain ⟨hid, hhdr⟩ := hrel.ids
  simp only [refStep] at hstep
  cases hro : resolveOuter lit id hdr c with
  | some rc =>
    simp only [hro, Option.some.injEq] at hstep
    subst hstep
    -- a clause on base columns of the outer sequence: a level-0 filter, identity map in front
    unfold resolveOuter at hro
    cases hres : resolve lit id hdr.names c with
    | none => simp [hres] at hro
    | some rc' =>
      simp only [hres] at hro
      by_cases hbase : (isBase hdr rc'.c1 && rhsBase hdr rc'.rhs) = true
      · simp only [hbase, if_true, Option.some.injEq] at hro
        subst hro
        simp only [Bool.and_eq_true] at hbase
        obtain ⟨hb1, hb2⟩ := hbase
        have hlk1 : hdr.lookup rc'.c1 = some none := by simpa [isBase] using hb1
        obtain ⟨b, hb, hc1, hop, hshape⟩ := rhsOperand_of_resolve hres
        obtain ⟨hid1, hnd⟩ := id1_of_resolve hres
        have htok : splitOnChar '.' (c.id1.drop (id.length + 1)) = [rc'.c1] := by
          rw [hid1, drop_prefix_dot]; exact splitOnChar_no_sep '.' _ hnd
        refine ⟨{ s with ifilter := s.ifilter ++ [.cmp ⟨hdr.names.idxOf rc'.c1, c.op, b⟩],
                         imap := .ident :: s.imap }, ?_, ?_, rfl⟩
        · simp only [getitem, hid, hhdr, buildFilter, htok, indexOf?_of_mem hc1, hb]
          rfl
        · refine ⟨hrel.ids, ?_, ?_, hrel.tmpl, hrel.sl⟩
          · intro r hr
            have hf : evalNFilt cmp (.cmp ⟨hdr.names.idxOf rc'.c1, c.op, b⟩) r =
                .ok (refOCond cmp hdr.names r rc') := by
              obtain ⟨x, hx1, hx2, hx3⟩ := cell_of_name hr hlk1
              obtain ⟨xa, rfl⟩ := wsCell_base hx3
              rcases hshape with ⟨k2, hk2, hr2, rfl⟩ | ⟨v, hr2, rfl⟩
              · rw [hr2] at hb2
                have hlk2 : hdr.lookup k2 = some none := by simpa [rhsBase, isBase] using hb2
                obtain ⟨y, hy1, hy2, hy3⟩ := cell_of_name hr hlk2
                obtain ⟨ya, rfl⟩ := wsCell_base hy3
                simp [evalNFilt, getCell, hx2, hy2, cellCmp, refOCond, hx1, hy1, hr2, hop]
                rfl
              · simp [evalNFilt, getCell, hx2, cellCmp, refOCond, hx1, hr2, hop]
                rfl
            have := evalNFilts_append cmp s.ifilter _ r _ _ (hrel.filt r hr) hf
            show evalNFilts cmp (s.ifilter ++ [_]) r = .ok ((st.oconds ++ [rc']).all (refOCond cmp hdr.names r))
            rw [this, List.all_append]
            simp
          · intro r hr
            obtain ⟨it, h1, h2⟩ := hrel.maps r hr
            refine ⟨it, h1, ?_⟩
            show evalMaps cmp (.ident :: s.imap) (.row r) = _
            simp only [evalMaps, evalMap_ident]
            exact h2
      · simp [hbase] at hro
  | none =>
    simp only [hro] at hstep
    cases hri : resolveInner lit id hdr c with
    | none => simp [hri] at hstep
    | some nc =>
      obtain ⟨n, rc⟩ := nc
      simp only [hri, Option.map, Option.some.injEq] at hstep
      subst hstep
      -- a clause on columns of the nested sequence `n`: `bool` filter and the nested map in front
      unfold resolveInner at hri
      cases hsp : rsplitDot c.id1 with
      | none => simp [hsp] at hri
      | some pp =>
        obtain ⟨p, x⟩ := pp
        simp only [hsp] at hri
        cases hsp2 : rsplitDot p with
        | none => simp [hsp2] at hri
        | some qq =>
          obtain ⟨q, n'⟩ := qq
          simp only [hsp2] at hri
          cases hik : innerKeys hdr n' with
          | none => simp [hik] at hri
          | some keys =>
            simp only [hik] at hri
            by_cases hq : q = id
            · simp only [hq, if_true] at hri
              cases hres : resolve lit p keys c with
              | none => simp [hres] at hri
              | some rc' =>
                simp only [hres, Option.map, Option.some.injEq, Prod.mk.injEq] at hri
                obtain ⟨rfl, rfl⟩ := hri
                obtain ⟨hp, hnd2⟩ := rsplitDot_some _ _ _ hsp2
                subst hq
                obtain ⟨b, hb, hc1, hop, hshape⟩ := rhsOperand_of_resolve hres
                obtain ⟨hid1, hnd⟩ := id1_of_resolve hres
                have hn : n' ∈ hdr.names := lookup_mem (innerKeys_lookup hik)
                have htok : splitOnChar '.' (c.id1.drop (q.length + 1)) = [n', rc'.c1] := by
                  rw [hid1, hp]
                  have : (q ++ '.' :: n') ++ '.' :: rc'.c1 = q ++ '.' :: (n' ++ '.' :: rc'.c1) := by simp
                  rw [this, drop_prefix_dot, splitOnChar_append _ _ _ hnd2, splitOnChar_no_sep _ _ hnd]
                have hf : ∀ ir : List A, ir.length = keys.length →
                    evalFilt cmp ⟨keys.idxOf rc'.c1, c.op, b⟩ ir = .ok (refCond cmp keys ir rc') := by
                  intro ir hir
                  obtain ⟨xv, hx1, hx2⟩ := cellOf_some keys ir hir hc1
                  rcases hshape with ⟨k2, hk2, hr2, rfl⟩ | ⟨v, hr2, rfl⟩
                  · obtain ⟨yv, hy1, hy2⟩ := cellOf_some keys ir hir hk2
                    simp [evalFilt, evalOperand, hx2, hy2, refCond, hx1, hy1, hr2, hop]
                    rfl
                  · simp [evalFilt, evalOperand, hx2, refCond, hx1, hr2, hop]
                    rfl
                refine ⟨{ s with ifilter := s.ifilter ++ [.truthy],
                                 imap := .nest (hdr.names.idxOf n') ⟨keys.idxOf rc'.c1, c.op, b⟩ :: s.imap },
                  ?_, ?_, rfl⟩
                · simp only [getitem, hid, hhdr, buildFilter, htok, indexOf?_of_mem hn, hik,
                    indexOf?_of_mem hc1]
                  rw [← hp, hb]
                  rfl
                · refine ⟨hrel.ids, ?_, ?_, hrel.tmpl, hrel.sl⟩
                  · intro r hr
                    have hne : evalNFilt cmp .truthy r = .ok true := by
                      have hlen := wsRow_length hdr r hr
                      have : 0 < hdr.names.length := List.length_pos_of_mem hn
                      cases r with
                      | nil => simp at hlen; omega
                      | cons _ _ => rfl
                    have := evalNFilts_append cmp s.ifilter _ r _ _ (hrel.filt r hr) hne
                    show evalNFilts cmp (s.ifilter ++ [.truthy]) r = _
                    rw [this]
                    simp
                  · intro r hr
                    -- the map filters the records of `n'` in the source row; the recorded maps then act
                    -- on that row, and the reference's inner filters commute
                    obtain ⟨it, h1, h2⟩ := hrel.maps _ (ws_applyOne cmp hdr (n', rc') r hr)
                    refine ⟨it, ?_, ?_⟩
                    · show refItem hdr (applyInner cmp hdr (st.iconds ++ [(n', rc')]) r) st.layout = _
                      rw [applyInner_append, ← applyInner_comm]
                      exact h1
                    · show evalMaps cmp (_ :: s.imap) (.row r) = _
                      simp only [evalMaps]
                      rw [nest_front cmp hik rc' _ hf r hr]
                      exact h2
            · simp [hq] at hri


theorem step_sim {cmp : Op → A → A → Bool} {lit : List Char → Option A} {id : Name} {hdr : Hdr}
    (hh : wsHdr hdr = true) {s : Stream A} {st st' : Ref A} (k : Key)
    (hrel : Rel cmp id hdr s st) (hstep : refStep lit id hdr st k = some st') :
    ∃ s', getitem lit s k = .ok s' ∧ Rel cmp id hdr s' st' ∧ s'.src = s.src := by
  cases k with
  | str key => exact step_str hh hrel hstep
  | list keys => exact step_list hrel hstep
  | int i =>
    simp only [refStep, Option.some.injEq] at hstep
    subst hstep
    exact ⟨_, rfl, step_slice _ hrel, rfl⟩
  | slice sl =>
    simp only [refStep, Option.some.injEq] at hstep
    subst hstep
    exact ⟨_, rfl, step_slice _ hrel, rfl⟩
  | cond c => exact step_cond hrel hstep

theorem chain_sim {cmp : Op → A → A → Bool} {lit : List Char → Option A} {id : Name} {hdr : Hdr}
    (hh : wsHdr hdr = true) :
    ∀ (ops : List Key) (s : Stream A) (st st' : Ref A), Rel cmp id hdr s st →
      refRun lit id hdr st ops = some st' →
      ∃ s', chain lit s ops = .ok s' ∧ Rel cmp id hdr s' st' ∧ s'.src = s.src
  | [], s, st, st', hrel, h => by
    simp only [refRun, Option.some.injEq] at h
    subst h
    exact ⟨s, rfl, hrel, rfl⟩
  | k :: ks, s, st, st', hrel, h => by
    simp only [refRun] at h
    cases hs : refStep lit id hdr st k with
    | none => simp [hs] at h
    | some st1 =>
      simp only [hs, Option.bind] at h
      obtain ⟨s1, h1, hrel1, hsrc1⟩ := step_sim hh k hrel hs
      obtain ⟨s', h2, hrel', hsrc'⟩ := chain_sim hh ks s1 st1 st' hrel1 h
      refine ⟨s', ?_, hrel', hsrc'.trans hsrc1⟩
      simp only [chain, h1]
      exact h2

/-- iterating a stream that records `st` yields the reference rows of `st` -/
theorem iter_of_rel {cmp : Op → A → A → Bool} {id : Name} {hdr : Hdr} {s : Stream A} {st : Ref A}
    (hrel : Rel cmp id hdr s st) (hsrc : ∀ r ∈ s.src, wsRow hdr r = true) :
    iter cmp s = refEval cmp hdr st s.src := by
  have hf := filterE_ok (evalNFilts cmp s.ifilter) (fun r => st.oconds.all (refOCond cmp hdr.names r)) s.src
    (fun r hr => hrel.filt r (hsrc r hr))
  obtain ⟨items, hi1, hi2⟩ := mapE_of_option (fun r => evalMaps cmp s.imap (.row r))
    (fun r => refItem hdr (applyInner cmp hdr st.iconds r) st.layout) .indexError
    (s.src.filter fun r => st.oconds.all (refOCond cmp hdr.names r))
    (fun r hr => hrel.maps r (hsrc r (List.mem_filter.mp hr).1))
  unfold iter refEval
  rw [hf, hi1]
  show (mapE _ _ >>= fun items => applySlices s.islice items) = _
  rw [hi2, hrel.sl]
  rfl

theorem fixRow_ws : ∀ (hdr : Hdr) (r : List (NCell A)), wsRow hdr r = true →
    fixRow (hdr.map fun p => p.2.map List.length) r = .ok r
  | [], [], _ => rfl
  | [], _ :: _, h => by simp [wsRow] at h
  | _ :: _, [], h => by simp [wsRow] at h
  | (k, kid) :: hdr, c :: cs, h => by
    simp only [wsRow, Bool.and_eq_true] at h
    have ih := fixRow_ws hdr cs h.2
    cases kid with
    | none =>
      simp only [List.map_cons, Option.map_none, fixRow, ih]
      rfl
    | some ks =>
      obtain ⟨rows, rfl, hrows⟩ := wsCell_seq h.1
      have : rows.map (List.take ks.length) = rows := by
        have : ∀ l : List (List A), (∀ ir ∈ l, ir.length = ks.length) → l.map (List.take ks.length) = l := by
          intro l
          induction l with
          | nil => intro _; rfl
          | cons a l ihl =>
            intro hl
            simp only [List.map_cons]
            rw [ihl (fun x hx => hl x (by simp [hx])), List.take_of_length_le (by rw [hl a (by simp)]; exact Nat.le_refl _)]
        exact this rows hrows
      simp only [List.map_cons, Option.map_some, fixRow, ih, this]
      rfl

/-- a freshly built stream over a well-shaped table records the empty program -/
theorem rel_init (cmp : Op → A → A → Bool) (id : Name) (hdr : Hdr) (hh : wsHdr hdr = true)
    (src : List (List (NCell A))) :
    Rel cmp id hdr (mkIterData src id hdr) ⟨[], [], .table hdr.names, []⟩ := by
  have hnd := wsHdr_names hh
  refine ⟨⟨rfl, rfl⟩, fun r _ => rfl, ?_, ⟨rfl, rfl, fun k hk => hk⟩, rfl⟩
  intro r hr
  refine ⟨.row r, ?_, ?_⟩
  · simp [refItem, applyInner, mapM_cellOf_self hdr.names hnd r (wsRow_length hdr r hr)]
  · show evalMaps cmp [.fixNested _] (.row r) = _
    simp [evalMaps, evalMap, fixRow_ws hdr r hr]
    rfl

end Pydap.IterNest
