/-
  Lemmas for the DAP4 index request (`PydapModel/Dap4Index.lean`): composing with the default slice.
-/
import PydapModel.Dap4Index
import Proofs.Slice
import Proofs.Hyperslab
namespace Pydap.Dap4Index
open Pydap

theorem nonNeg_all : NonNegSl PSlice.all := by
  constructor <;> (intro a h; simp [PSlice.all] at h)

theorem sel_all (N : Nat) : sel N PSlice.all = List.range' 0 N 1 := by
  simp [sel, PSlice.all, npBound]

theorem map_some_inj {α} (a b : List α) (h : a.map some = b.map some) : a = b := by
  induction a generalizing b with
  | nil => cases b <;> simp_all
  | cons x xs ih =>
    cases b with
    | nil => simp at h
    | cons y ys =>
      simp only [List.map_cons, List.cons.injEq, Option.some.injEq] at h
      rw [h.1, ih ys h.2]

/-- composing with the proxy's default slice (the whole axis) selects the same positions -/
theorem combine_all_sel (N : Nat) (s : PSlice) (h : NonNegSl s) :
    sel N (combine1 PSlice.all s) = sel N s := by
  have hc := combine1_sel N PSlice.all s nonNeg_all h
  rw [sel_all] at hc
  simp only [List.length_range'] at hc
  have hlt : ∀ x ∈ sel N s, x < N := by
    intro x hx
    have := (mem_sel_iff N s h x).mp hx
    omega
  have : (sel N s).map (fun j => (List.range' 0 N 1)[j]?) = (sel N s).map some := by
    apply List.map_congr_left
    intro j hj
    have := hlt j hj
    simp [List.getElem?_range', this]
  rw [this] at hc
  exact map_some_inj _ _ hc

end Pydap.Dap4Index

namespace Pydap.Dap4Index
open Pydap Pydap.Dap4

theorem combine_zipFix (l : List Idx) (shape : List Nat) (h : l.length = shape.length) :
    combine (shape.map fun _ => Idx.sl PSlice.all) (zipFix l shape)
      = List.zipWith (fun (N : Nat) e => combine1 PSlice.all (toSlice (fixAxis N e))) shape l := by
  induction l generalizing shape with
  | nil => cases shape <;> simp_all [zipFix, combine]
  | cons x xs ih =>
    cases shape with
    | nil => simp at h
    | cons n ns =>
      simp only [List.map_cons, zipFix, combine, List.zipWith_cons_cons]
      rw [ih ns (by simpa using h)]
      rfl
end Pydap.Dap4Index

namespace Pydap.Dap4Index
open Pydap

theorem sel_point (N m : Nat) (h : m < N) : sel N ⟨some (m : Int), some ((m : Int) + 1), none⟩ = [m] := by
  simp only [sel, npBound, Option.getD_none]
  have h1 : ¬ ((m : Int) < 0) := by omega
  have h2 : ¬ ((m : Int) + 1 < 0) := by omega
  simp only [h1, h2, if_false]
  have e1 : (min (m : Int) N).toNat = m := by omega
  have e2 : (min ((m : Int) + 1) N).toNat = m + 1 := by omega
  simp [e1, e2]

end Pydap.Dap4Index
