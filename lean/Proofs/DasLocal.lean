import Proofs.DasDict
/-! Locality of the nested-id lookup of `add_attributes` (C08): a step on the id `k.p'` works inside the
    container `attributes[k]`. -/
namespace Pydap.Das

/-- the loop with the nested half only (used below the top level, where the flat lookup misses) -/
def nestedAll : Dict → List (List Text) → Except AErr (Dict × List (List Text × Dict))
  | A, [] => .ok (A, [])
  | A, p :: ps =>
    match nestedStep A p [] with
    | .error e => .error e
    | .ok (A1, va) =>
      match nestedAll A1 ps with
      | .error e => .error e
      | .ok (A2, out) => .ok (A2, (p, va) :: out)

theorem reduceGet_cons (A N : Dict) (k : Text) (r : List Text) (h : dget A k = some (.dict N)) :
    reduceGet (.dict A) (k :: r) = reduceGet (.dict N) r := by
  simp [reduceGet, getItem, h]

theorem setNested_cons (A N : Dict) (k : Text) (r : List Text) (new : Dict) (h : dget A k = some (.dict N)) :
    setNested A (k :: r) new = dset A k (.dict (setNested N r new)) := by
  simp [setNested, h]

theorem nestedStep_local (A N : Dict) (k q : Text) (qs : List Text) (va : Dict)
    (h : dget A k = some (.dict N)) :
    nestedStep A (k :: q :: qs) va =
      match nestedStep N (q :: qs) va with
      | .ok (N', d) => .ok (dset A k (.dict N'), d)
      | .error e => .error e := by
  have hself := dset_of_get A k (.dict N) h
  unfold nestedStep
  have e1 : (k :: q :: qs).getLast? = (q :: qs).getLast? := by simp [List.getLast?_cons_cons]
  have e2 : (k :: q :: qs).dropLast = k :: (q :: qs).dropLast := by simp [List.dropLast]
  rw [e1, e2, reduceGet_cons A N k _ h]
  cases hl : (q :: qs).getLast? with
  | none => simp [hself]
  | some kk =>
    simp only
    cases hr : reduceGet (.dict N) (q :: qs).dropLast with
    | error e => simp [hself]
    | ok x =>
      cases x with
      | sc y => simp [hself]
      | list y => simp [hself]
      | dict nested =>
        simp only
        cases hg : dget nested kk with
        | none => simp [hself]
        | some value =>
          cases value with
          | sc y => simp [hself]
          | list y => simp [hself]
          | dict e => simp [setNested_cons A N k _ _ h]

theorem nestedAll_local (ps : List (List Text)) : ∀ (A N : Dict) (k : Text),
    (∀ p ∈ ps, p ≠ []) → dget A k = some (.dict N) →
    nestedAll A (ps.map (k :: ·)) =
      match nestedAll N ps with
      | .ok (N', out) => .ok (dset A k (.dict N'), out.map fun pd => (k :: pd.1, pd.2))
      | .error e => .error e := by
  induction ps with
  | nil => intro A N k _ h; simp [nestedAll, dset_of_get A k _ h]
  | cons p ps ih =>
    intro A N k hne h
    have hp : p ≠ [] := hne p (by simp)
    obtain ⟨q, qs, rfl⟩ : ∃ q qs, p = q :: qs := by
      cases p with
      | nil => exact absurd rfl hp
      | cons q qs => exact ⟨q, qs, rfl⟩
    simp only [List.map_cons, nestedAll]
    rw [nestedStep_local A N k q qs [] h]
    cases hs : nestedStep N (q :: qs) [] with
    | error e => simp
    | ok r =>
      obtain ⟨N1, va⟩ := r
      simp only
      have h1 : dget (dset A k (.dict N1)) k = some (.dict N1) := dget_dset_self A k _
      rw [ih (dset A k (.dict N1)) N1 k (fun p hp => hne p (by simp [hp])) h1]
      cases hr : nestedAll N1 ps with
      | error e => simp
      | ok r2 =>
        obtain ⟨N2, out⟩ := r2
        simp [dset_dset]

end Pydap.Das
