import Proofs.DasProc
/-! The top level of `add_attributes`: flat-id lookup for top-level variables, globals (C08). -/
namespace Pydap.Das

def NoDot (ks : List Text) : Prop := ∀ k ∈ ks, '.' ∉ k

theorem dotted_has_dot (k q : Text) (qs : List Text) : '.' ∈ dotted (k :: q :: qs) := by
  simp [dotted]

theorem mem_keys_of_dget (A : Dict) (k : Text) (v : AVal) (h : dget A k = some v) : k ∈ keys A := by
  induction A with
  | nil => simp [dget_nil] at h
  | cons kv rest ih =>
    rw [dget_cons] at h
    by_cases hk : k = kv.1
    · simp [keys, hk]
    · rw [if_neg hk] at h; simp [keys, List.mem_cons]; right; simpa [keys] using ih h

theorem keys_dset_mem (A : Dict) (k : Text) (v : AVal) (h : k ∈ keys A) : keys (dset A k v) = keys A := by
  induction A with
  | nil => simp [keys] at h
  | cons kv rest ih =>
    rw [dset_cons]
    by_cases hk : kv.1 = k
    · rw [if_pos hk]; simp [keys]
    · rw [if_neg hk]
      have : k ∈ keys rest := by
        simp only [keys, List.map_cons, List.mem_cons] at h
        rcases h with h | h
        · exact absurd h.symm hk
        · exact h
      simp only [keys, List.map_cons] at ih ⊢
      rw [ih this]

theorem attachAll_append (ps qs : List (List Text)) : ∀ A : Dict,
    attachAll A (ps ++ qs) =
      match attachAll A ps with
      | .error e => .error e
      | .ok (A1, o1) =>
        match attachAll A1 qs with
        | .error e => .error e
        | .ok (A2, o2) => .ok (A2, o1 ++ o2) := by
  induction ps with
  | nil =>
    intro A
    simp only [List.nil_append, attachAll]
    cases attachAll A qs with
    | error e => rfl
    | ok r => rfl
  | cons p ps ih =>
    intro A
    simp only [List.cons_append, attachAll]
    cases attachStep A p [] with
    | error e => rfl
    | ok r =>
      obtain ⟨A1, va⟩ := r
      simp only [ih A1]
      cases attachAll A1 ps with
      | error e => rfl
      | ok r1 =>
        obtain ⟨A2, o1⟩ := r1
        simp only
        cases attachAll A2 qs with
        | error e => rfl
        | ok r2 => rfl

/-- below a top-level variable `k` every id contains a dot, so the flat lookup misses and the loop is
    the nested one -/
theorem attachAll_deep (ps : List (List Text)) : ∀ (A N : Dict) (k : Text),
    dget A k = some (.dict N) → NoDot (keys A) → (∀ p ∈ ps, p ≠ []) →
    attachAll A (ps.map (k :: ·)) = nestedAll A (ps.map (k :: ·)) := by
  induction ps with
  | nil => intro A N k _ _ _; simp [attachAll, nestedAll]
  | cons p ps ih =>
    intro A N k h hnd hne
    obtain ⟨q, qs, rfl⟩ : ∃ q qs, p = q :: qs := by
      cases p with
      | nil => exact absurd rfl (hne [] (by simp))
      | cons q qs => exact ⟨q, qs, rfl⟩
    have hmiss : dget A (dotted (k :: q :: qs)) = none :=
      dget_none_of_not_mem A _ (fun hm => hnd _ hm (dotted_has_dot k q qs))
    have hstep : attachStep A (k :: q :: qs) [] = nestedStep A (k :: q :: qs) [] := by
      simp [attachStep, hmiss]
    simp only [List.map_cons, attachAll, nestedAll, hstep]
    rw [nestedStep_local A N k q qs [] h]
    cases nestedStep N (q :: qs) [] with
    | error e => rfl
    | ok r =>
      obtain ⟨N1, va⟩ := r
      simp only
      have hk := mem_keys_of_dget A k _ h
      rw [ih (dset A k (.dict N1)) N1 k (dget_dset_self A k _)
        (by rw [keys_dset_mem A k _ hk]; exact hnd) (fun p hp => hne p (by simp [hp]))]
      cases nestedAll (dset A k (.dict N1)) (ps.map (k :: ·)) with
      | error e => rfl
      | ok r2 => rfl

/-- a top-level variable's own step: the flat lookup pops its container -/
theorem top_own_step (B S : Dict) (n : Text) (hn : n ∉ keys B) (hS : (keys S).Nodup) :
    attachStep (B ++ [(n, .dict S)]) [n] [] = .ok (B, S) := by
  have h1 := dget_last B n (.dict S) hn
  have h2 : dupdate [] S = S := by simpa using dupdate_nodup S [] (by simpa using hS)
  have h3 := dget_none_of_not_mem B n hn
  simp [attachStep, dotted, h1, h2, derase_append_single B n _ hn, nestedStep, reduceGet, h3]

theorem top_container_steps (B S M : Dict) (n : Text) (ps : List (List Text)) (out : List (List Text × Dict))
    (hn : n ∉ keys B) (hd : NoDot (keys B ++ [n])) (hS : (keys S).Nodup) (hne : ∀ p ∈ ps, p ≠ [])
    (hM : nestedAll M ps = .ok (S, out)) :
    attachAll (B ++ [(n, .dict M)]) (ps.map (n :: ·) ++ [[n]]) = .ok (B, out.map (pre n) ++ [([n], S)]) := by
  have hget := dget_last B n (.dict M) hn
  rw [attachAll_append, attachAll_deep ps _ M n hget (by simpa [keys_append, keys] using hd) hne,
    nestedAll_local ps _ M n hne hget, hM]
  simp only [dset_last B n _ _ hn]
  simp [attachAll, top_own_step B S n hn hS, pre]

/-- what happens inside a variable's own container, for every kind of variable -/
theorem inner_var (v : Var) (hg : VarG v) : ∃ (M S : Dict) (ps : List (List Text)) (out : List (List Text × Dict)),
    (walkVar [] v).reverse = ps.map (v.name :: ·) ++ [[v.name]] ∧ varEntry v = (v.name, .dict M) ∧
    nestedAll M ps = .ok (S, out) ∧ expectVar v = out.map (pre v.name) ++ [([v.name], S)] ∧
    (keys S).Nodup ∧ (∀ p ∈ ps, p ≠ []) := by
  obtain ⟨k, n, a, cs⟩ := v
  cases k with
  | struct =>
    simp only [VarG] at hg
    have hnd := nodup_sort_append a _ hg.2
    exact ⟨_, sortKeys a, _, _, walkVar_nil _ n a cs, rfl, proc_vars cs (sortKeys a) hg.1 hnd, rfl,
      (List.nodup_append.mp hnd).1, fun p hp => walkVars_ne cs p (List.mem_reverse.mp hp)⟩
  | seq =>
    simp only [VarG] at hg
    have hnd := nodup_sort_append a _ hg.2
    exact ⟨_, sortKeys a, _, _, walkVar_nil _ n a cs, rfl, proc_vars cs (sortKeys a) hg.1 hnd, rfl,
      (List.nodup_append.mp hnd).1, fun p hp => walkVars_ne cs p (List.mem_reverse.mp hp)⟩
  | base =>
    simp only [VarG] at hg
    obtain ⟨hnd, rfl⟩ := hg
    exact ⟨sortKeys a, sortKeys a, [], [], by simp [walkVar, walkVars, Var.name], rfl, by simp [nestedAll],
      by simp [expectVar, Var.name], nodup_keys_sort a hnd, by simp⟩
  | grid =>
    simp only [VarG] at hg
    have hmem : ∀ m ∈ cs.reverse, ∀ e, dget (sortKeys a) m.name ≠ some (.dict e) := by
      intro m hm e
      rw [dget_sortKeys a hg.1]
      exact (hg.2 m (List.mem_reverse.mp hm)).2 e
    refine ⟨sortKeys a, sortKeys a, cs.reverse.map (fun m => [m.name]), _, ?_, rfl,
      members_step (sortKeys a) cs.reverse hmem, ?_, nodup_keys_sort a hg.1, ?_⟩
    · rw [walkVar_nil, walk_leaves cs (fun m hm => (hg.2 m hm).1)]; simp [List.map_reverse, Var.name]
    · simp [expectVar, List.map_map, Function.comp_def, pre, Var.name]
    · intro p hp; simp only [List.mem_map] at hp; obtain ⟨m, _, rfl⟩ := hp; simp

theorem top_var (v : Var) (B : Dict) (hg : VarG v) (hn : v.name ∉ keys B) (hd : NoDot (keys B ++ [v.name])) :
    attachAll (B ++ [varEntry v]) ((walkVar [] v).reverse) = .ok (B, expectVar v) := by
  obtain ⟨M, S, ps, out, h1, h2, h3, h4, h5, h6⟩ := inner_var v hg
  rw [h1, h2, h4]
  exact top_container_steps B S M v.name ps out hn hd h5 h6 h3

theorem top_vars : (cs : List Var) → (B : Dict) → VarsG cs → (keys B ++ cs.map Var.name).Nodup →
    NoDot (keys B ++ cs.map Var.name) →
    attachAll (B ++ varsEntries cs) ((walkVars [] cs).reverse) = .ok (B, expectVars cs)
  | [], B, _, _, _ => by simp [walkVars, varsEntries, attachAll, expectVars]
  | v :: rest, B, hg, hnd, hdot => by
    simp only [VarsG] at hg
    have hnd' : (keys (B ++ [varEntry v]) ++ rest.map Var.name).Nodup := by
      simpa [keys_append, keys, varEntry_name, List.append_assoc] using hnd
    have hdot' : NoDot (keys (B ++ [varEntry v]) ++ rest.map Var.name) := by
      simpa [keys_append, keys, varEntry_name, List.append_assoc] using hdot
    have hv : v.name ∉ keys B := by
      have := (List.nodup_append.mp hnd).2.2
      intro hmem
      exact this _ hmem _ (by simp) rfl
    have hdv : NoDot (keys B ++ [v.name]) := by
      intro k hk
      exact hdot k (by simp only [List.mem_append, List.mem_cons, List.map_cons] at hk ⊢; rcases hk with h | h | h <;> simp_all)
    have e : B ++ varsEntries (v :: rest) = (B ++ [varEntry v]) ++ varsEntries rest := by
      simp [varsEntries]
    simp only [walkVars, List.reverse_append, expectVars]
    rw [attachAll_append, e, top_vars rest (B ++ [varEntry v]) hg.2 hnd' hdot']
    simp only
    rw [top_var v B hg.1 hv hdv]

end Pydap.Das
