/-
  Lemmas behind C04: both backends compute the by-name reference.
-/
import PydapModel.Seq
import PydapModel.CE
import Proofs.IterDataSim
namespace Pydap.Seq
open Pydap Pydap.IterData

variable {A : Type}

/-! ### clause text -/

open Pydap.CE in
theorem opAt_none_of_not_opChar (c : Char) (cs : List Char) (h : isOpChar c = false) :
    opAt (c :: cs) = none := by
  simp only [isOpChar, Bool.or_eq_false_iff, decide_eq_false_iff_not] at h
  obtain ⟨⟨⟨h1, h2⟩, h3⟩, h4⟩ := h
  unfold opAt
  split <;> simp_all

open Pydap.CE in
theorem splitClause_render (a : List Char) (o : OpTok) (r : List Char)
    (ha : ∀ c ∈ a, isOpChar c = false)
    (hr : ∀ c r', r = c :: r' → c ≠ '=' ∧ c ≠ '~') :
    splitClause (a ++ opText o ++ r) = some (a, o, r) := by
  induction a with
  | nil =>
    cases o <;> cases r with
    | nil => simp [opText, splitClause, opAt]
    | cons c r' =>
      obtain ⟨h1, h2⟩ := hr c r' rfl
      simp [opText, splitClause, opAt, h1, h2]
  | cons c cs ih =>
    have hc := ha c (by simp)
    have := ih (fun x hx => ha x (by simp [hx]))
    simp only [List.cons_append, List.append_assoc] at this ⊢
    simp only [splitClause, opAt_none_of_not_opChar c _ hc, this, Option.map]

/-! ### numpy backend -/

theorem rsplitDot_none_no_dot : ∀ (l : List Char), rsplitDot l = none → ∀ c ∈ l, c ≠ '.' := by
  intro l
  induction l with
  | nil => intro _ c hc; simp at hc
  | cons d ds ih =>
    intro hn c hc
    unfold rsplitDot at hn
    cases hd : rsplitDot ds with
    | some p => simp [hd] at hn
    | none =>
      simp [hd] at hn
      rcases List.mem_cons.mp hc with rfl | hc'
      · exact hn
      · exact ih hd c hc'

/-- what `parse_selection` reads from a clause the by-name meaning resolves -/
theorem operand_of_resolve {lit : List Char → Option A} {id : Name} {names : List Name} {c : Cond} {rc : RCond A}
    (hid : id ∉ names) (hne : [] ∉ names) (h : resolve lit id names c = some rc) :
    relevant id c = true ∧ operand lit id names c.id1 = some (.name rc.c1)
      ∧ operand lit id names c.id2 = some rc.rhs ∧ rc.op = c.op := by
  unfold resolve at h
  cases hsp : rsplitDot c.id1 with
  | none => simp [hsp] at h
  | some p =>
    obtain ⟨p1, c1⟩ := p
    simp only [hsp] at h
    by_cases hp : p1 = id ∧ c1 ∈ names
    · obtain ⟨rfl, hc1⟩ := hp
      simp only [hc1, and_self, if_true] at h
      have hc1ne : c1 ≠ [] := fun e => hne (e ▸ hc1)
      have hrel : relevant p1 c = true := by
        cases c1 with
        | nil => exact absurd rfl hc1ne
        | cons _ _ => simp [relevant, hsp]
      have hop1 : operand lit p1 names c.id1 = some (.name c1) := by simp [operand, hsp, hc1]
      by_cases h2 : rsplitHead c.id2 = p1
      · simp only [h2, if_true] at h
        by_cases hm : lastTok c.id2 ∈ names
        · simp only [hm, if_true, Option.some.injEq] at h
          subst h
          refine ⟨hrel, hop1, ?_, rfl⟩
          cases hs2 : rsplitDot c.id2 with
          | none =>
            exfalso
            have e1 : c.id2 = p1 := by simpa [rsplitHead, hs2] using h2
            have e2 : lastTok c.id2 = c.id2 := by simp [lastTok, hs2]
            rw [e2, e1] at hm
            exact hid hm
          | some q =>
            obtain ⟨p2, c2⟩ := q
            simp [rsplitHead, hs2] at h2
            simp [lastTok, hs2] at hm ⊢
            simp [operand, hs2, h2, hm]
        · simp [hm] at h
      · simp only [h2, if_false] at h
        cases hlit : lit c.id2 with
        | none => simp [hlit] at h
        | some v =>
          simp [hlit] at h
          subst h
          refine ⟨hrel, hop1, ?_, rfl⟩
          cases hs2 : rsplitDot c.id2 with
          | none => simp [operand, hs2, hlit]
          | some q =>
            obtain ⟨p2, c2⟩ := q
            simp [rsplitHead, hs2] at h2
            simp [operand, hs2, h2, hlit]
    · simp [hp] at h

theorem selectNumpy_resolved {cmp : Op → A → A → Bool} {lit : List Char → Option A} {id : Name} {names : List Name}
    (hid : id ∉ names) (hne : [] ∉ names) :
    ∀ (cs : List Cond) (rcs : List (RCond A)) (rows : List (List A)),
      cs.mapM (resolve lit id names) = some rcs →
      selectNumpy cmp lit id names rows cs = .ok (rows.filter fun r => rcs.all (refCond cmp names r))
  | [], rcs, rows, h => by
    simp at h; subst h
    simp only [selectNumpy, List.all_nil]
    congr 1
    induction rows with
    | nil => rfl
    | cons r rs ih => simp [List.filter]; exact ih
  | c :: cs, rcs, rows, h => by
    rw [List.mapM_cons] at h
    cases hc : resolve lit id names c with
    | none => simp [hc] at h
    | some rc =>
      cases hr : cs.mapM (resolve lit id names) with
      | none => simp [hc, hr] at h
      | some rest =>
        simp [hc, hr] at h
        subst h
        obtain ⟨h1, h2, h3, h4⟩ := operand_of_resolve hid hne hc
        simp only [selectNumpy, h1, if_true, h2, h3]
        rw [selectNumpy_resolved hid hne cs rest _ hr, List.filter_filter]
        have : (⟨rc.c1, c.op, rc.rhs⟩ : RCond A) = rc := by
          cases rc; simp_all
        rw [this]
        congr 1
        apply List.filter_congr
        intro r _
        simp [Bool.and_comm]

/-! ### lazy backends -/

theorem refRun_append {lit : List Char → Option A} {id : Name} {all : List Name} :
    ∀ (a b : List Key) (st : Ref A),
      refRun lit id all st (a ++ b) = (refRun lit id all st a).bind fun st' => refRun lit id all st' b
  | [], b, st => rfl
  | k :: a, b, st => by
    simp only [List.cons_append, refRun]
    cases refStep lit id all st k with
    | none => rfl
    | some st1 => exact refRun_append a b st1

theorem refRun_conds {lit : List Char → Option A} {id : Name} {all : List Name} :
    ∀ (cs : List Cond) (rcs : List (RCond A)) (st : Ref A) (vs : List Name), st.layout = .table vs →
      cs.mapM (resolve lit id all) = some rcs →
      refRun lit id all st (cs.map Key.cond) = some { st with conds := st.conds ++ rcs }
  | [], rcs, st, vs, _, h => by
    simp at h; subst h
    simp [refRun]
  | c :: cs, rcs, st, vs, hl, h => by
    rw [List.mapM_cons] at h
    cases hc : resolve lit id all c with
    | none => simp [hc] at h
    | some rc =>
      cases hr : cs.mapM (resolve lit id all) with
      | none => simp [hc, hr] at h
      | some rest =>
        simp [hc, hr] at h
        subst h
        simp only [List.map_cons, refRun, refStep, hl, hc, Option.map, Option.bind]
        have := refRun_conds cs rest { st with conds := st.conds ++ [rc] } vs hl hr
        simp only [hl] at this
        rw [this]
        simp

end Pydap.Seq
