/-
  C02 — one statement for every basic index: an index tuple with at most one Ellipsis, split at its first Ellipsis.
  `npExpandIdx` is numpy's expansion of such a tuple to one entry per axis (defined through C03's `npExpand`).
-/
import Proofs.Subset
import Proofs.EndToEnd
import Proofs.EndToEndGrid
import PydapModel.Handler
namespace Pydap
open Pydap

/-- split an index tuple at its first `Ellipsis`: what precedes it, and (if there is one) what follows it -/
def splitEll : List Idx → List Idx × Option (List Idx)
  | [] => ([], none)
  | Idx.ell :: rest => ([], some rest)
  | x :: rest => (x :: (splitEll rest).1, (splitEll rest).2)

/-- numpy accepts the tuple as a basic index: at most one `Ellipsis` (a second one is `IndexError`) -/
def AtMostOneEll (idx : List Idx) : Prop := ∀ b, (splitEll idx).2 = some b → NoEll b

/-- the number of axes the tuple addresses explicitly (its entries other than the `Ellipsis`) -/
def explicitAxes (idx : List Idx) : Nat :=
  (splitEll idx).1.length + (match (splitEll idx).2 with | none => 0 | some b => b.length)

/-- numpy's expansion of a basic index to one entry per axis of a rank-`rank` array -/
def npExpandIdx (idx : List Idx) (rank : Nat) : List Idx := npExpand (splitEll idx).1 (splitEll idx).2 rank

theorem splitEll_noEll_fst (idx : List Idx) : NoEll (splitEll idx).1 := by
  induction idx with
  | nil => intro x hx; cases hx
  | cons y ys ih =>
    cases y with
    | ell => intro x hx; simp [splitEll] at hx
    | int i =>
      intro x hx
      simp only [splitEll, List.mem_cons] at hx
      rcases hx with rfl | hx
      · simp
      · exact ih x hx
    | sl s =>
      intro x hx
      simp only [splitEll, List.mem_cons] at hx
      rcases hx with rfl | hx
      · simp
      · exact ih x hx

theorem splitEll_eq (idx : List Idx) :
    idx = (match (splitEll idx).2 with
      | none => (splitEll idx).1
      | some b => (splitEll idx).1 ++ Idx.ell :: b) := by
  induction idx with
  | nil => rfl
  | cons y ys ih =>
    cases y with
    | ell => simp [splitEll]
    | int i =>
      simp only [splitEll]
      cases h : (splitEll ys).2 with
      | none => rw [h] at ih; simp only at ih ⊢; rw [← ih]
      | some b => rw [h] at ih; simp only [List.cons_append] at ih ⊢; rw [← ih]
    | sl s =>
      simp only [splitEll]
      cases h : (splitEll ys).2 with
      | none => rw [h] at ih; simp only at ih ⊢; rw [← ih]
      | some b => rw [h] at ih; simp only [List.cons_append] at ih ⊢; rw [← ih]

/-- case analysis for the composed theorems: a basic index is a tuple without Ellipsis or `a ++ … :: b` -/
theorem basic_cases (idx : List Idx) (h1 : AtMostOneEll idx) :
    ((splitEll idx).2 = none ∧ idx = (splitEll idx).1 ∧ NoEll idx ∧ explicitAxes idx = idx.length) ∨
    (∃ a b, splitEll idx = (a, some b) ∧ idx = a ++ Idx.ell :: b ∧ NoEll a ∧ NoEll b ∧
      explicitAxes idx = a.length + b.length) := by
  have he := splitEll_eq idx
  have hn := splitEll_noEll_fst idx
  cases h : (splitEll idx).2 with
  | none =>
    rw [h] at he
    simp only at he
    refine Or.inl ⟨rfl, he, ?_, ?_⟩
    · rw [he]; exact hn
    · simp only [explicitAxes, h]; rw [← he]; simp
  | some b =>
    rw [h] at he
    simp only at he
    refine Or.inr ⟨(splitEll idx).1, b, ?_, he, hn, h1 b h, ?_⟩
    · rw [← h]
    · simp only [explicitAxes, h]

/-! ### the server's guard `check_hyperslab` (fix 153ff3f; `Handler.validSl`, C15) accepts every request of the domain -/

/-- a printable request slice with a non-empty selection passes the server's `check_hyperslab` -/
theorem validSl_of_sel_ne_nil (N : Nat) (r : PSlice) (hn : NormSl r) (hne : sel N r ≠ []) :
    Handler.validSl N r = true := by
  obtain ⟨a, b, k, rfl, ha, hb, hk⟩ := hn
  simp only [Handler.validSl, Option.getD_some, decide_eq_true_eq]
  have hlen : (sel N ⟨some a, some b, some k⟩).length ≠ 0 := by
    intro h; exact hne (List.length_eq_zero_iff.mp h)
  simp only [sel, npBound, Option.getD_some, List.length_range'] at hlen
  have ha' : ¬ a < 0 := by omega
  have hb' : ¬ b < 0 := by omega
  simp only [ha', hb', if_false] at hlen
  have hk0 : 0 < k.toNat := by omega
  have : (min a ↑N).toNat < (min b ↑N).toNat := by
    by_contra hc
    have h0 : (min b ↑N).toNat - (min a ↑N).toNat = 0 := by omega
    apply hlen
    rw [h0]
    apply Nat.div_eq_of_lt
    omega
  refine ⟨ha, Or.inl ?_, ?_, hk⟩ <;> omega

theorem request_accepted (N : Nat) (p : PSlice) (hp : NonNegSl p) (e : Idx)
    (he : ValidIdx (sel N p).length e) : Handler.validSl N (reqAxis N p e) = true := by
  obtain ⟨hn, law⟩ := axis_law N p hp e he
  apply validSl_of_sel_ne_nil N _ hn
  intro h0
  have : (axisSel (sel N p).length e).map (fun j => (sel N p)[j]?) = [] := by
    have := law; rw [h0] at this; simpa [axisSpec] using this.symm
  exact axisSel_ne_nil _ e he (by simpa using this)

/-- every axis of the request passes `check_hyperslab` on the source axis it addresses, and the request has one
    slice per axis (never more indices than dimensions) -/
theorem request_list_accepted (shape : List Nat) (P : List PSlice) (E : List Idx) (hv : ValidList shape P E) :
    ∀ (j : Nat) (hj : j < shape.length), ∃ r, (reqList shape P E)[j]? = some r ∧ Handler.validSl shape[j] r = true := by
  intro j hj
  have hlen := validList_length hv
  have hg := E2E.validList_getElem shape P E hv j hj (by rw [hlen.1]; exact hj) (by rw [hlen.2]; exact hj)
  exact ⟨_, reqList_getElem shape P E hv j hj, request_accepted _ _ hg.1 _ hg.2⟩

end Pydap
