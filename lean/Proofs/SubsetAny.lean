/-
  C02 — one statement for every basic index: an index tuple with at most one Ellipsis, split at its first Ellipsis.
  `npExpandIdx` is numpy's expansion of such a tuple to one entry per axis (defined through C03's `npExpand`).
-/
import Proofs.Subset
import Proofs.EndToEnd
namespace Pydap
open Pydap

/-- split an index tuple at its first `Ellipsis`: what precedes it, and (if there is one) what follows it -/
def splitEll : List Idx → List Idx × Option (List Idx)
  | [] => ([], none)
  | Idx.ell :: rest => ([], some rest)
  | x :: rest => (x :: (splitEll rest).1, (splitEll rest).2)

/-- numpy accepts the tuple as a basic index: at most one `Ellipsis` (a second one is `IndexError`) -/
def AtMostOneEll (idx : List Idx) : Prop := ∀ b, (splitEll idx).2 = some b → NoEll b

/-- the number of axes the tuple addresses explicitly (its entries other than the `Ellipsis`) -/
def explicitAxes (idx : List Idx) : Nat :=
  (splitEll idx).1.length + (match (splitEll idx).2 with | none => 0 | some b => b.length)

/-- numpy's expansion of a basic index to one entry per axis of a rank-`rank` array -/
def npExpandIdx (idx : List Idx) (rank : Nat) : List Idx := npExpand (splitEll idx).1 (splitEll idx).2 rank

theorem splitEll_noEll_fst (idx : List Idx) : NoEll (splitEll idx).1 := by
  induction idx with
  | nil => intro x hx; cases hx
  | cons y ys ih =>
    cases y with
    | ell => intro x hx; simp [splitEll] at hx
    | int i =>
      intro x hx
      simp only [splitEll, List.mem_cons] at hx
      rcases hx with rfl | hx
      · simp
      · exact ih x hx
    | sl s =>
      intro x hx
      simp only [splitEll, List.mem_cons] at hx
      rcases hx with rfl | hx
      · simp
      · exact ih x hx

theorem splitEll_eq (idx : List Idx) :
    idx = (match (splitEll idx).2 with
      | none => (splitEll idx).1
      | some b => (splitEll idx).1 ++ Idx.ell :: b) := by
  induction idx with
  | nil => rfl
  | cons y ys ih =>
    cases y with
    | ell => simp [splitEll]
    | int i =>
      simp only [splitEll]
      cases h : (splitEll ys).2 with
      | none => rw [h] at ih; simp only at ih ⊢; rw [← ih]
      | some b => rw [h] at ih; simp only [List.cons_append] at ih ⊢; rw [← ih]
    | sl s =>
      simp only [splitEll]
      cases h : (splitEll ys).2 with
      | none => rw [h] at ih; simp only at ih ⊢; rw [← ih]
      | some b => rw [h] at ih; simp only [List.cons_append] at ih ⊢; rw [← ih]

/-- case analysis for the composed theorems: a basic index is a tuple without Ellipsis or `a ++ … :: b` -/
theorem basic_cases (idx : List Idx) (h1 : AtMostOneEll idx) :
    ((splitEll idx).2 = none ∧ idx = (splitEll idx).1 ∧ NoEll idx ∧ explicitAxes idx = idx.length) ∨
    (∃ a b, splitEll idx = (a, some b) ∧ idx = a ++ Idx.ell :: b ∧ NoEll a ∧ NoEll b ∧
      explicitAxes idx = a.length + b.length) := by
  have he := splitEll_eq idx
  have hn := splitEll_noEll_fst idx
  cases h : (splitEll idx).2 with
  | none =>
    rw [h] at he
    simp only at he
    refine Or.inl ⟨rfl, he, ?_, ?_⟩
    · rw [he]; exact hn
    · simp only [explicitAxes, h]; rw [← he]; simp
  | some b =>
    rw [h] at he
    simp only at he
    refine Or.inr ⟨(splitEll idx).1, b, ?_, he, hn, h1 b h, ?_⟩
    · rw [← h]
    · simp only [explicitAxes, h]

end Pydap
