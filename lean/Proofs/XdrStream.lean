/-
  C01/C05: the interaction tree `decD` (PydapModel/XdrStream.lean) run against the strict `BytesReader` *is*
  the decoder model `dec` of PydapModel/Xdr.lean (errors renamed by `errMap`).  With C09's generic theorems
  about read-only decoders (`run_sim`: a `StreamReader` over any chunking = a `BytesReader` over the
  concatenation) this makes every streaming path of the client a function of the concatenated bytes.
-/
import PydapModel.XdrStream
import Proofs.Stream
import Proofs.StreamSeq
import Proofs.StreamFind
import Proofs.StreamClient
import Proofs.XdrDec
namespace Pydap.Xdr
open Pydap.Stream (Dec SR)

/-- a result of the `Bytes`-level model in C09's error vocabulary -/
def mapE (x : Except Err (α × Bytes)) : Except Stream.Err (α × Bytes) :=
  match x with
  | .ok y => .ok y
  | .error e => .error (errMap e)

@[simp] theorem mapE_ok (y : α × Bytes) : mapE (.ok y) = .ok y := rfl
@[simp] theorem mapE_error (e : Err) : mapE (.error e : Except Err (α × Bytes)) = .error (errMap e) := rfl

theorem run_bind {d : Dec α} {x : Except Err (α × Bytes)} (f : α → Dec β) (s : Bytes)
    (h : d.runBR s = mapE x) :
    (d.bind f).runBR s = (match (generalizing := false) x with
      | .ok y => (f y.1).runBR y.2
      | .error e => .error (errMap e)) := by
  rw [Stream.runBR_bind, h]
  cases x <;> rfl

theorem run_readD (n : Nat) (s : Bytes) : (readD n).runBR s = mapE (read n s) := by
  unfold readD read
  by_cases h : n ≤ s.length
  · have : ¬ s.length < n := by omega
    simp [Dec.runBR, Stream.brRead, h, this]
  · have : s.length < n := by omega
    simp [Dec.runBR, Stream.brRead, h, this, errMap]

theorem run_liftD (x : Except Err α) (s : Bytes) :
    (liftD x).runBR s = mapE (match x with | .ok a => .ok (a, s) | .error e => .error e) := by
  cases x <;> rfl

theorem run_readLenD (s : Bytes) : readLenD.runBR s = mapE (readLen s) := by
  unfold readLenD readLen read
  by_cases h : 4 ≤ s.length
  · have : ¬ s.length < 4 := by omega
    simp only [Dec.runBR, Stream.brRead, h, this, if_true, if_false]
    split
    · simp [Dec.runBR, errMap]
    · split
      · simp [Dec.runBR, errMap]
      · simp [Dec.runBR]
  · have : s.length < 4 := by omega
    simp [Dec.runBR, Stream.brRead, h, this, errMap]

theorem run_readStringD (s : Bytes) : readStringD.runBR s = mapE (readString s) := by
  unfold readStringD readString
  simp only [Stream.runBR_bind, run_readD, run_readLenD, run_liftD]
  cases readLen s with
  | error e => rfl
  | ok p1 =>
    obtain ⟨k, s1⟩ := p1
    simp only [mapE_ok]
    cases read k s1 with
    | error e => rfl
    | ok p2 =>
      simp only [mapE_ok]
      cases asciiDecode p2.1 with
      | error e => rfl
      | ok t =>
        simp only [mapE_ok]
        cases read (pad4 k) p2.2 with
        | error e => rfl
        | ok p4 => rfl

theorem run_readStringsD : ∀ (n : Nat) (s : Bytes), (readStringsD n).runBR s = mapE (readStrings n s)
  | 0, s => rfl
  | n + 1, s => by
    unfold readStringsD readStrings
    simp only [Stream.runBR_bind, run_readD, run_readLenD, run_readStringsD n]
    cases readLen s with
    | error e => rfl
    | ok p1 =>
      obtain ⟨k, s1⟩ := p1
      simp only [mapE_ok]
      cases read k s1 with
      | error e => rfl
      | ok p2 =>
        simp only [mapE_ok]
        cases read (pad4 k) p2.2 with
        | error e => rfl
        | ok p4 =>
          simp only [mapE_ok]
          cases readStrings n p4.2 with
          | error e => rfl
          | ok p5 => rfl

theorem run_convertStreamD (ty : Ty) (shape : List Nat) (s : Bytes) :
    (convertStreamD ty shape).runBR s = mapE (convertStream ty shape s) := by
  unfold convertStreamD convertStream
  split
  · simp only [Stream.runBR_bind, run_readLenD]
    cases readLen s with
    | error e => rfl
    | ok p1 =>
      obtain ⟨n, s1⟩ := p1
      simp only [mapE_ok]
      split
      · simp only [Stream.runBR_bind, run_readStringsD, run_liftD]
        cases readStrings n s1 with
        | error e => rfl
        | ok p2 =>
          obtain ⟨raw, s2⟩ := p2
          simp only [mapE_ok]
          cases decodeAll raw with
          | error e => rfl
          | ok vs =>
            simp only [mapE_ok]
            split <;> rfl
      · simp only [Stream.runBR_bind, run_readD, run_liftD]
        cases read 4 s1 with
        | error e => rfl
        | ok p2 =>
          simp only [mapE_ok]
          cases read (wireWidth ty * n) p2.2 with
          | error e => rfl
          | ok p3 =>
            simp only [mapE_ok]
            cases fromWireMany ty n p3.1 with
            | error e => rfl
            | ok vs =>
              simp only [mapE_ok]
              split
              · rfl
              · split
                · simp only [Stream.runBR_bind, run_readD]
                  cases read (pad4 n) p3.2 with
                  | error e => rfl
                  | ok p4 => rfl
                · rfl
  · split
    · simp only [Stream.runBR_bind, run_readStringD]
      cases readString s with
      | error e => rfl
      | ok p1 => obtain ⟨t, s1⟩ := p1; rfl
    · simp only [Stream.runBR_bind, run_readD, run_liftD]
      cases read (wireWidth ty) s with
      | error e => rfl
      | ok p =>
        simp only [mapE_ok]
        cases fromWire ty p.1 with
        | error e => rfl
        | ok v =>
          simp only [mapE_ok]
          split
          · simp only [Stream.runBR_bind, run_readD]
            cases read 3 p.2 with
            | error e => rfl
            | ok q => rfl
          · rfl

theorem run_decRowsSimpleD (cs : List Tmpl) : ∀ (f : Nat) (s : Bytes),
    (decRowsSimpleD cs f).runBR s = mapE (decRowsSimple cs f s)
  | 0, s => rfl
  | f + 1, s => by
    unfold decRowsSimpleD decRowsSimple
    simp only [Stream.runBR_bind, run_readD]
    cases read 4 s with
    | error e => rfl
    | ok m =>
      simp only [mapE_ok]
      split
      · simp only [Stream.runBR_bind, run_readD, run_liftD, run_decRowsSimpleD cs f]
        cases read (recordSize cs) m.2 with
        | error e => rfl
        | ok p =>
          simp only [mapE_ok]
          cases splitRecord cs p.1 with
          | error e => rfl
          | ok r =>
            simp only [mapE_ok]
            cases decRowsSimple cs f p.2 with
            | error e => rfl
            | ok p4 => obtain ⟨rs, s3⟩ := p4; rfl
      · rfl

mutual
theorem run_decD : ∀ (f : Nat) (t : Tmpl) (s : Bytes), (decD f t).runBR s = mapE (dec f t s)
  | 0, _, _ => by simp [decD, dec, Dec.runBR, errMap]
  | _ + 1, .base ty shape, s => by
    simp only [decD, dec]
    exact run_convertStreamD ty shape s
  | f + 1, .struct cs, s => by
    simp only [decD, dec, Stream.runBR_bind, run_decsD f cs]
    cases decs f cs s with
    | error e => rfl
    | ok p => obtain ⟨ds, s1⟩ := p; rfl
  | f + 1, .seq cs, s => by
    simp only [decD, dec]
    split
    · simp only [Stream.runBR_bind, run_decRowsSimpleD]
      cases decRowsSimple cs f s with
      | error e => rfl
      | ok p => obtain ⟨rs, s1⟩ := p; rfl
    · simp only [Stream.runBR_bind, run_decRowsD f cs]
      cases decRows f cs s with
      | error e => rfl
      | ok p => obtain ⟨rs, s1⟩ := p; rfl
theorem run_decsD : ∀ (f : Nat) (cs : List Tmpl) (s : Bytes), (decsD f cs).runBR s = mapE (decs f cs s)
  | 0, _, _ => by simp [decsD, decs, Dec.runBR, errMap]
  | _ + 1, [], s => by simp [decsD, decs, Dec.runBR]
  | f + 1, c :: cs, s => by
    simp only [decsD, decs, Stream.runBR_bind, run_decD f c]
    cases dec f c s with
    | error e => rfl
    | ok p =>
      obtain ⟨d, s1⟩ := p
      simp only [mapE_ok, run_decsD f cs]
      cases decs f cs s1 with
      | error e => rfl
      | ok p2 => obtain ⟨ds, s2⟩ := p2; rfl
theorem run_decRowsD : ∀ (f : Nat) (cs : List Tmpl) (s : Bytes), (decRowsD f cs).runBR s = mapE (decRows f cs s)
  | 0, _, _ => by simp [decRowsD, decRows, Dec.runBR, errMap]
  | f + 1, cs, s => by
    simp only [decRowsD, decRows, Stream.runBR_bind, run_readD]
    cases read 4 s with
    | error e => rfl
    | ok m =>
      simp only [mapE_ok]
      split
      · simp only [Stream.runBR_bind, run_decsD f cs]
        cases decs f cs m.2 with
        | error e => rfl
        | ok p =>
          obtain ⟨ds, s2⟩ := p
          simp only [mapE_ok, run_decRowsD f cs]
          cases decRows f cs s2 with
          | error e => rfl
          | ok p3 => obtain ⟨rs, s3⟩ := p3; rfl
      · rfl
end

/-! ## the streaming entry points -/

theorem errMap_eof (e : Err) : errMap e = .eof ↔ e = .short := by cases e <;> simp [errMap]
theorem errMap_fuel (e : Err) : errMap e = .fuel ↔ e = .fuel := by cases e <;> simp [errMap]

/-- `decImpl` is `decD` on a `BytesReader` -/
theorem run_decImpl (t : Tmpl) (s : Bytes) : (decD (fuelFor t s) t).runBR s = mapE (decImpl t s) :=
  run_decD _ t s

/-- over a `StreamReader` in any state (any buffer, any chunks still to come): the value `decImpl` gives on
    everything the reader can still deliver, and the same bytes left over -/
theorem decStreamFrom_eq (t : Tmpl) (r : SR) :
    Stream.absSR (decStreamFrom t r) = mapE (decImpl t r.abs) := by
  unfold decStreamFrom
  rw [Stream.run_sim, run_decImpl]

theorem decStream_eq (t : Tmpl) (cs : List Bytes) :
    Stream.absSR (decStream t cs) = mapE (decImpl t cs.flatten) := by
  have := decStreamFrom_eq t ⟨cs, []⟩
  simpa [SR.abs, decStream] using this

theorem valOf_absSR (x : Except Stream.Err (α × SR)) : valOf x = Stream.fstOf (Stream.absSR x) := by
  cases x <;> rfl

theorem linesFrom_flatten : ∀ (s cur : Bytes), (linesFrom cur s).flatten = cur ++ s
  | [], cur => by
    unfold linesFrom
    split
    · next h => simp [List.isEmpty_iff.mp h]
    · simp
  | b :: s, cur => by
    unfold linesFrom
    split
    · simp [linesFrom_flatten s []]
    · simp [linesFrom_flatten s (cur ++ [b])]

/-- iterating a `BytesIO` loses nothing -/
theorem lines_flatten (s : Bytes) : (lines s).flatten = s := by
  simpa [lines] using linesFrom_flatten s []

/-- `open_dods_url` = split at the separator + `decImpl` on the data part: the line chunking `BytesIO` imposes
    on the `StreamReader` is invisible -/
theorem openDodsUrl_eq (t : Tmpl) (raw : Bytes) :
    openDodsUrl t raw = (splitBody raw).map fun p => (p.1, Stream.fstOf (mapE (decImpl t p.2))) := by
  unfold openDodsUrl
  cases splitBody raw with
  | none => rfl
  | some p => simp only [Option.map_some, valOf_absSR, decStream_eq, lines_flatten]

/-- what `SequenceProxy.__iter__` makes of a response, written on the concatenated bytes -/
def seqProxySpec (t : Tmpl) (resp : Bytes) : Except Stream.Err Data :=
  match Stream.afterFirst Stream.dataPattern resp with
  | none => .error .noData
  | some data => Stream.fstOf (mapE (decImpl t data))

theorem seqProxy_eq (t : Tmpl) (cs : List Bytes) : seqProxy t cs = seqProxySpec t cs.flatten := by
  have hs := Stream.findPattern_spec Stream.dataPattern Stream.dataPattern_ne_nil cs
  unfold seqProxy Stream.clientStream seqProxySpec
  cases hf : Stream.findPattern Stream.dataPattern cs with
  | none =>
    rw [hf] at hs
    simp only [Option.map_none] at hs
    rw [← hs]
  | some x =>
    rw [hf] at hs
    simp only [Option.map_some] at hs
    rw [← hs]
    simp only [valOf_absSR, decStreamFrom_eq]
    simp [SR.abs]

end Pydap.Xdr
