import PydapModel.DdsForeign
import Proofs.DdsFixpoint
namespace Pydap.Dds
open Pydap

/-! ### whitespace -/

def Ws (w : Text) : Prop := ∀ c ∈ w, isSpace c = true
def GsOk (gs : List Text) : Prop := ∀ w ∈ gs, Ws w

theorem gap_ws {gs : List Text} (h : GsOk gs) (i : Nat) : Ws (gap gs i) := by
  unfold gap
  rw [List.getD_eq_getElem?_getD]
  cases hg : gs[i]? with
  | none => intro c hc; simp at hc
  | some w => exact h w (List.mem_of_getElem? hg)

theorem lstrip_ws (w x : Text) (h : Ws w) : lstrip (w ++ x) = lstrip x := by
  induction w with
  | nil => rfl
  | cons c cs ih =>
    rw [List.cons_append, lstrip_cons_space _ (h c (by simp))]
    exact ih (fun d hd => h d (by simp [hd]))

theorem lstrip_gap (w : Text) (d : Char) (x : Text) (h : Ws w) (hd : isSpace d = false) :
    lstrip (w ++ d :: x) = d :: x := by
  rw [lstrip_ws w _ h, lstrip_cons_nonspace _ hd]

def NoHead (p : Char → Bool) (rest : Text) : Prop := ∀ c r, rest = c :: r → p c = false

theorem takeWhile_span' (p : Char → Bool) (tok rest : Text) (h : ∀ c ∈ tok, p c = true) (hr : NoHead p rest) :
    (tok ++ rest).takeWhile p = tok ∧ (tok ++ rest).dropWhile p = rest := by
  induction tok with
  | nil =>
    cases rest with
    | nil => simp
    | cons d r => simp [hr d r rfl]
  | cons c cs ih =>
    have hc := h c (by simp)
    have := ih (fun x hx => h x (by simp [hx]))
    simp [hc, this]

theorem consumeClass_span' (p : Char → Bool) (tok rest : Text) (h : ∀ c ∈ tok, p c = true) (hne : tok ≠ [])
    (hr : NoHead p rest) : consumeClass p (tok ++ rest) = .ok (tok, lstrip rest) := by
  have := takeWhile_span' p tok rest h hr
  unfold consumeClass
  rw [this.1, this.2]
  cases tok with
  | nil => exact absurd rfl hne
  | cons a as => simp

theorem noHead_ws (p : Char → Bool) (w : Text) (d : Char) (x : Text) (hw : Ws w)
    (hp : ∀ c, isSpace c = true → p c = false) (hd : p d = false) : NoHead p (w ++ d :: x) := by
  intro c r e
  cases w with
  | nil => simp at e; rw [← e.1]; exact hd
  | cons a as => simp at e; rw [← e.1]; exact hp a (hw a (by simp))

theorem space_not_nameRe (c : Char) (h : isSpace c = true) : isNameRe c = false := by char_arith
theorem space_not_word (c : Char) (h : isSpace c = true) : isWord c = false := by char_arith
theorem space_not_digit (c : Char) (h : isSpace c = true) : Pydap.isDigit c = false := by char_arith

/-! ### dimensions in foreign style -/

theorem fdims_lstrip (gs : List Text) (l : List Entry) (rest : Text) :
    lstrip (l.flatMap (fdimText gs) ++ ';' :: rest) = l.flatMap (fdimText gs) ++ ';' :: rest := by
  cases l with
  | nil => exact lstrip_cons_nonspace _ (by decide)
  | cons e es =>
    obtain ⟨nm, n⟩ := e
    cases nm <;> exact lstrip_cons_nonspace _ (by decide)

theorem fdimensions (gs : List Text) (hgs : GsOk gs) (l : List Entry) (rest : Text) (fuel : Nat)
    (hok : ∀ e ∈ l, EntryOk e) (hf : l.length ≤ fuel) :
    dimensions fuel (l.flatMap (fdimText gs) ++ ';' :: rest) = .ok (l.map (·.2), l.filterMap (·.1), ';' :: rest) := by
  induction l generalizing fuel with
  | nil => exact dimensions_nil fuel rest
  | cons e es ih =>
    cases fuel with
    | zero => simp at hf
    | succ f =>
      have hes : ∀ e ∈ es, EntryOk e := fun x hx => hok x (by simp [hx])
      have ih' := ih f hes (by simpa using hf)
      have he := hok e (by simp)
      obtain ⟨nm, n⟩ := e
      have hn : 0 ≤ n := he.1
      generalize hy : es.flatMap (fdimText gs) ++ ';' :: rest = y at ih'
      have hys : lstrip y = y := by rw [← hy]; exact fdims_lstrip gs es rest
      have hdig : ∀ c ∈ intText n, Pydap.isDigit c = true := intText_allDigits n hn
      have g1 := gap_ws hgs 1; have g2 := gap_ws hgs 2; have g3 := gap_ws hgs 3
      have g4 := gap_ws hgs 4; have g5 := gap_ws hgs 5
      have s5 : consumeLit [']'] (']' :: (gap gs 5 ++ y)) = .ok y := by
        rw [consumeLit_one _ _ _ rfl, lstrip_ws _ _ g5, hys]
      cases nm with
      | none =>
        have e1 : ((none, n) :: es : List Entry).flatMap (fdimText gs) ++ ';' :: rest
            = '[' :: (gap gs 1 ++ (intText n ++ (gap gs 4 ++ ']' :: (gap gs 5 ++ y)))) := by
          simp [fdimText, ← hy]
        rw [e1]
        have s1 : consumeLit ['['] ('[' :: (gap gs 1 ++ (intText n ++ (gap gs 4 ++ ']' :: (gap gs 5 ++ y)))))
            = .ok (intText n ++ (gap gs 4 ++ ']' :: (gap gs 5 ++ y))) := by
          rw [consumeLit_one _ _ _ rfl, lstrip_ws _ _ g1, digits_lstrip n hn]
        have s2 := consumeClass_span' isNameRe (intText n) (gap gs 4 ++ ']' :: (gap gs 5 ++ y))
          (fun c hc => digit_nameRe c (hdig c hc)) (intText_ne_nil n)
          (noHead_ws _ _ _ _ g4 space_not_nameRe (by decide))
        rw [lstrip_gap _ _ _ g4 (by decide)] at s2
        simp only [dimensions, peekLit_one, s1, s2, s5, pyInt_intText n hn, ih',
          show decide (lowerC '[' = lowerC ';') = false by decide, Bool.false_eq_true, if_false,
          show decide (lowerC ']' = lowerC '=') = false by decide]
        simp
      | some nm =>
        have hnm : NameOk nm := he.2 nm rfl
        have e1 : ((some nm, n) :: es : List Entry).flatMap (fdimText gs) ++ ';' :: rest
            = '[' :: (gap gs 1 ++ (nm ++ (gap gs 2 ++ '=' :: (gap gs 3 ++ (intText n ++ (gap gs 4 ++ ']' :: (gap gs 5 ++ y))))))) := by
          simp [fdimText, ← hy]
        rw [e1]
        have s1 : consumeLit ['['] ('[' :: (gap gs 1 ++ (nm ++ (gap gs 2 ++ '=' :: (gap gs 3 ++ (intText n ++ (gap gs 4 ++ ']' :: (gap gs 5 ++ y))))))))
            = .ok (nm ++ (gap gs 2 ++ '=' :: (gap gs 3 ++ (intText n ++ (gap gs 4 ++ ']' :: (gap gs 5 ++ y)))))) := by
          rw [consumeLit_one _ _ _ rfl, lstrip_ws _ _ g1, hnm.lstrip]
        have s2 := consumeClass_span' isNameRe nm (gap gs 2 ++ '=' :: (gap gs 3 ++ (intText n ++ (gap gs 4 ++ ']' :: (gap gs 5 ++ y)))))
          hnm.2 hnm.1 (noHead_ws _ _ _ _ g2 space_not_nameRe (by decide))
        rw [lstrip_gap _ _ _ g2 (by decide)] at s2
        have s3 : consumeLit ['='] ('=' :: (gap gs 3 ++ (intText n ++ (gap gs 4 ++ ']' :: (gap gs 5 ++ y)))))
            = .ok (intText n ++ (gap gs 4 ++ ']' :: (gap gs 5 ++ y))) := by
          rw [consumeLit_one _ _ _ rfl, lstrip_ws _ _ g3, digits_lstrip n hn]
        have s4 := consumeClass_span' Pydap.isDigit (intText n) (gap gs 4 ++ ']' :: (gap gs 5 ++ y)) hdig
          (intText_ne_nil n) (noHead_ws _ _ _ _ g4 space_not_digit (by decide))
        rw [lstrip_gap _ _ _ g4 (by decide)] at s4
        simp only [dimensions, peekLit_one, s1, s2, s3, s4, s5, pyInt_intText n hn, ih',
          show decide (lowerC '[' = lowerC ';') = false by decide, Bool.false_eq_true, if_false,
          show decide (lowerC '=' = lowerC '=') = true by decide]
        simp

/-! ### keywords and type names in any case -/

theorem lower_word (c : Char) (h : isLower (lowerC c) = true) : isWord c = true := by
  by_cases hu : isUpper c = true
  · simp [isWord, hu]
  · have : lowerC c = c := by simp [lowerC, hu]
    rw [this] at h
    simp [isWord, h]

theorem kw_word (kw lit : Text) (h : lower kw = lit) (hl : ∀ c ∈ lit, isLower c = true) :
    ∀ c ∈ kw, isWord c = true := by
  intro c hc
  apply lower_word
  apply hl
  rw [← h]
  exact List.mem_map_of_mem hc

theorem word_not_space (c : Char) (h : isWord c = true) : isSpace c = false := by char_arith

structure KwOk (kw lit : Text) : Prop where
  low : lower kw = lit

theorem KwOk.ne {kw lit : Text} (h : KwOk kw lit) (hl : lit ≠ []) : kw ≠ [] := by
  intro e; subst e; exact hl (by rw [← h.low]; rfl)

theorem consumeLit_kw (kw lit x : Text) (h : KwOk kw lit) (hlit : lower lit = lit) :
    consumeLit lit (kw ++ x) = .ok (lstrip x) :=
  consumeLit_prefix lit kw x (by
    have := h.low
    unfold lower at this hlit
    rw [this, hlit])

theorem kw_takeWhile (kw lit : Text) (w : Text) (d : Char) (x : Text) (h : KwOk kw lit)
    (hl : ∀ c ∈ lit, isLower c = true) (hw : Ws w) (hd : isWord d = false) :
    lower ((kw ++ (w ++ d :: x)).takeWhile isWord) = lit := by
  rw [(takeWhile_span' isWord kw _ (kw_word kw lit h.low hl) (noHead_ws _ _ _ _ hw space_not_word hd)).1]
  exact h.low

theorem kw_head (kw lit : Text) (h : KwOk kw lit) (hl : ∀ c ∈ lit, isLower c = true) (hne : lit ≠ []) :
    ∃ c cs, kw = c :: cs ∧ isWord c = true := by
  cases kw with
  | nil => exact absurd rfl (h.ne hne)
  | cons c cs => exact ⟨c, cs, rfl, kw_word _ _ h.low hl c (by simp)⟩

/-! ### base variables in foreign style -/

structure FTyOk (ty : Text) : Prop where
  ne : ty ≠ []
  word : ∀ c ∈ ty, isWord c = true
  notGrid : lower ty ≠ "grid".toList
  notSeq : lower ty ≠ "sequence".toList
  notStruct : lower ty ≠ "structure".toList
  known : ∃ dt, lookup Gen.LOWER_DAP2_TO_NUMPY_PARSER_TYPEMAP (lower ty) = some dt

/-- a name as a foreign text may spell it: non-empty ASCII, no `;` and no `[` (the parser's name token is `[^;\[]+`,
    `[^;]+` for containers), not starting with white space (which the parser strips before the token), no `/` (a path
    separator for `DatasetType.__setitem__`; the property's names exclude it) -/
structure RawNameOk (n : Text) : Prop where
  ne : n ≠ []
  chars : ∀ c ∈ n, notSemiBr c = true
  ascii : ∀ c ∈ n, c.toNat < 128
  noSlash : ∀ c ∈ n, c ≠ '/'
  dap4 : n.take 4 = ['d', 'a', 'p', '4'] → ∀ c ∈ n.take 8, isNameRe c = true
  head : ∀ c cs, n = c :: cs → isSpace c = false

theorem RawNameOk.lstrip {n : Text} (h : RawNameOk n) (x : Text) : lstrip (n ++ x) = n ++ x := by
  cases hn : n with
  | nil => exact absurd hn h.ne
  | cons c cs => exact lstrip_cons_nonspace _ (h.head c cs hn)

theorem notSemiBr_notSemi (c : Char) (h : notSemiBr c = true) : notSemi c = true := by char_arith
theorem nameRe_ascii (c : Char) (h : isNameRe c = true) : c.toNat < 128 := by char_arith

/-- a name already made of `name_regexp` characters is a raw name -/
theorem nameRe_noSlash (c : Char) (h : isNameRe c = true) : c ≠ '/' := by
  intro e; subst e; exact absurd h (by decide)

theorem NameOk.raw {n : Text} (h : NameOk n) : RawNameOk n :=
  ⟨h.1, fun c hc => nameRe_notSemiBr c (h.2 c hc), fun c hc => nameRe_ascii c (h.2 c hc),
   fun c hc => nameRe_noSlash c (h.2 c hc),
   fun _ c hc => h.2 c (List.mem_of_mem_take hc),
   fun c cs e => nameRe_not_space c (h.2 c (by rw [e]; simp))⟩

structure FBaseOk (b : FBase) : Prop where
  ty : FTyOk b.ty
  name : RawNameOk b.name
  dims : ∀ e ∈ b.dims, EntryOk e
  gs : GsOk b.gs

theorem fdimText_len (gs : List Text) (e : Entry) : 1 ≤ (fdimText gs e).length := by
  obtain ⟨nm, n⟩ := e
  cases nm <;> simp [fdimText]

theorem fdims_len (gs : List Text) (l : List Entry) : l.length ≤ (l.flatMap (fdimText gs)).length := by
  induction l with
  | nil => simp
  | cons e es ih =>
    have := fdimText_len gs e
    simp only [List.flatMap_cons, List.length_append, List.length_cons]; omega

theorem fdims_head (gs : List Text) (l : List Entry) (rest : Text) :
    NoHead notSemiBr (l.flatMap (fdimText gs) ++ ';' :: rest) := by
  intro c r e
  cases l with
  | nil => simp at e; rw [← e.1]; decide
  | cons x xs =>
    obtain ⟨nm, n⟩ := x
    cases nm <;> (simp [fdimText] at e; rw [← e.1]; decide)

theorem fbase_head (b : FBase) (hb : FBaseOk b) (rest : Text) :
    ∃ c r, fbaseText b ++ rest = c :: r ∧ isWord c = true := by
  cases hty : b.ty with
  | nil => exact absurd hty hb.ty.ne
  | cons c cs =>
    exact ⟨c, cs ++ ' ' :: gap b.gs 0 ++ b.name ++ b.dims.flatMap (fdimText b.gs) ++ ';' :: gap b.gs 6 ++ rest,
      by simp [fbaseText, hty], hb.ty.word c (by simp [hty])⟩

theorem fbase_parse (b : FBase) (hb : FBaseOk b) (rest : Text) :
    base (fbaseText b ++ rest) = .ok (declBase b, lstrip rest) := by
  obtain ⟨dt, hdt⟩ := hb.ty.known
  have e1 : fbaseText b ++ rest
      = b.ty ++ ' ' :: (gap b.gs 0 ++ (b.name ++ (b.dims.flatMap (fdimText b.gs) ++ ';' :: (gap b.gs 6 ++ rest)))) := by
    simp [fbaseText]
  rw [e1]
  have s1 := consumeClass_span isWord b.ty ' ' (gap b.gs 0 ++ (b.name ++ (b.dims.flatMap (fdimText b.gs) ++ ';' :: (gap b.gs 6 ++ rest))))
    hb.ty.word hb.ty.ne (by decide)
  rw [lstrip_cons_space _ (by decide), lstrip_ws _ _ (gap_ws hb.gs 0), hb.name.lstrip] at s1
  have s2 := consumeClass_span' notSemiBr b.name (b.dims.flatMap (fdimText b.gs) ++ ';' :: (gap b.gs 6 ++ rest))
    hb.name.chars hb.name.ne (fdims_head _ _ _)
  rw [fdims_lstrip] at s2
  have s3 := fdimensions b.gs hb.gs b.dims (gap b.gs 6 ++ rest)
    (b.dims.flatMap (fdimText b.gs) ++ ';' :: (gap b.gs 6 ++ rest)).length hb.dims
    (by have := fdims_len b.gs b.dims; simp only [List.length_append]; omega)
  have s4 : consumeLit [';'] (';' :: (gap b.gs 6 ++ rest)) = .ok (lstrip rest) := by
    rw [consumeLit_one _ _ _ rfl, lstrip_ws _ _ (gap_ws hb.gs 6)]
  have hd : declTy b.ty = dt := by simp [declTy, hdt]
  simp only [base, s1, hdt, s2, s3, s4, declBase, hd]

theorem fbase_peek (b : FBase) (hb : FBaseOk b) (rest : Text) : peekLit ['}'] (fbaseText b ++ rest) = false := by
  obtain ⟨c, r, e, hc⟩ := fbase_head b hb rest
  rw [e]; exact word_peek_close c r hc

theorem fbase_lstrip (b : FBase) (hb : FBaseOk b) (rest : Text) : lstrip (fbaseText b ++ rest) = fbaseText b ++ rest := by
  obtain ⟨c, r, e, hc⟩ := fbase_head b hb rest
  rw [e]; exact lstrip_cons_nonspace _ (word_not_space c hc)

theorem fbase_word (b : FBase) (hb : FBaseOk b) (rest : Text) :
    lower ((fbaseText b ++ rest).takeWhile isWord) = lower b.ty := by
  have e1 : fbaseText b ++ rest
      = b.ty ++ ' ' :: (gap b.gs 0 ++ (b.name ++ (b.dims.flatMap (fdimText b.gs) ++ ';' :: (gap b.gs 6 ++ rest)))) := by
    simp [fbaseText]
  rw [e1, (takeWhile_span isWord b.ty ' ' _ hb.ty.word (by decide)).1]

theorem fbaseText_len (b : FBase) : 1 ≤ (fbaseText b).length := by
  simp [fbaseText]; omega

theorem fbasesText_len (bs : List FBase) : bs.length ≤ (fbasesText bs).length := by
  induction bs with
  | nil => simp
  | cons b bs ih =>
    have := fbaseText_len b
    simp only [fbasesText, List.length_append, List.length_cons]; omega

theorem fmapsLoop (bs : List FBase) (rest : Text) (fuel : Nat) (hok : ∀ b ∈ bs, FBaseOk b) (hf : bs.length ≤ fuel)
    (hr : peekLit ['}'] (lstrip rest) = true) :
    mapsLoop fuel (lstrip (fbasesText bs ++ rest)) = .ok (bs.map declBase, lstrip rest) := by
  induction bs generalizing fuel with
  | nil => cases fuel <;> simp [fbasesText, mapsLoop, hr]
  | cons b bs ih =>
    cases fuel with
    | zero => simp at hf
    | succ f =>
      have hb := hok b (by simp)
      have ih' := ih f (fun x hx => hok x (by simp [hx])) (by simpa using hf)
      simp only [fbasesText, List.append_assoc]
      rw [fbase_lstrip b hb]
      simp only [mapsLoop, fbase_peek b hb, Bool.false_eq_true, if_false, fbase_parse b hb, ih', List.map_cons]

theorem kw_lstrip (kw lit x : Text) (h : KwOk kw lit) (hl : ∀ c ∈ lit, isLower c = true) (hne : lit ≠ []) :
    lstrip (kw ++ x) = kw ++ x := by
  obtain ⟨c, cs, e, hc⟩ := kw_head kw lit h hl hne
  subst e; exact lstrip_cons_nonspace _ (word_not_space c hc)

theorem kw_peek (kw lit x : Text) (h : KwOk kw lit) (hl : ∀ c ∈ lit, isLower c = true) (hne : lit ≠ []) :
    peekLit ['}'] (kw ++ x) = false := by
  obtain ⟨c, cs, e, hc⟩ := kw_head kw lit h hl hne
  subst e; exact word_peek_close c _ hc

theorem fclosing (gs : List Text) (hgs : GsOk gs) (i : Nat) (name rest : Text) (h : RawNameOk name) :
    closing (lstrip (fcloseText gs i name ++ rest)) = .ok (quoteName name, lstrip rest) := by
  have e1 : lstrip (fcloseText gs i name ++ rest) = '}' :: (gap gs i ++ (name ++ ';' :: (gap gs (i + 1) ++ rest))) := by
    simp only [fcloseText, List.append_assoc, List.cons_append]
    exact lstrip_cons_nonspace _ (by decide)
  rw [e1]
  have s1 : consumeLit ['}'] ('}' :: (gap gs i ++ (name ++ ';' :: (gap gs (i + 1) ++ rest))))
      = .ok (name ++ ';' :: (gap gs (i + 1) ++ rest)) := by
    rw [consumeLit_one _ _ _ rfl, lstrip_ws _ _ (gap_ws hgs i), h.lstrip]
  have s2 := consumeClass_span notSemi name ';' (gap gs (i + 1) ++ rest) (fun c hc => notSemiBr_notSemi c (h.chars c hc)) h.ne (by decide)
  rw [lstrip_cons_nonspace _ (by decide)] at s2
  have s3 : consumeLit [';'] (';' :: (gap gs (i + 1) ++ rest)) = .ok (lstrip rest) := by
    rw [consumeLit_one _ _ _ rfl, lstrip_ws _ _ (gap_ws hgs (i + 1))]
  simp only [closing, s1, s2, s3]

theorem fclosing_peek (gs : List Text) (i : Nat) (name rest : Text) :
    peekLit ['}'] (lstrip (fcloseText gs i name ++ rest)) = true := by
  have e1 : lstrip (fcloseText gs i name ++ rest) = '}' :: (gap gs i ++ (name ++ ';' :: (gap gs (i + 1) ++ rest))) := by
    simp only [fcloseText, List.append_assoc, List.cons_append]
    exact lstrip_cons_nonspace _ (by decide)
  rw [e1, peekLit_one]; decide

theorem lowers_struct : ∀ c ∈ "structure".toList, isLower c = true := by decide
theorem lowers_seq : ∀ c ∈ "sequence".toList, isLower c = true := by decide
theorem lowers_grid : ∀ c ∈ "grid".toList, isLower c = true := by decide
theorem lowers_array : ∀ c ∈ "array".toList, isLower c = true := by decide
theorem lowers_maps : ∀ c ∈ "maps".toList, isLower c = true := by decide
theorem lowers_dataset : ∀ c ∈ "dataset".toList, isLower c = true := by decide

def contLit (isSeq : Bool) : Text := if isSeq then "sequence".toList else "structure".toList

theorem decl_cont_kw (f : Nat) (isSeq : Bool) (kw w0 w1 Y : Text) (hk : KwOk kw (contLit isSeq)) (hw0 : Ws w0) (hw1 : Ws w1) :
    decl (f + 1) (kw ++ (w0 ++ '{' :: (w1 ++ Y))) =
      match decls f (lstrip Y) with
      | .error e => .error e
      | .ok (kids, b3) => match closing b3 with
        | .error e => .error e
        | .ok (nm, b4) => .ok (if isSeq then .seq nm (insertAll kids) else .struct nm (insertAll kids), b4) := by
  cases isSeq with
  | false =>
    have hk' : KwOk kw "structure".toList := hk
    have hw := kw_takeWhile kw _ w0 '{' (w1 ++ Y) hk' lowers_struct hw0 (by decide)
    have s1 : consumeLit "structure".toList (kw ++ (w0 ++ '{' :: (w1 ++ Y))) = .ok ('{' :: (w1 ++ Y)) := by
      rw [consumeLit_kw _ _ _ hk' (by decide), lstrip_gap _ _ _ hw0 (by decide)]
    have s2 : consumeLit ['{'] ('{' :: (w1 ++ Y)) = .ok (lstrip Y) := by
      rw [consumeLit_one _ _ _ rfl, lstrip_ws _ _ hw1]
    simp only [decl, hw, s1, s2]
    cases decls f (lstrip Y) with
    | error e => rfl
    | ok p =>
      obtain ⟨kids, b3⟩ := p
      simp only []
      cases closing b3 with
      | error e => rfl
      | ok q => rfl
  | true =>
    have hk' : KwOk kw "sequence".toList := hk
    have hw := kw_takeWhile kw _ w0 '{' (w1 ++ Y) hk' lowers_seq hw0 (by decide)
    have s1 : consumeLit "sequence".toList (kw ++ (w0 ++ '{' :: (w1 ++ Y))) = .ok ('{' :: (w1 ++ Y)) := by
      rw [consumeLit_kw _ _ _ hk' (by decide), lstrip_gap _ _ _ hw0 (by decide)]
    have s2 : consumeLit ['{'] ('{' :: (w1 ++ Y)) = .ok (lstrip Y) := by
      rw [consumeLit_one _ _ _ rfl, lstrip_ws _ _ hw1]
    simp only [decl, hw, s1, s2]
    cases decls f (lstrip Y) with
    | error e => rfl
    | ok p =>
      obtain ⟨kids, b3⟩ := p
      simp only []
      cases closing b3 with
      | error e => rfl
      | ok q => rfl

structure FGridOk (kw kwA kwM name : Text) (gs : List Text) (arr : FBase) (maps : List FBase) : Prop where
  hkw : KwOk kw "grid".toList
  hkwA : KwOk kwA "array".toList
  hkwM : KwOk kwM "maps".toList
  hname : RawNameOk name
  hgs : GsOk gs
  harr : FBaseOk arr
  hmaps : ∀ b ∈ maps, FBaseOk b
  hnodup : ((arr :: maps).map fun b => quoteName b.name).Nodup

theorem fgrid_parse (kw kwA kwM name : Text) (gs : List Text) (arr : FBase) (maps : List FBase) (rest : Text)
    (h : FGridOk kw kwA kwM name gs arr maps) :
    grid (ftextT (.grid kw kwA kwM name gs arr maps) ++ rest)
      = .ok (.grid (quoteName name) (declBase arr :: maps.map declBase), lstrip rest) := by
  generalize hR3 : fcloseText gs 6 name ++ rest = R3
  generalize hM : kwM ++ (gap gs 4 ++ ':' :: (gap gs 5 ++ (fbasesText maps ++ R3))) = M
  generalize hA : kwA ++ (gap gs 2 ++ ':' :: (gap gs 3 ++ (fbaseText arr ++ M))) = A
  have e1 : ftextT (.grid kw kwA kwM name gs arr maps) ++ rest = kw ++ (gap gs 0 ++ '{' :: (gap gs 1 ++ A)) := by
    simp only [ftextT, List.append_assoc, List.cons_append, hR3, hM, hA]
  rw [e1]
  have s1 : consumeLit "grid".toList (kw ++ (gap gs 0 ++ '{' :: (gap gs 1 ++ A))) = .ok ('{' :: (gap gs 1 ++ A)) := by
    rw [consumeLit_kw _ _ _ h.hkw (by decide), lstrip_gap _ _ _ (gap_ws h.hgs 0) (by decide)]
  have s2 : consumeLit ['{'] ('{' :: (gap gs 1 ++ A)) = .ok (kwA ++ (gap gs 2 ++ ':' :: (gap gs 3 ++ (fbaseText arr ++ M)))) := by
    rw [consumeLit_one _ _ _ rfl, lstrip_ws _ _ (gap_ws h.hgs 1), ← hA, kw_lstrip _ _ _ h.hkwA lowers_array (by decide)]
  have s3 : consumeLit "array".toList (kwA ++ (gap gs 2 ++ ':' :: (gap gs 3 ++ (fbaseText arr ++ M))))
      = .ok (':' :: (gap gs 3 ++ (fbaseText arr ++ M))) := by
    rw [consumeLit_kw _ _ _ h.hkwA (by decide), lstrip_gap _ _ _ (gap_ws h.hgs 2) (by decide)]
  have s4 : consumeLit [':'] (':' :: (gap gs 3 ++ (fbaseText arr ++ M))) = .ok (fbaseText arr ++ M) := by
    rw [consumeLit_one _ _ _ rfl, lstrip_ws _ _ (gap_ws h.hgs 3), fbase_lstrip arr h.harr]
  have s5 := fbase_parse arr h.harr M
  have s6 : lstrip M = kwM ++ (gap gs 4 ++ ':' :: (gap gs 5 ++ (fbasesText maps ++ R3))) := by
    rw [← hM, kw_lstrip _ _ _ h.hkwM lowers_maps (by decide)]
  have s7 : consumeLit "maps".toList (kwM ++ (gap gs 4 ++ ':' :: (gap gs 5 ++ (fbasesText maps ++ R3))))
      = .ok (':' :: (gap gs 5 ++ (fbasesText maps ++ R3))) := by
    rw [consumeLit_kw _ _ _ h.hkwM (by decide), lstrip_gap _ _ _ (gap_ws h.hgs 4) (by decide)]
  have s8 : consumeLit [':'] (':' :: (gap gs 5 ++ (fbasesText maps ++ R3))) = .ok (lstrip (fbasesText maps ++ R3)) := by
    rw [consumeLit_one _ _ _ rfl, lstrip_ws _ _ (gap_ws h.hgs 5)]
  have hlen : maps.length ≤ (kw ++ (gap gs 0 ++ '{' :: (gap gs 1 ++ A))).length := by
    have := fbasesText_len maps
    rw [← hA, ← hM]
    simp only [List.length_append, List.length_cons]; omega
  have s9 := fmapsLoop maps R3 _ h.hmaps hlen (by rw [← hR3]; exact fclosing_peek gs 6 name rest)
  have s10 : closing (lstrip R3) = .ok (quoteName name, lstrip rest) := by
    rw [← hR3]; exact fclosing gs h.hgs 6 name rest h.hname
  have hins : insertAllB (declBase arr :: maps.map declBase) = declBase arr :: maps.map declBase := by
    apply insertAllB_nodup
    have e : (declBase arr :: maps.map declBase).map (·.name) = (arr :: maps).map fun b => quoteName b.name := by
      simp [declBase, Function.comp_def]
    rw [e]; exact h.hnodup
  simp only [grid, s1, s2, s3, s4, s5, s6, s7, s8, s9, s10, hins]

end Pydap.Dds
