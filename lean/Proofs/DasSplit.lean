import Proofs.DasIds
/-! `var.id.split(".")` gives back the path of names the id was joined from (C08): the model's `attachStep` works on the
    path and uses the text `dotted p` only as the flat key; this lemma is what makes the path the code's
    `var.id.split(".")`. -/
namespace Pydap.Das

/-- specification of Python's `s.split(".")` (never empty: `"".split(".") == [""]`) -/
def splitDot : Text → List Text
  | [] => [[]]
  | c :: cs =>
    if c = '.' then [] :: splitDot cs
    else (c :: (splitDot cs).headD []) :: (splitDot cs).tail

theorem splitDot_ne_nil (t : Text) : splitDot t ≠ [] := by
  cases t with
  | nil => simp [splitDot]
  | cons c cs => unfold splitDot; split <;> simp

theorem splitDot_eta (t : Text) : (splitDot t).headD [] :: (splitDot t).tail = splitDot t := by
  have := splitDot_ne_nil t
  cases h : splitDot t with
  | nil => exact absurd h this
  | cons w ws => rfl

theorem splitDot_word (n r : Text) (hn : '.' ∉ n) :
    splitDot (n ++ r) = (n ++ (splitDot r).headD []) :: (splitDot r).tail := by
  induction n with
  | nil => simpa using (splitDot_eta r).symm
  | cons c cs ih =>
    have hc : c ≠ '.' := fun h => hn (by simp [h])
    have := ih (fun h => hn (List.mem_cons_of_mem _ h))
    simp only [List.cons_append, splitDot, hc, if_false, this, List.headD_cons, List.tail_cons]

/-- **`".".join(path).split(".") == path`** for a non-empty path of dot-free names -/
theorem splitDot_dotted : ∀ (p : List Text), p ≠ [] → (∀ n ∈ p, '.' ∉ n) → splitDot (dotted p) = p
  | [], h, _ => absurd rfl h
  | [n], _, hp => by
    have := splitDot_word n [] (hp n (by simp))
    simpa [dotted, splitDot] using this
  | n :: r :: rs, _, hp => by
    rw [dotted_cons2, splitDot_word n _ (hp n (by simp))]
    have ih := splitDot_dotted (r :: rs) (by simp) (fun x hx => hp x (List.mem_cons_of_mem _ hx))
    simp [splitDot, ih]

end Pydap.Das
