/-
  C05 / C01 (round 7, theorem audit): the hypothesis "the separator `\nData:\n` does not occur inside the DDS" of
  `C05_dds_embedded` / `C01_end_to_end` is DISCHARGED for the DDS text the handler model prints (`Handler.ddsText`):
  every line after the first starts with a space or `}`, so no newline is followed by `D` (`E2E.sepFree`), whenever
  the names / type names / dimension names of the constrained dataset are ASCII without a newline (`Dataset.Plain`).
-/
import PydapModel.Handler
import Proofs.EndToEndText
import Proofs.HandlerWire
namespace Pydap.Handler
open Pydap.E2E (Plain plain_append plain_flatMap plain_lit sepFree sepFree_append enc_plain)

/-- sepFree and not starting with `D`: closed under concatenation -/
def SF (s : Xdr.Bytes) : Prop := sepFree s = true ∧ s.head? ≠ some 68

theorem sepFree_app : ∀ (a b : Xdr.Bytes), sepFree a = true → sepFree b = true → b.head? ≠ some 68 →
    sepFree (a ++ b) = true
  | [], b, _, hb, _ => hb
  | [x], b, ha, hb, hh => by
    cases b with
    | nil => simpa using ha
    | cons y r =>
      have hy : y ≠ 68 := fun e => hh (by simp [e])
      simp only [List.cons_append, List.nil_append, sepFree, Bool.and_eq_true, Bool.or_eq_true, bne_iff_ne]
      exact ⟨Or.inr hy, by simpa [sepFree] using hb⟩
  | x :: y :: r, b, ha, hb, hh => by
    simp only [sepFree, Bool.and_eq_true] at ha
    have ih := sepFree_app (y :: r) b (by simpa [sepFree] using ha.2) hb hh
    simp only [List.cons_append, sepFree, Bool.and_eq_true] at ih ⊢
    exact ⟨ha.1, ih⟩

theorem SF_nil : SF [] := ⟨rfl, by simp⟩

theorem SF_app {a b : Xdr.Bytes} (ha : SF a) (hb : SF b) : SF (a ++ b) := by
  refine ⟨sepFree_app a b ha.1 hb.1 hb.2, ?_⟩
  cases a with
  | nil => exact hb.2
  | cons x r => simpa using ha.2

theorem SF_flatMap {α : Type} (f : α → Xdr.Bytes) : ∀ l : List α, (∀ x ∈ l, SF (f x)) → SF (l.flatMap f)
  | [], _ => SF_nil
  | x :: l, h => by
    rw [List.flatMap_cons]
    exact SF_app (h x (by simp)) (SF_flatMap f l (fun y hy => h y (by simp [hy])))

/-- one printed line: newline-free text that does not start with `D`, then the newline -/
theorem SF_line (l : Str) (hp : Plain l) (hh : (strBytes l).head? ≠ some 68) : SF (strBytes (l ++ ['\n'])) := by
  rw [strBytes_append]
  refine ⟨?_, ?_⟩
  · rw [sepFree_append (strBytes l) _ (enc_plain hp)]; rfl
  · cases l with
    | nil => simp [strBytes]
    | cons c r => simpa [strBytes] using hh

theorem strBytes_flatMap {α : Type} (f : α → Str) (l : List α) :
    strBytes (l.flatMap f) = l.flatMap fun x => strBytes (f x) := by
  induction l with
  | nil => rfl
  | cons x l ih => simp [List.flatMap_cons, strBytes_append, ih]

theorem plain_natText (n : Nat) : Plain (natText n) := by
  have := E2E.plain_intText n
  rwa [show intText (Int.ofNat n) = natDigits n from by simp [intText]] at this

theorem plain_indent (k : Nat) : Plain (indent k) := by
  intro c hc
  have : c = ' ' := by simpa [indent] using (List.eq_of_mem_replicate hc)
  subst this; decide

theorem indent_head (k : Nat) (r : Str) : (strBytes (indent (k + 1) ++ r)).head? = some 32 := by
  have : indent (k + 1) = ' ' :: List.replicate (4 * k + 3) ' ' := by
    simp [indent, Nat.mul_succ, List.replicate_succ]
  rw [this]; rfl

/-- names, type names and dimension names are ASCII without newline (pydap quotes names; type names come from a table) -/
def Base.Plain (b : Base) : Prop := E2E.Plain b.ty ∧ E2E.Plain b.name ∧ ∀ d ∈ b.dims, E2E.Plain d
def Member.Plain : Member → Prop
  | .base b => b.Plain
  | .struct n bs => E2E.Plain n ∧ ∀ b ∈ bs, b.Plain
def Var.Plain : Var → Prop
  | .base b => b.Plain
  | .struct n ms => E2E.Plain n ∧ ∀ m ∈ ms, m.Plain
  | .grid n a ms => E2E.Plain n ∧ a.Plain ∧ ∀ m ∈ ms, m.Plain
  | .seq n cols _ => E2E.Plain n ∧ ∀ c ∈ cols, E2E.Plain c.1 ∧ E2E.Plain c.2
def Dataset.Plain (ds : Dataset) : Prop := E2E.Plain ds.name ∧ ∀ v ∈ ds.vars, v.Plain

theorem ddsBase_eq (level : Nat) (b : Base) (h : b.Plain) :
    ∃ shp, Plain shp ∧ ddsBase level b = indent level ++ b.ty ++ [' '] ++ b.name ++ shp ++ cs!";\n" := by
  obtain ⟨hty, hn, hd⟩ := h
  refine ⟨_, ?_, rfl⟩
  split
  · apply plain_flatMap
    intro p hp
    have := hd p.1 (List.of_mem_zip hp).1
    exact plain_append (plain_append (plain_append (plain_append (plain_lit _ (by decide)) this)
      (plain_lit _ (by decide))) (plain_natText _)) (plain_lit _ (by decide))
  · split
    · exact plain_append (plain_append (plain_append (plain_append (plain_lit _ (by decide)) hn)
        (plain_lit _ (by decide))) (plain_natText _)) (plain_lit _ (by decide))
    · apply plain_flatMap
      intro n _
      exact plain_append (plain_append (plain_lit _ (by decide)) (plain_natText _)) (plain_lit _ (by decide))

theorem ddsBase_SF (k : Nat) (b : Base) (h : b.Plain) : SF (strBytes (ddsBase (k + 1) b)) := by
  obtain ⟨shp, hshp, e⟩ := ddsBase_eq (k + 1) b h
  obtain ⟨hty, hn, hd⟩ := h
  have e' : ddsBase (k + 1) b = (indent (k + 1) ++ (b.ty ++ [' '] ++ b.name ++ shp ++ [';'])) ++ ['\n'] := by
    rw [e]; simp
  rw [e']
  refine SF_line _ ?_ (by rw [indent_head]; decide)
  exact plain_append (plain_indent _) (plain_append (plain_append (plain_append (plain_append hty
    (plain_lit _ (by decide))) hn) hshp) (plain_lit _ (by decide)))

/-- a line `indent ++ text ++ "\n"` -/
theorem SF_indented (k : Nat) (t : Str) (ht : Plain t) : SF (strBytes (indent (k + 1) ++ t ++ ['\n'])) :=
  SF_line _ (plain_append (plain_indent _) ht) (by rw [indent_head]; decide)

theorem ddsMember_SF (k : Nat) (m : Member) (h : m.Plain) : SF (strBytes (ddsMember (k + 1) m)) := by
  cases m with
  | base b => exact ddsBase_SF k b h
  | struct n bs =>
    obtain ⟨hn, hb⟩ := h
    have e : ddsMember (k + 1) (.struct n bs) = (indent (k + 1) ++ cs!"Structure {" ++ ['\n']) ++
        bs.flatMap (ddsBase (k + 1 + 1)) ++ (indent (k + 1) ++ (cs!"} " ++ n ++ [';']) ++ ['\n']) := by
      simp [ddsMember]
    rw [e, strBytes_append, strBytes_append, strBytes_flatMap]
    exact SF_app (SF_app (SF_indented k _ (plain_lit _ (by decide)))
      (SF_flatMap _ _ (fun b hb' => ddsBase_SF (k + 1) b (hb b hb'))))
      (SF_indented k _ (plain_append (plain_append (plain_lit _ (by decide)) hn) (plain_lit _ (by decide))))

theorem ddsVar_SF (k : Nat) (v : Var) (h : v.Plain) : SF (strBytes (ddsVar (k + 1) v)) := by
  cases v with
  | base b => exact ddsBase_SF k b h
  | struct n ms =>
    obtain ⟨hn, hm⟩ := h
    have e : ddsVar (k + 1) (.struct n ms) = (indent (k + 1) ++ cs!"Structure {" ++ ['\n']) ++
        ms.flatMap (ddsMember (k + 1 + 1)) ++ (indent (k + 1) ++ (cs!"} " ++ n ++ [';']) ++ ['\n']) := by
      simp [ddsVar]
    rw [e, strBytes_append, strBytes_append, strBytes_flatMap]
    exact SF_app (SF_app (SF_indented k _ (plain_lit _ (by decide)))
      (SF_flatMap _ _ (fun m hm' => ddsMember_SF (k + 1) m (hm m hm'))))
      (SF_indented k _ (plain_append (plain_append (plain_lit _ (by decide)) hn) (plain_lit _ (by decide))))
  | grid n a ms =>
    obtain ⟨hn, ha, hm⟩ := h
    have e : ddsVar (k + 1) (.grid n a ms) = (indent (k + 1) ++ cs!"Grid {" ++ ['\n']) ++
        (indent (k + 1 + 1) ++ cs!"Array:" ++ ['\n']) ++ ddsBase (k + 1 + 1 + 1) a ++
        (indent (k + 1 + 1) ++ cs!"Maps:" ++ ['\n']) ++ ms.flatMap (ddsBase (k + 1 + 1 + 1)) ++
        (indent (k + 1) ++ (cs!"} " ++ n ++ [';']) ++ ['\n']) := by
      simp [ddsVar]
    rw [e]
    simp only [strBytes_append, strBytes_flatMap]
    have s1 := SF_indented k _ (plain_lit (cs!"Grid {") (by decide))
    have s2 := SF_indented (k + 1) _ (plain_lit (cs!"Array:") (by decide))
    have s3 := ddsBase_SF (k + 1 + 1) a ha
    have s4 := SF_indented (k + 1) _ (plain_lit (cs!"Maps:") (by decide))
    have s5 := SF_flatMap (fun b => strBytes (ddsBase (k + 1 + 1 + 1) b)) ms (fun b hb => ddsBase_SF (k + 1 + 1) b (hm b hb))
    have s6 := SF_indented k _ (plain_append (plain_append (plain_lit (cs!"} ") (by decide)) hn) (plain_lit [';'] (by decide)))
    simp only [strBytes_append] at s1 s2 s4 s6
    exact SF_app (SF_app (SF_app (SF_app (SF_app s1 s2) s3) s4) s5) s6
  | seq n cols rows =>
    obtain ⟨hn, hc⟩ := h
    have e : ddsVar (k + 1) (.seq n cols rows) = (indent (k + 1) ++ cs!"Sequence {" ++ ['\n']) ++
        cols.flatMap (fun c => indent (k + 1 + 1) ++ (c.2 ++ [' '] ++ c.1 ++ [';']) ++ ['\n']) ++
        (indent (k + 1) ++ (cs!"} " ++ n ++ [';']) ++ ['\n']) := by
      simp [ddsVar]
    rw [e, strBytes_append, strBytes_append, strBytes_flatMap]
    exact SF_app (SF_app (SF_indented k _ (plain_lit _ (by decide)))
      (SF_flatMap _ _ (fun c hc' => SF_indented (k + 1) _ (plain_append (plain_append (plain_append (hc c hc').2
        (plain_lit _ (by decide))) (hc c hc').1) (plain_lit _ (by decide))))))
      (SF_indented k _ (plain_append (plain_append (plain_lit _ (by decide)) hn) (plain_lit _ (by decide))))

/-- **the DDS the handler prints never contains the separator**: it ends with a newline, and in the text before
    that newline no newline is followed by `D` -/
theorem ddsText_sepFree (ds : Dataset) (h : ds.Plain) :
    ∃ s0, ddsText ds = s0 ++ ['\n'] ∧ sepFree (strBytes s0) = true := by
  obtain ⟨hn, hv⟩ := h
  refine ⟨cs!"Dataset {" ++ (['\n'] ++ (ds.vars.flatMap (ddsVar 1) ++ (cs!"} " ++ ds.name ++ [';']))), by simp [ddsText], ?_⟩
  rw [strBytes_append, sepFree_append (strBytes (cs!"Dataset {")) _ (enc_plain (plain_lit _ (by decide)))]
  have s1 : SF (strBytes (ds.vars.flatMap (ddsVar 1))) := by
    rw [strBytes_flatMap]
    exact SF_flatMap _ _ (fun v hv' => ddsVar_SF 0 v (hv v hv'))
  have hl : Plain (cs!"} " ++ ds.name ++ [';']) :=
    plain_append (plain_append (plain_lit _ (by decide)) hn) (plain_lit _ (by decide))
  have s2 : SF (strBytes (cs!"} " ++ ds.name ++ [';'])) := by
    refine ⟨?_, by simp [strBytes]⟩
    have := sepFree_append (strBytes (cs!"} " ++ ds.name ++ [';'])) [] (enc_plain hl)
    rw [List.append_nil] at this
    rw [this]; rfl
  have s := SF_app s1 s2
  rw [strBytes_append, ← strBytes_append]
  show sepFree (10 :: strBytes (ds.vars.flatMap (ddsVar 1) ++ (cs!"} " ++ ds.name ++ [';']))) = true
  rw [strBytes_append]
  generalize strBytes (ds.vars.flatMap (ddsVar 1)) ++ strBytes (cs!"} " ++ ds.name ++ [';']) = X at s
  cases X with
  | nil => rfl
  | cons y r =>
    have hy : y ≠ 68 := fun e => s.2 (by simp [e])
    simp only [sepFree, Bool.and_eq_true, Bool.or_eq_true, bne_iff_ne]
    exact ⟨Or.inr hy, by simpa [sepFree] using s.1⟩

end Pydap.Handler
