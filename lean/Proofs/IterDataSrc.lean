/-
  The source text of handlers/lib.py `IterData.__getitem__` and `IterData.__iter__`, translated on every run by
  harness/py2lean.py into MiniPy syntax (PydapModel/Generated/IterDataSrc.lean), computes the model's
  `IterData.getitem` (which of `ifilter` / `imap` / `islice` a key extends, at which end, with what) and wraps the
  stages `IterData.iter` applies, in its order (C17).

  Representation.  The fields of `out = copy.copy(self)` are the variables `out.level`, `out.template`, `out.imap`,
  `out.ifilter`, `out.islice` (the copy itself is set aside: `__copy__` is the hand-written model's, compared by the
  correspondence run).  Function objects (the closures in `ifilter` / `imap`) and templates are opaque objects: the
  theorems hold for EVERY assignment of tags to them (`Enc`).  The calls that make them — `deep_map(itemgetter(col),
  out.level)`, `deep_map(lambda row: …, out.level + 1)`, `build_filter(key, self.root)` — are inputs of the block bound
  to the closure the model records; the arguments the source passes are recorded (`@item_map.arg0` …) and are part of
  the statements below.
-/
import Proofs.MiniPy
import PydapModel.IterData
import PydapModel.Generated.IterDataSrc
set_option linter.unusedSimpArgs false
namespace Pydap
open MiniPy IterData

/-- the values bound to `xs` after running `body` from `env` -/
def runItems (env : Env) (body : Stmt) (xs : List String) : Except MiniPy.Err (List Val) :=
  (exec env body) >>= (fun e => xs.mapM (lookup e))

/-- a Python list of strings (`[]` is MiniPy's `ilist []`) -/
def strListVal (l : List (List Nat)) : Val :=
  match l with
  | [] => .ilist []
  | _ => .slist l

def isliceItem (p : PSlice) : MiniPy.Item := .slice p.start p.stop p.step

/-- an arbitrary naming of the opaque objects -/
structure IEnc (A : Type) where
  filt : Filt A → Nat
  map : MapF → Nat
  tmpl : Tmpl → Nat
  cond : Cond → Nat
  root : Nat
  self : Nat

section
variable {A : Type}

/-- a key as the Python object `__getitem__` receives -/
def keyVal (E : IEnc A) : Key → Val
  | .str k => .str (codesOf k)
  | .list ks => strListVal (ks.map codesOf)
  | .int i => .int i
  | .slice s => .slice s.start s.stop s.step
  | .cond c => .obj (E.cond c)

def isCond : Key → Bool
  | .cond _ => true
  | _ => false

/-- the opaque inputs of the block -/
structure GiIn where
  vis : Val := .none          -- `list(self.template.keys())`
  child : Val := .none        -- `out.template[key]`
  cols : Val := .none         -- `[list(self.template.keys()).index(k) for k in key]`
  item : Val := .none         -- `deep_map(operator.itemgetter(col), out.level)`
  proj : Val := .none         -- `deep_map(lambda row: tuple(row[i] for i in cols), out.level + 1)`
  bf0 : Val := .none          -- `build_filter(key, self.root)[0]`
  bf1 : Val := .none          -- `build_filter(key, self.root)[1]`

/-- the environment `__getitem__` runs in after `out = copy.copy(self)` -/
def giEnv (E : IEnc A) (s : Stream A) (key : Val) (isce : Bool) (i : GiIn) : Env :=
  [("key", key), ("@is_ce", .bool isce), ("@visible_keys", i.vis), ("@child_template", i.child), ("@cols", i.cols),
   ("@item_map", i.item), ("@proj_map", i.proj), ("@build_filter.0", i.bf0), ("@build_filter.1", i.bf1),
   ("self.root", .obj E.root), ("out", .obj E.self),
   ("out.level", .int s.level), ("out.template", .obj (E.tmpl s.template)),
   ("out.ifilter", .olist (s.ifilter.map E.filt)), ("out.imap", .olist (s.imap.map E.map)),
   ("out.islice", .tuple (s.islice.map isliceItem))]

/-- the fields of the returned stream, in the order of `streamVals` -/
def streamFields : List String := ["@ret", "out.level", "out.ifilter", "out.imap", "out.islice"]

def streamVals (E : IEnc A) (s : Stream A) : List Val :=
  [.obj E.self, .int s.level, .olist (s.ifilter.map E.filt), .olist (s.imap.map E.map),
   .tuple (s.islice.map isliceItem)]

theorem indexOf_codes (ks : List Name) (k : Name) :
    MiniPy.indexOf? (ks.map codesOf) (codesOf k) = IterData.indexOf? ks k := by
  induction ks with
  | nil => rfl
  | cons y t ih =>
    simp only [List.map_cons, MiniPy.indexOf?, ih, IterData.indexOf?, List.idxOf_cons, List.length_cons]
    by_cases h : y = k
    · subst h; simp
    · have h1 : ¬ codesOf y = codesOf k := fun e => h (codesOf_inj.mp e)
      have h2 : (y == k) = false := beq_eq_false_iff_ne.mpr h
      simp only [h1, h2, if_false, cond_false]
      by_cases hl : List.idxOf k t < t.length
      · simp [hl]
      · simp [hl]

theorem eval_indexOf_vis (env : Env) (ks : List Name) (k : Name)
    (h1 : lookup env "@visible_keys" = .ok (strListVal (ks.map codesOf)))
    (h2 : lookup env "key" = .ok (.str (codesOf k))) :
    eval env (.indexOf (.var "@visible_keys") (.var "key")) =
      (match IterData.indexOf? ks k with
       | some i => .ok (.int i)
       | none => .error .valueError) := by
  cases ks with
  | nil => simp only [eval, h1, h2, bind_ok', strListVal, List.map_nil]; rfl
  | cons y t =>
    simp only [eval, h1, h2, bind_ok', strListVal, List.map_cons]
    rw [← indexOf_codes (y :: t) k]
    simp only [List.map_cons]
    cases MiniPy.indexOf? (codesOf y :: List.map codesOf t) (codesOf k) <;> rfl

/-- symbolic execution inside this file -/
macro "gi_sym" : tactic => `(tactic|
  (simp (decide := true) only [runItems, giEnv, streamFields, streamVals, exec, eval, bind_ok', bind_error',
    lookup_cons_eq, lookup_cons_ne, lookup_setVar_eq, lookup_setVar_ne, truthy_bool', keyVal, strListVal,
    List.mapM_cons, List.mapM_nil, if_true, if_false, Bool.false_eq_true, asInt_int, toOpt_int, toOpt_none,
    appendVal, insertFrontVal, pure, Except.pure, Bool.or_false, Bool.or_true, Bool.false_or, Bool.true_or,
    or_bool, and_bool, reduceCtorEq, List.cons_append, List.nil_append]))

/-! ### `key` is a string: the child selection -/

theorem src_getitem_str (E : IEnc A) (lit : List Char → Option A) (s : Stream A) (t : SeqT) (k : Name)
    (ht : s.template = .seq t) (i : GiIn)
    (hv : i.vis = strListVal (t.visible.map codesOf))
    (hc : i.child = .obj (E.tmpl (.base (t.id ++ '.' :: k))))
    (hm : i.item = .obj (E.map (.item (t.visible.idxOf k) (s.level + 1)))) :
    runItems (giEnv E s (keyVal E (.str k)) false i) Gen.src_iterdata_getitem
        (streamFields ++ ["out.template", "@item_map.arg0", "@item_map.arg1"])
      = (match getitem lit s (.str k) with
         | .ok s' => .ok (streamVals E s' ++ [.obj (E.tmpl s'.template), .int (t.visible.idxOf k), .int s'.level])
         | .error _ => .error (.raised "KeyError")) := by
  unfold Gen.src_iterdata_getitem
  obtain ⟨vis, child, cols, item, proj, bf0, bf1⟩ := i
  simp only at hv hc hm
  subst hv hc hm
  have hidx := fun env => eval_indexOf_vis env t.visible k
  simp only [getitem, ht]
  cases hk : IterData.indexOf? t.visible k with
  | none =>
    simp (decide := true) only [↓ hidx, hk, runItems, giEnv, exec, eval, bind_ok', bind_error', lookup_cons_eq, lookup_cons_ne,
      truthy_bool', keyVal, if_true, errMatches, Bool.or_false, beq_self_eq_true]
  | some col =>
    have hcol : t.visible.idxOf k = col := by
      simp only [IterData.indexOf?] at hk
      split at hk
      · exact Option.some.inj hk
      · cases hk
    simp (decide := true) only [↓ hidx, hk, hcol, runItems, giEnv, exec, eval, bind_ok', lookup_cons_eq, lookup_cons_ne,
      truthy_bool', keyVal, if_true, lookup_setVar_eq, lookup_setVar_ne, asInt_int, appendVal, streamFields, streamVals,
      List.cons_append, List.nil_append, List.mapM_cons, List.mapM_nil, pure, Except.pure, List.map_append,
      List.map_cons, List.map_nil, Int.natCast_add, Int.natCast_one]

/-! ### `key` is a list: the column selection -/

theorem src_getitem_list (E : IEnc A) (lit : List Char → Option A) (s s' : Stream A) (t : SeqT) (ks : List Name)
    (cols : List Nat) (ht : s.template = .seq t) (hcols : ks.mapM (IterData.indexOf? t.visible) = some cols) (i : GiIn)
    (hc : i.cols = .ilist (cols.map Int.ofNat))
    (hp : i.proj = .obj (E.map (.proj cols (s.level + 1))))
    (h : getitem lit s (.list ks) = .ok s') :
    runItems (giEnv E s (keyVal E (.list ks)) false i) Gen.src_iterdata_getitem
        (streamFields ++ ["out.template", "out.template._visible_keys", "@proj_map.arg0", "@proj_map.arg1"])
      = .ok (streamVals E s' ++ [.obj (E.tmpl s.template), strListVal (ks.map codesOf), .ilist (cols.map Int.ofNat),
              .int (s.level + 1)]) := by
  unfold Gen.src_iterdata_getitem
  obtain ⟨vis, child, cols', item, proj, bf0, bf1⟩ := i
  simp only at hc hp
  subst hc hp
  simp only [getitem, ht, hcols, Except.ok.injEq] at h
  subst h
  cases ks with
  | nil => gi_sym; simp only [List.map_append, List.map_cons, List.map_nil]
  | cons k0 kt =>
    simp only [runItems, giEnv, keyVal, strListVal, List.map_cons]
    gi_sym; simp only [List.map_append, List.map_cons, List.map_nil]

/-! ### `key` is an int or a slice: one more `islice` -/

theorem src_getitem_int (E : IEnc A) (lit : List Char → Option A) (s s' : Stream A) (n : Int) (i : GiIn)
    (h : getitem lit s (.int n) = .ok s') :
    runItems (giEnv E s (keyVal E (.int n)) false i) Gen.src_iterdata_getitem streamFields
      = .ok (streamVals E s') := by
  unfold Gen.src_iterdata_getitem
  simp only [getitem, Except.ok.injEq] at h
  subst h
  gi_sym
  simp only [List.map_append, List.map_cons, List.map_nil, isliceItem]

theorem src_getitem_slice (E : IEnc A) (lit : List Char → Option A) (s s' : Stream A) (p : PSlice) (i : GiIn)
    (h : getitem lit s (.slice p) = .ok s') :
    runItems (giEnv E s (keyVal E (.slice p)) false i) Gen.src_iterdata_getitem streamFields
      = .ok (streamVals E s') := by
  unfold Gen.src_iterdata_getitem
  simp only [getitem, Except.ok.injEq] at h
  subst h
  gi_sym
  simp only [List.map_append, List.map_cons, List.map_nil, isliceItem]

/-! ### `key` is a `ConstraintExpression`: the filter is appended, its map goes to the FRONT of `imap`; the clause is
    resolved against `self.root` (the second argument the source passes to `build_filter`) -/

theorem src_getitem_cond (E : IEnc A) (lit : List Char → Option A) (s s' : Stream A) (c : Cond) (f : Filt A) (m : MapF)
    (i : GiIn) (hb : buildFilter lit c s.root = .ok (f, m))
    (h0 : i.bf0 = .obj (E.filt f)) (h1 : i.bf1 = .obj (E.map m))
    (h : getitem lit s (.cond c) = .ok s') :
    runItems (giEnv E s (keyVal E (.cond c)) true i) Gen.src_iterdata_getitem
        (streamFields ++ ["@build_filter.arg0", "@build_filter.arg1"])
      = .ok (streamVals E s' ++ [.obj (E.cond c), .obj E.root]) := by
  unfold Gen.src_iterdata_getitem
  obtain ⟨vis, child, cols', item, proj, bf0, bf1⟩ := i
  simp only at h0 h1
  subst h0 h1
  simp only [getitem, hb, bind, Except.bind, pure, Except.pure, Except.ok.injEq] at h
  subst h
  gi_sym
  simp only [List.map_append, List.map_cons, List.map_nil]

/-! ### any other key: `KeyError` -/

/-- Python objects that are none of str, list, int, slice -/
def otherKey : Val → Bool
  | .none => true
  | .float _ => true
  | .obj _ => true
  | .tuple _ => true
  | _ => false

theorem src_getitem_other (E : IEnc A) (s : Stream A) (v : Val) (hv : otherKey v = true) (i : GiIn) (xs : List String) :
    runItems (giEnv E s v false i) Gen.src_iterdata_getitem xs = .error (.raised "KeyError") := by
  unfold Gen.src_iterdata_getitem
  cases v <;> simp only [otherKey, Bool.false_eq_true] at hv <;> gi_sym

/-! ### `__iter__`: the stages are wrapped in the order filters, maps, slices -/

/-- a `for x in items: data = <stage>(x, data)` loop appends one stage per item and touches nothing else -/
theorem fold_stages (x : String) (body : Stmt) (stage : Val → Stage) (items : List Val)
    (hturn : ∀ env v src st, v ∈ items → lookup env "data" = .ok (.pipe src st) →
      exec (setVar env x v) body = .ok (setVar (setVar env x v) "data" (.pipe src (st ++ [stage v])))) :
    ∀ env src st, lookup env "data" = .ok (.pipe src st) →
      ∃ env', items.foldlM (fun env v => exec (setVar env x v) body) env = .ok env'
        ∧ lookup env' "data" = .ok (.pipe src (st ++ items.map stage))
        ∧ ∀ y, (x == y) = false → ("data" == y) = false → lookup env' y = lookup env y := by
  induction items with
  | nil => intro env src st h; exact ⟨env, rfl, by simpa using h, fun _ _ _ => rfl⟩
  | cons v t ih =>
    intro env src st h
    have ih := ih (fun env v src st hv => hturn env v src st (List.mem_cons_of_mem _ hv))
    have h1 := hturn env v src st List.mem_cons_self h
    obtain ⟨env', hf, hd, hy⟩ := ih (setVar (setVar env x v) "data" (.pipe src (st ++ [stage v]))) src (st ++ [stage v])
      (lookup_setVar_eq _ _ _)
    refine ⟨env', ?_, ?_, ?_⟩
    · simp only [List.foldlM_cons, h1, bind_ok', hf]
    · simpa using hd
    · intro y hxy hdy
      rw [hy y hxy hdy, lookup_setVar_ne _ _ _ _ hdy, lookup_setVar_ne _ _ _ _ hxy]

/-- the stages of a stream as the model records them -/
inductive MStage (A : Type) where
  | filt (f : Filt A)
  | map (m : MapF)
  | islice (p : PSlice)

def encStage (E : IEnc A) : MStage A → Stage
  | .filt f => .filt (E.filt f)
  | .map m => .map (E.map m)
  | .islice p => .islice p.start p.stop p.step

/-- `__iter__` wraps: every filter (in list order), then every map, then every slice -/
def stagesOf (s : Stream A) : List (MStage A) :=
  s.ifilter.map .filt ++ s.imap.map .map ++ s.islice.map .islice

theorem src_iterdata_iter_eq (E : IEnc A) (s : Stream A) (stream : Nat) :
    runItem [("self.stream", .obj stream), ("self.ifilter", .olist (s.ifilter.map E.filt)),
             ("self.imap", .olist (s.imap.map E.map)), ("self.islice", .tuple (s.islice.map isliceItem))]
        Gen.src_iterdata_iter "@ret"
      = .ok (.pipe stream ((stagesOf s).map (encStage E))) := by
  have hshape : ∃ b1 b2 b3, Gen.src_iterdata_iter =
      .seq (.assign "data" (.iterOf (.var "self.stream")))
        (.seq (.forIn "f" (.var "self.ifilter") b1) (.seq (.forIn "m" (.var "self.imap") b2)
          (.seq (.forIn "s" (.var "self.islice") b3) (.assign "@ret" (.var "data"))))) ∧
      b1 = .assign "data" (.pyFilter (.var "f") (.var "data")) ∧
      b2 = .assign "data" (.pyMap (.var "m") (.var "data")) ∧
      b3 = .assign "data" (.pyIslice (.var "data") (.attr (.var "s") "start") (.attr (.var "s") "stop")
            (.attr (.var "s") "step")) := ⟨_, _, _, rfl, rfl, rfl, rfl⟩
  obtain ⟨b1, b2, b3, hb, e1, e2, e3⟩ := hshape
  rw [hb]
  generalize henv0 : ([("self.stream", Val.obj stream), ("self.ifilter", Val.olist (s.ifilter.map E.filt)),
             ("self.imap", .olist (s.imap.map E.map)), ("self.islice", .tuple (s.islice.map isliceItem))] : Env) = env0
  -- the three loops
  have l1 := fold_stages "f" b1 (fun v => match v with | .obj t => .filt t | _ => .filt 0) 
    ((s.ifilter.map E.filt).map .obj) (by
      intro env v src st hv hd
      obtain ⟨t, _, rfl⟩ := List.mem_map.mp hv
      subst e1
      simp (decide := true) only [exec, eval, bind_ok', lookup_setVar_eq, lookup_setVar_ne, hd])
  have l2 := fold_stages "m" b2 (fun v => match v with | .obj t => .map t | _ => .filt 0) 
    ((s.imap.map E.map).map .obj) (by
      intro env v src st hv hd
      obtain ⟨t, _, rfl⟩ := List.mem_map.mp hv
      subst e2
      simp (decide := true) only [exec, eval, bind_ok', lookup_setVar_eq, lookup_setVar_ne, hd])
  have l3 := fold_stages "s" b3 (fun v => match v with | .slice a b c => .islice a b c | _ => .filt 0) 
    ((s.islice.map isliceItem).map Item.toVal) (by
      intro env v src st hv hd
      obtain ⟨t, ht, rfl⟩ := List.mem_map.mp hv
      obtain ⟨p, _, rfl⟩ := List.mem_map.mp ht
      subst e3
      cases hs : p.start <;> cases hp : p.stop <;> cases hk : p.step <;>
      simp (decide := true) only [exec, eval, bind_ok', lookup_setVar_eq, lookup_setVar_ne, hd, isliceItem, toVal_slice,
        hs, hp, hk, ofOpt_some, ofOpt_none, toOpt_int, toOpt_none, beq_self_eq_true, if_true, if_false,
        Bool.false_eq_true])
  -- run
  have hd0 : lookup (setVar env0 "data" (.pipe stream [])) "data" = .ok (.pipe stream []) := lookup_setVar_eq _ _ _
  obtain ⟨env1, f1, d1, y1⟩ := l1 _ _ _ hd0
  obtain ⟨env2, f2, d2, y2⟩ := l2 env1 _ _ d1
  obtain ⟨env3, f3, d3, y3⟩ := l3 env2 _ _ d2
  have hif : lookup (setVar env0 "data" (.pipe stream [])) "self.ifilter" = .ok (.olist (s.ifilter.map E.filt)) := by
    subst henv0; simp (decide := true) only [lookup_setVar_ne, lookup_cons_eq, lookup_cons_ne]
  have him : lookup env1 "self.imap" = .ok (.olist (s.imap.map E.map)) := by
    rw [y1 _ (by decide) (by decide)]
    subst henv0; simp (decide := true) only [lookup_setVar_ne, lookup_cons_eq, lookup_cons_ne]
  have his : lookup env2 "self.islice" = .ok (.tuple (s.islice.map isliceItem)) := by
    rw [y2 _ (by decide) (by decide), y1 _ (by decide) (by decide)]
    subst henv0; simp (decide := true) only [lookup_setVar_ne, lookup_cons_eq, lookup_cons_ne]
  have hst : lookup env0 "self.stream" = .ok (.obj stream) := by
    subst henv0; simp (decide := true) only [lookup_cons_eq]
  simp only [runItem, exec, eval, bind_ok', hst, hif, him, his, iterItems, f1, f2, f3, d3, lookup_setVar_eq]
  congr 2
  simp only [stagesOf, List.map_append, List.map_map, List.nil_append, List.append_assoc]
  rfl

end
end Pydap
