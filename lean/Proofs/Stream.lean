/-
  C09 helper lemmas: StreamReader ⇄ BytesReader simulation, read-only decoders, prefixes.
-/
import PydapModel.Stream
namespace Pydap.Stream

/-! ## StreamReader refines the strict BytesReader over the concatenation -/

theorem srFill_ok (n : Nat) : ∀ (cs : List Bytes) (buf : Bytes), n ≤ (buf ++ cs.flatten).length →
    ∃ b cs', srFill n buf cs = .ok (b, cs') ∧ b ++ cs'.flatten = buf ++ cs.flatten ∧ n ≤ b.length := by
  intro cs
  induction cs with
  | nil =>
    intro buf h
    simp at h
    exact ⟨buf, [], by simp [srFill, h], rfl, h⟩
  | cons c cs ih =>
    intro buf h
    by_cases hb : n ≤ buf.length
    · exact ⟨buf, c :: cs, by simp [srFill, hb], rfl, hb⟩
    · have h' : n ≤ ((buf ++ c) ++ cs.flatten).length := by simpa [List.append_assoc] using h
      obtain ⟨b, cs', h1, h2, h3⟩ := ih (buf ++ c) h'
      refine ⟨b, cs', ?_, ?_, h3⟩
      · simp [srFill, hb, h1]
      · simpa [List.append_assoc] using h2

theorem srFill_err (n : Nat) : ∀ (cs : List Bytes) (buf : Bytes), ¬ n ≤ (buf ++ cs.flatten).length →
    srFill n buf cs = .error .eof := by
  intro cs
  induction cs with
  | nil => intro buf h; simp at h; simp [srFill]; omega
  | cons c cs ih =>
    intro buf h
    have hb : ¬ n ≤ buf.length := by simp at h; omega
    have h' : ¬ n ≤ ((buf ++ c) ++ cs.flatten).length := by simpa [List.append_assoc] using h
    simp [srFill, hb, ih (buf ++ c) h']

/-- one `StreamReader.read` = one strict `BytesReader.read` on everything the stream still holds -/
theorem srRead_sim (n : Nat) (r : SR) :
    (match srRead n r with
      | .ok x => brRead n r.abs = .ok (x.1, x.2.abs)
      | .error e => brRead n r.abs = .error e) := by
  obtain ⟨cs, buf⟩ := r
  by_cases h : n ≤ (buf ++ cs.flatten).length
  · obtain ⟨b, cs', h1, h2, h3⟩ := srFill_ok n cs buf h
    simp only [srRead, h1, SR.abs, brRead, h, if_true]
    rw [← h2]
    simp [List.take_append_of_le_length h3, List.drop_append_of_le_length h3]
  · have h2 := h
    simp at h2
    simp [srRead, srFill_err n cs buf h, SR.abs, brRead]
    omega

theorem srRead_ok {n : Nat} {r : SR} {x : Bytes × SR} (h : srRead n r = .ok x) :
    brRead n r.abs = .ok (x.1, x.2.abs) := by
  have := srRead_sim n r; rw [h] at this; exact this

theorem srRead_err {n : Nat} {r : SR} {e : Err} (h : srRead n r = .error e) :
    brRead n r.abs = .error e := by
  have := srRead_sim n r; rw [h] at this; exact this

/-- a list of reads gives the same results (and ends with the same error, at the same read) -/
theorem readMany_sim : ∀ (ns : List Nat) (r : SR), srReadMany ns r = brReadMany ns r.abs := by
  intro ns
  induction ns with
  | nil => intro r; rfl
  | cons n ns ih =>
    intro r
    cases h : srRead n r with
    | error e => simp [srReadMany, brReadMany, h, srRead_err h]
    | ok x => simp [srReadMany, brReadMany, h, srRead_ok h, ih]

/-! ## read-only decoders -/

/-- result of a run with the reader state abstracted to the bytes it still holds -/
def absSR (x : Except Err (α × SR)) : Except Err (α × Bytes) :=
  match x with
  | .ok y => .ok (y.1, y.2.abs)
  | .error e => .error e

theorem run_sim (d : Dec α) : ∀ r : SR, absSR (d.runSR r) = d.runBR r.abs := by
  induction d with
  | ret a => intro r; rfl
  | fail e => intro r; rfl
  | read n k ih =>
    intro r
    cases h : srRead n r with
    | error e => simp [Dec.runSR, Dec.runBR, h, srRead_err h, absSR]
    | ok x => simp [Dec.runSR, Dec.runBR, h, srRead_ok h, ih]

theorem runBR_length (d : Dec α) : ∀ (b : Bytes) (a : α) (r : Bytes), d.runBR b = .ok (a, r) →
    r.length ≤ b.length := by
  induction d with
  | ret a' => intro b a r h; simp [Dec.runBR] at h; rw [h.2]; exact Nat.le_refl _
  | fail e => intro b a r h; simp [Dec.runBR] at h
  | read n k ih =>
    intro b a r h
    by_cases hn : n ≤ b.length
    · simp [Dec.runBR, brRead, hn] at h
      have := ih _ _ _ _ h
      simp at this; omega
    · simp [Dec.runBR, brRead, hn] at h

/-- **what a strict reader makes of a prefix**: the decoder either still gets every byte it used on the
    whole input (then it returns the same value), or it runs out of data (then it raises `eof`). -/
theorem runBR_prefix (d : Dec α) : ∀ (b p : Bytes) (a : α) (r : Bytes), d.runBR b = .ok (a, r) → p <+: b →
    (b.length - r.length ≤ p.length ∧ d.runBR p = .ok (a, p.drop (b.length - r.length))) ∨
    (p.length < b.length - r.length ∧ d.runBR p = .error .eof) := by
  induction d with
  | ret a' =>
    intro b p a r h hp
    simp [Dec.runBR] at h
    left; rw [← h.2]; simp [Dec.runBR, h.1]
  | fail e => intro b p a r h; simp [Dec.runBR] at h
  | read n k ih =>
    intro b p a r h hp
    have hpl := hp.length_le
    by_cases hn : n ≤ b.length
    · simp [Dec.runBR, brRead, hn] at h
      have hrl := runBR_length _ _ _ _ h
      simp at hrl
      by_cases hnp : n ≤ p.length
      · obtain ⟨t, rfl⟩ := hp
        have htk : (p ++ t).take n = p.take n := List.take_append_of_le_length hnp
        have hdr : (p ++ t).drop n = p.drop n ++ t := List.drop_append_of_le_length hnp
        rw [htk, hdr] at h
        have hp' : p.drop n <+: p.drop n ++ t := List.prefix_append _ _
        rcases ih _ _ _ _ _ h hp' with ⟨h1, h2⟩ | ⟨h1, h2⟩
        · left
          simp at h1 hrl ⊢
          refine ⟨by omega, ?_⟩
          simp [Dec.runBR, brRead, hnp, h2]
          congr 1
          simp at *
          omega
        · right
          simp at h1 hrl ⊢
          refine ⟨by omega, ?_⟩
          simp [Dec.runBR, brRead, hnp, h2]
      · right
        refine ⟨by omega, ?_⟩
        simp [Dec.runBR, brRead, hnp]
    · simp [Dec.runBR, brRead, hn] at h

end Pydap.Stream
