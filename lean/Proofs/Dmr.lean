/-
  Lemmas about the DMR parser model (`PydapModel/Dmr.lean`).
-/
import PydapModel.Dmr
import PydapModel.DmrSpec
import Proofs.Hyperslab
namespace Pydap.Dmr

theorem filter_dims (ds : List SDim) (post : List XNode) (hp : ∀ n ∈ post, n.tag ≠ "Dim".toList) :
    (ds.map renderDim ++ post).filter (·.tag == "Dim".toList) = ds.map renderDim := by
  rw [List.filter_append]
  have h1 : (ds.map renderDim).filter (·.tag == "Dim".toList) = ds.map renderDim := by
    apply List.filter_eq_self.mpr
    intro n hn
    obtain ⟨d, _, rfl⟩ := List.mem_map.mp hn
    cases d <;> simp [renderDim, XNode.tag]
  have h2 : post.filter (·.tag == "Dim".toList) = [] := by
    apply List.filter_eq_nil_iff.mpr
    intro n hn
    simpa using hp n hn
  rw [h1, h2, List.append_nil]

theorem dimSize_render (nd : List (Str × Int)) (d : SDim)
    (h : ∀ fq s, d = .named fq s → dictGet nd (dimKey fq) = some s) :
    dimSize nd (renderDim d) = .ok d.size := by
  cases d with
  | named fq s =>
    have := h fq s rfl
    simp only [renderDim, dimSize, XNode.get, XNode.attrs, List.lookup, SDim.size]
    simp only [dimKey] at this
    simp [this]
  | anon n =>
    simp only [renderDim, dimSize, XNode.get, XNode.attrs, List.lookup, SDim.size]
    simp [parseIntChars_natDigits]

theorem mapM_dimSize (nd : List (Str × Int)) (ds : List SDim)
    (h : ∀ d ∈ ds, ∀ fq s, d = .named fq s → dictGet nd (dimKey fq) = some s) :
    (ds.map renderDim).mapM (dimSize nd) = .ok (ds.map SDim.size) := by
  induction ds with
  | nil => rfl
  | cons d ds ih =>
    simp only [List.map_cons, List.mapM_cons]
    rw [dimSize_render nd d (h d (by simp)), ih (fun x hx => h x (by simp [hx]))]
    rfl

theorem filterMap_names (ds : List SDim) :
    (ds.map renderDim).filterMap (fun d =>
      (d.get "name".toList).map fun name =>
        if noSlashAfterFirst name then name.filter (· != '/') else name) = SDim.names ds := by
  induction ds with
  | nil => rfl
  | cons d ds ih =>
    cases d with
    | named fq s =>
      simp only [List.map_cons, SDim.names, ← ih]
      simp [renderDim, XNode.get, XNode.attrs, List.lookup, dimKey]
    | anon n =>
      simp only [List.map_cons, SDim.names, ← ih]
      simp [renderDim, XNode.get, XNode.attrs, List.lookup]

end Pydap.Dmr
