import Proofs.DdsFuel
namespace Pydap.Dds
open Pydap

/-! ### the normal form: well-formed again, idempotent; the parser builds variables without data only -/

theorem normBase_ok {b : BaseV} (hb : BaseOk b) (sq : Nat) : BaseOk (normBase b sq) := by
  rw [normBase_entries]
  have he := entries_ok hb sq
  refine ⟨hb.1, ?_, ?_⟩
  · intro d hd
    simp only [List.mem_filterMap] at hd
    obtain ⟨e, hem, hed⟩ := hd
    exact (he e hem).2 d hed
  · intro n hn
    simp only [List.mem_map] at hn
    obtain ⟨e, hem, rfl⟩ := hn
    exact (he e hem).1

mutual
theorem normT_wf : (t : Tmpl) → (sq : Nat) → WFT t → WFT (normT t sq)
  | .base b, sq, h => by simp only [WFT] at h; simp only [normT, WFT]; exact normBase_ok h sq
  | .struct n kids, sq, h => by
    simp only [WFT] at h
    simp only [normT, WFT]
    exact ⟨h.1, normL_wf kids sq h.2.1, by rw [normL_names]; exact h.2.2⟩
  | .seq n kids, sq, h => by
    simp only [WFT] at h
    simp only [normT, WFT]
    exact ⟨h.1, normL_wf kids (sq + 1) h.2.1, by rw [normL_names]; exact h.2.2⟩
  | .grid n kids, sq, h => by
    simp only [WFT] at h
    simp only [normT, WFT]
    refine ⟨h.1, ?_, ?_⟩
    · intro b hb
      simp only [List.mem_map] at hb
      obtain ⟨a, ha, rfl⟩ := hb
      exact normBase_ok (h.2.1 a ha) sq
    · have : (kids.map fun b => normBase b sq).map (·.name) = kids.map (·.name) := by
        simp [Function.comp_def, normBase_entries]
      rw [this]; exact h.2.2
theorem normL_wf : (ts : List Tmpl) → (sq : Nat) → WFL ts → WFL (normL ts sq)
  | [], sq, h => by simp [normL, WFL]
  | t :: ts, sq, h => by
    simp only [WFL] at h
    simp only [normL, WFL]
    exact ⟨normT_wf t sq h.1, normL_wf ts sq h.2⟩
end

theorem normDs_wf (d : Dataset) (h : WFds d) : WFds (normDs d) :=
  ⟨h.1, normL_wf d.kids 0 h.2.1, by simp only [normDs]; rw [normL_names]; exact h.2.2⟩

/-! ### `norm` is idempotent (at any depths: a normal form has no record axes left to strip) -/

theorem normTy_idem (dt : Text) : normTy (normTy dt) = normTy dt := by
  cases hl : lookup Gen.NUMPY_TO_DAP2_TYPEMAP (dtypeChar dt) with
  | none =>
    have h0 : normTy dt = [] := by simp [normTy, hl]
    rw [h0]; decide
  | some ty =>
    obtain ⟨d, tf⟩ := tyFacts _ _ hl
    have h0 : normTy dt = d := by simp [normTy, hl, tf.parser]
    rw [h0]
    simp [normTy, tf.back, tf.parser]

theorem normBase_idem (b : BaseV) (sq sq' : Nat) : normBase (normBase b sq) sq' = normBase b sq := by
  have key : ∀ sh : List Int, normBase b sq =
      (if b.dims ≠ [] then ⟨b.name, normTy b.dt, (b.dims.zip sh).map (·.2), (b.dims.zip sh).map (·.1), true⟩
       else if sh.length = 1 then ⟨b.name, normTy b.dt, sh, sh.map fun _ => b.name, true⟩
       else ⟨b.name, normTy b.dt, sh, [], true⟩) →
      normBase (normBase b sq) sq' = normBase b sq := by
    intro sh e
    rw [e]
    by_cases h1 : b.dims ≠ []
    · rw [if_pos h1]
      generalize b.dims.zip sh = z
      cases z with
      | nil => simp [normBase, effShape, normTy_idem]
      | cons p ps => simp [normBase, effShape, normTy_idem, zip_map_fst_snd]
    · rw [if_neg h1]
      by_cases h2 : sh.length = 1
      · rw [if_pos h2]
        match sh, h2 with
        | [n], _ => simp [normBase, effShape, normTy_idem]
      · rw [if_neg h2]
        simp [normBase, effShape, normTy_idem, h2]
  exact key (effShape b sq) rfl

mutual
theorem normT_idem : (t : Tmpl) → (sq sq' : Nat) → normT (normT t sq) sq' = normT t sq
  | .base b, sq, sq' => by simp only [normT, normBase_idem]
  | .struct n kids, sq, sq' => by simp only [normT, normL_idem kids sq sq']
  | .seq n kids, sq, sq' => by simp only [normT, normL_idem kids (sq + 1) (sq' + 1)]
  | .grid n kids, sq, sq' => by simp [normT, normBase_idem]
theorem normL_idem : (ts : List Tmpl) → (sq sq' : Nat) → normL (normL ts sq) sq' = normL ts sq
  | [], _, _ => by simp [normL]
  | t :: ts, sq, sq' => by simp only [normL, normT_idem t sq sq', normL_idem ts sq sq']
end

theorem normDs_idem (d : Dataset) : normDs (normDs d) = normDs d := by
  simp only [normDs, normL_idem]
/-! ### the parser builds variables without data only -/

mutual
def NoDataT : Tmpl → Prop
  | .base b => b.nodata = true
  | .struct _ kids => NoDataL kids
  | .seq _ kids => NoDataL kids
  | .grid _ kids => ∀ b ∈ kids, b.nodata = true
def NoDataL : List Tmpl → Prop
  | [] => True
  | t :: ts => NoDataT t ∧ NoDataL ts
end

theorem noDataL_iff (ts : List Tmpl) : NoDataL ts ↔ ∀ t ∈ ts, NoDataT t := by
  induction ts with
  | nil => simp [NoDataL]
  | cons t ts ih => simp [NoDataL, ih]

theorem base_nodata (buf : Text) (v : BaseV) (r : Text) (h : base buf = .ok (v, r)) : v.nodata = true := by
  unfold base at h
  repeat' split at h
  all_goals cases h
  rfl

theorem mapsLoop_nodata : ∀ (fuel : Nat) (buf : Text) (vs : List BaseV) (r : Text),
    mapsLoop fuel buf = .ok (vs, r) → ∀ v ∈ vs, v.nodata = true := by
  intro fuel
  induction fuel with
  | zero =>
    intro buf vs r h
    simp only [mapsLoop] at h
    split at h
    · injection h with h; injection h with h _; subst h; simp
    · cases h
  | succ f ih =>
    intro buf vs r h
    simp only [mapsLoop] at h
    split at h
    · injection h with h; injection h with h _; subst h; simp
    · split at h
      · cases h
      · rename_i v b1 h1
        split at h
        · cases h
        · rename_i vs' b2 h2
          injection h with h; injection h with h _; subst h
          intro x hx
          rcases List.mem_cons.mp hx with rfl | hx
          · exact base_nodata _ _ _ h1
          · exact ih _ _ _ h2 x hx

theorem addChildB_mem (acc : List BaseV) (v x : BaseV) (h : x ∈ addChildB acc v) : x ∈ acc ∨ x = v := by
  simp only [addChildB, List.mem_append, List.mem_filter, List.mem_singleton] at h
  rcases h with h | h
  · exact Or.inl h.1
  · exact Or.inr h

theorem foldl_addChildB_mem (l acc : List BaseV) (x : BaseV) (h : x ∈ l.foldl addChildB acc) : x ∈ acc ∨ x ∈ l := by
  induction l generalizing acc with
  | nil => exact Or.inl h
  | cons v vs ih =>
    rcases ih _ h with h | h
    · rcases addChildB_mem _ _ _ h with h | h
      · exact Or.inl h
      · exact Or.inr (by simp [h])
    · exact Or.inr (by simp [h])

theorem insertAllB_mem (l : List BaseV) (x : BaseV) (h : x ∈ insertAllB l) : x ∈ l := by
  rcases foldl_addChildB_mem l [] x h with h | h
  · cases h
  · exact h

theorem addChild_mem (acc : List Tmpl) (v x : Tmpl) (h : x ∈ addChild acc v) : x ∈ acc ∨ x = v := by
  simp only [addChild, List.mem_append, List.mem_filter, List.mem_singleton] at h
  rcases h with h | h
  · exact Or.inl h.1
  · exact Or.inr h

theorem foldl_addChild_mem (l acc : List Tmpl) (x : Tmpl) (h : x ∈ l.foldl addChild acc) : x ∈ acc ∨ x ∈ l := by
  induction l generalizing acc with
  | nil => exact Or.inl h
  | cons v vs ih =>
    rcases ih _ h with h | h
    · rcases addChild_mem _ _ _ h with h | h
      · exact Or.inl h
      · exact Or.inr (by simp [h])
    · exact Or.inr (by simp [h])

theorem insertAll_nodata (l : List Tmpl) (h : NoDataL l) : NoDataL (insertAll l) := by
  rw [noDataL_iff] at *
  intro t ht
  rcases foldl_addChild_mem l [] t ht with h' | h'
  · cases h'
  · exact h t h'

theorem grid_nodata (buf : Text) (t : Tmpl) (r : Text) (h : grid buf = .ok (t, r)) : NoDataT t := by
  unfold grid at h
  repeat' split at h
  all_goals cases h
  simp only [NoDataT]
  intro x hx
  rcases List.mem_cons.mp (insertAllB_mem _ _ hx) with rfl | hx
  · exact base_nodata _ _ _ (by assumption)
  · exact mapsLoop_nodata _ _ _ _ (by assumption) x hx

theorem declStep_nodata (recs : Text → Except Err (List Tmpl × Text)) (buf : Text)
    (hrec : ∀ b ts r, recs b = .ok (ts, r) → NoDataL ts)
    (t : Tmpl) (r : Text) (h : declStep recs buf = .ok (t, r)) : NoDataT t := by
  unfold declStep at h
  simp only at h
  split at h
  · exact grid_nodata _ _ _ h
  · split at h
    · repeat' split at h
      all_goals cases h
      · simp only [NoDataT]; exact insertAll_nodata _ (hrec _ _ _ (by assumption))
      · simp only [NoDataT]; exact insertAll_nodata _ (hrec _ _ _ (by assumption))
    · repeat' split at h
      all_goals cases h
      simp only [NoDataT]; exact base_nodata _ _ _ (by assumption)

theorem declsStep_nodata (recd : Text → Except Err (Tmpl × Text)) (recs : Text → Except Err (List Tmpl × Text))
    (buf : Text) (hd : ∀ b t r, recd b = .ok (t, r) → NoDataT t) (hs : ∀ b ts r, recs b = .ok (ts, r) → NoDataL ts)
    (ts : List Tmpl) (r : Text) (h : declsStep recd recs buf = .ok (ts, r)) : NoDataL ts := by
  unfold declsStep at h
  repeat' split at h
  all_goals cases h
  · simp [NoDataL]
  · exact ⟨hd _ _ _ (by assumption), hs _ _ _ (by assumption)⟩

theorem decl_decls_nodata : ∀ (F : Nat),
    (∀ buf t r, decl F buf = .ok (t, r) → NoDataT t) ∧
    (∀ buf ts r, decls F buf = .ok (ts, r) → NoDataL ts) := by
  intro F
  induction F with
  | zero =>
    refine ⟨fun buf t r h => by simp [decl] at h, fun buf ts r h => ?_⟩
    simp only [decls] at h
    split at h
    · cases h; simp [NoDataL]
    · cases h
  | succ f ih =>
    refine ⟨fun buf t r h => ?_, fun buf ts r h => ?_⟩
    · rw [decl_succ] at h
      exact declStep_nodata _ buf ih.2 t r h
    · rw [decls_succ] at h
      exact declsStep_nodata _ _ buf ih.1 ih.2 ts r h

/-- every variable of a parsed dataset is a variable without data (`DummyData`) -/
theorem parseDds_nodata (s : Text) (d : Dataset) (h : parseDds s = .ok d) : NoDataL d.kids := by
  unfold parseDds parseDdsWith at h
  repeat' split at h
  all_goals cases h
  exact insertAll_nodata _ ((decl_decls_nodata _).2 _ _ _ (by assumption))
end Pydap.Dds

