/-
  C19, round 6: the function branch of `ServerSideFunctions.handle` past the routing
  (`Ssf.fnProject` / `Ssf.fnDataset`) and the per-application function tables.
-/
import PydapModel.Ssf
namespace Pydap.Ssf
open Pydap Pydap.Handler

/-! ### the split of the projection commutes with `fix_shorthand` -/

theorem fixShorthand1_call (d : Dataset) (s : Str) (p : ProjItem) (h : fixShorthand1 d (.call s) = .ok p) :
    p = .call s := by
  simp only [fixShorthand1] at h
  split at h
  · simp at h
  · simp only [Except.ok.injEq] at h; exact h.symm

theorem fixShorthand1_path (d : Dataset) (parts : List (Str × List PSlice)) (p : ProjItem)
    (h : fixShorthand1 d (.path parts) = .ok p) : isCallItem p = false := by
  match parts, h with
  | [], h => simp only [fixShorthand1, Except.ok.injEq] at h; subst h; rfl
  | [(tok, sl)], h =>
    simp only [fixShorthand1] at h
    split at h
    · simp only [Except.ok.injEq] at h; subst h; rfl
    · split at h
      · simp only [Except.ok.injEq] at h; subst h; rfl
      · simp only [Except.ok.injEq] at h; subst h; rfl
      · simp at h
  | _ :: _ :: _, h => simp only [fixShorthand1, Except.ok.injEq] at h; subst h; rfl

/-- the items `fix_shorthand` hands back, one by one: calls stay calls (as they are), ordinary items stay ordinary -/
theorem mapM_fix_split (d : Dataset) : ∀ (proj proj' : List ProjItem),
    proj.mapM (fixShorthand1 d) = .ok proj' →
    (ordinary proj).mapM (fixShorthand1 d) = .ok (ordinary proj') ∧ callsOf proj' = callsOf proj
  | [], proj', h => by
    simp only [List.mapM_nil, pure, Except.pure, Except.ok.injEq] at h
    subst h; exact ⟨rfl, rfl⟩
  | p :: ps, proj', h => by
    rw [List.mapM_cons] at h
    cases h1 : fixShorthand1 d p with
    | error e => simp [h1, bind, Except.bind] at h
    | ok q =>
      cases h2 : ps.mapM (fixShorthand1 d) with
      | error e => simp [h1, h2, bind, Except.bind] at h
      | ok qs =>
        simp only [h1, h2, bind, Except.bind, pure, Except.pure, Except.ok.injEq] at h
        subst h
        obtain ⟨ih1, ih2⟩ := mapM_fix_split d ps qs h2
        cases p with
        | call s =>
          have := fixShorthand1_call d s q h1
          subst this
          exact ⟨by simpa [ordinary, isCallItem] using ih1, by simp [callsOf, ih2]⟩
        | path parts =>
          have hq := fixShorthand1_path d parts q h1
          have hq' : ∃ parts', q = .path parts' := by
            cases q with
            | call s => simp [isCallItem] at hq
            | path parts' => exact ⟨_, rfl⟩
          obtain ⟨parts', rfl⟩ := hq'
          refine ⟨?_, by simp [callsOf, ih2]⟩
          have e1 : ordinary (ProjItem.path parts :: ps) = .path parts :: ordinary ps := by simp [ordinary, isCallItem]
          have e2 : ordinary (ProjItem.path parts' :: qs) = .path parts' :: ordinary qs := by simp [ordinary, isCallItem]
          have ih1' : List.mapM (fixShorthand1 d) (ordinary ps) = .ok (ordinary qs) := ih1
          rw [e1, e2, List.mapM_cons, h1, ih1']
          rfl

/-! ### the insertion loop -/

/-- the results that end up in the answer: in the order of the calls, those whose name is not yet taken — by a
    variable already in the output or by an earlier result -/
def appended : List Str → List Var → List Var
  | _, [] => []
  | names, v :: vs => if names.contains v.name then appended names vs else v :: appended (names ++ [v.name]) vs

theorem insertResult_ok (out out' : List Var) (v : Var) (h : insertResult out v = .ok out') :
    out' = out ++ appended (out.map Var.name) [v] := by
  unfold insertResult at h
  split at h
  · simp at h
  · split at h
    · rename_i hc
      split at h
      · simp only [Except.ok.injEq] at h; subst h
        simp only [appended, hc, ↓reduceIte, List.append_nil]
      · simp at h
    · rename_i hc
      simp only [Except.ok.injEq] at h; subst h
      simp only [appended, hc, Bool.false_eq_true, ↓reduceIte]

theorem appended_cons (names : List Str) (v : Var) (vs : List Var) :
    appended names (v :: vs) = appended names [v] ++ appended (names ++ (appended names [v]).map Var.name) vs := by
  cases hc : names.contains v.name
  · simp only [appended, hc, Bool.false_eq_true, ↓reduceIte, List.map_cons, List.map_nil, List.cons_append, List.nil_append]
  · simp only [appended, hc, ↓reduceIte, List.map_nil, List.append_nil, List.nil_append]

/-- every call evaluated on the inner dataset, in order (`eval_function(dataset, call, self.functions)`) -/
def evalCalls (ev : Dataset → Str → Except Exc Var) (inner : Dataset) : List Str → Except Exc (List Var)
  | [] => .ok []
  | c :: cs =>
    match ev inner c with
    | .error e => .error e
    | .ok v =>
      match evalCalls ev inner cs with
      | .error e => .error e
      | .ok vs => .ok (v :: vs)

/-- if the loop over the calls ends, every call was evaluated (on the inner dataset), and the output is the output
    before the loop followed by the results whose name was still free, in the order of the calls -/
theorem insertResults_ok (ev : Dataset → Str → Except Exc Var) (inner : Dataset) :
    ∀ (cs : List Str) (out vars : List Var), insertResults ev inner out cs = .ok vars →
      ∃ rs, evalCalls ev inner cs = .ok rs ∧ vars = out ++ appended (out.map Var.name) rs
  | [], out, vars, h => by
    simp only [insertResults, Except.ok.injEq] at h
    exact ⟨[], rfl, by simp [appended, h]⟩
  | c :: cs, out, vars, h => by
    unfold insertResults at h
    cases h1 : ev inner c with
    | error e => simp [h1] at h
    | ok v =>
      simp only [h1] at h
      cases h2 : insertResult out v with
      | error e => simp [h2] at h
      | ok out' =>
        simp only [h2] at h
        obtain ⟨rs, hrs, hv⟩ := insertResults_ok ev inner cs out' vars h
        have e := insertResult_ok out out' v h2
        refine ⟨v :: rs, by simp [evalCalls, h1, hrs], ?_⟩
        rw [hv, appended_cons, e]
        simp [List.append_assoc]

/-- results with pairwise distinct names, none of them a name of the output: all of them, in order -/
theorem appended_all : ∀ (names : List Str) (vs : List Var),
    (vs.map Var.name).Nodup → (∀ v ∈ vs, v.name ∉ names) → appended names vs = vs
  | _, [], _, _ => rfl
  | names, v :: vs, hn, hd => by
    have h1 : names.contains v.name = false := by
      have := hd v (by simp)
      simpa using this
    simp only [List.map_cons, List.nodup_cons] at hn
    simp only [appended, h1, Bool.false_eq_true, ↓reduceIte, List.cons.injEq, true_and]
    apply appended_all _ vs hn.2
    intro w hw
    simp only [List.mem_append, List.mem_singleton, not_or]
    refine ⟨hd w (by simp [hw]), ?_⟩
    intro e
    exact hn.1 (by rw [← e]; exact List.mem_map_of_mem hw)

/-! ### the function branch -/

theorem fnProject_ok (ev : Dataset → Str → Except Exc Var) (inner ans : Dataset) (proj : List ProjItem)
    (hp : proj ≠ []) (h : fnProject ev inner proj = .ok ans) :
    ∃ items base rs, (ordinary proj).mapM (fixShorthand1 inner) = .ok items ∧
      applyProjection items inner = .ok base ∧
      evalCalls ev inner (callsOf proj) = .ok rs ∧
      ans = { base with vars := base.vars ++ appended (base.vars.map Var.name) rs } := by
  unfold fnProject at h
  rw [if_neg hp] at h
  cases h1 : proj.mapM (fixShorthand1 inner) with
  | error e => simp [h1] at h
  | ok proj' =>
    simp only [h1] at h
    obtain ⟨hs1, hs2⟩ := mapM_fix_split inner proj proj' h1
    cases h2 : applyProjection (ordinary proj') inner with
    | error e => simp [h2] at h
    | ok base =>
      simp only [h2] at h
      cases h3 : insertResults ev inner base.vars (callsOf proj') with
      | error e => simp [h3] at h
      | ok vars =>
        simp only [h3, Except.ok.injEq] at h
        rw [hs2] at h3
        obtain ⟨rs, hrs, hv⟩ := insertResults_ok ev inner _ _ _ h3
        exact ⟨ordinary proj', base, rs, hs1, h2, hrs, by rw [← h, hv]⟩

/-! ### function tables -/

theorem tlookup_tset (t : Table) (k : Str) (v : Nat) (n : Str) :
    tlookup (tset t k v) n = if k = n then some v else tlookup t n := by
  induction t with
  | nil => simp [tset, tlookup, List.find?]
  | cons e t ih =>
    obtain ⟨k', v'⟩ := e
    unfold tset
    by_cases hk : k' = k
    · subst hk
      by_cases hn : k' = n
      · simp [tlookup, hn]
      · simp [tlookup, List.find?, hn]
    · rw [if_neg hk]
      by_cases hn : k' = n
      · subst hn
        have : ¬ k = k' := fun e => hk e.symm
        simp [tlookup, List.find?, this]
      · have ih' := ih
        simp only [tlookup] at ih' ⊢
        simp only [List.find?, hn, decide_false]
        exact ih'

/-- `dict.update`: the last entry of the keyword table for a name wins, names it does not hold keep their value -/
theorem tlookup_tupdate : ∀ (kw t : Table) (n : Str),
    tlookup (tupdate t kw) n = (tlookup kw.reverse n).or (tlookup t n)
  | [], t, n => by simp [tupdate, tlookup]
  | (k, v) :: kw, t, n => by
    rw [tupdate, tlookup_tupdate kw (tset t k v) n, tlookup_tset]
    simp only [tlookup, List.reverse_cons, List.find?_append]
    cases h : List.find? (fun x => decide (x.1 = n)) kw.reverse with
    | some e => simp
    | none =>
      by_cases hk : k = n
      · simp [hk]
      · simp [hk]

theorem buildApps_stock (kws : List Table) : ∀ p : FProc, (buildApps p kws).stock = p.stock := by
  induction kws with
  | nil => intro p; rfl
  | cons kw kws ih => intro p; simp only [buildApps, List.foldl_cons] at ih ⊢; rw [ih]; rfl

theorem buildApps_apps (kws : List Table) : ∀ p : FProc,
    (buildApps p kws).apps = p.apps ++ kws.map (tupdate p.stock) := by
  induction kws with
  | nil => intro p; simp [buildApps]
  | cons kw kws ih =>
    intro p
    simp only [buildApps, List.foldl_cons] at ih ⊢
    rw [ih]
    simp [buildApp, loadFunctions]

theorem buildAppsShared_eq (kws : List Table) : ∀ p : SProc,
    buildAppsShared p kws = ⟨kws.foldl tupdate p.shared, p.napps + kws.length⟩ := by
  induction kws with
  | nil => intro p; rfl
  | cons kw kws ih =>
    intro p
    simp only [buildAppsShared, List.foldl_cons] at ih ⊢
    rw [ih]
    simp [buildAppShared]; omega

end Pydap.Ssf
