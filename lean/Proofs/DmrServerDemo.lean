/-
  A served dataset with attributes and Maps inside the hypotheses of `C11_server_roundtrip` (non-vacuity).
-/
import Proofs.DmrServer
namespace Pydap.Dmr

/-- a served variable with an int list, a numpy uint8 scalar, a float, a string with XML-special characters and two Maps -/
def srvDemo : SrvTree :=
  .var ⟨"x".toList, 'i', "int16".toList, [("/x".toList, 2)],
    [⟨"rng".toList, [.int false 3 (-1), .int false 3 2]⟩, ⟨"flag".toList, [.int true 0 200]⟩,
     ⟨"scale".toList, [.float true "1.5".toList]⟩, ⟨"t".toList, [.text "a<b&c".toList]⟩],
    ["/x".toList, "/x".toList]⟩ .nil


theorem srvDemo_ok : (dimsSpec [("x".toList, 2)] (srvSpec srvDemo)).ok := by
  refine ⟨⟨by decide, by decide⟩, ⟨by decide, ⟨by decide, by decide, by decide, by decide⟩, ?_, by decide⟩, trivial⟩
  intro a ha
  simp only [srvVarSpec, List.map_cons, List.map_nil, List.mem_cons, List.not_mem_nil, or_false] at ha
  rcases ha with rfl | rfl | rfl | rfl <;> apply srvAttr_ok
  · exact Or.inl (by intro v hv; simp at hv; rcases hv with rfl | rfl <;> exact ⟨_, _, _, rfl⟩)
  · exact Or.inl (by intro v hv; simp at hv; subst hv; exact ⟨_, _, _, rfl⟩)
  · exact Or.inr (Or.inl (by intro v hv; simp at hv; subst hv; exact ⟨_, _, rfl⟩))
  · exact Or.inr (Or.inr (by intro v hv; simp at hv; subst hv; exact ⟨_, rfl⟩))


end Pydap.Dmr
