import PydapModel.Slice
import PydapModel.Handler
import PydapModel.FileSlab
/-
  C20 — a hyperslab whose stride is larger than its span selects exactly its first position.
-/
namespace Pydap
open Pydap.Handler

theorem sel_wide_stride (N : Nat) (a k b : Int)
    (hv : validSl N ⟨some a, some (b + 1), some k⟩ = true) (hN : 0 < N) (hk : b - a < k) :
    sel N ⟨some a, some (b + 1), some k⟩ = [a.toNat] := by
  simp only [validSl, Option.getD_some, decide_eq_true_eq] at hv
  obtain ⟨h0, h1, h2, h3⟩ := hv
  have haN : a < N := by omega
  obtain ⟨a', rfl⟩ := Int.eq_ofNat_of_zero_le h0
  obtain ⟨k', rfl⟩ := Int.eq_ofNat_of_zero_le (by omega : 0 ≤ k)
  obtain ⟨b', rfl⟩ := Int.eq_ofNat_of_zero_le (by omega : 0 ≤ b)
  simp only [sel, npBound, Option.getD_some]
  have e1 : (if (a' : Int) < 0 then max ((a' : Int) + N) 0 else min (a' : Int) N).toNat = a' := by
    rw [if_neg (by omega)]; omega
  have e2 : (if (b' : Int) + 1 < 0 then max ((b' : Int) + 1 + N) 0 else min ((b' : Int) + 1) N).toNat = min (b' + 1) N := by
    rw [if_neg (by omega)]; omega
  rw [e1, e2, Int.toNat_natCast]
  have hx1 : 1 ≤ min (b' + 1) N - a' := by omega
  have hx2 : min (b' + 1) N - a' ≤ k' := by omega
  have : (min (b' + 1) N - a' + k' - 1) / k' = 1 := by
    apply Nat.div_eq_of_lt_le <;> omega
  rw [this]
  simp [List.range']

namespace FileHandlers

/-- an axis of extent `n` and a hyperslab `[a:k:b]` on it that `check_hyperslab` accepts and whose stride exceeds
    its span -/
def WideAxis (n : Nat) (t : Nat × Nat × Nat) : Prop :=
  0 < n ∧ validSl n ⟨some (t.1 : Int), some ((t.2.2 : Int) + 1), some (t.2.1 : Int)⟩ = true ∧ t.2.2 - t.1 < t.2.1

theorem keyPositions_wide : ∀ (shape : List Nat) (h : Hyperslab), shape.length = h.length →
    (∀ p ∈ shape.zip h, WideAxis p.1 p.2) → keyPositions shape (keyOfHyperslab h) = h.map fun t => [t.1]
  | [], [], _, _ => rfl
  | [], _ :: _, hl, _ => by simp at hl
  | _ :: _, [], hl, _ => by simp at hl
  | n :: sh, t :: h, hl, hw => by
    have ih := keyPositions_wide sh h (by simpa using hl) (fun p hp => hw p (by simp [hp]))
    obtain ⟨hn, hv, hk⟩ := hw (n, t) (by simp)
    dsimp only at hn hv hk
    simp only [keyPositions, keyOfHyperslab, List.map_cons, List.zipWith_cons_cons, List.cons.injEq] at ih ⊢
    refine ⟨?_, ih⟩
    have := sel_wide_stride n t.1 t.2.1 t.2.2 hv hn (by omega)
    simpa using this

end FileHandlers
end Pydap
