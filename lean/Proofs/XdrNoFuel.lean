/-
  C05: adequacy of the fuel on EVERY stream: `decImpl` never fails with the model's own `fuel` error.
-/
import Proofs.XdrFuel
import Proofs.StreamFuel
namespace Pydap.Xdr
open Pydap.Stream (Dec SR NoFuel)

theorem liftD_noFuel (x : Except Err α) (h : x ≠ .error .fuel) : NoFuel (liftD x) := by
  cases x with
  | ok a => exact NoFuel.ret a
  | error e => exact NoFuel.fail _ (fun h' => h (by rw [(errMap_fuel e).mp h']))

theorem asciiDecode_nf (b : Bytes) : asciiDecode b ≠ .error .fuel := by
  unfold asciiDecode; split <;> simp

theorem fromWire_nf (ty : Ty) (b : Bytes) : fromWire ty b ≠ .error .fuel := by
  unfold fromWire; split <;> simp

theorem fromWireMany_nf (ty : Ty) : ∀ (n : Nat) (b : Bytes), fromWireMany ty n b ≠ .error .fuel
  | 0, b => by unfold fromWireMany; split <;> simp
  | n + 1, b => by
    unfold fromWireMany
    cases h1 : fromWire ty (b.take (wireWidth ty)) with
    | error e => have := fromWire_nf ty (b.take (wireWidth ty)); rw [h1] at this; simpa using this
    | ok v =>
      simp only []
      cases h2 : fromWireMany ty n (b.drop (wireWidth ty)) with
      | error e => have := fromWireMany_nf ty n (b.drop (wireWidth ty)); rw [h2] at this; simpa using this
      | ok vs => simp

theorem decodeAll_nf : ∀ vs : List Val, decodeAll vs ≠ .error .fuel
  | [] => by simp [decodeAll]
  | .str b :: vs => by
    unfold decodeAll
    cases h1 : asciiDecode b with
    | error e => have := asciiDecode_nf b; rw [h1] at this; simpa using this
    | ok t =>
      simp only []
      cases h2 : decodeAll vs with
      | error e => have := decodeAll_nf vs; rw [h2] at this; simpa using this
      | ok ts => simp
  | .num n :: vs => by
    unfold decodeAll
    cases h2 : decodeAll vs with
    | error e => have := decodeAll_nf vs; rw [h2] at this; simpa using this
    | ok ts => simp

theorem splitRecord_nf : ∀ (cs : List Tmpl) (b : Bytes), splitRecord cs b ≠ .error .fuel
  | [], b => by simp [splitRecord]
  | .struct _ :: cs, b => by simp [splitRecord]
  | .seq _ :: cs, b => by simp [splitRecord]
  | .base ty sh :: cs, b => by
    unfold splitRecord
    cases h1 : fromWire ty (b.take (parserWidth ty)) with
    | error e => have := fromWire_nf ty (b.take (parserWidth ty)); rw [h1] at this; simpa using this
    | ok v =>
      simp only []
      cases h2 : splitRecord cs (b.drop (parserWidth ty)) with
      | error e => have := splitRecord_nf cs (b.drop (parserWidth ty)); rw [h2] at this; simpa using this
      | ok ds => simp

theorem readD_noFuel (n : Nat) : NoFuel (readD n) := NoFuel.read _ _ fun b => NoFuel.ret b

theorem readLenD_noFuel : NoFuel readLenD := by
  unfold readLenD
  refine NoFuel.read _ _ fun p => ?_
  split
  · exact NoFuel.fail _ (by decide)
  · split
    · exact NoFuel.fail _ (by decide)
    · exact NoFuel.ret _

theorem readStringD_noFuel : NoFuel readStringD :=
  readLenD_noFuel.bind fun k => (readD_noFuel k).bind fun b => (liftD_noFuel _ (asciiDecode_nf b)).bind fun t =>
    (readD_noFuel _).bind fun _ => NoFuel.ret t

theorem readStringsD_noFuel : ∀ n, NoFuel (readStringsD n)
  | 0 => NoFuel.ret _
  | n + 1 => readLenD_noFuel.bind fun k => (readD_noFuel k).bind fun _ => (readD_noFuel _).bind fun _ =>
      (readStringsD_noFuel n).bind fun _ => NoFuel.ret _

theorem convertStreamD_noFuel (ty : Ty) (shape : List Nat) : NoFuel (convertStreamD ty shape) := by
  unfold convertStreamD
  split
  · refine readLenD_noFuel.bind fun n => ?_
    split
    · refine (readStringsD_noFuel n).bind fun raw => (liftD_noFuel _ (decodeAll_nf raw)).bind fun vs => ?_
      split
      · exact NoFuel.fail _ (by decide)
      · exact NoFuel.ret _
    · refine (readD_noFuel 4).bind fun _ => (readD_noFuel _).bind fun b =>
        (liftD_noFuel _ (fromWireMany_nf ty n b)).bind fun vs => ?_
      split
      · exact NoFuel.fail _ (by decide)
      · split
        · exact (readD_noFuel _).bind fun _ => NoFuel.ret _
        · exact NoFuel.ret _
  · split
    · exact readStringD_noFuel.bind fun t => NoFuel.ret _
    · refine (readD_noFuel _).bind fun b => (liftD_noFuel _ (fromWire_nf ty b)).bind fun v => ?_
      split
      · exact (readD_noFuel 3).bind fun _ => NoFuel.ret _
      · exact NoFuel.ret _

theorem nf_of_run {d : Dec α} {x : Except Err (α × Bytes)} {s : Bytes} (h : d.runBR s = mapE x)
    (hn : d.runBR s ≠ .error .fuel) : x ≠ .error .fuel := by
  intro hx
  rw [hx] at h
  exact hn h

theorem convertStream_nf (ty : Ty) (shape : List Nat) (s : Bytes) : convertStream ty shape s ≠ .error .fuel :=
  nf_of_run (run_convertStreamD ty shape s) ((convertStreamD_noFuel ty shape).run s)

theorem read_nf (n : Nat) (s : Bytes) : read n s ≠ .error .fuel := by
  unfold read; split <;> simp

theorem decRowsSimple_nf (cs : List Tmpl) : ∀ (f : Nat) (s : Bytes), s.length < f →
    decRowsSimple cs f s ≠ .error .fuel
  | 0, _, h => by omega
  | f + 1, s, h => by
    unfold decRowsSimple
    cases hm : read 4 s with
    | error e => have := read_nf 4 s; rw [hm] at this; simpa using this
    | ok m =>
      obtain ⟨a, s1⟩ := m
      have l1 := read_len hm
      simp only []
      split
      · cases hp : read (recordSize cs) s1 with
        | error e => have := read_nf (recordSize cs) s1; rw [hp] at this; simpa using this
        | ok p =>
          obtain ⟨b, s2⟩ := p
          have l2 := read_len hp
          simp only []
          cases hr : splitRecord cs b with
          | error e => have := splitRecord_nf cs b; rw [hr] at this; simpa using this
          | ok r =>
            simp only []
            cases hd : decRowsSimple cs f s2 with
            | error e => have := decRowsSimple_nf cs f s2 (by omega); rw [hd] at this; simpa using this
            | ok p4 => simp
      · simp

mutual
theorem dec_nf : ∀ (f : Nat) (t : Tmpl) (s : Bytes), s.length + tsize t ≤ f → dec f t s ≠ .error .fuel
  | 0, t, _, h => by have := tsize_pos t; omega
  | f + 1, .base ty shape, s, _ => by simp only [dec]; exact convertStream_nf ty shape s
  | f + 1, .struct cs, s, h => by
    simp only [tsize] at h
    simp only [dec]
    cases hd : decs f cs s with
    | error e => have := decs_nf f cs s (by omega); rw [hd] at this; simpa using this
    | ok p => simp
  | f + 1, .seq cs, s, h => by
    simp only [tsize] at h
    have := tsizes_pos cs
    simp only [dec]
    split
    · cases hd : decRowsSimple cs f s with
      | error e => have := decRowsSimple_nf cs f s (by omega); rw [hd] at this; simpa using this
      | ok p => simp
    · cases hd : decRows f cs s with
      | error e => have := decRows_nf f cs s (by omega); rw [hd] at this; simpa using this
      | ok p => simp
theorem decs_nf : ∀ (f : Nat) (cs : List Tmpl) (s : Bytes), s.length + tsizes cs ≤ f → decs f cs s ≠ .error .fuel
  | 0, cs, _, h => by have := tsizes_pos cs; omega
  | f + 1, [], s, _ => by simp [decs]
  | f + 1, c :: cs, s, h => by
    simp only [tsizes] at h
    simp only [decs]
    cases hd : dec f c s with
    | error e => have := dec_nf f c s (by omega); rw [hd] at this; simpa using this
    | ok p =>
      obtain ⟨d, s1⟩ := p
      have := dec_len hd
      simp only []
      cases hd2 : decs f cs s1 with
      | error e => have := decs_nf f cs s1 (by omega); rw [hd2] at this; simpa using this
      | ok p2 => simp
theorem decRows_nf : ∀ (f : Nat) (cs : List Tmpl) (s : Bytes), s.length + tsizes cs + 1 ≤ f →
    decRows f cs s ≠ .error .fuel
  | 0, _, _, h => by omega
  | f + 1, cs, s, h => by
    simp only [decRows]
    cases hm : read 4 s with
    | error e => have := read_nf 4 s; rw [hm] at this; simpa using this
    | ok m =>
      obtain ⟨a, s1⟩ := m
      have l1 := read_len hm
      simp only []
      split
      · cases hd : decs f cs s1 with
        | error e => have := decs_nf f cs s1 (by omega); rw [hd] at this; simpa using this
        | ok p =>
          obtain ⟨ds, s2⟩ := p
          have := decs_len hd
          simp only []
          cases hd2 : decRows f cs s2 with
          | error e => have := decRows_nf f cs s2 (by omega); rw [hd2] at this; simpa using this
          | ok p3 => simp
      · simp
end

/-- **fuel adequacy on every stream**: the record loops of the model never run out of the fuel `decImpl` passes -/
theorem decImpl_nf (t : Tmpl) (s : Bytes) : decImpl t s ≠ .error .fuel := by
  unfold decImpl fuelFor
  exact dec_nf _ t s (by omega)

end Pydap.Xdr
